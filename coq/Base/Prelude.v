(* Prelude: time as integer nanosecond ticks, interval sets, membership, canonicity.
   No property theorems here; only definitions and small structural lemmas. *)
From Coq Require Export ZArith List Bool Lia.
From Coq Require Import ZifyBool.
Export ListNotations.
Open Scope Z_scope.

Definition time := Z.
Definition us : Z := 1000.            (* one microsecond in ticks *)

Definition iset := list (Z * Z).

Definition inb (x : Z) (I : Z * Z) : bool := (fst I <=? x) && (x <=? snd I).
Definition mem (x : Z) (A : iset) : bool := existsb (inb x) A.

(* canonical, as the property states it: every interval proper, consecutive ones separated. *)
Fixpoint canonical (A : iset) : Prop :=
  match A with
  | [] => True
  | (s, e) :: r => s < e /\ match r with [] => True | (s', _) :: _ => e < s' end /\ canonical r
  end.

(* inductive-friendly form: everything starts strictly after [lo] *)
Fixpoint canon (lo : Z) (A : iset) : Prop :=
  match A with
  | [] => True
  | (s, e) :: r => lo < s /\ s < e /\ canon e r
  end.

Fixpoint canonicalb (A : iset) : bool :=
  match A with
  | [] => true
  | (s, e) :: r => (s <? e) && match r with [] => true | (s', _) :: _ => e <? s' end && canonicalb r
  end.

Definition starts (A : iset) : list Z := map fst A.
Definition ends (A : iset) : list Z := map snd A.

Fixpoint tot_length (A : iset) : Z :=
  match A with [] => 0 | (s, e) :: r => (e - s) + tot_length r end.

(* sorted lists of Z (non-decreasing), as a simple recursive predicate *)
Fixpoint sorted_from (lo : Z) (l : list Z) : Prop :=
  match l with [] => True | x :: r => lo <= x /\ sorted_from x r end.
Definition sortedZ (l : list Z) : Prop :=
  match l with [] => True | x :: r => sorted_from x r end.

Fixpoint sortedb_from (lo : Z) (l : list Z) : bool :=
  match l with [] => true | x :: r => (lo <=? x) && sortedb_from x r end.
Definition sortedZb (l : list Z) : bool :=
  match l with [] => true | x :: r => sortedb_from x r end.

(* indices (positions) of the elements satisfying p *)
Fixpoint filter_idx {A} (p : A -> bool) (i : nat) (l : list A) : list nat :=
  match l with
  | [] => []
  | x :: r => if p x then i :: filter_idx p (S i) r else filter_idx p (S i) r
  end.

Fixpoint count_if {A} (p : A -> bool) (l : list A) : nat :=
  match l with [] => O | x :: r => if p x then S (count_if p r) else count_if p r end.
