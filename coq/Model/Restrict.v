(* Functional model of jitrestrict / jitrestrict_with_count / jitin_interval
   (pynapple/core/_jitted_functions.py).  One scan, three read-outs.
   The scan follows the kernel's phases per interval: "outside" (advance while t < start),
   "inside" (collect while t <= end). No proofs in this file. *)
From Verif Require Import Base.Prelude.

(* outside phase: skip samples strictly before s; returns new position and remaining samples *)
Fixpoint drop_lt (s : Z) (i : nat) (ts : list Z) : nat * list Z :=
  match ts with
  | [] => (i, [])
  | t :: r => if t <? s then drop_lt s (S i) r else (i, ts)
  end.

(* inside phase: collect positions of samples <= e *)
Fixpoint take_le (e : Z) (i : nat) (ts : list Z) : list nat * (nat * list Z) :=
  match ts with
  | [] => ([], (i, []))
  | t :: r => if t <=? e then let '(ix, st) := take_le e (S i) r in (i :: ix, st)
              else ([], (i, ts))
  end.

(* per-interval index lists *)
Fixpoint restrict_scan (ep : iset) (i : nat) (ts : list Z) : list (list nat) :=
  match ep with
  | [] => []
  | (s, e) :: r =>
      let '(i1, ts1) := drop_lt s i ts in
      let '(ix, (i2, ts2)) := take_le e i1 ts1 in
      ix :: restrict_scan r i2 ts2
  end.

Definition restrict_idx (ts : list Z) (ep : iset) : list nat := concat (restrict_scan ep 0%nat ts).
Definition restrict_cnt (ts : list Z) (ep : iset) : list nat := map (@length nat) (restrict_scan ep 0%nat ts).

(* jitin_interval: for every sample, the index of the interval holding it, or None (NaN) *)
Fixpoint find_interval (x : Z) (k : nat) (ep : iset) : option nat :=
  match ep with
  | [] => None
  | iv :: r => if inb x iv then Some k else find_interval x (S k) r
  end.
Definition in_interval (ts : list Z) (ep : iset) : list (option nat) :=
  map (fun t => find_interval t 0%nat ep) ts.

(* selecting rows by index *)
Definition select {A} (d : A) (rows : list A) (ix : list nat) : list A := map (fun i => nth i rows d) ix.

Definition restrict_ts (ts : list Z) (ep : iset) : list Z := select 0 ts (restrict_idx ts ep).
