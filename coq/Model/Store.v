(* Tier W: the public operations as a state machine over a store of live objects (DESIGN.md 5 C04).
   Data values are abstracted away: a series is its timestamps and its support; operations whose result
   depends on the data (threshold, dropna) take the kept/rejected mask as an explicit argument.
   Every operation returns through a constructor, exactly as the wrappers do:
     mk_ts      = Ts/Tsd(t)                      sort, default support [first, last]
     mk_ts_sup  = Ts/Tsd(t, time_support = ep)   sort, restrict to ep, support ep (empty if nothing survives)
     mk_iset    = IntervalSet(start, end)        (Model/Iset.v)
   No proofs in this file. *)
From Verif Require Import Base.Prelude Model.Restrict Model.Iset Model.Count Model.ValueFrom Model.Threshold Model.Slice.

Record ts := { t_ : list Z; sup_ : iset }.
Inductive obj := OTs (x : ts) | OEp (e : iset).

(* _Base.__init__ keeps the given support whenever the INPUT index is non-empty (even if the restriction
   then removes every sample); an empty input index gets the empty support *)
Definition mk_ts_sup (t : list Z) (ep : iset) : ts :=
  {| t_ := restrict_ts (sortZ t) ep; sup_ := match t with [] => [] | _ => ep end |}.

Definition mk_ts (t : list Z) : ts :=
  let s := sortZ t in
  match s with
  | [] => {| t_ := []; sup_ := [] |}
  | x :: _ => mk_ts_sup s (mk_iset [x] [last s x])
  end.

Definition empty_ts : ts := {| t_ := []; sup_ := [] |}.
Definition get_ts (st : list obj) (i : nat) : ts := match nth i st (OEp []) with OTs x => x | OEp _ => empty_ts end.
Definition get_ep (st : list obj) (i : nat) : iset := match nth i st (OEp []) with OEp e => e | OTs x => sup_ x end.

Inductive op :=
| OpMkTs (t : list Z)
| OpMkTsSup (t : list Z) (j : nat)
| OpMkEp (ss es : list Z)
| OpSupport (i : nat)
| OpRestrict (i j : nat)
| OpGet (i : nat) (a b : Z)
| OpCount (i j : nat) (b : Z)            (* bin size 2*b: centres on ticks *)
| OpValueFrom (i k j : nat)              (* store[i].value_from(store[k], ep = store[j]) *)
| OpThreshold (i : nat) (mask : list bool)
| OpDropna (i : nat) (mask : list bool)
| OpUnion (i j : nat) | OpInter (i j : nat) | OpDiff (i j : nat)
| OpTimeSpan (i : nat)
| OpDropShort (i : nat) (thr : Z)
| OpMergeClose (i : nat) (thr : Z).

Definition halve_iset (A : iset) : iset := map (fun '(s, e) => (s / 2, e / 2)) A.

(* merge_close_intervals: union of [s_i, e_i] closing gaps <= thr (interval_set.py) *)
Fixpoint merge_close_go (cs ce thr : Z) (l : iset) : iset :=
  match l with
  | [] => [(cs, ce)]
  | (s, e) :: r => if s - ce <=? thr then merge_close_go cs e thr r else (cs, ce) :: merge_close_go s e thr r
  end.
Definition merge_close (A : iset) (thr : Z) : iset :=
  match A with [] => [] | (s, e) :: r => merge_close_go s e thr r end.

Definition step (st : list obj) (o : op) : obj :=
  match o with
  | OpMkTs t => OTs (mk_ts t)
  | OpMkTsSup t j => OTs (mk_ts_sup t (get_ep st j))
  | OpMkEp ss es => OEp (mk_iset ss es)
  | OpSupport i => OEp (sup_ (get_ts st i))
  | OpRestrict i j => OTs (mk_ts_sup (restrict_ts (t_ (get_ts st i)) (get_ep st j)) (get_ep st j))
  | OpGet i a b => let x := get_ts st i in OTs (mk_ts_sup (get_times a b (t_ x)) (sup_ x))
  | OpCount i j b =>
      let ep := get_ep st j in
      OTs (mk_ts_sup (map (fun cb => fst cb / 2) (count_binned (t_ (get_ts st i)) ep (2 * b))) ep)
  | OpValueFrom i k j =>
      let ep := get_ep st j in OTs (mk_ts_sup (restrict_ts (t_ (get_ts st i)) ep) ep)
  | OpThreshold i mask =>
      let x := get_ts st i in
      let l := combine (t_ x) mask in
      OTs (mk_ts_sup (kept_times l) (mk_iset_pairs (halve_iset (threshold_support (sup_ x) l))))
  | OpDropna i mask =>
      let x := get_ts st i in
      let l := combine (t_ x) mask in
      (* _dropna: no NaN row -> series and support returned unchanged; otherwise runs of kept rows *)
      if forallb (fun p => snd p) l then OTs (mk_ts_sup (t_ x) (sup_ x))
      else OTs (mk_ts_sup (kept_times l) (mk_iset_pairs (dropna_support l)))
  | OpUnion i j => OEp (iset_union (get_ep st i) (get_ep st j))
  | OpInter i j => OEp (iset_inter (get_ep st i) (get_ep st j))
  | OpDiff i j => OEp (iset_diff (get_ep st i) (get_ep st j))
  | OpTimeSpan i => let A := get_ep st i in
      OEp (match A with [] => [] | (s, _) :: _ => mk_iset [s] [snd (last A (0, 0))] end)
  | OpDropShort i thr => OEp (mk_iset_pairs (filter (fun '(s, e) => thr <? e - s) (get_ep st i)))
  | OpMergeClose i thr => OEp (mk_iset_pairs (merge_close (get_ep st i) thr))
  end.

Definition run (ops : list op) : list obj := fold_left (fun st o => st ++ [step st o]) ops [].

(* well-formedness *)
Definition WF_ts (x : ts) : Prop :=
  sortedZ (t_ x) /\ Forall (fun v => mem v (sup_ x) = true) (t_ x) /\ canonical (sup_ x).
Definition WF_obj (o : obj) : Prop := match o with OTs x => WF_ts x | OEp e => canonical e end.
