(* Functional models of jitcount and _jitbin_array (pynapple/core/_jitted_functions.py) on ticks.
   Bin centres are reported DOUBLED (2*centre = 2*lbound + bin_size) so that everything stays in Z;
   np.round(., 9) is the identity on ticks.  No proofs in this file. *)
From Verif Require Import Base.Prelude Model.Restrict.

(* ceil division for positive divisor *)
Definition cdiv (a b : Z) : Z := (a + b - 1) / b.

(* nb_bins[k] as computed by the kernel (an upper bound on the bins of interval k) *)
Definition nb_bins (s e b : Z) : nat :=
  Z.to_nat (if b <? e - s then cdiv (e + b - s) b else 1).

(* split the (sorted) samples of one interval at the right edge of the current bin *)
Fixpoint span_lt (rb : Z) (ts : list Z) : list Z * list Z :=
  match ts with
  | [] => ([], [])
  | t :: r => if t <? rb then let '(a, c) := span_lt rb r in (t :: a, c) else ([], ts)
  end.

(* bins of one interval: (2*centre, samples falling in the bin), the kernel's loop with
   [fuel] = nb_bins, stop when the centre exceeds the end *)
Fixpoint bins_go (fuel : nat) (lb e b : Z) (ts : list Z) : list (Z * list Z) :=
  match fuel with
  | O => []
  | S f =>
      if 2 * e <? 2 * lb + b then []
      else let '(inside, rest) := span_lt (lb + b) ts in
           (2 * lb + b, inside) :: bins_go f (lb + b) e b rest
  end.

(* samples (values) of each interval, via the restrict scan *)
Definition samples_per_interval (ts : list Z) (ep : iset) : list (list Z) :=
  map (select 0 ts) (restrict_scan ep 0%nat ts).

Definition count_binned (ts : list Z) (ep : iset) (b : Z) : list (Z * nat) :=
  concat (map (fun '((s, e), smp) => map (fun '(c, l) => (c, length l)) (bins_go (nb_bins s e b) s e b smp))
              (combine ep (samples_per_interval ts ep))).

(* bin_average on (time, value) rows: same grid; per bin (2*centre, count, sum of values) *)
Fixpoint span_lt_rows (rb : Z) (rows : list (Z * Z)) : list (Z * Z) * list (Z * Z) :=
  match rows with
  | [] => ([], [])
  | (t, v) :: r => if t <? rb then let '(a, c) := span_lt_rows rb r in ((t, v) :: a, c) else ([], rows)
  end.
Fixpoint bins_rows_go (fuel : nat) (lb e b : Z) (rows : list (Z * Z)) : list (Z * list (Z * Z)) :=
  match fuel with
  | O => []
  | S f =>
      if 2 * e <? 2 * lb + b then []
      else let '(inside, rest) := span_lt_rows (lb + b) rows in
           (2 * lb + b, inside) :: bins_rows_go f (lb + b) e b rest
  end.
Definition sumZ (l : list Z) : Z := fold_right Z.add 0 l.
Definition rows_per_interval (ts vs : list Z) (ep : iset) : list (list (Z * Z)) :=
  map (fun ix => combine (select 0 ts ix) (select 0 vs ix)) (restrict_scan ep 0%nat ts).
Definition bin_sum_cnt (ts vs : list Z) (ep : iset) (b : Z) : list (Z * (nat * Z)) :=
  concat (map (fun '((s, e), rows) =>
                 map (fun '(c, l) => (c, (length l, sumZ (map snd l)))) (bins_rows_go (nb_bins s e b) s e b rows))
              (combine ep (rows_per_interval ts vs ep))).

(* ---- the specification the property states ---- *)
(* number of reported bins of [s,e]: the j with 2(s + j b) + b <= 2e *)
Definition n_reported (s e b : Z) : nat :=
  Z.to_nat (if 2 * (e - s) <? b then 0 else (2 * (e - s) - b) / (2 * b) + 1).
Definition in_bin (l b t : Z) : bool := (l <=? t) && (t <? l + b).
Definition count_spec_interval (ts : list Z) (s e b : Z) : list (Z * nat) :=
  map (fun j => let l := s + Z.of_nat j * b in
                (2 * l + b, count_if (fun t => inb t (s, e) && in_bin l b t) ts))
      (seq 0 (n_reported s e b)).
Definition count_spec (ts : list Z) (ep : iset) (b : Z) : list (Z * nat) :=
  concat (map (fun '(s, e) => count_spec_interval ts s e b) ep).
