(* Model of pynapple/process/spectrum.py (tier N: numeric bookkeeping around np.fft.fft).
   compute_fft, compute_power_spectral_density, _overlap_split, compute_mean_power_spectral_density.

   * frequencies are carried as the INTEGER multiplier k of fs/n (np.fft.fftfreq(n, 1/fs)[i] = k_i * fs/n);
     for fs > 0 the order of the frequencies is the order of k and "index >= 0" is "k >= 0";
   * the sampling rate fs is a rational (every float is one); the one-sided mask is `k > 0` (repaired tree);
   * times are integer nanosecond ticks; interval_size L and the step st = (1-overlap)*L are ticks
     (a rational overlap a/b is covered by running the model on times scaled by b);
   * data values, DFT coefficients and powers live in an ABSTRACT field K (Record Field; the laws are
     hypotheses of the theorems, never axioms): the real numbers with np.fft.fft instantiate it;
   * the DFT itself (dft) and scipy's Hamming window (window) are parameters of the model.
   No proofs in this file. *)
From Coq Require Import QArith.
From Verif Require Import Base.Prelude Model.Restrict Model.Count Model.Slice.
Open Scope Z_scope.

(* ---------------------------------------------------------------------------------------------- *)
(* 1. frequency bookkeeping                                                                        *)

Definition zrange (a : Z) (len : nat) : list Z := map (fun i => a + Z.of_nat i) (seq 0 len).

(* np.fft.fftfreq(n, d) * (n*d):  [0 .. N-1] ++ [-(n//2) .. -1]  with N = (n-1)//2 + 1 (= (n+1)//2 for n >= 1) *)
Definition fftfreq_idx (n : nat) : list Z :=
  zrange 0 ((n + 1) / 2)%nat ++ zrange (- Z.of_nat (n / 2)) (n / 2)%nat.

Definition freq (fs : Q) (n : nat) (k : Z) : Q := (inject_Z k * fs / inject_Z (Z.of_nat n))%Q.

Section Keyed.
  Context {V : Type}.
  (* pd.DataFrame(values, index).sort_index(): rows sorted by key (keys are distinct) *)
  Fixpoint insert_k (kv : Z * V) (l : list (Z * V)) : list (Z * V) :=
    match l with
    | [] => [kv]
    | x :: r => if fst kv <=? fst x then kv :: l else x :: insert_k kv r
    end.
  Definition sort_k (l : list (Z * V)) : list (Z * V) := fold_right insert_k [] l.
  Definition fft_table (n : nat) (X : list V) : list (Z * V) := sort_k (combine (fftfreq_idx n) X).
  (* ret.loc[ret.index >= 0] *)
  Definition nonneg (l : list (Z * V)) : list (Z * V) := filter (fun kv => 0 <=? fst kv) l.
  Definition spectrum_rows (full : bool) (n : nat) (X : list V) : list (Z * V) :=
    if full then fft_table n X else nonneg (fft_table n X).
End Keyed.

(* the one-sided doubling mask, as repaired in /repo:  doubled_freqs = index > 0  (on the rows index >= 0) *)
Definition doubled (k : Z) : bool := 0 <? k.
Definition double_rows {V : Type} (dbl : V -> V) (rows : list (Z * V)) : list (Z * V) :=
  map (fun kv => if doubled (fst kv) then (fst kv, dbl (snd kv)) else kv) rows.

(* HISTORY: the mask before the repair, (index != 0) & (index < fs/2 - 1e-6).  Its absolute 1e-6 guard is exact
   only for fs/(2n) > 1e-6 (mask_orig_exact) and wrong below (mask_orig_low_rate_refuted). Not used by the model. *)
Definition eps6 : Q := 1 # 1000000.
Definition Qltb (a b : Q) : bool := negb (Qle_bool b a).
Definition mask_orig (fs : Q) (n : nat) (k : Z) : bool :=
  negb (k =? 0) && Qltb (freq fs n k) (fs / (2 # 1) - eps6)%Q.

(* np.fft.fft(a, n): crop or zero-pad to n points *)
Definition crop_pad {A : Type} (zero : A) (n : nat) (x : list A) : list A :=
  firstn n x ++ repeat zero (n - length x).

(* sig.restrict(ep).values for the single epoch [s, e] (jitrestrict, Model/Restrict.v) *)
Definition epoch_rows {A : Type} (d : A) (ts : list Z) (rows : list A) (s e : Z) : list A :=
  select d rows (restrict_idx ts [(s, e)]).

(* vocabulary of the property's statement *)
(* the samples inside the closed epoch [s, e], each with its own value *)
Definition inside {A : Type} (ts : list Z) (vs : list A) (s e : Z) : list A :=
  map snd (filter (fun tv => (s <=? fst tv) && (fst tv <=? e)) (combine ts vs)).
(* the multipliers k reported, in increasing order: all of -(n//2) .. ceil(n/2)-1, or the non-negative ones *)
Definition krange (full : bool) (n : nat) : list Z :=
  if full then zrange (- Z.of_nat (n / 2)) n else zrange 0 ((n + 1) / 2).

(* ---------------------------------------------------------------------------------------------- *)
(* 2. _overlap_split and the slicing of compute_mean_power_spectral_density (ticks)                *)

(* inner loop of _overlap_split for one epoch:  while t + L < e: emit (t, t+L); t += st *)
Fixpoint seg_go (fuel : nat) (t e L st : Z) : list (Z * Z) :=
  match fuel with
  | O => []
  | S f => if t + L <? e then (t, t + L) :: seg_go f (t + st) e L st else []
  end.
Definition seg_fuel (s e st : Z) : nat := Z.to_nat ((e - s) / st + 1).
Definition overlap_split (ep : iset) (L st : Z) : list (Z * Z) :=
  concat (map (fun '(s, e) => seg_go (seg_fuel s e st) s e L st) ep).

(* number of segments of one epoch, closed form (what the property states: all j with s + j*st + L < e) *)
Definition seg_count (s e L st : Z) : nat :=
  Z.to_nat (if e - s - L <=? 0 then 0 else (e - s - L + st - 1) / st).

(* the row bound the kernel allocates: N = ceil(sum(end - start) / ((1-overlap) L)), N + 1 rows *)
Definition alloc_rows (ep : iset) (st : Z) : Z := (tot_length ep + st - 1) / st + 1.

(* sig.get_slice(a, b) per segment: positional slices [i0, i1) *)
Definition seg_slices (ts : list Z) (segs : list (Z * Z)) : list (nat * nat) :=
  map (fun '(a, b) => get_range a b ts) segs.
Definition slice_len (ab : nat * nat) : nat := (snd ab - fst ab)%nat.
(* N = np.min(np.diff(slices, 1)) *)
Definition min_len (sl : list (nat * nat)) : nat :=
  match sl with
  | [] => 0%nat
  | x :: r => fold_right (fun y m => Nat.min (slice_len y) m) (slice_len x) r
  end.
(* None = the function raises (no segment fits / a segment holds no sample) *)
Definition mean_plan (ts : list Z) (ep : iset) (L st : Z) : option (nat * list (nat * nat)) :=
  let sl := seg_slices ts (overlap_split ep L st) in
  match sl with
  | [] => None
  | _ => let N := min_len sl in if (N =? 0)%nat then None else Some (N, sl)
  end.

(* ---------------------------------------------------------------------------------------------- *)
(* 3. values: an abstract field                                                                    *)

Record Field : Type := mkField {
  car :> Type;
  f0 : car; f1 : car;
  fadd : car -> car -> car; fmul : car -> car -> car; fsub : car -> car -> car;
  fopp : car -> car; fdiv : car -> car -> car; finv : car -> car }.

Fixpoint map2 {A B C : Type} (f : A -> B -> C) (l1 : list A) (l2 : list B) : list C :=
  match l1, l2 with
  | a :: r1, b :: r2 => f a b :: map2 f r1 r2
  | _, _ => []
  end.

Section OverField.
  Variable K : Field.
  Local Notation "x + y" := (fadd K x y).
  Local Notation "x * y" := (fmul K x y).

  Fixpoint ofnat (n : nat) : K := match n with O => f0 K | S m => f1 K + ofnat m end.
  Definition ofZ (z : Z) : K :=
    match z with
    | Z0 => f0 K
    | Zpos p => ofnat (Pos.to_nat p)
    | Zneg p => fopp K (ofnat (Pos.to_nat p))
    end.
  Definition ofQ (q : Q) : K := fdiv K (ofZ (Qnum q)) (ofnat (Pos.to_nat (Qden q))).

  Definition fsum (l : list K) : K := fold_right (fadd K) (f0 K) l.
  Definition sq (x : K) : K := x * x.
  Definition cplx : Type := (K * K)%type.
  Definition c0 : cplx := (f0 K, f0 K).
  Definition norm2 (z : cplx) : K := fst z * fst z + snd z * snd z.      (* |z|^2 *)
  Definition cdivn (n : nat) (z : cplx) : cplx := (fdiv K (fst z) (ofnat n), fdiv K (snd z) (ofnat n)).
  Definition two : K := f1 K + f1 K.

  (* the external routines *)
  Variable dft : list K -> list cplx.        (* np.fft.fft of a real signal, same length *)
  Variable window : nat -> list K.           (* scipy.signal.windows.hamming(N) *)

  (* the laws of np.fft.fft that the theorems name as hypotheses *)
  Definition length_law : Prop := forall x, length (dft x) = length x.
  Definition parseval_at (x : list K) : Prop :=
    fsum (map norm2 (dft x)) = ofnat (length x) * fsum (map sq x).
  Definition hermitian_at (x : list K) : Prop :=
    forall k, (0 < k < length x)%nat -> norm2 (nth (length x - k) (dft x) c0) = norm2 (nth k (dft x) c0).

  (* DFT coefficient of (signed) index k of an n-point transform X *)
  Definition coef (n : nat) (X : list cplx) (k : Z) : cplx := nth (Z.to_nat (k mod Z.of_nat n)) X c0.
  (* the values of the samples inside each segment of _overlap_split *)
  Definition chunks (ts : list Z) (vs : list K) (ep : iset) (L st : Z) : list (list K) :=
    map (fun ab => inside ts vs (fst ab) (snd ab)) (overlap_split ep L st).

  (* np.fft.fft(values, n) and the optional division by the length *)
  Definition fft_values (norm : bool) (n : nat) (x : list K) : list cplx :=
    let X := dft (crop_pad (f0 K) n x) in
    if norm then map (cdivn n) X else X.

  Definition resolve_n (n : option nat) (x : list K) : nat :=
    match n with Some m => m | None => length x end.

  (* compute_fft(sig, fs, ep=[s,e], full_range, norm, n): rows (k, value), frequency = k*fs/n *)
  Definition compute_fft (ts : list Z) (vs : list K) (s e : Z) (full norm : bool) (n : option nat)
    : list (Z * cplx) :=
    let x := epoch_rows (f0 K) ts vs s e in
    let n' := resolve_n n x in
    spectrum_rows full n' (fft_values norm n' x).

  (* compute_power_spectral_density *)
  Definition psd_scale (fs : Q) (n : nat) : K := finv K (ofQ fs * ofnat n).
  Definition psd (ts : list Z) (vs : list K) (s e : Z) (fs : Q) (full : bool) (n : option nat)
    : list (Z * K) :=
    let x := epoch_rows (f0 K) ts vs s e in
    let n' := resolve_n n x in
    let rows := map (fun kv => (fst kv, psd_scale fs n' * norm2 (snd kv)))
                    (compute_fft ts vs s e full false (Some n')) in
    if full then rows else double_rows (fun p => two * p) rows.

  (* compute_mean_power_spectral_density *)
  Definition periodogram (fs : Q) (N : nat) (seg : list K) : list K :=
    map (fun z => psd_scale fs N * norm2 z) (dft (map2 (fmul K) (firstn N seg) (window N))).
  Definition vadd (a b : list K) : list K := map2 (fadd K) a b.
  Definition mean_psd (ts : list Z) (vs : list K) (ep : iset) (L st : Z) (fs : Q) (full : bool)
    : option (list (Z * K)) :=
    match mean_plan ts ep L st with
    | None => None
    | Some (N, sl) =>
        let segs := map (fun ab => slice (fst ab) (snd ab) vs) sl in
        let acc := fold_left vadd (map (periodogram fs N) segs) (repeat (f0 K) N) in
        let avg := map (fun p => fdiv K p (ofnat (length sl))) acc in
        let rows := fft_table N avg in
        Some (if full then rows else double_rows (fun p => two * p) (nonneg rows))
    end.
End OverField.

(* ---------------------------------------------------------------------------------------------- *)
(* 4. symbolic instances run by the correspondence check (no field needed)                         *)

(* which DFT coefficient (position in np.fft.fft's output) lands in which row, and its multiplier k *)
Definition fft_positions (full : bool) (n : nat) : list (Z * nat) := spectrum_rows full n (seq 0 n).
(* the factor (1 or 2) applied to scale*|X|^2 in each row of the PSD *)
Definition psd_mults (full : bool) (n : nat) : list (Z * Z) :=
  let rows := spectrum_rows full n (repeat 1 n) in
  if full then rows else double_rows (fun m => 2 * m) rows.
(* the pre-repair mask on the one-sided rows, fs = fsn / fsd (history; compared with nothing on the current tree) *)
Definition psd_mults_orig (fsn fsd : Z) (n : nat) : list (Z * bool) :=
  map (fun kv => (fst kv, mask_orig (fsn # Z.to_pos fsd)%Q n (fst kv))) (spectrum_rows false n (repeat 1 n)).
Definition crop_pad_z (n : nat) (x : list Z) : list Z := crop_pad 0 n x.
Definition sumsq_z (x : list Z) : Z := fold_right (fun v a => v * v + a) 0 x.
Definition epoch_idx (ts : list Z) (s e : Z) : list nat := restrict_idx ts [(s, e)].
