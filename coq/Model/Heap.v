(* C10: an explicit heap, so that "operations never modify their arguments" is a statement that can fail.
   Objects hold LOCATIONS (of their values array, index array, support array, metadata frame); an operation
   is a heap transformer together with its effect summary: the set of locations it writes.
   An operation is ADMISSIBLE when everything it writes was unallocated before it ran (it only writes what it
   allocates itself).  Item assignment / set_info are the two sanctioned mutators: they write exactly one
   existing location, that of the addressed object.  No proofs in this file. *)
From Coq Require Import List Arith Bool.
Import ListNotations.

Section Heap.
Variable V : Type.                       (* contents of one array / frame *)
Definition loc := nat.
Definition heap := loc -> option V.

Record opn := { exec : heap -> heap; writes : heap -> list loc }.

(* the summary is honest: nothing outside the write set changes *)
Definition summary_sound (o : opn) : Prop :=
  forall h l, ~ In l (writes o h) -> exec o h l = h l.
(* admissible: writes only fresh locations *)
Definition writes_fresh (o : opn) : Prop :=
  forall h l, In l (writes o h) -> h l = None.
Definition admissible (o : opn) : Prop := summary_sound o /\ writes_fresh o.

Definition run_ops (ops : list opn) (h : heap) : heap := fold_left (fun h o => exec o h) ops h.

(* an object is a list of the locations reachable from it *)
Definition object := list loc.
Definition live (h : heap) (x : object) : Prop := forall l, In l x -> h l <> None.
Definition snapshot (h : heap) (x : object) : list (option V) := map h x.

(* the sanctioned mutator: overwrite location l0 (must exist) with v *)
Definition setitem (l0 : loc) (v : V) : opn :=
  {| exec := fun h l => if Nat.eqb l l0 then (match h l0 with Some _ => Some v | None => None end) else h l;
     writes := fun _ => [l0] |}.
End Heap.
