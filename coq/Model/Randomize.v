(* Model of the surrogate generators of pynapple/process/randomize.py (shift_timestamps as repaired
   by 541335c, jitter_timestamps, resample_timestamps, shuffle_ts_intervals; Ts and TsGroup forms)
   together with the two constructors they end in (Ts.__init__ with/without a time support,
   TsGroup.__init__ with/without a time support).
   The random draws are EXPLICIT arguments (the state of NumPy's global generator is an implicit
   input of the code): sigma = the shift, ds = the jitters, us = the resampled instants,
   perm = the index permutation np.random.permutation applies to the inter-event intervals.
   Times are integer nanosecond ticks.  np.sort = sortZ; the constructors' restriction to a support
   is the jitrestrict model of Model/Restrict.v; IntervalSet(...) is mk_iset of Model/Iset.v.
   No proofs in this file. *)
From Verif Require Import Base.Prelude Model.Restrict Model.Iset.

(* ------------------------------------------------------------------ *)
(* constructors                                                         *)

(* IntervalSet(start = t[0], end = t[-1]): the default support of a series built without one
   (empty when the series has a single distinct timestamp) *)
Definition first_last_support (ts : list Z) : iset :=
  match ts with
  | [] => []
  | t0 :: _ => mk_iset [t0] [last ts t0]
  end.

(* nap.Ts(t = <sorted array>, time_support = sup): with a support the timestamps are restricted to
   it (timestamps outside are silently dropped); an empty series always gets an empty support *)
Definition mk_ts (ts : list Z) (sup : option iset) : list Z * iset :=
  match ts with
  | [] => ([], [])
  | _ => match sup with
         | Some ep => (restrict_ts ts ep, ep)
         | None => (ts, first_last_support ts)
         end
  end.

(* ts_group._union_intervals (as repaired by 6917604): 1 set -> itself; two or more -> the n-ary kernel
   jitunion_isets + constructor *)
Definition union_supports (sups : list iset) : iset :=
  match sups with
  | [A] => A
  | _ => mk_iset_pairs (k_union_n (concat sups))
  end.

(* the code before 6917604: two sets went through the pairwise jitunion, which leaves two touching
   intervals separate, and the IntervalSet constructor then trims 1 us off the earlier one *)
Definition union_supports_orig (sups : list iset) : iset :=
  match sups with
  | [A] => A
  | [A; B] => iset_union A B
  | _ => mk_iset_pairs (k_union_n (concat sups))
  end.

(* a keyed member: (key, (timestamps, support)) *)
Definition member := (Z * (list Z * iset))%type.

(* nap.TsGroup(dict, time_support = sup): every member is restricted to the group support, which is
   the given one or the union of the members' supports; None = RuntimeError (empty union) *)
Definition mk_group (ms : list member) (sup : option iset) : option (list (Z * list Z) * iset) :=
  let G := match sup with Some ep => ep | None => union_supports (map (fun m => snd (snd m)) ms) end in
  let out := map (fun m : member => (fst m, restrict_ts (fst (snd m)) G)) ms in
  match sup, G with
  | None, [] => None
  | _, _ => Some (out, G)
  end.

Definition mk_group_orig (ms : list member) (sup : option iset) : option (list (Z * list Z) * iset) :=
  let G := match sup with Some ep => ep | None => union_supports_orig (map (fun m => snd (snd m)) ms) end in
  let out := map (fun m : member => (fst m, restrict_ts (fst (snd m)) G)) ms in
  match sup, G with
  | None, [] => None
  | _, _ => Some (out, G)
  end.

(* ------------------------------------------------------------------ *)
(* shift_timestamps                                                     *)
Definition wrap (s e sigma t : Z) : Z := (t - s + sigma) mod (e - s) + s.

Definition shift_ts (s e sigma : Z) (ts : list Z) : list Z * iset :=
  mk_ts (sortZ (map (wrap s e sigma) ts)) (Some [(s, e)]).

(* the code before 541335c: wrap-around computed relative to 0 *)
Definition wrap_orig (s e sigma t : Z) : Z := (t + sigma) mod e + s.
Definition shift_ts_orig (s e sigma : Z) (ts : list Z) : list Z * iset :=
  mk_ts (sortZ (map (wrap_orig s e sigma) ts)) (Some [(s, e)]).

Definition shift_group (s e : Z) (g : list (Z * list Z)) (sigmas : list Z) :=
  mk_group (map (fun p : (Z * list Z) * Z =>
                   (fst (fst p), mk_ts (sortZ (map (wrap s e (snd p)) (snd (fst p)))) None))
                (combine g sigmas))
           (Some [(s, e)]).

(* ------------------------------------------------------------------ *)
(* jitter_timestamps                                                    *)
Definition add_draws (ts ds : list Z) : list Z := map (fun p => fst p + snd p) (combine ts ds).

Definition jitter_ts (keep : bool) (s e : Z) (ts ds : list Z) : list Z * iset :=
  mk_ts (sortZ (add_draws ts ds)) (if keep then Some [(s, e)] else None).

Definition jitter_group (keep : bool) (s e : Z) (g : list (Z * list Z)) (dss : list (list Z)) :=
  mk_group (map (fun p : (Z * list Z) * list Z =>
                   (fst (fst p), mk_ts (sortZ (add_draws (snd (fst p)) (snd p))) None))
                (combine g dss))
           (if keep then Some [(s, e)] else None).

(* ------------------------------------------------------------------ *)
(* resample_timestamps: us are the len(ts) draws (Ts: from [first stamp, last stamp); TsGroup: from
   [support start, support end)) *)
Definition resample_ts (s e : Z) (us : list Z) : list Z * iset :=
  mk_ts (sortZ us) (Some [(s, e)]).

Definition resample_group (s e : Z) (g : list (Z * list Z)) (uss : list (list Z)) :=
  mk_group (map (fun p : (Z * list Z) * list Z => (fst (fst p), mk_ts (sortZ (snd p)) None))
                (combine g uss))
           (Some [(s, e)]).

(* ------------------------------------------------------------------ *)
(* shuffle_ts_intervals                                                 *)
Fixpoint diffs (l : list Z) : list Z :=
  match l with
  | a :: r => match r with b :: _ => (b - a) :: diffs r | [] => [] end
  | [] => []
  end.

Fixpoint cumsum_from (a : Z) (l : list Z) : list Z :=
  match l with [] => [] | d :: r => (a + d) :: cumsum_from (a + d) r end.

Definition permute (perm : list nat) (l : list Z) : list Z := map (fun i => nth i l 0) perm.

(* an empty series is returned unchanged (9bcff6e; before it, ts.times()[0] raised IndexError); the option
   type is kept for the driver interface: the call never raises *)
Definition shuffle_ts (ts : list Z) (perm : list nat) : option (list Z * iset) :=
  match ts with
  | [] => Some (mk_ts [] None)
  | t0 :: _ => Some (mk_ts (t0 :: cumsum_from t0 (permute perm (diffs ts))) None)
  end.

Fixpoint shuffle_members (g : list (Z * list Z)) (perms : list (list nat)) : option (list member) :=
  match g, perms with
  | (k, ts) :: g', perm :: perms' =>
      match shuffle_ts ts perm, shuffle_members g' perms' with
      | Some r, Some rs => Some ((k, r) :: rs)
      | _, _ => None
      end
  | _, _ => Some []
  end.

Definition shuffle_group (g : list (Z * list Z)) (perms : list (list nat)) :=
  match shuffle_members g perms with
  | None => None
  | Some ms => mk_group ms None
  end.

(* shuffle_ts_intervals(TsGroup) before 6917604 (pairwise union of two members' supports) *)
Definition shuffle_group_orig (g : list (Z * list Z)) (perms : list (list nat)) :=
  match shuffle_members g perms with
  | None => None
  | Some ms => mk_group_orig ms None
  end.
