(* Functional model of pynapple/core/ts_group.py (TsGroup) and of Tsd.to_tsgroup
   (pynapple/core/time_series.py): a group is a key-sorted association list of members (timestamps
   + the member's own time support) on one time support, with one integer metadata column "tag"
   (present or not) used by the getby selections.  Times are ticks.  No proofs in this file.

   What is transcribed from the source:
     __init__            key conversion (int(k), integer-valued check), uniqueness, np.sort, raw arrays
                         turned into Ts, support = given or _union_intervals of the member supports,
                         members restricted unless the caller opts out (the "bypass" flag)
     Ts(t, time_support) an empty series gets an EMPTY support (base_class.py); otherwise restricted
     __getitem__ / _ts_group_from_keys, boolean masks, getby_threshold / _intervals / _category
     restrict, get, merge_group (as it is: see [merge_group]), to_tsd, Tsd.to_tsgroup,
     count / trial_count / value_from (member-wise, over Model/Count, Slice, ValueFrom). *)
From Verif Require Import Base.Prelude Model.Restrict Model.Iset Model.Count Model.Slice Model.ValueFrom.

(* ------------------------------------------------------------------ *)
(* members: Ts objects                                                  *)
Definition member := (list Z * iset)%type.
Definition m_t (m : member) : list Z := fst m.
Definition m_sup (m : member) : iset := snd m.

(* Ts(t, time_support = sup) for sorted t *)
Definition mk_ts (t : list Z) (sup : iset) : member :=
  match t with [] => ([], []) | _ :: _ => (restrict_ts t sup, sup) end.
(* Ts(t): default support [t0, t_last] through the IntervalSet constructor *)
Definition ts_default (t : list Z) : member :=
  match t with [] => ([], []) | x :: _ => (t, mk_iset [x] [last t x]) end.
(* m.restrict(ep): the kept samples are handed to the constructor, which restricts again *)
Definition ts_restrict (m : member) (ep : iset) : member := mk_ts (restrict_ts (m_t m) ep) ep.
(* m.get(a, b) = m[slice]: constructor with the member's own support *)
Definition ts_get (m : member) (a b : Z) : member := mk_ts (get_times a b (m_t m)) (m_sup m).
(* m.rate = len / total duration of the member's support; None = NaN (or inf) *)
Definition rate (m : member) : option (nat * Z) :=
  if tot_length (m_sup m) <=? 0 then None else Some (length (m_t m), tot_length (m_sup m)).

(* ------------------------------------------------------------------ *)
(* supplied keys and supplied members                                   *)
Inductive rawkey :=
| RInt (z : Z)                 (* an int *)
| RStr (z : Z)                 (* a string that int() accepts *)
| RBad                         (* anything int() rejects ("a", "2.0", None) *)
| RFlt (z : Z) (frac : bool).  (* a float: int(k) = z, frac = it has a non-negligible fractional part *)
Definition key_value (k : rawkey) : option Z :=
  match k with
  | RInt z => Some z | RStr z => Some z | RBad => None
  | RFlt z frac => if frac then None else Some z
  end.

Inductive rawmember := RObj (m : member) | RArr (t : list Z).
Definition to_member (sup : option iset) (r : rawmember) : member :=
  match r with
  | RObj m => m
  | RArr t => match sup with Some s => mk_ts t s | None => ts_default t end
  end.

(* ------------------------------------------------------------------ *)
(* groups                                                               *)
Definition entry := (Z * (Z * member))%type.            (* key, tag, member *)
Definition e_key (e : entry) : Z := fst e.
Definition e_tag (e : entry) : Z := fst (snd e).
Definition e_mem (e : entry) : member := snd (snd e).
Definition group := (list entry * (iset * bool))%type.  (* entries, support, has the tag column *)
Definition g_entries (g : group) : list entry := fst g.
Definition g_sup (g : group) : iset := fst (snd g).
Definition g_hastag (g : group) : bool := snd (snd g).
Definition g_keys (g : group) : list Z := map e_key (g_entries g).

Fixpoint nodupb (l : list Z) : bool :=
  match l with [] => true | x :: r => negb (existsb (Z.eqb x) r) && nodupb r end.

Fixpoint insert_entry (e : entry) (l : list entry) : list entry :=
  match l with
  | [] => [e]
  | y :: r => if e_key e <? e_key y then e :: l else y :: insert_entry e r
  end.
Definition sort_entries (l : list entry) : list entry := fold_right insert_entry [] l.

Fixpoint conv_keys {A} (data : list (rawkey * A)) : option (list (Z * A)) :=
  match data with
  | [] => Some []
  | (k, a) :: r =>
      match key_value k, conv_keys r with
      | Some z, Some r' => Some ((z, a) :: r')
      | _, _ => None
      end
  end.

(* _union_intervals, as repaired ("TsGroup of exactly two members used the pairwise union kernel"): one
   set is returned as it is, two sets or more go through the n-ary kernel, which joins intervals that
   touch.  [union_supports_orig] is the function as it was: exactly two sets went through the pairwise
   kernel, which keeps touching intervals apart, and the IntervalSet constructor then trimmed 1 us off
   the earlier one (erasing it when it was not longer than 1 us). *)
Definition union_supports (l : list iset) : iset :=
  match l with
  | [] => []
  | [a] => a
  | _ => mk_iset_pairs (k_union_n (concat l))
  end.
Definition union_supports_orig (l : list iset) : iset :=
  match l with
  | [a; b] => mk_iset_pairs (k_union a b)
  | _ => union_supports l
  end.

Definition map_members (f : member -> member) (es : list entry) : list entry :=
  map (fun e => (e_key e, (e_tag e, f (e_mem e)))) es.

(* the support the group gets: the one given, else the union of the (key-sorted) members' supports;
   None = RuntimeError "union of time supports is empty" *)
Definition chosen_support (sup : option iset) (es : list entry) : option iset :=
  match sup with
  | Some s => Some s
  | None => match union_supports (map (fun e => m_sup (e_mem e)) es) with [] => None | u => Some u end
  end.

Definition conv_entry (sup : option iset) (d : Z * (Z * rawmember)) : entry :=
  (fst d, (fst (snd d), to_member sup (snd (snd d)))).

(* TsGroup(data, time_support = sup, bypass = ..., metadata = tags indexed by key) ; None = an exception *)
Definition mk_group (data : list (rawkey * (Z * rawmember))) (sup : option iset) (bypass hastag : bool)
  : option group :=
  match conv_keys data with
  | None => None
  | Some kd =>
      if negb (nodupb (map fst kd)) then None
      else
        let es := sort_entries (map (conv_entry sup) kd) in
        match chosen_support sup es with
        | None => None
        | Some s => Some (if bypass then es else map_members (fun m => ts_restrict m s) es, (s, hastag))
        end
  end.

(* a non-dict iterable: keys 0 .. n-1 *)
Definition mk_group_list (l : list (Z * rawmember)) (sup : option iset) (bypass hastag : bool) : option group :=
  mk_group (combine (map (fun i => RInt (Z.of_nat i)) (seq 0 (length l))) l) sup bypass hastag.

(* the internal re-construction from existing (int key, tag, Ts) triples *)
Definition regroup (es : list entry) (sup : option iset) (bypass hastag : bool) : option group :=
  mk_group (map (fun e => (RInt (e_key e), (e_tag e, RObj (e_mem e)))) es) sup bypass hastag.

Definition lookup (k : Z) (es : list entry) : option entry := find (fun e => e_key e =? k) es.
Definition has_key (k : Z) (es : list entry) : bool := existsb (fun e => e_key e =? k) es.

(* g[k] for one hashable key *)
Definition get_member (g : group) (k : Z) : option member := option_map e_mem (lookup k (g_entries g)).

(* g[[k1; k2; ...]]: KeyError when a key is missing; a repeated key makes the metadata rows
   (two) differ from the dictionary entries (one): ValueError *)
Definition select_keys (g : group) (keys : list Z) : option group :=
  if forallb (fun k => has_key k (g_entries g)) keys && nodupb keys then
    regroup (flat_map (fun k => match lookup k (g_entries g) with Some e => [e] | None => [] end) keys)
            (Some (g_sup g)) false (g_hastag g)
  else None.

Fixpoint mask_keys (mask : list bool) (es : list entry) : list Z :=
  match mask, es with
  | b :: mr, e :: er => if b then e_key e :: mask_keys mr er else mask_keys mr er
  | _, _ => []
  end.
Definition select_mask (g : group) (mask : list bool) : option group :=
  if (length mask =? length (g_entries g))%nat then select_keys g (mask_keys mask (g_entries g)) else None.

(* selections on the tag column *)
Definition select_pred (g : group) (p : Z -> bool) : option group :=
  if g_hastag g then select_keys g (map e_key (filter (fun e => p (e_tag e)) (g_entries g))) else None.
(* op: 0 '>', 1 '<', 2 '>=', 3 '<=' *)
Definition thr_pred (op thr : Z) (x : Z) : bool :=
  if op =? 0 then thr <? x else if op =? 1 then x <? thr else if op =? 2 then thr <=? x else x <=? thr.
Definition getby_threshold (g : group) (thr op : Z) : option group :=
  if (0 <=? op) && (op <=? 3) then select_pred g (thr_pred op thr) else None.
(* the dictionary of getby_category at one category c (KeyError when no member carries c) *)
Definition getby_category (g : group) (c : Z) : option group :=
  if existsb (fun e => e_tag e =? c) (g_entries g) then select_pred g (fun x => x =? c) else None.
(* getby_intervals with increasing bin edges: one group per NON-EMPTY class [b_i, b_(i+1)), with i *)
Fixpoint bin_pairs (bins : list Z) : list (Z * Z) :=
  match bins with
  | a :: ((b :: _) as r) => (a, b) :: bin_pairs r
  | _ => []
  end.
Definition getby_intervals (g : group) (bins : list Z) : list (nat * option group) :=
  if g_hastag g then
    flat_map (fun ib => let '(i, (a, b)) := ib in
                        let p := fun x => (a <=? x) && (x <? b) in
                        if existsb (fun e => p (e_tag e)) (g_entries g) then [(i, select_pred g p)] else [])
             (combine (seq 0 (length (bin_pairs bins))) (bin_pairs bins))
  else [].

(* g.restrict(ep) and g.get(a, b): member-wise, support given, members not restricted again *)
Definition g_restrict (g : group) (ep : iset) : option group :=
  regroup (map_members (fun m => ts_restrict m ep) (g_entries g)) (Some ep) true (g_hastag g).
(* start > end: the ValueError comes from the first member's get; a group without members returns itself *)
Definition g_get (g : group) (a b : Z) : option group :=
  if (b <? a) && negb (match g_entries g with [] => true | _ => false end) then None
  else regroup (map_members (fun m => ts_get m a b) (g_entries g)) (Some (g_sup g)) true (g_hastag g).

(* ------------------------------------------------------------------ *)
(* merge_group, as repaired (commit "merge_group failed on interleaved keys ..."): the concatenated
   metadata rows are sorted by key before they are handed to the constructor.  Checks (all
   ValueError): same metadata columns unless ignored; disjoint keys unless the index is reset; "same"
   time support unless it is reset (as repaired, "merge_group accepted an empty time support against a
   one-interval support": the shapes are compared first).
   [merge_group_orig] is the function with the first defect: with the metadata kept and the
   index not reset, the rows were handed over in concatenation order while the constructor sorts the
   keys, and the index comparison in set_info failed (ValueError) unless the concatenated keys were
   already increasing.
   [merge_group_lax] is the function with the second defect: np.allclose alone broadcasts an empty
   support against a one-interval support, so the two compared as equal ([sup_same_orig]) and the
   first group's support was installed on every member. *)
Fixpoint iset_eqb (a b : iset) : bool :=
  match a, b with
  | [], [] => true
  | (s, e) :: ar, (s', e') :: br => (s =? s') && (e =? e') && iset_eqb ar br
  | _, _ => false
  end.
Definition sup_same (a b : iset) : bool := iset_eqb a b.
Definition sup_same_orig (a b : iset) : bool :=
  iset_eqb a b || match a, b with [], [_] => true | [_], [] => true | _, _ => false end.

Fixpoint incrb (l : list Z) : bool :=
  match l with
  | x :: ((y :: _) as r) => (x <? y) && incrb r
  | _ => true
  end.

Fixpoint disjoint_keys (seen : list Z) (gs : list group) : bool :=
  match gs with
  | [] => true
  | g :: r => negb (existsb (fun k => existsb (Z.eqb k) seen) (g_keys g)) && disjoint_keys (seen ++ g_keys g) r
  end.

Definition renumber (es : list entry) : list entry :=
  map (fun ie => (Z.of_nat (fst ie), snd (snd ie))) (combine (seq 0 (length es)) es).

Definition merge_items (gs : list group) (reset_index : bool) : list entry :=
  if reset_index then renumber (flat_map g_entries gs) else flat_map g_entries gs.

(* [strict] = the behaviour before the first repair, [lax] = the behaviour before the second *)
Definition merge_group_gen (strict lax : bool) (gs : list group) (reset_index reset_sup ignore_meta : bool) : option group :=
  match gs with
  | [] => None
  | [g] => Some g
  | g1 :: rest =>
      if (ignore_meta || forallb (fun g => Bool.eqb (g_hastag g) (g_hastag g1)) rest)
         && (reset_index || disjoint_keys (g_keys g1) rest)
         && (reset_sup || forallb (fun g => (if lax then sup_same_orig else sup_same) (g_sup g1) (g_sup g)) rest)
      then
        if strict && negb ignore_meta && negb (incrb (map e_key (merge_items gs reset_index))) then None
        else regroup (merge_items gs reset_index) (if reset_sup then None else Some (g_sup g1)) false
                     (if ignore_meta then false else g_hastag g1)
      else None
  end.
Definition merge_group := merge_group_gen false false.
Definition merge_group_orig := merge_group_gen true false.
Definition merge_group_lax := merge_group_gen false true.

(* ------------------------------------------------------------------ *)
(* to_tsd / to_tsgroup.  A Tsd here: rows (time, value = key) + support *)
Definition tsd := (list (Z * Z) * iset)%type.
(* stable sort by time: rows are inserted from the last to the first, each before its equals *)
Fixpoint insert_row_stable (x : Z * Z) (l : list (Z * Z)) : list (Z * Z) :=
  match l with
  | [] => [x]
  | y :: r => if fst x <=? fst y then x :: l else y :: insert_row_stable x r
  end.
Definition sort_rows_stable (l : list (Z * Z)) : list (Z * Z) := fold_right insert_row_stable [] l.

(* Tsd(t, d, time_support = sup) *)
Definition mk_tsd (rows : list (Z * Z)) (sup : iset) : tsd :=
  match rows with
  | [] => ([], [])
  | _ :: _ => let ix := restrict_idx (map fst rows) sup in
              (combine (select 0 (map fst rows) ix) (select 0 (map snd rows) ix), sup)
  end.
Definition to_tsd (g : group) : tsd :=
  mk_tsd (sort_rows_stable (flat_map (fun e => map (fun t => (t, e_key e)) (m_t (e_mem e))) (g_entries g)))
         (g_sup g).

(* np.unique of the values *)
Fixpoint insert_uniq (x : Z) (l : list Z) : list Z :=
  match l with
  | [] => [x]
  | y :: r => if x <? y then x :: l else if x =? y then l else y :: insert_uniq x r
  end.
Definition uniq_sorted (l : list Z) : list Z := fold_right insert_uniq [] l.

Definition to_tsgroup (d : tsd) : option group :=
  let '(rows, sup) := d in
  regroup (map (fun k => (k, (0, mk_ts (map fst (filter (fun r => snd r =? k) rows)) sup)))
               (uniq_sorted (map snd rows)))
          (Some sup) true false.

Definition roundtrip (g : group) : option group := to_tsgroup (to_tsd g).

(* ------------------------------------------------------------------ *)
(* group-level count / trial_count / value_from: one column (row block, member) per key, in key order *)
Definition g_count (g : group) (ep : iset) (b : Z) : list (Z * list (Z * nat)) :=
  map (fun e => (e_key e, count_binned (m_t (e_mem e)) ep b)) (g_entries g).
Definition g_count_ep (g : group) (ep : iset) : list (Z * list nat) :=
  map (fun e => (e_key e, restrict_cnt (m_t (e_mem e)) ep)) (g_entries g).
Definition g_trial_count (g : group) (ep : iset) (b : Z) : list (Z * list (list nat)) :=
  map (fun e => (e_key e, trial_count_rows (m_t (e_mem e)) ep b)) (g_entries g).
(* value_from: per member the kept query samples and the index of the source sample each one gets *)
Definition g_value_from (g : group) (mode : Z) (src : list Z) (ep : iset) : list (Z * (list Z * list (option nat))) :=
  map (fun e => (e_key e, (restrict_ts (m_t (e_mem e)) ep, value_from mode (m_t (e_mem e)) src ep))) (g_entries g).

(* ------------------------------------------------------------------ *)
(* histories: one current group; an operation that raises leaves it unchanged *)
Inductive gop :=
| OSelKeys (keys : list Z)
| OSelMask (mask : list bool)
| OThr (thr op : Z)
| OCat (c : Z)
| OInt (bins : list Z) (j : nat)          (* the j-th group returned by getby_intervals *)
| ORestrict (ep : iset)
| OGet (a b : Z)
| ORoundTrip
| OMergeSplit (m1 m2 : list bool) (ri rs im : bool)     (* g[m1].merge(g[m2], ...) *)
| OMergeWith (other : group) (first : bool) (ri rs im : bool).  (* g.merge(other) or other.merge(g) *)

Definition step (g : group) (o : gop) : option group :=
  match o with
  | OSelKeys keys => select_keys g keys
  | OSelMask mask => select_mask g mask
  | OThr thr op => getby_threshold g thr op
  | OCat c => getby_category g c
  | OInt bins j => match nth_error (getby_intervals g bins) j with Some (_, r) => r | None => None end
  | ORestrict ep => g_restrict g ep
  | OGet a b => g_get g a b
  | ORoundTrip => roundtrip g
  | OMergeSplit m1 m2 ri rs im =>
      match select_mask g m1, select_mask g m2 with
      | Some a, Some b => merge_group [a; b] ri rs im
      | _, _ => None
      end
  | OMergeWith other first ri rs im => merge_group (if first then [g; other] else [other; g]) ri rs im
  end.

Definition step_total (g : group) (o : gop) : group := match step g o with Some g' => g' | None => g end.
Definition run (g : group) (ops : list gop) : group := fold_left step_total ops g.
(* the trace the correspondence check compares: the outcome of every step *)
Fixpoint trace (g : group) (ops : list gop) : list (option group) :=
  match ops with
  | [] => []
  | o :: r => step g o :: trace (step_total g o) r
  end.
