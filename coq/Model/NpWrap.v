(* Model of pynapple's NumPy protocol on Tsd / TsdFrame / TsdTensor (tier N):
     pynapple/core/time_series.py : _get_class, _initialize_tsd_output, _BaseTsd.__init__ (+ the three
                                    subclasses' shape checks), __array_ufunc__, __array_function__, __getattr__
     pynapple/core/utils.py       : _concatenate_tsd, _check_time_equals, _split_tsd
     pynapple/core/base_class.py  : _Base.__init__ (an EMPTY index always gets the empty time support)
   Arrays are {shape; cells} in row-major order with ABSTRACT cells V.  What a NumPy function returns is
   a parameter of every wrapper (an [npres]: an array, or anything that is not array-like - a NumPy scalar,
   a tuple - of abstract type W): the wrapper only ever inspects the SHAPE of that result.
   Follows /repo as repaired: 0-d results are passed through, multi-output ufuncs are wrapped per output,
   np.array_split divides the index with np.array_split.
   np.split / np.array_split's division points and np.allclose's broadcasting rule (used by
   _check_time_equals) are transcribed from NumPy (its contract; exercised by the correspondence check).
   No proofs in this file. *)
From Verif Require Import Base.Prelude Model.Restrict Model.Iset Model.Count Model.Slice.

Inductive cls := CTsd | CFrame | CTensor.
Inductive err :=
  | EAssertLen        (* AssertionError: length of values does not match length of index *)
  | EAssertDim        (* AssertionError: Tsd needs 1-d data, TsdFrame <= 2-d *)
  | ERuntimeDim       (* RuntimeError: TsdTensor needs >= 3-d data *)
  | ERuntimeOrder     (* RuntimeError: time indexes not strictly increasing / overlapping *)
  | EValueSplit       (* ValueError: np.split "does not result in an equal division" / 0 sections *)
  | EValueBroadcast   (* ValueError: np.allclose on arrays that do not broadcast (_check_time_equals) *)
  | ENoNap.           (* no pynapple operand (not reachable through dispatch) *)

Section NpWrap.
Variables V W : Type.

Record arr := mkArr { shape : list nat; cells : list V }.

Definition prodn (s : list nat) : nat := fold_right Nat.mul 1%nat s.
Definition ndim (a : arr) : nat := length (shape a).
Definition dim0 (a : arr) : nat := hd 0%nat (shape a).
Definition rowsize (a : arr) : nat := prodn (tl (shape a)).
Definition ncols (a : arr) : nat := nth 1 (shape a) 0%nat.

(* rows along axis 0 *)
Fixpoint chunk (n k : nat) (l : list V) : list (list V) :=
  match n with O => [] | S n' => firstn k l :: chunk n' k (skipn k l) end.
Definition rows (a : arr) : list (list V) := chunk (dim0 a) (rowsize a) (cells a).
Definition arr_of_rows (s : list nat) (rs : list (list V)) : arr := mkArr (length rs :: s) (concat rs).
(* values[idx] for an index array idx along axis 0 *)
Definition take_rows (ix : list nat) (a : arr) : arr := arr_of_rows (tl (shape a)) (select [] (rows a) ix).

(* _get_class *)
Definition get_class (a : arr) : cls :=
  match ndim a with 1%nat => CTsd | 2%nat => CFrame | _ => CTensor end.

(* a time series object; [cols] is meaningful for TsdFrame only *)
Record ts := mkTs { kls : cls; t_of : list Z; sup_of : iset; dat : arr; cols : list Z }.

Inductive npres := NArr (a : arr) | NOther (o : W).
Inductive out := OTs (r : ts) | OArr (a : arr) | OOther (o : W) | ORefused | OErr (e : err).

Definition default_cols (k : nat) : list Z := map Z.of_nat (seq 0 k).

(* cls(t=ti, d=d, time_support=sup, columns=c): _Base.__init__, _BaseTsd.__init__ (length assertion,
   restriction to the support when the index is not empty), then the subclass's shape check *)
Definition construct (k : cls) (ti : list Z) (d : arr) (sup : iset) (c : option (list Z)) : out :=
  match shape d with
  | [] => OErr EAssertLen
  | n0 :: _ =>
      if negb (n0 =? length ti)%nat then OErr EAssertLen else
      let '(ti', d', sup') :=
        match ti with
        | [] => (ti, d, @nil (Z * Z))
        | _ => let ix := restrict_idx ti sup in (select 0 ti ix, take_rows ix d, sup)
        end in
      match k with
      | CTsd => if (ndim d' =? 1)%nat then OTs (mkTs CTsd ti' sup' d' []) else OErr EAssertDim
      | CFrame =>
          if (2 <? ndim d')%nat then OErr EAssertDim else
          let d2 := if (ndim d' =? 1)%nat then mkArr (shape d' ++ [1%nat]) (cells d') else d' in
          let nc := ncols d2 in
          let c' := match c with
                    | Some l => if (length l =? nc)%nat then l else default_cols nc
                    | None => default_cols nc
                    end in
          OTs (mkTs CFrame ti' sup' d2 c')
      | CTensor => if (ndim d' <? 3)%nat then OErr ERuntimeDim else OTs (mkTs CTensor ti' sup' d' [])
      end
  end.

(* _initialize_tsd_output(x, values, time_index=ti): re-attach time iff axis-0 lengths agree *)
Definition init_out (x : ts) (ti : list Z) (r : npres) : out :=
  match r with
  | NOther o => OOther o
  | NArr a =>
      match shape a with
      | [] => OArr a                    (* values.ndim > 0 fails: a 0-d array is returned as it is *)
      | n0 :: _ =>
          if (n0 =? length ti)%nat then
            let k := get_class a in
            let c := match k, kls x with
                     | CFrame, CFrame => if (ncols a =? ncols (dat x))%nat then Some (cols x) else None
                     | _, _ => None
                     end in
            construct k ti a (sup_of x) c
          else OArr a
      end
  end.

(* __array_ufunc__(ufunc, method, *args): [is_call] = (method == "__call__"); [n_same] = number of
   positional operands that are instances of x's class; [f] = the ufunc with x unwrapped and every other
   operand fixed *)
Definition array_ufunc (x : ts) (is_call : bool) (n_same : nat) (f : arr -> npres) : out :=
  if negb is_call then ORefused
  else if (1 <? n_same)%nat then ORefused
  else init_out x (t_of x) (f (dat x)).

(* a ufunc with several outputs (np.modf, np.frexp, np.divmod) returns a tuple: every element goes through
   _initialize_tsd_output on its own.  None = refused *)
Definition array_ufunc_multi (x : ts) (is_call : bool) (n_same : nat) (f : arr -> list npres) : option (list out) :=
  if negb is_call then None
  else if (1 <? n_same)%nat then None
  else Some (map (init_out x (t_of x)) (f (dat x))).

(* __array_function__: the exclusion list, np.fft.*, and everything that is neither split nor concatenate *)
Inductive fkind := FExcluded | FFft | FPlain.
Definition array_function (x : ts) (k : fkind) (f : arr -> npres) : out :=
  match k with
  | FExcluded | FFft => ORefused
  | FPlain => init_out x (t_of x) (f (dat x))
  end.
(* __getattr__: x.name(args) is np.name(x, args) *)
Definition method_call := array_function.

(* a result that is itself a time series (mixed-class operands: the other class's wrapper ran first) is
   array-like: the outer wrapper sees its shape and converts it with np.asarray *)
Definition as_npres (o : out) : option npres :=
  match o with OTs r => Some (NArr (dat r)) | OArr a => Some (NArr a) | OOther v => Some (NOther v) | _ => None end.
Definition mixed_ufunc (outer inner : ts) (f : arr -> arr -> npres) : out :=
  match as_npres (array_ufunc inner true 1 (f (dat outer))) with
  | Some r => init_out outer (t_of outer) r
  | None => ORefused
  end.

(* ---------------------------------------------------------------------------------------------- *)
(* _concatenate_tsd *)
Fixpoint strictly_incb (l : list Z) : bool :=
  match l with
  | a :: ((b :: _) as r) => (a <? b) && strictly_incb r
  | _ => true
  end.

(* np.allclose(a, b, rtol=0, atol=1e-9) on 1-d arrays of ticks, with NumPy's broadcasting: None = ValueError *)
Definition close (a b : Z) : bool := Z.abs (a - b) <=? 1.
Fixpoint forallb2 {A} (p : A -> A -> bool) (l1 l2 : list A) : bool :=
  match l1, l2 with
  | a :: r1, b :: r2 => p a b && forallb2 p r1 r2
  | _, _ => true
  end.
Definition allclose {A} (p : A -> A -> bool) (d : A) (a b : list A) : option bool :=
  if (length a =? length b)%nat then Some (forallb2 p a b)
  else if (length a =? 1)%nat then Some (forallb (p (hd d a)) b)
  else if (length b =? 1)%nat then Some (forallb (fun y => p y (hd d b)) a)
  else None.
(* all(map(allclose, combinations(l, 2))): lazily, in lexicographic order of the pairs *)
Fixpoint all_with {A} (q : A -> A -> option bool) (a : A) (l : list A) : option bool :=
  match l with
  | [] => Some true
  | b :: r => match q a b with None => None | Some false => Some false | Some true => all_with q a r end
  end.
Fixpoint all_pairs {A} (q : A -> A -> option bool) (l : list A) : option bool :=
  match l with
  | [] => Some true
  | a :: r => match all_with q a r with None => None | Some false => Some false | Some true => all_pairs q r end
  end.
Definition close_iv (a b : Z * Z) : bool := close (fst a) (fst b) && close (snd a) (snd b).
Definition times_equal (l : list (list Z)) : option bool := all_pairs (allclose close 0) l.
Definition supports_equal (l : list iset) : option bool := all_pairs (allclose close_iv (0, 0)) l.

Definition naps (ops : list (ts + arr)) : list ts :=
  flat_map (fun o => match o with inl x => [x] | inr _ => [] end) ops.
Definition op_arr (o : ts + arr) : arr := match o with inl x => dat x | inr a => a end.

(* [outp] is what the NumPy function returned on the unwrapped operands *)
Definition concat_tsd (ops : list (ts + arr)) (outp : arr) : out :=
  match naps ops, ops with
  | x0 :: rest, o0 :: _ =>
      let xl := last rest x0 in
      let all_nap := (length (naps ops) =? length ops)%nat in
      if (dim0 (op_arr o0) <? dim0 outp)%nat then
        (* "dimension increased in the first axis" *)
        if all_nap then
          let ti := concat (map t_of (x0 :: rest)) in
          if strictly_incb ti then
            construct (kls xl) ti outp (fold_left iset_union (map sup_of rest) (sup_of x0))
                      (match flat_map (fun x => match kls x with CFrame => [cols x] | _ => [] end) (x0 :: rest) with
                       | c :: _ => Some c | [] => None end)
          else OErr ERuntimeOrder
        else OArr outp
      else
        match rest with
        | [] => construct (kls xl) (t_of x0) outp (sup_of x0) None
        | _ =>
            match times_equal (map t_of (x0 :: rest)) with
            | None => OErr EValueBroadcast
            | Some te =>
                match supports_equal (map sup_of (x0 :: rest)) with
                | None => OErr EValueBroadcast
                | Some se => if te && se then construct (kls xl) (t_of x0) outp (sup_of x0) None else OArr outp
                end
            end
        end
  | _, _ => OErr ENoNap
  end.

(* np.concatenate(axis=0) itself, row-major: NumPy's contract *)
Definition cat0 (l : list arr) : arr :=
  mkArr (fold_right Nat.add 0%nat (map dim0 l) :: tl (shape (hd (mkArr [] []) l))) (concat (map cells l)).

(* ---------------------------------------------------------------------------------------------- *)
(* _split_tsd *)
(* division points of np.split (even_only) / np.array_split for an axis of length n *)
Definition np_div_points (even_only : bool) (ios : nat + list nat) (n : nat) : option (list nat) :=
  match ios with
  | inr ix => Some (0%nat :: ix ++ [n])
  | inl N =>
      if (N =? 0)%nat then None else
      let q := (n / N)%nat in
      let r := (n mod N)%nat in
      if even_only && negb (r =? 0)%nat then None
      else Some (map (fun i => (i * q + Nat.min i r)%nat) (seq 0 (S N)))
  end.

Fixpoint pieces_of {A} (pts : list nat) (l : list A) : list (list A) :=
  match pts with
  | a :: ((b :: _) as r) => slice a b l :: pieces_of r l
  | _ => []
  end.
Definition row_pieces (pts : list nat) (a : arr) : list arr :=
  map (arr_of_rows (tl (shape a))) (pieces_of pts (rows a)).

(* np.split / np.vsplit (array_split = false) or np.array_split (array_split = true), axis 0:
   the values are divided by the function itself, the index by np.array_split for np.array_split and by
   np.split otherwise (as repaired): the same division points *)
Definition split_tsd (x : ts) (array_split : bool) (ios : nat + list nat) : list out + err :=
  let n := length (t_of x) in
  match np_div_points (negb array_split) ios n, np_div_points (negb array_split) ios n with
  | Some pv, Some pi =>
      inl (map (fun td => init_out x (fst td) (NArr (snd td)))
               (combine (pieces_of pi (t_of x)) (row_pieces pv (dat x))))
  | _, _ => inr EValueSplit
  end.
(* _split_tsd(func, tsd, indices_or_sections, axis) for np.split / np.array_split: the time-axis branch is chosen by
   the LITERAL test [axis == 0]; with any other value - including the negative spelling -ndim of the same axis -
   the last branch returns what NumPy computed on the raw array ([pcs]) *)
Definition split_tsd_axis (x : ts) (array_split : bool) (ios : nat + list nat) (axis : Z) (pcs : list arr) : list out + err :=
  if (axis =? 0)%Z then split_tsd x array_split ios else inl (map OArr pcs).
(* np.hsplit / np.dsplit: [pcs] is what NumPy returned on the raw array; every piece gets x's whole index *)
Definition split_other (x : ts) (pcs : list arr) : list out :=
  map (fun d => init_out x (t_of x) (NArr d)) pcs.

End NpWrap.

Arguments mkArr {V}. Arguments shape {V}. Arguments cells {V}.
Arguments ndim {V}. Arguments dim0 {V}. Arguments rowsize {V}. Arguments ncols {V}.
Arguments chunk {V}. Arguments rows {V}. Arguments arr_of_rows {V}. Arguments take_rows {V}. Arguments get_class {V}.
Arguments mkTs {V}. Arguments kls {V}. Arguments t_of {V}. Arguments sup_of {V}. Arguments dat {V}. Arguments cols {V}.
Arguments NArr {V W}. Arguments NOther {V W}.
Arguments OTs {V W}. Arguments OArr {V W}. Arguments OOther {V W}. Arguments ORefused {V W}. Arguments OErr {V W}.
Arguments construct {V W}. Arguments init_out {V W}. Arguments array_ufunc {V W}. Arguments array_ufunc_multi {V W}. Arguments array_function {V W}.
Arguments method_call {V W}. Arguments as_npres {V W}. Arguments mixed_ufunc {V W}.
Arguments naps {V}. Arguments op_arr {V}. Arguments concat_tsd {V W}. Arguments cat0 {V}.
Arguments row_pieces {V}. Arguments split_tsd {V W}. Arguments split_tsd_axis {V W}. Arguments split_other {V W}.
