(* Functional model of _cross_correlogram (pynapple/process/correlograms.py) and of the wrappers
   compute_autocorrelogram / compute_crosscorrelogram / compute_eventcorrelogram, on ticks.
   The window half-width w = (nbins/2)*binsize is a half-tick quantity (nbins is odd), so every bound is
   carried DOUBLED:  lb2 = 2*lbound = 2*r - nbins*b,  rb2 = 2*rbound,  a sample t is compared as 2*t.
   Bin centres are reported doubled as well.  The cursor i2 of the kernel, which survives from one reference
   event to the next and can move in both directions, is a zipper (samples before the cursor, reversed; samples
   from the cursor on).  No proofs in this file. *)
From Verif Require Import Base.Prelude.
From Coq Require Import QArith.
Open Scope Z_scope.

(* nbins = int((2*windowsize) // binsize), made odd *)
Definition xc_nbins (b w : Z) : Z :=
  let n := (2 * w) / b in if Z.even n then n + 1 else n.

(* while i2 < nt2 and t2[i2] < lbound: i2 += 1 *)
Fixpoint xc_fwd (lb2 : Z) (pre suf : list Z) : list Z * list Z :=
  match suf with
  | [] => (pre, [])
  | t :: r => if 2 * t <? lb2 then xc_fwd lb2 (t :: pre) r else (pre, suf)
  end.

(* while i2 > 0 and t2[i2-1] > lbound: i2 -= 1 *)
Fixpoint xc_bwd (lb2 : Z) (pre suf : list Z) : list Z * list Z :=
  match pre with
  | [] => ([], suf)
  | t :: r => if lb2 <? 2 * t then xc_bwd lb2 r (t :: suf) else (pre, suf)
  end.

(* while leftb < nt2 and t2[leftb] < rbound: leftb += 1; k += 1 *)
Fixpoint xc_span (rb2 : Z) (ts : list Z) : nat * list Z :=
  match ts with
  | [] => (O, [])
  | t :: r => if 2 * t <? rb2 then let '(k, rest) := xc_span rb2 r in (S k, rest) else (O, ts)
  end.

(* for j in range(nbins): rbound += binsize; count *)
Fixpoint xc_bins (fuel : nat) (rb2 b : Z) (ts : list Z) : list nat :=
  match fuel with
  | O => []
  | S f => let rb2' := rb2 + 2 * b in
           let '(k, rest) := xc_span rb2' ts in k :: xc_bins f rb2' b rest
  end.

(* C[j] += k *)
Fixpoint xc_add (a c : list nat) : list nat :=
  match a, c with
  | x :: a', y :: c' => (x + y)%nat :: xc_add a' c'
  | _, _ => []
  end.

(* the loop over the reference events; wd = nbins*b = 2*w *)
Fixpoint xc_go (nb : nat) (b wd : Z) (t1 : list Z) (pre suf : list Z) (C : list nat) : list nat :=
  match t1 with
  | [] => C
  | r :: t1' =>
      let lb2 := 2 * r - wd in
      let '(p1, s1) := xc_fwd lb2 pre suf in
      let '(p2, s2) := xc_bwd lb2 p1 s1 in
      xc_go nb b wd t1' p2 s2 (xc_add C (xc_bins nb lb2 b s2))
  end.

(* raw counts C[j] before the division by nt1*binsize *)
Definition xcorr_counts (t1 t2 : list Z) (b w : Z) : list nat :=
  let nb := xc_nbins b w in
  xc_go (Z.to_nat nb) b (nb * b) t1 [] t2 (repeat O (Z.to_nat nb)).

(* 2*B[j] = 2*(-w + b/2 + j*b) *)
Definition xcorr_centres2 (b w : Z) : list Z :=
  let nb := xc_nbins b w in
  map (fun j => - (nb * b) + b + 2 * Z.of_nat j * b) (seq 0 (Z.to_nat nb)).

(* compute_autocorrelogram: t1 = t2, then the row whose label is 0 is set to 0 *)
Definition zero_at {A} (z : A) (m : nat) (l : list A) : list A :=
  if (m <? length l)%nat then firstn m l ++ z :: skipn (S m) l else l.
Definition index_of_zero (cs : list Z) : option nat :=
  match filter_idx (fun c => c =? 0) 0%nat cs with [] => None | i :: _ => Some i end.
Definition autocorr_counts (t : list Z) (b w : Z) : list nat :=
  let C := xcorr_counts t t b w in
  match index_of_zero (xcorr_centres2 b w) with Some m => zero_at O m C | None => C end.

(* ---- the specification the property states ---- *)
(* a pair (reference r, target t) has its lag in [lo2/2, hi2/2) *)
Definition lag_in (lo2 hi2 : Z) (p : Z * Z) : bool :=
  (lo2 <=? 2 * (snd p - fst p)) && (2 * (snd p - fst p) <? hi2).
Definition lag_count (t1 t2 : list Z) (lo2 hi2 : Z) : nat :=
  count_if (lag_in lo2 hi2) (list_prod t1 t2).
(* bin j of the histogram: lags in [-W + j*b, -W + (j+1)*b), W = nbins*b/2 *)
Definition xcorr_spec (t1 t2 : list Z) (b w : Z) : list nat :=
  let nb := xc_nbins b w in
  map (fun j => lag_count t1 t2 (- (nb * b) + 2 * Z.of_nat j * b) (- (nb * b) + 2 * (Z.of_nat j + 1) * b))
      (seq 0 (Z.to_nat nb)).

(* the same histogram, read off the bin centres: the integer multiples c = k*b of the bin size with |c| <= w,
   each with the number of pairs whose lag lies in [c - b/2, c + b/2) *)
Definition xcorr_hist (t1 t2 : list Z) (b w : Z) : list (Z * nat) :=
  let m := w / b in
  map (fun j => let c := (Z.of_nat j - m) * b in (c, lag_count t1 t2 (2 * c - b) (2 * c + b)))
      (seq 0 (Z.to_nat (2 * m + 1))).

(* ---- normalisation, as rationals.  b in ticks (1e9 ticks = 1 s) ---- *)
Definition ticks_per_s : Z := 1000000000.
(* C / (nt1 * binsize[s])  in Hz *)
Definition xc_rate (c n1 : nat) (b : Z) : Q :=
  (inject_Z (Z.of_nat c) * inject_Z ticks_per_s) / (inject_Z (Z.of_nat n1) * inject_Z b).
(* rate of the target: n2 / tot_length(support)[s] *)
Definition ts_rate (n2 : nat) (tot : Z) : Q :=
  (inject_Z (Z.of_nat n2) * inject_Z ticks_per_s) / inject_Z tot.
(* norm = True *)
Definition xc_norm (c n1 : nat) (b : Z) (n2 : nat) (tot : Z) : Q :=
  xc_rate c n1 b / ts_rate n2 tot.
