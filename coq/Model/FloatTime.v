(* Bit-level model (binary64, PrimFloat) of TsIndex.format_timestamps / return_timestamps
   (pynapple/core/time_index.py): np.around(x, 9) = rint(x * 1e9) / 1e9 with rint = round half to even,
   realised as (y + 2^52) - 2^52 for |y| < 2^52 (all |x| <= 1e5 s give |y| <= 1e14 < 2^52 = 4.5e15).
   Units: 0 = 's', 1 = 'ms', 2 = 'us'. *)
From Coq Require Import PrimFloat ZArith.
Open Scope float_scope.

Definition two52 : float := 4503599627370496.
Definition rint (y : float) : float :=
  if y <? 0 then - ((- y + two52) - two52) else (y + two52) - two52.
Definition around9 (x : float) : float := rint (x * 1e9) / 1e9.

Definition fmt (u : nat) (x : float) : float :=
  match u with
  | O => around9 x
  | S O => around9 (x / 1e3)
  | _ => around9 (x / 1e6)
  end.
(* return_timestamps multiplies: x * 1e6 * 1e9 may exceed 2^52, where every double is an integer and rint is the identity *)
Definition rint_any (y : float) : float := if two52 <=? abs y then y else rint y.
Definition around9_any (x : float) : float := rint_any (x * 1e9) / 1e9.
Definition ret (u : nat) (x : float) : float :=
  match u with
  | O => around9_any x
  | S O => around9_any (x * 1e3)
  | _ => around9_any (x * 1e6)
  end.

(* the tick of a stored time *)
Definition tick_f (x : float) : float := rint (x * 1e9).
