(* Functional models of compute_perievent (_align_tsd, pynapple/process/perievent.py) and of
   compute_perievent_continuous (_jitcontinuous_perievent and the scatter of _perievent_continuous,
   pynapple/process/_process_functions.py, as repaired: columns grouped by (size, offset)), on ticks.
   np.searchsorted(.., side="left") on a sorted array is the count #{t < v} (Model/Slice.v, NumPy's contract).
   Missing values (NaN) are None.  No proofs in this file. *)
From Verif Require Import Base.Prelude Model.Restrict Model.Count Model.Slice.

(* ------------------------------------------------------------------ *)
(* compute_perievent                                                   *)
(* ------------------------------------------------------------------ *)
(* one reference time r: lbound = searchsorted(t, r - w0), rbound = searchsorted(t, r + w1); lags t - r with
   their rows; the Ts/Tsd constructor then restricts to the new time support [-w0, w1] *)
Definition align_one {A} (w0 w1 : Z) (ts : list Z) (rows : list A) (r : Z) : list (Z * A) :=
  let i0 := ss_left (r - w0) ts in
  let i1 := ss_left (r + w1) ts in
  let lags := map (fun t => t - r) (slice i0 i1 ts) in
  filter (fun p => inb (fst p) (- w0, w1)) (combine lags (slice i0 i1 rows)).

(* the group: member i is tagged ref_times = tref[i] *)
Definition align_tsd {A} (w0 w1 : Z) (ts : list Z) (rows : list A) (tref : list Z) : list (Z * list (Z * A)) :=
  map (fun r => (r, align_one w0 w1 ts rows r)) tref.

(* what the property states *)
Definition perievent_spec {A} (w0 w1 : Z) (ts : list Z) (rows : list A) (tref : list Z) : list (Z * list (Z * A)) :=
  map (fun r => (r, map (fun tv => (fst tv - r, snd tv))
                        (filter (fun tv => (r - w0 <=? fst tv) && (fst tv <? r + w1)) (combine ts rows)))) tref.

(* ------------------------------------------------------------------ *)
(* compute_perievent_continuous: the kernel                            *)
(* ------------------------------------------------------------------ *)
(* inner while of the nearest-sample search: [rest] = samples from position t on, t_pos / interval = best so far *)
Fixpoint pc_adv (x : Z) (rest : list Z) (t_pos : nat) (interval : Z) (t : nat) : nat :=
  match rest with
  | [] => t_pos
  | y :: r => let ni := Z.abs (y - x) in
              if interval <? ni then t_pos else pc_adv x r t ni (S t)
  end.

(* search for the sample of the epoch (samples es) nearest to x, the cursor standing at position t *)
Definition pc_nearest_from (x : Z) (es : list Z) (t : nat) : nat :=
  pc_adv x (skipn (S t) es) t (Z.abs (nth t es 0 - x)) (S t).

(* the events of one epoch, in order; the cursor restarts from the previous t_pos (t -= 1) *)
Fixpoint pc_epoch_pos (es : list Z) (xs : list Z) (t : nat) : list nat :=
  match xs with
  | [] => []
  | x :: r => let p := pc_nearest_from x es t in p :: pc_epoch_pos es r p
  end.

(* slice_idx[i] = (t_pos - left, t_pos + right + 1), start_w[i] = windowsize[0] - left; off = global position
   of the epoch's first sample, len = number of samples of the epoch *)
Definition pc_win (n0 n1 off len p : nat) : nat * nat * nat :=
  let left := Nat.min n0 p in
  let right := Nat.min n1 (len - p - 1) in
  ((off + p - left)%nat, (off + p + right + 1)%nat, (n0 - left)%nat).

(* loop over the epochs: es_xs = per epoch (its samples, its events); epochs lacking samples or events leave
   the zero-initialised entries (0, 0, 0) for their events *)
Fixpoint pc_kernel_go (n0 n1 : nat) (off : nat) (es_xs : list (list Z * list Z)) : list (nat * nat * nat) :=
  match es_xs with
  | [] => []
  | (es, xs) :: r =>
      (match es, xs with
       | _ :: _, _ :: _ => map (pc_win n0 n1 off (length es)) (pc_epoch_pos es xs 0%nat)
       | _, _ => map (fun _ => (0%nat, 0%nat, 0%nat)) xs
       end) ++ pc_kernel_go n0 n1 (off + length es)%nat r
  end.

(* _jitcontinuous_perievent: both arrays restricted to the epochs with per-epoch counts *)
Definition pc_kernel (ts tref : list Z) (ep : iset) (n0 n1 : nat) : list (nat * nat * nat) :=
  pc_kernel_go n0 n1 0%nat (combine (samples_per_interval ts ep) (samples_per_interval tref ep)).

(* ------------------------------------------------------------------ *)
(* the scatter of _perievent_continuous                                *)
(* ------------------------------------------------------------------ *)
Definition pc_wsize (w : nat * nat * nat) : nat := (snd (fst w) - fst (fst w))%nat.
Definition pc_wstart (w : nat * nat * nat) : nat := snd w.

(* new_data_array[w_start : w_start + w_size, col] = vals *)
Definition write_rows {A} (col : list (option A)) (start : nat) (vals : list A) : list (option A) :=
  firstn start col ++ map Some vals ++ skipn (start + length vals) col.

(* one (w_size, w_start) group: every column with that size and offset receives its own slice *)
Definition scatter_group {A} (data : list A) (wins : list (nat * nat * nat)) (wsize wstart : nat)
  (M : list (list (option A))) : list (list (option A)) :=
  map (fun wc : (nat * nat * nat) * list (option A) =>
         let (w, col) := wc in
         if ((pc_wsize w =? wsize) && (pc_wstart w =? wstart))%nat
         then write_rows col wstart (slice (fst (fst w)) (snd (fst w)) data) else col)
      (combine wins M).

Definition scatter {A} (total : nat) (data : list A) (wins : list (nat * nat * nat)) : list (list (option A)) :=
  let sizes := nodup Nat.eq_dec (map pc_wsize wins) in
  let startsw := nodup Nat.eq_dec (map pc_wstart wins) in
  fold_left (fun M ws => fold_left (fun M' st => scatter_group data wins ws st M') startsw M) sizes
            (map (fun _ => repeat None total) wins).

(* _perievent_continuous: columns (one per event inside the epochs), each of n0 + n1 + 1 rows *)
Definition pc_columns {A} (d : A) (ts : list Z) (rows : list A) (tref : list Z) (ep : iset) (n0 n1 : nat)
  : list (list (option A)) :=
  let data := select d rows (restrict_idx ts ep) in
  scatter (n0 + n1 + 1) data (pc_kernel ts tref ep n0 n1).

(* ------------------------------------------------------------------ *)
(* compute_perievent_continuous: the public wrapper                    *)
(* ------------------------------------------------------------------ *)
(* bin_size = t[1] - t[0]; idx1 = -arange(0, w0 + bs, bs)[::-1][:-1] (ceil(w0/bs) rows), idx2 likewise;
   the TsdFrame constructor then restricts the rows to the time support [-w0, w1] *)
Fixpoint mask_filter {A} (m : list bool) (l : list A) : list A :=
  match m, l with
  | b :: m', x :: l' => if b then x :: mask_filter m' l' else mask_filter m' l'
  | _, _ => []
  end.
Definition pc_public {A} (d : A) (ts : list Z) (rows : list A) (tref : list Z) (ep : iset) (w0 w1 : Z)
  : list Z * list (list (option A)) :=
  let bs := nth 1 ts 0 - nth 0 ts 0 in
  let n0 := Z.to_nat (cdiv w0 bs) in
  let n1 := Z.to_nat (cdiv w1 bs) in
  let tidx := map (fun k => (Z.of_nat k - Z.of_nat n0) * bs) (seq 0 (n0 + n1 + 1)) in
  let keep := map (fun t => inb t (- w0, w1)) tidx in
  (mask_filter keep tidx, map (mask_filter keep) (pc_columns d ts rows tref ep n0 n1)).

(* ------------------------------------------------------------------ *)
(* what the property states                                            *)
(* ------------------------------------------------------------------ *)
(* brute force: the LAST position among those at minimal distance from x *)
Fixpoint argmin_last_go (x : Z) (es : list Z) (i best : nat) (bd : Z) : nat :=
  match es with
  | [] => best
  | y :: r => let dd := Z.abs (y - x) in
              if dd <=? bd then argmin_last_go x r (S i) i dd else argmin_last_go x r (S i) best bd
  end.
Definition argmin_last (x : Z) (es : list Z) : nat :=
  match es with [] => 0%nat | y :: r => argmin_last_go x r 1%nat 0%nat (Z.abs (y - x)) end.

(* row rho of the column of an event whose nearest sample is at position p of its epoch (values vals):
   the sample rho - n0 steps from p, None where that position leaves the epoch *)
Definition window_spec {A} (n0 n1 : nat) (vals : list A) (p : nat) : list (option A) :=
  map (fun rho => if (n0 <=? p + rho)%nat then nth_error vals (p + rho - n0) else None) (seq 0 (n0 + n1 + 1)).

Definition pc_spec {A} (ts : list Z) (rows : list A) (tref : list Z) (ep : iset) (n0 n1 : nat)
  : list (list (option A)) :=
  concat (map (fun iv =>
                 let er := filter (fun tv => inb (fst tv) iv) (combine ts rows) in
                 map (fun x => window_spec n0 n1 (map snd er) (argmin_last x (map fst er)))
                     (filter (fun x => inb x iv) tref)) ep).

(* public result: the offsets o with -w0 <= o*bs <= w1, i.e. floor(w0/bs) steps back to floor(w1/bs) forward *)
Definition pc_public_spec {A} (ts : list Z) (rows : list A) (tref : list Z) (ep : iset) (w0 w1 : Z)
  : list Z * list (list (option A)) :=
  let bs := nth 1 ts 0 - nth 0 ts 0 in
  let k0 := Z.to_nat (w0 / bs) in
  let k1 := Z.to_nat (w1 / bs) in
  (map (fun k => (Z.of_nat k - Z.of_nat k0) * bs) (seq 0 (k0 + k1 + 1)), pc_spec ts rows tref ep k0 k1).

(* ------------------------------------------------------------------ *)
(* the scatter BEFORE the repair (commit fc9f7b0), kept for the refuted statement: the columns of a group were
   selected by window size only and written at EVERY start offset (np.unique = sorted distinct values) *)
Definition np_unique (l : list nat) : list nat :=
  filter (fun k => existsb (Nat.eqb k) l) (seq 0 (S (fold_right Nat.max 0%nat l))).
Definition scatter_group_size_only {A} (data : list A) (wins : list (nat * nat * nat)) (wsize wstart : nat)
  (M : list (list (option A))) : list (list (option A)) :=
  map (fun wc : (nat * nat * nat) * list (option A) =>
         let (w, col) := wc in
         if (pc_wsize w =? wsize)%nat
         then write_rows col wstart (slice (fst (fst w)) (snd (fst w)) data) else col)
      (combine wins M).
Definition scatter_size_only {A} (total : nat) (data : list A) (wins : list (nat * nat * nat)) : list (list (option A)) :=
  fold_left (fun M ws => fold_left (fun M' st => scatter_group_size_only data wins ws st M') (np_unique (map pc_wstart wins)) M)
            (np_unique (map pc_wsize wins))
            (map (fun _ => repeat None total) wins).
