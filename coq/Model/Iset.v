(* Functional models of the IntervalSet kernels of pynapple/core/_jitted_functions.py:
   _jitfix_iset, jitintersect, jitunion, jitdiff, jitunion_isets, and the constructor's
   independent sort.  No proofs in this file. *)
From Verif Require Import Base.Prelude.
From Coq Require Import Sorting.Mergesort Orders.

(* ------------------------------------------------------------------ *)
(* np.sort on ticks                                                     *)
Module ZOrder <: TotalLeBool.
  Definition t := Z.
  Definition leb := Z.leb.
  Theorem leb_total : forall a1 a2, leb a1 a2 = true \/ leb a2 a1 = true.
  Proof. intros a1 a2. unfold leb. destruct (Z.leb_spec a1 a2); [left; reflexivity|right]. apply Z.leb_le. lia. Qed.
End ZOrder.
Module ZSort := Sort ZOrder.
Definition sortZ : list Z -> list Z := ZSort.sort.

(* ------------------------------------------------------------------ *)
(* _jitfix_iset, as repaired (single skip test end <= start; an interval whose trimmed end is
   not after its start is dropped).  Input: the zipped (start_i, end_i) AFTER the constructor
   has sorted both arrays.  State: the pending interval (newstart, newend, end[i]).          *)
Definition close_pending (ns ne : Z) (next_start : option Z) : iset :=
  let ne' := match next_start with
             | Some s => if ne =? s then ne - us else ne
             | None => ne
             end in
  if ns <? ne' then [(ns, ne')] else [].

Fixpoint fix_go (pend : option (Z * Z * Z)) (l : list (Z * Z)) : iset :=
  match l with
  | [] => match pend with
          | None => []
          | Some (ns, ne, _) => close_pending ns ne None
          end
  | (s, e) :: r =>
      match pend with
      | None => if e <=? s then fix_go None r else fix_go (Some (s, e, e)) r
      | Some (ns, ne, ce) =>
          if s <? ce then fix_go (Some (ns, Z.max ce e, e)) r
          else close_pending ns ne (Some s)
               ++ (if e <=? s then fix_go None r else fix_go (Some (s, e, e)) r)
      end
  end.

Definition fix_iset (l : list (Z * Z)) : iset := fix_go None l.

(* the public constructor: both arrays sorted independently (np.sort is applied only when the
   array is not already strictly increasing, which gives the same array), then fixed *)
Definition mk_iset (ss es : list Z) : iset := fix_iset (combine (sortZ ss) (sortZ es)).
Definition mk_iset_pairs (l : list (Z * Z)) : iset := mk_iset (map fst l) (map snd l).

(* the kernel as it was at the pinned commit (kept to state what was wrong with it):
   phase 1 skips end = start, phase 2 skips end < start and then ACCEPTS end = start;
   the trimmed interval is emitted unconditionally *)
Definition close_pending_orig (ns ne : Z) (next_start : option Z) : iset :=
  let ne' := match next_start with
             | Some s => if ne =? s then ne - us else ne
             | None => ne
             end in
  [(ns, ne')].

Fixpoint skip_eq (l : list (Z * Z)) : list (Z * Z) :=
  match l with (s, e) :: r => if e =? s then skip_eq r else l | [] => [] end.
Fixpoint skip_lt (l : list (Z * Z)) : list (Z * Z) :=
  match l with (s, e) :: r => if e <? s then skip_lt r else l | [] => [] end.

Fixpoint fix_go_orig (fuel : nat) (l : list (Z * Z)) : iset :=
  match fuel with
  | O => []
  | S fuel' =>
      match skip_lt (skip_eq l) with
      | [] => []
      | (s, e) :: r =>
          (fix absorb (ne ce : Z) (r : list (Z * Z)) : iset :=
             match r with
             | [] => close_pending_orig s ne None
             | (s', e') :: r' =>
                 if s' <? ce then absorb (Z.max ce e') e' r'
                 else close_pending_orig s ne (Some s') ++ fix_go_orig fuel' r
             end) e e r
      end
  end.
Definition fix_iset_orig (l : list (Z * Z)) : iset := fix_go_orig (S (length l)) l.

(* ------------------------------------------------------------------ *)
(* jitintersect: two-pointer sweep; also returns the parent indices (i, j) *)
Fixpoint inter_go (A B : iset) (i j : nat) {struct A} : list (Z * Z * (nat * nat)) :=
  match A with
  | [] => []
  | (s1, e1) :: A' =>
      (fix go (B : iset) (j : nat) {struct B} : list (Z * Z * (nat * nat)) :=
         match B with
         | [] => []
         | (s2, e2) :: B' =>
             if e2 <=? s1 then go B' (S j)
             else if s2 <? e1 then
                    (Z.max s1 s2, Z.min e1 e2, (i, j))
                    :: (if e2 <? e1 then go B' (S j) else inter_go A' B (S i) j)
                  else inter_go A' B (S i) j
         end) B j
  end.
Definition k_inter_meta (A B : iset) := inter_go A B 0%nat 0%nat.
Definition k_inter (A B : iset) : iset := map fst (k_inter_meta A B).

(* jitdiff: gaps of B inside A; parent index i *)
Fixpoint diff_go (A B : iset) (i : nat) {struct A} : list (Z * Z * nat) :=
  match A with
  | [] => []
  | (s1, e1) :: A' =>
      (fix go (B : iset) {struct B} : list (Z * Z * nat) :=
         match B with
         | [] => (* j == n: break; remaining intervals of set 1 are appended *)
             (s1, e1, i) :: (fix rest (A : iset) (i : nat) := match A with [] => [] | (s, e) :: A'' => (s, e, i) :: rest A'' (S i) end) A' (S i)
         | (s2, e2) :: B' =>
             if e2 <=? s1 then go B'
             else if s2 <? e1 then
                    if (s2 <? s1) && (e1 <? e2) then diff_go A' B (S i)
                    else
                      (* first piece (emitted only when set 2 starts inside set 1), then j += 1 *)
                      (if s1 <? s2 then [(s1, s2, i)] else [])
                      ++ (fix inner (pe : Z) (prevB : Z * Z) (B : iset) {struct B} : list (Z * Z * nat) :=
                            match B with
                            | (s2', e2') :: B'' =>
                                if s2' <? e1 then (pe, s2', i) :: inner e2' (s2', e2') B''
                                else if pe <? e1 then (pe, e1, i) :: diff_go A' B (S i)
                                     else diff_go A' (prevB :: B) (S i)
                            | [] =>
                                if pe <? e1 then (pe, e1, i) :: diff_go A' [] (S i)
                                else diff_go A' [prevB] (S i)
                            end) e2 (s2, e2) B'
                  else (s1, e1, i) :: diff_go A' B (S i)
         end) B
  end.
Definition k_diff_meta (A B : iset) := diff_go A B 0%nat.
Definition k_diff (A B : iset) : iset := map fst (k_diff_meta A B).

(* jitunion: two-pointer sweep with chain merging.  Explicit fuel (each step consumes an
   interval); [chain] = Some newstart while inside the inner "while i < m and j < n" loop. *)
Fixpoint union_go (fuel : nat) (chain : option Z) (A B : iset) : iset :=
  match fuel with
  | O => []
  | S fuel' =>
      match chain with
      | None =>
          match A with
          | [] => B                                       (* remaining intervals of set 2 *)
          | (s1, e1) :: A' =>
              match B with
              | [] => A                                   (* j == n: break; remaining of set 1 *)
              | (s2, e2) :: B' =>
                  if e2 <=? s1 then (s2, e2) :: union_go fuel' None A B'
                  else if s2 <? e1 then union_go fuel' (Some (Z.min s1 s2)) A B
                  else (s1, e1) :: union_go fuel' None A' B
              end
          end
      | Some ns =>
          match A, B with
          | (s1, e1) :: A', (s2, e2) :: B' =>
              let ne := Z.max e1 e2 in
              let A1 := if e1 <? e2 then A' else A in
              let B1 := if e1 <? e2 then B else B' in
              match A1, B1 with
              | [], _ => (ns, ne) :: union_go fuel' None [] (tl B1)
              | _, [] => (ns, ne) :: union_go fuel' None (tl A1) []
              | (s1', e1') :: _, (s2', e2') :: _ =>
                  if e2' <? s1' then (ns, ne) :: union_go fuel' None A1 (tl B1)
                  else if e1' <? s2' then (ns, ne) :: union_go fuel' None (tl A1) B1
                  else union_go fuel' (Some ns) A1 B1
              end
          | _, _ => []   (* unreachable: the chain is entered with both non-empty *)
          end
      end
  end.
Definition k_union (A B : iset) : iset := union_go (2 * (length A + length B) + 2) None A B.

(* jitunion_isets: n-ary union of the concatenated starts/ends (stable argsort by start) *)
Fixpoint insert_by_start (x : Z * Z) (l : iset) : iset :=
  match l with
  | [] => [x]
  | y :: r => if fst x <? fst y then x :: l else y :: insert_by_start x r
  end.
Definition sort_by_start (l : iset) : iset := fold_left (fun acc x => insert_by_start x acc) l [].

Fixpoint union_n_go (cs ce : Z) (l : iset) : iset :=
  match l with
  | [] => [(cs, ce)]
  | (s, e) :: r => if ce <? s then (cs, ce) :: union_n_go s e r else union_n_go cs (Z.max ce e) r
  end.
Definition k_union_n (l : iset) : iset :=
  match sort_by_start l with [] => [] | (s, e) :: r => union_n_go s e r end.

(* public wrappers: every result re-enters the constructor *)
Definition iset_inter (A B : iset) : iset := mk_iset_pairs (k_inter A B).
Definition iset_union (A B : iset) : iset := mk_iset_pairs (k_union A B).
Definition iset_diff (A B : iset) : iset := mk_iset_pairs (k_diff A B).
