(* Functional models of pynapple/process/tuning_curves.py and pynapple/process/decoding.py (tier N + K).
   Times are ticks (Z).  Feature values are integers; bin edges np.linspace(lo, hi, nb+1) are kept in Z by
   scaling everything by nb:  edge_k * nb = lo*nb + k*(hi-lo),  value * nb.
   NumPy routines (np.histogram, np.histogram2d, np.digitize, exp) enter the pynapple-level models as
   explicit function arguments (H, H2, D, E); their laws are the executable definitions [hist], [hist2d],
   [dig] below (checked against NumPy by the correspondence) and "E is positive".
   Rates, posteriors are Q.  No proofs in this file. *)
From Coq Require Import QArith.
From Verif Require Import Base.Prelude Model.Restrict Model.Count Model.ValueFrom.
Local Open Scope Z_scope.

(* ---------------------------------------------------------------------------------------------- *)
(* np.histogram's rule: bins [e_k, e_{k+1}) half-open, the last bin closed                        *)
Definition nbins (edges : list Z) : nat := (length edges - 1)%nat.

Definition hbin (edges : list Z) (k : nat) (x : Z) : bool :=
  (nth k edges 0 <=? x) &&
  ((x <? nth (S k) edges 0) || ((S (S k) =? length edges)%nat && (x =? nth (S k) edges 0))).

Definition hist (edges xs : list Z) : list nat :=
  map (fun k => count_if (hbin edges k) xs) (seq 0 (nbins edges)).

(* the index of the bin holding x, as a left-to-right scan over the edges (searchsorted + the
   "rightmost edge belongs to the last bin" correction of np.histogram / np.histogramdd) *)
Fixpoint bin_go (k : nat) (rest : list Z) (x : Z) : option nat :=
  match rest with
  | [] => None
  | b :: r => if x <? b then Some k
              else match r with
                   | [] => if x =? b then Some k else None
                   | _ :: _ => bin_go (S k) r x
                   end
  end.
Definition bin_of (edges : list Z) (x : Z) : option nat :=
  match edges with [] => None | a :: rest => if x <? a then None else bin_go 0%nat rest x end.

(* np.digitize(x, edges) - 1, kept only when it is one of 0 .. nb-1: every bin half-open *)
Fixpoint dig_go (k : nat) (rest : list Z) (x : Z) : option nat :=
  match rest with
  | [] => None
  | b :: r => if x <? b then Some k else dig_go (S k) r x
  end.
Definition dig (edges : list Z) (x : Z) : option nat :=
  match edges with [] => None | a :: rest => if x <? a then None else dig_go 0%nat rest x end.

Definition is_bin (o : option nat) (k : nat) : bool :=
  match o with Some j => (j =? k)%nat | None => false end.

(* np.histogram2d: cell (i, j) counts the points whose x is in bin i and y in bin j *)
Definition hist2d (ex ey : list Z) (pts : list (Z * Z)) : list (list nat) :=
  map (fun i => map (fun j => count_if (fun p => hbin ex i (fst p) && hbin ey j (snd p)) pts)
                    (seq 0 (nbins ey)))
      (seq 0 (nbins ex)).

(* np.linspace(lo, hi, nb+1) scaled by nb; data scaled alike *)
Definition lin_edges (lo hi : Z) (nb : nat) : list Z :=
  map (fun k => lo * Z.of_nat nb + Z.of_nat k * (hi - lo)) (seq 0 (S nb)).
Definition scale (c : Z) (xs : list Z) : list Z := map (Z.mul c) xs.

(* strictly increasing edges *)
Fixpoint incr_from (lo : Z) (l : list Z) : Prop :=
  match l with [] => True | x :: r => lo < x /\ incr_from x r end.
Definition increasing (l : list Z) : Prop :=
  match l with [] => True | x :: r => incr_from x r end.

(* bin centres doubled: 2*c_k = e_k + e_{k+1}  (idx = bins[0:-1] + np.diff(bins)/2) *)
Fixpoint centres2 (edges : list Z) : list Z :=
  match edges with
  | a :: (b :: _) as tl => (a + b) :: centres2 tl
  | _ => []
  end.

(* ---------------------------------------------------------------------------------------------- *)
(* compute_discrete_tuning_curves: restrict + tot_length                                          *)
Definition discrete_count (sp : list Z) (ep : iset) : nat := length (restrict_idx sp ep).
(* rate in Hz = count / (tot_length in seconds) *)
Definition discrete_tc (sp : list Z) (ep : iset) : Q :=
  Qmake (Z.of_nat (discrete_count sp ep) * 1000000000) (Z.to_pos (tot_length ep)).

(* ---------------------------------------------------------------------------------------------- *)
(* compute_1d_tuning_curves                                                                       *)
Inductive tcval := TNaN | TInf | TVal (q : Q).

(* count / occupancy * rate with NumPy's 0/0 = NaN, x/0 = inf *)
Definition ratio (rate : Q) (cnt occ : nat) : tcval :=
  if (occ =? 0)%nat then (if (cnt =? 0)%nat then TNaN else TInf)
  else TVal (inject_Z (Z.of_nat cnt) / inject_Z (Z.of_nat occ) * rate).

(* values of the feature samples lying in ep (feature.restrict(ep).values) *)
Definition rvals (ft fv : list Z) (ep : iset) : list Z := select 0 fv (restrict_idx ft ep).

(* group.value_from(feature, ep): for every spike in ep, the value of the feature sample nearest in
   time within the same epoch (jitvaluefrom mode 1 = closest); None = NaN (epoch without feature sample) *)
Definition attributed (sp ft fv : list Z) (ep : iset) : list (option Z) :=
  map (option_map (fun j => nth j (rvals ft fv ep) 0)) (value_from 1 sp ft ep).

Definition somes {A} (l : list (option A)) : list A :=
  flat_map (fun o => match o with Some v => [v] | None => [] end) l.

Definition tc1d_count (H : list Z -> list Z -> list nat) (edges sp ft fv : list Z) (ep : iset) : list nat :=
  H edges (somes (attributed sp ft fv ep)).
Definition tc1d_occ (H : list Z -> list Z -> list nat) (edges ft fv : list Z) (ep : iset) : list nat :=
  H edges (rvals ft fv ep).
Definition tc1d (H : list Z -> list Z -> list nat) (rate : Q) (edges sp ft fv : list Z) (ep : iset) : list tcval :=
  map (fun co => ratio rate (fst co) (snd co))
      (combine (tc1d_count H edges sp ft fv ep) (tc1d_occ H edges ft fv ep)).

(* ---------------------------------------------------------------------------------------------- *)
(* compute_2d_tuning_curves: value_from is called once per feature column with the same timestamps,
   so both coordinates come from the SAME feature sample j                                        *)
Definition attributed2 (sp ft fx fy : list Z) (ep : iset) : list (option (Z * Z)) :=
  map (option_map (fun j => (nth j (rvals ft fx ep) 0, nth j (rvals ft fy ep) 0))) (value_from 1 sp ft ep).

Definition tc2d_count (H2 : list Z -> list Z -> list (Z * Z) -> list (list nat))
           (ex ey sp ft fx fy : list Z) (ep : iset) : list (list nat) :=
  H2 ex ey (somes (attributed2 sp ft fx fy ep)).
Definition tc2d_occ (H2 : list Z -> list Z -> list (Z * Z) -> list (list nat))
           (ex ey ft fx fy : list Z) (ep : iset) : list (list nat) :=
  H2 ex ey (combine (rvals ft fx ep) (rvals ft fy ep)).
Definition tc2d H2 (rate : Q) (ex ey sp ft fx fy : list Z) (ep : iset) : list (list tcval) :=
  map (fun rows => map (fun co => ratio rate (fst co) (snd co)) (combine (fst rows) (snd rows)))
      (combine (tc2d_count H2 ex ey sp ft fx fy ep) (tc2d_occ H2 ex ey ft fx fy ep)).

(* ---------------------------------------------------------------------------------------------- *)
(* compute_1d_tuning_curves_continuous: signal samples (st, sv) restricted to ep, each given the
   feature value nearest in time (value_from), binned with np.digitize - 1; per bin the mean.
   Result per bin: None = NaN (bin not visited by the feature); Some (n, s): mean = s / n, and
   n = 0 stands for the 0.0 that the code writes when a visited bin received no signal sample.   *)
Definition cont_rows (st sv ft fv : list Z) (ep : iset) : list (option Z * Z) :=
  combine (attributed st ft fv ep) (select 0 sv (restrict_idx st ep)).

Definition cont_bin (D : list Z -> Z -> option nat) (edges : list Z) (rows : list (option Z * Z)) (k : nat) : list Z :=
  map snd (filter (fun r => match fst r with Some x => is_bin (D edges x) k | None => false end) rows).

Definition cont_tc (D : list Z -> Z -> option nat) (H : list Z -> list Z -> list nat)
           (edges st sv ft fv : list Z) (ep : iset) : list (option (nat * Z)) :=
  map (fun ko => let vals := cont_bin D edges (cont_rows st sv ft fv ep) (fst ko) in
                 if (snd ko =? 0)%nat then None else Some (length vals, sumZ vals))
      (combine (seq 0 (nbins edges)) (tc1d_occ H edges ft fv ep)).

(* 2-d continuous: cell (i, j) *)
Definition cont_rows2 (st sv ft fx fy : list Z) (ep : iset) : list (option (Z * Z) * Z) :=
  combine (attributed2 st ft fx fy ep) (select 0 sv (restrict_idx st ep)).
Definition cont_cell (D : list Z -> Z -> option nat) (ex ey : list Z) (rows : list (option (Z * Z) * Z)) (i j : nat) : list Z :=
  map snd (filter (fun r => match fst r with
                            | Some (x, y) => is_bin (D ex x) i && is_bin (D ey y) j
                            | None => false end) rows).
Definition cont_tc2 D (H2 : list Z -> list Z -> list (Z * Z) -> list (list nat))
           (ex ey st sv ft fx fy : list Z) (ep : iset) : list (list (option (nat * Z))) :=
  map (fun io => map (fun jo => let vals := cont_cell D ex ey (cont_rows2 st sv ft fx fy ep) (fst io) (fst jo) in
                                if (snd jo =? 0)%nat then None else Some (length vals, sumZ vals))
                     (combine (seq 0 (nbins ey)) (snd io)))
      (combine (seq 0 (nbins ex)) (tc2d_occ H2 ex ey ft fx fy ep)).

(* ---------------------------------------------------------------------------------------------- *)
(* decoding                                                                                       *)
Local Open Scope Q_scope.

Fixpoint Qpow (q : Q) (n : nat) : Q := match n with O => 1 | S m => q * Qpow q m end.
Definition Qsum (l : list Q) : Q := fold_right Qplus 0 l.
Definition Qprod (l : list Q) : Q := fold_right Qmult 1 l.

(* p2 = occupancy / occupancy.sum() *)
Definition prior (occ : list Q) : list Q := map (fun o => o / Qsum occ) occ.
(* p3 for one feature bin: prod_j r_j ^ c_j *)
Definition likelihood (row : list Q) (cnt : list nat) : Q :=
  Qprod (map (fun rc => Qpow (fst rc) (snd rc)) (combine row cnt)).
(* argument of exp for one feature bin: bin_size * sum_j r_j *)
Definition expo (b : Q) (row : list Q) : Q := b * Qsum row.
(* weight without the exponential factor *)
Definition wl (pr : Q) (row : list Q) (cnt : list nat) : Q := pr * likelihood row cnt.
Definition wls (occ : list Q) (tc : list (list Q)) (cnt : list nat) : list Q :=
  map (fun pr => wl (fst pr) (snd pr) cnt) (combine (prior occ) tc).
(* p1 * p2 * p3 *)
Definition weights (E : Q -> Q) (b : Q) (occ : list Q) (tc : list (list Q)) (cnt : list nat) : list Q :=
  map (fun pr => E (- expo b (snd pr)) * fst pr * likelihood (snd pr) cnt) (combine (prior occ) tc).
Definition normalise (w : list Q) : list Q := map (fun x => x / Qsum w) w.
Definition posterior (E : Q -> Q) (b : Q) (occ : list Q) (tc : list (list Q)) (cnt : list nat) : list Q :=
  normalise (weights E b occ tc cnt).

(* np.argmax: first index of the maximum *)
Fixpoint argmax_go (best : Q) (bi i : nat) (l : list Q) : nat :=
  match l with
  | [] => bi
  | x :: r => if Qle_bool x best then argmax_go best bi (S i) r else argmax_go x i (S i) r
  end.
Definition argmax (l : list Q) : nat :=
  match l with [] => 0%nat | x :: r => argmax_go x 0%nat 1%nat r end.

Definition decoded (centres p : list Q) : Q := nth (argmax p) centres 0.

Definition occ_q (occ : list nat) : list Q := map (fun n => inject_Z (Z.of_nat n)) occ.

(* time bins: newgroup.count(bin_size, ep): one row of counts per reported bin (C05's grid) *)
Definition unit_counts (units : list (list Z)) (ep : iset) (b : Z) : list (list nat) :=
  map (fun sp => map snd (count_binned sp ep b)) units.
Definition grid2 (ep : iset) (b : Z) : list Z := map fst (count_binned [] ep b).
Definition column (t : nat) (m : list (list nat)) : list nat := map (fun row => nth t row 0%nat) m.
Definition count_rows (units : list (list Z)) (ep : iset) (b : Z) : list (Z * list nat) :=
  map (fun t => (nth t (grid2 ep b) 0%Z, column t (unit_counts units ep b))) (seq 0 (length (grid2 ep b))).

Definition bin_size_s (b : Z) : Q := Qmake b 1000000000.

(* decode_1d on a TsGroup/dict: per time bin (2*centre tick, posterior, decoded value) *)
Definition decode (E : Q -> Q) (occ : list Q) (tc : list (list Q)) (centres : list Q)
           (units : list (list Z)) (ep : iset) (b : Z) : list (Z * (list Q * Q)) :=
  map (fun tr => let p := posterior E (bin_size_s b) occ tc (snd tr) in (fst tr, (p, decoded centres p)))
      (count_rows units ep b).
(* pre-binned TsdFrame: rows (t, counts) lying in ep are decoded as they are *)
Definition decode_binned (E : Q -> Q) (occ : list Q) (tc : list (list Q)) (centres : list Q)
           (rows : list (Z * list nat)) (ep : iset) (b : Z) : list (Z * (list Q * Q)) :=
  map (fun tr => let p := posterior E (bin_size_s b) occ tc (snd tr) in (fst tr, (p, decoded centres p)))
      (filter (fun tr => mem (fst tr) ep) rows).

(* decode_2d: the feature bins are the cells (i, j) of the nx x ny grid flattened row-major (tc.reshape);
   the posterior ARRAY has one row per row of the pre-binned frame restricted to ep (count = newgroup), and the
   decoded pair is the (x, y) centre at np.unravel_index(argmax, (nx, ny)) *)
Definition unravel (ny k : nat) : nat * nat := ((k / ny)%nat, (k mod ny)%nat).
Definition inside_rows (rows : list (Z * list nat)) (ep : iset) : list (Z * list nat) :=
  filter (fun tr => mem (fst tr) ep) rows.
Definition decode2d_post (E : Q -> Q) (occ : list Q) (tc : list (list Q))
           (rows : list (Z * list nat)) (ep : iset) (b : Z) : list (list Q) :=
  map (fun tr => posterior E (bin_size_s b) occ tc (snd tr)) (inside_rows rows ep).
Definition decode2d_decoded (E : Q -> Q) (occ : list Q) (tc : list (list Q)) (cx cy : list Q)
           (rows : list (Z * list nat)) (ep : iset) (b : Z) : list (Z * (Q * Q)) :=
  map (fun tr => let ij := unravel (length cy) (argmax (posterior E (bin_size_s b) occ tc (snd tr))) in
                 (fst tr, (nth (fst ij) cx 0, nth (snd ij) cy 0)))
      (inside_rows rows ep).

Local Open Scope Z_scope.
(* occupancy prior of decode_1d: the bin edges are rebuilt from the bin centres
   (bins_i = c_i - (c_{i+1}-c_i)/2, the last two by extrapolation).  In: doubled centres; out: edges * 4.
   None when there are fewer than two centres (the code indexes an empty array). *)
Fixpoint edges4_go (cs : list Z) : list Z :=
  match cs with
  | c0 :: (c1 :: _) as tl => (3 * c0 - c1) :: edges4_go tl
  | _ => []
  end.
Definition edges4 (cs : list Z) : option (list Z) :=
  match rev (edges4_go cs), rev cs with
  | bl :: _, cl :: cp :: _ => Some (edges4_go cs ++ [bl + 2 * (cl - cp); bl + 4 * (cl - cp)])
  | _, _ => None
  end.
Definition decode_occ (H : list Z -> list Z -> list nat) (cs : list Z) (fv : list Z) : option (list nat) :=
  option_map (fun e => H e (scale 4 fv)) (edges4 cs).

(* ---------------------------------------------------------------------------------------------- *)
(* specification vocabulary (used by the theorems; not extracted)                                 *)
(* queries qs of one epoch answered from the feature rows (time, value) of the same epoch *)
Definition attr_block (qs : list Z) (rows : list (Z * Z)) : list (option Z) :=
  match rows with
  | [] => map (fun _ => None) qs
  | _ :: _ => map (option_map (fun j => snd (nth j rows (0, 0)))) (vf_interval 1 qs (map fst rows) 0%nat)
  end.
(* o is the value of a row of [rows] whose time is nearest to x *)
Definition nearest (x : Z) (rows : list (Z * Z)) (o : option Z) : Prop :=
  exists j, (j < length rows)%nat /\ o = Some (snd (nth j rows (0, 0))) /\
            Forall (fun r => Z.abs (fst (nth j rows (0, 0)) - x) <= Z.abs (fst r - x)) rows.
Definition in_hbin (edges : list Z) (k : nat) (o : option Z) : bool :=
  match o with Some v => hbin edges k v | None => false end.
Definition in_hbin2 (ex ey : list Z) (i j : nat) (o : option (Z * Z)) : bool :=
  match o with Some (x, y) => hbin ex i x && hbin ey j y | None => false end.
Definition in_range_o (edges : list Z) (o : option Z) : bool :=
  match o with Some v => (hd 0 edges <=? v) && (v <=? last edges 0) | None => false end.
Definition sum_nat (l : list nat) : nat := fold_right Nat.add 0%nat l.
