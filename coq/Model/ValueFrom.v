(* Functional model of jitvaluefrom (pynapple/core/_jitted_functions.py, as repaired) and of
   _value_from's use of it.  The kernel's cursor machine is transcribed variable by variable
   (t, i, interval, nan_cond, idx[t]) for ONE interval; arrays are lists read with [nth].
   mode: 0 = before, 1 = closest, 2 = after.  No proofs in this file. *)
From Verif Require Import Base.Prelude Model.Restrict.

Definition ivl (mode : Z) (a x : Z) : Z := if mode =? 1 then Z.abs (a - x) else a - x.

(* the inner "while i < maxi" loop for the query x.
   i = candidate index, cur = idx[t], interval, nc = nan_cond.  Returns (idx[t], i at loop exit, nan_cond, broke?) *)
Fixpoint vf_inner (fuel : nat) (mode x : Z) (src : list Z) (i cur : nat) (interval : Z) (nc : bool)
  : option nat * nat * bool * bool :=
  match fuel with
  | O => (Some cur, i, nc, false)
  | S f =>
      if (i <? length src)%nat then
        let nw := ivl mode (nth i src 0) x in
        let break_cond :=
          if mode =? 1 then interval <? nw
          else if mode =? 0 then ((0 <? nw) && (interval <=? 0)) || (0 <=? interval)
               else ((nw <? 0) && (0 <=? interval)) || (0 <=? interval) in
        let nc' := if mode =? 1 then false else if mode =? 0 then 0 <? interval else nw <? 0 in
        if break_cond then ((if nc' then None else Some cur), i, nc', true)
        else vf_inner f mode x src (S i) i nw nc'
      else (Some cur, i, nc, false)
  end.

(* one query: cursor i on entry; returns (idx[t], cursor for the next query) *)
Definition vf_query (mode x : Z) (src : list Z) (i : nat) : option nat * nat :=
  let interval := ivl mode (nth i src 0) x in
  let nc0 := (mode =? 0) && (0 <? interval) in
  let '(r, i', nc, broke) := vf_inner (S (length src)) mode x src (S i) i interval nc0 in
  let r' :=
    if (i' =? length src)%nat then
      let nc2 := if mode =? 2 then (nth (i' - 1) src 0 - x <? 0) else nc in
      if nc2 then None else r
    else r in
  (r', (i' - 1)%nat).

(* all queries of one interval (src non-empty), cursor threaded through *)
Fixpoint vf_interval (mode : Z) (qs : list Z) (src : list Z) (i : nat) : list (option nat) :=
  match qs with
  | [] => []
  | x :: r => let '(res, i') := vf_query mode x src i in res :: vf_interval mode r src i'
  end.

(* the whole call: per interval, queries and sources of that interval; indices are positions in the
   concatenation of the per-interval source lists (= the restricted source array) *)
Fixpoint vf_all (mode : Z) (qss sss : list (list Z)) (off : nat) : list (option nat) :=
  match qss, sss with
  | qs :: qr, src :: sr =>
      (match src with
       | [] => map (fun _ => None) qs
       | _ => map (option_map (fun j => (off + j)%nat)) (vf_interval mode qs src 0%nat)
       end) ++ vf_all mode qr sr (off + length src)%nat
  | _, _ => []
  end.

Definition per_interval (ts : list Z) (ep : iset) : list (list Z) :=
  map (select 0 ts) (restrict_scan ep 0%nat ts).

(* result: one entry per query sample lying in ep, in order *)
Definition value_from (mode : Z) (qs sr0 : list Z) (ep : iset) : list (option nat) :=
  vf_all mode (per_interval qs ep) (per_interval sr0 ep) 0%nat.

(* ---- specification of one answer ---- *)
Definition best_before (x : Z) (src : list Z) (r : option nat) : Prop :=
  match r with
  | Some j => (j < length src)%nat /\ nth j src 0 <= x /\ Forall (fun y => y <= x -> y <= nth j src 0) src
  | None => Forall (fun y => x < y) src
  end.
Definition best_after (x : Z) (src : list Z) (r : option nat) : Prop :=
  match r with
  | Some j => (j < length src)%nat /\ x <= nth j src 0 /\ Forall (fun y => x <= y -> nth j src 0 <= y) src
  | None => Forall (fun y => y < x) src
  end.
Definition best_closest (x : Z) (src : list Z) (r : option nat) : Prop :=
  match r with
  | Some j => (j < length src)%nat /\ Forall (fun y => Z.abs (nth j src 0 - x) <= Z.abs (y - x)) src
  | None => False
  end.
Definition vf_spec (mode x : Z) (src : list Z) (r : option nat) : Prop :=
  if mode =? 0 then best_before x src r else if mode =? 1 then best_closest x src r else best_after x src r.
