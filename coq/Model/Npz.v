(* C11 — model of save / load_file for the six pynapple classes.  Definitions only (no proofs).

   An .npz file is a key/value map  file := list (string * fval).  [save] writes, for the class of the object, the
   entries listed in the GENERATED writer table of that class (Gen/SitesC11.v: the keywords of the np.savez call /
   the dicttosave[...] stores, with the source text of each value expression); [eval_expr] gives the meaning of the
   expression texts this model knows (anything else is FUnknown, which no reader accepts).  [load] follows
   NPZFile.__init__ (type detection), NPZFile.load (dispatch on the class's own _from_npz_reader) and the three
   readers; every key it looks up is the string that the GENERATED reader table attaches to the slot (keyword /
   variable) the source feeds from that read.  The constructors re-entered on load (IntervalSet -> mk_iset,
   Ts/Tsd* -> restrict to the support, TsGroup -> key sort) are the models of C01/C03.

   Times are integer ns ticks; data cells are integers (dval = option Z where NaN matters); np.argsort is a
   parameter (its contract is a Section hypothesis in Proofs/NpzProofs.v). *)
From Coq Require Import String Ascii DecimalString.
From Verif Require Import Base.Prelude Model.Restrict Model.Iset Gen.SitesC11.
Local Open Scope string_scope.
Local Open Scope list_scope.
Local Open Scope Z_scope.
Local Notation "a =s b" := (String.eqb a b) (at level 70).

(* ---------------------------------------------------------------------------------------- objects *)
Inductive dtype := DInt | DFloat | DBool.
Inductive label := LInt (z : Z) | LStr (s : string).
Inductive mval := MInt (z : Z) | MFlt (z : Z) | MStr (s : string).     (* numeric (int / float) or string cell *)
Definition dval := option Z.                                           (* None = NaN *)

Definition mcols := list (string * list mval).                (* metadata columns: name, cells in index order *)
Definition mdict := list (string * list (label * mval)).      (* DataFrame.to_dict(): column -> {index label -> cell} *)

Record ts := { ts_t : list Z; ts_sup : iset }.
(* Tsd (shape = []) and TsdTensor (length shape >= 2): one flattened row of cells per sample *)
Record tsd := { d_t : list Z; d_v : list (list Z); d_shape : list nat; d_dt : dtype; d_sup : iset }.
Record frame := { f_t : list Z; f_v : list (list Z); f_dt : dtype; f_sup : iset; f_cols : list label; f_meta : mcols }.
Record isetm := { i_iv : iset; i_meta : mcols }.
Inductive member := MTs (t : list Z) | MTsd (s : list (Z * dval)).
(* metadata column "rate" is derived (recomputed by the constructor) and is not part of g_meta *)
Record group := { g_mem : list (Z * member); g_sup : iset; g_meta : mcols }.
Inductive obj := OTs (x : ts) | OTsd (x : tsd) | OFrame (x : frame) | OTensor (x : tsd) | OGroup (x : group) | OIset (x : isetm).

Inductive fval :=
| FFloat1 (l : list Z)                                   (* 1-d float64 array of times *)
| FData (dt : dtype) (shape : list nat) (v : list (list Z))   (* array of shape (n, *shape) with its dtype *)
| FNan1 (l : list dval)                                  (* 1-d float64 array that may hold NaN *)
| FInt1 (l : list Z)                                     (* 1-d integer array *)
| FStr1 (l : list string)                                (* 1-d str array *)
| FLabels (l : list label)                               (* column labels *)
| FDict (m : mdict)                                      (* 0-d object array holding a dict *)
| FUnknown.                                              (* value of an expression this model does not know *)
Definition file := list (string * fval).

Definition class_name (x : obj) : string :=
  match x with OTs _ => "Ts" | OTsd _ => "Tsd" | OFrame _ => "TsdFrame" | OTensor _ => "TsdTensor"
             | OGroup _ => "TsGroup" | OIset _ => "IntervalSet" end.

(* ---------------------------------------------------------------------------------------- small helpers *)
Fixpoint lookup {A} (f : list (string * A)) (k : string) : option A :=
  match f with [] => None | (k', v) :: r => if String.eqb k k' then Some v else lookup r k end.
Definition has {A} (f : list (string * A)) (k : string) : bool := match lookup f k with Some _ => true | None => false end.
Definition mem_str (k : string) (l : list string) : bool := existsb (String.eqb k) l.
Definition subsetb (a b : list string) : bool := forallb (fun k => mem_str k b) a.

Definition label_eqb (a b : label) : bool :=
  match a, b with LInt x, LInt y => x =? y | LStr x, LStr y => String.eqb x y | _, _ => false end.
Fixpoint labels_eqb (a b : list label) : bool :=
  match a, b with [] , [] => true | x :: a', y :: b' => label_eqb x y && labels_eqb a' b' | _, _ => false end.

Definition seqZ (n : nat) : list Z := map Z.of_nat (seq 0 n).
Definition is_str (l : label) : bool := match l with LStr _ => true | LInt _ => false end.
Definition to_str (l : label) : label :=
  match l with LStr s => LStr s | LInt z => LStr (NilZero.string_of_int (Z.to_int z)) end.
(* TsdFrame.save: `if cols_name.dtype == np.dtype("O"): cols_name = cols_name.astype(str)` — an Index holding a str
   is never an integer Index; casting an all-str Index is the identity, a mixed one becomes all-str *)
Definition cast_cols (c : list label) : list label := if existsb is_str c then map to_str c else c.

(* NumPy boolean-mask indexing  a[mask] *)
Definition mask_select {A} (mask : list bool) (l : list A) : list A := map snd (filter fst (combine mask l)).

(* ---------------------------------------------------------------------------------------- metadata *)
(* a Python dict built from (key, value) pairs in order (`dict(zip(index, cells))`, which is what Series.to_dict does):
   a key that occurs again keeps the position of its FIRST occurrence and takes the value of the LAST one - so an index
   with a repeated label collapses to one entry per distinct label *)
Fixpoint dict_set (k : label) (v : mval) (d : list (label * mval)) : list (label * mval) :=
  match d with
  | [] => [(k, v)]
  | (k', v') :: r => if label_eqb k k' then (k', v) :: r else (k', v') :: dict_set k v r
  end.
Definition py_dict (l : list (label * mval)) : list (label * mval) :=
  fold_left (fun d kv => dict_set (fst kv) (snd kv) d) l [].
Definition to_dict (idx : list label) (m : mcols) : mdict := map (fun cv => (fst cv, py_dict (combine idx (snd cv)))) m.
Definition from_dict (d : mdict) : list label * mcols :=
  (match d with [] => [] | ckv :: _ => map fst (snd ckv) end, map (fun ckv => (fst ckv, map snd (snd ckv))) d).
(* set_info(DataFrame): the frame's index must equal the object's metadata index *)
Definition set_info (idx : list label) (d : mdict) : option mcols :=
  let '(i, m) := from_dict d in
  if labels_eqb i idx && forallb (fun ckv => labels_eqb (map fst (snd ckv)) i) d then Some m else None.

(* ---------------------------------------------------------------------------------------- TsGroup.save internals *)
Definition samples (m : member) : list (Z * dval) :=
  match m with MTs t => map (fun x => (x, None)) t | MTsd s => s end.
(* the concatenation loop: (time, (data or NaN, int(key))) in key order *)
Definition flat (g : list (Z * member)) : list (Z * (dval * Z)) :=
  flat_map (fun km => map (fun td => (fst td, (snd td, fst km))) (samples (snd km))) g.
Definition tr_t (x : Z * (dval * Z)) : Z := fst x.
Definition tr_d (x : Z * (dval * Z)) : dval := fst (snd x).
Definition tr_k (x : Z * (dval * Z)) : Z := snd (snd x).
Definition is_some {A} (o : option A) : bool := match o with Some _ => true | None => false end.

Section Save.
  (* idx = np.argsort(times) *)
  Variable argsort : list Z -> list nat.

  Definition g_idx (g : group) : list nat := argsort (map tr_t (flat (g_mem g))).
  Definition g_times (g : group) : list Z := select 0 (map tr_t (flat (g_mem g))) (g_idx g).
  Definition g_index (g : group) : list Z := select 0 (map tr_k (flat (g_mem g))) (g_idx g).
  Definition g_data (g : group) : list dval := select None (map tr_d (flat (g_mem g))) (g_idx g).

  Definition support (x : obj) : iset :=
    match x with OTs a => ts_sup a | OTsd a | OTensor a => d_sup a | OFrame a => f_sup a | OGroup a => g_sup a
               | OIset a => i_iv a end.

  Definition type_expr (c : string) : string := "np.array(['" ++ c ++ "'], dtype=np.str_)".
  Definition class_names : list string := map fst expected_entries.

  Definition eval_expr (x : obj) (e : string) : fval :=
    if e =s "self.index.values" then
      match x with OTs a => FFloat1 (ts_t a) | OTsd a | OTensor a => FFloat1 (d_t a) | OFrame a => FFloat1 (f_t a)
                 | _ => FUnknown end
    else if (e =s "self.values") || (e =s "self.values[:]") then
      match x with OTsd a | OTensor a => FData (d_dt a) (d_shape a) (d_v a)
                 | OFrame a => FData (f_dt a) [length (f_cols a)] (f_v a) | _ => FUnknown end
    else if e =s "self.time_support.start" then
      match x with OIset _ => FUnknown | _ => FFloat1 (map fst (support x)) end
    else if e =s "self.time_support.end" then
      match x with OIset _ => FUnknown | _ => FFloat1 (map snd (support x)) end
    else if e =s "self.values[:, 0]" then match x with OIset a => FFloat1 (map fst (i_iv a)) | _ => FUnknown end
    else if e =s "self.values[:, 1]" then match x with OIset a => FFloat1 (map snd (i_iv a)) | _ => FUnknown end
    else if e =s "np.array([self.nap_class], dtype=np.str_)" then FStr1 [class_name x]
    else if e =s "cols_name" then match x with OFrame a => FLabels (cast_cols (f_cols a)) | _ => FUnknown end
    else if e =s "self._metadata.to_dict()" then
      match x with OFrame a => FDict (to_dict (f_cols a) (f_meta a))
                 | OIset a => FDict (to_dict (map LInt (seqZ (length (i_iv a)))) (i_meta a)) | _ => FUnknown end
    else if e =s "self._metadata.drop(columns='rate').to_dict()" then
      match x with OGroup a => FDict (to_dict (map LInt (map fst (g_mem a))) (g_meta a)) | _ => FUnknown end
    else if e =s "times" then match x with OGroup a => FFloat1 (g_times a) | _ => FUnknown end
    else if e =s "index" then match x with OGroup a => FInt1 (g_index a) | _ => FUnknown end
    else if e =s "data[idx]" then match x with OGroup a => FNan1 (g_data a) | _ => FUnknown end
    else if e =s "np.array(self.keys())" then match x with OGroup a => FInt1 (map fst (g_mem a)) | _ => FUnknown end
    else match find (fun c => e =s type_expr c) class_names with Some c => FStr1 [c] | None => FUnknown end.

  Definition eval_cond (x : obj) (c : string) : option bool :=
    if c =s "" then Some true
    else if c =s "not np.all(np.isnan(data))" then
      match x with OGroup a => Some (existsb is_some (map tr_d (flat (g_mem a)))) | _ => None end
    else None.

  Definition table_of (c : string) : list (string * (string * string)) :=
    match lookup writers c with Some t => t | None => [] end.

  Definition save (x : obj) : file :=
    flat_map (fun kec => match eval_cond x (snd (snd kec)) with
                         | Some true => [(fst kec, eval_expr x (fst (snd kec)))]
                         | Some false => []
                         | None => [(fst kec, FUnknown)]
                         end) (table_of (class_name x)).
End Save.

(* ---------------------------------------------------------------------------------------- readers *)
Definition rtable := list (string * (string * (string * bool))).
(* the key string the source reads for a slot *)
Fixpoint slot_key (t : rtable) (slot kind : string) : option string :=
  match t with
  | [] => None
  | (s, (kd, (k, _))) :: r => if (s =s slot) && (kd =s kind) then Some k else slot_key r slot kind
  end.
Definition rd (t : rtable) (slot : string) (f : file) : option fval :=
  match slot_key t slot "get" with Some k => lookup f k | None => None end.
Definition tst (t : rtable) (slot : string) (f : file) : option bool :=
  match slot_key t slot "in" with Some k => Some (has f k) | None => None end.

(* `if "_metadata" in file: if file["_metadata"]: m = pd.DataFrame.from_dict(file["_metadata"].item()); x.set_info(m)`
   None = exception / not modelled;  Some None = nothing to set;  Some (Some d) = set_info(from_dict d) *)
Definition read_meta (t : rtable) (f : file) : option (option mdict) :=
  match tst t "if(if(pd.DataFrame.from_dict.0))" f with
  | None => None
  | Some false => Some None
  | Some true =>
      match rd t "if(pd.DataFrame.from_dict.0)" f with
      | Some (FDict []) => Some None
      | Some (FDict (_ :: _)) => match rd t "pd.DataFrame.from_dict.0" f with Some (FDict d) => Some (Some d) | _ => None end
      | _ => None
      end
  end.
Definition attach_meta (t : rtable) (f : file) (idx : list label) : option mcols :=
  match read_meta t f with None => None | Some None => Some [] | Some (Some d) => set_info idx d end.

(* constructors re-entered on load *)
Definition ctor_ts (t : list Z) (sup : iset) : ts :=
  match t with [] => {| ts_t := []; ts_sup := [] |} | _ => {| ts_t := restrict_ts t sup; ts_sup := sup |} end.
Definition ctor_rows {A} (d : A) (t : list Z) (rows : list A) (sup : iset) : option (list Z * list A * iset) :=
  if negb (length t =? length rows)%nat then None
  else match t with
       | [] => Some ([], rows, [])
       | _ => let ix := restrict_idx t sup in Some (select 0 t ix, select d rows ix, sup)
       end.

Definition params_of (c : string) : option (list (string * bool) * bool) := lookup ctor_params c.
Definition arg (params : list (string * bool)) (kwargs : file) (name : string) : option fval :=
  if mem_str name (map fst params) then lookup kwargs name else None.

Definition arange_labels (n : nat) : list label := map LInt (seqZ n).

(* _Base._from_npz_reader for cls = c *)
Definition base_reader (c : string) (f : file) : option obj :=
  let kwargs := filter (fun kv => negb (mem_str (fst kv) r_base_excluded)) f in
  match params_of c with
  | None => None
  | Some (params, accepts_kw) =>
    if negb (accepts_kw || forallb (fun kv => mem_str (fst kv) (map fst params)) kwargs) then None  (* unexpected keyword *)
    else if negb (forallb (fun p => implb (snd p) (has kwargs (fst p))) params) then None           (* missing argument *)
    else if negb (mem_str "time_support" (map fst params)) then None
    else match rd r_base "IntervalSet.start" f, rd r_base "IntervalSet.end" f with
    | Some (FFloat1 ss), Some (FFloat1 es) =>
      let sup := mk_iset ss es in
      match read_meta r_base f with
      | None => None
      | Some md =>
        if c =s "Ts" then
          match arg params kwargs "t", md with
          | Some (FFloat1 t), None => Some (OTs (ctor_ts t sup))
          | _, _ => None end
        else if c =s "Tsd" then
          match arg params kwargs "t", arg params kwargs "d", md with
          | Some (FFloat1 t), Some (FData dt [] v), None =>
              match ctor_rows [] t v sup with
              | Some (t', v', s') => Some (OTsd {| d_t := t'; d_v := v'; d_shape := []; d_dt := dt; d_sup := s' |})
              | None => None end
          | _, _, _ => None end
        else if c =s "TsdTensor" then
          match arg params kwargs "t", arg params kwargs "d", md with
          | Some (FFloat1 t), Some (FData dt (n1 :: n2 :: sh) v), None =>
              match ctor_rows [] t v sup with
              | Some (t', v', s') => Some (OTensor {| d_t := t'; d_v := v'; d_shape := n1 :: n2 :: sh; d_dt := dt; d_sup := s' |})
              | None => None end
          | _, _, _ => None end
        else if c =s "TsdFrame" then
          match arg params kwargs "t", arg params kwargs "d" with
          | Some (FFloat1 t), Some (FData dt [n] v) =>
              match ctor_rows [] t v sup with
              | Some (t', v', s') =>
                  let cols := match arg params kwargs "columns" with
                              | Some (FLabels cl) => if (length cl =? n)%nat then Some cl else Some (arange_labels n)
                              | None => Some (arange_labels n)
                              | _ => None end in
                  match cols with
                  | None => None
                  | Some cl =>
                      match (match md with None => Some [] | Some d => set_info cl d end) with
                      | Some m => Some (OFrame {| f_t := t'; f_v := v'; f_dt := dt; f_sup := s'; f_cols := cl; f_meta := m |})
                      | None => None end
                  end
              | None => None end
          | _, _ => None end
        else None
      end
    | _, _ => None
    end
  end.

(* IntervalSet._from_npz_reader :  cls(start=file[..], end=file[..]) *)
Definition load_iset (f : file) : option obj :=
  match params_of "IntervalSet" with
  | None => None
  | Some (params, _) =>
    if negb (mem_str "start" (map fst params) && mem_str "end" (map fst params)) then None else
    match rd r_IntervalSet "cls.start" f, rd r_IntervalSet "cls.end" f with
    | Some (FFloat1 ss), Some (FFloat1 es) =>
        let iv := mk_iset ss es in
        match attach_meta r_IntervalSet f (map LInt (seqZ (length iv))) with
        | Some m => Some (OIset {| i_iv := iv; i_meta := m |})
        | None => None end
    | _, _ => None
    end
  end.

(* TsGroup constructor: keys unique, members ordered by key *)
Fixpoint insert_key {A} (x : Z * A) (l : list (Z * A)) : list (Z * A) :=
  match l with [] => [x] | y :: r => if fst x <=? fst y then x :: l else y :: insert_key x r end.
Definition sort_keys {A} (l : list (Z * A)) : list (Z * A) := fold_right insert_key [] l.
Fixpoint nodupb (l : list Z) : bool :=
  match l with [] => true | x :: r => negb (existsb (Z.eqb x) r) && nodupb r end.
Fixpoint dedup_sorted (l : list Z) : list Z :=
  match l with
  | [] => []
  | x :: r => match r with [] => [x] | y :: _ => if x =? y then dedup_sorted r else x :: dedup_sorted r end
  end.
Definition np_unique (l : list Z) : list Z := dedup_sorted (sortZ l).

Fixpoint sequence {A} (l : list (option A)) : option (list A) :=
  match l with
  | [] => Some []
  | None :: _ => None
  | Some x :: r => match sequence r with Some r' => Some (x :: r') | None => None end
  end.

(* TsGroup._from_npz_reader *)
Definition load_group (f : file) : option obj :=
  if existsb (fun kv => negb (mem_str (fst kv) r_TsGroup_not_info)) f then None   (* legacy per-key metadata: not modelled *)
  else
  match rd r_TsGroup "times" f, rd r_TsGroup "index" f, tst r_TsGroup "has_data" f,
        rd r_TsGroup "IntervalSet.0" f, rd r_TsGroup "IntervalSet.1" f, tst r_TsGroup "if(keys)" f with
  | Some (FFloat1 times), Some (FInt1 index), Some has_data, Some (FFloat1 ss), Some (FFloat1 es), Some has_keys =>
    let sup := mk_iset ss es in
    let data := if has_data then match rd r_TsGroup "data" f with Some (FNan1 d) => Some (Some d) | _ => None end
                else Some None in
    let keys := if has_keys then match rd r_TsGroup "keys" f with Some (FInt1 k) => Some k | _ => None end
                else Some (np_unique index) in
    match data, keys with
    | Some data, Some keys =>
      if negb (length times =? length index)%nat then None else
      let build k :=
        let mask := map (Z.eqb k) index in
        let t := mask_select mask times in
        match data with
        | Some d =>
            if negb (length d =? length times)%nat then None else
            match ctor_rows None t (mask_select mask d) sup with
            | Some (t', d', _) => Some (k, MTsd (combine t' d'))
            | None => None end
        | None => Some (k, MTs (ts_t (ctor_ts t sup)))
        end in
      match sequence (map build keys) with
      | None => None
      | Some mem =>
        if negb (nodupb keys) then None else
        let mem := sort_keys mem in
        match attach_meta r_TsGroup f (map LInt (map fst mem)) with
        | Some m => Some (OGroup {| g_mem := mem; g_sup := sup; g_meta := m |})
        | None => None end
      end
    | _, _ => None
    end
  | _, _, _, _, _, _ => None
  end.

(* NPZFile.__init__ : the class named by file["type"][0] when it is one of EXPECTED_ENTRIES' keys, else heuristics *)
Definition ndim_of (v : fval) : option nat :=
  match v with
  | FData _ sh _ => Some (S (length sh))
  | FFloat1 _ | FNan1 _ | FInt1 _ | FStr1 _ | FLabels _ => Some 1%nat
  | FDict _ => Some 0%nat
  | FUnknown => None
  end.
Definition heuristic (f : file) : option string :=
  let vars := map fst f in
  match tst r_detect "if(data_ndims)" f with
  | None => None
  | Some true =>
      match rd r_detect "data_ndims" f with
      | Some v =>
          match ndim_of v, lookup expected_entries "Tsd" with
          | Some nd, Some e =>
              if subsetb e vars then Some (if (nd =? 1)%nat then "Tsd" else if (nd =? 2)%nat then "TsdFrame" else "TsdTensor")
              else None
          | _, _ => None end
      | None => None end
  | Some false =>
      Some (match find (fun p => subsetb (snd p) vars) expected_entries with Some p => fst p | None => "npz" end)
  end.
Definition detect (f : file) : option string :=
  match rd r_detect "type_" f with
  | Some (FStr1 (s :: _)) => if mem_str s (map fst expected_entries) then Some s else heuristic f
  | _ => match slot_key r_detect "type_" "get" with Some _ => heuristic f | None => None end
  end.

(* NPZFile.load : getattr(nap, type)._from_npz_reader(file) *)
Definition load (f : file) : option obj :=
  match detect f with
  | None => None
  | Some c =>
      match lookup reader_of c with
      | Some r => if r =s "_Base" then base_reader c f
                  else if r =s "IntervalSet" then load_iset f
                  else if r =s "TsGroup" then load_group f
                  else None
      | None => None     (* "npz": the raw file is returned, not a pynapple object *)
      end
  end.

(* ---------------------------------------------------------------------------------------- np.argsort instances *)
(* insertion argsort; [le] decides whether the new element goes before an existing one.
   Z.leb : stable (what kind="stable" gives);  Z.ltb : equal keys come out in reverse order (also a legal result of
   the default introsort / SIMD sort, which makes no promise about ties) *)
Fixpoint ins_pair (le : Z -> Z -> bool) (x : Z * nat) (l : list (Z * nat)) : list (Z * nat) :=
  match l with [] => [x] | y :: r => if le (fst x) (fst y) then x :: l else y :: ins_pair le x r end.
Definition isort_pairs (le : Z -> Z -> bool) (l : list (Z * nat)) : list (Z * nat) := fold_right (ins_pair le) [] l.
Definition argsort_with (le : Z -> Z -> bool) (l : list Z) : list nat :=
  map snd (isort_pairs le (combine l (seq 0 (length l)))).
Definition stable_argsort : list Z -> list nat := argsort_with Z.leb.
Definition reversing_argsort : list Z -> list nat := argsort_with Z.ltb.

(* ---------------------------------------------------------------------------------------- table checks (tier S) *)
Definition wkeys (c : string) : list string := map fst (table_of c).
Definition wkeys_uncond (c : string) : list string :=
  map fst (filter (fun kec => snd (snd kec) =s "") (table_of c)).
Definition rtable_of (r : string) : rtable :=
  if r =s "_Base" then r_base else if r =s "IntervalSet" then r_IntervalSet else if r =s "TsGroup" then r_TsGroup else [].
(* every key a reader gets is written by the class that dispatches to it: unconditionally if the read is unguarded,
   at least conditionally if it is guarded by a membership test (for the shared _Base reader a guarded key must be
   written by at least one of its classes) *)
Definition classes_of (r : string) : list string := map fst (filter (fun cr => snd cr =s r) reader_of).
Definition read_covered (r : string) (e : string * (string * (string * bool))) : bool :=
  let '(_, (kind, (k, guarded))) := e in
  if kind =s "get" then
    if guarded then existsb (fun c => mem_str k (wkeys c)) (classes_of r)
    else forallb (fun c => mem_str k (wkeys_uncond c)) (classes_of r)
  else true.
Definition detect_covered (e : string * (string * (string * bool))) : bool :=
  let '(_, (kind, (k, guarded))) := e in
  if kind =s "get" then forallb (fun c => mem_str k (if guarded then wkeys c else wkeys_uncond c)) (map fst reader_of)
  else true.
Definition keys_cover_b : bool :=
  forallb (fun r => forallb (read_covered r) (rtable_of r)) ["_Base"; "IntervalSet"; "TsGroup"]
  && forallb detect_covered (filter (fun e : string * (string * (string * bool)) => fst e =s "type_") r_detect).
(* every key written by a class of the shared reader and not excluded there is a constructor parameter of that class,
   and every required constructor parameter is written *)
Definition kwargs_ok_b : bool :=
  forallb (fun c => match params_of c with
                    | Some (params, kw) =>
                        forallb (fun k => mem_str k r_base_excluded || mem_str k (map fst params)) (wkeys c)
                        && forallb (fun p => implb (snd p) (mem_str (fst p) (wkeys_uncond c))) params
                    | None => false end) (classes_of "_Base").
(* nothing TsGroup.save writes is mistaken for a legacy metadata column by the reader *)
Definition group_keys_known_b : bool := forallb (fun k => mem_str k r_TsGroup_not_info) (wkeys "TsGroup").
(* every class writes its own name under the key the detection reads first *)
Definition type_written_b : bool :=
  forallb (fun c => match slot_key r_detect "type_" "get" with
                    | Some kt => match lookup (table_of c) kt with
                                 | Some (e, cd) => (cd =s "") && ((e =s type_expr c) || (e =s "np.array([self.nap_class], dtype=np.str_)"))
                                 | None => false end
                    | None => false end) (map fst reader_of)
  && forallb (fun c => mem_str c (map fst expected_entries)) (map fst reader_of).

(* ---------------------------------------------------------------------------------------- well-formed objects *)
(* the invariants the constructors establish (C01, C04, C12): sorted timestamps inside a canonical support, an empty
   series has an empty support, one row per sample, one metadata cell per index entry *)
Fixpoint increasing (l : list Z) : Prop :=
  match l with [] => True | x :: r => Forall (fun y => x < y) r /\ increasing r end.
Definition in_sup (t : list Z) (sup : iset) : Prop := Forall (fun x => mem x sup = true) t.
Definition WF_series (t : list Z) (sup : iset) : Prop :=
  sortedZ t /\ in_sup t sup /\ canonical sup /\ (t = [] -> sup = []).
Definition WF_meta (n : nat) (m : mcols) : Prop := Forall (fun cv => length (snd cv) = n) m.
Definition homogeneous (c : list label) : Prop := Forall (fun l => is_str l = true) c \/ Forall (fun l => is_str l = false) c.

Definition WF_ts (x : ts) : Prop := WF_series (ts_t x) (ts_sup x).
Definition WF_tsd (x : tsd) : Prop := WF_series (d_t x) (d_sup x) /\ length (d_v x) = length (d_t x) /\ d_shape x = [].
Definition WF_tensor (x : tsd) : Prop :=
  WF_series (d_t x) (d_sup x) /\ length (d_v x) = length (d_t x) /\ (2 <= length (d_shape x))%nat.
Definition WF_frame (x : frame) : Prop :=
  WF_series (f_t x) (f_sup x) /\ length (f_v x) = length (f_t x) /\ homogeneous (f_cols x)
  /\ WF_meta (length (f_cols x)) (f_meta x).
(* no column label occurs twice, or there is no metadata column (a repeated label only matters through the dict of
   `_metadata.to_dict()`, see [to_dict]) *)
Definition unique_labels_or_no_meta (x : frame) : Prop := NoDup (f_cols x) \/ f_meta x = [].
Definition WF_iset (x : isetm) : Prop := canonical (i_iv x) /\ WF_meta (length (i_iv x)) (i_meta x).

Definition member_times (m : member) : list Z := map fst (samples m).
Definition is_ts (m : member) : Prop := match m with MTs _ => True | MTsd _ => False end.
Definition finite_tsd (m : member) : Prop :=
  match m with MTs _ => False | MTsd s => Forall (fun td => is_some (snd td) = true) s end.
(* the part common to every group: unique sorted keys, members restricted to the canonical support *)
Definition WF_group_base (g : group) : Prop :=
  increasing (map fst (g_mem g)) /\ canonical (g_sup g)
  /\ Forall (fun km => sortedZ (member_times (snd km)) /\ in_sup (member_times (snd km)) (g_sup g)) (g_mem g)
  /\ WF_meta (length (g_mem g)) (g_meta g).
(* a group of Ts, or a group of Tsd with finite data holding at least one sample *)
Definition all_ts (g : group) : Prop := Forall (fun km => is_ts (snd km)) (g_mem g).
Definition all_tsd (g : group) : Prop :=
  Forall (fun km => finite_tsd (snd km)) (g_mem g) /\ flat (g_mem g) <> [].
(* no two samples of one member share a timestamp *)
Definition distinct_times (g : group) : Prop := Forall (fun km => increasing (member_times (snd km))) (g_mem g).
