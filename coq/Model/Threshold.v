(* Functional models of jitthreshold (as repaired) and of jitremove_nan/_dropna
   (pynapple/core/_jitted_functions.py, _core_functions.py).  Samples are (time, kept) pairs.
   Outputs of threshold are DOUBLED ticks (midpoints (x+y)/2 become x+y).  No proofs here. *)
From Verif Require Import Base.Prelude.

(* the kernel's epoch cursor: while k < m-1 and time[t] > ends[k]: k += 1 *)
Fixpoint advance (x : Z) (ep : iset) : iset :=
  match ep with
  | (s, e) :: ((_ :: _) as r) => if e <? x then advance x r else ep
  | _ => ep
  end.

Fixpoint thr_go (prev : option (Z * bool)) (ep : iset) (l : list (Z * bool)) : list Z * list Z :=
  match l with
  | [] => ([], [])
  | (x, kx) :: r =>
      let ep' := advance x ep in
      let '(s, e) := hd (0, 0) ep' in
      let first := match prev with None => true | Some (p, _) => p <? s end in
      let last := match r with [] => true | (y, _) :: _ => e <? y end in
      let prev_kept := match prev with Some (_, b) => b | None => false end in
      let next_kept := match r with (_, b) :: _ => b | [] => false end in
      let '(SS, EE) := thr_go (Some (x, kx)) ep' r in
      if kx then
        ((if first || negb prev_kept
          then [if negb first then x + match prev with Some (p, _) => p | None => x end
                else if last then 2 * s else 2 * x]
          else []) ++ SS,
         (if last || negb next_kept
          then [if negb last then x + match r with (y, _) :: _ => y | [] => x end
                else if first then 2 * e else 2 * x]
          else []) ++ EE)
      else (SS, EE)
  end.

(* raw new support, doubled ticks *)
Definition threshold_support (ep : iset) (l : list (Z * bool)) : iset :=
  let '(SS, EE) := thr_go None ep l in combine SS EE.
Definition kept_times (l : list (Z * bool)) : list Z := map fst (filter snd l).

(* jitremove_nan + the singleton rule of _dropna: runs of kept rows, [first, last], last + 1us for a singleton *)
Fixpoint runs_go (cur : option (Z * Z)) (l : list (Z * bool)) : iset :=
  match l with
  | [] => match cur with Some (a, b) => [(a, if a =? b then b + us else b)] | None => [] end
  | (x, kx) :: r =>
      if kx then runs_go (Some (match cur with Some (a, _) => a | None => x end, x)) r
      else match cur with
           | Some (a, b) => (a, if a =? b then b + us else b) :: runs_go None r
           | None => runs_go None r
           end
  end.
Definition dropna_support (l : list (Z * bool)) : iset := runs_go None l.

(* hypotheses used by the theorems *)
Fixpoint strictly_increasing (l : list Z) : Prop :=
  match l with [] => True | x :: r => match r with [] => True | y :: _ => x < y end /\ strictly_increasing r end.
Definition double_iset (A : iset) : iset := map (fun '(s, e) => (2 * s, 2 * e)) A.
