(* Model of the metadata bookkeeping of pynapple (core/metadata_class.py, interval_set.py,
   time_series.py TsdFrame, ts_group.py), written from the source.

   A pandas metadata DataFrame is an association list  index label -> row  ([frame T], T the type
   of a row = the tuple of the metadata columns of one element).  pandas' two access disciplines
   are two functions: [loc] (by LABEL, first match; KeyError = None) and [iloc]/[sel] (by POSITION;
   IndexError = None).  Every operation below uses the discipline the source uses at that line.
   Positional keys (int, slice, list / array of int, boolean ndarray) are given as the list of
   positions NumPy denotes by them ([mask_pos] for masks).

   Results of the IntervalSet constructor are [Kept iv m] (metadata attached), [Dropped iv]
   (constructor refused to attach metadata: no metadata columns in the result) or [Err]
   (an exception).  No proofs in this file. *)
From Verif Require Import Base.Prelude Model.Iset.

(* ------------------------------------------------------------------ *)
(* frames                                                              *)
Definition frame (T : Type) : Type := list (Z * T).
Definition labels {T} (m : frame T) : list Z := map fst m.
Definition rows {T} (m : frame T) : list T := map snd m.

Definition rangeZ (n : nat) : list Z := map Z.of_nat (seq 0 n).
(* a DataFrame built from a list of rows gets a RangeIndex; reset_index(drop=True) *)
Definition range_frame {T} (ts : list T) : frame T := combine (rangeZ (length ts)) ts.
Definition reset_index {T} (m : frame T) : frame T := range_frame (rows m).

Fixpoint loc1 {T} (m : frame T) (k : Z) : option T :=
  match m with
  | [] => None
  | (l, t) :: r => if l =? k then Some t else loc1 r k
  end.
(* .loc[list of labels]: rows in the order of the requested labels, labelled by them *)
Fixpoint loc {T} (m : frame T) (ks : list Z) : option (frame T) :=
  match ks with
  | [] => Some []
  | k :: r => match loc1 m k, loc m r with
              | Some t, Some o => Some ((k, t) :: o)
              | _, _ => None
              end
  end.
(* positional selection (ndarray.__getitem__ / .iloc with a list of positions) *)
Fixpoint sel {A} (l : list A) (ps : list nat) : option (list A) :=
  match ps with
  | [] => Some []
  | p :: r => match nth_error l p, sel l r with
              | Some x, Some o => Some (x :: o)
              | _, _ => None
              end
  end.
Definition iloc {T} (m : frame T) (ps : list nat) : option (frame T) := sel m ps.
Definition mask_pos (mask : list bool) : list nat := filter_idx (fun b : bool => b) 0%nat mask.

(* .loc[boolean Series]: the mask is ALIGNED on the frame's index (looked up by label), rows stay
   in the frame's order; a label missing from the mask's index is an IndexingError *)
Definition lookup {A} (m : list (Z * A)) (k : Z) : option A := loc1 m k.
Fixpoint loc_mask {T} (m : frame T) (mask : list (Z * bool)) : option (frame T) :=
  match m with
  | [] => Some []
  | (l, t) :: r => match lookup mask l, loc_mask r mask with
                   | Some b, Some o => Some (if b then (l, t) :: o else o)
                   | _, _ => None
                   end
  end.

Fixpoint list_eqb (a b : list Z) : bool :=
  match a, b with
  | [], [] => true
  | x :: a', y :: b' => (x =? y) && list_eqb a' b'
  | _, _ => false
  end.
Fixpoint memZ (k : Z) (l : list Z) : bool :=
  match l with [] => false | x :: r => (x =? k) || memZ k r end.
Fixpoint nodupb (l : list Z) : bool :=
  match l with [] => true | x :: r => negb (memZ x r) && nodupb r end.

Fixpoint strict_from (lo : Z) (l : list Z) : bool :=
  match l with [] => true | x :: r => (lo <? x) && strict_from x r end.
(* (np.diff(a) > 0).all() *)
Definition strict_incb (l : list Z) : bool :=
  match l with [] => true | x :: r => strict_from x r end.

(* ------------------------------------------------------------------ *)
(* IntervalSet constructor with metadata (interval_set.py __init__)     *)

(* _jitfix_iset's to_warn[1] | to_warn[2] | to_warn[3] ("ends precede starts", "joined",
   "no duration"), on the same traversal as Iset.fix_go; to_warn[0] (1 us trim) is NOT included *)
Fixpoint warn_go (pend : option (Z * Z * Z)) (l : list (Z * Z)) : bool :=
  match l with
  | [] => match pend with
          | None => false
          | Some (ns, ne, _) => negb (ns <? ne)
          end
  | (s, e) :: r =>
      match pend with
      | None => if e <=? s then true else warn_go (Some (s, e, e)) r
      | Some (ns, ne, ce) =>
          if s <? ce then true
          else negb (ns <? (if ne =? s then ne - us else ne))
               || (if e <=? s then true else warn_go (Some (s, e, e)) r)
      end
  end.
Definition fix_warn (l : list (Z * Z)) : bool := warn_go None l.

(* what an unrepaired input becomes: only touching ends are trimmed by 1 us *)
Fixpoint trim_touch (l : list (Z * Z)) : iset :=
  match l with
  | [] => []
  | (s, e) :: r => (s, match r with (s', _) :: _ => if e =? s' then e - us else e | [] => e end) :: trim_touch r
  end.

Inductive res (T : Type) : Type :=
| Err : res T
| Dropped : iset -> res T
| Kept : iset -> frame T -> res T.
Arguments Err {T}.
Arguments Dropped {T} _.
Arguments Kept {T} _ _.

(* IntervalSet(start, end, metadata=DataFrame m): starts and ends sorted independently when not
   strictly increasing (then metadata is dropped), _jitfix_iset, metadata dropped when the kernel
   reports a repair, otherwise set_info(m), which demands m.index == arange(len(result)) *)
Definition mk_miset {T} (l : list (Z * Z)) (m : frame T) : res T :=
  let ss := map fst l in
  let es := map snd l in
  let l' := combine (sortZ ss) (sortZ es) in
  let out := fix_iset l' in
  if strict_incb ss && strict_incb es && negb (fix_warn l') then
    if list_eqb (labels m) (rangeZ (length out)) then Kept out m else Err
  else Dropped out.

(* IntervalSet(DataFrame with start, end and metadata columns): rows are first sorted by start
   (whole rows, so the pairing survives) when starts decrease somewhere *)
Fixpoint insert_row {T} (x : Z * Z * T) (l : list (Z * Z * T)) : list (Z * Z * T) :=
  match l with
  | [] => [x]
  | y :: r => if fst (fst x) <? fst (fst y) then x :: l else y :: insert_row x r
  end.
Definition sort_rows {T} (l : list (Z * Z * T)) : list (Z * Z * T) :=
  fold_left (fun acc x => insert_row x acc) l [].
Fixpoint decreases (l : list Z) : bool :=
  match l with
  | x :: ((y :: _) as r) => (y <? x) || decreases r
  | _ => false
  end.
Definition mk_miset_df {T} (l : list (Z * Z * T)) : res T :=
  let l1 := if decreases (map (fun x => fst (fst x)) l) then sort_rows l else l in
  mk_miset (map fst l1) (range_frame (map snd l1)).

(* ------------------------------------------------------------------ *)
(* IntervalSet.__getitem__ and the set operations                       *)
Definition tiset (T : Type) : Type := (iset * frame T)%type.

(* ep[int], ep[slice], ep[list], ep[ndarray], ep[key, :] : values by position, metadata by .iloc *)
Definition iset_get_pos {T} (o : tiset T) (ps : list nat) : res T :=
  match sel (fst o) ps, iloc (snd o) ps with
  | Some iv, Some m => mk_miset iv (reset_index m)
  | _, _ => Err
  end.
(* ep[pd.Index / integer pd.Series] (as repaired): key = np.asarray(key), then values AND metadata
   by position; negative integers count from the end (NumPy / iloc wrap-around) *)
Definition wrap (n : nat) (k : Z) : option nat :=
  if 0 <=? k then Some (Z.to_nat k)
  else if 0 <=? k + Z.of_nat n then Some (Z.to_nat (k + Z.of_nat n)) else None.
Fixpoint wrap_all (n : nat) (ks : list Z) : option (list nat) :=
  match ks with
  | [] => Some []
  | k :: r => match wrap n k, wrap_all n r with
              | Some p, Some o => Some (p :: o)
              | _, _ => None
              end
  end.
Definition iset_get_labels {T} (o : tiset T) (ks : list Z) : res T :=
  match wrap_all (length (fst o)) ks with
  | Some ps => iset_get_pos o ps
  | None => Err
  end.
(* ep[boolean pd.Series] (as repaired): the mask's VALUES are used by position for the intervals and
   for the metadata; the mask's own index plays no role *)
Definition iset_get_bseries {T} (o : tiset T) (mask : list (Z * bool)) : res T :=
  if (length mask =? length (fst o))%nat then iset_get_pos o (mask_pos (map snd mask)) else Err.

(* the same two forms as they were before the repair (kept to state what was wrong):
   values by position, metadata by .loc, which looks integer keys up by LABEL and ALIGNS a boolean
   mask on the index labels *)
Definition iset_get_labels_orig {T} (o : tiset T) (ks : list Z) : res T :=
  if forallb (fun k => 0 <=? k) ks then
    match sel (fst o) (map Z.to_nat ks), loc (snd o) ks with
    | Some iv, Some m => mk_miset iv (reset_index m)
    | _, _ => Err
    end
  else Err.
Definition iset_get_bseries_orig {T} (o : tiset T) (mask : list (Z * bool)) : res T :=
  if (length mask =? length (fst o))%nat then
    match sel (fst o) (mask_pos (map snd mask)), loc_mask (snd o) mask with
    | Some iv, Some m => mk_miset iv (reset_index m)
    | _, _ => Err
    end
  else Err.

(* ep[boolean pd.Series, :] (the tuple form) as it is in /repo before ITS repair: values by position,
   metadata by .iloc[Series], which pandas ALIGNS on the index labels exactly like .loc - the same
   function as iset_get_bseries_orig.  As repaired (key[0] = np.asarray(key[0]) first) the tuple forms
   ep[pd.Index / pd.Series, :] are iset_get_labels / iset_get_bseries themselves. *)
Definition iset_get_bseries_tuple_orig {T} (o : tiset T) (mask : list (Z * bool)) : res T :=
  iset_get_bseries_orig o mask.

(* IntervalSet.groupby(by, get_group=v): pandas returns the LABELS of the metadata rows in the group,
   in index order, as a pd.Index; then self[idx], the pd.Index form of __getitem__.
   (ep.loc[list] is self[list], i.e. iset_get_pos.) *)
Definition iset_get_group {T} (o : tiset T) (p : T -> bool) : res T :=
  iset_get_labels o (labels (filter (fun r => p (snd r)) (snd o))).

(* intersect: metadata rows of both parents (by .loc on the parent indices the kernel returns),
   joined side by side *)
Definition iset_intersect {T U} (a : tiset T) (b : tiset U) : res (T * U) :=
  let r := k_inter_meta (fst a) (fst b) in
  match loc (snd a) (map (fun x => Z.of_nat (fst (snd x))) r),
        loc (snd b) (map (fun x => Z.of_nat (snd (snd x))) r) with
  | Some m1, Some m2 => mk_miset (map fst r) (range_frame (combine (rows m1) (rows m2)))
  | _, _ => Err
  end.
Definition iset_set_diff {T} (a : tiset T) (B : iset) : res T :=
  let r := k_diff_meta (fst a) B in
  match loc (snd a) (map (fun x => Z.of_nat (snd x)) r) with
  | Some m => mk_miset (map fst r) (reset_index m)
  | None => Err
  end.

(* split(b): per parent longer than b the pieces [s + k b, min(s + (k+1) b, e)], those shorter than
   b discarded, every end moved back 1 us, each carrying the parent's index *)
Fixpoint pieces (fuel : nat) (s e b : Z) : list (Z * Z) :=
  match fuel with
  | O => []
  | S f => if s <? e then (s, Z.min (s + b) e) :: pieces f (s + b) e b else []
  end.
Definition split_one (s e b : Z) : list (Z * Z) :=
  filter (fun p => b <=? snd p - fst p) (pieces (Z.to_nat ((e - s) / b + 1)) s e b).
Fixpoint split_go (A : iset) (i : nat) (b : Z) : list (Z * Z * nat) :=
  match A with
  | [] => []
  | (s, e) :: r =>
      (if b <? e - s then map (fun p => (fst p, snd p - us, i)) (split_one s e b) else [])
      ++ split_go r (S i) b
  end.
Definition split_meta (A : iset) (b : Z) : list (Z * Z * nat) := split_go A 0%nat b.
Definition iset_split {T} (a : tiset T) (b : Z) : res T :=
  match fst a with
  | [] => Dropped []
  | _ =>
    let r := split_meta (fst a) b in
    match loc (snd a) (map (fun x => Z.of_nat (snd x)) r) with
    | Some m => mk_miset (map fst r) (reset_index m)
    | None => Err
    end
  end.

(* operations that build their result without a metadata argument *)
Definition iset_union_meta {T U} (a : tiset T) (b : tiset U) : res T := Dropped (iset_union (fst a) (fst b)).
Definition iset_time_span {T} (a : tiset T) : res T :=
  match fst a with
  | [] => Err
  | (s, _) :: _ => Dropped (mk_iset [s] [snd (last (fst a) (0, 0))])
  end.
(* merge_close_intervals(thr): gaps <= thr are bridged *)
Fixpoint merge_close_go (cs ce : Z) (l : iset) (thr : Z) : list (Z * Z) :=
  match l with
  | [] => [(cs, ce)]
  | (s, e) :: r => if thr <? s - ce then (cs, ce) :: merge_close_go s e r thr else merge_close_go cs e r thr
  end.
Definition iset_merge_close {T} (a : tiset T) (thr : Z) : res T :=
  match fst a with
  | [] => Dropped []
  | (s, e) :: r => Dropped (mk_iset_pairs (merge_close_go s e r thr))
  end.

(* ------------------------------------------------------------------ *)
(* TsdFrame: columns (label, data) in order; metadata frame indexed by the column labels          *)
Definition tframe (D T : Type) : Type := (list (Z * D) * frame T)%type.

(* the TsdFrame constructor's set_info(DataFrame): index must equal the columns *)
Definition mk_tframe {D T} (cs : list (Z * D)) (m : frame T) : option (tframe D T) :=
  if list_eqb (labels m) (map fst cs) then Some (cs, m) else None.
(* tsdf[:, positions] (also masks, slices): data and column labels by position,
   metadata by .loc[the selected labels] *)
Definition frame_get_pos {D T} (o : tframe D T) (ps : list nat) : option (tframe D T) :=
  match sel (fst o) ps with
  | None => None
  | Some cs => match loc (snd o) (map fst cs) with
               | None => None
               | Some m => mk_tframe cs m
               end
  end.
(* Index.get_indexer on the column labels (first position of each label; absent -> IndexError) *)
Fixpoint first_pos (cols : list Z) (k : Z) : option nat :=
  match cols with
  | [] => None
  | c :: r => if c =? k then Some 0%nat else option_map S (first_pos r k)
  end.
Fixpoint get_indexer (cols : list Z) (ks : list Z) : option (list nat) :=
  match ks with
  | [] => Some []
  | k :: r => match first_pos cols k, get_indexer cols r with
              | Some p, Some o => Some (p :: o)
              | _, _ => None
              end
  end.
(* tsdf[[labels]] / tsdf.loc[[labels]] *)
Definition frame_get_labels {D T} (o : tframe D T) (ks : list Z) : option (tframe D T) :=
  match get_indexer (map fst (fst o)) ks with
  | Some ps => frame_get_pos o ps
  | None => None
  end.
Definition frame_get_mask {D T} (o : tframe D T) (mask : list bool) : option (tframe D T) :=
  if (length mask =? length (fst o))%nat then frame_get_pos o (mask_pos mask) else None.
(* groupby(..., get_group): labels of the metadata rows in the group, get_indexer, tsdf[:, idx] *)
Definition frame_get_group {D T} (o : tframe D T) (p : T -> bool) : option (tframe D T) :=
  frame_get_labels o (map fst (filter (fun r => p (snd r)) (snd o))).
(* restrict / get / row slicing / arithmetic / ufuncs: every column's data transformed on its own,
   columns and metadata handed to the constructor unchanged *)
Definition frame_map {D T} (f : D -> D) (o : tframe D T) : option (tframe D T) :=
  mk_tframe (map (fun c => (fst c, f (snd c))) (fst o)) (snd o).

(* ------------------------------------------------------------------ *)
(* TsGroup: members (key, member) sorted by key; metadata frame indexed by key                    *)
Definition tgroup (M T : Type) : Type := (list (Z * M) * frame T)%type.

(* {k: self[k] for k in keys}: the same lookup discipline as .loc, on the member dictionary *)
Definition lookup_all {A} (d : list (Z * A)) (ks : list Z) : option (list (Z * A)) := loc d ks.
(* TsGroup(dict data, metadata=DataFrame m): index = np.sort(keys), members reordered, then
   set_info(m), which demands m.index == index (order included) *)
Definition mk_group {M T} (data : list (Z * M)) (m : frame T) : option (tgroup M T) :=
  let ks := sortZ (map fst data) in
  if nodupb ks then
    match lookup_all data ks with
    | Some mem => if list_eqb (labels m) ks then Some (mem, m) else None
    | None => None
    end
  else None.
(* g[[keys]] (any order), g[mask], getby_*: _ts_group_from_keys *)
Definition group_get_keys {M T} (o : tgroup M T) (ks : list Z) : option (tgroup M T) :=
  if nodupb ks then
    match lookup_all (fst o) ks, loc (snd o) (sortZ ks) with
    | Some d, Some m => mk_group d m
    | _, _ => None
    end
  else None.
Definition group_get_mask {M T} (o : tgroup M T) (mask : list bool) : option (tgroup M T) :=
  if (length mask =? length (fst o))%nat then
    match sel (map fst (fst o)) (mask_pos mask) with
    | Some ks => group_get_keys o ks
    | None => None
    end
  else None.
(* restrict / get / value_from: members transformed one by one, metadata passed as is *)
Definition group_map {M T} (f : M -> M) (o : tgroup M T) : option (tgroup M T) :=
  mk_group (map (fun c => (fst c, f (snd c))) (fst o)) (snd o).
(* DataFrame.sort_index on the concatenated metadata (insertion sort by label) *)
Fixpoint insert_label {T} (x : Z * T) (l : frame T) : frame T :=
  match l with
  | [] => [x]
  | y :: r => if fst x <? fst y then x :: l else y :: insert_label x r
  end.
Definition sort_index {T} (m : frame T) : frame T := fold_left (fun acc x => insert_label x acc) m [].
(* merge_group(g1, g2, reset_index) (as repaired): metadata concatenated in argument order, then
   sorted by key when the keys are kept *)
Definition group_merge {M T} (reset : bool) (a b : tgroup M T) : option (tgroup M T) :=
  let items := fst a ++ fst b in
  let m := snd a ++ snd b in
  if reset then mk_group (combine (rangeZ (length items)) (map snd items)) (range_frame (rows m))
  else if existsb (fun k => memZ k (map fst (fst b))) (map fst (fst a)) then None
       else mk_group items (sort_index m).
(* before the repair: the concatenated metadata was handed over unsorted *)
Definition group_merge_orig {M T} (a b : tgroup M T) : option (tgroup M T) :=
  if existsb (fun k => memZ k (map fst (fst b))) (map fst (fst a)) then None
  else mk_group (fst a ++ fst b) (snd a ++ snd b).
