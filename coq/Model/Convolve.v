(* Model of convolution and filtering per epoch (pynapple/core/_core_functions.py `_convolve`,
   core/time_series.py `convolve` / `smooth`, process/filtering.py).  Data values are integers
   (Z): sums and products are exact, and every statement below is an identity of a commutative
   ring, so a rational (float-idealised) kernel reduces to an integer one by scaling with the
   common denominator [u] (that is why the unit of the spectral inversion is a parameter [u]).
   Index slices per epoch are np.searchsorted(t, s) / np.searchsorted(t, e, 'right')
   (= Model.Slice.ss_left / ss_right = get_range, also what get_slice(start, end) returns).
   The IIR filter (scipy sosfiltfilt) is NOT modelled: it is a function argument [G] of
   [apply_epochs].  No proofs in this file. *)
From Verif Require Import Base.Prelude Model.Restrict Model.Count Model.Slice.

(* ---- vectors ---- *)
Fixpoint vadd (a b : list Z) : list Z :=
  match a, b with
  | x :: a', y :: b' => (x + y) :: vadd a' b'
  | _, _ => []
  end.
Definition vscale (c : Z) (a : list Z) : list Z := map (Z.mul c) a.
(* the linear combination a*x + b*y *)
Definition lin (a b : Z) (x y : list Z) : list Z := vadd (vscale a x) (vscale b y).
(* what is assumed of an unmodelled per-slice routine (scipy sosfiltfilt on one column) *)
Definition len_pres (G : list Z -> list Z) : Prop := forall w, length (G w) = length w.
Definition lin_op (G : list Z -> list Z) : Prop :=
  forall a b x y, length x = length y -> G (lin a b x y) = lin a b (G x) (G y).

(* ---- full discrete convolution (np.convolve(x, k, 'full') = scipy.signal.convolve(x, k)) ---- *)
(* coefficient n of x * k, by recursion over the signal: x0 * k[n] + (x' * k)[n-1] *)
Fixpoint coef (x k : list Z) (n : nat) : Z :=
  match x with
  | [] => 0
  | a :: x' => a * nth n k 0 + match n with O => 0 | S n' => coef x' k n' end
  end.
Definition conv (x k : list Z) : list Z :=
  match x with
  | [] => []
  | _ => map (coef x k) (seq 0 (length x + length k - 1))
  end.
(* NumPy's definition, (x * k)[n] = sum_i x[i] k[n-i]  (the specification of [coef]) *)
Definition conv_sum (x k : list Z) (n : nat) : Z :=
  sumZ (map (fun i => nth i x 0 * nth (n - i) k 0) (seq 0 (S n))).

(* ---- trimming the full convolution back to the t samples of the epoch ---- *)
Inductive trim_mode := TLeft | TRight | TBoth.
(* cut indices exactly as in _convolve, k = kernel length, t = samples in the epoch *)
Definition cut (m : trim_mode) (k t : nat) : nat * nat :=
  match m with
  | TLeft => (k - 1, t + k - 1)
  | TRight => (0, t)
  | TBoth => ((k - 1) / 2, t + k - 1 - (k - 1) / 2 - (1 - k mod 2))
  end%nat.
Definition trim (m : trim_mode) (k t : nat) (l : list Z) : list Z :=
  slice (fst (cut m k t)) (snd (cut m k t)) l.
(* what one epoch's window w becomes *)
Definition conv_window (m : trim_mode) (kern w : list Z) : list Z :=
  trim m (length kern) (length w) (conv w kern).

(* ---- per-epoch application: new = zeros(n); for (s,e): new[i0:i1] = G(col[i0:i1]) ---- *)
Definition splice {A} (i0 i1 : nat) (acc vals : list A) : list A :=
  firstn i0 acc ++ vals ++ skipn i1 acc.
Definition epoch_step (G : list Z -> list Z) (ts col : list Z) (acc : list Z) (iv : Z * Z) : list Z :=
  let '(i0, i1) := get_range (fst iv) (snd iv) ts in
  splice i0 i1 acc (G (slice i0 i1 col)).
Definition apply_epochs (G : list Z -> list Z) (ts col : list Z) (ep : iset) : list Z :=
  fold_left (epoch_step G ts col) ep (repeat 0 (length ts)).

(* _convolve for one data column and one kernel column *)
Definition convolve_epochs (ts col : list Z) (ep : iset) (kern : list Z) (m : trim_mode) : list Z :=
  apply_epochs (conv_window m kern) ts col ep.
(* all data columns x all kernel columns (TsdFrame / TsdTensor flattened; 2-D kernels):
   result[i][j] = column i convolved with kernel column j *)
Definition convolve_frame (ts : list Z) (cols : list (list Z)) (ep : iset) (kerns : list (list Z))
  (m : trim_mode) : list (list (list Z)) :=
  map (fun c => map (fun kn => convolve_epochs ts c ep kn m) kerns) cols.
(* convolve(array, ep=ep): the series is restricted to ep first; returns (timestamps, values) *)
Definition convolve_arg (ts col : list Z) (ep : iset) (kern : list Z) (m : trim_mode) : list Z * list Z :=
  let ix := restrict_idx ts ep in
  (select 0 ts ix, convolve_epochs (select 0 ts ix) (select 0 col ix) ep kern m).
(* smooth: convolve with a (gaussian) window, default trim; the window is a parameter *)
Definition smooth_epochs (ts col : list Z) (ep : iset) (window : list Z) : list Z :=
  convolve_epochs ts col ep window TBoth.

(* ---- windowed-sinc kernels: spectral inversion and the four filter types ---- *)
(* kernel *= -1; kernel[len // 2] += 1  (u = the unit after scaling to integers) *)
Definition spectral_inversion (u : Z) (k : list Z) : list Z :=
  map (fun i => (if (i =? length k / 2)%nat then u else 0) - nth i k 0) (seq 0 (length k)).
Definition sinc_highpass (u : Z) (lp : list Z) : list Z := spectral_inversion u lp.
Definition sinc_bandstop (u : Z) (lp0 lp1 : list Z) : list Z := vadd lp0 (spectral_inversion u lp1).
Definition sinc_bandpass (u : Z) (lp0 lp1 : list Z) : list Z := spectral_inversion u (sinc_bandstop u lp0 lp1).
Definition sinc_filter (ts col : list Z) (ep : iset) (kern : list Z) : list Z :=
  convolve_epochs ts col ep kern TBoth.

(* ---- Butterworth: out[slc] = sosfiltfilt(sos, data[slc]) per epoch, slc = get_slice(start, end);
        F stands for sosfiltfilt(sos, ., axis=0) on one column ---- *)
Definition butter_epochs (F : list Z -> list Z) (ts col : list Z) (ep : iset) : list Z :=
  apply_epochs F ts col ep.

(* a concrete integer-valued stand-in for F (reverse, then running sums: length preserving, linear, not
   symmetric), used only by the correspondence check, which patches it in for sosfiltfilt *)
Fixpoint running_sum (acc : Z) (l : list Z) : list Z :=
  match l with [] => [] | x :: r => (acc + x) :: running_sum (acc + x) r end.
Definition probe_F (w : list Z) : list Z := running_sum 0 (rev w).
Definition butter_probe (ts col : list Z) (ep : iset) : list Z := butter_epochs probe_F ts col ep.
