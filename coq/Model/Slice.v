(* Model of _Base._get_slice / get / get_slice (pynapple/core/base_class.py, as repaired), of the
   trial tensors built on it (time_series.py: to_trial_tensor, trial_count) and of warp_tensor's use
   of count (process/warping.py).  np.searchsorted on a sorted array is characterised as a count
   (left: #{t < v}, right: #{t <= v}); that characterisation is NumPy's contract (trusted, and
   exercised by the correspondence check).  No proofs in this file. *)
From Verif Require Import Base.Prelude Model.Restrict Model.Count.

Definition ss_left (v : Z) (ts : list Z) : nat := count_if (fun t => t <? v) ts.
Definition ss_right (v : Z) (ts : list Z) : nat := count_if (fun t => t <=? v) ts.

(* mode "restrict" (get(start, end), get_slice(start, end)): the positional slice [i0, i1) *)
Definition get_range (a b : Z) (ts : list Z) : nat * nat := (ss_left a ts, ss_right b ts).
Definition slice {A} (i0 i1 : nat) (l : list A) : list A := firstn (i1 - i0) (skipn i0 l).
Definition get_times (a b : Z) (ts : list Z) : list Z :=
  let '(i0, i1) := get_range a b ts in slice i0 i1 ts.

(* mode "closest_t" (get(start)): index of the returned sample.  t[idx-1] at idx = 0 is Python's
   wrap-around to the last element, transcribed as such *)
Definition get_closest (a : Z) (ts : list Z) : nat :=
  let n := length ts in
  let idx := ss_left a ts in
  let idx := if (idx =? n)%nat then (idx - 1)%nat else idx in
  let cur := nth idx ts 0 in
  let prev := if (idx =? 0)%nat then last ts 0 else nth (idx - 1) ts 0 in
  if Z.abs (prev - a) <? cur - a then (idx - 1)%nat else idx.

(* modes "before_t" / "after_t" with end = None, used by value-lookup helpers *)
Definition get_before (a : Z) (ts : list Z) : option nat :=
  let n := length ts in
  let idx := ss_left a ts in
  let idx := if (idx =? n)%nat then (idx - 1)%nat else idx in
  if a <? nth idx ts 0 then (if (idx =? 0)%nat then None else Some (idx - 1)%nat) else Some idx.

(* trial tensors *)
Definition trial_rows {A} (ts : list Z) (rows : list A) (ep : iset) : list (list A) :=
  map (fun '(s, e) => let '(i0, i1) := get_range s e ts in slice i0 i1 rows) ep.
Definition pad_start {A} (n : nat) (pad : A) (row : list A) : list A := row ++ repeat pad (n - length row).
Definition pad_end {A} (n : nat) (pad : A) (row : list A) : list A := repeat pad (n - length row) ++ row.
Definition max_len {A} (rows : list (list A)) : nat := fold_right (fun r m => Nat.max (length r) m) 0%nat rows.
Definition to_trial_tensor {A} (align_end : bool) (pad : A) (ts : list Z) (rows : list A) (ep : iset) : list (list A) :=
  let tr := trial_rows ts rows ep in
  let n := max_len tr in
  map (if align_end then pad_end n pad else pad_start n pad) tr.

(* trial_count: count over all of ep, then per trial the bins whose (doubled) centre lies in the trial *)
Definition trial_count_rows (ts : list Z) (ep : iset) (b : Z) : list (list nat) :=
  let cnt := count_binned ts ep b in
  map (fun '(s, e) => map snd (filter (fun cb => (2 * s <=? fst cb) && (fst cb <=? 2 * e)) cnt)) ep.
