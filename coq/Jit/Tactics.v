(* Jit.Tactics: lemmas and tactics shared by the per-kernel safety proofs (coq/Inv). *)
From Coq Require Import ZArith QArith String List Bool Lia.
From Verif Require Import Jit.Lang Jit.Interp Jit.Safety.
Import ListNotations.
Open Scope Z_scope.

(* integer value of a scalar variable; used in loop facts *)
Definition getZ (st : store) (x : var) : Z := to_int (getsc st x).
(* cells of an array variable *)
Definition getD (st : store) (x : var) : list sval := adata (getar st x).

(* keep the value-level operations folded during [cbn] *)
Arguments zlen : simpl never.
Arguments nthZ : simpl never.
Arguments updZ : simpl never.
Arguments zeros : simpl never.
Arguments slice_rows : simpl never.
Arguments pyslice : simpl never.
Arguments gather : simpl never.
Arguments idx_ok : simpl never.
Arguments maskl : simpl never.
Arguments argsort : simpl never.
Arguments cumsum_int : simpl never.
Arguments cumsum_flt : simpl never.
Arguments column : simpl never.
Arguments set_col : simpl never.
Arguments sum_cells !dt l : simpl nomatch.
Arguments sum_int : simpl never.
Arguments sum_flt : simpl never.
Arguments map2 : simpl never.
Arguments cmp_flt : simpl never.
Arguments eval_unop !op !a : simpl nomatch.
Arguments fdiv : simpl never.
Arguments to_int !v : simpl nomatch.
Arguments to_flt !v : simpl nomatch.
Arguments truthy !v : simpl nomatch.
Arguments is_flt !v : simpl nomatch.
Arguments coerce !dt v : simpl nomatch.
Arguments eval_binop op !a !b : simpl nomatch.
Arguments eval_cmp op !a !b : simpl nomatch.
Arguments Z.add : simpl never.
Arguments Z.sub : simpl never.
Arguments Z.mul : simpl never.
Arguments Z.max : simpl never.
Arguments Z.min : simpl never.
Arguments Z.ltb : simpl never.
Arguments Z.leb : simpl never.
Arguments Z.eqb : simpl never.
Arguments Z.div : simpl never.
Arguments Z.modulo : simpl never.
Arguments Z.abs : simpl never.
Arguments Z.opp : simpl never.

Lemma zlen_nonneg : forall {A} (l : list A), 0 <= zlen l.
Proof. intros; unfold zlen; lia. Qed.

Lemma upd_nth_length : forall {A} n (l : list A) v, length (upd_nth n l v) = length l.
Proof. induction n; destruct l; simpl; intros; auto. Qed.
Lemma zlen_updZ : forall d i v, zlen (updZ d i v) = zlen d.
Proof. intros; unfold zlen, updZ; rewrite upd_nth_length; reflexivity. Qed.
Lemma zlen_zeros : forall dt n v, zlen (zeros dt n v) = Z.max 0 n.
Proof. intros; unfold zlen, zeros; rewrite repeat_length; lia. Qed.
Lemma zlen_map : forall {A B} (f : A -> B) l, zlen (map f l) = zlen l.
Proof. intros; unfold zlen; rewrite map_length; reflexivity. Qed.
Lemma zlen_cmp_cells : forall op v d, zlen (cmp_cells op v d) = zlen d.
Proof. intros; unfold cmp_cells; apply zlen_map. Qed.
Lemma zlen_div_cells_sc : forall v d, zlen (div_cells_sc v d) = zlen d.
Proof. intros; unfold div_cells_sc; apply zlen_map. Qed.
Lemma zlen_coerce_cells : forall dt d, zlen (coerce_cells dt d) = zlen d.
Proof. intros; unfold coerce_cells; apply zlen_map. Qed.
Lemma zlen_gather : forall d ix, zlen (gather d ix) = zlen ix.
Proof. intros; unfold gather; apply zlen_map. Qed.

Lemma zlen_argsort_aux : forall l, length (isort l) = length l.
Proof.
  assert (I : forall k i l, length (ins k i l) = S (length l)).
  { induction l as [|[k' i'] r IH]; simpl; [reflexivity|]. destruct (key_le k' k); simpl; auto. }
  induction l as [|[k i] r IH]; simpl; [reflexivity|]. rewrite I, IH. reflexivity.
Qed.
Lemma zrange_length : forall n lo, length (zrange lo n) = n.
Proof. induction n; intros; simpl; auto. Qed.
Lemma zlen_argsort : forall d, zlen (argsort d) = zlen d.
Proof.
  intros. unfold argsort, zlen. rewrite map_length, zlen_argsort_aux, combine_length, map_length, zrange_length.
  rewrite Nat.min_id. reflexivity.
Qed.

#[export] Hint Rewrite zlen_updZ zlen_zeros @zlen_map zlen_gather zlen_argsort zlen_cmp_cells
  zlen_div_cells_sc zlen_coerce_cells : zlen.

(* ---------- the VC tactic ---------- *)
(* compute the whole verification condition; value-level operations stay folded *)
Ltac wp_compute k annf :=
  lazy beta iota zeta delta [wp wp_leaf wp_while wp_for wp_if esafe evalv seq fbody k annf init_store
     fparams flocals combine app map repeat length Nat.sub get set String.eqb Ascii.eqb Bool.eqb getsc
     getar getZ getD havoc forall_kind agree find_kind kind_ok same_shape normal brk ret args_safe
     arg_safe argvals argval wp_targets fname is_sc is_ar alen acols adt adata forall_rets slice_rows];
  cbn [to_int to_flt truthy eval_cmp eval_binop eval_unop is_flt orb binop_int binop_flt cmp_int coerce negb sum_cells].

(* turn a boolean test on integers into a proposition (ZifyBool is deliberately not used: its
   preprocessing of every boolean hypothesis dominated the proof time) *)
Ltac b2p H :=
  repeat first [ rewrite negb_true_iff in H | rewrite negb_false_iff in H ];
  lazymatch type of H with
  | (_ <? _)%Z = true => apply Z.ltb_lt in H
  | (_ <? _)%Z = false => apply Z.ltb_ge in H
  | (_ <=? _)%Z = true => apply Z.leb_le in H
  | (_ <=? _)%Z = false => apply Z.leb_gt in H
  | (_ =? _)%Z = true => apply Z.eqb_eq in H
  | (_ =? _)%Z = false => apply Z.eqb_neq in H
  | _ => idtac
  end.

Ltac simp_hyp H :=
  cbn [truthy negb to_int] in H;
  try discriminate H;
  lazymatch type of H with
  | context [if ?b then _ else _] =>
      let E := fresh "E" in destruct b eqn:E; simp_hyp E; simp_hyp H
  | ?x = ?x => clear H
  | _ /\ _ =>
      let H1 := fresh "H" in let H2 := fresh "H" in
      destruct H as [H1 H2]; simp_hyp H1; simp_hyp H2
  | _ => b2p H; try (progress autorewrite with zlen in H)
  end.

(* 0 <= zlen l for every list of cells in the context (new lists get theirs when introduced) *)
Ltac init_lists :=
  repeat match goal with
         | l : list sval |- _ =>
             lazymatch goal with
             | _ : 0 <= zlen l |- _ => fail
             | _ => pose proof (zlen_nonneg l)
             end
         end.

Ltac arith := autorewrite with zlen; lia.

Ltac vc_leaf := try solve [ exact I | reflexivity | arith ].

Ltac vc_go k annf :=
  lazymatch goal with
  | |- True => exact I
  | |- _ /\ _ => split; vc_go k annf
  | |- ?A -> ?B => let H := fresh "H" in intro H; simp_hyp H; vc_go k annf
  | |- forall l : list sval, _ =>
      let d := fresh "d" in intro d; pose proof (zlen_nonneg d); vc_go k annf
  | |- forall _, _ => intro; vc_go k annf
  | |- _ => vc_leaf
  end.

Ltac vc k annf := init_lists; vc_go k annf.

(* argsort yields valid positions *)
Lemma idx_ok_argsort : forall d, idx_ok (zlen d) (argsort d) = true.
Proof.
  intros d. unfold idx_ok, argsort. rewrite forallb_forall. intros v Hv.
  apply in_map_iff in Hv. destruct Hv as [[k i] [<- Hin]]. simpl.
  assert (P : forall l, (forall p, In p l -> 0 <= snd p < zlen d) ->
                        forall p, In p (isort l) -> 0 <= snd p < zlen d).
  { assert (Pi : forall k i l, (forall p, In p l -> 0 <= snd p < zlen d) -> 0 <= i < zlen d ->
                               forall p, In p (ins k i l) -> 0 <= snd p < zlen d).
    { induction l as [|[k' i'] r IH]; simpl; intros Hl Hi p Hp.
      - destruct Hp as [<-|[]]; exact Hi.
      - destruct (key_le k' k0); simpl in Hp.
        + destruct Hp as [<-|Hp]; [apply (Hl (k', i')); auto | apply IH; auto].
        + destruct Hp as [<-|Hp]; [exact Hi | apply Hl; exact Hp]. }
    induction l as [|[k' i'] r IH]; simpl; intros Hl p Hp; [contradiction|].
    apply Pi in Hp; auto. apply (Hl (k', i')); auto. }
  assert (R : forall n lo p, In p (zrange lo n) -> lo <= p < lo + Z.of_nat n).
  { induction n; simpl; intros lo p Hp; [contradiction|].
    destruct Hp as [<-|Hp]; [lia|]. apply IHn in Hp. lia. }
  assert (C : forall p, In p (combine (map to_flt d) (zrange 0 (length d))) -> 0 <= snd p < zlen d).
  { intros [k' i'] Hp. apply in_combine_r in Hp. apply R in Hp. simpl. unfold zlen. lia. }
  specialize (P _ C _ Hin). simpl in P. apply andb_true_intro. split; [apply Z.leb_le | apply Z.ltb_lt]; lia.
Qed.

(* entry point of a per-kernel proof: [Pre] has been destructed and [args] substituted *)
Ltac safe_start k annf :=
  unfold run; apply run_safe with (ann := annf) (R := fun _ : list value => True);
  wp_compute k annf.
