(* Jit.Safety: a weakest-precondition calculus for SAFETY ONLY (no [Err] outcome) of Jit.Lang
   programs, with one soundness theorem [wp_sound] w.r.t. the checked interpreter Jit.Interp.

   - Expressions: [esafe e st] says that evaluating [e] in [st] raises no error, and
     [evalv e st] is its value (a total, unchecked evaluator);  [esafe_sound] ties both to [eval].
     Short-circuit operators only require the safety of the operand that is evaluated.
   - Statements: [wp ann c Q st] with a three-part postcondition (normal / break / return).
     Loops and calls are not annotated in the program text: they carry a number [l] (given by the
     translator) and the annotations come from an oracle [ann : nat -> annot].
   - A loop annotation [ALoop mods fact] lists the variables the loop may modify, each with a
     [kind], and a fact [fact st0 st] relating the state at loop entry [st0] to the state at the
     head of any iteration.  All other variables are framed: they keep their entry value.
   - A call annotation [ACall pre shape post] is a contract of the callee; [wp] contains the
     obligation that the callee meets it (discharged with the callee's own theorem).
   Partial correctness: [OutOfFuel] is always accepted. *)
From Coq Require Import ZArith QArith String List Bool Lia.
From Verif Require Import Jit.Lang Jit.Interp.
Import ListNotations.
Open Scope Z_scope.

(* ---------- unchecked evaluation and expression safety ---------- *)
Definition getsc (st : store) (x : var) : sval := match get st x with Sc v => v | _ => dflt end.
Definition getar (st : store) (x : var) : arr := match get st x with Ar a => a | _ => A1 DInt [] end.
Definition is_sc (v : value) : Prop := match v with Sc _ => True | _ => False end.
Definition is_ar (v : value) : Prop := match v with Ar _ => True | _ => False end.

Fixpoint evalv (e : expr) (st : store) : sval :=
  match e with
  | EVar x => getsc st x
  | EInt z => VInt z
  | EFlt q => VFlt (Some q)
  | ENan => VFlt None
  | EBool b => VBool b
  | EBin op a b => eval_binop op (evalv a st) (evalv b st)
  | ECmp op a b => VBool (eval_cmp op (evalv a st) (evalv b st))
  | EAnd a b => if truthy (evalv a st) then evalv b st else evalv a st
  | EOr a b => if truthy (evalv a st) then evalv a st else evalv b st
  | ENot a => VBool (negb (truthy (evalv a st)))
  | EIf c a b => if truthy (evalv c st) then evalv a st else evalv b st
  | EUn op a => eval_unop op (evalv a st)
  | ELen a => VInt (alen (getar st a))
  | ECols a => VInt (acols (getar st a))
  | ERead1 _ a i => coerce (adt (getar st a)) (nthZ (adata (getar st a)) (to_int (evalv i st)))
  | ERead2 _ a i j =>
      coerce (adt (getar st a))
             (nthZ (adata (getar st a)) (to_int (evalv i st) * acols (getar st a) + to_int (evalv j st)))
  | ESum a lo hi =>
      sum_cells (adt (getar st a))
                (adata (slice_rows (getar st a) (to_int (evalv lo st)) (to_int (evalv hi st))))
  | ESumCol _ a lo hi j =>
      let r := getar st a in
      sum_cells (adt r) (pyslice (column (alen r) (acols r) (adata r) j)
                                 (to_int (evalv lo st)) (to_int (evalv hi st)))
  | ESumAll a => sum_cells (adt (getar st a)) (adata (getar st a))
  | ESumDiff _ a b =>
      VFlt (sum_flt (map2 (fun x y => VFlt (fsub (to_flt x) (to_flt y)))
                          (adata (getar st a)) (adata (getar st b))))
  | EAnyColProdPos _ a j1 j2 =>
      let r := getar st a in
      VBool (existsb (fun p => eval_cmp Gt p (VInt 0))
                     (map2 (eval_binop Mul) (column (alen r) (acols r) (adata r) j1)
                                            (column (alen r) (acols r) (adata r) j2)))
  end.

Fixpoint esafe (e : expr) (st : store) : Prop :=
  match e with
  | EVar x => is_sc (get st x)
  | EInt _ | EFlt _ | ENan | EBool _ => True
  | EBin _ a b | ECmp _ a b => esafe a st /\ esafe b st
  | EAnd a b => esafe a st /\ (truthy (evalv a st) = true -> esafe b st)
  | EOr a b => esafe a st /\ (truthy (evalv a st) = false -> esafe b st)
  | ENot a | EUn _ a => esafe a st
  | EIf c a b => esafe c st /\ (truthy (evalv c st) = true -> esafe a st)
                 /\ (truthy (evalv c st) = false -> esafe b st)
  | ELen a | ECols a | ESumAll a => is_ar (get st a)
  | ERead1 _ a i =>
      match get st a with
      | Ar (A1 _ d) => esafe i st /\ 0 <= to_int (evalv i st) < zlen d
      | _ => False
      end
  | ERead2 _ a i j =>
      match get st a with
      | Ar (A2 _ n c _) => esafe i st /\ esafe j st /\ 0 <= to_int (evalv i st) < n
                           /\ 0 <= to_int (evalv j st) < c
      | _ => False
      end
  | ESum a lo hi => is_ar (get st a) /\ esafe lo st /\ esafe hi st
  | ESumCol _ a lo hi j =>
      match get st a with
      | Ar (A2 _ _ c _) => esafe lo st /\ esafe hi st /\ 0 <= j < c
      | _ => False
      end
  | ESumDiff _ a b =>
      match get st a, get st b with
      | Ar ra, Ar rb => alen ra = alen rb
      | _, _ => False
      end
  | EAnyColProdPos _ a j1 j2 =>
      match get st a with
      | Ar (A2 _ _ c _) => 0 <= j1 < c /\ 0 <= j2 < c
      | _ => False
      end
  end.

Lemma in_range_true : forall i n, 0 <= i < n -> in_range i n = true.
Proof. intros; unfold in_range; apply andb_true_intro; split; [apply Z.leb_le | apply Z.ltb_lt]; lia. Qed.

Lemma esafe_sound : forall e st, esafe e st -> eval e st = Ok (evalv e st).
Proof.
  induction e; intros st H; simpl in *; try reflexivity.
  - unfold get_sc, getsc. destruct (get st x); simpl in H; try contradiction. reflexivity.
  - destruct H as [H1 H2]. rewrite (IHe1 _ H1), (IHe2 _ H2). reflexivity.
  - destruct H as [H1 H2]. rewrite (IHe1 _ H1), (IHe2 _ H2). reflexivity.
  - destruct H as [H1 H2]. rewrite (IHe1 _ H1). simpl.
    destruct (truthy (evalv e1 st)) eqn:E; [apply IHe2; auto | reflexivity].
  - destruct H as [H1 H2]. rewrite (IHe1 _ H1). simpl.
    destruct (truthy (evalv e1 st)) eqn:E; [reflexivity | apply IHe2; auto].
  - rewrite (IHe _ H). reflexivity.
  - destruct H as [H1 [H2 H3]]. rewrite (IHe1 _ H1). simpl.
    destruct (truthy (evalv e1 st)) eqn:E; [apply IHe2 | apply IHe3]; auto.
  - rewrite (IHe _ H). reflexivity.
  - unfold get_arr, getar. destruct (get st a); simpl in H; try contradiction. reflexivity.
  - unfold get_arr, getar. destruct (get st a); simpl in H; try contradiction. reflexivity.
  - unfold get_arr, getar. destruct (get st a) as [| |r]; try contradiction.
    destruct r; try contradiction. destruct H as [H1 H2]. simpl. rewrite (IHe _ H1). simpl.
    rewrite in_range_true by assumption. reflexivity.
  - unfold get_arr, getar. destruct (get st a) as [| |r]; try contradiction.
    destruct r; try contradiction. destruct H as [H1 [H2 [H3 H4]]]. simpl.
    rewrite (IHe1 _ H1), (IHe2 _ H2). simpl.
    rewrite !in_range_true by assumption. reflexivity.
  - unfold get_arr, getar. destruct H as [H0 [H1 H2]].
    destruct (get st a); simpl in H0; try contradiction. simpl.
    rewrite (IHe1 _ H1), (IHe2 _ H2). reflexivity.
  - unfold get_arr, getar. destruct (get st a) as [| |r]; try contradiction.
    destruct r; try contradiction. destruct H as [H1 [H2 H3]]. simpl.
    rewrite (IHe1 _ H1), (IHe2 _ H2). simpl. rewrite in_range_true by assumption. reflexivity.
  - unfold get_arr, getar. destruct (get st a); simpl in H; try contradiction. reflexivity.
  - unfold get_arr, getar. destruct (get st a) as [| |ra]; try contradiction.
    destruct (get st b) as [| |rb]; try contradiction. simpl.
    rewrite H, Z.eqb_refl. reflexivity.
  - unfold get_arr, getar. destruct (get st a) as [| |r]; try contradiction.
    destruct r; try contradiction. destruct H as [H1 H2]. simpl.
    rewrite !in_range_true by assumption. reflexivity.
Qed.

(* arguments of calls and returns *)
Definition argval (a : arg) (st : store) : value :=
  match a with AVar x => get st x | AExp e => Sc (evalv e st) end.
Definition arg_safe (a : arg) (st : store) : Prop :=
  match a with
  | AVar x => match get st x with Undef => False | _ => True end
  | AExp e => esafe e st
  end.
Fixpoint args_safe (l : list arg) (st : store) : Prop :=
  match l with [] => True | a :: r => arg_safe a st /\ args_safe r st end.
Definition argvals (l : list arg) (st : store) : list value := map (fun a => argval a st) l.

Lemma args_safe_sound : forall l st, args_safe l st -> eval_args l st = Ok (argvals l st).
Proof.
  induction l as [|a r IH]; intros st H; simpl in *; [reflexivity|].
  destruct H as [Ha Hr]. rewrite (IH _ Hr).
  destruct a as [x|e]; simpl in *.
  - destruct (get st x); try contradiction; reflexivity.
  - rewrite (esafe_sound _ _ Ha). reflexivity.
Qed.

(* ---------- postconditions, kinds, annotations ---------- *)
Record post := mkPost { normal : store -> Prop; brk : store -> Prop; ret : list value -> Prop }.

Definition post_holds (o : outcome) (Q : post) : Prop :=
  match o with
  | Normal st => normal Q st
  | Break st => brk Q st
  | Return vs => ret Q vs
  | Err _ => False
  | OutOfFuel => True
  end.

Inductive kind := KInt | KFlt | KBool | KSc | KAny | KArr | KArr1.

Definition same_shape (a b : arr) : Prop :=
  match a, b with
  | A1 dt d, A1 dt' d' => dt = dt' /\ zlen d' = zlen d
  | A2 dt r c _, A2 dt' r' c' _ => dt = dt' /\ r' = r /\ c' = c
  | _, _ => False
  end.

Definition kind_ok (k : kind) (vold vnew : value) : Prop :=
  match k with
  | KInt => match vnew with Sc (VInt _) => True | _ => False end
  | KFlt => match vnew with Sc (VFlt _) => True | _ => False end
  | KBool => match vnew with Sc (VBool _) => True | _ => False end
  | KSc => match vnew with Sc _ => True | _ => False end
  | KAny => True
  | KArr => match vold, vnew with Ar a, Ar b => same_shape a b | _, _ => False end
  | KArr1 => match vnew with Ar (A1 _ _) => True | _ => False end
  end.

Definition forall_kind (k : kind) (vold : value) (P : value -> Prop) : Prop :=
  match k with
  | KInt => forall z : Z, P (Sc (VInt z))
  | KFlt => forall q : option Q, P (Sc (VFlt q))
  | KBool => forall b : bool, P (Sc (VBool b))
  | KSc => forall v : sval, P (Sc v)
  | KAny => forall v : value, P v
  | KArr => match vold with
            | Ar (A1 dt d) => forall d' : list sval, zlen d' = zlen d -> P (Ar (A1 dt d'))
            | Ar (A2 dt r c _) => forall d' : list sval, P (Ar (A2 dt r c d'))
            | _ => True
            end
  | KArr1 => forall (dt : dtype) (d : list sval), P (Ar (A1 dt d))
  end.

Lemma forall_kind_ok : forall k vold vnew P, forall_kind k vold P -> kind_ok k vold vnew -> P vnew.
Proof.
  intros k vold vnew P H K. destruct k; simpl in *.
  - destruct vnew as [|[]|]; try contradiction; apply H.
  - destruct vnew as [|[]|]; try contradiction; apply H.
  - destruct vnew as [|[]|]; try contradiction; apply H.
  - destruct vnew as [|v|]; try contradiction; apply H.
  - apply H.
  - destruct vold as [| |a]; try contradiction. destruct vnew as [| |b]; try contradiction.
    destruct a, b; simpl in K; try contradiction.
    + destruct K as [-> K]. apply H; assumption.
    + destruct K as [-> [-> ->]]. apply H.
  - destruct vnew as [| |[dt d|]]; try contradiction. apply H.
Qed.

Fixpoint find_kind (x : var) (mods : list (var * kind)) : option kind :=
  match mods with
  | [] => None
  | (y, k) :: r => if String.eqb x y then Some k else find_kind x r
  end.

(* [st] has the variables of [st0]; those outside [mods] are unchanged, the others are of their kind *)
Fixpoint agree (mods : list (var * kind)) (st0 st : store) : Prop :=
  match st0, st with
  | [], [] => True
  | (x, v) :: r, (y, w) :: r' =>
      x = y /\ match find_kind x mods with Some k => kind_ok k v w | None => v = w end
      /\ agree mods r r'
  | _, _ => False
  end.

(* quantify over the values of the modified variables: computes to nested [forall]s over a
   store of the same concrete shape as [st0] *)
Fixpoint havoc (mods : list (var * kind)) (st0 : store) (K : store -> Prop) : Prop :=
  match st0 with
  | [] => K []
  | (x, v) :: r =>
      match find_kind x mods with
      | None => havoc mods r (fun r' => K ((x, v) :: r'))
      | Some k => forall_kind k v (fun w => havoc mods r (fun r' => K ((x, w) :: r')))
      end
  end.

Lemma havoc_agree : forall mods st0 K, havoc mods st0 K -> forall st, agree mods st0 st -> K st.
Proof.
  induction st0 as [|[x v] r IH]; intros K H st A; destruct st as [|[y w] r']; simpl in *;
    try contradiction; [assumption|].
  destruct A as [<- [A1 A2]].
  destruct (find_kind x mods) as [k|].
  - pose proof (forall_kind_ok _ _ _ _ H A1) as H'. simpl in H'. exact (IH _ H' _ A2).
  - subst w. exact (IH _ H _ A2).
Qed.

Inductive rkind := RA1 (dt : dtype) | RSc.
Fixpoint conforms (sh : list rkind) (rs : list value) : Prop :=
  match sh, rs with
  | [], [] => True
  | RA1 dt :: s, Ar (A1 dt' _) :: r => dt = dt' /\ conforms s r
  | RSc :: s, Sc _ :: r => conforms s r
  | _, _ => False
  end.
Fixpoint forall_rets (sh : list rkind) (P : list value -> Prop) : Prop :=
  match sh with
  | [] => P []
  | RA1 dt :: s => forall d : list sval, forall_rets s (fun r => P (Ar (A1 dt d) :: r))
  | RSc :: s => forall v : sval, forall_rets s (fun r => P (Sc v :: r))
  end.
Lemma forall_rets_ok : forall sh P, forall_rets sh P -> forall rs, conforms sh rs -> P rs.
Proof.
  induction sh as [|k s IH]; intros P H rs C; destruct rs as [|v r]; simpl in *; try contradiction.
  - assumption.
  - destruct k; contradiction.
  - destruct k.
    + destruct v as [| |[dt' d|]]; try contradiction. destruct C as [-> C].
      exact (IH _ (H d) _ C).
    + destruct v as [|v|]; try contradiction. exact (IH _ (H v) _ C).
Qed.

Inductive annot :=
| ALoop (mods : list (var * kind)) (fact : store -> store -> Prop)
| ACall (pre : list value -> Prop) (shape : list rkind) (post : list value -> list value -> Prop)
| ANone.

(* ---------- weakest precondition ---------- *)
Fixpoint wp_targets (ts : list target) (rs : list value) (st : store) (K : store -> Prop) : Prop :=
  match ts, rs with
  | [], _ => K st
  | TVar x :: r, v :: w => wp_targets r w (set st x v) K
  | TCol _ a j :: r, v :: w =>
      match get st a, v with
      | Ar (A2 dt n c d), Ar (A1 _ col) =>
          0 <= j < c /\ zlen col = n /\
          wp_targets r w (set st a (Ar (A2 dt n c (set_col n c j d (coerce_cells dt col))))) K
      | _, _ => False
      end
  | _ :: _, [] => False
  end.

Lemma wp_targets_sound : forall ts rs st K, wp_targets ts rs st K ->
  exists st', assign_targets ts rs st = Ok st' /\ K st'.
Proof.
  induction ts as [|t r IH]; intros rs st K H; simpl in *.
  - eauto.
  - destruct t as [x|s a j]; destruct rs as [|v w]; try contradiction.
    + simpl. apply IH. exact H.
    + simpl. unfold get_arr. destruct (get st a) as [| |[|dt n c d]]; try contradiction.
      destruct v as [| |[dt' col|]]; try contradiction.
      destruct H as [H1 [H2 H3]]. simpl.
      rewrite in_range_true by assumption. rewrite H2, Z.eqb_refl. simpl. apply IH. exact H3.
Qed.

Section WP.
Variable env : list func.
Variable ann : nat -> annot.

Definition callee_meets (g : func) (pre : list value -> Prop) (sh : list rkind)
           (post : list value -> list value -> Prop) : Prop :=
  forall fuel vs, pre vs ->
    match run env fuel g vs with
    | Err _ => False
    | Return rs => conforms sh rs /\ post vs rs
    | _ => True
    end.

(* statements without sub-statements *)
Definition wp_leaf (c : stmt) (Q : post) (st : store) : Prop :=
  match c with
  | SSkip => normal Q st
  | SAssign x e => esafe e st /\ normal Q (set st x (Sc (evalv e st)))
  | SStore1 _ a i e =>
      match get st a with
      | Ar (A1 dt d) =>
          esafe i st /\ esafe e st /\ 0 <= to_int (evalv i st) < zlen d /\
          normal Q (set st a (Ar (A1 dt (updZ d (to_int (evalv i st)) (coerce dt (evalv e st))))))
      | _ => False
      end
  | SStore2 _ a i j e =>
      match get st a with
      | Ar (A2 dt n c d) =>
          esafe i st /\ esafe j st /\ esafe e st /\
          0 <= to_int (evalv i st) < n /\ 0 <= to_int (evalv j st) < c /\
          normal Q (set st a (Ar (A2 dt n c (updZ d (to_int (evalv i st) * c + to_int (evalv j st))
                                                  (coerce dt (evalv e st))))))
      | _ => False
      end
  | SNew1 x dt n fill =>
      esafe n st /\ esafe fill st /\
      normal Q (set st x (Ar (A1 dt (zeros dt (to_int (evalv n st)) (evalv fill st)))))
  | SNew2 x dt r cc fill =>
      esafe r st /\ esafe cc st /\ esafe fill st /\
      let n := Z.max 0 (to_int (evalv r st)) in let k := Z.max 0 (to_int (evalv cc st)) in
      normal Q (set st x (Ar (A2 dt n k (zeros dt (n * k) (evalv fill st)))))
  | SSlice x b lo hi =>
      match get st b with
      | Ar r => esafe lo st /\ esafe hi st /\
                normal Q (set st x (Ar (slice_rows r (to_int (evalv lo st)) (to_int (evalv hi st)))))
      | _ => False
      end
  | SGather _ x b idx =>
      match get st b, get st idx with
      | Ar (A1 dt d), Ar (A1 _ ix) =>
          idx_ok (zlen d) ix = true /\ normal Q (set st x (Ar (A1 dt (gather d ix))))
      | _, _ => False
      end
  | SMask _ x b m =>
      match get st b, get st m with
      | Ar (A1 dt d), Ar (A1 _ mk) =>
          zlen d = zlen mk /\ normal Q (set st x (Ar (A1 dt (maskl d mk))))
      | _, _ => False
      end
  | SCmpArr x op b e =>
      match get st b with
      | Ar r => esafe e st /\
                normal Q (set st x (Ar (A1 DBool (cmp_cells op (evalv e st) (adata r)))))
      | _ => False
      end
  | SArgsort x b =>
      match get st b with
      | Ar r => normal Q (set st x (Ar (A1 DInt (argsort (adata r)))))
      | _ => False
      end
  | SCumsum x b =>
      match get st b with
      | Ar r => normal Q (set st x (Ar (A1 (adt r)
                   (match adt r with
                    | DFlt => cumsum_flt (Some 0%Q) (adata r)
                    | _ => cumsum_int 0 (adata r) end))))
      | _ => False
      end
  | SArrDiv _ x a b =>
      match get st a, get st b with
      | Ar ra, Ar rb =>
          alen ra = alen rb /\ acols ra = acols rb /\
          let d := div_cells (adata ra) (adata rb) in
          normal Q (set st x (Ar (match ra with A1 _ _ => A1 DFlt d | A2 _ r c _ => A2 DFlt r c d end)))
      | _, _ => False
      end
  | SArrDivSc x a e =>
      match get st a with
      | Ar ra =>
          esafe e st /\
          let d := div_cells_sc (evalv e st) (adata ra) in
          normal Q (set st x (Ar (match ra with A1 _ _ => A1 DFlt d | A2 _ r c _ => A2 DFlt r c d end)))
      | _ => False
      end
  | SArrScale a e =>
      match get st a with
      | Ar ra =>
          esafe e st /\
          normal Q (set st a (Ar (match ra with
                                  | A1 dt d => A1 dt (scale_cells dt (evalv e st) d)
                                  | A2 dt r c d => A2 dt r c (scale_cells dt (evalv e st) d) end)))
      | _ => False
      end
  | SShiftLeft a =>
      match get st a with
      | Ar (A1 dt d) => normal Q (set st a (Ar (A1 dt (shift_left d))))
      | _ => False
      end
  | SColSums x a =>
      match get st a with
      | Ar (A2 dt n c d) => normal Q (set st x (Ar (A1 dt (col_sums dt n c d))))
      | _ => False
      end
  | SColUpd _ a j op h e =>
      match get st a with
      | Ar (A2 dt n c d) =>
          esafe j st /\ esafe e st /\ 0 <= to_int (evalv j st) < c /\
          match h with
          | None => normal Q (set st a (Ar (A2 dt n c
                       (col_upd dt n c (to_int (evalv j st)) d op None (evalv e st)))))
          | Some hv =>
              match get st hv with
              | Ar (A1 _ hd) =>
                  zlen hd = n /\
                  normal Q (set st a (Ar (A2 dt n c
                       (col_upd dt n c (to_int (evalv j st)) d op (Some hd) (evalv e st)))))
              | _ => False
              end
          end
      | _ => False
      end
  | SCall l ts fn args =>
      match find_func env fn, ann l with
      | Some g, ACall pre sh post =>
          args_safe args st /\ pre (argvals args st) /\ callee_meets g pre sh post /\
          forall_rets sh (fun rs => post (argvals args st) rs -> wp_targets ts rs st (normal Q))
      | _, _ => False
      end
  | SForRun _ _ _ _ _ => False
  | SBreak => brk Q st
  | SReturn rs => args_safe rs st /\ ret Q (argvals rs st)
  | SSeq _ _ | SIf _ _ _ _ | SWhile _ _ _ | SFor _ _ _ _ _ => False
  end.

(* loops, parameterised by the wp of their body *)
Definition wp_while (W : post -> store -> Prop) (l : nat) (c : expr) (Q : post) (st : store) : Prop :=
      match ann l with
      | ALoop mods fact =>
          agree mods st st /\ fact st st /\
          havoc mods st (fun s =>
            fact st s ->
            esafe c s /\
            (truthy (evalv c s) = true ->
               W (mkPost (fun s' => agree mods st s' /\ fact st s') (normal Q) (ret Q)) s) /\
            (truthy (evalv c s) = false -> normal Q s))
      | _ => False
      end
.

Definition wp_for (W : post -> store -> Prop) (l : nat) (x : var) (lo hi : expr) (Q : post) (st : store) : Prop :=
      match ann l with
      | ALoop mods fact =>
          esafe lo st /\ esafe hi st /\
          let a := to_int (evalv lo st) in let h := to_int (evalv hi st) in
          (h <= a -> normal Q st) /\
          (a < h ->
             agree mods st (set st x (Sc (VInt a))) /\ fact st (set st x (Sc (VInt a))) /\
             (* an iteration, entered with x = i, re-establishes the fact for x = i + 1 *)
             havoc mods st (fun s =>
               let i := to_int (getsc s x) in
               get s x = Sc (VInt i) -> a <= i < h -> fact st s ->
               W (mkPost (fun s' => agree mods st s'
                                    /\ agree mods st (set s' x (Sc (VInt (i + 1))))
                                    /\ fact st (set s' x (Sc (VInt (i + 1)))))
                         (normal Q) (ret Q)) s) /\
             (* after the last iteration the fact holds "for x = h"; the continuation is proved
                once, from any such state *)
             havoc mods st (fun s => fact st (set s x (Sc (VInt h))) -> normal Q s))
      | _ => False
      end
.

(* conditional.  Without annotation: the usual rule (the continuation is duplicated in both
   branches).  With [ALoop mods fact] at its label: a cut point after the statement, the branches
   establish [fact] and the continuation is proved once, for any values of [mods] satisfying it. *)
Definition wp_if (Wa Wb : post -> store -> Prop) (l : nat) (c : expr) (Q : post) (st : store) : Prop :=
  match ann l with
  | ALoop mods fact =>
      let Q' := mkPost (fun s' => agree mods st s' /\ fact st s') (brk Q) (ret Q) in
      esafe c st /\ (truthy (evalv c st) = true -> Wa Q' st)
      /\ (truthy (evalv c st) = false -> Wb Q' st)
      /\ havoc mods st (fun s => fact st s -> normal Q s)
  | _ =>
      esafe c st /\ (truthy (evalv c st) = true -> Wa Q st)
      /\ (truthy (evalv c st) = false -> Wb Q st)
  end.

Fixpoint wp (c : stmt) (Q : post) (st : store) {struct c} : Prop :=
  match c with
  | SSeq a b => wp a (mkPost (fun st' => wp b Q st') (brk Q) (ret Q)) st
  | SIf l c a b => wp_if (wp a) (wp b) l c Q st
  | SWhile l c b => wp_while (wp b) l c Q st
  | SFor l x lo hi b => wp_for (wp b) l x lo hi Q st
  | _ => wp_leaf c Q st
  end.

(* one-step unfolding lemmas used by the proof tactics (the goal never contains an expanded
   continuation: the rest of the program stays a folded [wp] on program syntax) *)
Definition is_leaf (c : stmt) : bool :=
  match c with SSeq _ _ | SIf _ _ _ _ | SWhile _ _ _ | SFor _ _ _ _ _ => false | _ => true end.
Lemma wp_leaf_intro : forall c Q st, is_leaf c = true -> wp_leaf c Q st -> wp c Q st.
Proof. intros c Q st L H. destruct c; try discriminate L; exact H. Qed.
Lemma wp_seq_intro : forall a b Q st,
  wp a (mkPost (fun st' => wp b Q st') (brk Q) (ret Q)) st -> wp (SSeq a b) Q st.
Proof. intros; assumption. Qed.
Lemma wp_if_intro : forall l c a b Q st, wp_if (wp a) (wp b) l c Q st -> wp (SIf l c a b) Q st.
Proof. intros; assumption. Qed.
Lemma wp_while_intro : forall l c b Q st, wp_while (wp b) l c Q st -> wp (SWhile l c b) Q st.
Proof. intros; assumption. Qed.
Lemma wp_for_intro : forall l x lo hi b Q st, wp_for (wp b) l x lo hi Q st -> wp (SFor l x lo hi b) Q st.
Proof. intros; assumption. Qed.

Lemma get_set_same : forall st x v, get (set st x v) x = v.
Proof.
  induction st as [|[y w] r IH]; intros x v; simpl.
  - rewrite String.eqb_refl. reflexivity.
  - destruct (String.eqb x y) eqn:E; simpl; rewrite E; [reflexivity | apply IH].
Qed.

Ltac step_res H :=
  match goal with
  | |- context [eval ?e ?st] => rewrite (esafe_sound e st) by exact H
  end.

Theorem wp_sound_le : forall n fuel, (fuel <= n)%nat ->
  forall c Q st, wp c Q st -> post_holds (exec env fuel c st) Q.
Proof.
  induction n as [|n IHn]; intros fuel Hle c Q st H.
  { assert (fuel = O) by lia. subst. simpl. exact I. }
  destruct fuel as [|f]; [simpl; exact I|].
  assert (Hf : (f <= n)%nat) by lia.
  destruct c; simpl in H |- *.
  - (* SSkip *) exact H.
  - (* SAssign *) destruct H as [H1 H2]. rewrite (esafe_sound _ _ H1). exact H2.
  - (* SStore1 *)
    unfold get_arr. destruct (get st a) as [| |[dt d|]]; try contradiction.
    destruct H as [H1 [H2 [H3 H4]]]. simpl.
    rewrite (esafe_sound _ _ H1). simpl. rewrite (esafe_sound _ _ H2). simpl.
    rewrite in_range_true by assumption. simpl. exact H4.
  - (* SStore2 *)
    unfold get_arr. destruct (get st a) as [| |[|dt r c d]]; try contradiction.
    destruct H as [H1 [H2 [H3 [H4 [H5 H6]]]]]. simpl.
    rewrite (esafe_sound _ _ H1). simpl. rewrite (esafe_sound _ _ H2). simpl.
    rewrite (esafe_sound _ _ H3). simpl.
    rewrite !in_range_true by assumption. simpl. exact H6.
  - (* SNew1 *)
    destruct H as [H1 [H2 H3]]. rewrite (esafe_sound _ _ H1). simpl.
    rewrite (esafe_sound _ _ H2). simpl. exact H3.
  - (* SNew2 *)
    destruct H as [H1 [H2 [H3 H4]]]. rewrite (esafe_sound _ _ H1). simpl.
    rewrite (esafe_sound _ _ H2). simpl. rewrite (esafe_sound _ _ H3). simpl. exact H4.
  - (* SSlice *)
    unfold get_arr. destruct (get st b) as [| |r]; try contradiction.
    destruct H as [H1 [H2 H3]]. simpl. rewrite (esafe_sound _ _ H1). simpl.
    rewrite (esafe_sound _ _ H2). simpl. exact H3.
  - (* SGather *)
    unfold get_arr. destruct (get st b) as [| |[dt d|]]; try contradiction.
    destruct (get st idx) as [| |[dt' ix|]]; try contradiction.
    destruct H as [H1 H2]. simpl. rewrite H1. simpl. exact H2.
  - (* SMask *)
    unfold get_arr. destruct (get st b) as [| |[dt d|]]; try contradiction.
    destruct (get st mask) as [| |[dt' mk|]]; try contradiction.
    destruct H as [H1 H2]. simpl. rewrite H1, Z.eqb_refl. simpl. exact H2.
  - (* SCmpArr *)
    unfold get_arr. destruct (get st b) as [| |r]; try contradiction.
    destruct H as [H1 H2]. simpl. rewrite (esafe_sound _ _ H1). simpl. exact H2.
  - (* SArgsort *)
    unfold get_arr. destruct (get st b) as [| |r]; try contradiction. simpl. exact H.
  - (* SCumsum *)
    unfold get_arr. destruct (get st b) as [| |r]; try contradiction. simpl. exact H.
  - (* SArrDiv *)
    unfold get_arr. destruct (get st a) as [| |ra]; try contradiction.
    destruct (get st b) as [| |rb]; try contradiction.
    destruct H as [H1 [H2 H3]]. simpl. rewrite H1, H2, !Z.eqb_refl. simpl. exact H3.
  - (* SArrDivSc *)
    unfold get_arr. destruct (get st a) as [| |ra]; try contradiction.
    destruct H as [H1 H2]. simpl. rewrite (esafe_sound _ _ H1). simpl. exact H2.
  - (* SArrScale *)
    unfold get_arr. destruct (get st a) as [| |ra]; try contradiction.
    destruct H as [H1 H2]. simpl. rewrite (esafe_sound _ _ H1). simpl. exact H2.
  - (* SShiftLeft *)
    unfold get_arr. destruct (get st a) as [| |[dt d|]]; try contradiction. simpl. exact H.
  - (* SColSums *)
    unfold get_arr. destruct (get st a) as [| |[|dt r c d]]; try contradiction. simpl. exact H.
  - (* SColUpd *)
    unfold get_arr. destruct (get st a) as [| |[|dt r c d]]; try contradiction.
    destruct H as [H1 [H2 [H3 H4]]]. simpl.
    rewrite (esafe_sound _ _ H1). simpl. rewrite (esafe_sound _ _ H2). simpl.
    rewrite in_range_true by assumption. simpl.
    destruct h as [hv|]; [|exact H4].
    destruct (get st hv) as [| |[dt' hd|]]; try contradiction.
    destruct H4 as [H5 H6]. simpl. rewrite H5, Z.eqb_refl. simpl. exact H6.
  - (* SCall *)
    destruct (find_func env f0) as [g|]; try contradiction.
    destruct (ann l) as [| pre sh pst |]; try contradiction.
    destruct H as [H1 [H2 [H3 H4]]].
    rewrite (args_safe_sound _ _ H1).
    specialize (H3 f (argvals args st) H2). unfold run in H3.
    destruct (exec env f (fbody g) (init_store g (argvals args st))) as [s|s|rs|e|];
      try contradiction; try exact I.
    + destruct H3 as [C P]. pose proof (forall_rets_ok _ _ H4 _ C P) as W.
      destruct (wp_targets_sound _ _ _ _ W) as [st' [E K]]. rewrite E. exact K.
    + destruct H3 as [C P]. pose proof (forall_rets_ok _ _ H4 _ C P) as W.
      destruct (wp_targets_sound _ _ _ _ W) as [st' [E K]]. rewrite E. exact K.
    + destruct H3 as [C P]. pose proof (forall_rets_ok _ _ H4 _ C P) as W.
      destruct (wp_targets_sound _ _ _ _ W) as [st' [E K]]. rewrite E. exact K.
  - (* SSeq *)
    pose proof (IHn f Hf _ _ _ H) as P.
    destruct (exec env f c1 st) as [s|s|rs|e|]; simpl in P; try exact P.
    exact (IHn f Hf _ _ _ P).
  - (* SIf *)
    unfold wp_if in H. destruct (ann l) as [mods fact| |].
    + destruct H as [H1 [H2 [H3 H4]]]. rewrite (esafe_sound _ _ H1).
      assert (J : forall o, post_holds o (mkPost (fun s' => agree mods st s' /\ fact st s') (brk Q) (ret Q)) ->
                            post_holds o Q).
      { intros [s|s|rs|e|] P; simpl in *; try exact P.
        destruct P as [A F]. exact (havoc_agree _ _ _ H4 s A F). }
      destruct (truthy (evalv c1 st)) eqn:E; apply J;
        [exact (IHn f Hf _ _ _ (H2 eq_refl)) | exact (IHn f Hf _ _ _ (H3 eq_refl))].
    + destruct H as [H1 [H2 H3]]. rewrite (esafe_sound _ _ H1).
      destruct (truthy (evalv c1 st)) eqn:E; [exact (IHn f Hf _ _ _ (H2 eq_refl)) | exact (IHn f Hf _ _ _ (H3 eq_refl))].
    + destruct H as [H1 [H2 H3]]. rewrite (esafe_sound _ _ H1).
      destruct (truthy (evalv c1 st)) eqn:E; [exact (IHn f Hf _ _ _ (H2 eq_refl)) | exact (IHn f Hf _ _ _ (H3 eq_refl))].
  - (* SWhile *)
    unfold wp_while in H.
    destruct (ann l) as [mods fact| |] eqn:EA; try contradiction.
    destruct H as [HA [HF HH]].
    (* from any state satisfying the invariant, at any smaller fuel *)
    assert (L : forall k, (k <= S n)%nat -> forall s, agree mods st s -> fact st s ->
                post_holds (exec env k (SWhile l c c0) s) Q).
    { induction k as [|k IHk]; intros Hk s A F; [exact I|].
      simpl. pose proof (havoc_agree _ _ _ HH s A F) as [S1 [S2 S3]].
      rewrite (esafe_sound _ _ S1).
      destruct (truthy (evalv c s)) eqn:E; [| exact (S3 eq_refl)].
      assert (Hk' : (k <= n)%nat) by lia.
      pose proof (IHn k Hk' _ _ _ (S2 eq_refl)) as P.
      destruct (exec env k c0 s) as [s'|s'|rs|e|]; simpl in P; try exact P.
      destruct P as [A' F']. apply IHk; [lia | exact A' | exact F']. }
    exact (L (S f) Hle st HA HF).
  - (* SFor *)
    unfold wp_for in H.
    destruct (ann l) as [mods fact| |] eqn:EA; try contradiction.
    destruct H as [H1 [H2 [H3 H4]]].
    rewrite (esafe_sound _ _ H1), (esafe_sound _ _ H2).
    set (a := to_int (evalv lo st)) in *. set (h := to_int (evalv hi st)) in *.
    assert (L : forall k, (k <= S n)%nat -> forall i s, a <= i < h -> 
                agree mods st (set s x (Sc (VInt i))) -> fact st (set s x (Sc (VInt i))) ->
                post_holds (exec env k (SForRun l x i h c) s) Q).
    { induction k as [|k IHk]; intros Hk i s Hi A F; [exact I|].
      simpl. assert (E : (i <? h) = true) by (apply Z.ltb_lt; lia). rewrite E.
      destruct (H4 ltac:(lia)) as [_ [_ [HH HX]]].
      pose proof (havoc_agree _ _ _ HH _ A) as W. simpl in W.
      unfold getsc in W. rewrite get_set_same in W. simpl in W.
      specialize (W eq_refl Hi F).
      assert (Hk' : (k <= n)%nat) by lia.
      pose proof (IHn k Hk' _ _ _ W) as P.
      destruct (exec env k c (set s x (Sc (VInt i)))) as [s'|s'|rs|e|]; simpl in P; try exact P.
      destruct P as [P0 [P1 P2]].
      destruct (Z_lt_le_dec (i + 1) h) as [Hlt|Hge].
      - apply IHk; try lia; assumption.
      - destruct k as [|k']; [exact I|]. simpl.
        assert (E' : (i + 1 <? h) = false) by (apply Z.ltb_ge; lia). rewrite E'.
        assert (Eh : i + 1 = h) by lia. rewrite Eh in P2.
        exact (havoc_agree _ _ _ HX s' P0 P2). }
    destruct (Z_lt_le_dec a h) as [Hah|Hah].
    + destruct (H4 Hah) as [A [F _]].
      apply (L f ltac:(lia) a st); [lia | exact A | exact F].
    + destruct f as [|f']; [exact I|]. simpl.
      assert (E : (a <? h) = false) by (apply Z.ltb_ge; lia). rewrite E. exact (H3 Hah).
  - (* SForRun *) contradiction.
  - (* SBreak *) exact H.
  - (* SReturn *) destruct H as [H1 H2]. rewrite (args_safe_sound _ _ H1). exact H2.
Qed.

Theorem wp_sound : forall c Q st fuel, wp c Q st -> post_holds (exec env fuel c st) Q.
Proof. intros. eapply wp_sound_le; [apply le_n | assumption]. Qed.

(* whole-function form: falling off the end returns the empty tuple *)
Theorem run_sound : forall g (R : list value -> Prop) args fuel,
  wp (fbody g) (mkPost (fun _ => R []) (fun _ => R []) R) (init_store g args) ->
  match run env fuel g args with
  | Err _ => False
  | Return rs => R rs
  | _ => True
  end.
Proof.
  intros g R args fuel H. pose proof (wp_sound _ _ _ fuel H) as P. unfold run.
  destruct (exec env fuel (fbody g) (init_store g args)); simpl in P; try exact P; exact I.
Qed.

Corollary run_safe : forall g R args fuel,
  wp (fbody g) (mkPost (fun _ => R []) (fun _ => R []) R) (init_store g args) ->
  safe_outcome (run env fuel g args).
Proof.
  intros g R args fuel H. pose proof (run_sound g R args fuel H) as P.
  destruct (run env fuel g args); simpl; auto.
Qed.

End WP.
