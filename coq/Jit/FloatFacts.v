(* Jit.FloatFacts: the few facts about the idealised floats (exact rationals or NaN) that
   safety proofs need: the number of bins computed by jitcount/_jitbin_array is not negative. *)
From Coq Require Import ZArith QArith Qround Lqa String List Bool Lia.
From Verif Require Import Jit.Lang Jit.Interp Jit.Safety Jit.Tactics.
Open Scope Z_scope.

Lemma qtrunc_qz : forall z, qtrunc (qz z) = z.
Proof.
  intros z. unfold qtrunc, qz. destruct (Qle_bool 0 (inject_Z z)); [apply Qfloor_Z | apply Qceiling_Z].
Qed.

Lemma Qceiling_nonneg : forall r : Q, (0 <= r)%Q -> 0 <= Qceiling r.
Proof.
  intros r H. change 0 with (Qceiling 0). apply Qceiling_resp_le. exact H.
Qed.

(* int(np.ceil((e + bin - s) / bin)) >= 0 when e - s > bin > 0 *)
Lemma nb_bins_nonneg : forall (a b : option Q) (q : Q), (0 < q)%Q ->
  cmp_flt Gt (fsub a b) (Some q) = true ->
  0 <= to_int (eval_unop ToInt (eval_unop Ceil
                (VFlt (fdiv (fsub (fadd a (Some q)) b) (Some q))))).
Proof.
  intros a b q Hq H.
  destruct a as [x|], b as [y|]; unfold fsub, f2, cmp_flt in H; try (exfalso; congruence).
  unfold fsub, fadd, fdiv, f2, qsome in *. cbv beta iota in H.
  assert (Hd : (q < x - y)%Q).
  { unfold cmp_q in H. apply negb_true_iff in H.
    assert (~ (Qred (x - y) <= q)%Q) by (intro C; apply Qle_bool_iff in C; rewrite C in H; discriminate H).
    rewrite Qred_correct in H0. apply Qnot_le_lt. exact H0. }
  assert (Hz : Qeq_bool q 0 = false).
  { destruct (Qeq_bool q 0) eqn:E; [|reflexivity]. apply Qeq_bool_eq in E. lra. }
  rewrite Hz. unfold eval_unop. cbn [to_int]. rewrite qtrunc_qz.
  apply Qceiling_nonneg.
  rewrite Qred_correct. rewrite Qred_correct. rewrite Qred_correct.
  apply Qle_shift_div_l; [exact Hq|]. lra.
Qed.
