(* Jit.Interp: checked, fuel-based big-step interpreter for Jit.Lang.

   Every array read/write checks 0 <= i < len (both axes for 2-D) and reports [OOB site];
   every variable read checks that the variable holds a value and reports [Uninit x].
   A name used as an array while it holds a scalar (or conversely) is reported as [Uninit]
   as well (it never happens in translated kernels: the translator separates the two uses).

   Lenient points (documented deviations from Python/numba, none of them reachable under the
   public-call preconditions): scalar kinds are coerced (see [to_int], [to_flt], [truthy]);
   float division by zero gives NaN (numba raises ZeroDivisionError for scalars, NumPy gives
   inf/nan for arrays); int(NaN) = 0; np.zeros(n) with n < 0 builds an empty array (NumPy raises);
   a shape mismatch in an elementwise array operation or boolean mask is reported as OOB. *)
From Coq Require Import ZArith QArith Qround String List Bool.
From Verif Require Import Jit.Lang.
Import ListNotations.
Open Scope Z_scope.

(* ---------- scalars ---------- *)
Definition qtrunc (q : Q) : Z := if Qle_bool 0 q then Qfloor q else Qceiling q.
Definition qz (z : Z) : Q := inject_Z z.

Definition to_int (v : sval) : Z :=
  match v with
  | VInt z => z
  | VBool b => if b then 1 else 0
  | VFlt (Some q) => qtrunc q
  | VFlt None => 0
  end.
Definition to_flt (v : sval) : option Q :=
  match v with
  | VInt z => Some (qz z)
  | VBool b => Some (qz (if b then 1 else 0))
  | VFlt q => q
  end.
Definition truthy (v : sval) : bool :=
  match v with
  | VBool b => b
  | VInt z => negb (z =? 0)
  | VFlt (Some q) => negb (Qeq_bool q 0)
  | VFlt None => true
  end.
Definition is_flt (v : sval) : bool := match v with VFlt _ => true | _ => false end.

Definition coerce (dt : dtype) (v : sval) : sval :=
  match dt with
  | DInt => VInt (to_int v)
  | DFlt => VFlt (to_flt v)
  | DBool => VBool (truthy v)
  end.

Definition f2 (f : Q -> Q -> option Q) (a b : option Q) : option Q :=
  match a, b with Some x, Some y => f x y | _, _ => None end.
Definition qsome (q : Q) : option Q := Some (Qred q).
Definition fadd := f2 (fun x y => qsome (x + y)%Q).
Definition fsub := f2 (fun x y => qsome (x - y)%Q).
Definition fmul := f2 (fun x y => qsome (x * y)%Q).
Definition fdiv := f2 (fun x y => if Qeq_bool y 0 then None else qsome (x / y)%Q).
Definition ffloordiv := f2 (fun x y => if Qeq_bool y 0 then None else qsome (qz (Qfloor (x / y)%Q))).
Definition fmod := f2 (fun x y => if Qeq_bool y 0 then None
                                  else qsome (x - y * qz (Qfloor (x / y)%Q))%Q).
Definition fmin := f2 (fun x y => Some (if Qle_bool x y then x else y)).
Definition fmax := f2 (fun x y => Some (if Qle_bool x y then y else x)).

Definition binop_int (op : binop) (x y : Z) : sval :=
  match op with
  | Add => VInt (x + y) | Sub => VInt (x - y) | Mul => VInt (x * y)
  | Div => VFlt (fdiv (Some (qz x)) (Some (qz y)))
  | FloorDiv => VInt (x / y) | Mod => VInt (x mod y)
  | Min => VInt (Z.min x y) | Max => VInt (Z.max x y)
  end.
Definition binop_flt (op : binop) (x y : option Q) : sval :=
  VFlt (match op with
        | Add => fadd x y | Sub => fsub x y | Mul => fmul x y | Div => fdiv x y
        | FloorDiv => ffloordiv x y | Mod => fmod x y | Min => fmin x y | Max => fmax x y
        end).
Definition eval_binop (op : binop) (a b : sval) : sval :=
  if is_flt a || is_flt b then binop_flt op (to_flt a) (to_flt b)
  else binop_int op (to_int a) (to_int b).

Definition cmp_int (op : cmpop) (x y : Z) : bool :=
  match op with
  | Lt => x <? y | Le => x <=? y | Gt => y <? x | Ge => y <=? x
  | Eq => x =? y | Ne => negb (x =? y)
  end.
Definition cmp_q (op : cmpop) (x y : Q) : bool :=
  match op with
  | Lt => negb (Qle_bool y x) | Le => Qle_bool x y
  | Gt => negb (Qle_bool x y) | Ge => Qle_bool y x
  | Eq => Qeq_bool x y | Ne => negb (Qeq_bool x y)
  end.
Definition cmp_flt (op : cmpop) (x y : option Q) : bool :=
  match x, y with
  | Some p, Some q => cmp_q op p q
  | _, _ => match op with Ne => true | _ => false end
  end.
Definition eval_cmp (op : cmpop) (a b : sval) : bool :=
  if is_flt a || is_flt b then cmp_flt op (to_flt a) (to_flt b)
  else cmp_int op (to_int a) (to_int b).

(* round half to even *)
Definition q_rhe (q : Q) : Z :=
  let f := Qfloor q in
  match Qcompare (q - qz f)%Q (1 # 2) with
  | Datatypes.Lt => f
  | Datatypes.Gt => f + 1
  | Datatypes.Eq => if Z.even f then f else f + 1
  end.
Definition e9 : positive := 1000000000%positive.
Definition round9 (q : Q) : Q := Qred (Qmake (q_rhe (q * (Zpos e9 # 1))%Q) e9).

Definition eval_unop (op : unop) (a : sval) : sval :=
  match op with
  | Neg => match a with VFlt q => VFlt (fsub (Some 0%Q) q) | _ => VInt (- to_int a) end
  | Abs => match a with
           | VFlt (Some q) => VFlt (Some (if Qle_bool 0 q then q else Qred (- q)%Q))
           | VFlt None => VFlt None
           | _ => VInt (Z.abs (to_int a))
           end
  | ToInt => VInt (to_int a)
  | ToFlt => VFlt (to_flt a)
  | Ceil => match a with VFlt (Some q) => VFlt (Some (qz (Qceiling q))) | VFlt None => a
                       | _ => VFlt (to_flt a) end
  | Floor => match a with VFlt (Some q) => VFlt (Some (qz (Qfloor q))) | VFlt None => a
                        | _ => VFlt (to_flt a) end
  | Round9 => match a with VFlt (Some q) => VFlt (Some (round9 q)) | VFlt None => a
                         | _ => VFlt (to_flt a) end
  | IsNan => match a with VFlt None => VBool true | _ => VBool false end
  end.

(* ---------- lists as arrays ---------- *)
Definition zlen {A} (l : list A) : Z := Z.of_nat (length l).
Definition dflt : sval := VInt 0.
Definition nthZ (d : list sval) (i : Z) : sval := nth (Z.to_nat i) d dflt.
Fixpoint upd_nth {A} (n : nat) (l : list A) (v : A) : list A :=
  match l, n with
  | [], _ => []
  | _ :: r, O => v :: r
  | x :: r, S k => x :: upd_nth k r v
  end.
Definition updZ (d : list sval) (i : Z) (v : sval) : list sval := upd_nth (Z.to_nat i) d v.

Definition alen (a : arr) : Z := match a with A1 _ d => zlen d | A2 _ r _ _ => r end.
Definition acols (a : arr) : Z := match a with A1 _ _ => 0 | A2 _ _ c _ => c end.
Definition adt (a : arr) : dtype := match a with A1 dt _ => dt | A2 dt _ _ _ => dt end.
Definition adata (a : arr) : list sval := match a with A1 _ d => d | A2 _ _ _ d => d end.

(* Python slice bounds on an axis of length n *)
Definition norm_bound (n b : Z) : Z :=
  Z.max 0 (Z.min n (if b <? 0 then b + n else b)).
Definition slice {A} (l : list A) (lo hi : Z) : list A :=
  firstn (Z.to_nat (hi - lo)) (skipn (Z.to_nat lo) l).
Definition pyslice {A} (l : list A) (lo hi : Z) : list A :=
  let n := zlen l in slice l (norm_bound n lo) (norm_bound n hi).

Definition sum_int (l : list sval) : Z := fold_right (fun v acc => to_int v + acc) 0 l.
Definition sum_flt (l : list sval) : option Q :=
  fold_left (fun acc v => fadd acc (to_flt v)) l (Some 0%Q).
Definition sum_cells (dt : dtype) (l : list sval) : sval :=
  match dt with DFlt => VFlt (sum_flt l) | _ => VInt (sum_int l) end.

Fixpoint zrange (lo : Z) (n : nat) : list Z :=
  match n with O => [] | S k => lo :: zrange (lo + 1) k end.
Definition column (r c : Z) (d : list sval) (j : Z) : list sval :=
  map (fun i => nthZ d (i * c + j)) (zrange 0 (Z.to_nat r)).
Definition set_col (r c j : Z) (d col : list sval) : list sval :=
  flat_map (fun i => map (fun jj => if jj =? j then nthZ col i else nthZ d (i * c + jj))
                         (zrange 0 (Z.to_nat c)))
           (zrange 0 (Z.to_nat r)).

Definition gather (d idx : list sval) : list sval := map (fun v => nthZ d (to_int v)) idx.
Definition idx_ok (n : Z) (idx : list sval) : bool :=
  forallb (fun v => (0 <=? to_int v) && (to_int v <? n)) idx.
Fixpoint maskl (d m : list sval) : list sval :=
  match d, m with
  | x :: r, b :: s => if truthy b then x :: maskl r s else maskl r s
  | _, _ => []
  end.

(* stable insertion sort of (key, position); NaN keys last *)
Definition key_le (a b : option Q) : bool :=
  match a, b with
  | Some x, Some y => Qle_bool x y
  | None, Some _ => false
  | _, None => true
  end.
Fixpoint ins (k : option Q) (i : Z) (l : list (option Q * Z)) : list (option Q * Z) :=
  match l with
  | [] => [(k, i)]
  | (k', i') :: r => if key_le k' k then (k', i') :: ins k i r else (k, i) :: l
  end.
Fixpoint isort (l : list (option Q * Z)) : list (option Q * Z) :=
  match l with [] => [] | (k, i) :: r => ins k i (isort r) end.
Definition argsort (d : list sval) : list sval :=
  map (fun p => VInt (snd p))
      (isort (combine (map to_flt d) (zrange 0 (length d)))).

Fixpoint cumsum_int (acc : Z) (l : list sval) : list sval :=
  match l with [] => [] | v :: r => VInt (acc + to_int v) :: cumsum_int (acc + to_int v) r end.
Fixpoint cumsum_flt (acc : option Q) (l : list sval) : list sval :=
  match l with [] => [] | v :: r => let a := fadd acc (to_flt v) in VFlt a :: cumsum_flt a r end.

Fixpoint map2 {A B C} (f : A -> B -> C) (l : list A) (m : list B) : list C :=
  match l, m with x :: r, y :: s => f x y :: map2 f r s | _, _ => [] end.

(* named cell-wise maps (kept folded by the proof tactics) *)
Definition cmp_cells (op : cmpop) (v : sval) (d : list sval) : list sval :=
  map (fun c => VBool (eval_cmp op c v)) d.
Definition div_cells_sc (v : sval) (d : list sval) : list sval :=
  map (fun p => VFlt (fdiv (to_flt p) (to_flt v))) d.
Definition div_cells (a b : list sval) : list sval :=
  map2 (fun p q => VFlt (fdiv (to_flt p) (to_flt q))) a b.
Definition coerce_cells (dt : dtype) (d : list sval) : list sval := map (coerce dt) d.

Definition scale_cells (dt : dtype) (v : sval) (d : list sval) : list sval :=
  map (fun c => coerce dt (eval_binop Mul c v)) d.
Definition shift_left (d : list sval) : list sval :=
  match d with [] => [] | _ :: r => r ++ [last d dflt] end.
Definition col_sums (dt : dtype) (n c : Z) (d : list sval) : list sval :=
  map (fun j => sum_cells dt (column n c d j)) (zrange 0 (Z.to_nat c)).
(* new cells of column j after  a[:, j] op= (h * v | v) *)
Definition col_upd (dt : dtype) (n c j : Z) (d : list sval) (op : binop) (h : option (list sval))
           (v : sval) : list sval :=
  set_col n c j d
    (map (fun i => coerce dt (eval_binop op (nthZ d (i * c + j))
                                (match h with Some hd => eval_binop Mul (nthZ hd i) v | None => v end)))
         (zrange 0 (Z.to_nat n))).

(* ---------- store ---------- *)
Definition store := list (var * value).
Fixpoint get (st : store) (x : var) : value :=
  match st with
  | [] => Undef
  | (y, v) :: r => if String.eqb x y then v else get r x
  end.
Fixpoint set (st : store) (x : var) (v : value) : store :=
  match st with
  | [] => [(x, v)]
  | (y, w) :: r => if String.eqb x y then (y, v) :: r else (y, w) :: set r x v
  end.

Inductive err := OOB (s : site) | Uninit (x : var).
Inductive res (A : Type) := Ok (a : A) | Er (e : err).
Arguments Ok {A} a.
Arguments Er {A} e.
Definition bind {A B} (r : res A) (f : A -> res B) : res B :=
  match r with Ok a => f a | Er e => Er e end.
Notation "'do' x <- r ; k" := (bind r (fun x => k)) (at level 200, x pattern, r at level 100, k at level 200).

Definition get_sc (st : store) (x : var) : res sval :=
  match get st x with Sc v => Ok v | _ => Er (Uninit x) end.
Definition get_arr (st : store) (x : var) : res arr :=
  match get st x with Ar a => Ok a | _ => Er (Uninit x) end.
Definition in_range (i n : Z) : bool := (0 <=? i) && (i <? n).
Definition chk (b : bool) (s : site) : res unit := if b then Ok tt else Er (OOB s).

Definition slice_rows (a : arr) (lo hi : Z) : arr :=
  match a with
  | A1 dt d => A1 dt (pyslice d lo hi)
  | A2 dt r c d =>
      let l := norm_bound r lo in let h := norm_bound r hi in
      A2 dt (Z.max 0 (h - l)) c (slice d (l * c) (h * c))
  end.

Fixpoint eval (e : expr) (st : store) : res sval :=
  match e with
  | EVar x => get_sc st x
  | EInt z => Ok (VInt z)
  | EFlt q => Ok (VFlt (Some q))
  | ENan => Ok (VFlt None)
  | EBool b => Ok (VBool b)
  | EBin op a b => do va <- eval a st; do vb <- eval b st; Ok (eval_binop op va vb)
  | ECmp op a b => do va <- eval a st; do vb <- eval b st; Ok (VBool (eval_cmp op va vb))
  | EAnd a b => do va <- eval a st; if truthy va then eval b st else Ok va
  | EOr a b => do va <- eval a st; if truthy va then Ok va else eval b st
  | ENot a => do va <- eval a st; Ok (VBool (negb (truthy va)))
  | EIf c a b => do vc <- eval c st; if truthy vc then eval a st else eval b st
  | EUn op a => do va <- eval a st; Ok (eval_unop op va)
  | ELen a => do r <- get_arr st a; Ok (VInt (alen r))
  | ECols a => do r <- get_arr st a; Ok (VInt (acols r))
  | ERead1 s a i =>
      do r <- get_arr st a; do vi <- eval i st;
      let k := to_int vi in
      do _ <- chk (in_range k (alen r)) s;
      match r with
      | A1 dt d => Ok (coerce dt (nthZ d k))   (* a cell is read at the array's dtype *)
      | A2 _ _ _ _ => Er (OOB s)      (* row reads of 2-D arrays are not part of the subset *)
      end
  | ERead2 s a i j =>
      do r <- get_arr st a; do vi <- eval i st; do vj <- eval j st;
      match r with
      | A2 dt n c d =>
          do _ <- chk (in_range (to_int vi) n && in_range (to_int vj) c) s;
          Ok (coerce dt (nthZ d (to_int vi * c + to_int vj)))
      | A1 _ _ => Er (OOB s)
      end
  | ESum a lo hi =>
      do r <- get_arr st a; do vl <- eval lo st; do vh <- eval hi st;
      Ok (sum_cells (adt r) (adata (slice_rows r (to_int vl) (to_int vh))))
  | ESumCol s a lo hi j =>
      do r <- get_arr st a; do vl <- eval lo st; do vh <- eval hi st;
      match r with
      | A2 dt n c d =>
          do _ <- chk (in_range j c) s;
          Ok (sum_cells dt (pyslice (column n c d j) (to_int vl) (to_int vh)))
      | A1 _ _ => Er (OOB s)
      end
  | ESumAll a => do r <- get_arr st a; Ok (sum_cells (adt r) (adata r))
  | ESumDiff s a b =>
      do ra <- get_arr st a; do rb <- get_arr st b;
      do _ <- chk (alen ra =? alen rb) s;
      Ok (VFlt (sum_flt (map2 (fun x y => VFlt (fsub (to_flt x) (to_flt y))) (adata ra) (adata rb))))
  | EAnyColProdPos s a j1 j2 =>
      do r <- get_arr st a;
      match r with
      | A2 _ n c d =>
          do _ <- chk (in_range j1 c && in_range j2 c) s;
          Ok (VBool (existsb (fun p => eval_cmp Gt p (VInt 0))
                             (map2 (eval_binop Mul) (column n c d j1) (column n c d j2))))
      | A1 _ _ => Er (OOB s)
      end
  end.

Definition eval_arg (a : arg) (st : store) : res value :=
  match a with
  | AVar x => match get st x with Undef => Er (Uninit x) | v => Ok v end
  | AExp e => do v <- eval e st; Ok (Sc v)
  end.
Fixpoint eval_args (l : list arg) (st : store) : res (list value) :=
  match l with
  | [] => Ok []
  | a :: r => do v <- eval_arg a st; do vs <- eval_args r st; Ok (v :: vs)
  end.

Definition assign_target (t : target) (v : value) (st : store) : res store :=
  match t with
  | TVar x => Ok (set st x v)
  | TCol s a j =>
      do r <- get_arr st a;
      match r, v with
      | A2 dt n c d, Ar (A1 _ col) =>
          do _ <- chk (in_range j c && (zlen col =? n)) s;
          Ok (set st a (Ar (A2 dt n c (set_col n c j d (coerce_cells dt col)))))
      | _, _ => Er (OOB s)
      end
  end.
Fixpoint assign_targets (ts : list target) (vs : list value) (st : store) : res store :=
  match ts, vs with
  | [], _ => Ok st
  | t :: r, v :: w => do st' <- assign_target t v st; assign_targets r w st'
  | t :: _, [] => match t with TVar x => Er (Uninit x) | TCol _ a _ => Er (Uninit a) end
  end.

Inductive outcome :=
| Normal (st : store)
| Break (st : store)
| Return (vs : list value)
| Err (e : err)
| OutOfFuel.

Fixpoint find_func (env : list func) (f : string) : option func :=
  match env with
  | [] => None
  | g :: r => if String.eqb f (fname g) then Some g else find_func r f
  end.

Definition init_store (f : func) (args : list value) : store :=
  combine (fparams f) (args ++ repeat Undef (length (fparams f) - length args))
  ++ map (fun x => (x, Undef)) (flocals f).

Definition zeros (dt : dtype) (n : Z) (fill : sval) : list sval :=
  repeat (coerce dt fill) (Z.to_nat n).

Section Exec.
Variable env : list func.

Fixpoint exec (fuel : nat) (c : stmt) (st : store) {struct fuel} : outcome :=
  match fuel with
  | O => OutOfFuel
  | S f =>
    match c with
    | SSkip => Normal st
    | SAssign x e =>
        match eval e st with Ok v => Normal (set st x (Sc v)) | Er e => Err e end
    | SStore1 s a i e =>
        match (do r <- get_arr st a; do vi <- eval i st; do v <- eval e st;
               match r with
               | A1 dt d =>
                   do _ <- chk (in_range (to_int vi) (zlen d)) s;
                   Ok (set st a (Ar (A1 dt (updZ d (to_int vi) (coerce dt v)))))
               | A2 _ _ _ _ => Er (OOB s)
               end) with
        | Ok st' => Normal st' | Er e => Err e end
    | SStore2 s a i j e =>
        match (do r <- get_arr st a; do vi <- eval i st; do vj <- eval j st; do v <- eval e st;
               match r with
               | A2 dt n c d =>
                   do _ <- chk (in_range (to_int vi) n && in_range (to_int vj) c) s;
                   Ok (set st a (Ar (A2 dt n c (updZ d (to_int vi * c + to_int vj) (coerce dt v)))))
               | A1 _ _ => Er (OOB s)
               end) with
        | Ok st' => Normal st' | Er e => Err e end
    | SNew1 x dt n fill =>
        match (do vn <- eval n st; do vf <- eval fill st;
               Ok (set st x (Ar (A1 dt (zeros dt (to_int vn) vf))))) with
        | Ok st' => Normal st' | Er e => Err e end
    | SNew2 x dt r cc fill =>
        match (do vr <- eval r st; do vc <- eval cc st; do vf <- eval fill st;
               let n := Z.max 0 (to_int vr) in let k := Z.max 0 (to_int vc) in
               Ok (set st x (Ar (A2 dt n k (zeros dt (n * k) vf))))) with
        | Ok st' => Normal st' | Er e => Err e end
    | SSlice x b lo hi =>
        match (do r <- get_arr st b; do vl <- eval lo st; do vh <- eval hi st;
               Ok (set st x (Ar (slice_rows r (to_int vl) (to_int vh))))) with
        | Ok st' => Normal st' | Er e => Err e end
    | SGather s x b idx =>
        match (do r <- get_arr st b; do ri <- get_arr st idx;
               match r, ri with
               | A1 dt d, A1 _ ix =>
                   do _ <- chk (idx_ok (zlen d) ix) s;
                   Ok (set st x (Ar (A1 dt (gather d ix))))
               | _, _ => Er (OOB s)
               end) with
        | Ok st' => Normal st' | Er e => Err e end
    | SMask s x b m =>
        match (do r <- get_arr st b; do rm <- get_arr st m;
               match r, rm with
               | A1 dt d, A1 _ mk =>
                   do _ <- chk (zlen d =? zlen mk) s;
                   Ok (set st x (Ar (A1 dt (maskl d mk))))
               | _, _ => Er (OOB s)
               end) with
        | Ok st' => Normal st' | Er e => Err e end
    | SCmpArr x op b e =>
        match (do r <- get_arr st b; do v <- eval e st;
               Ok (set st x (Ar (A1 DBool (cmp_cells op v (adata r)))))) with
        | Ok st' => Normal st' | Er e => Err e end
    | SArgsort x b =>
        match (do r <- get_arr st b; Ok (set st x (Ar (A1 DInt (argsort (adata r)))))) with
        | Ok st' => Normal st' | Er e => Err e end
    | SCumsum x b =>
        match (do r <- get_arr st b;
               Ok (set st x (Ar (A1 (adt r)
                     (match adt r with
                      | DFlt => cumsum_flt (Some 0%Q) (adata r)
                      | _ => cumsum_int 0 (adata r) end))))) with
        | Ok st' => Normal st' | Er e => Err e end
    | SArrDiv s x a b =>
        match (do ra <- get_arr st a; do rb <- get_arr st b;
               do _ <- chk ((alen ra =? alen rb) && (acols ra =? acols rb)) s;
               let d := div_cells (adata ra) (adata rb) in
               Ok (set st x (Ar (match ra with A1 _ _ => A1 DFlt d | A2 _ r c _ => A2 DFlt r c d end)))) with
        | Ok st' => Normal st' | Er e => Err e end
    | SArrDivSc x a e =>
        match (do ra <- get_arr st a; do v <- eval e st;
               let d := div_cells_sc v (adata ra) in
               Ok (set st x (Ar (match ra with A1 _ _ => A1 DFlt d | A2 _ r c _ => A2 DFlt r c d end)))) with
        | Ok st' => Normal st' | Er e => Err e end
    | SArrScale a e =>
        match (do ra <- get_arr st a; do v <- eval e st;
               Ok (set st a (Ar (match ra with
                                 | A1 dt d => A1 dt (scale_cells dt v d)
                                 | A2 dt r c d => A2 dt r c (scale_cells dt v d) end)))) with
        | Ok st' => Normal st' | Er e => Err e end
    | SShiftLeft a =>
        match (do ra <- get_arr st a;
               match ra with
               | A1 dt d => Ok (set st a (Ar (A1 dt (shift_left d))))
               | A2 _ _ _ _ => Er (Uninit a)
               end) with
        | Ok st' => Normal st' | Er e => Err e end
    | SColSums x a =>
        match (do ra <- get_arr st a;
               match ra with
               | A2 dt n c d => Ok (set st x (Ar (A1 dt (col_sums dt n c d))))
               | A1 _ _ => Er (Uninit a)
               end) with
        | Ok st' => Normal st' | Er e => Err e end
    | SColUpd s a j op h e =>
        match (do ra <- get_arr st a; do vj <- eval j st; do v <- eval e st;
               match ra with
               | A2 dt n c d =>
                   do _ <- chk (in_range (to_int vj) c) s;
                   match h with
                   | None => Ok (set st a (Ar (A2 dt n c (col_upd dt n c (to_int vj) d op None v))))
                   | Some hv =>
                       do rh <- get_arr st hv;
                       match rh with
                       | A1 _ hd =>
                           do _ <- chk (zlen hd =? n) s;
                           Ok (set st a (Ar (A2 dt n c (col_upd dt n c (to_int vj) d op (Some hd) v))))
                       | A2 _ _ _ _ => Er (OOB s)
                       end
                   end
               | A1 _ _ => Er (OOB s)
               end) with
        | Ok st' => Normal st' | Er e => Err e end
    | SCall _ ts fn args =>
        match find_func env fn with
        | None => Err (Uninit fn)
        | Some g =>
            match eval_args args st with
            | Er e => Err e
            | Ok vs =>
                match exec f (fbody g) (init_store g vs) with
                | Return rs =>
                    match assign_targets ts rs st with Ok st' => Normal st' | Er e => Err e end
                | Normal _ | Break _ =>
                    match assign_targets ts [] st with Ok st' => Normal st' | Er e => Err e end
                | Err e => Err e
                | OutOfFuel => OutOfFuel
                end
            end
        end
    | SSeq a b =>
        match exec f a st with
        | Normal st' => exec f b st'
        | o => o
        end
    | SIf _ c a b =>
        match eval c st with
        | Er e => Err e
        | Ok v => if truthy v then exec f a st else exec f b st
        end
    | SWhile l c b =>
        match eval c st with
        | Er e => Err e
        | Ok v =>
            if truthy v then
              match exec f b st with
              | Normal st' => exec f (SWhile l c b) st'
              | Break st' => Normal st'
              | o => o
              end
            else Normal st
        end
    | SFor l x lo hi b =>
        match eval lo st with
        | Er e => Err e
        | Ok vl =>
            match eval hi st with
            | Er e => Err e
            | Ok vh => exec f (SForRun l x (to_int vl) (to_int vh) b) st
            end
        end
    | SForRun l x i hi b =>
        if i <? hi then
          match exec f b (set st x (Sc (VInt i))) with
          | Normal st' => exec f (SForRun l x (i + 1) hi b) st'
          | Break st' => Normal st'
          | o => o
          end
        else Normal st
    | SBreak => Break st
    | SReturn rs =>
        match eval_args rs st with Ok vs => Return vs | Er e => Err e end
    end
  end.

(* a call from outside: bind the parameters, run the body; falling off the end returns () *)
Definition run (fuel : nat) (g : func) (args : list value) : outcome :=
  match exec fuel (fbody g) (init_store g args) with
  | Normal _ | Break _ => Return []
  | o => o
  end.

End Exec.

Definition safe_outcome (o : outcome) : Prop := match o with Err _ => False | _ => True end.
