(* Jit.Total: termination layer for the Jit.Lang interpreter.

   (a) fuel monotonicity: an outcome other than [OutOfFuel] is stable under more fuel
       ([exec_mono], [run_mono], [run_return_mono]).
   (b) a TOTAL-correctness weakest precondition [twp], mirroring [Safety.wp].  It reuses the
       annotation oracle [ann : nat -> annot] of the partial calculus unchanged (same [ALoop mods fact]
       invariants, same cut points, same for-loop rule: a for loop needs no variant, its trip count
       is hi - lo) and takes a second oracle [vnt : nat -> store -> Z] giving an integer VARIANT for
       each [SWhile] label: at the head of an iteration that is entered the variant is >= 0, and the
       state in which the body ends normally has a strictly smaller variant.  A call requires a total
       contract of the callee ([callee_total]).
       [twp_sound]: twp c Q st -> exists fuel, post_holds_total (exec env fuel c st) Q
       where [post_holds_total] rejects [OutOfFuel] as well as [Err].
       With the trivial postcondition, [twp] is a termination(-and-safety)-only calculus
       ([run_terminates]); with a functional postcondition it is total correctness ([run_total]).
   (c) combination: a partial-correctness theorem (for all fuel: Return rs -> R rs, OutOfFuel allowed,
       nothing else) and termination (some fuel does not run out) give
       exists fuel rs, run fuel k args = Return rs /\ R rs   ([total_of_partial]). *)
From Coq Require Import ZArith QArith String List Bool Lia.
From Verif Require Import Jit.Lang Jit.Interp Jit.Safety Jit.Tactics.
Import ListNotations.
Open Scope Z_scope.

(* ---------- (a) fuel monotonicity ---------- *)
Section Mono.
Variable env : list func.

Ltac mono_step IH f' L' :=
  match goal with
  | H : context [exec env ?f ?c ?st] |- _ =>
      let N := fresh "N" in
      assert (N : exec env f c st <> OutOfFuel) by (intro N; rewrite N in H; apply H; reflexivity);
      rewrite (IH c st N f' L'); clear N;
      revert H; destruct (exec env f c st); intro H;
      try reflexivity; try (exfalso; apply H; reflexivity)
  end.

Lemma exec_mono : forall f c st, exec env f c st <> OutOfFuel ->
  forall f', (f <= f')%nat -> exec env f' c st = exec env f c st.
Proof.
  induction f as [|f IH]; intros c st H f' L; [exfalso; apply H; reflexivity|].
  destruct f' as [|f']; [lia|]. assert (L' : (f <= f')%nat) by lia.
  destruct c; cbn [exec] in H |- *; try reflexivity.
  - (* SCall *)
    destruct (find_func env f0) as [g|]; [|reflexivity].
    destruct (eval_args args st) as [vs|e]; [|reflexivity].
    mono_step IH f' L'.
  - (* SSeq *)
    mono_step IH f' L'. apply IH; assumption.
  - (* SIf *)
    destruct (eval c1 st) as [v|e]; [|reflexivity].
    destruct (truthy v); apply IH; assumption.
  - (* SWhile *)
    destruct (eval c st) as [v|e]; [|reflexivity].
    destruct (truthy v); [|reflexivity].
    mono_step IH f' L'. apply IH; assumption.
  - (* SFor *)
    destruct (eval lo st) as [vl|e]; [|reflexivity].
    destruct (eval hi st) as [vh|e]; [|reflexivity].
    apply IH; assumption.
  - (* SForRun *)
    destruct (i <? hi); [|reflexivity].
    mono_step IH f' L'. apply IH; assumption.
Qed.

Lemma exec_mono_eq : forall f c st o, exec env f c st = o -> o <> OutOfFuel ->
  forall f', (f <= f')%nat -> exec env f' c st = o.
Proof. intros f c st o E N f' L. subst o. apply exec_mono; assumption. Qed.

Lemma run_mono : forall f g args, run env f g args <> OutOfFuel ->
  forall f', (f <= f')%nat -> run env f' g args = run env f g args.
Proof.
  intros f g args H f' L. unfold run in *.
  assert (N : exec env f (fbody g) (init_store g args) <> OutOfFuel).
  { intro N. rewrite N in H. apply H. reflexivity. }
  rewrite (exec_mono _ _ _ N f' L). reflexivity.
Qed.

Lemma run_return_mono : forall f g args rs, run env f g args = Return rs ->
  forall f', (f <= f')%nat -> run env f' g args = Return rs.
Proof.
  intros f g args rs H f' L. rewrite <- H. apply run_mono; [|exact L]. rewrite H. discriminate.
Qed.

(* two runs that do not exhaust their fuel agree *)
Lemma run_deterministic : forall f1 f2 g args,
  run env f1 g args <> OutOfFuel -> run env f2 g args <> OutOfFuel ->
  run env f1 g args = run env f2 g args.
Proof.
  intros f1 f2 g args H1 H2.
  rewrite <- (run_mono f1 g args H1 (Nat.max f1 f2)) by lia.
  rewrite <- (run_mono f2 g args H2 (Nat.max f1 f2)) by lia. reflexivity.
Qed.

(* ---------- (c) partial correctness + termination = total correctness ---------- *)
Lemma total_of_partial : forall g args (R : list value -> Prop),
  (forall fuel, match run env fuel g args with
                | Return rs => R rs | OutOfFuel => True | _ => False end) ->
  (exists fuel, run env fuel g args <> OutOfFuel) ->
  exists fuel rs, run env fuel g args = Return rs /\ R rs.
Proof.
  intros g args R P [fuel T]. specialize (P fuel). exists fuel.
  destruct (run env fuel g args) as [s|s|rs|e|]; try contradiction;
    try (exfalso; apply T; reflexivity).
  exists rs. split; [reflexivity | exact P].
Qed.

Corollary total_of_partial_eq : forall g args v,
  (forall fuel, match run env fuel g args with
                | Return rs => rs = v | OutOfFuel => True | _ => False end) ->
  (exists fuel, run env fuel g args <> OutOfFuel) ->
  exists fuel, run env fuel g args = Return v.
Proof.
  intros g args v P T. destruct (total_of_partial g args (fun rs => rs = v) P T) as [fuel [rs [E ->]]].
  exists fuel. exact E.
Qed.

(* [run] never yields [Normal] or [Break] *)
Lemma run_cases : forall f g args,
  match run env f g args with Normal _ | Break _ => False | _ => True end.
Proof. intros f g args. unfold run. destruct (exec env f (fbody g) (init_store g args)); exact I. Qed.

(* the same for statements in the form produced by [Safety.run_sound] *)
Lemma total_of_partial_weak : forall g args (R : list value -> Prop),
  (forall fuel, match run env fuel g args with
                | Err _ => False | Return rs => R rs | _ => True end) ->
  (exists fuel, run env fuel g args <> OutOfFuel) ->
  exists fuel rs, run env fuel g args = Return rs /\ R rs.
Proof.
  intros g args R P T. apply total_of_partial; [|exact T].
  intros fuel. specialize (P fuel). pose proof (run_cases fuel g args) as C.
  destruct (run env fuel g args); try contradiction; try exact P; exact I.
Qed.

End Mono.

(* ---------- (b) total-correctness wp ---------- *)
Definition post_holds_total (o : outcome) (Q : post) : Prop :=
  match o with
  | Normal st => normal Q st
  | Break st => brk Q st
  | Return vs => ret Q vs
  | Err _ => False
  | OutOfFuel => False
  end.

Lemma post_holds_total_partial : forall o Q, post_holds_total o Q -> post_holds o Q /\ o <> OutOfFuel.
Proof. intros [s|s|rs|e|] Q H; simpl in *; try contradiction; split; try exact H; discriminate. Qed.

Lemma post_holds_total_intro : forall o Q, post_holds o Q -> o <> OutOfFuel -> post_holds_total o Q.
Proof. intros [s|s|rs|e|] Q H N; simpl in *; try exact H. apply N. reflexivity. Qed.

Section TWP.
Variable env : list func.
Variable ann : nat -> annot.
Variable vnt : nat -> store -> Z.

(* total contract of a callee *)
Definition callee_total (g : func) (pre : list value -> Prop) (sh : list rkind)
           (post : list value -> list value -> Prop) : Prop :=
  forall vs, pre vs -> exists fuel rs, run env fuel g vs = Return rs /\ conforms sh rs /\ post vs rs.

(* a partial contract plus termination on the precondition is a total contract *)
Lemma callee_total_of_meets : forall g pre sh post,
  callee_meets env g pre sh post ->
  (forall vs, pre vs -> exists fuel, run env fuel g vs <> OutOfFuel) ->
  callee_total g pre sh post.
Proof.
  intros g pre sh post M T vs HP.
  apply (total_of_partial_weak env g vs (fun rs => conforms sh rs /\ post vs rs)); [|exact (T vs HP)].
  intros fuel. exact (M fuel vs HP).
Qed.

Definition twp_leaf (c : stmt) (Q : post) (st : store) : Prop :=
  match c with
  | SCall l ts fn args =>
      match find_func env fn, ann l with
      | Some g, ACall pre sh post =>
          args_safe args st /\ pre (argvals args st) /\ callee_total g pre sh post /\
          forall_rets sh (fun rs => post (argvals args st) rs -> wp_targets ts rs st (normal Q))
      | _, _ => False
      end
  | _ => wp_leaf env ann c Q st
  end.

(* the rule of [wp_while] plus: the variant is >= 0 whenever the body is entered, and the body
   strictly decreases it when it ends normally (break and return leave the loop) *)
Definition twp_while (W : post -> store -> Prop) (l : nat) (c : expr) (Q : post) (st : store) : Prop :=
  match ann l with
  | ALoop mods fact =>
      agree mods st st /\ fact st st /\
      havoc mods st (fun s =>
        fact st s ->
        esafe c s /\
        (truthy (evalv c s) = true ->
           0 <= vnt l s /\
           W (mkPost (fun s' => agree mods st s' /\ fact st s' /\ vnt l s' < vnt l s)
                     (normal Q) (ret Q)) s) /\
        (truthy (evalv c s) = false -> normal Q s))
  | _ => False
  end.

Fixpoint twp (c : stmt) (Q : post) (st : store) {struct c} : Prop :=
  match c with
  | SSeq a b => twp a (mkPost (fun st' => twp b Q st') (brk Q) (ret Q)) st
  | SIf l c a b => wp_if ann (twp a) (twp b) l c Q st
  | SWhile l c b => twp_while (twp b) l c Q st
  | SFor l x lo hi b => wp_for ann (twp b) l x lo hi Q st
  | _ => twp_leaf c Q st
  end.

(* a leaf other than a call finishes with one unit of fuel *)
Lemma leaf_total : forall c Q st,
  match c with SCall _ _ _ _ => False | _ => True end -> is_leaf c = true ->
  wp_leaf env ann c Q st -> post_holds_total (exec env 1 c st) Q.
Proof.
  intros c Q st NC L H.
  apply post_holds_total_intro.
  - apply (wp_sound env ann). apply wp_leaf_intro; assumption.
  - destruct c; try discriminate L; try contradiction; cbn [exec];
      try match goal with
          | |- match ?X with _ => _ end <> _ => destruct X; discriminate
          end; discriminate.
Qed.

Lemma mono_total : forall f c st Q, post_holds_total (exec env f c st) Q ->
  forall f', (f <= f')%nat -> exec env f' c st = exec env f c st.
Proof.
  intros f c st Q H f' L. apply exec_mono; [|exact L].
  apply (post_holds_total_partial _ _ H).
Qed.

Theorem twp_sound : forall c Q st, twp c Q st -> exists fuel, post_holds_total (exec env fuel c st) Q.
Proof.
  induction c; intros Q st H;
    try (exists 1%nat; apply leaf_total; [exact I | reflexivity | exact H]).
  - (* SCall *)
    simpl in H. destruct (find_func env f) as [g|] eqn:EF; try contradiction.
    destruct (ann l) as [| pre sh pst |]; try contradiction.
    destruct H as [H1 [H2 [H3 H4]]].
    destruct (H3 _ H2) as [fuel [rs [Hr [C P]]]].
    pose proof (forall_rets_ok _ _ H4 _ C P) as W.
    exists (S fuel). cbn [exec]. rewrite EF, (args_safe_sound _ _ H1).
    unfold run in Hr.
    destruct (exec env fuel (fbody g) (init_store g (argvals args st))) as [s|s|rs'|e|];
      try discriminate Hr; injection Hr as <-;
      destruct (wp_targets_sound _ _ _ _ W) as [st' [E K]]; rewrite E; exact K.
  - (* SSeq *)
    simpl in H. destruct (IHc1 _ _ H) as [f1 P1].
    destruct (exec env f1 c1 st) as [s|s|rs|e|] eqn:E1; simpl in P1; try contradiction.
    + destruct (IHc2 _ _ P1) as [f2 P2].
      exists (S (Nat.max f1 f2)). cbn [exec].
      rewrite (exec_mono_eq env f1 c1 st _ E1) by (discriminate || lia).
      rewrite (mono_total f2 c2 s Q P2) by lia. exact P2.
    + exists (S f1). cbn [exec]. rewrite E1. exact P1.
    + exists (S f1). cbn [exec]. rewrite E1. exact P1.
  - (* SIf *)
    simpl in H. unfold wp_if in H. destruct (ann l) as [mods fact| |].
    + destruct H as [H1 [H2 [H3 H4]]].
      assert (J : forall o, post_holds_total o (mkPost (fun s' => agree mods st s' /\ fact st s') (brk Q) (ret Q)) ->
                            post_holds_total o Q).
      { intros [s|s|rs|e|] P; simpl in *; try exact P.
        destruct P as [A F]. exact (havoc_agree _ _ _ H4 s A F). }
      destruct (truthy (evalv c1 st)) eqn:E.
      * destruct (IHc1 _ _ (H2 eq_refl)) as [f P]. exists (S f). cbn [exec].
        rewrite (esafe_sound _ _ H1), E. apply J. exact P.
      * destruct (IHc2 _ _ (H3 eq_refl)) as [f P]. exists (S f). cbn [exec].
        rewrite (esafe_sound _ _ H1), E. apply J. exact P.
    + destruct H as [H1 [H2 H3]]. destruct (truthy (evalv c1 st)) eqn:E.
      * destruct (IHc1 _ _ (H2 eq_refl)) as [f P]. exists (S f). cbn [exec].
        rewrite (esafe_sound _ _ H1), E. exact P.
      * destruct (IHc2 _ _ (H3 eq_refl)) as [f P]. exists (S f). cbn [exec].
        rewrite (esafe_sound _ _ H1), E. exact P.
    + destruct H as [H1 [H2 H3]]. destruct (truthy (evalv c1 st)) eqn:E.
      * destruct (IHc1 _ _ (H2 eq_refl)) as [f P]. exists (S f). cbn [exec].
        rewrite (esafe_sound _ _ H1), E. exact P.
      * destruct (IHc2 _ _ (H3 eq_refl)) as [f P]. exists (S f). cbn [exec].
        rewrite (esafe_sound _ _ H1), E. exact P.
  - (* SWhile *)
    simpl in H. unfold twp_while in H.
    destruct (ann l) as [mods fact| |]; try contradiction.
    destruct H as [HA [HF HH]].
    assert (L : forall n s, agree mods st s -> fact st s -> vnt l s < Z.of_nat n ->
                exists fuel, post_holds_total (exec env fuel (SWhile l c c0) s) Q).
    { induction n as [|n IHn]; intros s A F Hv;
        pose proof (havoc_agree _ _ _ HH s A F) as [S1 [S2 S3]];
        destruct (truthy (evalv c s)) eqn:E.
      - destruct (S2 eq_refl) as [V0 _]. simpl in Hv. lia.
      - exists 1%nat. cbn [exec]. rewrite (esafe_sound _ _ S1), E. exact (S3 eq_refl).
      - destruct (S2 eq_refl) as [V0 W].
        destruct (IHc _ _ W) as [fb P].
        destruct (exec env fb c0 s) as [s'|s'|rs|e|] eqn:Eb; simpl in P; try contradiction.
        + destruct P as [A' [F' V']].
          destruct (IHn s' A' F' ltac:(lia)) as [fw Pw].
          exists (S (Nat.max fb fw)). cbn [exec]. rewrite (esafe_sound _ _ S1), E.
          rewrite (exec_mono_eq env fb c0 s _ Eb) by (discriminate || lia).
          rewrite (mono_total fw _ s' Q Pw) by lia. exact Pw.
        + exists (S fb). cbn [exec]. rewrite (esafe_sound _ _ S1), E, Eb. exact P.
        + exists (S fb). cbn [exec]. rewrite (esafe_sound _ _ S1), E, Eb. exact P.
      - exists 1%nat. cbn [exec]. rewrite (esafe_sound _ _ S1), E. exact (S3 eq_refl). }
    apply (L (Z.to_nat (vnt l st + 1)) st HA HF). lia.
  - (* SFor *)
    simpl in H. unfold wp_for in H.
    destruct (ann l) as [mods fact| |]; try contradiction.
    destruct H as [H1 [H2 [H3 H4]]].
    set (a := to_int (evalv lo st)) in *. set (h := to_int (evalv hi st)) in *.
    assert (L : forall n i s, a <= i < h -> h - i <= Z.of_nat n ->
                agree mods st (set s x (Sc (VInt i))) -> fact st (set s x (Sc (VInt i))) ->
                exists fuel, post_holds_total (exec env fuel (SForRun l x i h c) s) Q).
    { induction n as [|n IHn]; intros i s Hi Hn A F; [simpl in Hn; lia|].
      assert (E : (i <? h) = true) by (apply Z.ltb_lt; lia).
      destruct (H4 ltac:(lia)) as [_ [_ [HH HX]]].
      pose proof (havoc_agree _ _ _ HH _ A) as W. simpl in W.
      unfold getsc in W. rewrite get_set_same in W. simpl in W.
      specialize (W eq_refl Hi F).
      destruct (IHc _ _ W) as [fb P].
      destruct (exec env fb c (set s x (Sc (VInt i)))) as [s'|s'|rs|e|] eqn:Eb; simpl in P;
        try contradiction.
      - destruct P as [P0 [P1 P2]].
        destruct (Z_lt_le_dec (i + 1) h) as [Hlt|Hge].
        + destruct (IHn (i + 1) s' ltac:(lia) ltac:(lia) P1 P2) as [fw Pw].
          exists (S (Nat.max fb fw)). cbn [exec]. rewrite E.
          rewrite (exec_mono_eq env fb c _ _ Eb) by (discriminate || lia).
          rewrite (mono_total fw _ s' Q Pw) by lia. exact Pw.
        + exists (S (S fb)). cbn [exec]. rewrite E.
          assert (Eb' : exec env (S fb) c (set s x (Sc (VInt i))) = Normal s').
          { apply (exec_mono_eq env fb); [exact Eb | discriminate | lia]. }
          cbn [exec] in Eb'. rewrite Eb'.
          assert (E' : (i + 1 <? h) = false) by (apply Z.ltb_ge; lia). rewrite E'.
          assert (Eh : i + 1 = h) by lia. rewrite Eh in P2.
          exact (havoc_agree _ _ _ HX s' P0 P2).
      - exists (S fb). cbn [exec]. rewrite E, Eb. exact P.
      - exists (S fb). cbn [exec]. rewrite E, Eb. exact P. }
    destruct (Z_lt_le_dec a h) as [Hah|Hah].
    + destruct (H4 Hah) as [A [F _]].
      destruct (L (Z.to_nat (h - a)) a st ltac:(lia) ltac:(lia) A F) as [fuel P].
      exists (S fuel). cbn [exec]. rewrite (esafe_sound _ _ H1), (esafe_sound _ _ H2). exact P.
    + exists 2%nat. cbn [exec]. rewrite (esafe_sound _ _ H1), (esafe_sound _ _ H2).
      fold a h. assert (E : (a <? h) = false) by (apply Z.ltb_ge; lia). rewrite E. exact (H3 Hah).
    (* SForRun: its wp is False, closed with the leaves *)
Qed.

(* sanity of the calculus: a loop that never ends has no total wp, whatever the annotations *)
Lemma spin_out_of_fuel : forall fuel l st, exec env fuel (SWhile l (EBool true) SSkip) st = OutOfFuel.
Proof.
  induction fuel as [|f IH]; intros l st; [reflexivity|].
  cbn [exec eval truthy]. destruct f as [|f']; [reflexivity|]. cbn [exec] in IH |- *. apply IH.
Qed.

Corollary twp_rejects_spin : forall l Q st, ~ twp (SWhile l (EBool true) SSkip) Q st.
Proof.
  intros l Q st H. destruct (twp_sound _ _ _ H) as [fuel P].
  rewrite spin_out_of_fuel in P. exact P.
Qed.

(* whole-function forms *)
Theorem run_total : forall g (R : list value -> Prop) args,
  twp (fbody g) (mkPost (fun _ => R []) (fun _ => R []) R) (init_store g args) ->
  exists fuel rs, run env fuel g args = Return rs /\ R rs.
Proof.
  intros g R args H. destruct (twp_sound _ _ _ H) as [fuel P]. exists fuel. unfold run.
  destruct (exec env fuel (fbody g) (init_store g args)) as [s|s|rs|e|]; simpl in P; try contradiction.
  - exists []. split; [reflexivity | exact P].
  - exists []. split; [reflexivity | exact P].
  - exists rs. split; [reflexivity | exact P].
Qed.

Corollary run_terminates : forall g args,
  twp (fbody g) (mkPost (fun _ => True) (fun _ => True) (fun _ => True)) (init_store g args) ->
  exists fuel, run env fuel g args <> OutOfFuel.
Proof.
  intros g args H. destruct (run_total g (fun _ => True) args H) as [fuel [rs [E _]]].
  exists fuel. rewrite E. discriminate.
Qed.

(* total correctness implies the partial statement at every fuel *)
Corollary run_total_partial : forall g (R : list value -> Prop) args,
  twp (fbody g) (mkPost (fun _ => R []) (fun _ => R []) R) (init_store g args) ->
  forall fuel, match run env fuel g args with
               | Return rs => R rs | OutOfFuel => True | _ => False end.
Proof.
  intros g R args H fuel. destruct (run_total g R args H) as [f0 [rs [E HR]]].
  destruct (run env fuel g args) as [s|s|rs'|e|] eqn:E'; try exact I.
  - assert (X : run env f0 g args = run env fuel g args).
    { apply run_deterministic; [rewrite E | rewrite E']; discriminate. }
    rewrite E, E' in X. discriminate X.
  - assert (X : run env f0 g args = run env fuel g args).
    { apply run_deterministic; [rewrite E | rewrite E']; discriminate. }
    rewrite E, E' in X. discriminate X.
  - assert (X : run env f0 g args = run env fuel g args).
    { apply run_deterministic; [rewrite E | rewrite E']; discriminate. }
    rewrite E, E' in X. injection X as <-. exact HR.
  - assert (X : run env f0 g args = run env fuel g args).
    { apply run_deterministic; [rewrite E | rewrite E']; discriminate. }
    rewrite E, E' in X. discriminate X.
Qed.

End TWP.

(* ---------- tactics for the per-kernel termination proofs ---------- *)
(* as [Tactics.wp_compute], with the total rules and the variant oracle unfolded *)
Ltac twp_compute k annf vntf :=
  lazy beta iota zeta delta [twp twp_leaf twp_while wp_leaf wp_for wp_if esafe evalv seq fbody k annf vntf
     init_store fparams flocals combine app map repeat length Nat.sub get set String.eqb Ascii.eqb Bool.eqb
     getsc getar getZ getD havoc forall_kind agree find_kind kind_ok same_shape normal brk ret args_safe
     arg_safe argvals argval wp_targets fname is_sc is_ar alen acols adt adata forall_rets slice_rows];
  cbn [to_int to_flt truthy eval_cmp eval_binop eval_unop is_flt orb binop_int binop_flt cmp_int coerce negb sum_cells].

(* entry point: goal [exists fuel, run env fuel k args <> OutOfFuel] with concrete-shaped [args] *)
Ltac term_start k annf vntf :=
  apply run_terminates with (ann := annf) (vnt := vntf);
  twp_compute k annf vntf.

Print Assumptions exec_mono.
Print Assumptions twp_sound.
Print Assumptions run_total.
Print Assumptions total_of_partial.
