(* Jit.ArrayFacts: facts about integer arrays used by the safety proofs of the kernels whose
   indices come out of arrays (counts per epoch, index arrays): non-negative integer cells,
   sums and prefix sums, index arrays whose filled prefix is in range. *)
From Coq Require Import ZArith QArith String List Bool Lia.
From Verif Require Import Jit.Lang Jit.Interp Jit.Safety Jit.Tactics.
Import ListNotations.
Open Scope Z_scope.

Definition nn_int (v : sval) : Prop := exists z, v = VInt z /\ 0 <= z.
Definition nonneg_ints (d : list sval) : Prop := Forall nn_int d.

(* ---------- basic list facts ---------- *)
Lemma nthZ_nil : forall i, nthZ [] i = dflt.
Proof. intros; unfold nthZ; destruct (Z.to_nat i); reflexivity. Qed.

Lemma zlen_cons : forall {A} (x : A) l, zlen (x :: l) = zlen l + 1.
Proof. intros; unfold zlen; simpl length; lia. Qed.
Lemma zlen_nil : forall {A}, zlen (@nil A) = 0.
Proof. reflexivity. Qed.

Lemma nthZ_cons_0 : forall x l, nthZ (x :: l) 0 = x.
Proof. reflexivity. Qed.
Lemma nthZ_cons_S : forall x l i, 0 < i -> nthZ (x :: l) i = nthZ l (i - 1).
Proof.
  intros. unfold nthZ. replace (Z.to_nat i) with (S (Z.to_nat (i - 1))) by lia. reflexivity.
Qed.

Lemma updZ_cons_0 : forall x l v, updZ (x :: l) 0 v = v :: l.
Proof. reflexivity. Qed.
Lemma updZ_cons_S : forall x l i v, 0 < i -> updZ (x :: l) i v = x :: updZ l (i - 1) v.
Proof.
  intros. unfold updZ. replace (Z.to_nat i) with (S (Z.to_nat (i - 1))) by lia. reflexivity.
Qed.

Lemma nonneg_nth : forall d k, nonneg_ints d -> nn_int (nthZ d k).
Proof.
  intros d k H. unfold nthZ. destruct (nth_in_or_default (Z.to_nat k) d dflt) as [I|E].
  - eapply Forall_forall in H; eauto.
  - rewrite E. exists 0. split; [reflexivity | lia].
Qed.

Lemma nonneg_zeros : forall n, nonneg_ints (zeros DInt n (VInt 0)).
Proof.
  intros. unfold zeros, nonneg_ints. apply Forall_forall. intros x Hx.
  apply repeat_spec in Hx. subst. exists 0. split; [reflexivity | lia].
Qed.

Lemma sum_int_zeros : forall n, sum_int (zeros DInt n (VInt 0)) = 0.
Proof.
  intros. unfold zeros, sum_int. change (coerce DInt (VInt 0)) with (VInt 0).
  induction (Z.to_nat n) as [|m IH]; simpl; [reflexivity|].
  rewrite IH. reflexivity.
Qed.

Lemma sum_int_cons : forall v l, sum_int (v :: l) = to_int v + sum_int l.
Proof. reflexivity. Qed.
Lemma sum_int_nil : sum_int [] = 0.
Proof. reflexivity. Qed.

Lemma sum_int_updZ : forall d k v, 0 <= k < zlen d ->
  sum_int (updZ d k v) = sum_int d - to_int (nthZ d k) + to_int v.
Proof.
  induction d as [|x r IH]; intros k v H.
  - unfold zlen in H; simpl in H; lia.
  - rewrite zlen_cons in H. destruct (Z.eq_dec k 0) as [->|N].
    + rewrite updZ_cons_0, nthZ_cons_0, !sum_int_cons. lia.
    + rewrite updZ_cons_S, nthZ_cons_S, !sum_int_cons by lia. rewrite IH by lia. lia.
Qed.

Lemma nonneg_updZ : forall d k z, nonneg_ints d -> 0 <= z -> nonneg_ints (updZ d k (VInt z)).
Proof.
  unfold nonneg_ints, updZ. intros d k z H Hz. generalize (Z.to_nat k). clear k.
  induction H as [|x r Hx Hr IH]; intros n; destruct n; simpl; constructor; auto.
  exists z; auto.
Qed.

Lemma nonneg_sum : forall d, nonneg_ints d -> 0 <= sum_int d.
Proof.
  induction 1 as [|x r [z [-> Hz]] Hr IH]; [rewrite sum_int_nil; lia|].
  rewrite sum_int_cons. simpl. lia.
Qed.

(* the increment count[k] += 1 on a cell that is an integer *)
Lemma incr_cell : forall d k, nonneg_ints d ->
  to_int (eval_binop Add (nthZ d k) (VInt 1)) = to_int (nthZ d k) + 1.
Proof.
  intros d k H. destruct (nonneg_nth d k H) as [z [-> _]]. reflexivity.
Qed.

(* ---------- counts: non-negative integer cells with a known total ---------- *)
Definition cnt_inv (d : list sval) (x : Z) : Prop := nonneg_ints d /\ sum_int d = x.

Lemma cnt_inv_zeros : forall n, cnt_inv (zeros DInt n (VInt 0)) 0.
Proof. intros; split; [apply nonneg_zeros | apply sum_int_zeros]. Qed.

Lemma cnt_inv_incr : forall d x k, cnt_inv d x -> 0 <= k < zlen d ->
  cnt_inv (updZ d k (VInt (to_int (nthZ d k) + 1))) (x + 1).
Proof.
  intros d x k [N S] Hk.
  destruct (nonneg_nth d k N) as [z [E Hz]]. split.
  - apply nonneg_updZ; [assumption | rewrite E; simpl; lia].
  - rewrite sum_int_updZ by assumption. simpl. lia.
Qed.

Lemma nonneg_nth_int : forall d k, nonneg_ints d -> 0 <= to_int (nthZ d k).
Proof. intros d k H. destruct (nonneg_nth d k H) as [z [-> Hz]]. exact Hz. Qed.

(* ---------- prefix sums ---------- *)
Definition psum (d : list sval) (k : Z) : Z := sum_int (pyslice d 0 k).

Lemma pyslice_0 : forall {A} (d : list A) k, 0 <= k <= zlen d -> pyslice d 0 k = firstn (Z.to_nat k) d.
Proof.
  intros A d k H. unfold pyslice, slice, norm_bound.
  assert (0 <? 0 = false) by reflexivity. rewrite H0.
  assert ((k <? 0) = false) by (apply Z.ltb_ge; lia). rewrite H1.
  replace (Z.max 0 (Z.min (zlen d) 0)) with 0 by (pose proof (zlen_nonneg d); lia).
  replace (Z.max 0 (Z.min (zlen d) k)) with k by lia.
  simpl. f_equal. lia.
Qed.

Lemma zlen_firstn : forall {A} (d : list A) n, (n <= length d)%nat -> zlen (firstn n d) = Z.of_nat n.
Proof. intros. unfold zlen. rewrite firstn_length. lia. Qed.

Lemma zlen_pyslice_0 : forall {A} (d : list A) k, 0 <= k <= zlen d -> zlen (pyslice d 0 k) = k.
Proof.
  intros. rewrite pyslice_0 by assumption. rewrite zlen_firstn; unfold zlen in *; lia.
Qed.

Lemma firstn_snoc : forall {A} (d : list A) n dv, (n < length d)%nat ->
  firstn (S n) d = firstn n d ++ [nth n d dv].
Proof.
  induction d as [|x r IH]; intros n dv H; simpl in H; [lia|].
  destruct n; [reflexivity|]. simpl. f_equal. apply IH. lia.
Qed.

Lemma sum_int_app : forall a b, sum_int (a ++ b) = sum_int a + sum_int b.
Proof.
  induction a as [|x r IH]; intros b; [reflexivity|].
  rewrite <- app_comm_cons, !sum_int_cons, IH. lia.
Qed.

Lemma psum_0 : forall d, psum d 0 = 0.
Proof. intros. unfold psum. rewrite pyslice_0 by (pose proof (zlen_nonneg d); lia). reflexivity. Qed.

Lemma psum_succ : forall d k, 0 <= k < zlen d -> psum d (k + 1) = psum d k + to_int (nthZ d k).
Proof.
  intros d k H. unfold psum. rewrite !pyslice_0 by lia.
  replace (Z.to_nat (k + 1)) with (S (Z.to_nat k)) by lia.
  rewrite (firstn_snoc d (Z.to_nat k) dflt) by (unfold zlen in H; lia).
  rewrite sum_int_app, sum_int_cons, sum_int_nil. unfold nthZ. lia.
Qed.

Lemma psum_all : forall d, psum d (zlen d) = sum_int d.
Proof.
  intros. unfold psum. rewrite pyslice_0 by (pose proof (zlen_nonneg d); lia).
  unfold zlen. rewrite Nat2Z.id, firstn_all. reflexivity.
Qed.

Lemma psum_nonneg : forall d k, nonneg_ints d -> 0 <= k <= zlen d -> 0 <= psum d k.
Proof.
  intros d k N H. unfold psum. rewrite pyslice_0 by assumption. apply nonneg_sum.
  unfold nonneg_ints in *. apply Forall_forall. intros x Hx.
  eapply Forall_forall in N; [exact N|]. rewrite <- (firstn_skipn (Z.to_nat k) d).
  apply in_or_app; left; exact Hx.
Qed.

(* psum d k + (rest) = total, the rest being non-negative *)
Lemma psum_le : forall d k, nonneg_ints d -> 0 <= k <= zlen d -> psum d k <= sum_int d.
Proof.
  intros d k N H. unfold psum. rewrite pyslice_0 by assumption.
  rewrite <- (firstn_skipn (Z.to_nat k) d) at 2. rewrite sum_int_app.
  assert (0 <= sum_int (skipn (Z.to_nat k) d)).
  { apply nonneg_sum. unfold nonneg_ints in *. apply Forall_forall. intros x Hx.
    eapply Forall_forall in N; [exact N|]. rewrite <- (firstn_skipn (Z.to_nat k) d).
    apply in_or_app; right; exact Hx. }
  lia.
Qed.

Lemma psum_succ_le : forall d k, nonneg_ints d -> 0 <= k < zlen d ->
  psum d k + to_int (nthZ d k) <= sum_int d.
Proof. intros. rewrite <- psum_succ by assumption. apply psum_le; [assumption | lia]. Qed.

(* ---------- index arrays: the first x cells are positions in [0, n) ---------- *)
Definition ix_inv (n : Z) (d : list sval) (x : Z) : Prop :=
  0 <= x <= zlen d /\ idx_ok n (pyslice d 0 x) = true.

Lemma ix_inv_0 : forall n d, ix_inv n d 0.
Proof.
  intros. split; [pose proof (zlen_nonneg d); lia|].
  rewrite pyslice_0 by (pose proof (zlen_nonneg d); lia). reflexivity.
Qed.

Lemma firstn_upd_nth_ge : forall {A} (d : list A) n m v, (n <= m)%nat ->
  firstn n (upd_nth m d v) = firstn n d.
Proof.
  induction d as [|x r IH]; intros n m v H; destruct n, m; simpl; try reflexivity; try lia.
  f_equal. apply IH. lia.
Qed.
Lemma nth_upd_nth_same : forall {A} (d : list A) n v dv, (n < length d)%nat -> nth n (upd_nth n d v) dv = v.
Proof.
  induction d as [|x r IH]; intros n v dv H; simpl in H; [lia|].
  destruct n; simpl; [reflexivity|]. apply IH. lia.
Qed.

Lemma idx_ok_app : forall n a b, idx_ok n (a ++ b) = idx_ok n a && idx_ok n b.
Proof. intros. unfold idx_ok. apply forallb_app. Qed.

Lemma ix_inv_step : forall n d x t, ix_inv n d x -> x < zlen d -> 0 <= t < n ->
  ix_inv n (updZ d x (VInt t)) (x + 1).
Proof.
  intros n d x t [Hx Ho] Hl Ht. split; [rewrite zlen_updZ; lia|].
  rewrite pyslice_0 by (rewrite zlen_updZ; lia). rewrite pyslice_0 in Ho by lia.
  replace (Z.to_nat (x + 1)) with (S (Z.to_nat x)) by lia.
  unfold updZ.
  rewrite (firstn_snoc _ (Z.to_nat x) dflt) by (rewrite upd_nth_length; unfold zlen in Hl; lia).
  rewrite firstn_upd_nth_ge by lia.
  rewrite nth_upd_nth_same by (unfold zlen in Hl; lia).
  rewrite idx_ok_app, Ho. unfold idx_ok. simpl forallb. cbn [to_int].
  assert ((0 <=? t) = true) by (apply Z.leb_le; lia).
  assert ((t <? n) = true) by (apply Z.ltb_lt; lia).
  rewrite H, H0. reflexivity.
Qed.

(* an index array that passed the check yields in-range positions *)
Lemma idx_ok_nth : forall n d k, idx_ok n d = true -> 0 <= k < zlen d -> 0 <= to_int (nthZ d k) < n.
Proof.
  intros n d k H Hk. unfold idx_ok in H. rewrite forallb_forall in H.
  assert (I : In (nthZ d k) d) by (unfold nthZ; apply nth_In; unfold zlen in Hk; lia).
  apply H in I. apply andb_prop in I. destruct I as [A B].
  apply Z.leb_le in A. apply Z.ltb_lt in B. lia.
Qed.

Lemma zlen_pyslice : forall {A} (l : list A) lo hi,
  zlen (pyslice l lo hi) = Z.max 0 (Z.min (norm_bound (zlen l) hi - norm_bound (zlen l) lo)
                                          (zlen l - norm_bound (zlen l) lo)).
Proof.
  intros. unfold pyslice, slice. set (n := zlen l). unfold zlen.
  rewrite firstn_length, skipn_length.
  assert (0 <= norm_bound n lo <= n) by (unfold norm_bound; pose proof (zlen_nonneg l); lia).
  assert (0 <= norm_bound n hi <= n) by (unfold norm_bound; pose proof (zlen_nonneg l); lia).
  unfold n, zlen in *. lia.
Qed.
Lemma zlen_pyslice_eq : forall {A B} (a : list A) (b : list B) lo hi,
  zlen a = zlen b -> zlen (pyslice a lo hi) = zlen (pyslice b lo hi).
Proof. intros. rewrite !zlen_pyslice, H. reflexivity. Qed.

(* ---------- leaf tactic for goals that mention cells and prefix sums of integer arrays ---------- *)
Ltac split_cnt_inv :=
  repeat match goal with
         | H : cnt_inv _ _ |- _ => let N := fresh "N" in let S := fresh "S" in destruct H as [N S]
         | H : ix_inv _ _ _ |- _ => let A := fresh "A" in let B := fresh "B" in destruct H as [A B]
         end.

Ltac pose_cell d k N :=
  lazymatch goal with
  | _ : 0 <= to_int (nthZ d k) |- _ => fail
  | _ => pose proof (nonneg_nth_int d k N); pose proof (psum_succ d k);
         pose proof (psum_succ_le d k N)
  end.
Ltac pose_psum d k N :=
  lazymatch goal with
  | _ : 0 <= k <= zlen d -> 0 <= psum d k |- _ => fail
  | _ => pose proof (psum_nonneg d k N); pose proof (psum_le d k N)
  end.

Ltac fold_psum :=
  repeat match goal with
         | |- context [sum_int (pyslice ?d 0 ?k)] => change (sum_int (pyslice d 0 k)) with (psum d k)
         | H : context [sum_int (pyslice ?d 0 ?k)] |- _ =>
             change (sum_int (pyslice d 0 k)) with (psum d k) in H
         end.

Ltac arr_facts :=
  split_cnt_inv; fold_psum;
  repeat match goal with
         | N : nonneg_ints ?d |- context [nthZ ?d ?k] => pose_cell d k N
         | N : nonneg_ints ?d, _ : context [nthZ ?d ?k] |- _ => pose_cell d k N
         | N : nonneg_ints ?d |- context [psum ?d ?k] => pose_psum d k N
         | N : nonneg_ints ?d, _ : context [psum ?d ?k] |- _ => pose_psum d k N
         end;
  repeat match goal with
         | N : nonneg_ints ?d |- _ =>
             lazymatch goal with
             | _ : psum d 0 = 0 |- _ => fail
             | _ => pose proof (psum_0 d); pose proof (psum_all d); pose proof (nonneg_sum d N)
             end
         end.

Ltac arr_arith := arr_facts; autorewrite with zlen in *; lia.

(* ---------- columns of 2-D arrays ---------- *)
Lemma zrange_nth : forall n lo k dv, (k < n)%nat -> nth k (zrange lo n) dv = lo + Z.of_nat k.
Proof.
  induction n; intros lo k dv H; [lia|]. destruct k; simpl; [lia|].
  rewrite IHn by lia. lia.
Qed.
Lemma zrange_in : forall n lo p, In p (zrange lo n) -> lo <= p < lo + Z.of_nat n.
Proof.
  induction n; simpl; intros lo p Hp; [contradiction|].
  destruct Hp as [<-|Hp]; [lia|]. apply IHn in Hp. lia.
Qed.

Lemma zlen_column : forall n c d j, zlen (column n c d j) = Z.max 0 n.
Proof. intros. unfold column, zlen. rewrite map_length, zrange_length. lia. Qed.

Lemma nthZ_column : forall n c d j k, 0 <= k < n ->
  nthZ (column n c d j) k = nthZ d (k * c + j).
Proof.
  intros n c d j k H. unfold column, nthZ at 1.
  set (g := fun i : Z => nthZ d (i * c + j)).
  rewrite (nth_indep _ dflt (g 0)) by (rewrite map_length, zrange_length; lia).
  rewrite map_nth. rewrite zrange_nth by lia. unfold g.
  replace (0 + Z.of_nat (Z.to_nat k)) with k by lia. reflexivity.
Qed.

(* blocks of constant length *)
Lemma nth_flat_map_blocks : forall {A} (f : Z -> list A) (c : nat) (l : list Z) (i jj : nat) dv d0,
  (forall p, length (f p) = c) -> (i < length l)%nat -> (jj < c)%nat ->
  nth (i * c + jj) (flat_map f l) dv = nth jj (f (nth i l d0)) dv.
Proof.
  intros A f c l. induction l as [|p r IH]; intros i jj dv d0 Hc Hi Hj; simpl in Hi; [lia|].
  simpl flat_map. destruct i.
  - simpl. rewrite app_nth1 by (rewrite Hc; lia). reflexivity.
  - rewrite app_nth2 by (rewrite Hc; simpl; lia). rewrite Hc.
    replace (S i * c + jj - c)%nat with (i * c + jj)%nat by (simpl; lia).
    simpl nth. apply IH; auto; lia.
Qed.

Lemma nthZ_set_col : forall n c j d col i jj, 0 <= i < n -> 0 <= jj < c ->
  nthZ (set_col n c j d col) (i * c + jj) = if jj =? j then nthZ col i else nthZ d (i * c + jj).
Proof.
  intros n c j d col i jj Hi Hj. unfold set_col, nthZ at 1.
  replace (Z.to_nat (i * c + jj)) with (Z.to_nat i * Z.to_nat c + Z.to_nat jj)%nat by nia.
  rewrite (nth_flat_map_blocks _ (Z.to_nat c) _ _ _ _ 0);
    [| intros; rewrite map_length, zrange_length; reflexivity | rewrite zrange_length; lia | lia].
  rewrite zrange_nth by lia.
  set (g := fun jj0 : Z => if jj0 =? j then nthZ col (0 + Z.of_nat (Z.to_nat i))
                           else nthZ d ((0 + Z.of_nat (Z.to_nat i)) * c + jj0)).
  rewrite (nth_indep _ dflt (g 0)) by (rewrite map_length, zrange_length; lia).
  change (map _ (zrange 0 (Z.to_nat c))) with (map g (zrange 0 (Z.to_nat c))).
  rewrite map_nth, zrange_nth by lia. unfold g.
  replace (0 + Z.of_nat (Z.to_nat jj)) with jj by lia.
  replace (0 + Z.of_nat (Z.to_nat i)) with i by lia. reflexivity.
Qed.

Lemma column_set_col_same : forall n c j d col, 0 <= j < c -> zlen col = n ->
  column n c (set_col n c j d col) j = col.
Proof.
  intros n c j d col Hj Hl. unfold column.
  transitivity (map (fun i => nthZ col i) (zrange 0 (Z.to_nat n))).
  - apply map_ext_in. intros i Hi. apply zrange_in in Hi.
    rewrite nthZ_set_col by lia. rewrite Z.eqb_refl. reflexivity.
  - unfold zlen in Hl. subst n. rewrite Nat2Z.id. clear Hj.
    assert (G : forall (l : list sval) pre, map (fun i => nthZ (pre ++ l) i) (zrange (Z.of_nat (length pre)) (length l)) = l).
    { induction l as [|x r IH]; intros pre; simpl; [reflexivity|]. f_equal.
      - unfold nthZ. rewrite Nat2Z.id, app_nth2 by lia. rewrite Nat.sub_diag. reflexivity.
      - specialize (IH (pre ++ [x])). rewrite <- app_assoc in IH. simpl in IH.
        rewrite app_length in IH. simpl in IH.
        replace (Z.of_nat (length pre + 1)) with (Z.of_nat (length pre) + 1) in IH by lia. exact IH. }
    exact (G col []).
Qed.

Lemma column_set_col_other : forall n c j j' d col, 0 <= j' < c -> j' <> j ->
  column n c (set_col n c j d col) j' = column n c d j'.
Proof.
  intros n c j j' d col Hj Hne. unfold column. apply map_ext_in. intros i Hi.
  apply zrange_in in Hi. rewrite nthZ_set_col by lia.
  assert ((j' =? j) = false) by (apply Z.eqb_neq; exact Hne). rewrite H. reflexivity.
Qed.

Lemma coerce_cells_nonneg : forall d, nonneg_ints d -> coerce_cells DInt d = d.
Proof.
  unfold coerce_cells. induction 1 as [|x r [z [-> Hz]] Hr IH]; simpl; [reflexivity|].
  rewrite IH. reflexivity.
Qed.

#[export] Hint Rewrite zlen_column : zlen.

(* ---------- cumulative sums, shifts, scalings, column sums ---------- *)
Lemma zlen_cumsum_int : forall d a, zlen (cumsum_int a d) = zlen d.
Proof.
  unfold zlen. induction d as [|x r IH]; intros a; [reflexivity|].
  change (cumsum_int a (x :: r)) with (VInt (a + to_int x) :: cumsum_int (a + to_int x) r).
  specialize (IH (a + to_int x)). simpl length. lia.
Qed.

Lemma nthZ_cumsum_int : forall d a k, 0 <= k < zlen d ->
  nthZ (cumsum_int a d) k = VInt (a + psum d (k + 1)).
Proof.
  induction d as [|x r IH]; intros a k H.
  - unfold zlen in H; simpl in H; lia.
  - rewrite zlen_cons in H.
    change (cumsum_int a (x :: r)) with (VInt (a + to_int x) :: cumsum_int (a + to_int x) r).
    destruct (Z.eq_dec k 0) as [->|N].
    + rewrite nthZ_cons_0. f_equal. unfold psum. rewrite pyslice_0 by (rewrite zlen_cons; pose proof (zlen_nonneg r); lia).
      change (Z.to_nat (0 + 1)) with 1%nat. simpl firstn. rewrite sum_int_cons, sum_int_nil. lia.
    + rewrite nthZ_cons_S by lia. rewrite IH by lia. f_equal.
      unfold psum. rewrite !pyslice_0 by (rewrite ?zlen_cons; lia).
      replace (Z.to_nat (k + 1)) with (S (Z.to_nat (k - 1 + 1))) by lia.
      simpl firstn. rewrite sum_int_cons. lia.
Qed.

Lemma zlen_shift_left : forall d, zlen (shift_left d) = zlen d.
Proof.
  intros [|x r]; [reflexivity|]. unfold shift_left, zlen. rewrite app_length. simpl. lia.
Qed.
Lemma zlen_scale_cells : forall dt v d, zlen (scale_cells dt v d) = zlen d.
Proof. intros; unfold scale_cells; apply zlen_map. Qed.
Lemma zlen_col_sums : forall dt n c d, zlen (col_sums dt n c d) = Z.max 0 c.
Proof. intros. unfold col_sums, zlen. rewrite map_length, zrange_length. lia. Qed.

#[export] Hint Rewrite zlen_cumsum_int zlen_shift_left zlen_scale_cells zlen_col_sums : zlen.
