(* Jit.Lang: deep embedding of the Python subset in which the 17 numba kernels are written.

   Idealisations (all part of the trusted reading of this model):
   - int64 is Z (no overflow); float64 is [option Q] (None = NaN), exact rationals, no infinities:
     a float division by zero yields NaN.
   - scalar type confusion is resolved leniently: ints, bools and floats are coerced into each
     other where an operation wants the other kind (numba would reject such a program at
     compile time; the kernels are well typed, so the coercions are never exercised in anger).
   - arrays and scalars live in the same store but are syntactically separated: an expression
     denotes a scalar; arrays are referred to by name inside reads, stores, len, slices.
   - every array access carries a [site] number given by the translator. *)
From Coq Require Import ZArith QArith String List Bool.
Import ListNotations.
Open Scope Z_scope.

Inductive sval := VInt (z : Z) | VFlt (q : option Q) | VBool (b : bool).
Inductive dtype := DInt | DFlt | DBool.

(* 1-D array: its length is the length of the cell list.
   2-D array: r rows, c columns, row-major cells (constructors always build r*c cells). *)
Inductive arr :=
| A1 (dt : dtype) (d : list sval)
| A2 (dt : dtype) (r c : Z) (d : list sval).

Inductive value := Undef | Sc (v : sval) | Ar (a : arr).

Definition var := string.
Definition site := nat.

Inductive binop := Add | Sub | Mul | Div | FloorDiv | Mod | Min | Max.
Inductive cmpop := Lt | Le | Gt | Ge | Eq | Ne.
Inductive unop := Neg | Abs | ToInt | ToFlt | Ceil | Floor | Round9 | IsNan.

Inductive expr :=
| EVar (x : var)
| EInt (z : Z)
| EFlt (q : Q)
| ENan
| EBool (b : bool)
| EBin (op : binop) (a b : expr)
| ECmp (op : cmpop) (a b : expr)
| EAnd (a b : expr)
| EOr (a b : expr)
| ENot (a : expr)
| EIf (c a b : expr)                       (* a if c else b *)
| EUn (op : unop) (a : expr)
| ELen (a : var)                           (* len(a), a.shape[0] *)
| ECols (a : var)                          (* a.shape[1] *)
| ERead1 (s : site) (a : var) (i : expr)   (* a[i] *)
| ERead2 (s : site) (a : var) (i j : expr) (* a[i, j] *)
| ESum (a : var) (lo hi : expr)            (* np.sum(a[lo:hi]), Python slice rules, never OOB *)
| ESumCol (s : site) (a : var) (lo hi : expr) (j : Z)   (* np.sum(a[lo:hi, j]); column j is checked *)
| ESumAll (a : var)                        (* np.sum(a) *)
| ESumDiff (s : site) (a b : var)          (* np.sum(a - b); shapes must agree (checked at s) *)
| EAnyColProdPos (s : site) (a : var) (j1 j2 : Z).      (* np.any((a[:, j1] * a[:, j2]) > 0) *)

Inductive arg := AVar (x : var) | AExp (e : expr).      (* AVar passes any value, arrays included *)
Inductive target := TVar (x : var) | TCol (s : site) (a : var) (j : Z).   (* x = ..., a[:, j] = ... *)

Inductive stmt :=
| SSkip
| SAssign (x : var) (e : expr)
| SStore1 (s : site) (a : var) (i e : expr)             (* a[i] = e *)
| SStore2 (s : site) (a : var) (i j e : expr)           (* a[i, j] = e *)
| SNew1 (x : var) (dt : dtype) (n fill : expr)          (* np.zeros(n) / np.full(n, v) / np.ones(n)*nan *)
| SNew2 (x : var) (dt : dtype) (r c fill : expr)        (* np.zeros((r, c)) *)
| SSlice (x b : var) (lo hi : expr)                     (* x = b[lo:hi] on axis 0 *)
| SGather (s : site) (x b idx : var)                    (* x = b[idx], every index checked at s *)
| SMask (s : site) (x b mask : var)                     (* x = b[mask]; lengths must agree (s) *)
| SCmpArr (x : var) (op : cmpop) (b : var) (e : expr)   (* x = b op e, elementwise *)
| SArgsort (x b : var)
| SCumsum (x b : var)
| SArrDiv (s : site) (x a b : var)                      (* x = a / b elementwise; shapes agree (s) *)
| SArrDivSc (x a : var) (e : expr)                      (* x = a / e *)
| SArrScale (a : var) (e : expr)                        (* a *= e *)
| SShiftLeft (a : var)                                  (* a[0:-1] = a[1:] *)
| SColSums (x a : var)                                  (* x = np.sum(a, 0), a 2-D *)
| SColUpd (s : site) (a : var) (j : expr) (op : binop) (h : option var) (e : expr)
      (* a[:, j] op= e   or   a[:, j] op= h * e  with h a 1-D array of as many cells as a has rows *)
| SCall (l : nat) (ts : list target) (f : string) (args : list arg)
| SSeq (a b : stmt)
| SIf (l : nat) (c : expr) (a b : stmt)
| SWhile (l : nat) (c : expr) (body : stmt)
| SFor (l : nat) (x : var) (lo hi : expr) (body : stmt) (* for x in range(lo, hi) *)
| SForRun (l : nat) (x : var) (i hi : Z) (body : stmt)  (* run-time form of a for loop; never generated *)
| SBreak
| SReturn (rs : list arg).

Record func := mkFunc {
  fname : string;
  fparams : list var;
  flocals : list var;
  fbody : stmt }.

(* a block of statements *)
Fixpoint seq (l : list stmt) : stmt :=
  match l with
  | [] => SSkip
  | [s] => s
  | s :: r => SSeq s (seq r)
  end.
