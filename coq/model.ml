
type nat =
| O
| S of nat

(** val fst : ('a1 * 'a2) -> 'a1 **)

let fst = function
| (x, _) -> x

(** val snd : ('a1 * 'a2) -> 'a2 **)

let snd = function
| (_, y) -> y

(** val length : 'a1 list -> nat **)

let rec length = function
| [] -> O
| _ :: l' -> S (length l')

(** val app : 'a1 list -> 'a1 list -> 'a1 list **)

let rec app l m =
  match l with
  | [] -> m
  | a :: l1 -> a :: (app l1 m)

type comparison =
| Eq
| Lt
| Gt

(** val compOpp : comparison -> comparison **)

let compOpp = function
| Eq -> Eq
| Lt -> Gt
| Gt -> Lt

(** val add : nat -> nat -> nat **)

let rec add n m =
  match n with
  | O -> m
  | S p -> S (add p m)

(** val mul : nat -> nat -> nat **)

let rec mul n m =
  match n with
  | O -> O
  | S p -> add m (mul p m)

type positive =
| XI of positive
| XO of positive
| XH

type z =
| Z0
| Zpos of positive
| Zneg of positive

module type TotalLeBool' =
 sig
  type t

  val leb : t -> t -> bool
 end

module Pos =
 struct
  (** val succ : positive -> positive **)

  let rec succ = function
  | XI p -> XO (succ p)
  | XO p -> XI p
  | XH -> XO XH

  (** val add : positive -> positive -> positive **)

  let rec add x y =
    match x with
    | XI p ->
      (match y with
       | XI q -> XO (add_carry p q)
       | XO q -> XI (add p q)
       | XH -> XO (succ p))
    | XO p ->
      (match y with
       | XI q -> XI (add p q)
       | XO q -> XO (add p q)
       | XH -> XI p)
    | XH -> (match y with
             | XI q -> XO (succ q)
             | XO q -> XI q
             | XH -> XO XH)

  (** val add_carry : positive -> positive -> positive **)

  and add_carry x y =
    match x with
    | XI p ->
      (match y with
       | XI q -> XI (add_carry p q)
       | XO q -> XO (add_carry p q)
       | XH -> XI (succ p))
    | XO p ->
      (match y with
       | XI q -> XO (add_carry p q)
       | XO q -> XI (add p q)
       | XH -> XO (succ p))
    | XH ->
      (match y with
       | XI q -> XI (succ q)
       | XO q -> XO (succ q)
       | XH -> XI XH)

  (** val pred_double : positive -> positive **)

  let rec pred_double = function
  | XI p -> XI (XO p)
  | XO p -> XI (pred_double p)
  | XH -> XH

  (** val compare_cont : comparison -> positive -> positive -> comparison **)

  let rec compare_cont r x y =
    match x with
    | XI p ->
      (match y with
       | XI q -> compare_cont r p q
       | XO q -> compare_cont Gt p q
       | XH -> Gt)
    | XO p ->
      (match y with
       | XI q -> compare_cont Lt p q
       | XO q -> compare_cont r p q
       | XH -> Gt)
    | XH -> (match y with
             | XH -> r
             | _ -> Lt)

  (** val compare : positive -> positive -> comparison **)

  let compare =
    compare_cont Eq

  (** val eqb : positive -> positive -> bool **)

  let rec eqb p q =
    match p with
    | XI p0 -> (match q with
                | XI q0 -> eqb p0 q0
                | _ -> false)
    | XO p0 -> (match q with
                | XO q0 -> eqb p0 q0
                | _ -> false)
    | XH -> (match q with
             | XH -> true
             | _ -> false)
 end

module Z =
 struct
  (** val double : z -> z **)

  let double = function
  | Z0 -> Z0
  | Zpos p -> Zpos (XO p)
  | Zneg p -> Zneg (XO p)

  (** val succ_double : z -> z **)

  let succ_double = function
  | Z0 -> Zpos XH
  | Zpos p -> Zpos (XI p)
  | Zneg p -> Zneg (Pos.pred_double p)

  (** val pred_double : z -> z **)

  let pred_double = function
  | Z0 -> Zneg XH
  | Zpos p -> Zpos (Pos.pred_double p)
  | Zneg p -> Zneg (XI p)

  (** val pos_sub : positive -> positive -> z **)

  let rec pos_sub x y =
    match x with
    | XI p ->
      (match y with
       | XI q -> double (pos_sub p q)
       | XO q -> succ_double (pos_sub p q)
       | XH -> Zpos (XO p))
    | XO p ->
      (match y with
       | XI q -> pred_double (pos_sub p q)
       | XO q -> double (pos_sub p q)
       | XH -> Zpos (Pos.pred_double p))
    | XH ->
      (match y with
       | XI q -> Zneg (XO q)
       | XO q -> Zneg (Pos.pred_double q)
       | XH -> Z0)

  (** val add : z -> z -> z **)

  let add x y =
    match x with
    | Z0 -> y
    | Zpos x' ->
      (match y with
       | Z0 -> x
       | Zpos y' -> Zpos (Pos.add x' y')
       | Zneg y' -> pos_sub x' y')
    | Zneg x' ->
      (match y with
       | Z0 -> x
       | Zpos y' -> pos_sub y' x'
       | Zneg y' -> Zneg (Pos.add x' y'))

  (** val opp : z -> z **)

  let opp = function
  | Z0 -> Z0
  | Zpos x0 -> Zneg x0
  | Zneg x0 -> Zpos x0

  (** val sub : z -> z -> z **)

  let sub m n =
    add m (opp n)

  (** val compare : z -> z -> comparison **)

  let compare x y =
    match x with
    | Z0 -> (match y with
             | Z0 -> Eq
             | Zpos _ -> Lt
             | Zneg _ -> Gt)
    | Zpos x' -> (match y with
                  | Zpos y' -> Pos.compare x' y'
                  | _ -> Gt)
    | Zneg x' ->
      (match y with
       | Zneg y' -> compOpp (Pos.compare x' y')
       | _ -> Lt)

  (** val leb : z -> z -> bool **)

  let leb x y =
    match compare x y with
    | Gt -> false
    | _ -> true

  (** val ltb : z -> z -> bool **)

  let ltb x y =
    match compare x y with
    | Lt -> true
    | _ -> false

  (** val eqb : z -> z -> bool **)

  let eqb x y =
    match x with
    | Z0 -> (match y with
             | Z0 -> true
             | _ -> false)
    | Zpos p -> (match y with
                 | Zpos q -> Pos.eqb p q
                 | _ -> false)
    | Zneg p -> (match y with
                 | Zneg q -> Pos.eqb p q
                 | _ -> false)

  (** val max : z -> z -> z **)

  let max n m =
    match compare n m with
    | Lt -> m
    | _ -> n

  (** val min : z -> z -> z **)

  let min n m =
    match compare n m with
    | Gt -> m
    | _ -> n
 end

(** val tl : 'a1 list -> 'a1 list **)

let tl = function
| [] -> []
| _ :: m -> m

(** val nth : nat -> 'a1 list -> 'a1 -> 'a1 **)

let rec nth n l default =
  match n with
  | O -> (match l with
          | [] -> default
          | x :: _ -> x)
  | S m -> (match l with
            | [] -> default
            | _ :: t0 -> nth m t0 default)

(** val concat : 'a1 list list -> 'a1 list **)

let rec concat = function
| [] -> []
| x :: l0 -> app x (concat l0)

(** val map : ('a1 -> 'a2) -> 'a1 list -> 'a2 list **)

let rec map f = function
| [] -> []
| a :: t0 -> (f a) :: (map f t0)

(** val fold_left : ('a1 -> 'a2 -> 'a1) -> 'a2 list -> 'a1 -> 'a1 **)

let rec fold_left f l a0 =
  match l with
  | [] -> a0
  | b :: t0 -> fold_left f t0 (f a0 b)

(** val existsb : ('a1 -> bool) -> 'a1 list -> bool **)

let rec existsb f = function
| [] -> false
| a :: l0 -> (||) (f a) (existsb f l0)

(** val combine : 'a1 list -> 'a2 list -> ('a1 * 'a2) list **)

let rec combine l l' =
  match l with
  | [] -> []
  | x :: tl0 ->
    (match l' with
     | [] -> []
     | y :: tl' -> (x, y) :: (combine tl0 tl'))

(** val us : z **)

let us =
  Zpos (XO (XO (XO (XI (XO (XI (XI (XI (XI XH)))))))))

type iset = (z * z) list

(** val inb : z -> (z * z) -> bool **)

let inb x i =
  (&&) (Z.leb (fst i) x) (Z.leb x (snd i))

(** val mem : z -> iset -> bool **)

let mem x a =
  existsb (inb x) a

(** val canonicalb : iset -> bool **)

let rec canonicalb = function
| [] -> true
| p :: r ->
  let (s, e) = p in
  (&&)
    ((&&) (Z.ltb s e)
      (match r with
       | [] -> true
       | p0 :: _ -> let (s', _) = p0 in Z.ltb e s')) (canonicalb r)

(** val tot_length : iset -> z **)

let rec tot_length = function
| [] -> Z0
| p :: r -> let (s, e) = p in Z.add (Z.sub e s) (tot_length r)

(** val drop_lt : z -> nat -> z list -> nat * z list **)

let rec drop_lt s i ts = match ts with
| [] -> (i, [])
| t0 :: r -> if Z.ltb t0 s then drop_lt s (S i) r else (i, ts)

(** val take_le : z -> nat -> z list -> nat list * (nat * z list) **)

let rec take_le e i ts = match ts with
| [] -> ([], (i, []))
| t0 :: r ->
  if Z.leb t0 e
  then let (ix, st) = take_le e (S i) r in ((i :: ix), st)
  else ([], (i, ts))

(** val restrict_scan : iset -> nat -> z list -> nat list list **)

let rec restrict_scan ep i ts =
  match ep with
  | [] -> []
  | p :: r ->
    let (s, e) = p in
    let (i1, ts1) = drop_lt s i ts in
    let (ix, p0) = take_le e i1 ts1 in
    let (i2, ts2) = p0 in ix :: (restrict_scan r i2 ts2)

(** val restrict_idx : z list -> iset -> nat list **)

let restrict_idx ts ep =
  concat (restrict_scan ep O ts)

(** val restrict_cnt : z list -> iset -> nat list **)

let restrict_cnt ts ep =
  map length (restrict_scan ep O ts)

(** val find_interval : z -> nat -> iset -> nat option **)

let rec find_interval x k = function
| [] -> None
| iv :: r -> if inb x iv then Some k else find_interval x (S k) r

(** val in_interval : z list -> iset -> nat option list **)

let in_interval ts ep =
  map (fun t0 -> find_interval t0 O ep) ts

(** val select : 'a1 -> 'a1 list -> nat list -> 'a1 list **)

let select d rows ix =
  map (fun i -> nth i rows d) ix

(** val restrict_ts : z list -> iset -> z list **)

let restrict_ts ts ep =
  select Z0 ts (restrict_idx ts ep)

module Sort =
 functor (X:TotalLeBool') ->
 struct
  (** val merge : X.t list -> X.t list -> X.t list **)

  let rec merge l1 l2 =
    let rec merge_aux l3 =
      match l1 with
      | [] -> l3
      | a1 :: l1' ->
        (match l3 with
         | [] -> l1
         | a2 :: l2' ->
           if X.leb a1 a2 then a1 :: (merge l1' l3) else a2 :: (merge_aux l2'))
    in merge_aux l2

  (** val merge_list_to_stack :
      X.t list option list -> X.t list -> X.t list option list **)

  let rec merge_list_to_stack stack l =
    match stack with
    | [] -> (Some l) :: []
    | y :: stack' ->
      (match y with
       | Some l' -> None :: (merge_list_to_stack stack' (merge l' l))
       | None -> (Some l) :: stack')

  (** val merge_stack : X.t list option list -> X.t list **)

  let rec merge_stack = function
  | [] -> []
  | y :: stack' ->
    (match y with
     | Some l -> merge l (merge_stack stack')
     | None -> merge_stack stack')

  (** val iter_merge : X.t list option list -> X.t list -> X.t list **)

  let rec iter_merge stack = function
  | [] -> merge_stack stack
  | a :: l' -> iter_merge (merge_list_to_stack stack (a :: [])) l'

  (** val sort : X.t list -> X.t list **)

  let sort =
    iter_merge []

  (** val flatten_stack : X.t list option list -> X.t list **)

  let rec flatten_stack = function
  | [] -> []
  | o :: stack' ->
    (match o with
     | Some l -> app l (flatten_stack stack')
     | None -> flatten_stack stack')
 end

module ZOrder =
 struct
  type t = z

  (** val leb : z -> z -> bool **)

  let leb =
    Z.leb
 end

module ZSort = Sort(ZOrder)

(** val sortZ : z list -> z list **)

let sortZ =
  ZSort.sort

(** val close_pending : z -> z -> z option -> iset **)

let close_pending ns ne next_start =
  let ne' =
    match next_start with
    | Some s -> if Z.eqb ne s then Z.sub ne us else ne
    | None -> ne
  in
  if Z.ltb ns ne' then (ns, ne') :: [] else []

(** val fix_go : ((z * z) * z) option -> (z * z) list -> iset **)

let rec fix_go pend = function
| [] ->
  (match pend with
   | Some p ->
     let (p0, _) = p in let (ns, ne) = p0 in close_pending ns ne None
   | None -> [])
| p :: r ->
  let (s, e) = p in
  (match pend with
   | Some p0 ->
     let (p1, ce) = p0 in
     let (ns, ne) = p1 in
     if Z.ltb s ce
     then fix_go (Some ((ns, (Z.max ce e)), e)) r
     else app (close_pending ns ne (Some s))
            (if Z.leb e s then fix_go None r else fix_go (Some ((s, e), e)) r)
   | None -> if Z.leb e s then fix_go None r else fix_go (Some ((s, e), e)) r)

(** val fix_iset : (z * z) list -> iset **)

let fix_iset l =
  fix_go None l

(** val mk_iset : z list -> z list -> iset **)

let mk_iset ss es =
  fix_iset (combine (sortZ ss) (sortZ es))

(** val mk_iset_pairs : (z * z) list -> iset **)

let mk_iset_pairs l =
  mk_iset (map fst l) (map snd l)

(** val close_pending_orig : z -> z -> z option -> iset **)

let close_pending_orig ns ne next_start =
  let ne' =
    match next_start with
    | Some s -> if Z.eqb ne s then Z.sub ne us else ne
    | None -> ne
  in
  (ns, ne') :: []

(** val skip_eq : (z * z) list -> (z * z) list **)

let rec skip_eq l = match l with
| [] -> []
| p :: r -> let (s, e) = p in if Z.eqb e s then skip_eq r else l

(** val skip_lt : (z * z) list -> (z * z) list **)

let rec skip_lt l = match l with
| [] -> []
| p :: r -> let (s, e) = p in if Z.ltb e s then skip_lt r else l

(** val fix_go_orig : nat -> (z * z) list -> iset **)

let rec fix_go_orig fuel l =
  match fuel with
  | O -> []
  | S fuel' ->
    (match skip_lt (skip_eq l) with
     | [] -> []
     | p :: r ->
       let (s, e) = p in
       let rec absorb ne ce r0 = match r0 with
       | [] -> close_pending_orig s ne None
       | p0 :: r' ->
         let (s', e') = p0 in
         if Z.ltb s' ce
         then absorb (Z.max ce e') e' r'
         else app (close_pending_orig s ne (Some s')) (fix_go_orig fuel' r0)
       in absorb e e r)

(** val fix_iset_orig : (z * z) list -> iset **)

let fix_iset_orig l =
  fix_go_orig (S (length l)) l

(** val inter_go :
    iset -> iset -> nat -> nat -> ((z * z) * (nat * nat)) list **)

let rec inter_go a b i j =
  match a with
  | [] -> []
  | p :: a' ->
    let (s1, e1) = p in
    let rec go b0 j0 =
      match b0 with
      | [] -> []
      | p0 :: b' ->
        let (s2, e2) = p0 in
        if Z.leb e2 s1
        then go b' (S j0)
        else if Z.ltb s2 e1
             then (((Z.max s1 s2), (Z.min e1 e2)), (i,
                    j0)) :: (if Z.ltb e2 e1
                             then go b' (S j0)
                             else inter_go a' b0 (S i) j0)
             else inter_go a' b0 (S i) j0
    in go b j

(** val k_inter_meta : iset -> iset -> ((z * z) * (nat * nat)) list **)

let k_inter_meta a b =
  inter_go a b O O

(** val k_inter : iset -> iset -> iset **)

let k_inter a b =
  map fst (k_inter_meta a b)

(** val diff_go : iset -> iset -> nat -> ((z * z) * nat) list **)

let rec diff_go a b i =
  match a with
  | [] -> []
  | p :: a' ->
    let (s1, e1) = p in
    let rec go b0 = match b0 with
    | [] ->
      ((s1, e1),
        i) :: (let rec rest a0 i0 =
                 match a0 with
                 | [] -> []
                 | p0 :: a'' -> (p0, i0) :: (rest a'' (S i0))
               in rest a' (S i))
    | p0 :: b' ->
      let (s2, e2) = p0 in
      if Z.leb e2 s1
      then go b'
      else if Z.ltb s2 e1
           then if (&&) (Z.ltb s2 s1) (Z.ltb e1 e2)
                then diff_go a' b0 (S i)
                else app (if Z.ltb s1 s2 then ((s1, s2), i) :: [] else [])
                       (let rec inner pe prevB b1 = match b1 with
                        | [] ->
                          if Z.ltb pe e1
                          then ((pe, e1), i) :: (diff_go a' [] (S i))
                          else diff_go a' (prevB :: []) (S i)
                        | p1 :: b'' ->
                          let (s2', e2') = p1 in
                          if Z.ltb s2' e1
                          then ((pe, s2'), i) :: (inner e2' (s2', e2') b'')
                          else if Z.ltb pe e1
                               then ((pe, e1), i) :: (diff_go a' b1 (S i))
                               else diff_go a' (prevB :: b1) (S i)
                        in inner e2 (s2, e2) b')
           else ((s1, e1), i) :: (diff_go a' b0 (S i))
    in go b

(** val k_diff_meta : iset -> iset -> ((z * z) * nat) list **)

let k_diff_meta a b =
  diff_go a b O

(** val k_diff : iset -> iset -> iset **)

let k_diff a b =
  map fst (k_diff_meta a b)

(** val union_go : nat -> z option -> iset -> iset -> iset **)

let rec union_go fuel chain a b =
  match fuel with
  | O -> []
  | S fuel' ->
    (match chain with
     | Some ns ->
       (match a with
        | [] -> []
        | p :: a' ->
          let (_, e1) = p in
          (match b with
           | [] -> []
           | p0 :: b' ->
             let (_, e2) = p0 in
             let ne = Z.max e1 e2 in
             let a1 = if Z.ltb e1 e2 then a' else a in
             let b1 = if Z.ltb e1 e2 then b else b' in
             (match a1 with
              | [] -> (ns, ne) :: (union_go fuel' None [] (tl b1))
              | p1 :: _ ->
                let (s1', e1') = p1 in
                (match b1 with
                 | [] -> (ns, ne) :: (union_go fuel' None (tl a1) [])
                 | p2 :: _ ->
                   let (s2', e2') = p2 in
                   if Z.ltb e2' s1'
                   then (ns, ne) :: (union_go fuel' None a1 (tl b1))
                   else if Z.ltb e1' s2'
                        then (ns, ne) :: (union_go fuel' None (tl a1) b1)
                        else union_go fuel' (Some ns) a1 b1))))
     | None ->
       (match a with
        | [] -> b
        | p :: a' ->
          let (s1, e1) = p in
          (match b with
           | [] -> a
           | p0 :: b' ->
             let (s2, e2) = p0 in
             if Z.leb e2 s1
             then (s2, e2) :: (union_go fuel' None a b')
             else if Z.ltb s2 e1
                  then union_go fuel' (Some (Z.min s1 s2)) a b
                  else (s1, e1) :: (union_go fuel' None a' b))))

(** val k_union : iset -> iset -> iset **)

let k_union a b =
  union_go (add (mul (S (S O)) (add (length a) (length b))) (S (S O))) None a
    b

(** val insert_by_start : (z * z) -> iset -> iset **)

let rec insert_by_start x l = match l with
| [] -> x :: []
| y :: r ->
  if Z.ltb (fst x) (fst y) then x :: l else y :: (insert_by_start x r)

(** val sort_by_start : iset -> iset **)

let sort_by_start l =
  fold_left (fun acc x -> insert_by_start x acc) l []

(** val union_n_go : z -> z -> iset -> iset **)

let rec union_n_go cs ce = function
| [] -> (cs, ce) :: []
| p :: r ->
  let (s, e) = p in
  if Z.ltb ce s
  then (cs, ce) :: (union_n_go s e r)
  else union_n_go cs (Z.max ce e) r

(** val k_union_n : iset -> iset **)

let k_union_n l =
  match sort_by_start l with
  | [] -> []
  | p :: r -> let (s, e) = p in union_n_go s e r

(** val iset_inter : iset -> iset -> iset **)

let iset_inter a b =
  mk_iset_pairs (k_inter a b)

(** val iset_union : iset -> iset -> iset **)

let iset_union a b =
  mk_iset_pairs (k_union a b)

(** val iset_diff : iset -> iset -> iset **)

let iset_diff a b =
  mk_iset_pairs (k_diff a b)
