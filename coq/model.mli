
type nat =
| O
| S of nat

val fst : ('a1 * 'a2) -> 'a1

val snd : ('a1 * 'a2) -> 'a2

val length : 'a1 list -> nat

val app : 'a1 list -> 'a1 list -> 'a1 list

type comparison =
| Eq
| Lt
| Gt

val compOpp : comparison -> comparison

val add : nat -> nat -> nat

val mul : nat -> nat -> nat

type positive =
| XI of positive
| XO of positive
| XH

type z =
| Z0
| Zpos of positive
| Zneg of positive

module type TotalLeBool' =
 sig
  type t

  val leb : t -> t -> bool
 end

module Pos :
 sig
  val succ : positive -> positive

  val add : positive -> positive -> positive

  val add_carry : positive -> positive -> positive

  val pred_double : positive -> positive

  val compare_cont : comparison -> positive -> positive -> comparison

  val compare : positive -> positive -> comparison

  val eqb : positive -> positive -> bool
 end

module Z :
 sig
  val double : z -> z

  val succ_double : z -> z

  val pred_double : z -> z

  val pos_sub : positive -> positive -> z

  val add : z -> z -> z

  val opp : z -> z

  val sub : z -> z -> z

  val compare : z -> z -> comparison

  val leb : z -> z -> bool

  val ltb : z -> z -> bool

  val eqb : z -> z -> bool

  val max : z -> z -> z

  val min : z -> z -> z
 end

val tl : 'a1 list -> 'a1 list

val nth : nat -> 'a1 list -> 'a1 -> 'a1

val concat : 'a1 list list -> 'a1 list

val map : ('a1 -> 'a2) -> 'a1 list -> 'a2 list

val fold_left : ('a1 -> 'a2 -> 'a1) -> 'a2 list -> 'a1 -> 'a1

val existsb : ('a1 -> bool) -> 'a1 list -> bool

val combine : 'a1 list -> 'a2 list -> ('a1 * 'a2) list

val us : z

type iset = (z * z) list

val inb : z -> (z * z) -> bool

val mem : z -> iset -> bool

val canonicalb : iset -> bool

val tot_length : iset -> z

val drop_lt : z -> nat -> z list -> nat * z list

val take_le : z -> nat -> z list -> nat list * (nat * z list)

val restrict_scan : iset -> nat -> z list -> nat list list

val restrict_idx : z list -> iset -> nat list

val restrict_cnt : z list -> iset -> nat list

val find_interval : z -> nat -> iset -> nat option

val in_interval : z list -> iset -> nat option list

val select : 'a1 -> 'a1 list -> nat list -> 'a1 list

val restrict_ts : z list -> iset -> z list

module Sort :
 functor (X:TotalLeBool') ->
 sig
  val merge : X.t list -> X.t list -> X.t list

  val merge_list_to_stack :
    X.t list option list -> X.t list -> X.t list option list

  val merge_stack : X.t list option list -> X.t list

  val iter_merge : X.t list option list -> X.t list -> X.t list

  val sort : X.t list -> X.t list

  val flatten_stack : X.t list option list -> X.t list
 end

module ZOrder :
 sig
  type t = z

  val leb : z -> z -> bool
 end

module ZSort :
 sig
  val merge : z list -> z list -> z list

  val merge_list_to_stack : z list option list -> z list -> z list option list

  val merge_stack : z list option list -> z list

  val iter_merge : z list option list -> z list -> z list

  val sort : z list -> z list

  val flatten_stack : z list option list -> z list
 end

val sortZ : z list -> z list

val close_pending : z -> z -> z option -> iset

val fix_go : ((z * z) * z) option -> (z * z) list -> iset

val fix_iset : (z * z) list -> iset

val mk_iset : z list -> z list -> iset

val mk_iset_pairs : (z * z) list -> iset

val close_pending_orig : z -> z -> z option -> iset

val skip_eq : (z * z) list -> (z * z) list

val skip_lt : (z * z) list -> (z * z) list

val fix_go_orig : nat -> (z * z) list -> iset

val fix_iset_orig : (z * z) list -> iset

val inter_go : iset -> iset -> nat -> nat -> ((z * z) * (nat * nat)) list

val k_inter_meta : iset -> iset -> ((z * z) * (nat * nat)) list

val k_inter : iset -> iset -> iset

val diff_go : iset -> iset -> nat -> ((z * z) * nat) list

val k_diff_meta : iset -> iset -> ((z * z) * nat) list

val k_diff : iset -> iset -> iset

val union_go : nat -> z option -> iset -> iset -> iset

val k_union : iset -> iset -> iset

val insert_by_start : (z * z) -> iset -> iset

val sort_by_start : iset -> iset

val union_n_go : z -> z -> iset -> iset

val k_union_n : iset -> iset

val iset_inter : iset -> iset -> iset

val iset_union : iset -> iset -> iset

val iset_diff : iset -> iset -> iset
