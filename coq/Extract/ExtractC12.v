(* Extraction of the TsGroup model for the C12 correspondence check. *)
From Coq Require Import extraction.ExtrOcamlBasic.
From Verif Require Import Base.Prelude Model.Restrict Model.Iset Model.Count Model.Slice Model.ValueFrom Model.Group.
Extraction "../ocaml/model_c12.ml"
  mk_ts ts_default ts_restrict ts_get mk_group mk_group_list regroup get_member select_keys select_mask getby_threshold getby_category getby_intervals
  g_restrict g_get merge_group merge_group_orig to_tsd to_tsgroup roundtrip rate
  g_count g_count_ep g_trial_count g_value_from step step_total trace union_supports.
