(* Extraction of the C17 models (tuning curves, decoding) for the correspondence check. *)
From Coq Require Import extraction.ExtrOcamlBasic.
From Coq Require Import QArith.
From Verif Require Import Base.Prelude Model.Restrict Model.Count Model.ValueFrom Model.Tuning.
Extraction "../ocaml/model_c17.ml"
  hist bin_of dig hist2d lin_edges scale centres2
  discrete_count discrete_tc
  attributed tc1d_count tc1d_occ tc1d attributed2 tc2d_count tc2d_occ tc2d
  cont_tc cont_tc2
  prior likelihood expo wls weights posterior argmax decoded occ_q
  count_rows bin_size_s decode decode_binned unravel inside_rows decode2d_post decode2d_decoded edges4 decode_occ
  Qred mem.
