(* Extraction of the C14 model (NumPy protocol wrappers) for the correspondence check. *)
From Coq Require Import extraction.ExtrOcamlBasic.
From Verif Require Import Base.Prelude Model.Restrict Model.Iset Model.Count Model.Slice Model.NpWrap.
Extraction "../ocaml/model_c14.ml"
  array_function array_ufunc array_ufunc_multi mixed_ufunc concat_tsd cat0 split_tsd split_other np_div_points get_class.
