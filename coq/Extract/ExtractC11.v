(* Extraction of the C11 model (save / load over the generated key tables) for the correspondence check.
   ExtrOcamlBasic only: Coq strings stay the extracted inductive (EmptyString | String of ascii * string);
   ocaml/driver_c11.ml converts. *)
From Coq Require Import extraction.ExtrOcamlBasic.
From Verif Require Import Base.Prelude Model.Restrict Model.Iset Gen.SitesC11 Model.Npz.
Extraction "../ocaml/model_c11.ml"
  save load detect stable_argsort reversing_argsort wkeys
  keys_cover_b kwargs_ok_b group_keys_known_b type_written_b.
