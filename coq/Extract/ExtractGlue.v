(* Extraction of the Glue evaluator (Glue/Interp.v), of the translated glue routines (Gen/Glue.v) and of the
   kernel environment (Glue/Kenv.v) for the execution tie harness/gluecmp.py:
   translated term run by [grun] under [kenv_all]  vs  the real pynapple routine.
   ExtrOcamlBasic + ExtrOcamlString only: Z, positive, nat, Q stay extracted inductives. *)
From Coq Require Import ZArith QArith String List.
From Coq Require Import extraction.ExtrOcamlBasic extraction.ExtrOcamlString.
From Verif Require Import Jit.Lang Glue.Lang Glue.Interp Glue.Kenv Glue.KenvText Gen.Glue.
Open Scope Z_scope.
Set Warnings "-extraction-reserved-identifier".

(* the kernel environment the translated routines are run in: the translated kernel TEXT (Gen/Kernels.v) run by
   Jit.Interp with a large fuel (Glue/KenvText.v), so that the execution tie exercises glue text + kernel text *)
Definition kenv_all : kenv := kenv_exec.

(* None = no routine of that name in [all_glue] *)
Definition run_glue (name : string) (args : list gval) : option (gres gval) :=
  match find_gfunc all_glue name with
  | Some g => Some (grun kenv_all g args)
  | None => None
  end.

Definition q_red (q : Q) : Q := Qred q.
Definition glue_names : list string := map gname all_glue.

Extraction "../ocaml/gluemodel.ml" run_glue kenv_all q_red glue_names all_glue
  Z.add Z.mul Z.opp Z.div_eucl Z.of_nat Z.to_nat.
