(* Extraction of the executable models of C16 (correlograms, peri-event alignment). *)
From Coq Require Import extraction.ExtrOcamlBasic.
From Verif Require Import Base.Prelude Model.Restrict Model.Count Model.Slice Model.Correlogram Model.Perievent.
Extraction "../ocaml/model_c16.ml"
  xcorr_counts xcorr_centres2 autocorr_counts xcorr_spec
  align_tsd perievent_spec
  pc_kernel pc_columns pc_public pc_spec pc_public_spec argmin_last.
