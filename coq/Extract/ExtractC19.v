(* Extraction of the symbolic instances of Model/Spectrum.v used by the C19 correspondence check.
   ExtrOcamlBasic only; Z, positive, nat, Q stay the extracted inductive datatypes. *)
From Coq Require Import extraction.ExtrOcamlBasic.
From Verif Require Import Base.Prelude Model.Restrict Model.Count Model.Slice Model.Spectrum.
Extraction "../ocaml/model_c19.ml"
  fftfreq_idx fft_positions psd_mults psd_mults_orig doubled crop_pad_z sumsq_z epoch_idx
  overlap_split seg_count alloc_rows seg_slices mean_plan.
