(* Extraction of the executable models for the correspondence checks.
   ExtrOcamlBasic only: bool, list, prod, option, unit, sumbool map to OCaml's; Z, positive, nat
   stay the extracted inductive datatypes. *)
From Coq Require Import extraction.ExtrOcamlBasic.
From Verif Require Import Base.Prelude Model.Restrict Model.Iset Model.Count Model.ValueFrom Model.Threshold Model.Slice Model.Store.
Extraction "../ocaml/model.ml"
  restrict_idx restrict_cnt in_interval restrict_ts
  fix_iset fix_iset_orig mk_iset k_inter_meta k_inter k_diff_meta k_diff k_union k_union_n
  iset_inter iset_union iset_diff canonicalb mem tot_length
  count_binned bin_sum_cnt count_spec
  value_from threshold_support dropna_support
  get_range get_closest to_trial_tensor trial_count_rows
  run step.
