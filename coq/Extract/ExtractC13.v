(* Extraction of the metadata model for the C13 correspondence check. *)
From Coq Require Import extraction.ExtrOcamlBasic.
From Verif Require Import Base.Prelude Model.Iset Model.Meta.
Extraction "../ocaml/model_c13.ml"
  range_frame mk_miset mk_miset_df iset_get_pos iset_get_labels iset_get_bseries
  iset_intersect iset_set_diff iset_split iset_union_meta iset_time_span iset_merge_close
  frame_get_pos frame_get_labels frame_get_mask frame_get_group frame_map
  group_get_keys group_get_mask group_map group_merge.
