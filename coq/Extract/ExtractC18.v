(* Extraction of the C18 model (convolution / filtering per epoch) for the correspondence check. *)
From Coq Require Import extraction.ExtrOcamlBasic.
From Verif Require Import Base.Prelude Model.Restrict Model.Count Model.Slice Model.Convolve.
Extraction "../ocaml/model_c18.ml"
  conv conv_window cut convolve_epochs convolve_frame convolve_arg smooth_epochs
  spectral_inversion sinc_highpass sinc_bandstop sinc_bandpass sinc_filter butter_probe vadd vscale lin.
