(* Extraction of the C20 model (surrogate generators) for the correspondence check.
   ExtrOcamlBasic only; Z, positive, nat stay the extracted inductive datatypes. *)
From Coq Require Import extraction.ExtrOcamlBasic.
From Verif Require Import Base.Prelude Model.Restrict Model.Iset Model.Randomize.
Extraction "../ocaml/model_c20.ml"
  shift_ts shift_ts_orig jitter_ts resample_ts shuffle_ts
  shift_group jitter_group resample_group shuffle_group.
