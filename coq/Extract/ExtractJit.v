(* Extraction of the checked interpreter and of the translated kernels for the three-way
   execution check (compiled kernel / .py_func / Jit.Interp on the translated term).
   ExtrOcamlBasic + ExtrOcamlString only: Z, positive, nat, Q stay extracted inductives. *)
From Coq Require Import ZArith QArith String List.
From Coq Require Import extraction.ExtrOcamlBasic extraction.ExtrOcamlString.
From Verif Require Import Jit.Lang Jit.Interp Gen.Kernels.
Open Scope Z_scope.

(* value of a rational in nanosecond ticks when it is a whole number of ticks *)
Definition q_ticks (q : Q) : option Z :=
  let n := Qnum q * 1000000000 in
  let d := Zpos (Qden q) in
  if (n mod d) =? 0 then Some (n / d) else None.
Definition q_of_ticks (t : Z) : Q := Qred (Qmake t 1000000000).
Definition q_red (q : Q) : Q := Qred q.

Definition run_kernel (fuel : nat) (name : string) (args : list value) : option outcome :=
  match find_func all_kernels name with
  | Some g => Some (Kernels.run fuel g args)
  | None => None
  end.

Extraction "../ocaml/jitmodel.ml" run_kernel q_ticks q_of_ticks q_red all_kernels
  Z.add Z.mul Z.opp Z.div_eucl Z.of_nat Z.to_nat.
