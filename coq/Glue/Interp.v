(* Glue.Interp: TOTAL evaluator of Glue.Lang.

     grun_env K genv g args : gres gval

   K     kernel environment: the meaning of a numba kernel call, a partial function on encoded values
         (instantiated in Glue/Kenv.v with the functional models of coq/Model, in exactly the encoding of the kernel
         refinement theorems Inv/*_func.v, or with the translated kernel TEXT run by Jit.Interp);
   genv  the whitelisted glue routines (Gen/Glue.v), for calls between them; the call depth is bounded by [call_depth]
         (the routines are not recursive; exceeding the bound is the error [EDepth], never a default value).

   Errors are explicit: an explicit `raise` ([ERaise]), a value of the wrong kind or a shape mismatch ([EType]),
   an index out of range ([EIndex]), an unassigned variable ([EUnbound]), a kernel call outside the kernel
   environment's domain ([EKernelErr]), an unknown routine / wrong arity ([ECallErr]).  No silent defaults.

   Idealisations (trusted reading): float64 = exact rationals (no rounding, no inf: x/0 = NaN), int64 = Z;
   np.sort = insertion sort with NaN last; np.searchsorted(a, v, side) = number of cells < v (left) / <= v (right),
   which is NumPy's answer when a is sorted; dtype tags follow NumPy's promotion for int/float/bool only. *)
From Coq Require Import ZArith QArith String List Bool.
From Verif Require Import Jit.Lang Jit.Interp Glue.Lang.
Import ListNotations.
Open Scope Z_scope.

Inductive gerr :=
| ERaise (exn : string)
| EType (what : string)
| EIndex
| EUnbound (x : nat)
| EKernelErr (name : string)
| ECallErr (name : string)
| EDepth.

Inductive gres (A : Type) := GOk (a : A) | GErr (e : gerr).
Arguments GOk {A} a.
Arguments GErr {A} e.
Definition gbind {A B} (r : gres A) (f : A -> gres B) : gres B :=
  match r with GOk a => f a | GErr e => GErr e end.
Definition of_opt {A} (o : option A) (e : gerr) : gres A := match o with Some a => GOk a | None => GErr e end.

Local Open Scope string_scope.
Local Open Scope Z_scope.

(* ---------- cells ---------- *)
Definition res_dt (op : binop) (a b : dtype) : dtype :=
  match op with
  | Div => DFlt
  | _ => match a, b with DFlt, _ | _, DFlt => DFlt | _, _ => DInt end
  end.
Definition sc_dt (v : sval) : dtype := match v with VInt _ => DInt | VFlt _ => DFlt | VBool _ => DBool end.

Definition bin_cells (op : binop) (a b : list sval) : list sval := map2 (eval_binop op) a b.
Definition bin_cells_r (op : binop) (a : list sval) (v : sval) : list sval := map (fun c => eval_binop op c v) a.
Definition bin_cells_l (op : binop) (v : sval) (a : list sval) : list sval := map (fun c => eval_binop op v c) a.
Definition cmp_cells2 (op : cmpop) (a b : list sval) : list sval := map2 (fun x y => VBool (eval_cmp op x y)) a b.
Definition cmp_cells_l (op : cmpop) (v : sval) (a : list sval) : list sval := map (fun c => VBool (eval_cmp op v c)) a.
Definition not_cells (a : list sval) : list sval := map (fun c => VBool (negb (truthy c))) a.
Definition isnan_sc (c : sval) : bool := match c with VFlt None => true | _ => false end.
Definition isnan_cells (a : list sval) : list sval := map (fun c => VBool (isnan_sc c)) a.
Definition neg_cells (a : list sval) : list sval := map (eval_unop Neg) a.
Definition diff_cells (d : list sval) : list sval :=
  match d with [] => [] | _ :: r => map2 (fun a b => eval_binop Sub b a) d r end.

Fixpoint ins_cell (x : sval) (l : list sval) : list sval :=
  match l with
  | [] => [x]
  | y :: r => if key_le (to_flt y) (to_flt x) then y :: ins_cell x r else x :: l
  end.
Definition sort_cells (d : list sval) : list sval := fold_right ins_cell [] d.

Definition any_cells (d : list sval) : bool := existsb truthy d.
Definition all_cells (d : list sval) : bool := forallb truthy d.
Fixpoint where_cells (i : Z) (m : list sval) : list sval :=
  match m with
  | [] => []
  | b :: r => if truthy b then VInt i :: where_cells (i + 1) r else where_cells (i + 1) r
  end.
Definition search_cells (s : side) (a : list sval) (v : sval) : Z :=
  zlen (filter (fun c => eval_cmp (match s with SLeft => Lt | SRight => Le end) c v) a).

Definition wrap (n i : Z) : Z := if i <? 0 then i + n else i.
Definition index_cell (d : list sval) (i : Z) : option sval :=
  let k := wrap (zlen d) i in if in_range k (zlen d) then Some (nthZ d k) else None.
Definition gather_chk (d ix : list sval) : option (list sval) :=
  let n := zlen d in
  if forallb (fun v => in_range (wrap n (to_int v)) n) ix
  then Some (map (fun v => nthZ d (wrap n (to_int v))) ix) else None.
Definition mask_chk (d m : list sval) : option (list sval) :=
  if zlen d =? zlen m then Some (maskl d m) else None.
Fixpoint mask_rows (c : nat) (d m : list sval) : list sval :=
  match m with
  | [] => []
  | b :: r => if truthy b then (firstn c d ++ mask_rows c (skipn c d) r)%list else mask_rows c (skipn c d) r
  end.
Definition gather_rows (c : nat) (r : Z) (d ix : list sval) : list sval :=
  flat_map (fun v => firstn c (skipn (Z.to_nat (wrap r (to_int v)) * c) d)) ix.
Definition count_true (m : list sval) : Z := zlen (filter truthy m).
Definition aug_mask (op : binop) (d m : list sval) (v : sval) : list sval :=
  map2 (fun c b => if truthy b then eval_binop op c v else c) d m.
Fixpoint store_mask (d m vs : list sval) : list sval :=
  match d, m with
  | c :: d', b :: m' =>
      if truthy b then match vs with v :: vs' => v :: store_mask d' m' vs' | [] => c :: store_mask d' m' [] end
      else c :: store_mask d' m' vs
  | _, _ => []
  end.

(* ---------- objects ---------- *)
Fixpoint assoc (fs : list (string * gval)) (n : string) : option gval :=
  match fs with
  | [] => None
  | (k, v) :: r => if String.eqb n k then Some v else assoc r n
  end.

Definition col_of (a : arr) (j : Z) : gres gval :=
  match a with
  | A2 dt r c d => if in_range j c then GOk (GArr (A1 dt (column r c d j))) else GErr EIndex
  | A1 _ _ => GErr EIndex      (* too many indices for a 1-D array *)
  end.

Definition get_attr (v : gval) (name : string) : gres gval :=
  match v with
  | GObj cls fs =>
      if String.eqb cls "IntervalSet" && (String.eqb name "start" || String.eqb name "end") then
        match assoc fs "values" with
        | Some (GArr a) => col_of a (if String.eqb name "start" then 0 else 1)
        | _ => GErr (EType name)
        end
      else of_opt (assoc fs name) (EType name)
  | _ => GErr (EType name)
  end.

Definition glen (v : gval) : gres gval :=
  match v with
  | GArr a => GOk (GSc (VInt (alen a)))
  | GTup l => GOk (GSc (VInt (zlen l)))
  | GObj cls fs =>
      match assoc fs (if String.eqb cls "IntervalSet" then "values" else "t") with
      | Some (GArr a) => GOk (GSc (VInt (alen a)))
      | _ => GErr (EType "len")
      end
  | _ => GErr (EType "len")
  end.

Definition hstack_part (v : gval) : option (list sval) :=
  match v with
  | GSc c => Some [c]
  | GArr (A1 _ d) => Some d
  | _ => None
  end.
Fixpoint hstack_parts (l : list gval) : option (list sval) :=
  match l with
  | [] => Some []
  | v :: r => match hstack_part v, hstack_parts r with
              | Some a, Some b => Some (a ++ b)%list
              | _, _ => None
              end
  end.

(* ---------- primitives ---------- *)
Definition tyerr {A} (s : string) : gres A := GErr (EType s).

Definition prim_bin (op : binop) (x y : gval) : gres gval :=
  match x, y with
  | GSc a, GSc b => GOk (GSc (eval_binop op a b))
  | GArr (A1 da a), GSc b => GOk (GArr (A1 (res_dt op da (sc_dt b)) (bin_cells_r op a b)))
  | GSc a, GArr (A1 db b) => GOk (GArr (A1 (res_dt op (sc_dt a) db) (bin_cells_l op a b)))
  | GArr (A1 da a), GArr (A1 db b) =>
      if zlen a =? zlen b then GOk (GArr (A1 (res_dt op da db) (bin_cells op a b)))
      else tyerr "operands could not be broadcast together"
  | _, _ => tyerr "binary operator"
  end.

Definition prim_cmp (op : cmpop) (x y : gval) : gres gval :=
  match x, y with
  | GSc a, GSc b => GOk (GSc (VBool (eval_cmp op a b)))
  | GArr (A1 _ a), GSc b => GOk (GArr (A1 DBool (cmp_cells op b a)))
  | GSc a, GArr (A1 _ b) => GOk (GArr (A1 DBool (cmp_cells_l op a b)))
  | GArr (A1 _ a), GArr (A1 _ b) =>
      if zlen a =? zlen b then GOk (GArr (A1 DBool (cmp_cells2 op a b)))
      else tyerr "operands could not be broadcast together"
  | GStr a, GStr b =>
      match op with
      | Eq => GOk (GSc (VBool (String.eqb a b)))
      | Ne => GOk (GSc (VBool (negb (String.eqb a b))))
      | _ => tyerr "string comparison"
      end
  | GNone, GNone => match op with Eq => GOk (GSc (VBool true)) | Ne => GOk (GSc (VBool false)) | _ => tyerr "None comparison" end
  | _, _ => tyerr "comparison"
  end.

Definition prim_index (x k : gval) : gres gval :=
  match x, k with
  | GArr (A1 dt d), GSc (VInt i) =>
      match index_cell d i with Some c => GOk (GSc (coerce dt c)) | None => GErr EIndex end
  | GArr (A1 dt d), GArr (A1 DBool m) =>
      match mask_chk d m with Some r => GOk (GArr (A1 dt r)) | None => GErr EIndex end
  | GArr (A1 dt d), GArr (A1 DInt ix) =>
      match gather_chk d ix with Some r => GOk (GArr (A1 dt r)) | None => GErr EIndex end
  | GArr (A2 dt r c d), GArr (A1 DBool m) =>
      if r =? zlen m then GOk (GArr (A2 dt (count_true m) c (mask_rows (Z.to_nat c) d m))) else GErr EIndex
  | GArr (A2 dt r c d), GArr (A1 DInt ix) =>
      if forallb (fun v => in_range (wrap r (to_int v)) r) ix
      then GOk (GArr (A2 dt (zlen ix) c (gather_rows (Z.to_nat c) r d ix)))
      else GErr EIndex
  | GTup l, GSc (VInt i) =>
      let n := zlen l in let j := wrap n i in
      if in_range j n then of_opt (nth_error l (Z.to_nat j)) EIndex else GErr EIndex
  | _, _ => tyerr "index"
  end.

Definition prim_index2 (x i j : gval) : gres gval :=
  match x, i, j with
  | GArr (A2 dt r c d), GSc (VInt a), GSc (VInt b) =>
      let a' := wrap r a in let b' := wrap c b in
      if in_range a' r && in_range b' c then GOk (GSc (coerce dt (nthZ d (a' * c + b')))) else GErr EIndex
  | _, _, _ => tyerr "index2"
  end.

Definition opt_bound (o : option Z) (dflt : Z) : Z := match o with Some b => b | None => dflt end.

Definition apply_prim (p : prim) (args : list gval) : gres gval :=
  match p, args with
  | PAttr name, [x] => get_attr x name
  | PCol j, [GArr a] => col_of a j
  | PLen, [x] => glen x
  | PBin op, [x; y] => prim_bin op x y
  | PCmp op, [x; y] => prim_cmp op x y
  | PInvert, [GArr (A1 DBool d)] => GOk (GArr (A1 DBool (not_cells d)))
  | PInvert, [GSc (VBool b)] => GOk (GSc (VBool (negb b)))
  | PNot, [GSc v] => GOk (GSc (VBool (negb (truthy v))))
  | PNot, [GNone] => GOk (GSc (VBool true))
  | PNeg, [GSc v] => GOk (GSc (eval_unop Neg v))
  | PNeg, [GArr (A1 dt d)] => GOk (GArr (A1 dt (neg_cells d)))
  | PIndex, [x; k] => prim_index x k
  | PIndex2, [x; i; j] => prim_index2 x i j
  | PSlice lo hi, [GArr (A1 dt d)] =>
      GOk (GArr (A1 dt (pyslice d (opt_bound lo 0) (opt_bound hi (zlen d)))))
  | PSort, [GArr (A1 dt d)] => GOk (GArr (A1 dt (sort_cells d)))
  | PDiff, [GArr (A1 dt d)] => GOk (GArr (A1 (res_dt Sub dt dt) (diff_cells d)))
  | PHstack, l =>
      match hstack_parts l with
      | Some d => GOk (GArr (A1 DFlt (coerce_cells DFlt d)))
      | None => tyerr "hstack"
      end
  | PAny, [GArr (A1 _ d)] => GOk (GSc (VBool (any_cells d)))
  | PAny, [GSc v] => GOk (GSc (VBool (truthy v)))
  | PAll, [GArr (A1 _ d)] => GOk (GSc (VBool (all_cells d)))
  | PAll, [GSc v] => GOk (GSc (VBool (truthy v)))
  | PIsNan, [GArr (A1 _ d)] => GOk (GArr (A1 DBool (isnan_cells d)))
  | PIsNan, [GSc v] => GOk (GSc (VBool (isnan_sc v)))
  | PWhere0, [GArr (A1 _ m)] => GOk (GArr (A1 DInt (where_cells 0 m)))
  | PSearch s, [GArr (A1 _ a); GSc v] => GOk (GSc (VInt (search_cells s a v)))
  | PSearch s, [GArr (A1 _ a); GArr (A1 _ vs)] => GOk (GArr (A1 DInt (map (fun v => VInt (search_cells s a v)) vs)))
  | PSum, [GArr (A1 dt d)] => GOk (GSc (sum_cells (match dt with DFlt => DFlt | _ => DInt end) d))
  | PArr1, [GSc v] => GOk (GArr (A1 DFlt [coerce DFlt v]))
  | PEmptyF, [] => GOk (GArr (A1 DFlt []))
  | PAsFloat, [GArr (A1 _ d)] => GOk (GArr (A1 DFlt (coerce_cells DFlt d)))
  | PAsFloat, [GSc v] => GOk (GSc (coerce DFlt v))
  | PAsInt, [GArr (A1 _ d)] => GOk (GArr (A1 DInt (coerce_cells DInt d)))
  | PAsInt, [GSc v] => GOk (GSc (coerce DInt v))
  | PIdent, [x] => GOk x
  | PIsNone, [GNone] => GOk (GSc (VBool true))
  | PIsNone, [_] => GOk (GSc (VBool false))
  | PIsNumber, [GSc (VBool _)] => GOk (GSc (VBool true))
  | PIsNumber, [GSc _] => GOk (GSc (VBool true))
  | PIsNumber, [_] => GOk (GSc (VBool false))
  | PFullLike, [GArr a; GSc v] => GOk (GArr (A1 (sc_dt v) (repeat v (Z.to_nat (alen a)))))
  | PStrEq, [GStr a; GStr b] => GOk (GSc (VBool (String.eqb a b)))
  | PStrEq, [_; _] => GOk (GSc (VBool false))
  | PIsInstance cls, [GObj c _] => GOk (GSc (VBool (existsb (String.eqb c) cls)))
  | PIsInstance _, [_] => GOk (GSc (VBool false))
  | PIsKind k, [x] =>
      GOk (GSc (VBool (match x with
                       | GSc (VInt _) => String.eqb k "int"
                       | GSc (VFlt _) => String.eqb k "float"
                       | GSc (VBool _) => String.eqb k "bool" || String.eqb k "int"     (* bool is a subclass of int *)
                       | GStr _ => String.eqb k "str"
                       | GArr _ => String.eqb k "array"
                       | _ => false
                       end)))
  | PHasAttr name, [GObj _ fs] => GOk (GSc (VBool (match assoc fs name with Some _ => true | None => false end)))
  | PHasAttr _, [_] => GOk (GSc (VBool false))
  | PInStrs l, [GStr x] => GOk (GSc (VBool (existsb (String.eqb x) l)))
  | PInStrs _, [_] => GOk (GSc (VBool false))
  | PAbs, [GSc v] => GOk (GSc (eval_unop Abs v))
  | PSliceObj, [a; b; c] => GOk (GObj "slice" [("start", a); ("stop", b); ("step", c)])
  | PToArr, [GSc v] => GOk (GArr (A1 DFlt [coerce DFlt v]))
  | PToArr, [GArr (A1 _ d)] => GOk (GArr (A1 DFlt (coerce_cells DFlt d)))
  | PMkIset, [GArr (A2 dt r c d)] =>
      if c =? 2 then GOk (GObj "IntervalSet" [("values", GArr (A2 dt r c d))]) else tyerr "IntervalSet values must have 2 columns"
  | _, _ => tyerr "primitive applied to values of the wrong kind"
  end.

Definition gtruthy (v : gval) : gres bool :=
  match v with
  | GSc s => GOk (truthy s)
  | GNone => GOk false
  | GStr s => GOk (negb (String.eqb s ""))
  | GTup l => GOk (negb (zlen l =? 0))
  | _ => tyerr "truth value of an array or object"
  end.

(* ---------- store ---------- *)
Definition gstore := list (option gval).
Definition sget (st : gstore) (x : nat) : gres gval :=
  match nth_error st x with Some (Some v) => GOk v | _ => GErr (EUnbound x) end.
Fixpoint sset (st : gstore) (x : nat) (v : gval) : gstore :=
  match st, x with
  | [], _ => []
  | _ :: r, O => Some v :: r
  | y :: r, S k => y :: sset r k v
  end.
Fixpoint sset_list (st : gstore) (xs : list nat) (vs : list gval) : option gstore :=
  match xs, vs with
  | [], [] => Some st
  | x :: xr, v :: vr => sset_list (sset st x v) xr vr
  | _, _ => None
  end.

Definition kenv := string -> list gval -> option gval.

Inductive gout := ONormal (st : gstore) | OReturn (v : gval) | OFail (e : gerr).

Section Eval.
Variable K : kenv.
Variable call : string -> list gval -> gres gval.

Fixpoint geval (e : gexpr) (st : gstore) : gres gval :=
  let evs := (fix evs (l : list gexpr) : gres (list gval) :=
                match l with
                | [] => GOk []
                | a :: r => gbind (geval a st) (fun v => gbind (evs r) (fun vs => GOk (v :: vs)))
                end) in
  match e with
  | EVar x => sget st x
  | EConst v => GOk v
  | EPrim p args => gbind (evs args) (apply_prim p)
  | ETuple l => gbind (evs l) (fun vs => GOk (GTup vs))
  | EAnd a b => gbind (geval a st) (fun va => gbind (gtruthy va) (fun t => if t then geval b st else GOk va))
  | EOr a b => gbind (geval a st) (fun va => gbind (gtruthy va) (fun t => if t then GOk va else geval b st))
  | EIfExp c a b => gbind (geval c st) (fun vc => gbind (gtruthy vc) (fun t => if t then geval a st else geval b st))
  | EKernel name args => gbind (evs args) (fun vs => of_opt (K name vs) (EKernelErr name))
  | ECall name args => gbind (evs args) (call name)
  end.

Definition upd_arr (st : gstore) (x : nat) (k : gval) (f : dtype -> list sval -> list sval -> option (list sval)) : gout :=
  match sget st x, k with
  | GOk (GArr (A1 dt d)), GArr (A1 DBool m) =>
      if zlen d =? zlen m then
        match f dt d m with
        | Some d' => ONormal (sset st x (GArr (A1 dt d')))
        | None => OFail (EType "masked store: shape mismatch")
        end
      else OFail EIndex
  | GErr e, _ => OFail e
  | _, _ => OFail (EType "masked store")
  end.

Fixpoint gexec (s : gstmt) (st : gstore) : gout :=
  match s with
  | SSkip => ONormal st
  | SAssign x e => match geval e st with GOk v => ONormal (sset st x v) | GErr e => OFail e end
  | SUnpack xs e =>
      match geval e st with
      | GOk (GTup vs) =>
          match sset_list st xs vs with Some st' => ONormal st' | None => OFail (EType "unpack: wrong number of values") end
      | GOk _ => OFail (EType "unpack: not a tuple")
      | GErr e => OFail e
      end
  | SAugIdx x k op e =>
      match geval k st with
      | GErr e => OFail e
      | GOk vk =>
          match geval e st with
          | GOk (GSc v) => upd_arr st x vk (fun dt d m => Some (coerce_cells dt (aug_mask op d m v)))
          | GOk _ => OFail (EType "augmented masked store: scalar expected")
          | GErr e => OFail e
          end
      end
  | SStoreIdx x k e =>
      match geval k st with
      | GErr e => OFail e
      | GOk vk =>
          match geval e st with
          | GOk (GArr (A1 _ vs)) =>
              upd_arr st x vk (fun dt d m => if count_true m =? zlen vs
                                             then Some (coerce_cells dt (store_mask d m vs)) else None)
          | GOk _ => OFail (EType "masked store: array expected")
          | GErr e => OFail e
          end
      end
  | SSeq a b => match gexec a st with ONormal st' => gexec b st' | o => o end
  | SIf c a b =>
      match geval c st with
      | GErr e => OFail e
      | GOk v => match gtruthy v with
                 | GOk t => if t then gexec a st else gexec b st
                 | GErr e => OFail e
                 end
      end
  | SReturn e => match geval e st with GOk v => OReturn v | GErr e => OFail e end
  | SRaise exn => OFail (ERaise exn)
  end.

Definition init_gstore (f : gfunc) (args : list gval) : gstore :=
  (map Some args ++ repeat None (gnvars f - gnparams f))%list.

Definition run_body (f : gfunc) (args : list gval) : gres gval :=
  if Nat.eqb (length args) (gnparams f) then
    match gexec (gbody f) (init_gstore f args) with
    | ONormal _ => GOk GNone
    | OReturn v => GOk v
    | OFail e => GErr e
    end
  else GErr (ECallErr (gname f)).
End Eval.

Fixpoint find_gfunc (genv : list gfunc) (name : string) : option gfunc :=
  match genv with
  | [] => None
  | g :: r => if String.eqb name (gname g) then Some g else find_gfunc r name
  end.

Fixpoint gcall (K : kenv) (genv : list gfunc) (depth : nat) (name : string) (args : list gval) : gres gval :=
  match depth with
  | O => GErr EDepth
  | S d =>
      match find_gfunc genv name with
      | None => GErr (ECallErr name)
      | Some f => run_body K (gcall K genv d) f args
      end
  end.

Definition call_depth : nat := 6.
Definition grun_env (K : kenv) (genv : list gfunc) (g : gfunc) (args : list gval) : gres gval :=
  run_body K (gcall K genv call_depth) g args.
