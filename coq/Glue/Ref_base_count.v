(* Refinement of the method `_Base.count(self, bin_size, ep)` (pynapple/core/base_class.py; time_units = "s", the dtype
   parameter is dropped) as translated in Gen/Glue.v (g__Base_count): the checks on bin_size (an int is converted by
   float(); not a float -> TypeError; <= 0 -> ValueError), the default ep = self.time_support, the check that ep is an
   IntervalSet (TypeError), the call of the G2 routine `_count` (Glue/Ref__count.v) on (self.t, ep.start, ep.end,
   bin_size) and the constructor call  self._define_instance(t, ep, values = d), translated as the environment call
   K "_define_instance" [self; time index; time support; values].
   What reaches the constructor:
   - bin_size a number b > 0 ticks: time index = the bin centres of [count_binned ts ep b] (a doubled centre c2 reported
     as the tick [centre_tick c2]), time support = ep, values = the counts.  This is the step OpCount of Model/Store.v,
     `mk_ts_sup (map (fun cb => fst cb / 2) (count_binned ts ep (2 * b))) ep`: same support ep, and for the EVEN bin
     sizes 2 * b that Store.v considers [centre_tick c2 = c2 / 2] ([base_count_centres_even] below);
   - bin_size None: time index = the exact midpoints (s + e) / 2 of the intervals of ep, values = [restrict_cnt ts ep]
     (Store.v has no operation for this branch). *)
From Coq Require Import ZArith QArith String List Bool Lia.
From Verif Require Import Base.Prelude Model.Restrict Model.Iset Model.Count.
From Verif Require Import Jit.Lang Jit.Interp Jit.ArrayFacts.
From Verif Require Import Glue.Lang Glue.Interp Glue.Kenv Glue.KenvText Glue.Facts Gen.Glue Glue.Compose Glue.Facts_c05
  Glue.Ref__count Glue.Ref_base_restrict.
From Verif Require Import Inv.Jitrestrict_func Inv.Jitcount_func Inv.Jitbin_array_func.
Import ListNotations.
Open Scope Z_scope.
Local Open Scope string_scope.
Local Open Scope Z_scope.

(* the optional argument ep and the interval set actually used *)
Definition ep_arg (o : option iset) : gval := match o with Some ep => iset_val ep | None => GNone end.
Definition ep_eff (sup : iset) (o : option iset) : iset := match o with Some ep => ep | None => sup end.

(* the arrays handed to the constructor *)
Definition centres_arr (R : list (Z * nat)) : gval := GArr (A1 DFlt (map (fun p => tcell (centre_tick (fst p))) R)).
Definition counts_arr (R : list (Z * nat)) : gval := GArr (A1 DInt (map ncell R)).
Definition midpoints_arr (ep : iset) : gval :=
  GArr (A1 DFlt (map (fun I => VFlt (Some (Qred ((fst I + snd I) # 2)))) ep)).

Lemma cmp_le_inj0 : forall b, cmp_flt Le (Some (inject_Z b)) (Some (qz 0)) = (b <=? 0).
Proof. intros. apply (Qle_bool_inj b 0). Qed.

(* a bin size given as a Python float or as a Python int *)
Inductive bin_arg (b : Z) : gval -> Prop :=
| bin_float : bin_arg b (tsc b)
| bin_int : bin_arg b (GSc (VInt b)).

Ltac gsteps' :=
  repeat (progress (rewrite ?Bool.andb_false_r, ?col_of_iset_0, ?col_of_iset_1, ?prim_index_single); gsimp).
Lemma ret_of_opt : forall (o : option gval) e,
  match match of_opt o e with GOk v => OReturn v | GErr e' => OFail e' end with
  | ONormal _ => GOk GNone | OReturn v => GOk v | OFail e' => GErr e'
  end = of_opt o e.
Proof. intros [v|] e; reflexivity. Qed.
Ltac finish_ctor K := rewrite ret_of_opt; reflexivity.

(* ---------- bin_size a positive number: OpCount of Model/Store.v ---------- *)
Theorem ref_base_count : forall K cls ts vals sup o b bv, bin_arg b bv -> 0 < b ->
  K_count_at K ts (ep_eff sup o) b ->
  grun K g__Base_count [series_val cls ts vals sup; bv; ep_arg o]
  = of_opt (K "_define_instance" [series_val cls ts vals sup; centres_arr (count_binned ts (ep_eff sup o) b);
                                  iset_val (ep_eff sup o); counts_arr (count_binned ts (ep_eff sup o) b)])
           (EKernelErr "_define_instance").
Proof.
  intros K cls ts vals sup o b bv Hbv Hb HK. unfold grun.
  destruct Hbv; [change (tsc b) with (GSc (VFlt (Some (inject_Z b))))|];
    (destruct o as [ep|]; [|destruct vals]; cbn [ep_arg ep_eff] in *; gstart;
     change (qz b) with (inject_Z b); rewrite cmp_le_inj0;
     replace (b <=? 0) with false by (symmetry; apply Z.leb_gt; exact Hb); gsimp; gsteps';
     change (GSc (VFlt (Some (inject_Z b)))) with (tsc b);
     rewrite call_count by exact HK; gsimp; finish_ctor K).
Qed.

(* ---------- bin_size None: one count per interval, at its midpoint ---------- *)
Theorem ref_base_count_nobin : forall K cls ts vals sup o,
  K_rwc_at K ts (ep_eff sup o) ->
  grun K g__Base_count [series_val cls ts vals sup; GNone; ep_arg o]
  = of_opt (K "_define_instance" [series_val cls ts vals sup; midpoints_arr (ep_eff sup o);
                                  iset_val (ep_eff sup o); iarr (restrict_cnt ts (ep_eff sup o))])
           (EKernelErr "_define_instance").
Proof.
  intros K cls ts vals sup o HK. unfold grun.
  destruct o as [ep|]; [|destruct vals]; cbn [ep_arg ep_eff] in *; gstart; gsteps';
    rewrite call_count_nobin by exact HK; gsimp; finish_ctor K.
Qed.

(* ---------- error branches, whatever the environment ---------- *)
Theorem ref_base_count_value_error : forall K self e b bv, bin_arg b bv -> b <= 0 ->
  grun K g__Base_count [self; bv; e] = GErr (ERaise "ValueError").
Proof.
  intros K self e b bv Hbv Hb. unfold grun.
  destruct Hbv; [change (tsc b) with (GSc (VFlt (Some (inject_Z b))))|]; gstart;
    change (qz b) with (inject_Z b); rewrite cmp_le_inj0;
    replace (b <=? 0) with true by (symmetry; apply Z.leb_le; exact Hb); reflexivity.
Qed.

Theorem ref_base_count_bin_type_error : forall K self e s,
  grun K g__Base_count [self; GStr s; e] = GErr (ERaise "TypeError").
Proof. intros. reflexivity. Qed.

(* ep is neither None nor an object: TypeError (after the checks on bin_size) *)
Definition not_obj_nor_none (x : gval) : Prop :=
  match x with GNone | GObj _ _ => False | _ => True end.

Theorem ref_base_count_ep_type_error : forall K self x b bv, bin_arg b bv -> 0 < b -> not_obj_nor_none x ->
  grun K g__Base_count [self; bv; x] = GErr (ERaise "TypeError").
Proof.
  intros K self x b bv Hbv Hb Hx. unfold grun.
  destruct Hbv; [change (tsc b) with (GSc (VFlt (Some (inject_Z b))))|]; gstart;
    change (qz b) with (inject_Z b); rewrite cmp_le_inj0;
    replace (b <=? 0) with false by (symmetry; apply Z.leb_gt; exact Hb);
    destruct x; try contradiction; reflexivity.
Qed.
Theorem ref_base_count_nobin_ep_type_error : forall K self x, not_obj_nor_none x ->
  grun K g__Base_count [self; GNone; x] = GErr (ERaise "TypeError").
Proof. intros K self x Hx. destruct x; try contradiction; reflexivity. Qed.
(* ep an object of another class *)
Theorem ref_base_count_ep_class_error : forall K self cls fs, cls <> "IntervalSet" ->
  grun K g__Base_count [self; GNone; GObj cls fs] = GErr (ERaise "TypeError").
Proof.
  intros K self cls fs H. unfold grun. gstart. apply String.eqb_neq in H. rewrite H. reflexivity.
Qed.

(* ---------- relation with OpCount of Model/Store.v: even bin sizes, centres c2 / 2 ---------- *)
Lemma bins_go_centres_even : forall f lb e b l, Z.even b = true ->
  Forall (fun p => Z.even (fst p) = true) (bins_go f lb e b l).
Proof.
  induction f as [|f IH]; intros lb e b l Hb; cbn [bins_go]; [constructor|].
  destruct (2 * e <? 2 * lb + b); [constructor|]. destruct (span_lt (lb + b) l) as [ins rest].
  constructor; [|apply IH; exact Hb]. cbn [fst]. rewrite Z.even_add, Z.even_mul, Hb. reflexivity.
Qed.
Lemma count_binned_centres_even : forall ts ep b, Z.even b = true ->
  Forall (fun p => Z.even (fst p) = true) (count_binned ts ep b).
Proof.
  intros ts ep b Hb. unfold count_binned. generalize (samples_per_interval ts ep). 
  induction ep as [|[s e] ep IH]; intros S; [constructor|]. destruct S as [|smp S]; [constructor|].
  cbn [combine map concat]. apply Forall_app. split; [|apply IH].
  pose proof (bins_go_centres_even (nb_bins s e b) s e b smp Hb) as H. induction H as [|[c l] r Hc _ IHr]; [constructor|].
  cbn [map]. constructor; [exact Hc|exact IHr].
Qed.
Lemma base_count_centres_even : forall ts ep b,
  centres_arr (count_binned ts ep (2 * b)) = tarr (map (fun cb => fst cb / 2) (count_binned ts ep (2 * b))).
Proof.
  intros ts ep b. unfold centres_arr, tarr, tcells. rewrite map_map. do 2 f_equal.
  apply map_ext_in. intros p Hp.
  pose proof (count_binned_centres_even ts ep (2 * b)) as H. rewrite Z.even_mul in H. specialize (H eq_refl).
  eapply Forall_forall in H; [|exact Hp]. apply Z.even_spec in H. destruct H as [x ->].
  rewrite centre_tick_even. rewrite Z.mul_comm, Z.div_mul by lia. reflexivity.
Qed.

(* ---------- glue text + kernel text, for any constructor environment ---------- *)
Theorem base_count_text_to_model : forall C cls ts vals sup o b bv, bin_arg b bv -> 0 < b ->
  Forall (fun I => fst I <= snd I) (ep_eff sup o) ->
  exists fuel, grun (kenv_text_with C fuel) g__Base_count [series_val cls ts vals sup; bv; ep_arg o]
               = of_opt (C "_define_instance" [series_val cls ts vals sup;
                                               centres_arr (count_binned ts (ep_eff sup o) b);
                                               iset_val (ep_eff sup o);
                                               counts_arr (count_binned ts (ep_eff sup o) b)])
                        (EKernelErr "_define_instance").
Proof.
  intros C cls ts vals sup o b bv Hbv Hb Hep. apply eventually_ex.
  eapply eventually_imp; [|apply (text_count_at ts (ep_eff sup o) b Hep Hb)].
  intros f Hf. rewrite (ref_base_count _ cls ts vals sup o b bv Hbv Hb); [reflexivity|].
  apply kenv_text_with_some. exact Hf.
Qed.

Theorem base_count_nobin_text_to_model : forall C cls ts vals sup o,
  Forall (fun I => fst I <= snd I) (ep_eff sup o) ->
  exists fuel, grun (kenv_text_with C fuel) g__Base_count [series_val cls ts vals sup; GNone; ep_arg o]
               = of_opt (C "_define_instance" [series_val cls ts vals sup; midpoints_arr (ep_eff sup o);
                                               iset_val (ep_eff sup o); iarr (restrict_cnt ts (ep_eff sup o))])
                        (EKernelErr "_define_instance").
Proof.
  intros C cls ts vals sup o Hep. apply eventually_ex.
  eapply eventually_imp; [|apply (text_rwc_at ts (ep_eff sup o) Hep)].
  intros f Hf. rewrite ref_base_count_nobin; [reflexivity|].
  apply kenv_text_with_some. exact Hf.
Qed.

(* ---------- computed instances (kernel text + recording constructor) ---------- *)
(* a float bin size, ep given; the samples 4 and 8 lie on a bin edge *)
Example base_count_example :
  let self := series_val "Ts" [0; 3; 4; 8; 10; 15; 20; 24; 31] None [(0, 40)] in
  grun kenv_exec_echo g__Base_count [self; tsc 4; iset_val [(0, 10); (20, 31)]]
  = GOk (GTup [GStr "_define_instance"; self; tarr [2; 6; 10; 22; 26; 30]; iset_val [(0, 10); (20, 31)];
               GArr (A1 DInt [VInt 2; VInt 1; VInt 2; VInt 1; VInt 1; VInt 1])]).
Proof. vm_compute. reflexivity. Qed.
(* an int bin size (odd: half-tick centres reported as their even neighbours), ep = None: the time support of self *)
Example base_count_example_int_default_ep :
  let self := series_val "Tsd" [0; 3; 4; 8; 10] (Some (vcells [1; 2; 3; 4; 5])) [(0, 10)] in
  grun kenv_exec_echo g__Base_count [self; GSc (VInt 3); GNone]
  = GOk (GTup [GStr "_define_instance"; self; tarr [2; 4; 8]; iset_val [(0, 10)];
               GArr (A1 DInt [VInt 1; VInt 2; VInt 1])]).
Proof. vm_compute. reflexivity. Qed.
(* bin_size None: 20 + 31 is odd, the midpoint is the half tick 51/2 *)
Example base_count_example_nobin :
  let self := series_val "Ts" [0; 3; 4; 8; 10; 15; 20; 24; 31] None [(0, 40)] in
  grun kenv_exec_echo g__Base_count [self; GNone; iset_val [(0, 10); (20, 31)]]
  = GOk (GTup [GStr "_define_instance"; self; GArr (A1 DFlt [VFlt (Some (5 # 1)); VFlt (Some (51 # 2))]);
               iset_val [(0, 10); (20, 31)]; GArr (A1 DInt [VInt 5; VInt 3])]).
Proof. vm_compute. reflexivity. Qed.
Example base_count_example_errors :
  let self := series_val "Ts" [0; 3] None [(0, 40)] in
  grun kenv_exec_echo g__Base_count [self; tsc 0; GNone] = GErr (ERaise "ValueError")
  /\ grun kenv_exec_echo g__Base_count [self; GSc (VInt (-2)); GNone] = GErr (ERaise "ValueError")
  /\ grun kenv_exec_echo g__Base_count [self; GStr "1"; GNone] = GErr (ERaise "TypeError")
  /\ grun kenv_exec_echo g__Base_count [self; tsc 4; tarr [0; 10]] = GErr (ERaise "TypeError")
  /\ grun kenv_exec_echo g__Base_count [self; GNone; self] = GErr (ERaise "TypeError").
Proof. repeat split; vm_compute; reflexivity. Qed.
