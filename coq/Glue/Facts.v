(* Glue.Facts: characterising lemmas of the cell-level primitives of Glue/Interp.v on encoded (tick) data, and the
   symbolic-evaluation tactic used by the refinement proofs Glue/Ref_*.v. *)
From Coq Require Import ZArith QArith String List Bool Lia Permutation Sorting.Sorted.
From Verif Require Import Base.Prelude Model.Restrict Model.Iset Proofs.FixIsetProofs.
From Verif Require Import Jit.Lang Jit.Interp Jit.ArrayFacts Glue.Lang Glue.Interp Glue.Kenv.
From Verif Require Import Inv.Jitrestrict_func.
Import ListNotations.
Open Scope Z_scope.

(* symbolic evaluation: everything of the evaluator computes; the cell-level functions stay folded *)
Ltac gsimp :=
  cbn -[tcells icells coerce_cells zlen diff_cells cmp_cells cmp_cells2 cmp_cells_l all_cells any_cells sort_cells
        bin_cells bin_cells_r bin_cells_l not_cells isnan_cells neg_cells where_cells search_cells
        column mask_rows maskl mask_chk gather_chk index_cell count_true aug_mask store_mask sum_cells pyslice
        firsts seconds tcell Z.eqb Z.ltb Z.leb Z.add Z.sub Z.mul Z.of_nat Z.max Z.min in_range wrap nthZ
        sortZ mk_iset fix_iset iset_arr gcall col_of prim_index prim_index2 alen removelast last filter combine].

(* Jit/Tactics.v declares map2, maskl, zlen, ... [simpl never]: unfolding lemmas *)
Lemma map2_cons : forall {A B C} (f : A -> B -> C) x r y s, map2 f (x :: r) (y :: s) = f x y :: map2 f r s.
Proof. reflexivity. Qed.
Lemma map2_nil_l : forall {A B C} (f : A -> B -> C) m, map2 f [] m = [].
Proof. reflexivity. Qed.
Lemma map2_nil_r : forall {A B C} (f : A -> B -> C) l, map2 f l [] = [].
Proof. destruct l; reflexivity. Qed.
Lemma maskl_cons : forall x r b s, maskl (x :: r) (b :: s) = if truthy b then x :: maskl r s else maskl r s.
Proof. reflexivity. Qed.
Lemma maskl_nil_l : forall m, maskl [] m = [].
Proof. reflexivity. Qed.
Lemma maskl_nil_r : forall d, maskl d [] = [].
Proof. destruct d; reflexivity. Qed.

(* ---------- rationals that are whole ticks ---------- *)
Lemma Qred_inject_Z : forall z, Qred (inject_Z z) = inject_Z z.
Proof.
  intros z. unfold Qred, inject_Z.
  generalize (Z.ggcd_gcd z 1) (Z.ggcd_correct_divisors z 1).
  destruct (Z.ggcd z 1) as (g, (aa, bb)). cbn [fst snd]. intros Hg [Ha Hb].
  rewrite Z.gcd_1_r in Hg. subst g. rewrite Z.mul_1_l in Ha, Hb. subst. reflexivity.
Qed.

Lemma fsub_inj : forall a b, fsub (Some (inject_Z a)) (Some (inject_Z b)) = Some (inject_Z (a - b)).
Proof.
  intros a b. unfold fsub, f2, qsome. f_equal.
  replace (inject_Z a - inject_Z b)%Q with (inject_Z (a - b)); [apply Qred_inject_Z|].
  unfold Qminus, Qplus, Qopp, inject_Z. cbn [Qnum Qden]. rewrite !Z.mul_1_r. f_equal.
Qed.
Lemma fadd_inj : forall a b, fadd (Some (inject_Z a)) (Some (inject_Z b)) = Some (inject_Z (a + b)).
Proof.
  intros a b. unfold fadd, f2, qsome. f_equal.
  replace (inject_Z a + inject_Z b)%Q with (inject_Z (a + b)); [apply Qred_inject_Z|].
  unfold Qplus, inject_Z. cbn [Qnum Qden]. rewrite !Z.mul_1_r. reflexivity.
Qed.

Lemma sub_tcell : forall a b, eval_binop Sub (tcell a) (tcell b) = tcell (a - b).
Proof. intros. unfold eval_binop, tcell, binop_flt. cbn [is_flt orb to_flt]. rewrite fsub_inj. reflexivity. Qed.
Lemma add_tcell : forall a b, eval_binop Add (tcell a) (tcell b) = tcell (a + b).
Proof. intros. unfold eval_binop, tcell, binop_flt. cbn [is_flt orb to_flt]. rewrite fadd_inj. reflexivity. Qed.
Lemma add_tcell_lit : forall a b, eval_binop Add (tcell a) (VFlt (Some (b # 1))) = tcell (a + b).
Proof. intros. apply add_tcell. Qed.

Lemma cmp_eq_inj : forall a b, cmp_flt Eq (Some (inject_Z a)) (Some (inject_Z b)) = (a =? b).
Proof. intros. unfold cmp_flt, cmp_q, Qeq_bool, inject_Z, Zeq_bool. cbn [Qnum Qden]. rewrite !Z.mul_1_r.
  destruct (Z.eqb_spec a b) as [->|N]; [rewrite Z.compare_refl; reflexivity|].
  destruct (Z.compare_spec a b); [contradiction|reflexivity|reflexivity]. Qed.

Lemma gt_tcell : forall a b, eval_cmp Gt (tcell a) (tcell b) = (b <? a).
Proof. intros. unfold eval_cmp, tcell. cbn [is_flt orb to_flt]. apply cmp_gt_inj. Qed.
Lemma lt_tcell : forall a b, eval_cmp Lt (tcell a) (tcell b) = (a <? b).
Proof. intros. unfold eval_cmp, tcell. cbn [is_flt orb to_flt]. apply cmp_lt_inj. Qed.
Lemma eq_tcell : forall a b, eval_cmp Eq (tcell a) (tcell b) = (a =? b).
Proof. intros. unfold eval_cmp, tcell. cbn [is_flt orb to_flt]. apply cmp_eq_inj. Qed.
Lemma gt_tcell_int0 : forall a, eval_cmp Gt (tcell a) (VInt 0) = (0 <? a).
Proof. intros. unfold eval_cmp, tcell. cbn [is_flt orb to_flt]. apply (cmp_gt_inj a 0). Qed.

(* ---------- arrays of ticks ---------- *)
Lemma coerce_tcell : forall t, coerce DFlt (tcell t) = tcell t.
Proof. reflexivity. Qed.
Lemma coerce_cells_tcells : forall l, coerce_cells DFlt (tcells l) = tcells l.
Proof. intros l. unfold coerce_cells, tcells. rewrite map_map. apply map_ext. intros; reflexivity. Qed.
Lemma coerce_cells_icells : forall l, coerce_cells DFlt (icells l) = icells l.
Proof. induction l as [|[s e] l IH]; [reflexivity|]. unfold coerce_cells, icells in *. cbn [flat_map map app]. rewrite IH. reflexivity. Qed.

Lemma tcells_cons : forall x l, tcells (x :: l) = tcell x :: tcells l.
Proof. reflexivity. Qed.
Lemma tcells_app : forall a b, tcells (a ++ b) = (tcells a ++ tcells b)%list.
Proof. intros. unfold tcells. apply map_app. Qed.
Lemma zlen_eq_of_length : forall {A B} (a : list A) (b : list B), length a = length b -> (zlen a =? zlen b) = true.
Proof. intros. unfold zlen. rewrite H. apply Z.eqb_refl. Qed.
Lemma zlen_map' : forall {A B} (f : A -> B) l, zlen (map f l) = zlen l.
Proof. intros. unfold zlen. rewrite map_length. reflexivity. Qed.
Lemma zlen_icells : forall l, zlen (icells l) = 2 * zlen l.
Proof. induction l as [|[s e] l IH]; [reflexivity|]. change (icells ((s, e) :: l)) with (tcell s :: tcell e :: icells l). rewrite !zlen_cons, IH. lia. Qed.

(* columns of the 2-column array of an interval set *)
Lemma column_cons2 : forall n a b d j, 0 <= n -> (j = 0 \/ j = 1) ->
  column (n + 1) 2 (a :: b :: d) j = (if j =? 0 then a else b) :: column n 2 d j.
Proof.
  intros n a b d j Hn Hj. unfold column.
  replace (Z.to_nat (n + 1)) with (S (Z.to_nat n)) by lia. cbn [zrange map].
  f_equal.
  - destruct Hj as [-> | ->]; reflexivity.
  - assert (E : forall k lo, 0 <= lo ->
              map (fun i => nthZ (a :: b :: d) (i * 2 + j)) (zrange (lo + 1) k)
              = map (fun i => nthZ d (i * 2 + j)) (zrange lo k)).
    { induction k as [|k IH]; intros lo Hlo; [reflexivity|]. cbn [zrange map]. rewrite IH by lia. f_equal.
      unfold nthZ. replace (Z.to_nat ((lo + 1) * 2 + j)) with (S (S (Z.to_nat (lo * 2 + j)))) by lia. reflexivity. }
    apply (E (Z.to_nat n) 0). lia.
Qed.

Lemma column_icells : forall l j, (j = 0 \/ j = 1) ->
  column (zlen l) 2 (icells l) j = tcells (if j =? 0 then firsts l else seconds l).
Proof.
  induction l as [|[s e] l IH]; intros j Hj.
  - destruct Hj as [-> | ->]; reflexivity.
  - rewrite zlen_cons. change (icells ((s, e) :: l)) with (tcell s :: tcell e :: icells l).
    rewrite column_cons2 by (try exact Hj; unfold zlen; lia). rewrite IH by exact Hj.
    destruct Hj as [-> | ->]; reflexivity.
Qed.
Lemma column_icells_0 : forall l, column (zlen l) 2 (icells l) 0 = tcells (firsts l).
Proof. intros. apply (column_icells l 0). left; reflexivity. Qed.
Lemma column_icells_1 : forall l, column (zlen l) 2 (icells l) 1 = tcells (seconds l).
Proof. intros. apply (column_icells l 1). right; reflexivity. Qed.

(* ---------- np.diff / (. > 0).all() : strictly increasing ---------- *)
Fixpoint incb_from (x : Z) (l : list Z) : bool :=
  match l with [] => true | y :: r => (x <? y) && incb_from y r end.
Definition incb (l : list Z) : bool := match l with [] => true | x :: r => incb_from x r end.

Lemma diff_all_pos : forall l, all_cells (cmp_cells Gt (VInt 0) (diff_cells (tcells l))) = incb l.
Proof.
  destruct l as [|x l]; [reflexivity|]. cbn [incb]. revert x.
  induction l as [|y l IH]; intros x; [reflexivity|].
  specialize (IH y). unfold diff_cells, all_cells, cmp_cells in *. rewrite !tcells_cons in *.
  rewrite !map2_cons in *. cbn [map forallb] in *. rewrite sub_tcell, gt_tcell_int0. cbn [truthy incb_from].
  rewrite IH. f_equal. destruct (Z.ltb_spec x y), (Z.ltb_spec 0 (y - x)); try reflexivity; lia.
Qed.

Lemma incb_from_sorted : forall l x, incb_from x l = true -> sorted_from x l.
Proof.
  induction l as [|y l IH]; intros x H; [exact I|]. cbn in H. apply andb_true_iff in H. destruct H as [H1 H2].
  apply Z.ltb_lt in H1. cbn. split; [lia|]. apply IH. exact H2.
Qed.
Lemma incb_sortZ : forall l, incb l = true -> sortZ l = l.
Proof.
  intros [|x l] H; [reflexivity|]. apply (sorted_from_sortZ_id (x :: l) x). cbn. split; [lia|].
  apply incb_from_sorted. exact H.
Qed.

(* ---------- np.sort ---------- *)
Fixpoint insZ (x : Z) (l : list Z) : list Z :=
  match l with [] => [x] | y :: r => if y <=? x then y :: insZ x r else x :: l end.
Definition isortZ (l : list Z) : list Z := fold_right insZ [] l.

Lemma ins_cell_tcells : forall x l, ins_cell (tcell x) (tcells l) = tcells (insZ x l).
Proof.
  induction l as [|y l IH]; [reflexivity|]. rewrite tcells_cons. cbn [ins_cell insZ].
  unfold tcell at 1 2. cbn [to_flt key_le]. rewrite Qle_bool_inj.
  destruct (y <=? x); [|reflexivity]. fold (tcell x). rewrite IH. reflexivity.
Qed.
Lemma sort_cells_isortZ : forall l, sort_cells (tcells l) = tcells (isortZ l).
Proof.
  induction l as [|x l IH]; [reflexivity|]. rewrite tcells_cons. unfold sort_cells, isortZ in *. cbn [fold_right].
  rewrite IH. apply ins_cell_tcells.
Qed.

Lemma insZ_perm : forall x l, Permutation (x :: l) (insZ x l).
Proof.
  induction l as [|y l IH]; [apply Permutation_refl|]. cbn [insZ]. destruct (y <=? x); [|apply Permutation_refl].
  eapply perm_trans; [apply perm_swap|]. apply perm_skip. exact IH.
Qed.
Lemma isortZ_perm : forall l, Permutation l (isortZ l).
Proof.
  induction l as [|x l IH]; [apply perm_nil|]. unfold isortZ in *. cbn [fold_right].
  eapply perm_trans; [apply perm_skip; exact IH|]. apply insZ_perm.
Qed.
Lemma insZ_sorted : forall l lo x, sorted_from lo l -> lo <= x -> sorted_from lo (insZ x l).
Proof.
  induction l as [|y l IH]; intros lo x H Hx.
  - cbn. split; [exact Hx|exact I].
  - cbn in H. destruct H as [H1 H2]. cbn [insZ]. destruct (Z.leb_spec y x).
    + cbn. split; [exact H1|]. apply IH; [exact H2|lia].
    + cbn. split; [exact Hx|]. split; [lia|exact H2].
Qed.
Lemma sorted_from_weaken : forall l lo lo', sorted_from lo l -> lo' <= lo -> sorted_from lo' l.
Proof. intros [|y l] lo lo' H L; [exact I|]. cbn in *. destruct H. split; [lia|assumption]. Qed.
Lemma isortZ_sorted : forall l, sortedZ (isortZ l).
Proof.
  induction l as [|x l IH]; [exact I|]. unfold isortZ in *. cbn [fold_right].
  set (s := fold_right insZ [] l) in *. destruct s as [|y s]; [exact I|].
  cbn [insZ]. cbn in IH. destruct (Z.leb_spec y x).
  - cbn. apply insZ_sorted; [exact IH|exact H].
  - cbn. split; [lia|exact IH].
Qed.

(* a sorted list is determined by its elements *)
Lemma sorted_from_all_ge : forall l lo, sorted_from lo l -> forall y, In y l -> lo <= y.
Proof.
  induction l as [|x l IH]; intros lo H y Hy; [destruct Hy|]. cbn in H. destruct H as [H1 H2].
  destruct Hy as [<- | Hy]; [exact H1|]. specialize (IH x H2 y Hy). lia.
Qed.
Lemma sorted_perm_eq : forall a b, sortedZ a -> sortedZ b -> Permutation a b -> a = b.
Proof.
  induction a as [|x a IH]; intros b Ha Hb P.
  - apply Permutation_nil in P. subst; reflexivity.
  - destruct b as [|y b]; [apply Permutation_sym, Permutation_nil in P; discriminate|].
    cbn in Ha, Hb.
    assert (x = y).
    { assert (I1 : In x (y :: b)) by (apply (Permutation_in _ P); left; reflexivity).
      assert (I2 : In y (x :: a)) by (apply (Permutation_in _ (Permutation_sym P)); left; reflexivity).
      destruct I1 as [E|I1]; [auto|]. destruct I2 as [E|I2]; [auto|].
      pose proof (sorted_from_all_ge _ _ Hb _ I1). pose proof (sorted_from_all_ge _ _ Ha _ I2). lia. }
    subst y. f_equal. apply IH.
    + destruct a; [exact I|]. cbn in Ha. destruct Ha; assumption.
    + destruct b; [exact I|]. cbn in Hb. destruct Hb; assumption.
    + apply Permutation_cons_inv in P. exact P.
Qed.

Lemma isortZ_sortZ : forall l, isortZ l = sortZ l.
Proof.
  intros l. apply sorted_perm_eq; [apply isortZ_sorted|apply sortZ_sorted|].
  eapply perm_trans; [apply Permutation_sym, isortZ_perm|apply sortZ_perm].
Qed.
Lemma sort_cells_tcells : forall l, sort_cells (tcells l) = tcells (sortZ l).
Proof. intros. rewrite sort_cells_isortZ, isortZ_sortZ. reflexivity. Qed.

(* ---------- durations, masks ---------- *)
Definition durations (l : iset) : list Z := map (fun I => snd I - fst I) l.
Lemma sub_seconds_firsts : forall l, bin_cells Sub (tcells (seconds l)) (tcells (firsts l)) = tcells (durations l).
Proof.
  induction l as [|[s e] l IH]; [reflexivity|]. unfold bin_cells, seconds, firsts, durations in *.
  cbn [map]. rewrite !tcells_cons, map2_cons. rewrite sub_tcell, IH. reflexivity.
Qed.
Lemma zlen_firsts' : forall l : iset, zlen (firsts l) = zlen l.
Proof. intros. apply zlen_map'. Qed.
Lemma zlen_seconds' : forall l : iset, zlen (seconds l) = zlen l.
Proof. intros. apply zlen_map'. Qed.

Definition bcells (m : list bool) : list sval := map VBool m.
Lemma cmp_gt_durations : forall thr l,
  cmp_cells Gt (tcell thr) (tcells (durations l)) = bcells (map (fun I => thr <? snd I - fst I) l).
Proof.
  intros. unfold cmp_cells, tcells, durations, bcells. rewrite !map_map. apply map_ext. intros I. rewrite gt_tcell. reflexivity.
Qed.
Lemma cmp_lt_durations : forall thr l,
  cmp_cells Lt (tcell thr) (tcells (durations l)) = bcells (map (fun I => snd I - fst I <? thr) l).
Proof.
  intros. unfold cmp_cells, tcells, durations, bcells. rewrite !map_map. apply map_ext. intros I. rewrite lt_tcell. reflexivity.
Qed.
Lemma zlen_bcells : forall m, zlen (bcells m) = zlen m.
Proof. intros. apply zlen_map'. Qed.

Lemma mask_rows_icells : forall (f : Z * Z -> bool) l,
  mask_rows 2 (icells l) (bcells (map f l)) = icells (filter f l).
Proof.
  induction l as [|[s e] l IH]; [reflexivity|]. unfold icells, bcells in *. cbn [flat_map map app mask_rows truthy firstn skipn filter].
  rewrite IH. destruct (f (s, e)); reflexivity.
Qed.
Lemma count_true_bcells : forall (f : Z * Z -> bool) l, count_true (bcells (map f l)) = zlen (filter f l).
Proof.
  induction l as [|I l IH]; [reflexivity|]. unfold count_true, bcells in *. cbn [map filter truthy].
  destruct (f I); [rewrite !zlen_cons, IH; reflexivity|exact IH].
Qed.

Lemma maskl_tcells : forall l m, maskl (tcells l) (bcells m) = tcells (map fst (filter snd (combine l m))).
Proof.
  induction l as [|x l IH]; intros m; [reflexivity|]. destruct m as [|b m]; [reflexivity|].
  rewrite tcells_cons. unfold bcells in *. cbn [map combine filter snd]. rewrite maskl_cons. cbn [truthy].
  rewrite IH. destruct b; reflexivity.
Qed.

(* ---------- sums ---------- *)
Lemma sum_flt_tcells_acc : forall l a,
  fold_left (fun acc v => fadd acc (to_flt v)) (tcells l) (Some (inject_Z a)) = Some (inject_Z (a + fold_right Z.add 0 l)).
Proof.
  induction l as [|x l IH]; intros a; [cbn; rewrite Z.add_0_r; reflexivity|].
  rewrite tcells_cons. cbn [fold_left fold_right]. unfold tcell at 1. cbn [to_flt]. rewrite fadd_inj, IH.
  f_equal. f_equal. lia.
Qed.
Lemma sum_cells_tcells : forall l, sum_cells DFlt (tcells l) = tcell (fold_right Z.add 0 l).
Proof. intros. unfold sum_cells, sum_flt. change 0%Q with (inject_Z 0). rewrite sum_flt_tcells_acc. reflexivity. Qed.
Lemma sum_durations : forall l, fold_right Z.add 0 (durations l) = tot_length l.
Proof. induction l as [|[s e] l IH]; [reflexivity|]. cbn. unfold durations in IH. rewrite IH. reflexivity. Qed.

(* ---------- objects ---------- *)
Lemma col_of_iset_0 : forall l, col_of (iset_arr l) 0 = GOk (tarr (firsts l)).
Proof. intros. unfold col_of, iset_arr, tarr. cbn [in_range Z.leb Z.ltb Z.compare andb]. rewrite column_icells_0. reflexivity. Qed.
Lemma col_of_iset_1 : forall l, col_of (iset_arr l) 1 = GOk (tarr (seconds l)).
Proof. intros. unfold col_of, iset_arr, tarr. cbn [in_range Z.leb Z.ltb Z.compare andb]. rewrite column_icells_1. reflexivity. Qed.
Lemma length_firsts_seconds : forall l : iset, length (firsts l) = length (seconds l).
Proof. intros. unfold firsts, seconds. rewrite !map_length. reflexivity. Qed.

(* start of a refinement proof: unfold the public entry point and evaluate symbolically *)
Ltac gstart := unfold grun_env, call_depth, run_body; gsimp.

(* unconditional evaluation facts, applied between two rounds of symbolic evaluation *)
#[export] Hint Rewrite col_of_iset_0 col_of_iset_1 coerce_cells_tcells coerce_cells_icells zlen_tcells zlen_firsts' zlen_seconds'
  sub_seconds_firsts cmp_gt_durations cmp_lt_durations zlen_bcells Z.eqb_refl diff_all_pos sort_cells_tcells
  sum_cells_tcells sum_durations : glue.
Ltac gsteps := repeat (progress (autorewrite with glue); gsimp).

Lemma index_cell_single : forall c, index_cell [c] 0 = Some c.
Proof. reflexivity. Qed.
#[export] Hint Rewrite index_cell_single : glue.

(* ---------- single cells of an interval set ---------- *)
Lemma nthZ_icells_first : forall s e l, nthZ (icells ((s, e) :: l)) 0 = tcell s.
Proof. reflexivity. Qed.
Lemma nthZ_icells_last : forall l, l <> [] -> nthZ (icells l) ((zlen l - 1) * 2 + 1) = tcell (snd (last l (0, 0))).
Proof.
  induction l as [|[s e] l IH]; intros H; [contradiction|].
  destruct l as [|I l].
  - reflexivity.
  - specialize (IH ltac:(discriminate)). rewrite zlen_cons.
    change (icells ((s, e) :: I :: l)) with (tcell s :: tcell e :: icells (I :: l)).
    unfold nthZ in *. rewrite zlen_cons in *.
    replace (Z.to_nat ((zlen l + 1 + 1 - 1) * 2 + 1)) with (S (S (Z.to_nat ((zlen l + 1 - 1) * 2 + 1)))) by (unfold zlen; lia).
    cbn [nth]. rewrite IH. reflexivity.
Qed.

Lemma wrap_nonneg : forall n i, 0 <= i -> wrap n i = i.
Proof. intros. unfold wrap. destruct (Z.ltb_spec i 0); [lia|reflexivity]. Qed.
Lemma wrap_neg : forall n i, i < 0 -> wrap n i = i + n.
Proof. intros. unfold wrap. destruct (Z.ltb_spec i 0); [reflexivity|lia]. Qed.
Lemma in_range_true : forall i n, 0 <= i < n -> in_range i n = true.
Proof. intros. unfold in_range. apply andb_true_iff. split; [apply Z.leb_le|apply Z.ltb_lt]; lia. Qed.

Lemma index2_first : forall l,
  prim_index2 (GArr (iset_arr l)) (GSc (VInt 0)) (GSc (VInt 0))
  = match l with [] => GErr EIndex | iv :: _ => GOk (tsc (fst iv)) end.
Proof.
  intros [|[s e] l]; [reflexivity|]. unfold prim_index2, iset_arr. rewrite zlen_cons.
  rewrite !wrap_nonneg by lia. rewrite !in_range_true by (unfold zlen; lia). cbn [andb]. reflexivity.
Qed.
Lemma index2_last : forall l,
  prim_index2 (GArr (iset_arr l)) (GSc (VInt (-1))) (GSc (VInt 1))
  = match l with [] => GErr EIndex | _ :: _ => GOk (tsc (snd (last l (0, 0)))) end.
Proof.
  intros l. destruct l as [|iv l]; [reflexivity|]. set (L := iv :: l).
  assert (HL : 0 < zlen L) by (unfold L; rewrite zlen_cons; unfold zlen; lia).
  unfold prim_index2, iset_arr. rewrite wrap_neg by lia. rewrite wrap_nonneg by lia.
  rewrite !in_range_true by lia. cbn [andb]. replace (-1 + zlen L) with (zlen L - 1) by lia.
  rewrite nthZ_icells_last by (unfold L; discriminate). reflexivity.
Qed.
Lemma alen_iset_arr : forall l, alen (iset_arr l) = zlen l.
Proof. reflexivity. Qed.
Lemma alen_A1 : forall dt d, alen (A1 dt d) = zlen d.
Proof. reflexivity. Qed.
#[export] Hint Rewrite index2_first index2_last alen_iset_arr alen_A1 : glue.

(* ---------- x[k] ---------- *)
Lemma prim_index_single : forall dt c, prim_index (GArr (A1 dt [c])) (GSc (VInt 0)) = GOk (GSc (coerce dt c)).
Proof. reflexivity. Qed.
Lemma prim_index_iset_mask : forall (f : Z * Z -> bool) A,
  prim_index (GArr (iset_arr A)) (GArr (A1 DBool (bcells (map f A)))) = GOk (GArr (iset_arr (filter f A))).
Proof.
  intros. unfold prim_index, iset_arr. rewrite zlen_bcells, zlen_map', Z.eqb_refl.
  rewrite count_true_bcells. change (Z.to_nat 2) with 2%nat. rewrite mask_rows_icells. reflexivity.
Qed.
#[export] Hint Rewrite prim_index_single prim_index_iset_mask coerce_tcell : glue.
Lemma to_flt_tcell : forall t, VFlt (to_flt (tcell t)) = tcell t.
Proof. reflexivity. Qed.
#[export] Hint Rewrite to_flt_tcell : glue.
