(* Refinement of IntervalSet.merge_close_intervals (time_units = "s") as translated in Gen/Glue.v against the hand model
   [merge_close] (Model/Store.v, OpMergeClose):
       tojoin = (start[1:] - end[0:-1]) > threshold                      (STRICT: a gap equal to the threshold is bridged)
       start  = hstack(start[0], start[1:][tojoin]);  end = hstack(end[0:-1][tojoin], end[-1])
   and both re-enter the constructor.  For every interval list (no canonicity needed) and every threshold. *)
From Coq Require Import ZArith QArith String List Bool Lia.
From Verif Require Import Base.Prelude Model.Restrict Model.Iset Model.Store.
From Verif Require Import Jit.Lang Jit.Interp Jit.ArrayFacts Glue.Lang Glue.Interp Glue.Kenv Glue.Facts Gen.Glue Glue.Ref_init.
From Verif Require Import Inv.Jitrestrict_func.
Import ListNotations.
Open Scope Z_scope.

(* ---------- the model, column by column ---------- *)
Definition mfilter {X} (l : list X) (m : list bool) : list X := map fst (filter snd (combine l m)).
Fixpoint tojoin (thr ce : Z) (r : iset) : list bool :=
  match r with [] => [] | (s, e) :: r' => (thr <? s - ce) :: tojoin thr e r' end.
Fixpoint gaps (ce : Z) (r : iset) : list Z :=
  match r with [] => [] | (s, e) :: r' => (s - ce) :: gaps e r' end.

Lemma length_tojoin : forall thr r ce, length (tojoin thr ce r) = length r.
Proof. induction r as [|[s e] r IH]; intros; [reflexivity|]. cbn. rewrite IH. reflexivity. Qed.
Lemma tojoin_gaps : forall thr r ce, map (fun g => thr <? g) (gaps ce r) = tojoin thr ce r.
Proof. induction r as [|[s e] r IH]; intros; [reflexivity|]. cbn. rewrite IH. reflexivity. Qed.

Lemma merge_firsts : forall thr r cs ce,
  map fst (merge_close_go cs ce thr r) = cs :: mfilter (firsts r) (tojoin thr ce r).
Proof.
  induction r as [|[s e] r IH]; intros cs ce; [reflexivity|].
  cbn [merge_close_go tojoin firsts map combine]. unfold mfilter in *. cbn [combine filter snd].
  destruct (Z.leb_spec (s - ce) thr) as [H|H].
  - replace (thr <? s - ce) with false by (symmetry; apply Z.ltb_ge; lia). apply IH.
  - replace (thr <? s - ce) with true by (symmetry; apply Z.ltb_lt; lia). cbn [map fst]. rewrite IH. reflexivity.
Qed.

Lemma removelast_cons2 : forall {X} (a b : X) l, removelast (a :: b :: l) = a :: removelast (b :: l).
Proof. reflexivity. Qed.
Lemma last_cons2 : forall {X} (a b : X) l d, last (a :: b :: l) d = last (b :: l) d.
Proof. reflexivity. Qed.

Lemma merge_seconds : forall thr r cs ce,
  map snd (merge_close_go cs ce thr r)
  = (mfilter (removelast (ce :: seconds r)) (tojoin thr ce r) ++ [last (ce :: seconds r) 0])%list.
Proof.
  induction r as [|[s e] r IH]; intros cs ce; [reflexivity|].
  cbn [merge_close_go tojoin seconds map]. fold (seconds r).
  rewrite removelast_cons2, last_cons2. unfold mfilter in *. cbn [combine filter snd].
  destruct (Z.leb_spec (s - ce) thr) as [H|H].
  - replace (thr <? s - ce) with false by (symmetry; apply Z.ltb_ge; lia). apply IH.
  - replace (thr <? s - ce) with true by (symmetry; apply Z.ltb_lt; lia). cbn [map fst app snd]. rewrite IH. reflexivity.
Qed.

(* ---------- the primitives on these columns ---------- *)
Lemma pyslice_tail : forall x l m, m = zlen l + 1 -> pyslice (tcells (x :: l)) 1 m = tcells l.
Proof.
  intros x l m ->. rewrite tcells_cons. unfold pyslice, norm_bound, slice. rewrite zlen_cons, zlen_tcells.
  set (n := zlen l). assert (0 <= n) by (unfold n, zlen; lia).
  replace (1 <? 0) with false by reflexivity. replace (n + 1 <? 0) with false by (symmetry; apply Z.ltb_ge; lia).
  rewrite (Z.min_r (n + 1) 1) by lia. rewrite Z.min_id. rewrite !Z.max_r by lia.
  replace (Z.to_nat 1) with 1%nat by reflexivity. cbn [skipn].
  replace (Z.to_nat (n + 1 - 1)) with (length (tcells l)) by (unfold n, zlen, tcells; rewrite map_length; lia).
  apply firstn_all.
Qed.

Lemma removelast_firstn_len : forall {X} (l : list X), removelast l = firstn (length l - 1) l.
Proof.
  induction l as [|x l IH]; [reflexivity|]. destruct l as [|y l]; [reflexivity|].
  rewrite removelast_cons2, IH. cbn [length]. replace (S (S (length l)) - 1)%nat with (S (S (length l) - 1)) by lia.
  reflexivity.
Qed.
Lemma pyslice_init : forall l, pyslice (tcells l) 0 (-1) = tcells (removelast l).
Proof.
  intros. unfold pyslice, norm_bound, slice. set (n := zlen (tcells l)). assert (Hn : 0 <= n) by (unfold n, zlen; lia).
  replace (0 <? 0) with false by reflexivity. replace (-1 <? 0) with true by reflexivity.
  rewrite (Z.min_r n 0) by lia. rewrite Z.max_id. replace (Z.to_nat 0) with 0%nat by reflexivity. cbn [skipn].
  unfold tcells. rewrite removelast_firstn_len, firstn_map. f_equal.
  unfold n, zlen, tcells. rewrite map_length.
  destruct l as [|x l]; [reflexivity|]. cbn [length]. rewrite Z.min_r by lia. f_equal. rewrite Z.max_r by lia. lia.
Qed.

Lemma length_removelast_cons : forall {X} (a : X) l, length (removelast (a :: l)) = length l.
Proof. intros. rewrite removelast_firstn_len. cbn [length]. rewrite firstn_length. cbn [length]. lia. Qed.

Lemma sub_gaps : forall r ce,
  bin_cells Sub (tcells (firsts r)) (tcells (removelast (ce :: seconds r))) = tcells (gaps ce r).
Proof.
  induction r as [|[s e] r IH]; intros ce; [reflexivity|].
  cbn [firsts seconds map gaps]. fold (firsts r). fold (seconds r). rewrite removelast_cons2.
  unfold bin_cells in *. rewrite !tcells_cons, map2_cons, sub_tcell, IH. reflexivity.
Qed.
Lemma cmp_gt_gaps : forall thr r ce, cmp_cells Gt (tcell thr) (tcells (gaps ce r)) = bcells (tojoin thr ce r).
Proof.
  intros. rewrite <- tojoin_gaps. unfold cmp_cells, tcells, bcells. rewrite !map_map. apply map_ext. intros g.
  rewrite gt_tcell. reflexivity.
Qed.

Lemma prim_index_head : forall x l, prim_index (GArr (A1 DFlt (tcells (x :: l)))) (GSc (VInt 0)) = GOk (GSc (tcell x)).
Proof.
  intros. unfold prim_index, index_cell. rewrite wrap_nonneg by lia. rewrite in_range_true; [reflexivity|].
  rewrite zlen_tcells, zlen_cons. unfold zlen. lia.
Qed.
Lemma nthZ_tcells_last : forall l, l <> [] -> nthZ (tcells l) (zlen l - 1) = tcell (last l 0).
Proof.
  induction l as [|x l IH]; intros H; [contradiction|]. destruct l as [|y l]; [reflexivity|].
  specialize (IH ltac:(discriminate)). rewrite last_cons2, tcells_cons. unfold nthZ in *. rewrite !zlen_cons in *.
  replace (Z.to_nat (zlen l + 1 + 1 - 1)) with (S (Z.to_nat (zlen l + 1 - 1))) by (unfold zlen; lia).
  cbn [nth]. exact IH.
Qed.
Lemma prim_index_last : forall x l,
  prim_index (GArr (A1 DFlt (tcells (x :: l)))) (GSc (VInt (-1))) = GOk (GSc (tcell (last (x :: l) 0))).
Proof.
  intros. unfold prim_index, index_cell. rewrite wrap_neg by lia. rewrite zlen_tcells.
  assert (0 < zlen (x :: l)) by (rewrite zlen_cons; unfold zlen; lia).
  rewrite in_range_true by lia. replace (-1 + zlen (x :: l)) with (zlen (x :: l) - 1) by lia.
  rewrite nthZ_tcells_last by discriminate. reflexivity.
Qed.
Lemma prim_index_mask : forall l m, length l = length m ->
  prim_index (GArr (A1 DFlt (tcells l))) (GArr (A1 DBool (bcells m))) = GOk (GArr (A1 DFlt (tcells (mfilter l m)))).
Proof.
  intros l m H. unfold prim_index, mask_chk. rewrite zlen_tcells, zlen_bcells, (zlen_eq_of_length _ _ H).
  rewrite maskl_tcells. reflexivity.
Qed.
Lemma coerce_cells_cons_tcell : forall x l, coerce_cells DFlt (tcell x :: tcells l) = tcells (x :: l).
Proof. intros. rewrite <- tcells_cons. apply coerce_cells_tcells. Qed.
Lemma coerce_cells_snoc_tcell : forall l x, coerce_cells DFlt (tcells l ++ [tcell x]) = tcells (l ++ [x]).
Proof. intros. change [tcell x] with (tcells [x]). rewrite <- tcells_app. apply coerce_cells_tcells. Qed.

Lemma length_mfilter : forall {X Y} (a : list X) (b : list Y) m, length a = length m -> length b = length m ->
  length (mfilter a m) = length (mfilter b m).
Proof.
  intros X Y a b m. revert a b. induction m as [|c m IH]; intros a b Ha Hb.
  - destruct a, b; try discriminate; reflexivity.
  - destruct a as [|x a], b as [|y b]; try discriminate. unfold mfilter in *. cbn [combine filter snd].
    destruct c; cbn [map length]; [f_equal|]; apply IH; cbn in Ha, Hb; lia.
Qed.

Theorem ref_merge_close : forall K A thr,
  K_ctor_at K (firsts (merge_close A thr)) (seconds (merge_close A thr)) ->
  grun K g_IntervalSet_merge_close_intervals [iset_val A; tsc thr]
  = GOk (iset_val (mk_iset_pairs (merge_close A thr))).
Proof.
  intros K A thr HF. destruct A as [|[s0 e0] r].
  - unfold grun. gstart. gsteps. change (GArr (A1 DFlt [])) with (tarr []).
    rewrite call_init by (try exact HF; reflexivity). reflexivity.
  - unfold grun. gstart. gsteps.
    replace (zlen ((s0, e0) :: r) =? 0) with false
      by (symmetry; apply Z.eqb_neq; rewrite zlen_cons; unfold zlen; lia).
    gsimp. gsteps.
    cbn [firsts seconds map fst snd]. fold (firsts r). fold (seconds r).
    rewrite !(pyslice_tail s0 (firsts r)) by (rewrite zlen_cons, zlen_firsts'; reflexivity).
    rewrite !pyslice_init. gsimp.
    rewrite !zlen_tcells.
    rewrite (zlen_eq_of_length (firsts r) (removelast (e0 :: seconds r)))
      by (rewrite length_removelast_cons; apply length_firsts_seconds).
    gsimp. rewrite sub_gaps. gsteps. rewrite cmp_gt_gaps.
    repeat (progress (unfold tarr;
      rewrite ?app_nil_r, ?prim_index_head, ?prim_index_last, ?pyslice_init, ?coerce_cells_cons_tcell, ?coerce_cells_snoc_tcell;
      rewrite ?(pyslice_tail s0 (firsts r)) by (rewrite ?zlen_cons, ?zlen_firsts'; reflexivity);
      rewrite ?prim_index_mask
        by (rewrite ?length_removelast_cons, length_tojoin; unfold firsts, seconds; rewrite map_length; reflexivity));
      gsimp).
    change (GArr (A1 DFlt (tcells ?l))) with (tarr l).
    unfold merge_close, firsts, seconds in HF. rewrite merge_firsts, merge_seconds in HF. fold (seconds r) in HF.
    rewrite call_init; [|exact HF|].
    + unfold mk_iset_pairs, merge_close. rewrite merge_firsts, merge_seconds. reflexivity.
    + cbn [length]. rewrite app_length. cbn [length]. rewrite Nat.add_1_r. f_equal.
      apply length_mfilter.
      * unfold firsts. rewrite map_length, length_tojoin. reflexivity.
      * rewrite length_removelast_cons, length_tojoin. unfold seconds. rewrite map_length. reflexivity.
Qed.

Corollary ref_merge_close_all : forall K A thr, K_fix_iset K ->
  grun K g_IntervalSet_merge_close_intervals [iset_val A; tsc thr]
  = GOk (iset_val (mk_iset_pairs (merge_close A thr))).
Proof. intros K A thr HF. apply ref_merge_close. apply K_ctor_of_all; [exact HF|apply length_firsts_seconds]. Qed.

(* gaps of 5, 10 and 11 ticks with threshold 10: the first two are bridged (strict comparison) *)
Example merge_close_example :
  grun kenv_model_g1 g_IntervalSet_merge_close_intervals
    [iset_val [(0, 10000); (10005, 20000); (20010, 30000); (30011, 40000)]; tsc 10]
  = GOk (iset_val [(0, 30000); (30011, 40000)]).
Proof. vm_compute. reflexivity. Qed.
