(* Glue.KenvText: the kernel environment that RUNS THE TRANSLATED KERNEL TEXT (Gen/Kernels.v) in Jit.Interp on the very
   arrays the glue passes.  Definitions only (proofs: Glue/Compose.v); also extracted (Extract/ExtractGlue.v) as the
   kernel environment of the execution tie harness/gluecmp.py, so that what runs there is glue text + kernel text.

   Unit: the glue level counts TICKS.  The refinement theorems of the kernels whose text contains a float literal or
   np.round(., 9) (_jitfix_iset, jitcount, _jitbin_array, jitthreshold) are stated for times in SECONDS (t / 10^9):
   [dn] / [up] are that exact change of unit, applied only to the TIME arguments / results listed in [roles].
   A string argument (jitthreshold's method) becomes its integer tag, as in tools/py2jit.py. *)
From Coq Require Import ZArith QArith String List Bool.
From Verif Require Import Jit.Lang Jit.Interp Gen.Kernels Glue.Lang Glue.Interp Glue.Kenv.
Import ListNotations.
Open Scope Z_scope.
Local Open Scope string_scope.
Local Open Scope Z_scope.

Definition e9q : Q := 1000000000 # 1.
Definition dn (c : sval) : sval := match c with VFlt (Some q) => VFlt (Some (Qred (q / e9q))) | c => c end.
Definition up (c : sval) : sval := match c with VFlt (Some q) => VFlt (Some (Qred (q * e9q))) | c => c end.
Definition mapv (f : sval -> sval) (v : value) : value :=
  match v with
  | Sc s => Sc (f s)
  | Ar (A1 dt d) => Ar (A1 dt (map f d))
  | Ar (A2 dt r c d) => Ar (A2 dt r c (map f d))
  | Undef => Undef
  end.
Definition tag_of (s : string) : option Z :=
  if String.eqb s "above" then Some 0 else if String.eqb s "below" then Some 1
  else if String.eqb s "aboveequal" then Some 2 else if String.eqb s "belowequal" then Some 3 else None.
Definition to_jit (v : gval) : option value :=
  match v with
  | GArr a => Some (Ar a)
  | GSc s => Some (Sc s)
  | GStr m => option_map (fun t => Sc (VInt t)) (tag_of m)
  | _ => None
  end.
Fixpoint to_jits (l : list gval) : option (list value) :=
  match l with
  | [] => Some []
  | v :: r => match to_jit v, to_jits r with Some a, Some b => Some (a :: b) | _, _ => None end
  end.
Definition run_text (fuel : nat) (name : string) (args : list value) : option (list value) :=
  match find_func all_kernels name with
  | Some g => match Kernels.run fuel g args with Return rs => Some rs | _ => None end
  | None => None
  end.

(* which arguments / results of a kernel are times to be passed in seconds (true) *)
Definition roles (name : string) : option (list bool * list bool) :=
  if String.eqb name "_jitfix_iset" then Some ([true; true], [true; false])
  else if String.eqb name "jitcount" then Some ([true; true; true; true], [true; false])
  else if String.eqb name "_jitbin_array" then Some ([false; true; false; true; true; true], [true; false])
  else if String.eqb name "jitthreshold" then Some ([true; false; true; true; false; false], [true; false; true; true])
  else if String.eqb name "jitunion" || String.eqb name "jitintersect" || String.eqb name "jitdiff"
          || String.eqb name "jitin_interval" || String.eqb name "jitrestrict"
          || String.eqb name "jitrestrict_with_count" || String.eqb name "jitremove_nan"
          || String.eqb name "jitvaluefrom" then Some ([], [])
  else None.

(* apply f to the values flagged true; an empty flag list means "none"; otherwise the lengths must agree *)
Fixpoint conv (f : sval -> sval) (flags : list bool) (vs : list value) : option (list value) :=
  match flags, vs with
  | [], _ => Some vs
  | b :: fr, v :: vr => option_map (cons (if b then mapv f v else v)) (conv f fr vr)
  | _ :: _, [] => None
  end.

Definition kenv_text (fuel : nat) : kenv := fun name args =>
  match roles name, to_jits args with
  | Some (ra, rr), Some vs =>
      match conv dn ra vs with
      | Some vs' =>
          match run_text fuel name vs' with
          | Some rs => option_map of_jit_result (conv up rr rs)
          | None => None
          end
      | None => None
      end
  | _, _ => None
  end.

(* ---------- constructors of time series, for the execution tie only ----------
   The G3 theorems (Glue/Ref_base_*.v) leave the constructor calls `x._define_instance(t, ep, values=d)`,
   `_initialize_tsd_output(x, d, time_index=t, time_support=ep)`, `Tsd(t=, d=, time_support=)` ABSTRACT: they state which
   arrays the routine hands to the constructor, in which order.  To run the translated routines against the real methods,
   [kenv_ctor] packages the arguments as the object the real constructor builds WHEN THE TIMES ALREADY LIE INSIDE THE
   SUPPORT AND ON THE NS LATTICE (then its restriction and rounding are the identity; the harness generates only such
   cases): an empty index gets the empty support (the _Base.__init__ rule), a missing support the span of the index. *)
Definition empty_iset_obj : gval := GObj "IntervalSet" [("values", GArr (A2 DFlt 0 2 []))].
Definition span_iset_obj (cells : list sval) : gval :=
  match cells with
  | [] => empty_iset_obj
  | c :: _ => let l := last cells c in
              if eval_cmp Lt c l then GObj "IntervalSet" [("values", GArr (A2 DFlt 1 2 [c; l]))] else empty_iset_obj
  end.
Definition mk_series (t vals ep : gval) : option gval :=
  match t with
  | GArr (A1 _ cells) =>
      let sup := match cells, ep with
                 | [], _ => Some empty_iset_obj
                 | _, GNone => Some (span_iset_obj cells)
                 | _, GObj _ _ => Some ep
                 | _, _ => None
                 end in
      match sup, vals with
      | Some s, GNone => Some (GObj "Ts" [("t", t); ("time_support", s)])
      | Some s, GArr _ => Some (GObj "Tsd" [("t", t); ("values", vals); ("time_support", s)])
      | _, _ => None
      end
  | _ => None
  end.
Definition kenv_ctor : kenv := fun name args =>
  if String.eqb name "_define_instance" then
    match args with [_; t; ep; vals] => mk_series t vals ep | _ => None end
  else if String.eqb name "_initialize_tsd_output" then
    match args with [_; vals; t; ep] => mk_series t vals ep | _ => None end
  else if String.eqb name "Tsd" then
    match args with [t; vals; ep] => mk_series t vals ep | _ => None end
  else None.

(* the environment of the execution tie: kernel text with a large fuel, packaging constructors *)
Definition exec_fuel : nat := 400000.      (* a constant of its own: built once in the extracted code *)
Definition kenv_exec : kenv := fun name args =>
  match kenv_text exec_fuel name args with Some v => Some v | None => kenv_ctor name args end.
