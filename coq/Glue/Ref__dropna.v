(* Refinement of _dropna (pynapple/core/_core_functions.py) as translated in Gen/Glue.v ([g__dropna]; 1-D data declared,
   so `ndim` is dropped and index_nan = np.isnan(data_array)), against the hand model of Model/Threshold.v
   ([kept_times], [dropna_support]) in the way Model/Store.v's OpDropna uses it.

   Encoding: time_array = [tarr ts] (ticks); data_array = [farr data] with [data : list sval] ARBITRARY float cells;
   the mask of kept rows is  kp_of data = map (fun c => negb (isnan_sc c)) data,  so that index_nan = isnan_cells data
   = nan_cells (kp_of data), the very mask argument of the refinement theorem of jitremove_nan
   (Inv/Jitremove_nan_func.v).  starts / ends are ANY values (they are only passed through or overwritten);
   update_time_support = GSc (VBool b), both values.

   The four branches of the routine, for every kernel environment K:
     (1) every row NaN (the EMPTY series included: np.all of an empty mask is True)   [ref_dropna_all_nan]
           -> (empty, empty, None, None) if update_time_support else (empty, empty, starts, ends)
     (2) some but not all rows NaN, update_time_support                               [ref_dropna_some_update]
           -> (time[tokeep], data[tokeep], firsts S, seconds S),  S = dropna_support (combine ts kp):
              the kernel returns the raw runs R (contract [K_remove_nan_at], kernel model [raw_runs]); the caller's
              `to_fix = starts == ends; if np.any(to_fix): ends[to_fix] += 1e-6` is exactly [map widen1] in BOTH
              sub-branches (no singleton run: map widen1 R = R), and dropna_support = map widen1 raw_runs
     (3) some but not all rows NaN, not update_time_support                           [ref_dropna_some_keep]
           -> (time[tokeep], data[tokeep], starts, ends)        (no kernel call)
     (4) no NaN                                                                       [ref_dropna_no_nan]
           -> the four arguments unchanged
   and the four together as one equation [ref_dropna] with right-hand side [dropna_spec].
   Glue text + kernel text: Glue/Compose__dropna.v. *)
From Coq Require Import ZArith QArith String List Bool Lia.
From Verif Require Import Base.Prelude Model.Restrict Model.Iset Model.Threshold.
From Verif Require Import Jit.Lang Jit.Interp Jit.ArrayFacts Glue.Lang Glue.Interp Glue.Kenv Glue.Facts Gen.Glue.
From Verif Require Import Inv.Jitrestrict_func Inv.Jitremove_nan_func.
Import ListNotations.
Open Scope Z_scope.
Local Open Scope string_scope.
Local Open Scope Z_scope.

(* ---------- encodings ---------- *)
(* row kept = not NaN *)
Definition kp_of (data : list sval) : list bool := map (fun c => negb (isnan_sc c)) data.
Definition kept_cells (data : list sval) : list sval := map fst (filter snd (combine data (kp_of data))).
Definition farr (d : list sval) : gval := GArr (A1 DFlt d).

(* pointwise contract of the one kernel call: jitremove_nan(time_array, index_nan) answers the two arrays of the raw
   runs of kept rows (the kernel's functional model [raw_runs], Inv/Jitremove_nan_func.v; arguments unchanged: a
   "ticks kernel") *)
Definition K_remove_nan_at (K : kenv) (ts : list Z) (kp : list bool) : Prop :=
  K "jitremove_nan" [tarr ts; GArr (A1 DBool (nan_cells kp))]
  = Some (GTup [tarr (firsts (raw_runs (combine ts kp))); tarr (seconds (raw_runs (combine ts kp)))]).

(* ---------- masks ---------- *)
Lemma length_kp_of : forall data, length (kp_of data) = length data.
Proof. intros. unfold kp_of. apply map_length. Qed.
Lemma isnan_cells_nan : forall data, isnan_cells data = nan_cells (kp_of data).
Proof.
  intros. unfold isnan_cells, nan_cells, Jitremove_nan_func.bcells, kp_of. rewrite !map_map. apply map_ext.
  intros c. rewrite negb_involutive. reflexivity.
Qed.
Lemma not_nan_cells : forall kp, not_cells (nan_cells kp) = bcells kp.
Proof.
  intros. unfold not_cells, nan_cells, Jitremove_nan_func.bcells, bcells. rewrite !map_map. apply map_ext.
  intros b. cbn [truthy]. rewrite negb_involutive. reflexivity.
Qed.
Lemma all_nan_cells : forall kp, all_cells (nan_cells kp) = forallb negb kp.
Proof.
  induction kp as [|b kp IH]; [reflexivity|]. unfold all_cells, nan_cells, Jitremove_nan_func.bcells in *.
  cbn [map forallb truthy]. rewrite IH. reflexivity.
Qed.
Lemma any_nan_cells : forall kp, any_cells (nan_cells kp) = negb (forallb (fun b => b) kp).
Proof.
  induction kp as [|b kp IH]; [reflexivity|]. unfold any_cells, nan_cells, Jitremove_nan_func.bcells in *.
  cbn [map existsb forallb truthy]. rewrite IH. destruct b; reflexivity.
Qed.
Lemma forallb_snd_combine : forall (ts : list Z) kp, length kp = length ts ->
  forallb (fun p => snd p) (combine ts kp) = forallb (fun b => b) kp.
Proof.
  induction ts as [|x ts IH]; intros [|b kp] H; try discriminate; [reflexivity|].
  cbn [combine forallb snd]. rewrite IH by (cbn in H; lia). reflexivity.
Qed.

(* ---------- x[np.where(m)[0]] ---------- *)
Lemma nthZ_app_mid : forall (pre : list sval) x d, nthZ (pre ++ x :: d) (zlen pre) = x.
Proof. intros. unfold nthZ, zlen. rewrite Nat2Z.id. rewrite app_nth2 by lia. rewrite Nat.sub_diag. reflexivity. Qed.

Lemma gather_where_gen : forall m d pre, length m = length d ->
  forallb (fun v => in_range (wrap (zlen (pre ++ d)) (to_int v)) (zlen (pre ++ d))) (where_cells (zlen pre) (bcells m)) = true
  /\ map (fun v => nthZ (pre ++ d) (wrap (zlen (pre ++ d)) (to_int v))) (where_cells (zlen pre) (bcells m))
     = map fst (filter snd (combine d m)).
Proof.
  induction m as [|b m IH]; intros d pre H.
  - destruct d; [|discriminate]. split; reflexivity.
  - destruct d as [|x d]; [discriminate|].
    specialize (IH d (pre ++ [x])%list ltac:(cbn in H; lia)).
    rewrite <- app_assoc in IH. cbn [app] in IH.
    replace (zlen (pre ++ [x])) with (zlen pre + 1) in IH by (unfold zlen; rewrite app_length; cbn [length]; lia).
    destruct IH as [I1 I2].
    unfold bcells in *. cbn [map where_cells truthy combine filter snd].
    destruct b; [|split; assumption].
    cbn [forallb map fst to_int]. rewrite I1, I2.
    assert (R : 0 <= zlen pre < zlen (pre ++ x :: d)) by (unfold zlen; rewrite app_length; cbn [length]; lia).
    rewrite wrap_nonneg by lia. rewrite in_range_true by exact R. rewrite nthZ_app_mid. split; reflexivity.
Qed.

Lemma gather_where : forall d m, length m = length d ->
  gather_chk d (where_cells 0 (bcells m)) = Some (map fst (filter snd (combine d m))).
Proof.
  intros d m H. unfold gather_chk. destruct (gather_where_gen m d [] H) as [I1 I2]. cbn [app] in I1, I2.
  change (zlen (@nil sval)) with 0 in I1, I2. rewrite I1, I2. reflexivity.
Qed.

Lemma kept_tcells : forall ts (kp : list bool),
  map fst (filter snd (combine (tcells ts) kp)) = tcells (kept_times (combine ts kp)).
Proof.
  induction ts as [|x ts IH]; intros [|b kp]; try reflexivity.
  rewrite tcells_cons. unfold kept_times in *. cbn [combine filter snd]. destruct b; cbn [map fst]; rewrite IH; reflexivity.
Qed.

(* ---------- starts == ends, ends[to_fix] += 1e-6 ---------- *)
Definition single (I : Z * Z) : bool := fst I =? snd I.
Lemma cmp_eq_runs : forall R : iset, cmp_cells2 Eq (tcells (firsts R)) (tcells (seconds R)) = bcells (map single R).
Proof.
  induction R as [|[s e] R IH]; [reflexivity|]. unfold cmp_cells2, firsts, seconds, bcells in *. cbn [map fst snd].
  rewrite !tcells_cons, map2_cons, eq_tcell, IH. reflexivity.
Qed.
Lemma any_bcells : forall {X} (f : X -> bool) l, any_cells (bcells (map f l)) = existsb f l.
Proof. intros. unfold any_cells, bcells. induction l as [|x l IH]; [reflexivity|]. cbn [map existsb truthy]. rewrite IH. reflexivity. Qed.
Lemma firsts_widen : forall R, firsts (map widen1 R) = firsts R.
Proof. intros. unfold firsts. rewrite map_map. apply map_ext. intros [s e]. reflexivity. Qed.
Lemma aug_widen : forall R : iset,
  aug_mask Add (tcells (seconds R)) (bcells (map single R)) (VFlt (Some (1000 # 1))) = tcells (seconds (map widen1 R)).
Proof.
  induction R as [|[s e] R IH]; [reflexivity|]. unfold aug_mask, seconds, bcells in *. cbn [map fst snd].
  rewrite !tcells_cons, map2_cons, IH. f_equal. unfold single, widen1. cbn [fst snd truthy].
  destruct (s =? e); [apply add_tcell_lit|reflexivity].
Qed.
Lemma no_single_widen : forall R, existsb single R = false -> map widen1 R = R.
Proof.
  induction R as [|[s e] R IH]; intros H; [reflexivity|]. cbn [existsb] in H. apply orb_false_iff in H. destruct H as [H1 H2].
  cbn [map]. rewrite IH by exact H2. unfold widen1, single in *. cbn [fst snd] in *. rewrite H1. reflexivity.
Qed.

Lemma prim_index_where : forall dt d m, length m = length d ->
  prim_index (GArr (A1 dt d)) (GArr (A1 DInt (where_cells 0 (bcells m))))
  = GOk (GArr (A1 dt (map fst (filter snd (combine d m))))).
Proof. intros dt d m H. unfold prim_index. rewrite (gather_where d m H). reflexivity. Qed.

(* ---------- the model side ---------- *)
Lemma all_nan_data_nonempty : forall data, forallb negb (kp_of data) = false -> data <> [].
Proof. intros [|c d] H; [discriminate|discriminate]. Qed.
Lemma all_nan_kept_times : forall (ts : list Z) kp, forallb negb kp = true -> kept_times (combine ts kp) = [].
Proof.
  induction ts as [|x ts IH]; intros [|b kp] H; try reflexivity. cbn [forallb] in H. apply andb_true_iff in H.
  destruct H as [H1 H2]. destruct b; [discriminate|]. unfold kept_times in *. cbn [combine filter snd]. apply IH. exact H2.
Qed.
Lemma all_nan_support : forall (ts : list Z) kp, forallb negb kp = true -> dropna_support (combine ts kp) = [].
Proof.
  unfold dropna_support. induction ts as [|x ts IH]; intros [|b kp] H; try reflexivity. cbn [forallb] in H.
  apply andb_true_iff in H. destruct H as [H1 H2]. destruct b; [discriminate|]. cbn [combine runs_go]. apply IH. exact H2.
Qed.

(* ---------- the four branches ---------- *)
Definition opt_keep (b : bool) (v : gval) : gval := if b then GNone else v.

(* (1) only NaN rows, or no row at all *)
Lemma dropna_all_nan_body : forall K call ts data st en b,
  forallb negb (kp_of data) = true ->
  run_body K call g__dropna [tarr ts; farr data; st; en; GSc (VBool b)]
  = GOk (GTup [farr []; farr []; opt_keep b st; opt_keep b en]).
Proof.
  intros K call ts data st en b Hall. unfold farr. unfold run_body. gsimp. gsteps.
  rewrite !isnan_cells_nan, all_nan_cells, Hall. destruct b; reflexivity.
Qed.
Theorem ref_dropna_all_nan : forall K ts data st en b,
  forallb negb (kp_of data) = true ->
  grun K g__dropna [tarr ts; farr data; st; en; GSc (VBool b)]
  = GOk (GTup [farr []; farr []; opt_keep b st; opt_keep b en]).
Proof. intros. apply dropna_all_nan_body; assumption. Qed.

(* (2) some NaN rows, the support is recomputed *)
Lemma dropna_some_update_body : forall K call ts data st en,
  length data = length ts ->
  forallb negb (kp_of data) = false -> forallb (fun b => b) (kp_of data) = false ->
  K_remove_nan_at K ts (kp_of data) ->
  run_body K call g__dropna [tarr ts; farr data; st; en; GSc (VBool true)]
  = GOk (GTup [tarr (kept_times (combine ts (kp_of data))); farr (kept_cells data);
               tarr (firsts (dropna_support (combine ts (kp_of data))));
               tarr (seconds (dropna_support (combine ts (kp_of data))))]).
Proof.
  intros K call ts data st en HL Hall Hany HK.
  unfold farr. unfold run_body. gsimp. gsteps.
  rewrite !isnan_cells_nan, all_nan_cells, any_nan_cells, Hall, Hany, not_nan_cells. gsimp.
  unfold K_remove_nan_at in HK. rewrite HK. gsimp. gsteps. rewrite cmp_eq_runs, any_bcells. gsimp.
  rewrite dropna_support_raw. set (R := raw_runs (combine ts (kp_of data))).
  assert (L1 : length (kp_of data) = length (tcells ts)) by (unfold tcells; rewrite length_kp_of, map_length; exact HL).
  destruct (existsb single R) eqn:E.
  - (* np.any(to_fix): ends[to_fix] += 1e-6 *)
    rewrite zlen_bcells, zlen_map', Z.eqb_refl, aug_widen, coerce_cells_tcells. gsimp. unfold tarr.
    rewrite !prim_index_where by (exact L1 || apply length_kp_of). gsimp.
    rewrite kept_tcells, firsts_widen. reflexivity.
  - (* no singleton run: ends untouched, and widen1 is the identity on R *)
    gsimp. unfold tarr. rewrite !prim_index_where by (exact L1 || apply length_kp_of). gsimp.
    rewrite kept_tcells, (no_single_widen R E). reflexivity.
Qed.
Theorem ref_dropna_some_update : forall K ts data st en,
  length data = length ts ->
  forallb negb (kp_of data) = false -> forallb (fun b => b) (kp_of data) = false ->
  K_remove_nan_at K ts (kp_of data) ->
  grun K g__dropna [tarr ts; farr data; st; en; GSc (VBool true)]
  = GOk (GTup [tarr (kept_times (combine ts (kp_of data))); farr (kept_cells data);
               tarr (firsts (dropna_support (combine ts (kp_of data))));
               tarr (seconds (dropna_support (combine ts (kp_of data))))]).
Proof. intros. apply dropna_some_update_body; assumption. Qed.

(* (3) some NaN rows, the support is kept *)
Lemma dropna_some_keep_body : forall K call ts data st en,
  length data = length ts ->
  forallb negb (kp_of data) = false -> forallb (fun b => b) (kp_of data) = false ->
  run_body K call g__dropna [tarr ts; farr data; st; en; GSc (VBool false)]
  = GOk (GTup [tarr (kept_times (combine ts (kp_of data))); farr (kept_cells data); st; en]).
Proof.
  intros K call ts data st en HL Hall Hany.
  unfold farr. unfold run_body. gsimp. gsteps.
  rewrite !isnan_cells_nan, all_nan_cells, any_nan_cells, Hall, Hany, not_nan_cells. gsimp.
  assert (L1 : length (kp_of data) = length (tcells ts)) by (unfold tcells; rewrite length_kp_of, map_length; exact HL).
  unfold tarr. rewrite !prim_index_where by (exact L1 || apply length_kp_of). gsimp.
  rewrite kept_tcells. reflexivity.
Qed.
Theorem ref_dropna_some_keep : forall K ts data st en,
  length data = length ts ->
  forallb negb (kp_of data) = false -> forallb (fun b => b) (kp_of data) = false ->
  grun K g__dropna [tarr ts; farr data; st; en; GSc (VBool false)]
  = GOk (GTup [tarr (kept_times (combine ts (kp_of data))); farr (kept_cells data); st; en]).
Proof. intros. apply dropna_some_keep_body; assumption. Qed.

(* (4) no NaN row (and at least one row) *)
Lemma dropna_no_nan_body : forall K call ts data st en b,
  forallb negb (kp_of data) = false -> forallb (fun b => b) (kp_of data) = true ->
  run_body K call g__dropna [tarr ts; farr data; st; en; GSc (VBool b)] = GOk (GTup [tarr ts; farr data; st; en]).
Proof.
  intros K call ts data st en b Hall Hany. unfold farr. unfold run_body. gsimp. gsteps.
  rewrite !isnan_cells_nan, all_nan_cells, any_nan_cells, Hall, Hany. reflexivity.
Qed.
Theorem ref_dropna_no_nan : forall K ts data st en b,
  forallb negb (kp_of data) = false -> forallb (fun b => b) (kp_of data) = true ->
  grun K g__dropna [tarr ts; farr data; st; en; GSc (VBool b)] = GOk (GTup [tarr ts; farr data; st; en]).
Proof. intros. apply dropna_no_nan_body; assumption. Qed.

(* ---------- the routine as one equation ---------- *)
Definition dropna_spec (ts : list Z) (data : list sval) (st en : gval) (b : bool) : gval :=
  let kp := kp_of data in
  let l := combine ts kp in
  if forallb negb kp then GTup [farr []; farr []; opt_keep b st; opt_keep b en]
  else if forallb (fun p => snd p) l then GTup [tarr ts; farr data; st; en]
  else GTup [tarr (kept_times l); farr (kept_cells data);
             if b then tarr (firsts (dropna_support l)) else st;
             if b then tarr (seconds (dropna_support l)) else en].

Lemma dropna_body : forall K call ts data st en b,
  length data = length ts ->
  (b = true -> forallb negb (kp_of data) = false -> forallb (fun b => b) (kp_of data) = false ->
   K_remove_nan_at K ts (kp_of data)) ->
  run_body K call g__dropna [tarr ts; farr data; st; en; GSc (VBool b)] = GOk (dropna_spec ts data st en b).
Proof.
  intros K call ts data st en b HL HK. unfold dropna_spec.
  rewrite forallb_snd_combine by (rewrite length_kp_of; exact HL).
  destruct (forallb negb (kp_of data)) eqn:E1; [apply dropna_all_nan_body; exact E1|].
  destruct (forallb (fun b => b) (kp_of data)) eqn:E2; [apply dropna_no_nan_body; assumption|].
  destruct b; [apply dropna_some_update_body; auto|apply dropna_some_keep_body; assumption].
Qed.
Theorem ref_dropna : forall K ts data st en b,
  length data = length ts ->
  (b = true -> forallb negb (kp_of data) = false -> forallb (fun b => b) (kp_of data) = false ->
   K_remove_nan_at K ts (kp_of data)) ->
  grun K g__dropna [tarr ts; farr data; st; en; GSc (VBool b)] = GOk (dropna_spec ts data st en b).
Proof. intros. apply dropna_body; assumption. Qed.

(* _dropna called by another glue routine, at any remaining call depth *)
Lemma call__dropna : forall K d ts data st en b,
  length data = length ts ->
  (b = true -> forallb negb (kp_of data) = false -> forallb (fun b => b) (kp_of data) = false ->
   K_remove_nan_at K ts (kp_of data)) ->
  gcall K all_glue (S d) "_dropna" [tarr ts; farr data; st; en; GSc (VBool b)] = GOk (dropna_spec ts data st en b).
Proof.
  intros. cbn [gcall]. change (find_gfunc all_glue "_dropna") with (Some g__dropna). apply dropna_body; assumption.
Qed.

(* relation to Model/Store.v (OpDropna: `if forallb snd l then (t, support unchanged) else (kept_times l, dropna_support l)`):
   branches (2) and (4) are literally its two cases; in branch (1) on a NON-EMPTY series the model's second case gives
   kept_times l = [] and dropna_support l = [] ([all_nan_kept_times], [all_nan_support]), which is what the public
   caller builds from (empty, None, None).  On the EMPTY series the model takes its FIRST case (support unchanged)
   while the routine answers starts = ends = None when update_time_support: see [dropna_spec_empty]. *)
Lemma dropna_spec_empty : forall st en b,
  dropna_spec [] [] st en b = GTup [farr []; farr []; opt_keep b st; opt_keep b en]
  /\ forallb (fun p : Z * bool => snd p) (combine [] (kp_of [])) = true.
Proof. intros. split; reflexivity. Qed.
