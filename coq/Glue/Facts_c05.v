(* Glue.Facts_c05: facts shared by the C05 glue refinements Glue/Ref__count.v and Glue/Ref__bin_average.v:
   the exact midpoint cell start + (end - start) / 2, the bounds of the indices of [restrict_idx] and the gathers
   t[idx] / d[idx] they justify, the pointwise contract of jitrestrict_with_count (a TICKS kernel) and its derivation
   from the kernel's total-correctness theorem. *)
From Coq Require Import ZArith QArith String List Bool Lia.
From Verif Require Import Base.Prelude Model.Restrict Model.Iset Proofs.RestrictProofs.
From Verif Require Import Jit.Lang Jit.Interp Jit.ArrayFacts Gen.Kernels.
From Verif Require Import Glue.Lang Glue.Interp Glue.Kenv Glue.KenvText Glue.Facts Gen.Glue Glue.Compose.
From Verif Require Import Inv.Jitrestrict_func Inv.Jitrestrict_with_count_func Inv.Jitrestrict_with_count_total
  Inv.Jitbin_array_func.
Import ListNotations.
Open Scope Z_scope.
Local Open Scope string_scope.
Local Open Scope Z_scope.

(* ---------- the midpoint of an interval: start + (end - start) / 2, exact (a half tick when start + end is odd) ---------- *)
Definition mid_cell (I : Z * Z) : sval := VFlt (Some (Qred ((fst I + snd I) # 2))).

Lemma mid_tcell : forall s e,
  eval_binop Add (tcell s) (eval_binop Div (eval_binop Sub (tcell e) (tcell s)) (VInt 2))
  = VFlt (Some (Qred ((s + e) # 2))).
Proof.
  intros s e. rewrite sub_tcell. unfold eval_binop, tcell, binop_flt. cbn [is_flt orb to_flt].
  unfold fdiv, fadd, f2, qsome, qz. change (Qeq_bool (inject_Z 2) 0) with false. cbv iota.
  do 2 f_equal. apply Qred_complete. rewrite Qred_correct.
  unfold Qeq, Qplus, Qdiv, Qmult, Qinv, inject_Z. cbn [Qnum Qden]. lia.
Qed.

Lemma zlen_half_durations : forall ep : iset, zlen (bin_cells_r Div (tcells (durations ep)) (VInt 2)) = zlen ep.
Proof. intros. unfold bin_cells_r, durations, tcells. rewrite !zlen_map'. reflexivity. Qed.

Lemma mid_cells : forall ep : iset,
  bin_cells Add (tcells (firsts ep)) (bin_cells_r Div (tcells (durations ep)) (VInt 2)) = map mid_cell ep.
Proof.
  induction ep as [|[s e] ep IH]; [reflexivity|].
  unfold bin_cells, bin_cells_r, firsts, durations in *. cbn [map fst snd]. rewrite !tcells_cons. cbn [map].
  rewrite map2_cons, IH. f_equal. rewrite <- sub_tcell. apply mid_tcell.
Qed.

(* ---------- the indices returned by the restrict scan are positions of the time array ---------- *)
Lemma restrict_scan_bound : forall ep i ts,
  Forall (fun j => (j < i + length ts)%nat) (concat (restrict_scan ep i ts)).
Proof.
  induction ep as [|[s e] ep IH]; intros i ts; [constructor|].
  cbn [restrict_scan]. destruct (drop_lt s i ts) as [i1 ts1] eqn:E1.
  destruct (take_le e i1 ts1) as [ix [i2 ts2]] eqn:E2.
  destruct (drop_lt_spec _ _ _ _ _ E1) as (pre & -> & -> & _ & _).
  destruct (take_le_spec _ _ _ _ _ _ E2) as (mid & -> & -> & -> & _ & _).
  cbn [concat]. apply Forall_app. split.
  - apply Forall_forall. intros j Hj. apply in_seq in Hj. rewrite !app_length. lia.
  - eapply Forall_impl; [|apply IH]. cbv beta. intros j Hj. rewrite !app_length. lia.
Qed.

Lemma restrict_idx_bound : forall ts ep, Forall (fun j => (j < length ts)%nat) (restrict_idx ts ep).
Proof. intros. apply (restrict_scan_bound ep 0%nat ts). Qed.

(* x[idx] for an index array within bounds *)
Lemma gather_chk_map : forall (f : Z -> sval) (l : list Z) (ix : list nat),
  Forall (fun j => (j < length l)%nat) ix ->
  gather_chk (map f l) (index_cells ix) = Some (map f (select 0 l ix)).
Proof.
  intros f l ix H. unfold gather_chk.
  replace (forallb _ (index_cells ix)) with true.
  - f_equal. unfold index_cells, select. rewrite !map_map. apply map_ext_in. intros j Hj.
    eapply Forall_forall in H; [|exact Hj]. cbn [to_int]. rewrite wrap_nonneg by lia.
    unfold nthZ. rewrite Nat2Z.id. rewrite (nth_indep _ dflt (f 0)) by (rewrite map_length; exact H).
    apply (map_nth f).
  - symmetry. apply forallb_forall. intros v Hv. unfold index_cells in Hv. apply in_map_iff in Hv.
    destruct Hv as (j & <- & Hj). eapply Forall_forall in H; [|exact Hj]. cbn [to_int].
    rewrite wrap_nonneg by lia. apply in_range_true. unfold zlen. rewrite map_length. lia.
Qed.

Lemma gather_tcells_restrict : forall ts ep,
  gather_chk (tcells ts) (index_cells (restrict_idx ts ep)) = Some (tcells (select 0 ts (restrict_idx ts ep))).
Proof. intros. apply (gather_chk_map tcell). apply restrict_idx_bound. Qed.

Lemma gather_vcells_restrict : forall ts vs ep, length vs = length ts ->
  gather_chk (vcells vs) (index_cells (restrict_idx ts ep)) = Some (vcells (select 0 vs (restrict_idx ts ep))).
Proof. intros ts vs ep H. apply (gather_chk_map vcell). rewrite H. apply restrict_idx_bound. Qed.

(* ---------- jitrestrict_with_count: contract (ticks) and the kernel text ---------- *)
Definition iarr (l : list nat) : gval := GArr (A1 DInt (index_cells l)).

Definition K_rwc_at (K : kenv) (ts : list Z) (ep : iset) : Prop :=
  K "jitrestrict_with_count" [tarr ts; tarr (firsts ep); tarr (seconds ep)]
  = Some (GTup [iarr (restrict_idx ts ep); iarr (restrict_cnt ts ep)]).

Lemma text_rwc_at : forall ts ep, Forall (fun I => fst I <= snd I) ep ->
  eventually (fun fuel => K_rwc_at (kenv_text fuel) ts ep).
Proof.
  intros ts ep Hep. destruct (k_jitrestrict_with_count_total ts ep Hep) as [f0 H0]. exists f0. intros fuel L.
  assert (R : run_text fuel "jitrestrict_with_count" (jitrestrict_args ts ep)
              = Some [index_array (restrict_idx ts ep); index_array (restrict_cnt ts ep)]).
  { apply (run_text_mono f0); [|exact L]. unfold run_text.
    change (find_func all_kernels "jitrestrict_with_count") with (Some k_jitrestrict_with_count).
    cbv beta iota. rewrite H0. reflexivity. }
  unfold K_rwc_at, kenv_text, tarr. cbn [roles to_jits to_jit String.eqb Ascii.eqb Bool.eqb orb conv].
  unfold jitrestrict_args in R. rewrite R. reflexivity.
Qed.
