(* Refinement of the BODY of `_Base.value_from(self, data, ep=None, mode="closest")` (pynapple/core/base_class.py) as
   translated in Gen/Glue.v (g__Base_value_from):

       if not isinstance(data, (Ts, Tsd, TsdFrame, TsdTensor)) and not hasattr(data, "values"): raise TypeError
       if ep is None: ep = data.time_support
       if not isinstance(ep, IntervalSet): raise TypeError
       if mode not in ("closest", "before", "after"): raise ValueError
       t, d = _value_from(self.t, data.t, data.values, ep.start, ep.end, mode)
       time_support = IntervalSet(start=starts, end=ends)
       return data._define_instance(t, time_support, values=d)

   Under the pointwise contracts of the three kernel calls of _value_from (Glue/Ref__value_from.v) and of the
   constructor's _jitfix_iset call ([K_ctor_at K (firsts ep) (seconds ep)], Glue/Ref_init.v), the routine hands to the
   constructor `_define_instance`, in this order: the receiver DATA (not self), the time index [restrict_ts qs ep],
   the RE-CONSTRUCTED support [mk_iset (firsts ep) (seconds ep)], the values [vf_data m qs sr0 dcells ep].
   Self may be any object with a time index `t` (Ts or Tsd); data is a Tsd with float64 values, one per time stamp.

   Store.v: corresponds to [OpValueFrom i k j], whose step builds [mk_ts_sup (restrict_ts (t_ x_i) ep) ep]: the same
   time index; the support passed there is ep ITSELF, here IntervalSet(ep.start, ep.end).  For a canonical ep (what a
   Store holds) these are equal ([mk_iset_canonical_id]): [ref_base_value_from_canonical]; for a non-canonical ep they
   differ ([bvf_support_rebuilt]). *)
From Coq Require Import ZArith QArith String List Bool Lia.
From Verif Require Import Base.Prelude Model.Restrict Model.Iset Model.ValueFrom Proofs.FixIsetProofs.
From Verif Require Import Jit.Lang Jit.Interp Jit.ArrayFacts.
From Verif Require Import Glue.Lang Glue.Interp Glue.Kenv Glue.KenvText Glue.Facts Gen.Glue Glue.Ref_init Glue.Compose.
From Verif Require Import Inv.Jitrestrict_func Inv.Jitvaluefrom_func.
From Verif Require Import Glue.Ref__value_from Glue.Compose__value_from.
Import ListNotations.
Open Scope Z_scope.
Local Open Scope string_scope.
Local Open Scope Z_scope.

Definition series_val (cls : string) (ts : list Z) (vals : option (list sval)) (sup : iset) : gval :=
  GObj cls ([("t", tarr ts)] ++ match vals with Some d => [("values", GArr (A1 DFlt d))] | None => [] end
            ++ [("time_support", iset_val sup)]).

Definition bvf_result (K : kenv) (data : gval) (m : Z) (qs sr0 : list Z) (dcells : list sval) (ep : iset) : gres gval :=
  of_opt (K "_define_instance" [data; tarr (restrict_ts qs ep); iset_val (mk_iset (firsts ep) (seconds ep));
                                GArr (A1 DFlt (vf_data m qs sr0 dcells ep))]) (EKernelErr "_define_instance").

(* the ep argument: an IntervalSet, or None (then data's time support) *)
Lemma base_value_from_gen : forall K m scls svals ssup qs sr0 dcells dsup ep eparg,
  eparg = iset_val ep \/ (eparg = GNone /\ dsup = ep) ->
  0 <= m <= 2 -> float_cells dcells -> length dcells = length sr0 ->
  vf_K_rwc_at K qs ep -> vf_K_rwc_at K sr0 ep -> vf_K_valuefrom_at K m qs sr0 ep ->
  K_ctor_at K (firsts ep) (seconds ep) ->
  grun K g__Base_value_from [series_val scls qs svals ssup; series_val "Tsd" sr0 (Some dcells) dsup; eparg; GStr (vf_mode_string m)]
  = bvf_result K (series_val "Tsd" sr0 (Some dcells) dsup) m qs sr0 dcells ep.
Proof.
  intros K m scls svals ssup qs sr0 dcells dsup ep eparg Hc Hm HF HL H1 H2 H3 H4.
  pose proof (call__value_from K 5 m qs sr0 dcells ep Hm HF HL H1 H2 H3) as HC.
  destruct (vf_mode_cases m Hm) as [-> | [-> | ->]];
    [change (vf_mode_string 0) with "before" in * | change (vf_mode_string 1) with "closest" in *
     | change (vf_mode_string 2) with "after" in *];
    (destruct Hc as [-> | [-> ->]]);
    unfold grun; gstart; rewrite andb_false_r; gsimp; gsteps;
    unfold tarr in *; rewrite HC; gsimp; fold (tarr (firsts ep)); fold (tarr (seconds ep));
    rewrite call_init by (try assumption; apply length_firsts_seconds); gsimp;
    unfold bvf_result, tarr; destruct (K "_define_instance" _); reflexivity.
Qed.

Theorem ref_base_value_from : forall K m scls svals ssup qs sr0 dcells dsup ep,
  0 <= m <= 2 -> float_cells dcells -> length dcells = length sr0 ->
  vf_K_rwc_at K qs ep -> vf_K_rwc_at K sr0 ep -> vf_K_valuefrom_at K m qs sr0 ep ->
  K_ctor_at K (firsts ep) (seconds ep) ->
  grun K g__Base_value_from [series_val scls qs svals ssup; series_val "Tsd" sr0 (Some dcells) dsup; iset_val ep; GStr (vf_mode_string m)]
  = bvf_result K (series_val "Tsd" sr0 (Some dcells) dsup) m qs sr0 dcells ep.
Proof. intros. apply base_value_from_gen; try assumption. left; reflexivity. Qed.

(* ep = None: the time support of DATA (not of self) *)
Theorem ref_base_value_from_default_ep : forall K m scls svals ssup qs sr0 dcells dsup,
  0 <= m <= 2 -> float_cells dcells -> length dcells = length sr0 ->
  vf_K_rwc_at K qs dsup -> vf_K_rwc_at K sr0 dsup -> vf_K_valuefrom_at K m qs sr0 dsup ->
  K_ctor_at K (firsts dsup) (seconds dsup) ->
  grun K g__Base_value_from [series_val scls qs svals ssup; series_val "Tsd" sr0 (Some dcells) dsup; GNone; GStr (vf_mode_string m)]
  = bvf_result K (series_val "Tsd" sr0 (Some dcells) dsup) m qs sr0 dcells dsup.
Proof. intros. apply base_value_from_gen; try assumption. right; split; reflexivity. Qed.

(* on a canonical ep the re-constructed IntervalSet(starts, ends) is ep itself: the support Store.v's OpValueFrom passes *)
Lemma mk_iset_firsts_seconds : forall ep, canonical ep -> mk_iset (firsts ep) (seconds ep) = ep.
Proof. intros ep H. exact (mk_iset_canonical_id ep H). Qed.

Corollary ref_base_value_from_canonical : forall K m scls svals ssup qs sr0 dcells dsup ep,
  canonical ep ->
  0 <= m <= 2 -> float_cells dcells -> length dcells = length sr0 ->
  vf_K_rwc_at K qs ep -> vf_K_rwc_at K sr0 ep -> vf_K_valuefrom_at K m qs sr0 ep ->
  K_ctor_at K (firsts ep) (seconds ep) ->
  grun K g__Base_value_from [series_val scls qs svals ssup; series_val "Tsd" sr0 (Some dcells) dsup; iset_val ep; GStr (vf_mode_string m)]
  = of_opt (K "_define_instance" [series_val "Tsd" sr0 (Some dcells) dsup; tarr (restrict_ts qs ep); iset_val ep;
                                  GArr (A1 DFlt (vf_data m qs sr0 dcells ep))]) (EKernelErr "_define_instance").
Proof.
  intros K m scls svals ssup qs sr0 dcells dsup ep Hc Hm HF HL H1 H2 H3 H4.
  rewrite (ref_base_value_from K m scls svals ssup qs sr0 dcells dsup ep Hm HF HL H1 H2 H3 H4).
  unfold bvf_result. rewrite (mk_iset_firsts_seconds ep Hc). reflexivity.
Qed.

(* not an identity on a non-canonical interval list: overlapping intervals are re-cut by the constructor *)
Example bvf_support_rebuilt : mk_iset (firsts [(0, 10); (5, 20)]) (seconds [(0, 10); (5, 20)]) <> [(0, 10); (5, 20)].
Proof. vm_compute. discriminate. Qed.

(* ---------- error branches ---------- *)
Definition bvf_bad_data (data : gval) : Prop :=
  match data with
  | GObj c fs => existsb (String.eqb c) ["Ts"; "Tsd"; "TsdFrame"; "TsdTensor"] = false /\ assoc fs "values" = None
  | _ => True
  end.
Theorem base_value_from_bad_data : forall K self data eparg mode, bvf_bad_data data ->
  grun K g__Base_value_from [self; data; eparg; mode] = GErr (ERaise "TypeError").
Proof.
  intros K self data eparg mode H. destruct data; try (unfold grun; gstart; reflexivity).
  destruct H as [Ha Hb]. unfold grun. gstart. cbn in Ha. rewrite Ha, Hb. gsimp. reflexivity.
Qed.
Example base_value_from_tarr_data : forall K self eparg mode,
  grun K g__Base_value_from [self; tarr [1; 2]; eparg; mode] = GErr (ERaise "TypeError").
Proof. intros. apply base_value_from_bad_data. exact I. Qed.

(* ep neither None nor an IntervalSet *)
Definition bvf_bad_ep (e : gval) : Prop :=
  match e with GNone => False | GObj c _ => String.eqb c "IntervalSet" = false | _ => True end.
Theorem base_value_from_bad_ep : forall K self sr0 dcells dsup e mode, bvf_bad_ep e ->
  grun K g__Base_value_from [self; series_val "Tsd" sr0 (Some dcells) dsup; e; mode] = GErr (ERaise "TypeError").
Proof.
  intros K self sr0 dcells dsup e mode H. destruct e; try contradiction; try (unfold grun; gstart; reflexivity).
  cbn in H. unfold grun. gstart. rewrite H. gsimp. reflexivity.
Qed.

(* a mode string that is none of the three *)
Theorem base_value_from_bad_mode : forall K self sr0 dcells dsup ep eparg s,
  eparg = iset_val ep \/ eparg = GNone ->
  s <> "closest" -> s <> "before" -> s <> "after" ->
  grun K g__Base_value_from [self; series_val "Tsd" sr0 (Some dcells) dsup; eparg; GStr s] = GErr (ERaise "ValueError").
Proof.
  intros K self sr0 dcells dsup ep eparg s Hc N1 N2 N3.
  apply String.eqb_neq in N1, N2, N3.
  destruct Hc as [-> | ->]; unfold grun; gstart; rewrite N1, N2, N3; gsimp; reflexivity.
Qed.

(* ---------- glue text + kernel text, the constructor left to an arbitrary environment C ---------- *)
Definition bvf_kenv (C : kenv) (fuel : nat) : kenv := fun name a =>
  match kenv_text fuel name a with Some v => Some v | None => C name a end.

Lemma bvf_kenv_some : forall C fuel name a v, kenv_text fuel name a = Some v -> bvf_kenv C fuel name a = Some v.
Proof. intros C fuel name a v H. unfold bvf_kenv. rewrite H. reflexivity. Qed.
Lemma bvf_kenv_ctor : forall C fuel a, bvf_kenv C fuel "_define_instance" a = C "_define_instance" a.
Proof. reflexivity. Qed.

Theorem base_value_from_text_to_model : forall (C : kenv) m scls svals ssup qs sr0 dcells dsup ep,
  0 <= m <= 2 -> float_cells dcells -> length dcells = length sr0 -> Forall (fun I => fst I <= snd I) ep ->
  exists fuel,
    grun (bvf_kenv C fuel) g__Base_value_from
      [series_val scls qs svals ssup; series_val "Tsd" sr0 (Some dcells) dsup; iset_val ep; GStr (vf_mode_string m)]
    = of_opt (C "_define_instance" [series_val "Tsd" sr0 (Some dcells) dsup; tarr (restrict_ts qs ep);
                                    iset_val (mk_iset (firsts ep) (seconds ep)); GArr (A1 DFlt (vf_data m qs sr0 dcells ep))])
             (EKernelErr "_define_instance").
Proof.
  intros C m scls svals ssup qs sr0 dcells dsup ep Hm HF HL Hep. apply eventually_ex.
  eapply eventually_imp;
    [|apply (eventually_and _ _ (vf_text_rwc_at qs ep Hep)
               (eventually_and _ _ (vf_text_rwc_at sr0 ep Hep)
                  (eventually_and _ _ (vf_text_valuefrom_at m qs sr0 ep)
                     (text_ctor_at (firsts ep) (seconds ep) (length_firsts_seconds ep)))))].
  intros f [H1 [H2 [H3 [w H4]]]].
  rewrite (ref_base_value_from (bvf_kenv C f) m scls svals ssup qs sr0 dcells dsup ep Hm HF HL).
  - unfold bvf_result. rewrite bvf_kenv_ctor. reflexivity.
  - apply bvf_kenv_some. exact H1.
  - apply bvf_kenv_some. exact H2.
  - apply bvf_kenv_some. exact H3.
  - exists w. apply bvf_kenv_some. exact H4.
Qed.

(* ---------- examples: glue text + kernel text + the packaging constructor of Glue/KenvText.v, run ---------- *)
Definition bvf_ex_data : gval := series_val "Tsd" vf_ex_sr (Some vf_ex_data) [(-10, 100)].
Definition bvf_ex_self : gval := series_val "Ts" vf_ex_qs None [(-10, 100)].
Example base_value_from_example :
  grun kenv_exec g__Base_value_from [bvf_ex_self; bvf_ex_data; iset_val vf_ex_ep; GStr "closest"]
  = GOk (series_val "Tsd" [0; 2; 5; 12; 13; 22; 30]
           (Some [vf_ex_cell 101; vf_ex_cell 103; vf_ex_cell 103; vf_ex_cell 112; vf_ex_cell 112; VFlt None; vf_ex_cell 131])
           vf_ex_ep).
Proof. vm_compute. reflexivity. Qed.
(* ep = None: the support of data, [(-10, 100)]: nothing is dropped; the query 0 gets the cell of the target -5, a NaN *)
Example base_value_from_default_ep_example :
  grun kenv_exec g__Base_value_from [bvf_ex_self; bvf_ex_data; GNone; GStr "before"]
  = GOk (series_val "Tsd" vf_ex_qs
           (Some [VFlt None; vf_ex_cell 101; vf_ex_cell 103; vf_ex_cell 112; vf_ex_cell 112; vf_ex_cell 112; vf_ex_cell 112; vf_ex_cell 145])
           [(-10, 100)]).
Proof. vm_compute. reflexivity. Qed.
Example base_value_from_bad_mode_example :
  grun kenv_exec g__Base_value_from [bvf_ex_self; bvf_ex_data; GNone; GStr "nearest"] = GErr (ERaise "ValueError").
Proof. vm_compute. reflexivity. Qed.

Print Assumptions ref_base_value_from.
Print Assumptions ref_base_value_from_default_ep.
Print Assumptions ref_base_value_from_canonical.
Print Assumptions base_value_from_bad_data.
Print Assumptions base_value_from_bad_ep.
Print Assumptions base_value_from_bad_mode.
Print Assumptions base_value_from_text_to_model.
