(* Refinement of _restrict (pynapple/core/_core_functions.py) as translated in Gen/Glue.v: (time_array, starts, ends) go
   to jitrestrict in that order and its index array is returned unchanged - [restrict_idx] of Model/Restrict.v. *)
From Coq Require Import ZArith QArith String List Bool Lia.
From Verif Require Import Base.Prelude Model.Restrict Model.Iset.
From Verif Require Import Jit.Lang Jit.Interp Jit.Total Gen.Kernels.
From Verif Require Import Glue.Lang Glue.Interp Glue.Kenv Glue.KenvText Glue.Facts Gen.Glue Glue.Compose.
From Verif Require Import Inv.Jitrestrict_func Inv.Jitrestrict_total.
Import ListNotations.
Open Scope Z_scope.

(* the body, whatever the meaning of calls between glue routines (there is none) *)
Lemma restrict_body : forall K call ts ep, K_restrict_at K ts ep ->
  run_body K call g__restrict [tarr ts; tarr (firsts ep); tarr (seconds ep)]
  = GOk (of_jit (index_array (restrict_idx ts ep))).
Proof. intros K call ts ep HK. unfold run_body. gsimp. rewrite HK. reflexivity. Qed.

Theorem ref_restrict : forall K ts ep, K_restrict_at K ts ep ->
  grun K g__restrict [tarr ts; tarr (firsts ep); tarr (seconds ep)] = GOk (of_jit (index_array (restrict_idx ts ep))).
Proof. intros K ts ep HK. apply restrict_body. exact HK. Qed.

(* _restrict called by another glue routine, at any remaining call depth *)
Lemma call_restrict : forall K d ts ep, K_restrict_at K ts ep ->
  gcall K all_glue (S d) "_restrict" [tarr ts; tarr (firsts ep); tarr (seconds ep)]
  = GOk (of_jit (index_array (restrict_idx ts ep))).
Proof.
  intros. cbn [gcall]. change (find_gfunc all_glue "_restrict") with (Some g__restrict).
  apply restrict_body. assumption.
Qed.

Lemma text_restrict_at : forall ts ep, Forall (fun I => fst I <= snd I) ep ->
  eventually (fun fuel => K_restrict_at (kenv_text fuel) ts ep).
Proof.
  intros ts ep Hep. destruct (k_jitrestrict_total ts ep Hep) as [f0 H0]. exists f0. intros fuel L.
  assert (R : run_text fuel "jitrestrict" (jitrestrict_args ts ep) = Some [index_array (restrict_idx ts ep)]).
  { apply (run_text_mono f0); [|exact L]. unfold run_text.
    change (find_func all_kernels "jitrestrict") with (Some k_jitrestrict). cbv beta iota. rewrite H0. reflexivity. }
  unfold K_restrict_at, kenv_text, tarr. cbn [roles to_jits to_jit String.eqb Ascii.eqb Bool.eqb orb conv].
  unfold jitrestrict_args in R. rewrite R. reflexivity.
Qed.

Theorem restrict_text_to_model : forall ts ep, Forall (fun I => fst I <= snd I) ep ->
  exists fuel, grun (kenv_text fuel) g__restrict [tarr ts; tarr (firsts ep); tarr (seconds ep)]
               = GOk (of_jit (index_array (restrict_idx ts ep))).
Proof.
  intros ts ep Hep. apply eventually_ex. eapply eventually_imp; [|apply (text_restrict_at ts ep Hep)].
  intros f Hf. apply ref_restrict. exact Hf.
Qed.

Example restrict_example :
  grun kenv_model_g1 g__restrict [tarr [0; 5; 10; 15; 20; 31]; tarr [0; 20]; tarr [10; 30]]
  = GOk (of_jit (index_array [0; 1; 2; 4]%nat)).
Proof. vm_compute. reflexivity. Qed.
