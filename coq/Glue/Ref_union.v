(* Refinement of IntervalSet.union (pynapple/core/interval_set.py) as translated in Gen/Glue.v against the hand model
   [iset_union] (Model/Iset.v): the four columns are passed to jitunion in the order (start1, end1, start2, end2) and
   the two returned arrays re-enter the constructor as (start, end).  No hypothesis on the operands. *)
From Coq Require Import ZArith QArith String List Bool Lia.
From Verif Require Import Base.Prelude Model.Restrict Model.Iset.
From Verif Require Import Jit.Lang Jit.Interp Glue.Lang Glue.Interp Glue.Kenv Glue.Facts Gen.Glue Glue.Ref_init.
From Verif Require Import Inv.Jitrestrict_func.
Import ListNotations.
Open Scope Z_scope.

Theorem ref_union : forall K A B,
  K_union_at K A B -> K_ctor_at K (firsts (k_union A B)) (seconds (k_union A B)) ->
  grun K g_IntervalSet_union [iset_val A; iset_val B] = GOk (iset_val (iset_union A B)).
Proof.
  intros K A B HU HF. unfold grun. gstart.
  gsteps.
  rewrite HU. gsimp.
  rewrite call_init by (try exact HF; apply length_firsts_seconds).
  reflexivity.
Qed.

Corollary ref_union_all : forall K A B, K_fix_iset K -> K_union K ->
  grun K g_IntervalSet_union [iset_val A; iset_val B] = GOk (iset_val (iset_union A B)).
Proof. intros K A B HF HU. apply ref_union; [apply HU|apply K_ctor_of_all; [exact HF|apply length_firsts_seconds]]. Qed.

Example union_example :
  grun kenv_model_g1 g_IntervalSet_union [iset_val [(0, 10000); (20000, 30000)]; iset_val [(5000, 20000); (40000, 50000)]]
  = GOk (iset_val [(0, 30000); (40000, 50000)]).
Proof. vm_compute. reflexivity. Qed.
