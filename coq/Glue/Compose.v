(* Glue.Compose: the glue TEXT composed with the kernel TEXT.

   [kenv_text fuel] (Glue/KenvText.v) interprets a kernel call by RUNNING the translated kernel (Gen/Kernels.v) in
   Jit.Interp on the very arrays the glue passes.  The theorems of Properties/C0xb.v (kernel text computes the kernel model, total
   correctness) show that it meets the pointwise contracts of Glue/Kenv.v for every fuel above some bound; with the
   refinement theorems Glue/Ref_*.v this gives, for each kernel-calling routine,

       exists fuel, grun (kenv_text fuel) g_<routine> (encoded inputs) = GOk (encoded hand model)

   i.e. Python glue text + numba kernel text, both regenerated from /repo on every run, compute the hand model the
   property theorems are about.

   Unit: the refinement theorem of _jitfix_iset is stated for times in SECONDS (t / 10^9, its text contains the literal
   1e-6); the glue level counts ticks.  [dn] / [up] are that change of unit (exact on rationals), applied to the
   arguments and to the result of that kernel only. *)
From Coq Require Import ZArith QArith String List Bool Lia.
From Verif Require Import Base.Prelude Model.Restrict Model.Iset Proofs.FixIsetProofs.
From Verif Require Import Jit.Lang Jit.Interp Jit.Total Gen.Kernels.
From Verif Require Import Glue.Lang Glue.Interp Glue.Kenv Glue.KenvText Glue.Facts Gen.Glue.
From Verif Require Import Inv.Jitrestrict_func Inv.Jitin_interval_func Inv.Jitintersect_func Inv.Jitdiff_func
  Inv.Jitunion_func Inv.Jitfix_iset_func.
From Verif Require Import Inv.Jitunion_total Inv.Jitintersect_functotal Inv.Jitdiff_functotal Inv.Jitin_interval_total
  Inv.Jitrestrict_total Inv.Jitfix_iset_total.
From Verif Require Import Glue.Ref_init Glue.Ref_union Glue.Ref_intersect Glue.Ref_set_diff Glue.Ref_in_interval
  Glue.Ref_time_span Glue.Ref_getitem Glue.Ref_drop_intervals Glue.Ref_merge_close.
Import ListNotations.
Open Scope Z_scope.
Local Open Scope string_scope.
Local Open Scope Z_scope.

(* ---------- change of unit ---------- *)
Lemma dn_tcell : forall t, dn (tcell t) = qcell t.
Proof.
  intros t. unfold dn, tcell, qcell, qtick. do 2 f_equal. apply Qred_complete.
  unfold Qeq, Qdiv, Qmult, Qinv, e9q, inject_Z. cbn [Qnum Qden]. lia.
Qed.
Lemma up_qcell : forall t, up (qcell t) = tcell t.
Proof.
  intros t. unfold up, qcell, tcell. do 2 f_equal. rewrite <- Qred_inject_Z. apply Qred_complete.
  rewrite qtick_eq. unfold Qeq, Qmult, e9q, inject_Z. cbn [Qnum Qden]. lia.
Qed.
Lemma map_dn_tcells : forall l, map dn (tcells l) = qcells l.
Proof. intros. unfold tcells, qcells. rewrite map_map. apply map_ext. apply dn_tcell. Qed.
Lemma map_up_pcells : forall o, map up (pcells o) = icells o.
Proof.
  induction o as [|[s e] o IH]; [reflexivity|]. unfold pcells, icells in *. cbn [flat_map map app fst snd].
  rewrite !up_qcell, IH. reflexivity.
Qed.

(* ---------- the text environment meets the pointwise contracts, for every fuel above a bound ---------- *)
Definition eventually (P : nat -> Prop) : Prop := exists f0, forall fuel, (f0 <= fuel)%nat -> P fuel.
Lemma eventually_and : forall P Q, eventually P -> eventually Q -> eventually (fun f => P f /\ Q f).
Proof.
  intros P Q [a Ha] [b Hb]. exists (Nat.max a b). intros f Hf. split; [apply Ha|apply Hb]; lia.
Qed.
Lemma eventually_ex : forall P, eventually P -> exists fuel, P fuel.
Proof. intros P [a Ha]. exists a. apply Ha. lia. Qed.
Lemma eventually_imp : forall (P Q : nat -> Prop), (forall f, P f -> Q f) -> eventually P -> eventually Q.
Proof. intros P Q H [a Ha]. exists a. intros f Hf. apply H, Ha, Hf. Qed.

Lemma run_text_mono : forall f name args rs, run_text f name args = Some rs ->
  forall f', (f <= f')%nat -> run_text f' name args = Some rs.
Proof.
  intros f name args rs H f' L. unfold run_text in *. destruct (find_func all_kernels name) as [g|]; [|discriminate].
  unfold Kernels.run in *. destruct (Interp.run all_kernels f g args) eqn:E; try discriminate.
  injection H as <-. rewrite (run_return_mono all_kernels f g args vs E f' L). reflexivity.
Qed.

Lemma text_union_at : forall A B, eventually (fun fuel => K_union_at (kenv_text fuel) A B).
Proof.
  intros A B. destruct (k_jitunion_total A B) as [f0 H0]. exists f0. intros fuel L.
  assert (R : run_text fuel "jitunion" (jitunion_args A B) = Some (iset_arrays (k_union A B))).
  { apply (run_text_mono f0); [|exact L]. unfold run_text.
    change (find_func all_kernels "jitunion") with (Some k_jitunion). cbv beta iota. rewrite H0. reflexivity. }
  unfold K_union_at, kenv_text, tarr. cbn [roles to_jits to_jit String.eqb Ascii.eqb Bool.eqb orb conv].
  unfold jitunion_args in R. rewrite R. reflexivity.
Qed.

Lemma text_intersect_at : forall A B, eventually (fun fuel => K_intersect_at (kenv_text fuel) A B).
Proof.
  intros A B. destruct (k_jitintersect_total A B) as [f0 H0]. exists f0. intros fuel L.
  assert (R : run_text fuel "jitintersect" (iset_args A B) = Some (inter_result (k_inter_meta A B))).
  { apply (run_text_mono f0); [|exact L]. unfold run_text.
    change (find_func all_kernels "jitintersect") with (Some k_jitintersect). cbv beta iota. rewrite H0. reflexivity. }
  unfold K_intersect_at, kenv_text, tarr. cbn [roles to_jits to_jit String.eqb Ascii.eqb Bool.eqb orb conv].
  unfold iset_args in R. rewrite R. reflexivity.
Qed.

Lemma text_diff_at : forall A B, eventually (fun fuel => K_diff_at (kenv_text fuel) A B).
Proof.
  intros A B. destruct (k_jitdiff_total A B) as [f0 H0]. exists f0. intros fuel L.
  assert (R : run_text fuel "jitdiff" (iset_args A B) = Some (diff_result (k_diff_meta A B))).
  { apply (run_text_mono f0); [|exact L]. unfold run_text.
    change (find_func all_kernels "jitdiff") with (Some k_jitdiff). cbv beta iota. rewrite H0. reflexivity. }
  unfold K_diff_at, kenv_text, tarr. cbn [roles to_jits to_jit String.eqb Ascii.eqb Bool.eqb orb conv].
  unfold iset_args in R. rewrite R. reflexivity.
Qed.

Lemma text_in_interval_at : forall ts ep, sortedZ ts -> sortedZ (firsts ep) ->
  eventually (fun fuel => K_in_interval_at (kenv_text fuel) ts ep).
Proof.
  intros ts ep H1 H2. destruct (k_jitin_interval_total ts ep H1 H2) as [f0 H0]. exists f0. intros fuel L.
  assert (R : run_text fuel "jitin_interval" (jitrestrict_args ts ep) = Some [in_array (in_interval ts ep)]).
  { apply (run_text_mono f0); [|exact L]. unfold run_text.
    change (find_func all_kernels "jitin_interval") with (Some k_jitin_interval). cbv beta iota. rewrite H0. reflexivity. }
  unfold K_in_interval_at, kenv_text, tarr. cbn [roles to_jits to_jit String.eqb Ascii.eqb Bool.eqb orb conv].
  unfold jitrestrict_args in R. rewrite R. reflexivity.
Qed.

Lemma text_fix_at : forall ss es, length ss = length es -> eventually (fun fuel => K_fix_at (kenv_text fuel) ss es).
Proof.
  intros ss es HL. destruct (k__jitfix_iset_total (combine ss es)) as (f0 & rs & H0 & w & Hw & ->).
  exists f0. intros fuel L. exists w.
  assert (R : run_text fuel "_jitfix_iset" (fix_args (combine ss es))
              = Some [Ar (A2 DFlt (zlen (fix_iset (combine ss es))) 2 (pcells (fix_iset (combine ss es)))); Ar (A1 DBool w)]).
  { apply (run_text_mono f0); [|exact L]. unfold run_text.
    change (find_func all_kernels "_jitfix_iset") with (Some k__jitfix_iset). cbv beta iota. rewrite H0. reflexivity. }
  unfold fix_args in R. rewrite (firsts_combine _ _ HL), (seconds_combine _ _ HL) in R.
  unfold kenv_text, tarr. cbn [roles to_jits to_jit String.eqb Ascii.eqb Bool.eqb conv option_map mapv].
  rewrite !map_dn_tcells, R. cbn [conv option_map mapv of_jit_result map of_jit]. rewrite map_up_pcells. reflexivity.
Qed.

Lemma text_ctor_at : forall ss es, length ss = length es -> eventually (fun fuel => K_ctor_at (kenv_text fuel) ss es).
Proof. intros ss es H. apply text_fix_at. rewrite !sortZ_length. exact H. Qed.

(* ---------- glue text + kernel text -> hand model ---------- *)
Theorem init_text_to_model : forall ss es, length ss = length es ->
  exists fuel, grun (kenv_text fuel) g_IntervalSet___init__ [tarr ss; tarr es] = GOk (iset_val (mk_iset ss es)).
Proof.
  intros ss es H. apply eventually_ex. eapply eventually_imp; [|apply (text_ctor_at ss es H)].
  intros f Hf. apply ref_init; assumption.
Qed.

Theorem union_text_to_model : forall A B,
  exists fuel, grun (kenv_text fuel) g_IntervalSet_union [iset_val A; iset_val B] = GOk (iset_val (iset_union A B)).
Proof.
  intros A B. apply eventually_ex.
  eapply eventually_imp; [|apply (eventually_and _ _ (text_union_at A B)
                                    (text_ctor_at (firsts (k_union A B)) (seconds (k_union A B)) (length_firsts_seconds _)))].
  intros f [H1 H2]. apply ref_union; assumption.
Qed.

Theorem intersect_text_to_model : forall A B,
  exists fuel, grun (kenv_text fuel) g_IntervalSet_intersect [iset_val A; iset_val B] = GOk (iset_val (iset_inter A B)).
Proof.
  intros A B. apply eventually_ex.
  assert (HL : length (starts (k_inter A B)) = length (ends (k_inter A B))) by (unfold starts, ends; rewrite !map_length; reflexivity).
  eapply eventually_imp; [|apply (eventually_and _ _ (text_intersect_at A B) (text_ctor_at _ _ HL))].
  intros f [H1 H2]. apply ref_intersect; assumption.
Qed.

Theorem set_diff_text_to_model : forall A B,
  exists fuel, grun (kenv_text fuel) g_IntervalSet_set_diff [iset_val A; iset_val B] = GOk (iset_val (iset_diff A B)).
Proof.
  intros A B. apply eventually_ex.
  assert (HL : length (starts (k_diff A B)) = length (ends (k_diff A B))) by (unfold starts, ends; rewrite !map_length; reflexivity).
  eapply eventually_imp; [|apply (eventually_and _ _ (text_diff_at A B) (text_ctor_at _ _ HL))].
  intros f [H1 H2]. apply ref_set_diff; assumption.
Qed.

Theorem in_interval_text_to_model : forall ep ts, sortedZ ts -> sortedZ (firsts ep) ->
  exists fuel, grun (kenv_text fuel) g_IntervalSet_in_interval [iset_val ep; ts_val ts]
               = GOk (of_jit (in_array (in_interval ts ep))).
Proof.
  intros ep ts H1 H2. apply eventually_ex. eapply eventually_imp; [|apply (text_in_interval_at ts ep H1 H2)].
  intros f Hf. apply ref_in_interval; assumption.
Qed.

Theorem time_span_text_to_model : forall s e A,
  exists fuel, grun (kenv_text fuel) g_IntervalSet_time_span [iset_val ((s, e) :: A)]
               = GOk (iset_val (mk_iset [s] [snd (last ((s, e) :: A) (0, 0))])).
Proof.
  intros s e A. apply eventually_ex.
  eapply eventually_imp; [|apply (text_ctor_at [s] [snd (last ((s, e) :: A) (0, 0))] eq_refl)].
  intros f Hf. apply (ref_time_span _ ((s, e) :: A)). exact Hf.
Qed.

Theorem drop_short_text_to_model : forall A thr,
  exists fuel, grun (kenv_text fuel) g_IntervalSet_drop_short_intervals [iset_val A; tsc thr]
               = GOk (iset_val (mk_iset_pairs (filter (fun '(s, e) => thr <? e - s) A))).
Proof.
  intros A thr. apply eventually_ex. eapply eventually_imp; [|apply (text_ctor_at _ _ (length_firsts_seconds (kept_short thr A)))].
  intros f Hf. apply ref_drop_short; assumption.
Qed.
Theorem drop_long_text_to_model : forall A thr,
  exists fuel, grun (kenv_text fuel) g_IntervalSet_drop_long_intervals [iset_val A; tsc thr]
               = GOk (iset_val (mk_iset_pairs (filter (fun '(s, e) => e - s <? thr) A))).
Proof.
  intros A thr. apply eventually_ex. eapply eventually_imp; [|apply (text_ctor_at _ _ (length_firsts_seconds (kept_long thr A)))].
  intros f Hf. apply ref_drop_long; assumption.
Qed.
Theorem merge_close_text_to_model : forall A thr,
  exists fuel, grun (kenv_text fuel) g_IntervalSet_merge_close_intervals [iset_val A; tsc thr]
               = GOk (iset_val (mk_iset_pairs (Store.merge_close A thr))).
Proof.
  intros A thr. apply eventually_ex.
  eapply eventually_imp; [|apply (text_ctor_at _ _ (length_firsts_seconds (Store.merge_close A thr)))].
  intros f Hf. apply ref_merge_close; assumption.
Qed.
