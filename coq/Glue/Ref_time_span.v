(* Refinement of IntervalSet.time_span as translated in Gen/Glue.v: values[0, 0] and values[-1, 1] re-enter the
   constructor as (start, end).  On the EMPTY set the source raises IndexError (values[0, 0] of a 0 x 2 array). *)
From Coq Require Import ZArith QArith String List Bool Lia.
From Verif Require Import Base.Prelude Model.Restrict Model.Iset.
From Verif Require Import Jit.Lang Jit.Interp Glue.Lang Glue.Interp Glue.Kenv Glue.Facts Gen.Glue Glue.Ref_init.
From Verif Require Import Inv.Jitrestrict_func.
Import ListNotations.
Open Scope Z_scope.

Theorem ref_time_span : forall K A,
  match A with [] => True | (s, _) :: _ => K_ctor_at K [s] [snd (last A (0, 0))] end ->
  grun K g_IntervalSet_time_span [iset_val A]
  = match A with
    | [] => GErr EIndex
    | (s, _) :: _ => GOk (iset_val (mk_iset [s] [snd (last A (0, 0))]))
    end.
Proof.
  intros K A HF. unfold grun. gstart. gsteps.
  destruct A as [|[s e] A]; [reflexivity|]. gsimp. gsteps.
  rewrite call_init_scalars by exact HF. reflexivity.
Qed.

Corollary ref_time_span_all : forall K A, K_fix_iset K ->
  grun K g_IntervalSet_time_span [iset_val A]
  = match A with
    | [] => GErr EIndex
    | (s, _) :: _ => GOk (iset_val (mk_iset [s] [snd (last A (0, 0))]))
    end.
Proof. intros K A HF. apply ref_time_span. destruct A as [|[s e] A]; [exact I|]. apply K_ctor_of_all; [exact HF|reflexivity]. Qed.

Example time_span_example :
  grun kenv_model_g1 g_IntervalSet_time_span [iset_val [(-5, 10); (20, 30); (40, 55)]] = GOk (iset_val [(-5, 55)]).
Proof. vm_compute. reflexivity. Qed.
