(* Refinement of the NUMERIC CORE of IntervalSet.__init__ (pynapple/core/interval_set.py), as translated in Gen/Glue.v:
   the two independent sort decisions `if not (np.diff(x) > 0).all(): x = np.sort(x)` and the call of _jitfix_iset,
   against the hand model [mk_iset] (Model/Iset.v) that the C01 theorems are about.
   For every kernel environment meeting the contract of _jitfix_iset and ALL start/end arrays of equal length. *)
From Coq Require Import ZArith QArith String List Bool Lia.
From Verif Require Import Base.Prelude Model.Restrict Model.Iset Proofs.FixIsetProofs.
From Verif Require Import Jit.Lang Jit.Interp Glue.Lang Glue.Interp Glue.Kenv Glue.Facts Gen.Glue.
From Verif Require Import Inv.Jitrestrict_func.
Import ListNotations.
Open Scope Z_scope.

Lemma init_body : forall K call ss es, K_ctor_at K ss es -> length ss = length es ->
  run_body K call g_IntervalSet___init__ [tarr ss; tarr es] = GOk (iset_val (mk_iset ss es)).
Proof.
  intros K call ss es HK HL.
  unfold run_body. gsimp.
  rewrite !alen_A1, !coerce_cells_tcells, !zlen_tcells, (zlen_eq_of_length _ _ HL). gsimp.
  destruct HK as [w Hw]. unfold tarr in Hw.
  rewrite diff_all_pos.
  destruct (incb ss) eqn:E1; cbn [negb];
    [replace (tcells ss) with (tcells (sortZ ss)) by (rewrite (incb_sortZ _ E1); reflexivity) | rewrite sort_cells_tcells];
    gsimp; rewrite diff_all_pos;
    (destruct (incb es) eqn:E2; cbn [negb];
    [replace (tcells es) with (tcells (sortZ es)) by (rewrite (incb_sortZ _ E2); reflexivity) | rewrite sort_cells_tcells]);
    gsimp; rewrite Hw; reflexivity.
Qed.

Theorem ref_init : forall K ss es, K_ctor_at K ss es -> length ss = length es ->
  grun K g_IntervalSet___init__ [tarr ss; tarr es] = GOk (iset_val (mk_iset ss es)).
Proof. intros. apply init_body; assumption. Qed.

(* the constructor called by another glue routine, at any remaining call depth *)
Lemma call_init : forall K d ss es, K_ctor_at K ss es -> length ss = length es ->
  gcall K all_glue (S d) "IntervalSet.__init__" [tarr ss; tarr es] = GOk (iset_val (mk_iset ss es)).
Proof.
  intros. cbn [gcall].
  change (find_gfunc all_glue "IntervalSet.__init__") with (Some g_IntervalSet___init__).
  apply init_body; assumption.
Qed.
(* called with two scalars (time_span) *)
Lemma call_init_scalars : forall K d s e, K_ctor_at K [s] [e] ->
  gcall K all_glue (S d) "IntervalSet.__init__" [tsc s; tsc e] = GOk (iset_val (mk_iset [s] [e])).
Proof.
  intros K d s e HK. cbn [gcall].
  change (find_gfunc all_glue "IntervalSet.__init__") with (Some g_IntervalSet___init__).
  transitivity (run_body K (gcall K all_glue d) g_IntervalSet___init__ [tarr [s]; tarr [e]]);
    [unfold run_body; gsimp; reflexivity | apply (init_body K _ [s] [e] HK eq_refl)].
Qed.

(* for every input, given an environment that answers every _jitfix_iset call *)
Corollary ref_init_all : forall K ss es, K_fix_iset K -> length ss = length es ->
  grun K g_IntervalSet___init__ [tarr ss; tarr es] = GOk (iset_val (mk_iset ss es)).
Proof. intros. apply ref_init; [apply K_ctor_of_all|]; assumption. Qed.

(* the length hypothesis is necessary: the source asserts it *)
Example init_length_needed :
  grun kenv_model_g1 g_IntervalSet___init__ [tarr [0]; tarr []] = GErr (ERaise "AssertionError").
Proof. vm_compute. reflexivity. Qed.

(* non-vacuity: unsorted starts and ends, a touching pair (trimmed by 1 us), an improper pair (dropped) *)
Example init_example :
  grun kenv_model_g1 g_IntervalSet___init__ [tarr [5000; 0; 20000]; tarr [9000; 5000; 20000]]
  = GOk (iset_val [(0, 4000); (5000, 9000)]).
Proof. vm_compute. reflexivity. Qed.
