(* Refinement of the public method _BaseTsd.dropna (pynapple/core/time_series.py) as translated in Gen/Glue.v
   ([g__BaseTsd_dropna]; 1-D data declared, so `self.ndim` is dropped), for a Tsd `self` with time index ts, data cells
   data (ARBITRARY float cells, length data = length ts) and time support sup:

     - update_time_support not a bool -> TypeError                                             [tsd_dropna_type_error]
     - the glue routine _dropna gets (self.index.values, self.values, time_support.start, time_support.end,
       update_time_support) and answers [dropna_spec] (Glue/Ref__dropna.v, four branches);
     - update_time_support and starts / ends arrays -> ep = IntervalSet(starts, ends) (the glue routine
       "IntervalSet.__init__", contract [K_ctor_at]); starts / ends None (all rows NaN) -> ep = None;
       not update_time_support -> ep = self.time_support;
     - result: _initialize_tsd_output(self, d, time_index=t, time_support=ep), left to the environment K.

   [ref_tsd_dropna] spells out the arguments that reach _initialize_tsd_output ([dropna_ctor_args]):
       all rows NaN (or no row)      (self, [], [], None | sup)
       no NaN row                    (self, data, ts, IntervalSet(sup.start, sup.end) = mk_iset (firsts sup) (seconds sup) | sup)
       otherwise                     (self, data[kept], kept_times l, mk_iset_pairs (dropna_support l) | sup)
   with l = combine ts (kp_of data), left of the bar: update_time_support = True.

   Corresponds to OpDropna of Model/Store.v (`if forallb snd l then mk_ts_sup (t_ x) (sup_ x)
   else mk_ts_sup (kept_times l) (mk_iset_pairs (dropna_support l))`, which models update_time_support = True):
     * mixed rows: the same times and the same support mk_iset_pairs (dropna_support l);
     * no NaN row: Store.v passes sup itself, the text RE-ENTERS the IntervalSet constructor on sup's two columns; equal
       when sup is a fixed point of the constructor (any support built by it), different otherwise
       ([tsd_dropna_no_nan_canonical] / [tsd_dropna_no_nan_reenters]: [(0, 10000); (10000, 20000)] becomes
       [(0, 9000); (10000, 20000)]);
     * all rows NaN, at least one row: Store.v hands ([], mk_iset_pairs []) to mk_ts_sup, the text (empty, ep = None);
     * EMPTY series: Store.v takes its first case (times [], support sup), the text hands ep = None
       ([tsd_dropna_empty_example]); see also Ref__dropna.dropna_spec_empty. *)
From Coq Require Import ZArith QArith String List Bool Lia.
From Verif Require Import Base.Prelude Model.Restrict Model.Iset Model.Threshold.
From Verif Require Import Jit.Lang Jit.Interp Glue.Lang Glue.Interp Glue.Kenv Glue.KenvText Glue.Facts Gen.Glue.
From Verif Require Import Proofs.FixIsetProofs Glue.Ref_init Glue.Compose Glue.Ref__dropna Glue.Compose__dropna.
From Verif Require Import Inv.Jitrestrict_func Inv.Jitremove_nan_func.
Import ListNotations.
Open Scope Z_scope.
Local Open Scope string_scope.
Local Open Scope Z_scope.

(* a time series object: class, time index, data (None for a Ts), time support *)
Definition series_val (cls : string) (ts : list Z) (vals : option (list sval)) (sup : iset) : gval :=
  GObj cls ([("t", tarr ts)] ++ match vals with Some d => [("values", GArr (A1 DFlt d))] | None => [] end
            ++ [("time_support", iset_val sup)]).

(* the arguments of _initialize_tsd_output(input_object, values, time_index, time_support) *)
Definition dropna_ctor_args (ts : list Z) (data : list sval) (sup : iset) (b : bool) : list gval :=
  let self := series_val "Tsd" ts (Some data) sup in
  let kp := kp_of data in
  let l := combine ts kp in
  if forallb negb kp then [self; farr []; tarr []; if b then GNone else iset_val sup]
  else if forallb (fun p => snd p) l
       then [self; farr data; tarr ts; iset_val (if b then mk_iset (firsts sup) (seconds sup) else sup)]
       else [self; farr (kept_cells data); tarr (kept_times l);
             iset_val (if b then mk_iset_pairs (dropna_support l) else sup)].

(* `return <constructor call>` as the last statement *)
Lemma ret_of_opt : forall (o : option gval) e,
  match match of_opt o e with GOk v => OReturn v | GErr e' => OFail e' end with
  | ONormal _ => GOk GNone | OReturn v => GOk v | OFail e' => GErr e' end = of_opt o e.
Proof. intros [v|] e; reflexivity. Qed.

Theorem ref_tsd_dropna : forall K ts data sup b,
  length data = length ts ->
  (* mixed rows, support recomputed: the kernel call of _dropna and the constructor on the new columns *)
  (b = true -> forallb negb (kp_of data) = false -> forallb (fun b => b) (kp_of data) = false ->
   K_remove_nan_at K ts (kp_of data)
   /\ K_ctor_at K (firsts (dropna_support (combine ts (kp_of data)))) (seconds (dropna_support (combine ts (kp_of data))))) ->
  (* no NaN row: the constructor on the OLD support's columns *)
  (b = true -> forallb negb (kp_of data) = false -> forallb (fun b => b) (kp_of data) = true ->
   K_ctor_at K (firsts sup) (seconds sup)) ->
  grun K g__BaseTsd_dropna [series_val "Tsd" ts (Some data) sup; GSc (VBool b)]
  = of_opt (K "_initialize_tsd_output" (dropna_ctor_args ts data sup b)) (EKernelErr "_initialize_tsd_output").
Proof.
  intros K ts data sup b HL H2 H4.
  unfold dropna_ctor_args, series_val. unfold grun. gstart. gsteps.
  pose proof (call__dropna K 5 ts data (tarr (firsts sup)) (tarr (seconds sup)) b HL
                (fun Hb E1 E2 => proj1 (H2 Hb E1 E2))) as C.
  unfold farr in C at 1. rewrite C. clear C.
  unfold dropna_spec. rewrite forallb_snd_combine by (rewrite length_kp_of; exact HL).
  destruct (forallb negb (kp_of data)) eqn:E1.
  - (* all NaN *)
    destruct b; gsimp; rewrite ret_of_opt; reflexivity.
  - destruct (forallb (fun b => b) (kp_of data)) eqn:E2.
    + (* no NaN *)
      destruct b; gsimp.
      * rewrite call_init by (try exact (H4 eq_refl eq_refl eq_refl); apply length_firsts_seconds). gsimp.
        rewrite ret_of_opt; reflexivity.
      * rewrite ret_of_opt; reflexivity.
    + destruct b; gsimp.
      * rewrite call_init by (try exact (proj2 (H2 eq_refl eq_refl eq_refl)); apply length_firsts_seconds). gsimp.
        rewrite ret_of_opt; reflexivity.
      * rewrite ret_of_opt; reflexivity.
Qed.

(* update_time_support is not a bool (0 / 1 included: isinstance(1, bool) is False) *)
Theorem tsd_dropna_type_error : forall K self v, (forall b, v <> GSc (VBool b)) ->
  grun K g__BaseTsd_dropna [self; v] = GErr (ERaise "TypeError").
Proof.
  intros K self v H. unfold grun. gstart.
  destruct v as [|[z|q|b]|s|a|l|c fs]; try reflexivity. exfalso. exact (H b eq_refl).
Qed.

(* ---------- glue text + kernel text, the series constructor left to an arbitrary environment C ---------- *)
Definition kenv_with (fuel : nat) (C : kenv) : kenv := fun name a =>
  match kenv_text fuel name a with Some v => Some v | None => C name a end.
Lemma kenv_with_some : forall fuel C name a v, kenv_text fuel name a = Some v -> kenv_with fuel C name a = Some v.
Proof. intros fuel C name a v H. unfold kenv_with. rewrite H. reflexivity. Qed.
Lemma kenv_with_init_tsd : forall fuel C a, kenv_with fuel C "_initialize_tsd_output" a = C "_initialize_tsd_output" a.
Proof. reflexivity. Qed.
Lemma with_remove_nan_at : forall fuel C ts kp,
  K_remove_nan_at (kenv_text fuel) ts kp -> K_remove_nan_at (kenv_with fuel C) ts kp.
Proof. intros fuel C ts kp H. apply kenv_with_some. exact H. Qed.
Lemma with_ctor_at : forall fuel C ss es, K_ctor_at (kenv_text fuel) ss es -> K_ctor_at (kenv_with fuel C) ss es.
Proof. intros fuel C ss es [w H]. exists w. apply kenv_with_some. exact H. Qed.

Theorem tsd_dropna_text_to_model : forall C ts data sup b, length data = length ts ->
  exists fuel, grun (kenv_with fuel C) g__BaseTsd_dropna [series_val "Tsd" ts (Some data) sup; GSc (VBool b)]
               = of_opt (C "_initialize_tsd_output" (dropna_ctor_args ts data sup b)) (EKernelErr "_initialize_tsd_output").
Proof.
  intros C ts data sup b HL.
  set (S := dropna_support (combine ts (kp_of data))).
  destruct (forallb negb (kp_of data)) eqn:E1.
  - exists 0%nat. rewrite <- kenv_with_init_tsd with (fuel := 0%nat).
    apply ref_tsd_dropna; [exact HL| |]; intros _ E; rewrite E in E1; discriminate.
  - assert (Hne : ts <> []).
    { pose proof (all_nan_data_nonempty data E1) as Hd. intros ->. destruct data; [contradiction|discriminate]. }
    apply eventually_ex.
    eapply eventually_imp;
      [|apply (eventually_and _ _ (text_remove_nan_at ts (kp_of data) ltac:(rewrite length_kp_of; exact HL) Hne)
                 (eventually_and _ _ (text_ctor_at (firsts S) (seconds S) (length_firsts_seconds S))
                    (text_ctor_at (firsts sup) (seconds sup) (length_firsts_seconds sup))))].
    intros f (H1 & H2 & H3). cbv beta. rewrite <- kenv_with_init_tsd with (fuel := f).
    apply ref_tsd_dropna; [exact HL| |].
    + intros _ _ _. split; [apply with_remove_nan_at; exact H1|apply with_ctor_at; exact H2].
    + intros _ _ _. apply with_ctor_at. exact H3.
Qed.

(* ---------- computed examples (kenv_exec: kernel text + the packaging constructor of Glue/KenvText.v) ---------- *)
Definition nanc : sval := VFlt None.
Definition fcell (z : Z) : sval := VFlt (Some (z # 7)).
Definition sup0 : iset := [(0, 100000)].

Definition t6 : list Z := [0; 10000; 20000; 30000; 40000; 50000].
Definition d6 : list sval := [fcell 1; fcell 2; nanc; fcell 3; nanc; fcell 4].

(* mixed rows: runs [0, 10000], [30000], [50000]; each singleton widened by 1000 ticks; then the IntervalSet constructor *)
Example tsd_dropna_example :
  grun kenv_exec g__BaseTsd_dropna [series_val "Tsd" t6 (Some d6) sup0; GSc (VBool true)]
  = GOk (series_val "Tsd" [0; 10000; 30000; 50000] (Some [fcell 1; fcell 2; fcell 3; fcell 4])
           [(0, 10000); (30000, 31000); (50000, 51000)])
  /\ dropna_ctor_args t6 d6 sup0 true
     = [series_val "Tsd" t6 (Some d6) sup0; farr [fcell 1; fcell 2; fcell 3; fcell 4]; tarr [0; 10000; 30000; 50000];
        iset_val [(0, 10000); (30000, 31000); (50000, 51000)]].
Proof. split; vm_compute; reflexivity. Qed.
(* same series, the support is kept *)
Example tsd_dropna_keep_example :
  grun kenv_exec g__BaseTsd_dropna [series_val "Tsd" t6 (Some d6) sup0; GSc (VBool false)]
  = GOk (series_val "Tsd" [0; 10000; 30000; 50000] (Some [fcell 1; fcell 2; fcell 3; fcell 4]) sup0).
Proof. vm_compute. reflexivity. Qed.
(* all rows NaN: ep = None reaches the constructor (the packaging constructor gives an empty index the empty support) *)
Example tsd_dropna_all_nan_example :
  dropna_ctor_args [0; 10] [nanc; nanc] sup0 true = [series_val "Tsd" [0; 10] (Some [nanc; nanc]) sup0; farr []; tarr []; GNone]
  /\ grun kenv_exec g__BaseTsd_dropna [series_val "Tsd" [0; 10] (Some [nanc; nanc]) sup0; GSc (VBool true)]
     = GOk (series_val "Tsd" [] (Some []) []).
Proof. split; vm_compute; reflexivity. Qed.
(* 1 is not a bool *)
Example tsd_dropna_type_error_example :
  grun kenv_exec g__BaseTsd_dropna [series_val "Tsd" [0; 10] (Some [nanc; nanc]) sup0; GSc (VInt 1)] = GErr (ERaise "TypeError").
Proof. vm_compute. reflexivity. Qed.

(* ---------- comparison with Model/Store.v, OpDropna ---------- *)
(* no NaN row, update_time_support: Store.v keeps sup, the text rebuilds it from its columns.  Equal on every canonical
   support (= every support built by the constructor) ... *)
Lemma tsd_dropna_no_nan_canonical : forall ts data sup b,
  length data = length ts -> canonical sup ->
  forallb negb (kp_of data) = false -> forallb (fun b => b) (kp_of data) = true ->
  dropna_ctor_args ts data sup b = [series_val "Tsd" ts (Some data) sup; farr data; tarr ts; iset_val sup].
Proof.
  intros ts data sup b HL Hc E1 E2. unfold dropna_ctor_args.
  rewrite forallb_snd_combine by (rewrite length_kp_of; exact HL). rewrite E1, E2.
  change (mk_iset (firsts sup) (seconds sup)) with (mk_iset_pairs sup).
  rewrite (FixIsetProofs.mk_iset_canonical_id sup Hc). destruct b; reflexivity.
Qed.
(* ... and different otherwise: two touching intervals, the first one is trimmed by 1 us *)
Example tsd_dropna_no_nan_reenters :
  dropna_ctor_args [0; 10] [fcell 1; fcell 2] [(0, 10000); (10000, 20000)] true
  = [series_val "Tsd" [0; 10] (Some [fcell 1; fcell 2]) [(0, 10000); (10000, 20000)]; farr [fcell 1; fcell 2]; tarr [0; 10];
     iset_val [(0, 9000); (10000, 20000)]].
Proof. vm_compute. reflexivity. Qed.
(* EMPTY series, update_time_support: Store.v answers (times [], support sup0) (forallb snd [] = true), the text hands
   ep = None to the constructor *)
Example tsd_dropna_empty_example :
  dropna_ctor_args [] [] sup0 true = [series_val "Tsd" [] (Some []) sup0; farr []; tarr []; GNone]
  /\ forallb (fun p : Z * bool => snd p) (combine [] (kp_of [])) = true.
Proof. split; vm_compute; reflexivity. Qed.
