(* Refinement of IntervalSet.in_interval as translated in Gen/Glue.v against the hand model [in_interval]
   (Model/Restrict.v): the time index of the series and the two columns are passed to jitin_interval as
   (times, starts, ends) and its result is returned as is (interval number per sample, NaN when in none). *)
From Coq Require Import ZArith QArith String List Bool Lia.
From Verif Require Import Base.Prelude Model.Restrict Model.Iset.
From Verif Require Import Jit.Lang Jit.Interp Glue.Lang Glue.Interp Glue.Kenv Glue.Facts Gen.Glue.
From Verif Require Import Inv.Jitrestrict_func Inv.Jitin_interval_func.
Import ListNotations.
Open Scope Z_scope.

Theorem ref_in_interval : forall K ep ts, K_in_interval_at K ts ep ->
  grun K g_IntervalSet_in_interval [iset_val ep; ts_val ts] = GOk (of_jit (in_array (in_interval ts ep))).
Proof.
  intros K ep ts HK. unfold grun. gstart. gsteps.
  rewrite HK. reflexivity.
Qed.

Example in_interval_example :
  grun kenv_model_g1 g_IntervalSet_in_interval [iset_val [(0, 10); (20, 30)]; ts_val [0; 5; 10; 15; 20; 31]]
  = GOk (of_jit (in_array [Some 0%nat; Some 0%nat; Some 0%nat; None; Some 1%nat; None])).
Proof. vm_compute. reflexivity. Qed.
