(* Refinement of _threshold (pynapple/core/_core_functions.py, numpy backend declared) as translated in Gen/Glue.v:
   (time_array, data_array[:], starts, ends, thr, method) go to jitthreshold in that order and its four results are
   returned unchanged: kept times, kept data, and the new support's starts / ends as exact half ticks
   ([thr_go] / [threshold_support] of Model/Threshold.v, which counts DOUBLED ticks).
   At the glue level `method` is the Python string; the kernel model takes its integer tag (tools/py2jit.py). *)
From Coq Require Import ZArith QArith String List Bool Lia.
From Verif Require Import Base.Prelude Model.Restrict Model.Iset Model.Threshold.
From Verif Require Import Jit.Lang Jit.Interp Jit.Total Gen.Kernels.
From Verif Require Import Glue.Lang Glue.Interp Glue.Kenv Glue.KenvText Glue.Facts Gen.Glue Glue.Compose.
From Verif Require Import Inv.Jitrestrict_func Inv.Jitfix_iset_func Inv.Jitthreshold_func Inv.Jitthreshold_functotal.
Import ListNotations.
Open Scope Z_scope.
Local Open Scope string_scope.
Local Open Scope Z_scope.

(* a half tick: d doubled ticks are d / 2 ticks *)
Definition hgcell (d : Z) : sval := VFlt (Some (Qred (d # 2))).
Definition hgcells (l : list Z) : list sval := map hgcell l.
Definition method_string (m : Z) : string :=
  if m =? 0 then "above" else if m =? 1 then "below" else if m =? 2 then "aboveequal" else "belowequal".

Definition threshold_out (ts : list Z) (dd : dtype) (data : list sval) (ep : iset) (thr : sval) (m : Z) : gval :=
  let kp := keptl m thr data in
  let l := combine ts kp in
  GTup [tarr (kept_times l); GArr (A1 dd (map fst (filter snd (combine data kp))));
        GArr (A1 DFlt (hgcells (fst (thr_go None ep l)))); GArr (A1 DFlt (hgcells (snd (thr_go None ep l))))].

Definition K_threshold_at (K : kenv) (ts : list Z) (dd : dtype) (data : list sval) (ep : iset) (thr : sval) (m : Z) : Prop :=
  K "jitthreshold" [tarr ts; GArr (A1 dd data); tarr (firsts ep); tarr (seconds ep); GSc thr; GStr (method_string m)]
  = Some (threshold_out ts dd data ep thr m).

Theorem ref_threshold : forall K ts dd data ep thr m, K_threshold_at K ts dd data ep thr m ->
  grun K g__threshold [tarr ts; GArr (A1 dd data); tarr (firsts ep); tarr (seconds ep); GSc thr; GStr (method_string m)]
  = GOk (threshold_out ts dd data ep thr m).
Proof. intros K ts dd data ep thr m HK. unfold grun. gstart. rewrite HK. reflexivity. Qed.

(* ---------- with the kernel text ---------- *)
Lemma up_hcell : forall d, up (hcell d) = hgcell d.
Proof.
  intros d. unfold up, hcell, hgcell. do 2 f_equal. apply Qred_complete.
  rewrite htick_eq. unfold Qeq, Qmult, e9q. cbn [Qnum Qden]. lia.
Qed.
Lemma map_up_hcells : forall l, map up (hcells l) = hgcells l.
Proof. intros. unfold hcells, hgcells. rewrite map_map. apply map_ext. apply up_hcell. Qed.
Lemma map_up_qcells : forall l, map up (qcells l) = tcells l.
Proof. intros. unfold qcells, tcells. rewrite map_map. apply map_ext. apply up_qcell. Qed.
Lemma tag_of_method : forall m, 0 <= m <= 3 -> tag_of (method_string m) = Some m.
Proof.
  intros m H. assert (m = 0 \/ m = 1 \/ m = 2 \/ m = 3) as [-> | [-> | [-> | ->]]] by lia; reflexivity.
Qed.

Lemma text_threshold_at : forall ts dd data ep thr m,
  length data = length ts -> 0 <= m <= 3 -> (ep = [] -> ts = []) ->
  eventually (fun fuel => K_threshold_at (kenv_text fuel) ts dd data ep thr m).
Proof.
  intros ts dd data ep thr m Hd Hm Hne.
  destruct (k_jitthreshold_total ts dd data ep thr m Hd Hm Hne) as (f0 & rs & H0 & Hrs & _).
  cbv zeta in Hrs. exists f0. intros fuel L.
  assert (R : run_text fuel "jitthreshold" (threshold_args ts dd data ep thr m) = Some rs).
  { apply (run_text_mono f0); [|exact L]. unfold run_text.
    change (find_func all_kernels "jitthreshold") with (Some k_jitthreshold). cbv beta iota. rewrite H0. reflexivity. }
  unfold K_threshold_at, kenv_text, tarr.
  cbn [roles to_jits to_jit String.eqb Ascii.eqb Bool.eqb orb]. rewrite (tag_of_method m Hm).
  cbn [option_map conv mapv]. rewrite !map_dn_tcells.
  unfold threshold_args in R. rewrite R. subst rs.
  cbn [conv option_map mapv of_jit_result map of_jit]. rewrite map_up_qcells, !map_up_hcells. reflexivity.
Qed.

Theorem threshold_text_to_model : forall ts dd data ep thr m,
  length data = length ts -> 0 <= m <= 3 -> (ep = [] -> ts = []) ->
  exists fuel, grun (kenv_text fuel) g__threshold
                 [tarr ts; GArr (A1 dd data); tarr (firsts ep); tarr (seconds ep); GSc thr; GStr (method_string m)]
               = GOk (threshold_out ts dd data ep thr m).
Proof.
  intros ts dd data ep thr m Hd Hm Hne. apply eventually_ex.
  eapply eventually_imp; [|apply (text_threshold_at ts dd data ep thr m Hd Hm Hne)].
  intros f Hf. apply ref_threshold. exact Hf.
Qed.

(* samples 0,10,20,30 with data 1,5,5,1 above 2: kept 10,20; the new support runs from the midpoint 5 to the midpoint 25 *)
Example threshold_example :
  grun kenv_exec g__threshold
    [tarr [0; 10; 20; 30]; GArr (A1 DFlt [VFlt (Some 1%Q); VFlt (Some 5%Q); VFlt (Some 5%Q); VFlt (Some 1%Q)]);
     tarr [0]; tarr [30]; GSc (VInt 2); GStr "above"]
  = GOk (threshold_out [0; 10; 20; 30] DFlt [VFlt (Some 1%Q); VFlt (Some 5%Q); VFlt (Some 5%Q); VFlt (Some 1%Q)]
           [(0, 30)] (VInt 2) 0).
Proof. vm_compute. reflexivity. Qed.

(* ---------- _threshold called by another glue routine (G3: Tsd.threshold), at any remaining call depth ---------- *)
Lemma threshold_body : forall K call ts dd data ep thr m, K_threshold_at K ts dd data ep thr m ->
  run_body K call g__threshold [tarr ts; GArr (A1 dd data); tarr (firsts ep); tarr (seconds ep); GSc thr; GStr (method_string m)]
  = GOk (threshold_out ts dd data ep thr m).
Proof. intros K call ts dd data ep thr m HK. unfold run_body. gsimp. rewrite HK. reflexivity. Qed.
Lemma call__threshold : forall K d ts dd data ep thr m, K_threshold_at K ts dd data ep thr m ->
  gcall K all_glue (S d) "_threshold"
    [tarr ts; GArr (A1 dd data); tarr (firsts ep); tarr (seconds ep); GSc thr; GStr (method_string m)]
  = GOk (threshold_out ts dd data ep thr m).
Proof.
  intros. cbn [gcall]. change (find_gfunc all_glue "_threshold") with (Some g__threshold). apply threshold_body; assumption.
Qed.
