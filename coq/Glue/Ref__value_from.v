(* Refinement of _value_from (pynapple/core/_core_functions.py) as translated in Gen/Glue.v (g__value_from; declared in
   Gen/glue.json with a 1-D FLOAT data_target_array, so the output buffer is np.full(n, nan)) against the hand model
   [value_from] (Model/ValueFrom.v, the model of the C06 theorems):

       idx_t, count             = jitrestrict_with_count(time_array, starts, ends)
       idx_target, count_target = jitrestrict_with_count(time_target_array, starts, ends)
       mode                     = 1 | 0 | 2   for "closest" | "before" | "after"
       idx            = jitvaluefrom(time_array[idx_t], time_target_array[idx_target], count, count_target, starts, mode)
       new_time_array = time_array[idx_t]
       new_data_array = np.full(len(new_time_array), nan)
       idx2           = ~np.isnan(idx)
       new_data_array[idx2] = data_target_array[idx_target][idx[idx2].astype(int)]

   For EVERY query times qs, target times sr0, target data cells (float cells, one per target time), interval list ep
   and each of the three mode strings, under the pointwise contracts (in ticks) of the three kernel calls the routine
   makes on these inputs: the time array is [restrict_ts qs ep]; the data cell of a restricted query sample is the cell,
   in the RESTRICTED target data, at the index chosen by [value_from], or NaN where [value_from] answers None.
   No sortedness, no canonicity, no condition on ep (start <= end is only needed for the kernel TEXT to meet the contract
   of jitrestrict_with_count: Glue/Compose__value_from.v).
   The first gathers never raise IndexError: [restrict_idx_lt]; the second one neither: [value_from_in_range]. *)
From Coq Require Import ZArith QArith String List Bool Lia.
From Verif Require Import Base.Prelude Model.Restrict Model.ValueFrom Proofs.BaseLemmas Proofs.RestrictProofs
  Proofs.ValueFromProofs.
From Verif Require Import Jit.Lang Jit.Interp Jit.ArrayFacts Jit.FloatFacts.
From Verif Require Import Glue.Lang Glue.Interp Glue.Kenv Glue.KenvText Glue.Facts Gen.Glue.
From Verif Require Import Inv.Jitrestrict_func Inv.Jitvaluefrom_func.
Import ListNotations.
Open Scope Z_scope.
Local Open Scope string_scope.
Local Open Scope Z_scope.

(* ---------- contracts of the kernel calls (times in ticks) ---------- *)
Definition vf_K_rwc_at (K : kenv) (ts : list Z) (ep : iset) : Prop :=
  K "jitrestrict_with_count" [tarr ts; tarr (firsts ep); tarr (seconds ep)]
  = Some (of_jit_result [index_array (restrict_idx ts ep); index_array (restrict_cnt ts ep)]).
Definition vf_K_valuefrom_at (K : kenv) (mode : Z) (qs sr0 : list Z) (ep : iset) : Prop :=
  K "jitvaluefrom" [tarr (restrict_ts qs ep); tarr (restrict_ts sr0 ep);
                    of_jit (index_array (restrict_cnt qs ep)); of_jit (index_array (restrict_cnt sr0 ep));
                    tarr (firsts ep); GSc (VInt mode)]
  = Some (of_jit (vf_result (value_from mode qs sr0 ep))).

(* the three mode strings and their integer codes *)
Definition vf_mode_string (m : Z) : string :=
  if m =? 1 then "closest" else if m =? 0 then "before" else "after".

(* ---------- the result ---------- *)
(* data_target_array[idx_target] : the RESTRICTED target data *)
Definition vf_sel (dcells : list sval) (sr0 : list Z) (ep : iset) : list sval :=
  select (VFlt None) dcells (restrict_idx sr0 ep).
(* one cell per answer: the restricted target cell at the chosen index, NaN for None *)
Definition vf_pick (G : list sval) (l : list (option nat)) : list sval :=
  map (fun o => match o with Some j => nth j G (VFlt None) | None => VFlt None end) l.
Definition vf_data (m : Z) (qs sr0 : list Z) (dcells : list sval) (ep : iset) : list sval :=
  vf_pick (vf_sel dcells sr0 ep) (value_from m qs sr0 ep).

(* float cells: what a float64 array holds *)
Definition float_cell (c : sval) : Prop := exists q, c = VFlt q.
Definition float_cells (d : list sval) : Prop := Forall float_cell d.

(* ---------- the indices of restrict_idx are positions of the array ---------- *)
Lemma restrict_scan_range : forall ep i ts,
  Forall (fun j => (i <= j < i + length ts)%nat) (concat (restrict_scan ep i ts)).
Proof.
  induction ep as [|[s e] r IH]; intros i ts; [constructor|].
  cbn [restrict_scan]. destruct (drop_lt s i ts) as [i1 ts1] eqn:E1.
  destruct (take_le e i1 ts1) as [ix [i2 ts2]] eqn:E2.
  destruct (drop_lt_spec _ _ _ _ _ E1) as (pre & -> & -> & _ & _).
  destruct (take_le_spec _ _ _ _ _ _ E2) as (mid & -> & -> & -> & _ & _).
  cbn [concat]. apply Forall_app. rewrite !app_length. split.
  - apply Forall_forall. intros j Hj. apply in_seq in Hj. lia.
  - eapply Forall_impl; [|apply IH]. intros j Hj. cbv beta in Hj. lia.
Qed.

Lemma restrict_idx_lt : forall ts ep, Forall (fun j => (j < length ts)%nat) (restrict_idx ts ep).
Proof.
  intros. unfold restrict_idx. eapply Forall_impl; [|apply restrict_scan_range]. intros j Hj. cbv beta in Hj. lia.
Qed.

(* ---------- x[ix], ix an array of positions ---------- *)
Lemma select_indep : forall {A} (a b : A) d ix, Forall (fun i => (i < length d)%nat) ix -> select a d ix = select b d ix.
Proof.
  intros A a b d ix H. unfold select. apply map_ext_in. intros i Hi. rewrite Forall_forall in H.
  apply nth_indep. apply H. exact Hi.
Qed.
Lemma length_select : forall {A} (a : A) d ix, length (select a d ix) = length ix.
Proof. intros. unfold select. apply map_length. Qed.

Lemma gather_index_cells : forall d ix, Forall (fun i => (i < length d)%nat) ix ->
  gather_chk d (index_cells ix) = Some (select dflt d ix).
Proof.
  intros d ix H. unfold gather_chk.
  replace (forallb (fun v => in_range (wrap (zlen d) (to_int v)) (zlen d)) (index_cells ix)) with true.
  - f_equal. unfold index_cells, select. rewrite map_map. apply map_ext. intros i. cbn [to_int].
    rewrite wrap_nonneg by lia. unfold nthZ. rewrite Nat2Z.id. reflexivity.
  - symmetry. apply forallb_forall. intros v Hv. unfold index_cells in Hv. apply in_map_iff in Hv.
    destruct Hv as (i & <- & Hi). rewrite Forall_forall in H. specialize (H i Hi). cbn [to_int].
    rewrite wrap_nonneg by lia. apply in_range_true. unfold zlen. lia.
Qed.

Lemma select_tcells : forall ts ix, Forall (fun i => (i < length ts)%nat) ix ->
  select dflt (tcells ts) ix = tcells (select 0 ts ix).
Proof.
  intros ts ix H. unfold select, tcells. rewrite map_map. apply map_ext_in. intros i Hi.
  rewrite Forall_forall in H. rewrite (nth_indep _ dflt (tcell 0)) by (rewrite map_length; apply H; exact Hi).
  apply map_nth.
Qed.

Lemma prim_index_gather : forall dt d ix, Forall (fun i => (i < length d)%nat) ix ->
  prim_index (GArr (A1 dt d)) (GArr (A1 DInt (index_cells ix))) = GOk (GArr (A1 dt (select dflt d ix))).
Proof. intros. unfold prim_index. rewrite gather_index_cells by assumption. reflexivity. Qed.

Lemma prim_index_restrict : forall ts ep,
  prim_index (GArr (A1 DFlt (tcells ts))) (GArr (A1 DInt (index_cells (restrict_idx ts ep)))) = GOk (tarr (restrict_ts ts ep)).
Proof.
  intros. rewrite prim_index_gather by (unfold tcells; rewrite map_length; apply restrict_idx_lt).
  rewrite select_tcells by apply restrict_idx_lt. reflexivity.
Qed.

(* ---------- the float array of answers: NaN mask, its complement, the kept cells ---------- *)
Definition is_some {A} (o : option A) : bool := match o with Some _ => true | None => false end.
Fixpoint somes {A} (l : list (option A)) : list A :=
  match l with [] => [] | Some a :: r => a :: somes r | None :: r => somes r end.
Definition vf_mask (l : list (option nat)) : list sval := map (fun o => VBool (is_some o)) l.
Definition jcells (l : list nat) : list sval := map (fun j => ocell (Some j)) l.

Lemma isnan_ocells : forall l, isnan_cells (ocells l) = map (fun o => VBool (negb (is_some o))) l.
Proof. intros. unfold isnan_cells, ocells. rewrite map_map. apply map_ext. intros [j|]; reflexivity. Qed.
Lemma not_isnan_ocells : forall l, not_cells (isnan_cells (ocells l)) = vf_mask l.
Proof. intros. rewrite isnan_ocells. unfold not_cells, vf_mask. rewrite map_map. apply map_ext. intros [j|]; reflexivity. Qed.
Lemma zlen_ocells : forall l, zlen (ocells l) = zlen l.
Proof. intros. apply zlen_map'. Qed.
Lemma zlen_vf_mask : forall l, zlen (vf_mask l) = zlen l.
Proof. intros. apply zlen_map'. Qed.

Lemma maskl_ocells : forall l, maskl (ocells l) (vf_mask l) = jcells (somes l).
Proof.
  induction l as [|[j|] l IH]; [reflexivity| |]; unfold ocells, vf_mask, jcells in *; cbn [map somes is_some];
    rewrite maskl_cons; cbn [truthy]; rewrite IH; reflexivity.
Qed.
Lemma mask_chk_ocells : forall l, mask_chk (ocells l) (vf_mask l) = Some (jcells (somes l)).
Proof. intros. unfold mask_chk. rewrite zlen_ocells, zlen_vf_mask, Z.eqb_refl, maskl_ocells. reflexivity. Qed.

(* .astype(int) of the kept cells: the float j becomes the integer j *)
Lemma to_int_ocell : forall j, to_int (ocell (Some j)) = Z.of_nat j.
Proof. intros. cbn [ocell to_int]. apply qtrunc_qz. Qed.
Lemma coerce_jcells : forall l, coerce_cells DInt (jcells l) = index_cells l.
Proof.
  intros. unfold coerce_cells, jcells, index_cells. rewrite map_map. apply map_ext. intros j.
  unfold coerce. rewrite to_int_ocell. reflexivity.
Qed.

Lemma count_true_vf_mask : forall l, count_true (vf_mask l) = zlen (somes l).
Proof.
  induction l as [|[j|] l IH]; [reflexivity| |]; unfold count_true, vf_mask in *; cbn [map filter truthy is_some somes].
  - rewrite !zlen_cons, IH. reflexivity.
  - exact IH.
Qed.

(* x[mask] = vs on a NaN-filled buffer: the cells of vs at the True positions, NaN elsewhere *)
Lemma store_mask_nan : forall (f : nat -> sval) l,
  store_mask (repeat (VFlt None) (length l)) (vf_mask l) (map f (somes l))
  = map (fun o => match o with Some j => f j | None => VFlt None end) l.
Proof.
  intros f. induction l as [|[j|] l IH]; [reflexivity| |]; unfold vf_mask in *;
    cbn [length repeat map store_mask truthy is_some somes]; rewrite IH; reflexivity.
Qed.

Lemma somes_in_range : forall n (l : list (option nat)), Forall (ValueFromProofs.in_range 0 n) l ->
  Forall (fun j => (j < n)%nat) (somes l).
Proof.
  intros n l H. induction H as [|[j|] l Hx H IH]; [constructor| |exact IH].
  cbn [somes]. constructor; [cbn in Hx; lia|exact IH].
Qed.

(* every Some j answered by value_from is a position of the restricted target *)
Lemma value_from_somes_lt : forall m qs sr0 ep,
  Forall (fun j => (j < length (restrict_idx sr0 ep))%nat) (somes (value_from m qs sr0 ep)).
Proof.
  intros. apply somes_in_range. pose proof (value_from_in_range m qs sr0 ep) as H.
  unfold restrict_ts in H. rewrite length_select in H. exact H.
Qed.

Lemma coerce_float_cell : forall c, float_cell c -> coerce DFlt c = c.
Proof. intros c [q ->]. reflexivity. Qed.
Lemma float_cell_nth : forall G j, float_cells G -> float_cell (nth j G (VFlt None)).
Proof.
  intros G j H. destruct (Nat.lt_ge_cases j (length G)) as [L|L].
  - unfold float_cells in H. rewrite Forall_forall in H. apply H. apply nth_In. exact L.
  - rewrite nth_overflow by exact L. exists None. reflexivity.
Qed.
Lemma float_cells_select : forall d ix, float_cells d -> float_cells (select (VFlt None) d ix).
Proof.
  intros d ix H. unfold float_cells, select. apply Forall_forall. intros c Hc. apply in_map_iff in Hc.
  destruct Hc as (i & <- & _). apply float_cell_nth. exact H.
Qed.
Lemma coerce_vf_pick : forall G l, float_cells G -> coerce_cells DFlt (vf_pick G l) = vf_pick G l.
Proof.
  intros G l H. unfold coerce_cells, vf_pick. rewrite map_map. apply map_ext. intros [j|]; [|reflexivity].
  apply coerce_float_cell. apply float_cell_nth. exact H.
Qed.

Lemma prim_index_ocells_mask : forall l,
  prim_index (GArr (A1 DFlt (ocells l))) (GArr (A1 DBool (vf_mask l))) = GOk (GArr (A1 DFlt (jcells (somes l)))).
Proof. intros. unfold prim_index. rewrite mask_chk_ocells. reflexivity. Qed.

Lemma full_like_restrict : forall (v : sval) m qs sr0 ep,
  repeat v (Z.to_nat (zlen (tcells (restrict_ts qs ep)))) = repeat v (length (value_from m qs sr0 ep)).
Proof.
  intros. f_equal. rewrite zlen_tcells. unfold zlen. rewrite Nat2Z.id. unfold restrict_ts. rewrite length_select.
  symmetry. apply value_from_length_gen.
Qed.
Lemma zlen_repeat_len : forall {A B} (v : A) (l : list B), zlen (repeat v (length l)) = zlen l.
Proof. intros. unfold zlen. rewrite repeat_length. reflexivity. Qed.
Lemma zlen_select : forall {A} (a : A) d ix, zlen (select a d ix) = zlen ix.
Proof. intros. apply zlen_map'. Qed.
(* the double gather, with NaN as the default cell *)
Lemma double_select : forall dcells ix js,
  Forall (fun i => (i < length dcells)%nat) ix -> Forall (fun j => (j < length ix)%nat) js ->
  select dflt (select dflt dcells ix) js = map (fun j => nth j (select (VFlt None) dcells ix) (VFlt None)) js.
Proof.
  intros dcells ix js H1 H2. rewrite (select_indep dflt (VFlt None) dcells ix H1).
  apply select_indep. rewrite length_select. exact H2.
Qed.

Lemma vf_mode_cases : forall m, 0 <= m <= 2 -> m = 0 \/ m = 1 \/ m = 2.
Proof. intros. lia. Qed.

(* general form: the data array may hold any cells; the masked store converts to the buffer's dtype (float64) *)
(* the body, for an arbitrary resolution [call] of the calls between routines (the body makes none) *)
Lemma value_from_body_coerce : forall K call m qs sr0 dcells ep,
  0 <= m <= 2 -> length dcells = length sr0 ->
  vf_K_rwc_at K qs ep -> vf_K_rwc_at K sr0 ep -> vf_K_valuefrom_at K m qs sr0 ep ->
  run_body K call g__value_from [tarr qs; tarr sr0; GArr (A1 DFlt dcells); tarr (firsts ep); tarr (seconds ep); GStr (vf_mode_string m)]
  = GOk (GTup [tarr (restrict_ts qs ep); GArr (A1 DFlt (coerce_cells DFlt (vf_data m qs sr0 dcells ep)))]).
Proof.
  intros K call m qs sr0 dcells ep Hm HL H1 H2 H3.
  unfold vf_K_rwc_at, vf_K_valuefrom_at, tarr in *. cbn [of_jit_result of_jit index_array vf_result map] in *.
  assert (Hd : Forall (fun i => (i < length dcells)%nat) (restrict_idx sr0 ep)) by (rewrite HL; apply restrict_idx_lt).
  destruct (vf_mode_cases m Hm) as [-> | [-> | ->]];
    [change (vf_mode_string 0) with "before" | change (vf_mode_string 1) with "closest" | change (vf_mode_string 2) with "after"];
    unfold run_body; gsimp;
    rewrite H1; gsimp; rewrite H2; gsimp;
    rewrite !prim_index_restrict; unfold tarr; gsimp; rewrite H3; gsimp;
    rewrite !prim_index_restrict; unfold tarr; gsimp;
    rewrite not_isnan_ocells, (prim_index_gather _ dcells) by exact Hd; gsimp;
    rewrite prim_index_ocells_mask; gsimp; rewrite coerce_jcells;
    rewrite prim_index_gather by (rewrite length_select; apply value_from_somes_lt); gsimp;
    match goal with |- context [ocells (value_from ?mm _ _ _)] => rewrite alen_A1, (full_like_restrict _ mm qs sr0 ep) end;
    rewrite zlen_repeat_len, zlen_vf_mask, Z.eqb_refl;
    rewrite count_true_vf_mask, zlen_select, Z.eqb_refl;
    rewrite double_select by (try exact Hd; apply value_from_somes_lt);
    rewrite store_mask_nan; reflexivity.
Qed.

Theorem ref_value_from_coerce : forall K m qs sr0 dcells ep,
  0 <= m <= 2 -> length dcells = length sr0 ->
  vf_K_rwc_at K qs ep -> vf_K_rwc_at K sr0 ep -> vf_K_valuefrom_at K m qs sr0 ep ->
  grun K g__value_from [tarr qs; tarr sr0; GArr (A1 DFlt dcells); tarr (firsts ep); tarr (seconds ep); GStr (vf_mode_string m)]
  = GOk (GTup [tarr (restrict_ts qs ep); GArr (A1 DFlt (coerce_cells DFlt (vf_data m qs sr0 dcells ep)))]).
Proof. intros. apply value_from_body_coerce; assumption. Qed.

(* the body on a float64 data array *)
Lemma value_from_body : forall K call m qs sr0 dcells ep,
  0 <= m <= 2 -> float_cells dcells -> length dcells = length sr0 ->
  vf_K_rwc_at K qs ep -> vf_K_rwc_at K sr0 ep -> vf_K_valuefrom_at K m qs sr0 ep ->
  run_body K call g__value_from [tarr qs; tarr sr0; GArr (A1 DFlt dcells); tarr (firsts ep); tarr (seconds ep); GStr (vf_mode_string m)]
  = GOk (GTup [tarr (restrict_ts qs ep); GArr (A1 DFlt (vf_data m qs sr0 dcells ep))]).
Proof.
  intros K call m qs sr0 dcells ep Hm HF HL H1 H2 H3. rewrite (value_from_body_coerce K call m qs sr0 dcells ep Hm HL H1 H2 H3).
  unfold vf_data. rewrite coerce_vf_pick by (apply float_cells_select; exact HF). reflexivity.
Qed.

(* _value_from called by another glue routine, at any remaining call depth *)
Lemma call__value_from : forall K d m qs sr0 dcells ep,
  0 <= m <= 2 -> float_cells dcells -> length dcells = length sr0 ->
  vf_K_rwc_at K qs ep -> vf_K_rwc_at K sr0 ep -> vf_K_valuefrom_at K m qs sr0 ep ->
  gcall K all_glue (S d) "_value_from"
    [tarr qs; tarr sr0; GArr (A1 DFlt dcells); tarr (firsts ep); tarr (seconds ep); GStr (vf_mode_string m)]
  = GOk (GTup [tarr (restrict_ts qs ep); GArr (A1 DFlt (vf_data m qs sr0 dcells ep))]).
Proof.
  intros. cbn [gcall]. change (find_gfunc all_glue "_value_from") with (Some g__value_from).
  apply value_from_body; assumption.
Qed.

(* the declared case: data_target_array is a float64 array *)
Theorem ref_value_from : forall K m qs sr0 dcells ep,
  0 <= m <= 2 -> float_cells dcells -> length dcells = length sr0 ->
  vf_K_rwc_at K qs ep -> vf_K_rwc_at K sr0 ep -> vf_K_valuefrom_at K m qs sr0 ep ->
  grun K g__value_from [tarr qs; tarr sr0; GArr (A1 DFlt dcells); tarr (firsts ep); tarr (seconds ep); GStr (vf_mode_string m)]
  = GOk (GTup [tarr (restrict_ts qs ep); GArr (A1 DFlt (vf_data m qs sr0 dcells ep))]).
Proof.
  intros K m qs sr0 dcells ep Hm HF HL H1 H2 H3. rewrite (ref_value_from_coerce K m qs sr0 dcells ep Hm HL H1 H2 H3).
  unfold vf_data. rewrite coerce_vf_pick by (apply float_cells_select; exact HF). reflexivity.
Qed.

Corollary ref_value_from_closest : forall K qs sr0 dcells ep, float_cells dcells -> length dcells = length sr0 ->
  vf_K_rwc_at K qs ep -> vf_K_rwc_at K sr0 ep -> vf_K_valuefrom_at K 1 qs sr0 ep ->
  grun K g__value_from [tarr qs; tarr sr0; GArr (A1 DFlt dcells); tarr (firsts ep); tarr (seconds ep); GStr "closest"]
  = GOk (GTup [tarr (restrict_ts qs ep); GArr (A1 DFlt (vf_data 1 qs sr0 dcells ep))]).
Proof. intros. apply (ref_value_from K 1); try assumption. lia. Qed.
Corollary ref_value_from_before : forall K qs sr0 dcells ep, float_cells dcells -> length dcells = length sr0 ->
  vf_K_rwc_at K qs ep -> vf_K_rwc_at K sr0 ep -> vf_K_valuefrom_at K 0 qs sr0 ep ->
  grun K g__value_from [tarr qs; tarr sr0; GArr (A1 DFlt dcells); tarr (firsts ep); tarr (seconds ep); GStr "before"]
  = GOk (GTup [tarr (restrict_ts qs ep); GArr (A1 DFlt (vf_data 0 qs sr0 dcells ep))]).
Proof. intros. apply (ref_value_from K 0); try assumption. lia. Qed.
Corollary ref_value_from_after : forall K qs sr0 dcells ep, float_cells dcells -> length dcells = length sr0 ->
  vf_K_rwc_at K qs ep -> vf_K_rwc_at K sr0 ep -> vf_K_valuefrom_at K 2 qs sr0 ep ->
  grun K g__value_from [tarr qs; tarr sr0; GArr (A1 DFlt dcells); tarr (firsts ep); tarr (seconds ep); GStr "after"]
  = GOk (GTup [tarr (restrict_ts qs ep); GArr (A1 DFlt (vf_data 2 qs sr0 dcells ep))]).
Proof. intros. apply (ref_value_from K 2); try assumption. lia. Qed.

(* ---------- the hypotheses on the data array are needed ---------- *)
(* a data array shorter than the target time array: data_target_array[idx_target] raises IndexError *)
Example value_from_length_needed :
  grun kenv_exec g__value_from
    [tarr [3; 6; 8]; tarr [3; 6; 7]; GArr (A1 DFlt [VFlt (Some (103 # 1)); VFlt (Some (106 # 1))]); tarr [0]; tarr [10]; GStr "closest"]
  = GErr EIndex.
Proof. vm_compute. reflexivity. Qed.
(* a cell that is not a float under the float64 tag (an ill-formed array) is converted by the masked store:
   only [ref_value_from_coerce] describes the result *)
Example value_from_float_cells_needed :
  grun kenv_exec g__value_from [tarr [3]; tarr [3]; GArr (A1 DFlt [VInt 5]); tarr [0]; tarr [10]; GStr "closest"]
  = GOk (GTup [tarr [3]; GArr (A1 DFlt [VFlt (Some (5 # 1))])])
  /\ vf_data 1 [3] [3] [VInt 5] [(0, 10)] = [VInt 5].
Proof. vm_compute. split; reflexivity. Qed.

Print Assumptions ref_value_from_coerce.
Print Assumptions ref_value_from.
