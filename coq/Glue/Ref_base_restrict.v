(* Refinement of the method `_Base.restrict(self, iset)` (pynapple/core/base_class.py) as translated in Gen/Glue.v
   (g__Base_restrict): the argument check, the attribute reads, the call of the G2 routine `_restrict`
   (Glue/Ref__restrict.v) on (self.t, iset.start, iset.end), the gathers time_array[idx] / self.values[idx] with the SAME
   index array idx = restrict_idx ts ep (within bounds: Glue/Facts_c05.v) and the constructor call
       self._define_instance(time_array[idx], iset, values = data[idx] | None)
   translated as the environment call  K "_define_instance" [self; time index; time support; values].
   The theorem spells out what reaches the constructor: the time index is [restrict_ts ts ep] and the time support is
   the ARGUMENT iset unchanged - exactly `mk_ts_sup (restrict_ts (t_ x) ep) ep` of the step OpRestrict of Model/Store.v;
   the values are the rows of self.values selected by [restrict_idx ts ep] (None for a Ts). *)
From Coq Require Import ZArith QArith String List Bool Lia.
From Verif Require Import Base.Prelude Model.Restrict Model.Iset.
From Verif Require Import Jit.Lang Jit.Interp Jit.ArrayFacts.
From Verif Require Import Glue.Lang Glue.Interp Glue.Kenv Glue.KenvText Glue.Facts Gen.Glue Glue.Compose Glue.Facts_c05
  Glue.Ref__restrict.
From Verif Require Import Inv.Jitrestrict_func Inv.Jitbin_array_func.
Import ListNotations.
Open Scope Z_scope.
Local Open Scope string_scope.
Local Open Scope Z_scope.

(* ---------- a time series object: Ts (no values) or Tsd (one float column) ---------- *)
Definition series_val (cls : string) (ts : list Z) (vals : option (list sval)) (sup : iset) : gval :=
  GObj cls ([("t", tarr ts)] ++ match vals with Some d => [("values", GArr (A1 DFlt d))] | None => [] end
            ++ [("time_support", iset_val sup)]).

(* the values handed to the constructor: the selected rows, or None *)
Definition restricted_vals (ts : list Z) (vals : option (list sval)) (ep : iset) : gval :=
  match vals with
  | Some d => GArr (A1 DFlt (select (VFlt None) d (restrict_idx ts ep)))
  | None => GNone
  end.
Definition vals_ok (ts : list Z) (vals : option (list sval)) : Prop :=
  match vals with Some d => length d = length ts | None => True end.

(* x[idx] on arbitrary cells, for an index array within bounds *)
Lemma gather_chk_select : forall (dd : sval) (d : list sval) (ix : list nat),
  Forall (fun j => (j < length d)%nat) ix -> gather_chk d (index_cells ix) = Some (select dd d ix).
Proof.
  intros dd d ix H. unfold gather_chk.
  replace (forallb _ (index_cells ix)) with true.
  - f_equal. unfold index_cells, select. rewrite !map_map. apply map_ext_in. intros j Hj.
    eapply Forall_forall in H; [|exact Hj]. cbn [to_int]. rewrite wrap_nonneg by lia.
    unfold nthZ. rewrite Nat2Z.id. apply nth_indep. exact H.
  - symmetry. apply forallb_forall. intros v Hv. unfold index_cells in Hv. apply in_map_iff in Hv.
    destruct Hv as (j & <- & Hj). eapply Forall_forall in H; [|exact Hj]. cbn [to_int].
    rewrite wrap_nonneg by lia. apply in_range_true. unfold zlen. lia.
Qed.

Lemma index_tarr_restrict_idx : forall ts ep,
  prim_index (tarr ts) (GArr (A1 DInt (index_cells (restrict_idx ts ep)))) = GOk (tarr (restrict_ts ts ep)).
Proof. intros. unfold prim_index, tarr. rewrite gather_tcells_restrict. reflexivity. Qed.
Lemma index_vals_restrict_idx : forall ts d ep, length d = length ts ->
  prim_index (GArr (A1 DFlt d)) (GArr (A1 DInt (index_cells (restrict_idx ts ep))))
  = GOk (GArr (A1 DFlt (select (VFlt None) d (restrict_idx ts ep)))).
Proof.
  intros ts d ep H. unfold prim_index.
  rewrite (gather_chk_select (VFlt None)) by (rewrite H; apply restrict_idx_bound). reflexivity.
Qed.

(* ---------- refinement ---------- *)
(* OpRestrict of Model/Store.v: the constructor receives (restrict_ts ts ep, ep) *)
Theorem ref_base_restrict : forall K cls ts vals sup ep, K_restrict_at K ts ep -> vals_ok ts vals ->
  grun K g__Base_restrict [series_val cls ts vals sup; iset_val ep]
  = of_opt (K "_define_instance" [series_val cls ts vals sup; tarr (restrict_ts ts ep); iset_val ep;
                                  restricted_vals ts vals ep])
           (EKernelErr "_define_instance").
Proof.
  intros K cls ts vals sup ep HK HL. unfold grun. gstart.
  destruct vals as [d|]; cbn [vals_ok] in HL; gsimp;
    repeat (rewrite Bool.andb_false_r; gsimp); gsteps;
    rewrite call_restrict by exact HK; gsimp;
    repeat (rewrite Bool.andb_false_r; gsimp);
    rewrite ?index_tarr_restrict_idx, ?(index_vals_restrict_idx ts _ ep HL); gsimp;
    repeat (rewrite Bool.andb_false_r; gsimp);
    rewrite ?index_tarr_restrict_idx; gsimp;
    match goal with |- context [K ?n ?a] => destruct (K n a) end; reflexivity.
Qed.

(* the argument is not an IntervalSet: TypeError, whatever the environment *)
Theorem ref_base_restrict_type_error : forall K self x,
  (forall cls fs, x <> GObj cls fs) ->
  grun K g__Base_restrict [self; x] = GErr (ERaise "TypeError").
Proof.
  intros K self x H. unfold grun. gstart. destruct x; try reflexivity. exfalso. eapply H. reflexivity.
Qed.
Theorem ref_base_restrict_type_error_obj : forall K self cls fs, cls <> "IntervalSet" ->
  grun K g__Base_restrict [self; GObj cls fs] = GErr (ERaise "TypeError").
Proof.
  intros K self cls fs H. unfold grun. gstart. apply String.eqb_neq in H. rewrite H. reflexivity.
Qed.

(* ---------- glue text + kernel text, for any constructor environment ---------- *)
(* the environment that runs the kernel text and leaves every other name (the constructors) to C *)
Definition kenv_text_with (C : kenv) (fuel : nat) : kenv :=
  fun name a => match kenv_text fuel name a with Some v => Some v | None => C name a end.
Lemma kenv_text_with_some : forall C fuel name a v,
  kenv_text fuel name a = Some v -> kenv_text_with C fuel name a = Some v.
Proof. intros C fuel name a v H. unfold kenv_text_with. rewrite H. reflexivity. Qed.
Lemma kenv_text_with_define_instance : forall C fuel a,
  kenv_text_with C fuel "_define_instance" a = C "_define_instance" a.
Proof. reflexivity. Qed.

Theorem base_restrict_text_to_model : forall C cls ts vals sup ep,
  Forall (fun I => fst I <= snd I) ep -> vals_ok ts vals ->
  exists fuel, grun (kenv_text_with C fuel) g__Base_restrict [series_val cls ts vals sup; iset_val ep]
               = of_opt (C "_define_instance" [series_val cls ts vals sup; tarr (restrict_ts ts ep); iset_val ep;
                                               restricted_vals ts vals ep])
                        (EKernelErr "_define_instance").
Proof.
  intros C cls ts vals sup ep Hep HL. apply eventually_ex. eapply eventually_imp; [|apply (text_restrict_at ts ep Hep)].
  intros f Hf. rewrite ref_base_restrict; [reflexivity| |exact HL].
  apply kenv_text_with_some. exact Hf.
Qed.

(* ---------- computed instances ---------- *)
(* a constructor environment that just records what it receives, over the kernel text with the fuel of [kenv_exec]
   ([kenv_exec] itself packages the constructor arguments as an object: Glue/KenvText.v) *)
Definition ctor_echo : kenv :=
  fun name a => if String.eqb name "_define_instance" then Some (GTup (GStr name :: a)) else None.
Definition kenv_exec_echo : kenv := kenv_text_with ctor_echo exec_fuel.

Example base_restrict_example_tsd :
  let self := series_val "Tsd" [0; 5; 10; 15; 20; 31] (Some (vcells [1; 2; 3; 4; 5; 6])) [(0, 40)] in
  grun kenv_exec_echo g__Base_restrict [self; iset_val [(0, 10); (20, 30)]]
  = GOk (GTup [GStr "_define_instance"; self; tarr [0; 5; 10; 20]; iset_val [(0, 10); (20, 30)];
               GArr (A1 DFlt (vcells [1; 2; 3; 5]))]).
Proof. vm_compute. reflexivity. Qed.
Example base_restrict_example_ts :
  let self := series_val "Ts" [0; 5; 10; 15; 20; 31] None [(0, 40)] in
  grun kenv_exec_echo g__Base_restrict [self; iset_val [(0, 10); (20, 30)]]
  = GOk (GTup [GStr "_define_instance"; self; tarr [0; 5; 10; 20]; iset_val [(0, 10); (20, 30)]; GNone]).
Proof. vm_compute. reflexivity. Qed.
Example base_restrict_example_type_error :
  grun kenv_exec_echo g__Base_restrict [series_val "Ts" [0; 5] None [(0, 40)]; tarr [0; 10]]
  = GErr (ERaise "TypeError").
Proof. vm_compute. reflexivity. Qed.
(* fewer values than time stamps: self.values[idx] is an IndexError *)
Example base_restrict_length_needed :
  grun kenv_exec_echo g__Base_restrict
    [series_val "Tsd" [0; 5; 10] (Some (vcells [1; 2])) [(0, 40)]; iset_val [(0, 10)]] = GErr EIndex.
Proof. vm_compute. reflexivity. Qed.
(* an interval with start > end (impossible for a constructed IntervalSet): the kernel text keeps [3; 6; 8], the model
   [6; 8]; the hypothesis of [base_restrict_text_to_model] is needed (it is jitrestrict's) *)
Example base_restrict_start_le_end_needed :
  let self := series_val "Ts" [3; 6; 8] None [(0, 40)] in
  grun kenv_exec_echo g__Base_restrict [self; iset_val [(5, 2); (0, 10)]]
  = GOk (GTup [GStr "_define_instance"; self; tarr [3; 6; 8]; iset_val [(5, 2); (0, 10)]; GNone])
  /\ restrict_ts [3; 6; 8] [(5, 2); (0, 10)] = [6; 8].
Proof. split; vm_compute; reflexivity. Qed.
