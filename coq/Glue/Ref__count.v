(* Refinement of `_count(time_array, starts, ends, bin_size)` (pynapple/core/_core_functions.py; the dtype parameter is
   dropped by the translator) as translated in Gen/Glue.v, against the hand models of Model/Count.v / Model/Restrict.v.
   Two branches:
   - bin_size a number: the four arguments are handed to jitcount in the order (time_array, starts, ends, bin_size) and
     its pair (bin centres, counts) is returned as is: the encoded [count_binned ts ep b], a doubled centre c2 of the
     model being reported as the tick [centre_tick c2] (Inv/Jitcount_func.v);
   - bin_size None: the counts are the SECOND result of jitrestrict_with_count ([restrict_cnt ts ep]) and the reported
     time of interval (s, e) is s + (e - s) / 2, the exact midpoint (s + e) / 2, a half tick when s + e is odd.
   At the glue level every time is counted in ticks; jitcount's theorem is stated in seconds and the change of unit is
   carried by [text_count_at]. *)
From Coq Require Import ZArith QArith String List Bool Lia.
From Verif Require Import Base.Prelude Model.Restrict Model.Iset Model.Count.
From Verif Require Import Jit.Lang Jit.Interp Jit.ArrayFacts Gen.Kernels.
From Verif Require Import Glue.Lang Glue.Interp Glue.Kenv Glue.KenvText Glue.Facts Gen.Glue Glue.Compose Glue.Facts_c05.
From Verif Require Import Inv.Jitrestrict_func Inv.Jitfix_iset_func Inv.Jitcount_func Inv.Jitcount_functotal.
Import ListNotations.
Open Scope Z_scope.
Local Open Scope string_scope.
Local Open Scope Z_scope.

(* ---------- contracts and results ---------- *)
(* the pair (bin centres in ticks, counts) of a list of model rows (doubled centre, count) *)
Definition count_val (R : list (Z * nat)) : gval :=
  GTup [GArr (A1 DFlt (map (fun p => tcell (centre_tick (fst p))) R)); GArr (A1 DInt (map ncell R))].

Definition K_count_at (K : kenv) (ts : list Z) (ep : iset) (b : Z) : Prop :=
  K "jitcount" [tarr ts; tarr (firsts ep); tarr (seconds ep); tsc b] = Some (count_val (count_binned ts ep b)).

(* bin_size = None: (midpoints, counts per interval) *)
Definition count_nobin_val (ts : list Z) (ep : iset) : gval :=
  GTup [GArr (A1 DFlt (map (fun I => VFlt (Some (Qred ((fst I + snd I) # 2)))) ep)); iarr (restrict_cnt ts ep)].

(* ---------- refinement, for every kernel environment meeting the contract of the call made ---------- *)
(* the bodies, whatever the meaning of calls between glue routines (there is none) *)
Lemma count_body : forall K call ts ep b, K_count_at K ts ep b ->
  run_body K call g__count [tarr ts; tarr (firsts ep); tarr (seconds ep); tsc b]
  = GOk (count_val (count_binned ts ep b)).
Proof.
  intros K call ts ep b HK. unfold run_body. gsimp. unfold tcell at 1. gsimp. rewrite HK. gsimp. reflexivity.
Qed.

Lemma count_nobin_body : forall K call ts ep, K_rwc_at K ts ep ->
  run_body K call g__count [tarr ts; tarr (firsts ep); tarr (seconds ep); GNone] = GOk (count_nobin_val ts ep).
Proof.
  intros K call ts ep HK. unfold run_body. gsimp. rewrite HK. gsimp. gsteps.
  rewrite zlen_half_durations, Z.eqb_refl, mid_cells. gsimp. reflexivity.
Qed.

Theorem ref_count : forall K ts ep b, K_count_at K ts ep b ->
  grun K g__count [tarr ts; tarr (firsts ep); tarr (seconds ep); tsc b] = GOk (count_val (count_binned ts ep b)).
Proof. intros K ts ep b HK. apply count_body. exact HK. Qed.

Theorem ref_count_nobin : forall K ts ep, K_rwc_at K ts ep ->
  grun K g__count [tarr ts; tarr (firsts ep); tarr (seconds ep); GNone] = GOk (count_nobin_val ts ep).
Proof. intros K ts ep HK. apply count_nobin_body. exact HK. Qed.

(* _count called by another glue routine, at any remaining call depth *)
Lemma call_count : forall K d ts ep b, K_count_at K ts ep b ->
  gcall K all_glue (S d) "_count" [tarr ts; tarr (firsts ep); tarr (seconds ep); tsc b]
  = GOk (count_val (count_binned ts ep b)).
Proof.
  intros. cbn [gcall]. change (find_gfunc all_glue "_count") with (Some g__count). apply count_body. assumption.
Qed.
Lemma call_count_nobin : forall K d ts ep, K_rwc_at K ts ep ->
  gcall K all_glue (S d) "_count" [tarr ts; tarr (firsts ep); tarr (seconds ep); GNone] = GOk (count_nobin_val ts ep).
Proof.
  intros. cbn [gcall]. change (find_gfunc all_glue "_count") with (Some g__count). apply count_nobin_body. assumption.
Qed.

(* ---------- the kernel text meets the contract of jitcount (change of unit ticks <-> seconds) ---------- *)
Lemma map_up_ccells : forall R : list (Z * nat), map up (map ccell R) = map (fun p => tcell (centre_tick (fst p))) R.
Proof. intros. rewrite map_map. apply map_ext. intros p. apply (up_qcell (centre_tick (fst p))). Qed.
Lemma map_up_ncells : forall R : list (Z * nat), map up (map ncell R) = map ncell R.
Proof. intros. rewrite map_map. apply map_ext. intros p. reflexivity. Qed.

Lemma text_count_at : forall ts ep b, Forall (fun I => fst I <= snd I) ep -> 0 < b ->
  eventually (fun fuel => K_count_at (kenv_text fuel) ts ep b).
Proof.
  intros ts ep b Hep Hb. destruct (k_jitcount_total ts ep b Hep Hb) as [f0 H0]. exists f0. intros fuel L.
  assert (R : run_text fuel "jitcount" (jitcount_args ts ep b) = Some (count_result (count_binned ts ep b))).
  { apply (run_text_mono f0); [|exact L]. unfold run_text.
    change (find_func all_kernels "jitcount") with (Some k_jitcount). cbv beta iota. rewrite H0. reflexivity. }
  unfold K_count_at, kenv_text, tarr, tsc. cbn [roles to_jits to_jit String.eqb Ascii.eqb Bool.eqb conv option_map mapv].
  rewrite !map_dn_tcells, dn_tcell. unfold jitcount_args in R. unfold qcell. rewrite R.
  unfold count_result, count_val. cbn [conv option_map mapv of_jit_result map of_jit].
  rewrite map_up_ccells. reflexivity.
Qed.

(* ---------- glue text + kernel text -> hand model ---------- *)
Theorem count_text_to_model : forall ts ep b, Forall (fun I => fst I <= snd I) ep -> 0 < b ->
  exists fuel, grun (kenv_text fuel) g__count [tarr ts; tarr (firsts ep); tarr (seconds ep); tsc b]
               = GOk (count_val (count_binned ts ep b)).
Proof.
  intros ts ep b Hep Hb. apply eventually_ex. eapply eventually_imp; [|apply (text_count_at ts ep b Hep Hb)].
  intros f Hf. apply ref_count. exact Hf.
Qed.

Theorem count_nobin_text_to_model : forall ts ep, Forall (fun I => fst I <= snd I) ep ->
  exists fuel, grun (kenv_text fuel) g__count [tarr ts; tarr (firsts ep); tarr (seconds ep); GNone]
               = GOk (count_nobin_val ts ep).
Proof.
  intros ts ep Hep. apply eventually_ex. eapply eventually_imp; [|apply (text_rwc_at ts ep Hep)].
  intros f Hf. apply ref_count_nobin. exact Hf.
Qed.

(* ---------- computed instances: glue text over kernel text ([kenv_exec]) ---------- *)
(* bin size 4: the samples 4 and 8 lie exactly on a bin edge and fall in the bin to the RIGHT of it *)
Example count_example :
  grun kenv_exec g__count [tarr [0; 3; 4; 8; 10; 15; 20; 24; 31]; tarr [0; 20]; tarr [10; 31]; tsc 4]
  = GOk (count_val [(4, 2%nat); (12, 1%nat); (20, 2%nat); (44, 1%nat); (52, 1%nat); (60, 1%nat)])
  /\ count_binned [0; 3; 4; 8; 10; 15; 20; 24; 31] [(0, 10); (20, 31)] 4
     = [(4, 2%nat); (12, 1%nat); (20, 2%nat); (44, 1%nat); (52, 1%nat); (60, 1%nat)].
Proof. split; vm_compute; reflexivity. Qed.
(* an odd bin size: the centres 3/2, 9/2, 15/2, ... are half ticks, reported as their even neighbours 2, 4, 8, ... *)
Example count_example_odd_bin :
  grun kenv_exec g__count [tarr [0; 3; 4; 8; 10; 15; 20; 24; 31]; tarr [0; 20]; tarr [10; 31]; tsc 3]
  = GOk (GTup [GArr (A1 DFlt [tcell 2; tcell 4; tcell 8; tcell 22; tcell 24; tcell 28; tcell 30]);
               GArr (A1 DInt [VInt 1; VInt 2; VInt 1; VInt 1; VInt 1; VInt 0; VInt 1])])
  /\ count_binned [0; 3; 4; 8; 10; 15; 20; 24; 31] [(0, 10); (20, 31)] 3
     = [(3, 1%nat); (9, 2%nat); (15, 1%nat); (43, 1%nat); (49, 1%nat); (55, 0%nat); (61, 1%nat)].
Proof. split; vm_compute; reflexivity. Qed.
(* bin_size None: 20 + 31 is odd, the midpoint is the half tick 51/2 *)
Example count_nobin_example :
  grun kenv_exec g__count [tarr [0; 3; 4; 8; 10; 15; 20; 24; 31]; tarr [0; 20]; tarr [10; 31]; GNone]
  = GOk (GTup [GArr (A1 DFlt [VFlt (Some (5 # 1)); VFlt (Some (51 # 2))]); GArr (A1 DInt [VInt 5; VInt 3])])
  /\ count_nobin_val [0; 3; 4; 8; 10; 15; 20; 24; 31] [(0, 10); (20, 31)]
     = GTup [GArr (A1 DFlt [VFlt (Some (5 # 1)); VFlt (Some (51 # 2))]); GArr (A1 DInt [VInt 5; VInt 3])].
Proof. split; vm_compute; reflexivity. Qed.

(* ---------- the hypotheses of the end-to-end theorems are needed (they are the kernels') ---------- *)
(* an interval with start > end: the kernel's scan and the model's scan part ways (Inv/Jitrestrict_with_count_func.v) *)
Example count_start_le_end_needed :
  grun kenv_exec g__count [tarr [3; 6; 8]; tarr [5; 0]; tarr [2; 10]; tsc 4]
  = GOk (GTup [GArr (A1 DFlt [tcell 2; tcell 6; tcell 10]); GArr (A1 DInt [VInt 1; VInt 1; VInt 1])])
  /\ count_val (count_binned [3; 6; 8] [(5, 2); (0, 10)] 4)
     = GTup [GArr (A1 DFlt [tcell 2; tcell 6; tcell 10]); GArr (A1 DInt [VInt 0; VInt 1; VInt 1])].
Proof. split; vm_compute; reflexivity. Qed.
Example count_nobin_start_le_end_needed :
  grun kenv_exec g__count [tarr [3; 6; 8]; tarr [5; 0]; tarr [2; 10]; GNone]
  = GOk (GTup [GArr (A1 DFlt [VFlt (Some (7 # 2)); VFlt (Some (5 # 1))]); GArr (A1 DInt [VInt 0; VInt 3])])
  /\ count_nobin_val [3; 6; 8] [(5, 2); (0, 10)]
     = GTup [GArr (A1 DFlt [VFlt (Some (7 # 2)); VFlt (Some (5 # 1))]); GArr (A1 DInt [VInt 0; VInt 2])].
Proof. split; vm_compute; reflexivity. Qed.
(* a bin size that is not positive: the kernel reports no bin, the model one *)
Example count_bin_size_pos_needed :
  grun kenv_exec g__count [tarr [0; 1; 2]; tarr [0]; tarr [2]; tsc (-1)] = GOk (count_val [])
  /\ count_binned [0; 1; 2] [(0, 2)] (-1) = [(-1, 0%nat)].
Proof. split; vm_compute; reflexivity. Qed.
