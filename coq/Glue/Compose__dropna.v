(* _dropna: the glue TEXT composed with the kernel TEXT of jitremove_nan.

   [text_remove_nan_at]: the environment that runs the translated kernel (Glue/KenvText.v; jitremove_nan is a "ticks
   kernel": arguments and results passed unchanged) meets the pointwise contract [K_remove_nan_at] of Glue/Ref__dropna.v
   for every fuel above a bound, from the TOTAL-correctness theorem [k_jitremove_nan_raw_runs_total]
   (Inv/Jitremove_nan_functotal.v, instantiated at the tick embedding [tcell] and dtype float).  Hypotheses = those of
   that theorem: length kp = length ts, ts <> [].
   [dropna_text_to_model]: branch (2) of _dropna end to end (it implies ts <> []); [dropna_text_to_spec]: every branch.
   Examples: one per branch, computed under [kenv_exec]. *)
From Coq Require Import ZArith QArith String List Bool Lia.
From Verif Require Import Base.Prelude Model.Restrict Model.Iset Model.Threshold.
From Verif Require Import Jit.Lang Jit.Interp Jit.Total Gen.Kernels.
From Verif Require Import Glue.Lang Glue.Interp Glue.Kenv Glue.KenvText Glue.Facts Gen.Glue Glue.Compose Glue.Ref__dropna.
From Verif Require Import Inv.Jitrestrict_func Inv.Jitremove_nan_func Inv.Jitremove_nan_functotal.
Import ListNotations.
Open Scope Z_scope.
Local Open Scope string_scope.
Local Open Scope Z_scope.

Lemma text_remove_nan_at : forall ts kp, length kp = length ts -> ts <> [] ->
  eventually (fun fuel => K_remove_nan_at (kenv_text fuel) ts kp).
Proof.
  intros ts kp HL Hne. destruct (k_jitremove_nan_raw_runs_total DFlt tcell ts kp HL Hne) as [f0 H0]. exists f0. intros fuel L.
  assert (R : run_text fuel "jitremove_nan" (remove_nan_args DFlt tcell ts kp)
              = Some (remove_nan_result DFlt tcell (raw_runs (combine ts kp)))).
  { apply (run_text_mono f0); [|exact L]. unfold run_text.
    change (find_func all_kernels "jitremove_nan") with (Some k_jitremove_nan). cbv beta iota. rewrite H0. reflexivity. }
  unfold K_remove_nan_at, kenv_text, tarr. cbn [roles to_jits to_jit String.eqb Ascii.eqb Bool.eqb orb conv].
  unfold remove_nan_args in R. change (cells tcell ts) with (tcells ts) in R. rewrite R. reflexivity.
Qed.

(* ---------- glue text + kernel text -> hand model ---------- *)
(* branch (2): some but not all rows NaN, update_time_support *)
Theorem dropna_text_to_model : forall ts data st en,
  length data = length ts ->
  forallb negb (kp_of data) = false -> forallb (fun b => b) (kp_of data) = false ->
  exists fuel, grun (kenv_text fuel) g__dropna [tarr ts; farr data; st; en; GSc (VBool true)]
               = GOk (GTup [tarr (kept_times (combine ts (kp_of data))); farr (kept_cells data);
                            tarr (firsts (dropna_support (combine ts (kp_of data))));
                            tarr (seconds (dropna_support (combine ts (kp_of data))))]).
Proof.
  intros ts data st en HL Hall Hany. apply eventually_ex.
  assert (Hne : ts <> []).
  { pose proof (all_nan_data_nonempty data Hall) as Hd. intros ->. destruct data; [contradiction|discriminate]. }
  eapply eventually_imp; [|apply (text_remove_nan_at ts (kp_of data)); [rewrite length_kp_of; exact HL|exact Hne]].
  intros f Hf. apply ref_dropna_some_update; assumption.
Qed.

(* every branch *)
Theorem dropna_text_to_spec : forall ts data st en b,
  length data = length ts ->
  exists fuel, grun (kenv_text fuel) g__dropna [tarr ts; farr data; st; en; GSc (VBool b)]
               = GOk (dropna_spec ts data st en b).
Proof.
  intros ts data st en b HL.
  destruct (forallb negb (kp_of data)) eqn:E1.
  - exists 0%nat. apply ref_dropna; [exact HL|]. intros _ E. rewrite E in E1. discriminate.
  - apply eventually_ex.
    assert (Hne : ts <> []).
    { pose proof (all_nan_data_nonempty data E1) as Hd. intros ->. destruct data; [contradiction|discriminate]. }
    eapply eventually_imp; [|apply (text_remove_nan_at ts (kp_of data)); [rewrite length_kp_of; exact HL|exact Hne]].
    intros f Hf. apply ref_dropna; [exact HL|]. intros _ _ _. exact Hf.
Qed.

(* ---------- one computed example per branch (glue text + kernel text, kenv_exec) ---------- *)
Definition nanc : sval := VFlt None.
Definition fcell (z : Z) : sval := VFlt (Some (z # 7)).

(* (1) only NaN; and the empty series *)
Example dropna_ex_all_nan :
  grun kenv_exec g__dropna [tarr [0; 10; 20]; farr [nanc; nanc; nanc]; tarr [-5]; tarr [100]; GSc (VBool true)]
  = GOk (GTup [farr []; farr []; GNone; GNone])
  /\ grun kenv_exec g__dropna [tarr [0; 10; 20]; farr [nanc; nanc; nanc]; tarr [-5]; tarr [100]; GSc (VBool false)]
  = GOk (GTup [farr []; farr []; tarr [-5]; tarr [100]])
  /\ grun kenv_exec g__dropna [tarr []; farr []; tarr [-5]; tarr [100]; GSc (VBool true)]
  = GOk (GTup [farr []; farr []; GNone; GNone]).
Proof. repeat split; vm_compute; reflexivity. Qed.

(* (2) runs [0,10] (two rows), [30] and [50] (singletons, each widened by exactly 1000 ticks = 1e-6 s) *)
Example dropna_ex_some_update :
  grun kenv_exec g__dropna [tarr [0; 10; 20; 30; 40; 50]; farr [fcell 1; fcell 2; nanc; fcell 3; nanc; fcell 4];
                            tarr [-5]; tarr [100]; GSc (VBool true)]
  = GOk (GTup [tarr [0; 10; 30; 50]; farr [fcell 1; fcell 2; fcell 3; fcell 4]; tarr [0; 30; 50]; tarr [10; 1030; 1050]])
  /\ dropna_support (combine [0; 10; 20; 30; 40; 50] (kp_of [fcell 1; fcell 2; nanc; fcell 3; nanc; fcell 4]))
     = [(0, 10); (30, 1030); (50, 1050)].
Proof. split; vm_compute; reflexivity. Qed.
(* (2) no singleton run: np.any(to_fix) is False, ends untouched *)
Example dropna_ex_some_update_no_singleton :
  grun kenv_exec g__dropna [tarr [0; 10; 20; 30; 40; 50]; farr [fcell 1; fcell 2; nanc; fcell 3; fcell 9; fcell 4];
                            tarr [-5]; tarr [100]; GSc (VBool true)]
  = GOk (GTup [tarr [0; 10; 30; 40; 50]; farr [fcell 1; fcell 2; fcell 3; fcell 9; fcell 4]; tarr [0; 30]; tarr [10; 50]]).
Proof. vm_compute. reflexivity. Qed.

(* (3) same data, support kept *)
Example dropna_ex_some_keep :
  grun kenv_exec g__dropna [tarr [0; 10; 20; 30; 40; 50]; farr [fcell 1; fcell 2; nanc; fcell 3; nanc; fcell 4];
                            tarr [-5]; tarr [100]; GSc (VBool false)]
  = GOk (GTup [tarr [0; 10; 30; 50]; farr [fcell 1; fcell 2; fcell 3; fcell 4]; tarr [-5]; tarr [100]]).
Proof. vm_compute. reflexivity. Qed.

(* (4) no NaN *)
Example dropna_ex_no_nan :
  grun kenv_exec g__dropna [tarr [0; 10; 20]; farr [fcell 1; fcell 2; fcell 5]; tarr [-5]; tarr [100]; GSc (VBool true)]
  = GOk (GTup [tarr [0; 10; 20]; farr [fcell 1; fcell 2; fcell 5]; tarr [-5]; tarr [100]]).
Proof. vm_compute. reflexivity. Qed.

(* the hypothesis length data = length ts of branches (2)/(3) is needed: one datum too many, its index is out of the
   range of the time array *)
Example dropna_length_needed :
  grun kenv_exec g__dropna [tarr [0; 10]; farr [fcell 1; nanc; fcell 3]; tarr [-5]; tarr [100]; GSc (VBool false)]
  = GErr EIndex.
Proof. vm_compute. reflexivity. Qed.

(* the hypotheses of [text_remove_nan_at] are needed: on an empty series, or a mask shorter than the time array, the kernel
   text fails (it reads index_nan[0] / index_nan[t]); _dropna never makes such a call (branch (1) returns first) *)
Example text_remove_nan_nonempty_needed :
  kenv_exec "jitremove_nan" [tarr []; GArr (A1 DBool (nan_cells []))] = None.
Proof. vm_compute. reflexivity. Qed.
Example text_remove_nan_length_needed :
  kenv_exec "jitremove_nan" [tarr [1; 2]; GArr (A1 DBool (nan_cells [true]))] = None.
Proof. vm_compute. reflexivity. Qed.
(* the contract is needed in branch (2): with a kernel environment that does not answer, the routine fails *)
Example dropna_contract_needed :
  grun (fun _ _ => None) g__dropna [tarr [0; 10]; farr [fcell 1; nanc]; tarr [-5]; tarr [100]; GSc (VBool true)]
  = GErr (EKernelErr "jitremove_nan").
Proof. vm_compute. reflexivity. Qed.
