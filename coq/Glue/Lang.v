(* Glue.Lang: deep embedding of the straight-line NumPy-level Python that sits between pynapple's public API
   and its numba kernels (argument preparation, kernel calls, re-indexing, constructor calls).

   Values reuse the scalars and arrays of Jit.Lang, so that an array handed to a kernel by the glue IS the
   argument of the kernel's refinement theorem (Inv/*_func.v):
     - int64 = Z, bool, float64 = [option Q] (exact rational, None = NaN);
     - a TIME is a float counted in nanosecond TICKS: the stored time t ns is the cell [VFlt (Some (inject_Z t))]
       ([tcell] of Inv/Jitrestrict_func.v); a float literal of the source is a time in seconds and is translated to
       ticks exactly (1e-6 -> 1000; the translator refuses a literal that is not a whole number of ns); halving
       produces exact half ticks (a rational with denominator 2);
     - 1-D / 2-D arrays are Jit.Lang.arr; tuples; strings; None;
     - a pynapple object is a record [GObj class fields]:
         IntervalSet   fields  values : 2-D float array with 2 columns (exactly what _jitfix_iset returns)
         Ts/Tsd        fields  t : 1-D float array, values : array, time_support : IntervalSet
   Local variables are numbered by the translator in order of first occurrence (parameters first), so a renaming
   of locals does not change the term. *)
From Coq Require Import ZArith QArith String List Bool.
From Verif Require Import Jit.Lang.
Import ListNotations.
Open Scope Z_scope.

Inductive gval :=
| GNone
| GSc (v : sval)
| GStr (s : string)
| GArr (a : arr)
| GTup (l : list gval)
| GObj (cls : string) (fs : list (string * gval)).

Inductive side := SLeft | SRight.

(* primitive operations; the arguments are evaluated left to right, then the primitive is applied *)
Inductive prim :=
| PAttr (name : string)        (* x.name : field of an object (IntervalSet.start / .end are the two columns) *)
| PCol (j : Z)                 (* x[:, j] on a 2-D array *)
| PLen                         (* len(x): array (rows), tuple, IntervalSet *)
| PBin (op : binop)            (* + - * / // % minimum maximum, broadcasting scalar/array *)
| PCmp (op : cmpop)            (* < <= > >= == !=, broadcasting; result bool / bool array *)
| PInvert                      (* ~x on a bool array or bool scalar *)
| PNot                         (* not x on a scalar *)
| PNeg                         (* -x *)
| PIndex                       (* x[k]: k an int (negative wraps), an int array (gather), a bool array (mask);
                                  x a 1-D array, a 2-D array (rows), a tuple (int only) *)
| PIndex2                      (* x[i, j] on a 2-D array, both ints, negative wraps *)
| PSlice (lo hi : option Z)    (* x[lo:hi] with literal bounds on axis 0 *)
| PSort                        (* np.sort *)
| PDiff                        (* np.diff *)
| PHstack                      (* np.hstack((a, b, ...)) of scalars and 1-D arrays *)
| PAny | PAll                  (* np.any / np.all / .any() / .all() of a 1-D array (or a scalar) *)
| PIsNan                       (* np.isnan, elementwise *)
| PWhere0                      (* np.where(m)[0] *)
| PSearch (s : side)           (* np.searchsorted(a, v, side) : v scalar or array *)
| PSum                         (* np.sum of a 1-D array *)
| PArr1                        (* np.array([x]) / np.array((x,)) / np.array([x], dtype=float64): 1-element float array *)
| PEmptyF                      (* np.array([]) / [] passed as an array: the empty float array *)
| PAsFloat                     (* x.astype(np.float64) / .ravel() / np.asarray(x) on an array: the float view *)
| PAsInt                       (* x.astype(int) *)
| PIdent                       (* declared identities: TsIndex.format_timestamps(x, "s") on rounded input,
                                  TsIndex.return_timestamps(x, "s"), x[:] , .copy(), .ravel() on 1-D *)
| PIsNone                      (* x is None *)
| PIsNumber                    (* isinstance(x, (float, int)) / Number *)
| PFullLike                    (* np.full((len(a),), fill) : args a (array giving the length), fill (scalar) *)
| PStrEq                       (* x == "literal" on strings *)
| PIsInstance (classes : list string)   (* isinstance(x, <pynapple classes>): the class of an object is one of those *)
| PIsKind (k : string)         (* isinstance(x, int | float | bool | str) on a scalar: k = "int" | "float" | "bool" | "str";
                                  is_array_like(x): k = "array" *)
| PHasAttr (name : string)     (* hasattr(x, name) on an object *)
| PInStrs (l : list string)    (* x in ("a", "b", ...) for a string x *)
| PAbs                         (* np.abs / abs on a scalar *)
| PSliceObj                    (* slice(a, b, c): the object with fields start, stop, step *)
| PToArr                       (* declared prologue of the IntervalSet constructor: a Number becomes a 1-element float
                                  array, an array its 1-D float array *)
| PMkIset.                     (* declared epilogue of the constructor (`self.values = data`): the IntervalSet object
                                  whose values are the given 2-column array *)

Inductive gexpr :=
| EVar (x : nat)
| EConst (v : gval)
| EPrim (p : prim) (args : list gexpr)
| ETuple (l : list gexpr)
| EAnd (a b : gexpr)                            (* short-circuit, scalars *)
| EOr (a b : gexpr)
| EIfExp (c a b : gexpr)                        (* a if c else b *)
| EKernel (name : string) (args : list gexpr)   (* call of a numba kernel: interpreted by the kernel environment *)
| ECall (name : string) (args : list gexpr).    (* call of another whitelisted glue routine (constructors included) *)

Inductive gstmt :=
| SSkip
| SAssign (x : nat) (e : gexpr)
| SUnpack (xs : list nat) (e : gexpr)           (* a, b = e *)
| SAugIdx (x : nat) (k : gexpr) (op : binop) (e : gexpr)   (* x[k] op= e ; k a bool mask, e a scalar *)
| SStoreIdx (x : nat) (k : gexpr) (e : gexpr)   (* x[k] = e ; k a bool mask, e an array with one cell per True *)
| SSeq (a b : gstmt)
| SIf (c : gexpr) (a b : gstmt)
| SReturn (e : gexpr)
| SRaise (exn : string).

Record gfunc := mkG {
  gname : string;
  gnparams : nat;        (* variables 0 .. gnparams-1 are the parameters *)
  gnvars : nat;          (* total number of variables *)
  gbody : gstmt }.

Fixpoint gseq (l : list gstmt) : gstmt :=
  match l with
  | [] => SSkip
  | [s] => s
  | s :: r => SSeq s (gseq r)
  end.
