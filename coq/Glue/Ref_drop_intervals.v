(* Refinement of IntervalSet.drop_short_intervals / drop_long_intervals (time_units = "s") as translated in Gen/Glue.v:
   the mask (end - start) > threshold (resp. < threshold), STRICT, ends minus starts, handed to self[mask].
   Hand model of drop_short_intervals: Model/Store.v (OpDropShort). *)
From Coq Require Import ZArith QArith String List Bool Lia.
From Verif Require Import Base.Prelude Model.Restrict Model.Iset.
From Verif Require Import Jit.Lang Jit.Interp Glue.Lang Glue.Interp Glue.Kenv Glue.Facts Gen.Glue Glue.Ref_init Glue.Ref_getitem.
From Verif Require Import Inv.Jitrestrict_func.
Import ListNotations.
Open Scope Z_scope.

Lemma filter_pair_ext : forall (g : Z -> Z -> bool) (A : iset),
  filter (fun I => g (fst I) (snd I)) A = filter (fun '(s, e) => g s e) A.
Proof. intros. apply filter_ext. intros [s e]. reflexivity. Qed.

Definition kept_short (thr : Z) (A : iset) : iset := filter (fun '(s, e) => thr <? e - s) A.
Definition kept_long (thr : Z) (A : iset) : iset := filter (fun '(s, e) => e - s <? thr) A.

Theorem ref_drop_short : forall K A thr, K_ctor_at K (firsts (kept_short thr A)) (seconds (kept_short thr A)) ->
  grun K g_IntervalSet_drop_short_intervals [iset_val A; tsc thr]
  = GOk (iset_val (mk_iset_pairs (filter (fun '(s, e) => thr <? e - s) A))).
Proof.
  intros K A thr HF. unfold kept_short in HF. rewrite <- (filter_pair_ext (fun s e => thr <? e - s)) in HF.
  unfold grun. gstart. gsteps.
  rewrite call_getitem by exact HF.
  rewrite (filter_pair_ext (fun s e => thr <? e - s)). reflexivity.
Qed.

Theorem ref_drop_long : forall K A thr, K_ctor_at K (firsts (kept_long thr A)) (seconds (kept_long thr A)) ->
  grun K g_IntervalSet_drop_long_intervals [iset_val A; tsc thr]
  = GOk (iset_val (mk_iset_pairs (filter (fun '(s, e) => e - s <? thr) A))).
Proof.
  intros K A thr HF. unfold kept_long in HF. rewrite <- (filter_pair_ext (fun s e => e - s <? thr)) in HF.
  unfold grun. gstart. gsteps.
  rewrite call_getitem by exact HF.
  rewrite (filter_pair_ext (fun s e => e - s <? thr)). reflexivity.
Qed.

Corollary ref_drop_short_all : forall K A thr, K_fix_iset K ->
  grun K g_IntervalSet_drop_short_intervals [iset_val A; tsc thr]
  = GOk (iset_val (mk_iset_pairs (filter (fun '(s, e) => thr <? e - s) A))).
Proof. intros K A thr HF. apply ref_drop_short. apply K_ctor_of_all; [exact HF|apply length_firsts_seconds]. Qed.
Corollary ref_drop_long_all : forall K A thr, K_fix_iset K ->
  grun K g_IntervalSet_drop_long_intervals [iset_val A; tsc thr]
  = GOk (iset_val (mk_iset_pairs (filter (fun '(s, e) => e - s <? thr) A))).
Proof. intros K A thr HF. apply ref_drop_long. apply K_ctor_of_all; [exact HF|apply length_firsts_seconds]. Qed.

(* strictness: an interval whose length EQUALS the threshold is dropped by both *)
Example drop_short_example :
  grun kenv_model_g1 g_IntervalSet_drop_short_intervals [iset_val [(0, 10); (20, 40); (50, 55)]; tsc 10]
  = GOk (iset_val [(20, 40)]).
Proof. vm_compute. reflexivity. Qed.
Example drop_long_example :
  grun kenv_model_g1 g_IntervalSet_drop_long_intervals [iset_val [(0, 10); (20, 40); (50, 55)]; tsc 10]
  = GOk (iset_val [(50, 55)]).
Proof. vm_compute. reflexivity. Qed.
