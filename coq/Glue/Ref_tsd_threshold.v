(* Refinement of the public method Tsd.threshold (pynapple/core/time_series.py) as translated in Gen/Glue.v
   ([g_Tsd_threshold]) for a Tsd `self` (time index ts, float data cells data, time support sup):

     - method not in ("above", "below", "aboveequal", "belowequal") -> ValueError              [tsd_threshold_value_error]
     - the glue routine _threshold gets (self.index.values, self.values, time_support.start, time_support.end, thr, method)
       and answers [threshold_out] (Glue/Ref__threshold.v): kept times, kept data, and the new support's starts / ends
       as exact HALF ticks ([hgcells] of the DOUBLED ticks of [thr_go], Model/Threshold.v);
     - time_support = IntervalSet(start=ns, end=ne): the glue routine "IntervalSet.__init__" (Glue/Ref_init.v), whose
       refinement is stated for WHOLE ticks; the translation declares TsIndex.format_timestamps the identity only on
       already-rounded input.  Hence the hypothesis [all_even]: every doubled tick of the new support is even; then
       hgcells l = tcells (map (fun d => d / 2) l) ([hgcells_even]) and Store.v's [halve_iset] (integer division) is exact;
     - result: Tsd(t=t, d=d, time_support=time_support), left to the environment K.

   [ref_tsd_threshold]: the constructor receives
       (kept_times l, data[kept], mk_iset_pairs (halve_iset (threshold_support sup l))),   l = combine ts (keptl m thr data)
   which is exactly what OpThreshold of Model/Store.v hands to mk_ts_sup.

   Hypotheses: the contract of jitthreshold, 0 <= m <= 3 (a valid method), [all_even] on both columns (see
   [tsd_threshold_odd_example]: with an odd doubled tick the text hands the exact half tick 5/2 to the constructor, outside
   the declared rounding identity), the two columns have the same length (needed: [tsd_threshold_length_needed], a
   sample outside the support makes the kernel return 2 starts and 1 end, and the constructor raises), and the contract
   of the constructor on the halved columns. *)
From Coq Require Import ZArith QArith String List Bool Lia.
From Verif Require Import Base.Prelude Model.Restrict Model.Iset Model.Threshold Model.Store.
From Verif Require Import Jit.Lang Jit.Interp Glue.Lang Glue.Interp Glue.Kenv Glue.KenvText Glue.Facts Gen.Glue.
From Verif Require Import Glue.Ref_init Glue.Compose Glue.Ref__threshold Glue.Ref_tsd_dropna.
From Verif Require Import Inv.Jitrestrict_func Inv.Jitthreshold_func.
Import ListNotations.
Open Scope Z_scope.
Local Open Scope string_scope.
Local Open Scope Z_scope.

(* ---------- half ticks that are whole ---------- *)
Definition all_even (l : list Z) : Prop := Forall (fun d => Z.even d = true) l.
Definition halves (l : list Z) : list Z := map (fun d => d / 2) l.

Lemma hgcell_even : forall d, Z.even d = true -> hgcell d = tcell (d / 2).
Proof.
  intros d H. unfold hgcell, tcell. do 2 f_equal. rewrite <- (Qred_inject_Z (d / 2)). apply Qred_complete.
  unfold Qeq, inject_Z. cbn [Qnum Qden]. apply Z.even_spec in H. destruct H as [k ->].
  rewrite (Z.mul_comm 2 k), Z.div_mul by lia. lia.
Qed.
Lemma hgcells_even : forall l, all_even l -> hgcells l = tcells (halves l).
Proof.
  induction 1 as [|d l Hd _ IH]; [reflexivity|]. unfold hgcells, halves, tcells in *. cbn [map].
  rewrite (hgcell_even d Hd), IH. reflexivity.
Qed.

Lemma halve_iset_columns : forall SS EE, length SS = length EE ->
  mk_iset_pairs (halve_iset (combine SS EE)) = mk_iset (halves SS) (halves EE).
Proof.
  intros SS EE H. unfold mk_iset_pairs. f_equal.
  - revert EE H. induction SS as [|s SS IH]; intros [|e EE] H; try discriminate; [reflexivity|].
    unfold halve_iset, halves in *. cbn [combine map fst]. f_equal. apply IH. cbn in H. lia.
  - revert EE H. induction SS as [|s SS IH]; intros [|e EE] H; try discriminate; [reflexivity|].
    unfold halve_iset, halves in *. cbn [combine map snd]. f_equal. apply IH. cbn in H. lia.
Qed.

Lemma method_in_list : forall m, 0 <= m <= 3 ->
  (String.eqb (method_string m) "above" || (String.eqb (method_string m) "below"
   || (String.eqb (method_string m) "aboveequal" || (String.eqb (method_string m) "belowequal" || false)))) = true.
Proof. intros m H. assert (m = 0 \/ m = 1 \/ m = 2 \/ m = 3) as [-> | [-> | [-> | ->]]] by lia; reflexivity. Qed.

(* ---------- the method ---------- *)
Theorem ref_tsd_threshold : forall K ts data sup thr m,
  0 <= m <= 3 ->
  K_threshold_at K ts DFlt data sup thr m ->
  let l := combine ts (keptl m thr data) in
  let SS := fst (thr_go None sup l) in
  let EE := snd (thr_go None sup l) in
  all_even SS -> all_even EE -> length SS = length EE ->
  K_ctor_at K (halves SS) (halves EE) ->
  grun K g_Tsd_threshold [series_val "Tsd" ts (Some data) sup; GSc thr; GStr (method_string m)]
  = of_opt (K "Tsd" [tarr (kept_times l); GArr (A1 DFlt (map fst (filter snd (combine data (keptl m thr data)))));
                     iset_val (mk_iset_pairs (halve_iset (threshold_support sup l)))])
           (EKernelErr "Tsd").
Proof.
  intros K ts data sup thr m Hm HK l SS EE HS HE HL HC.
  assert (Hsup : threshold_support sup l = combine SS EE).
  { unfold threshold_support, SS, EE. destruct (thr_go None sup l); reflexivity. }
  rewrite Hsup, (halve_iset_columns SS EE HL).
  unfold series_val. pose proof (call__threshold K 5 ts DFlt data sup thr m HK) as C. unfold threshold_out in C.
  fold l in C. fold SS in C. fold EE in C. rewrite (hgcells_even SS HS), (hgcells_even EE HE) in C.
  pose proof (method_in_list m Hm) as HM.
  remember (method_string m) as ms. unfold grun. gstart. gsteps. rewrite HM. gsimp. gsteps.
  rewrite C. gsimp.
  change (GArr (A1 DFlt (tcells ?x))) with (tarr x).
  rewrite call_init by (try exact HC; unfold halves; rewrite !map_length; exact HL). gsimp.
  rewrite ret_of_opt. reflexivity.
Qed.

(* an invalid method (any value that is not one of the four strings) *)
Theorem tsd_threshold_value_error : forall K self thr s,
  s <> "above" -> s <> "below" -> s <> "aboveequal" -> s <> "belowequal" ->
  grun K g_Tsd_threshold [self; thr; GStr s] = GErr (ERaise "ValueError").
Proof.
  intros K self thr s H1 H2 H3 H4. unfold grun. gstart.
  apply String.eqb_neq in H1, H2, H3, H4. rewrite H1, H2, H3, H4. reflexivity.
Qed.
Theorem tsd_threshold_value_error_nonstring : forall K self thr v, (forall s, v <> GStr s) ->
  grun K g_Tsd_threshold [self; thr; v] = GErr (ERaise "ValueError").
Proof.
  intros K self thr v H. unfold grun. gstart. destruct v as [|c|s|a|l|c fs]; try reflexivity. exfalso. exact (H s eq_refl).
Qed.

(* ---------- glue text + kernel text, the Tsd constructor left to an arbitrary environment C ---------- *)
Lemma kenv_with_tsd : forall fuel C a, kenv_with fuel C "Tsd" a = C "Tsd" a.
Proof. reflexivity. Qed.

Theorem tsd_threshold_text_to_model : forall C ts data sup thr m,
  length data = length ts -> 0 <= m <= 3 -> (sup = [] -> ts = []) ->
  let l := combine ts (keptl m thr data) in
  let SS := fst (thr_go None sup l) in
  let EE := snd (thr_go None sup l) in
  all_even SS -> all_even EE -> length SS = length EE ->
  exists fuel, grun (kenv_with fuel C) g_Tsd_threshold [series_val "Tsd" ts (Some data) sup; GSc thr; GStr (method_string m)]
    = of_opt (C "Tsd" [tarr (kept_times l); GArr (A1 DFlt (map fst (filter snd (combine data (keptl m thr data)))));
                       iset_val (mk_iset_pairs (halve_iset (threshold_support sup l)))])
             (EKernelErr "Tsd").
Proof.
  intros C ts data sup thr m Hd Hm Hne l SS EE HS HE HL. apply eventually_ex.
  assert (HL' : length (halves SS) = length (halves EE)) by (unfold halves; rewrite !map_length; exact HL).
  eapply eventually_imp;
    [|apply (eventually_and _ _ (text_threshold_at ts DFlt data sup thr m Hd Hm Hne) (text_ctor_at (halves SS) (halves EE) HL'))].
  intros f [H1 H2]. cbv beta. rewrite <- kenv_with_tsd with (fuel := f).
  apply ref_tsd_threshold; try assumption.
  - apply kenv_with_some. exact H1.
  - apply with_ctor_at. exact H2.
Qed.

(* ---------- computed examples (kenv_exec: kernel text + the packaging constructor) ---------- *)
Definition fl (z : Z) : sval := VFlt (Some (z # 1)).

(* samples 0, 10, 20, 30 with data 1, 5, 5, 1 above 2: kept 10, 20; support from the midpoint 5 to the midpoint 25 *)
Example tsd_threshold_example :
  grun kenv_exec g_Tsd_threshold [series_val "Tsd" [0; 10; 20; 30] (Some [fl 1; fl 5; fl 5; fl 1]) [(0, 30)]; GSc (VInt 2); GStr "above"]
  = GOk (series_val "Tsd" [10; 20] (Some [fl 5; fl 5]) [(5, 25)])
  /\ thr_go None [(0, 30)] (combine [0; 10; 20; 30] (keptl 0 (VInt 2) [fl 1; fl 5; fl 5; fl 1])) = ([10], [50]).
Proof. split; vm_compute; reflexivity. Qed.

(* an ODD doubled tick (midpoint of 0 and 5): the translated text hands the exact half tick 5/2 to the IntervalSet
   constructor - outside the declared identity of format_timestamps (the real method rounds it to the ns lattice),
   and outside Store.v's halve_iset, which answers 5 / 2 = 2 *)
Example tsd_threshold_odd_example :
  grun kenv_exec g_Tsd_threshold [series_val "Tsd" [0; 5; 20; 30] (Some [fl 1; fl 5; fl 5; fl 1]) [(0, 30)]; GSc (VInt 2); GStr "above"]
  = GOk (GObj "Tsd" [("t", tarr [5; 20]); ("values", GArr (A1 DFlt [fl 5; fl 5]));
                     ("time_support", GObj "IntervalSet" [("values", GArr (A2 DFlt 1 2 [VFlt (Some (5 # 2)); tcell 25]))])])
  /\ thr_go None [(0, 30)] (combine [0; 5; 20; 30] (keptl 0 (VInt 2) [fl 1; fl 5; fl 5; fl 1])) = ([5], [50])
  /\ halve_iset (threshold_support [(0, 30)] (combine [0; 5; 20; 30] (keptl 0 (VInt 2) [fl 1; fl 5; fl 5; fl 1]))) = [(2, 25)].
Proof. repeat split; vm_compute; reflexivity. Qed.

(* the two columns must have the same length: samples in a gap of the support give 2 starts and 1 end, and the
   constructor's assertion fails *)
Example tsd_threshold_length_needed :
  grun kenv_exec g_Tsd_threshold [series_val "Tsd" [15; 25] (Some [fl 5; fl 5]) [(0, 10); (20, 30)]; GSc (VInt 2); GStr "above"]
  = GErr (ERaise "AssertionError")
  /\ thr_go None [(0, 10); (20, 30)] (combine [15; 25] (keptl 0 (VInt 2) [fl 5; fl 5])) = ([30; 40], [60]).
Proof. split; vm_compute; reflexivity. Qed.

Example tsd_threshold_value_error_example :
  grun kenv_exec g_Tsd_threshold [series_val "Tsd" [15; 25] (Some [fl 5; fl 5]) [(0, 30)]; GSc (VInt 2); GStr "abov"]
  = GErr (ERaise "ValueError").
Proof. vm_compute. reflexivity. Qed.
