(* Refinement of IntervalSet.intersect as translated in Gen/Glue.v against the hand model [iset_inter] (Model/Iset.v):
   columns passed to jitintersect as (start1, end1, start2, end2); of the three results the first two re-enter the
   constructor as (start, end); the parent-index array m only feeds the (skipped) metadata bookkeeping. *)
From Coq Require Import ZArith QArith String List Bool Lia.
From Verif Require Import Base.Prelude Model.Restrict Model.Iset.
From Verif Require Import Jit.Lang Jit.Interp Glue.Lang Glue.Interp Glue.Kenv Glue.Facts Gen.Glue Glue.Ref_init.
From Verif Require Import Inv.Jitrestrict_func Inv.Jitintersect_func.
Import ListNotations.
Open Scope Z_scope.

Theorem ref_intersect : forall K A B,
  K_intersect_at K A B -> K_ctor_at K (starts (k_inter A B)) (ends (k_inter A B)) ->
  grun K g_IntervalSet_intersect [iset_val A; iset_val B] = GOk (iset_val (iset_inter A B)).
Proof.
  intros K A B HI HF. unfold grun. gstart. gsteps.
  rewrite HI. unfold inter_result. gsimp.
  change (GArr (A1 DFlt (tcells ?l))) with (tarr l).
  rewrite col_s_inter, col_e_inter.
  rewrite call_init by (try exact HF; unfold starts, ends; rewrite !map_length; reflexivity).
  reflexivity.
Qed.

Corollary ref_intersect_all : forall K A B, K_fix_iset K -> K_intersect K ->
  grun K g_IntervalSet_intersect [iset_val A; iset_val B] = GOk (iset_val (iset_inter A B)).
Proof.
  intros K A B HF HI. apply ref_intersect; [apply HI|apply K_ctor_of_all; [exact HF|]].
  unfold starts, ends. rewrite !map_length. reflexivity.
Qed.

Example intersect_example :
  grun kenv_model_g1 g_IntervalSet_intersect [iset_val [(0, 10000); (20000, 30000)]; iset_val [(5000, 25000)]]
  = GOk (iset_val [(5000, 10000); (20000, 25000)]).
Proof. vm_compute. reflexivity. Qed.
