(* Refinement of `jitbin_array` (the plain-Python wrapper of pynapple/core/_jitted_functions.py:
       idx, countin = jitrestrict_with_count(time_array, starts, ends)
       return _jitbin_array(countin, time_array[idx], data_array[idx], starts, ends, bin_size))
   and of `_bin_average` (pynapple/core/_core_functions.py, which under the declared numpy backend just calls it), as
   translated in Gen/Glue.v, against the hand model [bin_sum_cnt] of Model/Count.v: the counts handed to the kernel are
   the SECOND result of jitrestrict_with_count, the index array its FIRST result, time and data are gathered with the
   same index array (within bounds: Glue/Facts_c05.v), and the kernel's pair (bin centres, per-bin means) is returned
   as is.  A doubled centre c2 of the model is reported as the tick [centre_tick c2], the mean of an empty bin is NaN
   ([mean_cell], Inv/Jitbin_array_func.v).  Data: one column of integer-valued floats ([vcells]), as in the kernel's
   refinement theorem, with one value per time stamp. *)
From Coq Require Import ZArith QArith String List Bool Lia.
From Verif Require Import Base.Prelude Model.Restrict Model.Iset Model.Count.
From Verif Require Import Jit.Lang Jit.Interp Jit.ArrayFacts Gen.Kernels.
From Verif Require Import Glue.Lang Glue.Interp Glue.Kenv Glue.KenvText Glue.Facts Gen.Glue Glue.Compose Glue.Facts_c05.
From Verif Require Import Inv.Jitrestrict_func Inv.Jitfix_iset_func Inv.Jitcount_func Inv.Jitbin_array_func
  Inv.Jitbin_array_functotal.
Import ListNotations.
Open Scope Z_scope.
Local Open Scope string_scope.
Local Open Scope Z_scope.

(* ---------- contracts and results ---------- *)
Definition varr (vs : list Z) : gval := GArr (A1 DFlt (vcells vs)).

(* the pair (bin centres in ticks, per-bin means) of a list of model rows (doubled centre, (count, sum)) *)
Definition bin_val (R : list (Z * (nat * Z))) : gval :=
  GTup [GArr (A1 DFlt (map (fun p => tcell (centre_tick (fst p))) R)); GArr (A1 DFlt (map mean_cell R))].

Definition K_bin_array_at (K : kenv) (ts vs : list Z) (ep : iset) (b : Z) : Prop :=
  K "_jitbin_array" [iarr (restrict_cnt ts ep); tarr (select 0 ts (restrict_idx ts ep));
                     varr (select 0 vs (restrict_idx ts ep)); tarr (firsts ep); tarr (seconds ep); tsc b]
  = Some (bin_val (bin_sum_cnt ts vs ep b)).

(* ---------- refinement, for every kernel environment meeting the contracts of the two calls made ---------- *)
(* time_array[idx], data_array[idx] *)
Lemma index_tarr_restrict : forall ts ep,
  prim_index (tarr ts) (iarr (restrict_idx ts ep)) = GOk (tarr (select 0 ts (restrict_idx ts ep))).
Proof. intros. unfold prim_index, tarr, iarr. rewrite gather_tcells_restrict. reflexivity. Qed.
Lemma index_varr_restrict : forall ts vs ep, length vs = length ts ->
  prim_index (varr vs) (iarr (restrict_idx ts ep)) = GOk (varr (select 0 vs (restrict_idx ts ep))).
Proof. intros ts vs ep H. unfold prim_index, varr, iarr. rewrite (gather_vcells_restrict ts vs ep H). reflexivity. Qed.

Lemma jitbin_array_body : forall K call ts vs ep b, length vs = length ts ->
  K_rwc_at K ts ep -> K_bin_array_at K ts vs ep b ->
  run_body K call g_jitbin_array [tarr ts; varr vs; tarr (firsts ep); tarr (seconds ep); tsc b]
  = GOk (bin_val (bin_sum_cnt ts vs ep b)).
Proof.
  intros K call ts vs ep b HL H1 H2. unfold run_body. gsimp. rewrite H1. gsimp.
  rewrite index_tarr_restrict, (index_varr_restrict ts vs ep HL). gsimp. rewrite H2. reflexivity.
Qed.

Theorem ref_jitbin_array : forall K ts vs ep b, length vs = length ts ->
  K_rwc_at K ts ep -> K_bin_array_at K ts vs ep b ->
  grun K g_jitbin_array [tarr ts; varr vs; tarr (firsts ep); tarr (seconds ep); tsc b]
  = GOk (bin_val (bin_sum_cnt ts vs ep b)).
Proof. intros. apply jitbin_array_body; assumption. Qed.

(* jitbin_array called by another glue routine, at any remaining call depth *)
Lemma call_jitbin_array : forall K d ts vs ep b, length vs = length ts ->
  K_rwc_at K ts ep -> K_bin_array_at K ts vs ep b ->
  gcall K all_glue (S d) "jitbin_array" [tarr ts; varr vs; tarr (firsts ep); tarr (seconds ep); tsc b]
  = GOk (bin_val (bin_sum_cnt ts vs ep b)).
Proof.
  intros. cbn [gcall]. change (find_gfunc all_glue "jitbin_array") with (Some g_jitbin_array).
  apply jitbin_array_body; assumption.
Qed.

Theorem ref_bin_average : forall K ts vs ep b, length vs = length ts ->
  K_rwc_at K ts ep -> K_bin_array_at K ts vs ep b ->
  grun K g__bin_average [tarr ts; varr vs; tarr (firsts ep); tarr (seconds ep); tsc b]
  = GOk (bin_val (bin_sum_cnt ts vs ep b)).
Proof.
  intros K ts vs ep b HL H1 H2. unfold grun. gstart. rewrite call_jitbin_array by assumption. reflexivity.
Qed.

(* ---------- the kernel text meets the contract of _jitbin_array (change of unit ticks <-> seconds) ---------- *)
Lemma map_up_bcells : forall R : list (Z * (nat * Z)),
  map up (map bcell R) = map (fun p => tcell (centre_tick (fst p))) R.
Proof. intros. rewrite map_map. apply map_ext. intros p. apply (up_qcell (centre_tick (fst p))). Qed.

Lemma text_bin_array_at : forall ts vs ep b, 0 < b ->
  eventually (fun fuel => K_bin_array_at (kenv_text fuel) ts vs ep b).
Proof.
  intros ts vs ep b Hb. destruct (k__jitbin_array_total ts vs ep b Hb) as [f0 H0]. exists f0. intros fuel L.
  assert (R : run_text fuel "_jitbin_array" (bin_array_args ts vs ep b)
              = Some (bin_array_result (bin_sum_cnt ts vs ep b))).
  { apply (run_text_mono f0); [|exact L]. unfold run_text.
    change (find_func all_kernels "_jitbin_array") with (Some k__jitbin_array). cbv beta iota. rewrite H0. reflexivity. }
  unfold K_bin_array_at, kenv_text, iarr, tarr, varr, tsc.
  cbn [roles to_jits to_jit String.eqb Ascii.eqb Bool.eqb conv option_map mapv].
  rewrite !map_dn_tcells, dn_tcell. unfold bin_array_args in R. unfold qcell. rewrite R.
  unfold bin_array_result, bin_val. cbn [conv option_map mapv of_jit_result map of_jit].
  rewrite map_up_bcells. reflexivity.
Qed.

(* ---------- glue text + kernel text -> hand model ---------- *)
Theorem jitbin_array_text_to_model : forall ts vs ep b, length vs = length ts ->
  Forall (fun I => fst I <= snd I) ep -> 0 < b ->
  exists fuel, grun (kenv_text fuel) g_jitbin_array [tarr ts; varr vs; tarr (firsts ep); tarr (seconds ep); tsc b]
               = GOk (bin_val (bin_sum_cnt ts vs ep b)).
Proof.
  intros ts vs ep b HL Hep Hb. apply eventually_ex.
  eapply eventually_imp; [|apply (eventually_and _ _ (text_rwc_at ts ep Hep) (text_bin_array_at ts vs ep b Hb))].
  intros f [H1 H2]. apply ref_jitbin_array; assumption.
Qed.

Theorem bin_average_text_to_model : forall ts vs ep b, length vs = length ts ->
  Forall (fun I => fst I <= snd I) ep -> 0 < b ->
  exists fuel, grun (kenv_text fuel) g__bin_average [tarr ts; varr vs; tarr (firsts ep); tarr (seconds ep); tsc b]
               = GOk (bin_val (bin_sum_cnt ts vs ep b)).
Proof.
  intros ts vs ep b HL Hep Hb. apply eventually_ex.
  eapply eventually_imp; [|apply (eventually_and _ _ (text_rwc_at ts ep Hep) (text_bin_array_at ts vs ep b Hb))].
  intros f [H1 H2]. apply ref_bin_average; assumption.
Qed.

(* ---------- computed instances: glue text over kernel text ([kenv_exec]) ---------- *)
(* bin size 4: the samples 4 and 8 lie exactly on a bin edge and fall in the bin to the RIGHT of it *)
Example jitbin_array_example :
  grun kenv_exec g_jitbin_array
    [tarr [0; 3; 4; 8; 10; 15; 20; 24; 31]; varr [1; 2; 3; 4; 5; 6; 7; 8; 9]; tarr [0; 20]; tarr [10; 31]; tsc 4]
  = GOk (bin_val [(4, (2%nat, 3)); (12, (1%nat, 3)); (20, (2%nat, 9)); (44, (1%nat, 7)); (52, (1%nat, 8));
                  (60, (1%nat, 9))])
  /\ bin_sum_cnt [0; 3; 4; 8; 10; 15; 20; 24; 31] [1; 2; 3; 4; 5; 6; 7; 8; 9] [(0, 10); (20, 31)] 4
     = [(4, (2%nat, 3)); (12, (1%nat, 3)); (20, (2%nat, 9)); (44, (1%nat, 7)); (52, (1%nat, 8)); (60, (1%nat, 9))].
Proof. split; vm_compute; reflexivity. Qed.
(* an odd bin size (half-tick centres reported as their even neighbours), an empty bin (mean NaN), intervals with an
   odd start + end *)
Example bin_average_example :
  grun kenv_exec g__bin_average
    [tarr [0; 3; 4; 8; 10; 15; 20; 24; 31]; varr [1; 2; 3; 4; 5; 6; 7; 8; 9]; tarr [0; 20]; tarr [10; 31]; tsc 3]
  = GOk (GTup [GArr (A1 DFlt [tcell 2; tcell 4; tcell 8; tcell 22; tcell 24; tcell 28; tcell 30]);
               GArr (A1 DFlt [VFlt (Some (1 # 1)); VFlt (Some (5 # 2)); VFlt (Some (4 # 1)); VFlt (Some (7 # 1));
                              VFlt (Some (8 # 1)); VFlt None; VFlt (Some (9 # 1))])])
  /\ bin_sum_cnt [0; 3; 4; 8; 10; 15; 20; 24; 31] [1; 2; 3; 4; 5; 6; 7; 8; 9] [(0, 10); (20, 31)] 3
     = [(3, (1%nat, 1)); (9, (2%nat, 5)); (15, (1%nat, 4)); (43, (1%nat, 7)); (49, (1%nat, 8)); (55, (0%nat, 0));
        (61, (1%nat, 9))].
Proof. split; vm_compute; reflexivity. Qed.

(* ---------- the hypotheses are needed ---------- *)
(* an interval with start > end: jitrestrict_with_count and the model's scan part ways *)
Example bin_average_start_le_end_needed :
  grun kenv_exec g__bin_average [tarr [3; 6; 8]; varr [7; 8; 9]; tarr [5; 0]; tarr [2; 10]; tsc 4]
  = GOk (GTup [GArr (A1 DFlt [tcell 2; tcell 6; tcell 10]);
               GArr (A1 DFlt [VFlt (Some (7 # 1)); VFlt (Some (8 # 1)); VFlt (Some (9 # 1))])])
  /\ bin_val (bin_sum_cnt [3; 6; 8] [7; 8; 9] [(5, 2); (0, 10)] 4)
     = GTup [GArr (A1 DFlt [tcell 2; tcell 6; tcell 10]);
             GArr (A1 DFlt [VFlt None; VFlt (Some (8 # 1)); VFlt (Some (9 # 1))])].
Proof. split; vm_compute; reflexivity. Qed.
(* a bin size that is not positive: the kernel reports no bin, the model one *)
Example bin_average_bin_size_pos_needed :
  grun kenv_exec g__bin_average [tarr [0; 1; 2]; varr [7; 8; 9]; tarr [0]; tarr [2]; tsc (-1)] = GOk (bin_val [])
  /\ bin_sum_cnt [0; 1; 2] [7; 8; 9] [(0, 2)] (-1) = [(-1, (0%nat, 0))].
Proof. split; vm_compute; reflexivity. Qed.
(* fewer data values than time stamps: data_array[idx] is an IndexError *)
Example bin_average_length_needed :
  grun kenv_exec g__bin_average [tarr [3; 6; 8]; varr [7; 8]; tarr [0]; tarr [10]; tsc 4] = GErr EIndex.
Proof. vm_compute. reflexivity. Qed.

(* ---------- _bin_average called by another glue routine (G3: _BaseTsd.bin_average); it calls jitbin_array in turn, so
   two levels of call depth must remain ---------- *)
Lemma call__bin_average : forall K d ts vs ep b, length vs = length ts ->
  K_rwc_at K ts ep -> K_bin_array_at K ts vs ep b ->
  gcall K all_glue (S (S d)) "_bin_average" [tarr ts; varr vs; tarr (firsts ep); tarr (seconds ep); tsc b]
  = GOk (bin_val (bin_sum_cnt ts vs ep b)).
Proof.
  intros K d ts vs ep b HL H1 H2.
  transitivity (run_body K (gcall K all_glue (S d)) g__bin_average
                  [tarr ts; varr vs; tarr (firsts ep); tarr (seconds ep); tsc b]); [reflexivity|].
  unfold run_body. gsimp. rewrite call_jitbin_array by assumption. reflexivity.
Qed.
