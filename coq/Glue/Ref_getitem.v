(* Refinement of the ndarray branch of IntervalSet.__getitem__ (self[mask], the branch taken by drop_short_intervals and
   drop_long_intervals) as translated in Gen/Glue.v: the rows selected by the mask, columns 0 and 1 re-entering the
   constructor as (start, end).  Declared assumption (glue.json): key is a NumPy array. *)
From Coq Require Import ZArith QArith String List Bool Lia.
From Verif Require Import Base.Prelude Model.Restrict Model.Iset.
From Verif Require Import Jit.Lang Jit.Interp Glue.Lang Glue.Interp Glue.Kenv Glue.Facts Gen.Glue Glue.Ref_init.
From Verif Require Import Inv.Jitrestrict_func.
Import ListNotations.
Open Scope Z_scope.

Lemma getitem_body : forall K d (f : Z * Z -> bool) A, K_ctor_at K (firsts (filter f A)) (seconds (filter f A)) ->
  run_body K (gcall K all_glue (S d)) g_IntervalSet___getitem__ [iset_val A; GArr (A1 DBool (bcells (map f A)))]
  = GOk (iset_val (mk_iset_pairs (filter f A))).
Proof.
  intros K d f A HF. unfold run_body. gsimp. gsteps.
  rewrite call_init by (try exact HF; apply length_firsts_seconds). reflexivity.
Qed.

Theorem ref_getitem : forall K (f : Z * Z -> bool) A, K_ctor_at K (firsts (filter f A)) (seconds (filter f A)) ->
  grun K g_IntervalSet___getitem__ [iset_val A; GArr (A1 DBool (bcells (map f A)))]
  = GOk (iset_val (mk_iset_pairs (filter f A))).
Proof. intros. unfold grun, grun_env, call_depth. apply getitem_body. assumption. Qed.

Lemma call_getitem : forall K d (f : Z * Z -> bool) A, K_ctor_at K (firsts (filter f A)) (seconds (filter f A)) ->
  gcall K all_glue (S (S d)) "IntervalSet.__getitem__" [iset_val A; GArr (A1 DBool (bcells (map f A)))]
  = GOk (iset_val (mk_iset_pairs (filter f A))).
Proof.
  intros. cbn [gcall].
  change (find_gfunc all_glue "IntervalSet.__getitem__") with (Some g_IntervalSet___getitem__).
  apply getitem_body. assumption.
Qed.

Corollary ref_getitem_all : forall K (f : Z * Z -> bool) A, K_fix_iset K ->
  grun K g_IntervalSet___getitem__ [iset_val A; GArr (A1 DBool (bcells (map f A)))]
  = GOk (iset_val (mk_iset_pairs (filter f A))).
Proof. intros K f A HF. apply ref_getitem. apply K_ctor_of_all; [exact HF|apply length_firsts_seconds]. Qed.

Example getitem_example :
  grun kenv_model_g1 g_IntervalSet___getitem__
    [iset_val [(0, 10); (20, 30); (40, 50)]; GArr (A1 DBool [VBool true; VBool false; VBool true])]
  = GOk (iset_val [(0, 10); (40, 50)]).
Proof. vm_compute. reflexivity. Qed.
(* a mask of the wrong length is an IndexError, as in NumPy *)
Example getitem_mask_length :
  grun kenv_model_g1 g_IntervalSet___getitem__ [iset_val [(0, 10); (20, 30)]; GArr (A1 DBool [VBool true])] = GErr EIndex.
Proof. vm_compute. reflexivity. Qed.
