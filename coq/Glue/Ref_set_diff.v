(* Refinement of IntervalSet.set_diff as translated in Gen/Glue.v against the hand model [iset_diff] (Model/Iset.v). *)
From Coq Require Import ZArith QArith String List Bool Lia.
From Verif Require Import Base.Prelude Model.Restrict Model.Iset.
From Verif Require Import Jit.Lang Jit.Interp Glue.Lang Glue.Interp Glue.Kenv Glue.Facts Gen.Glue Glue.Ref_init.
From Verif Require Import Inv.Jitrestrict_func Inv.Jitdiff_func.
Import ListNotations.
Open Scope Z_scope.

Theorem ref_set_diff : forall K A B,
  K_diff_at K A B -> K_ctor_at K (starts (k_diff A B)) (ends (k_diff A B)) ->
  grun K g_IntervalSet_set_diff [iset_val A; iset_val B] = GOk (iset_val (iset_diff A B)).
Proof.
  intros K A B HD HF. unfold grun. gstart. gsteps.
  rewrite HD. unfold diff_result. gsimp.
  change (GArr (A1 DFlt (tcells ?l))) with (tarr l).
  rewrite dcol_s_diff, dcol_e_diff.
  rewrite call_init by (try exact HF; unfold starts, ends; rewrite !map_length; reflexivity).
  reflexivity.
Qed.

Corollary ref_set_diff_all : forall K A B, K_fix_iset K -> K_diff K ->
  grun K g_IntervalSet_set_diff [iset_val A; iset_val B] = GOk (iset_val (iset_diff A B)).
Proof.
  intros K A B HF HD. apply ref_set_diff; [apply HD|apply K_ctor_of_all; [exact HF|]].
  unfold starts, ends. rewrite !map_length. reflexivity.
Qed.

Example set_diff_example :
  grun kenv_model_g1 g_IntervalSet_set_diff [iset_val [(0, 10000); (20000, 30000)]; iset_val [(5000, 25000)]]
  = GOk (iset_val [(0, 5000); (25000, 30000)]).
Proof. vm_compute. reflexivity. Qed.
