(* Refinement of IntervalSet.tot_length (time_units = "s") as translated in Gen/Glue.v against [tot_length]
   (Base/Prelude.v): np.sum(values[:, 1] - values[:, 0]), ends minus starts in that order. *)
From Coq Require Import ZArith QArith String List Bool Lia.
From Verif Require Import Base.Prelude Model.Restrict Model.Iset.
From Verif Require Import Jit.Lang Jit.Interp Glue.Lang Glue.Interp Glue.Kenv Glue.Facts Gen.Glue.
From Verif Require Import Inv.Jitrestrict_func.
Import ListNotations.
Open Scope Z_scope.

Theorem ref_tot_length : forall K A,
  grun K g_IntervalSet_tot_length [iset_val A] = GOk (tsc (tot_length A)).
Proof.
  intros K A. unfold grun. gstart. gsteps. reflexivity.
Qed.

Example tot_length_example :
  grun kenv_model_g1 g_IntervalSet_tot_length [iset_val [(-5, 10); (20, 30)]] = GOk (tsc 25).
Proof. vm_compute. reflexivity. Qed.
