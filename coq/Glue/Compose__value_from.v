(* _value_from: glue TEXT composed with kernel TEXT.

   [kenv_text fuel] (Glue/KenvText.v) RUNS the translated kernels jitrestrict_with_count and jitvaluefrom (Gen/Kernels.v)
   on the very arrays the glue passes (both are "ticks kernels": no change of unit).  By their TOTAL-correctness theorems
   (Inv/Jitrestrict_with_count_total.v, Inv/Jitvaluefrom_functotal.v) it meets the pointwise contracts of
   Glue/Ref__value_from.v for every fuel above a bound; with [ref_value_from]:

       exists fuel, grun (kenv_text fuel) g__value_from (encoded inputs) = GOk (encoded hand model)

   for every query times, target times, float target data of the same length, every interval list with start <= end
   (the hypothesis of the kernel theorem of jitrestrict_with_count; needed: [value_from_proper_needed]) and the three
   modes.  No sortedness, no canonicity. *)
From Coq Require Import ZArith QArith String List Bool Lia.
From Verif Require Import Base.Prelude Model.Restrict Model.ValueFrom.
From Verif Require Import Jit.Lang Jit.Interp Jit.Total Gen.Kernels.
From Verif Require Import Glue.Lang Glue.Interp Glue.Kenv Glue.KenvText Glue.Facts Gen.Glue Glue.Compose.
From Verif Require Import Inv.Jitrestrict_func Inv.Jitrestrict_with_count_func Inv.Jitvaluefrom_func.
From Verif Require Import Inv.Jitrestrict_with_count_total Inv.Jitvaluefrom_functotal.
From Verif Require Import Glue.Ref__value_from.
Import ListNotations.
Open Scope Z_scope.
Local Open Scope string_scope.
Local Open Scope Z_scope.

(* ---------- the text environment meets the pointwise contracts, for every fuel above a bound ---------- *)
Lemma vf_text_rwc_at : forall ts ep, Forall (fun I => fst I <= snd I) ep ->
  eventually (fun fuel => vf_K_rwc_at (kenv_text fuel) ts ep).
Proof.
  intros ts ep Hep. destruct (k_jitrestrict_with_count_total ts ep Hep) as [f0 H0]. exists f0. intros fuel L.
  assert (R : run_text fuel "jitrestrict_with_count" (jitrestrict_args ts ep)
              = Some [index_array (restrict_idx ts ep); index_array (restrict_cnt ts ep)]).
  { apply (run_text_mono f0); [|exact L]. unfold run_text.
    change (find_func all_kernels "jitrestrict_with_count") with (Some k_jitrestrict_with_count). cbv beta iota.
    rewrite H0. reflexivity. }
  unfold vf_K_rwc_at, kenv_text, tarr. cbn [roles to_jits to_jit String.eqb Ascii.eqb Bool.eqb orb conv].
  unfold jitrestrict_args in R. rewrite R. reflexivity.
Qed.

Lemma vf_text_valuefrom_at : forall mode qs sr0 ep,
  eventually (fun fuel => vf_K_valuefrom_at (kenv_text fuel) mode qs sr0 ep).
Proof.
  intros mode qs sr0 ep. destruct (k_jitvaluefrom_total_ticks mode qs sr0 ep) as [f0 H0]. exists f0. intros fuel L.
  assert (R : run_text fuel "jitvaluefrom"
                [Ar (A1 DFlt (tcells (restrict_ts qs ep))); Ar (A1 DFlt (tcells (restrict_ts sr0 ep)));
                 index_array (restrict_cnt qs ep); index_array (restrict_cnt sr0 ep);
                 Ar (A1 DFlt (tcells (firsts ep))); Sc (VInt mode)]
              = Some [vf_result (value_from mode qs sr0 ep)]).
  { apply (run_text_mono f0); [|exact L]. unfold run_text.
    change (find_func all_kernels "jitvaluefrom") with (Some k_jitvaluefrom). cbv beta iota.
    rewrite H0. reflexivity. }
  unfold vf_K_valuefrom_at, kenv_text, tarr. cbn [roles to_jits to_jit of_jit index_array String.eqb Ascii.eqb Bool.eqb orb conv].
  unfold index_array in R. rewrite R. reflexivity.
Qed.

(* ---------- glue text + kernel text -> hand model ---------- *)
Theorem value_from_text_to_model : forall m qs sr0 dcells ep,
  0 <= m <= 2 -> float_cells dcells -> length dcells = length sr0 -> Forall (fun I => fst I <= snd I) ep ->
  exists fuel,
    grun (kenv_text fuel) g__value_from
      [tarr qs; tarr sr0; GArr (A1 DFlt dcells); tarr (firsts ep); tarr (seconds ep); GStr (vf_mode_string m)]
    = GOk (GTup [tarr (restrict_ts qs ep); GArr (A1 DFlt (vf_data m qs sr0 dcells ep))]).
Proof.
  intros m qs sr0 dcells ep Hm HF HL Hep. apply eventually_ex.
  eapply eventually_imp;
    [|apply (eventually_and _ _ (vf_text_rwc_at qs ep Hep)
               (eventually_and _ _ (vf_text_rwc_at sr0 ep Hep) (vf_text_valuefrom_at m qs sr0 ep)))].
  intros f [H1 [H2 H3]]. apply ref_value_from; assumption.
Qed.

Corollary value_from_closest_text_to_model : forall qs sr0 dcells ep,
  float_cells dcells -> length dcells = length sr0 -> Forall (fun I => fst I <= snd I) ep ->
  exists fuel,
    grun (kenv_text fuel) g__value_from [tarr qs; tarr sr0; GArr (A1 DFlt dcells); tarr (firsts ep); tarr (seconds ep); GStr "closest"]
    = GOk (GTup [tarr (restrict_ts qs ep); GArr (A1 DFlt (vf_data 1 qs sr0 dcells ep))]).
Proof. intros. apply (value_from_text_to_model 1); try assumption. lia. Qed.
Corollary value_from_before_text_to_model : forall qs sr0 dcells ep,
  float_cells dcells -> length dcells = length sr0 -> Forall (fun I => fst I <= snd I) ep ->
  exists fuel,
    grun (kenv_text fuel) g__value_from [tarr qs; tarr sr0; GArr (A1 DFlt dcells); tarr (firsts ep); tarr (seconds ep); GStr "before"]
    = GOk (GTup [tarr (restrict_ts qs ep); GArr (A1 DFlt (vf_data 0 qs sr0 dcells ep))]).
Proof. intros. apply (value_from_text_to_model 0); try assumption. lia. Qed.
Corollary value_from_after_text_to_model : forall qs sr0 dcells ep,
  float_cells dcells -> length dcells = length sr0 -> Forall (fun I => fst I <= snd I) ep ->
  exists fuel,
    grun (kenv_text fuel) g__value_from [tarr qs; tarr sr0; GArr (A1 DFlt dcells); tarr (firsts ep); tarr (seconds ep); GStr "after"]
    = GOk (GTup [tarr (restrict_ts qs ep); GArr (A1 DFlt (vf_data 2 qs sr0 dcells ep))]).
Proof. intros. apply (value_from_text_to_model 2); try assumption. lia. Qed.

(* ---------- start <= end is needed ---------- *)
(* an interval with end < start: the kernel text of jitrestrict_with_count and the model [restrict_idx] disagree (the
   text keeps the sample 3, the model does not), so the routine's time array is not [restrict_ts qs ep] *)
Example value_from_proper_needed :
  grun kenv_exec g__value_from
    [tarr [3; 6; 8]; tarr [3; 6; 7]; GArr (A1 DFlt [VFlt (Some (103 # 1)); VFlt (Some (106 # 1)); VFlt (Some (107 # 1))]);
     tarr (firsts [(5, 2); (0, 10)]); tarr (seconds [(5, 2); (0, 10)]); GStr "closest"]
  = GOk (GTup [tarr [3; 6; 8]; GArr (A1 DFlt [VFlt (Some (103 # 1)); VFlt (Some (106 # 1)); VFlt (Some (107 # 1))])])
  /\ restrict_ts [3; 6; 8] [(5, 2); (0, 10)] = [6; 8].
Proof. vm_compute. split; reflexivity. Qed.

(* ---------- examples: glue text + kernel text, run ---------- *)
(* four intervals; the query 2 is equidistant from the targets 1 and 3; the interval (20, 25) holds the query 22 and no
   target (NaN in every mode); the query 50 and the targets -5, 60 are outside all intervals (dropped); the first data
   cell is NaN but is never selected. *)
Definition vf_ex_qs : list Z := [0; 2; 5; 12; 13; 22; 30; 50].
Definition vf_ex_sr : list Z := [-5; 1; 3; 11; 12; 31; 45; 60].
Definition vf_ex_ep : iset := [(0, 6); (10, 14); (20, 25); (28, 47)].
Definition vf_ex_cell (z : Z) : sval := VFlt (Some (z # 1)).
Definition vf_ex_data : list sval := VFlt None :: map vf_ex_cell [101; 103; 111; 112; 131; 145; 160].
Definition vf_ex_args (mode : string) : list gval :=
  [tarr vf_ex_qs; tarr vf_ex_sr; GArr (A1 DFlt vf_ex_data); tarr (firsts vf_ex_ep); tarr (seconds vf_ex_ep); GStr mode].

Example value_from_closest_example :
  grun kenv_exec g__value_from (vf_ex_args "closest")
  = GOk (GTup [tarr [0; 2; 5; 12; 13; 22; 30];
               GArr (A1 DFlt [vf_ex_cell 101; vf_ex_cell 103; vf_ex_cell 103; vf_ex_cell 112; vf_ex_cell 112; VFlt None; vf_ex_cell 131])])
  /\ value_from 1 vf_ex_qs vf_ex_sr vf_ex_ep = [Some 0; Some 1; Some 1; Some 3; Some 3; None; Some 4]%nat
  /\ vf_data 1 vf_ex_qs vf_ex_sr vf_ex_data vf_ex_ep
     = [vf_ex_cell 101; vf_ex_cell 103; vf_ex_cell 103; vf_ex_cell 112; vf_ex_cell 112; VFlt None; vf_ex_cell 131].
Proof. vm_compute. repeat split; reflexivity. Qed.
Example value_from_before_example :
  grun kenv_exec g__value_from (vf_ex_args "before")
  = GOk (GTup [tarr [0; 2; 5; 12; 13; 22; 30];
               GArr (A1 DFlt [VFlt None; vf_ex_cell 101; vf_ex_cell 103; vf_ex_cell 112; vf_ex_cell 112; VFlt None; VFlt None])])
  /\ value_from 0 vf_ex_qs vf_ex_sr vf_ex_ep = [None; Some 0; Some 1; Some 3; Some 3; None; None]%nat
  /\ vf_data 0 vf_ex_qs vf_ex_sr vf_ex_data vf_ex_ep
     = [VFlt None; vf_ex_cell 101; vf_ex_cell 103; vf_ex_cell 112; vf_ex_cell 112; VFlt None; VFlt None].
Proof. vm_compute. repeat split; reflexivity. Qed.
Example value_from_after_example :
  grun kenv_exec g__value_from (vf_ex_args "after")
  = GOk (GTup [tarr [0; 2; 5; 12; 13; 22; 30];
               GArr (A1 DFlt [vf_ex_cell 101; vf_ex_cell 103; VFlt None; vf_ex_cell 112; VFlt None; VFlt None; vf_ex_cell 131])])
  /\ value_from 2 vf_ex_qs vf_ex_sr vf_ex_ep = [Some 0; Some 1; None; Some 3; None; None; Some 4]%nat
  /\ vf_data 2 vf_ex_qs vf_ex_sr vf_ex_data vf_ex_ep
     = [vf_ex_cell 101; vf_ex_cell 103; VFlt None; vf_ex_cell 112; VFlt None; VFlt None; vf_ex_cell 131].
Proof. vm_compute. repeat split; reflexivity. Qed.

Print Assumptions vf_text_rwc_at.
Print Assumptions vf_text_valuefrom_at.
Print Assumptions value_from_text_to_model.
