(* Refinement of the public method _BaseTsd.bin_average (pynapple/core/time_series.py) as translated in Gen/Glue.v
   ([g__BaseTsd_bin_average]; time_units = "s" declared) for a Tsd `self` (time index ts, one column of integer-valued
   float data [vcells vs] as in Glue/Ref__bin_average.v, time support sup), a bin size of b ticks and an epoch argument:

     - ep not an IntervalSet (None, the default) -> ep = self.time_support                    [ref_tsd_bin_average_default]
     - not bin_size > 0 -> ValueError                                                         [tsd_bin_average_value_error]
     - the glue routine _bin_average (which calls the glue routine jitbin_array: two nested calls) gets
       (self.index.values, self.values, ep.start, ep.end, bin_size) and answers [bin_val (bin_sum_cnt ts vs ep b)]
       (Model/Count.v): the pair (bin centres, per-bin means);
     - result: _initialize_tsd_output(self, d, time_index=t, time_support=ep), left to the environment K.

   [ref_tsd_bin_average]: _initialize_tsd_output receives (self, MEANS, CENTRES, ep) - the second result of _bin_average
   as values, the first as time index - with ep the argument itself (it does not re-enter the IntervalSet constructor).
   Model/Store.v has no bin_average operation (OpCount is the closest: same bins, counts instead of means); the hand
   model here is [bin_sum_cnt] of Model/Count.v, as for the G2 theorem. *)
From Coq Require Import ZArith QArith String List Bool Lia.
From Verif Require Import Base.Prelude Model.Restrict Model.Iset Model.Count.
From Verif Require Import Jit.Lang Jit.Interp Glue.Lang Glue.Interp Glue.Kenv Glue.KenvText Glue.Facts Gen.Glue.
From Verif Require Import Glue.Compose Glue.Facts_c05 Glue.Ref__bin_average Glue.Ref_tsd_dropna.
From Verif Require Import Inv.Jitrestrict_func Inv.Jitcount_func Inv.Jitbin_array_func.
Import ListNotations.
Open Scope Z_scope.
Local Open Scope string_scope.
Local Open Scope Z_scope.

Definition bin_centres (R : list (Z * (nat * Z))) : gval := GArr (A1 DFlt (map (fun p => tcell (centre_tick (fst p))) R)).
Definition bin_means (R : list (Z * (nat * Z))) : gval := GArr (A1 DFlt (map mean_cell R)).
(* a Tsd whose data are the integer-valued floats vs *)
Definition tsd_val (ts vs : list Z) (sup : iset) : gval := series_val "Tsd" ts (Some (vcells vs)) sup.

Theorem ref_tsd_bin_average : forall K ts vs sup ep b, length vs = length ts -> 0 < b ->
  K_rwc_at K ts ep -> K_bin_array_at K ts vs ep b ->
  grun K g__BaseTsd_bin_average [tsd_val ts vs sup; tsc b; iset_val ep]
  = of_opt (K "_initialize_tsd_output"
              [tsd_val ts vs sup; bin_means (bin_sum_cnt ts vs ep b); bin_centres (bin_sum_cnt ts vs ep b); iset_val ep])
           (EKernelErr "_initialize_tsd_output").
Proof.
  intros K ts vs sup ep b HL Hb H1 H2. unfold tsd_val, series_val, bin_means, bin_centres.
  pose proof (call__bin_average K 4 ts vs ep b HL H1 H2) as C. unfold varr, bin_val in C.
  unfold grun. gstart. gsteps. rewrite gt_tcell_int0. replace (0 <? b) with true by (symmetry; apply Z.ltb_lt; exact Hb).
  gsimp. gsteps. unfold tsc in C. rewrite C. gsimp. rewrite ret_of_opt. reflexivity.
Qed.

(* ep is not an IntervalSet (None is the default): the time support of self *)
Theorem ref_tsd_bin_average_default : forall K ts vs sup epv b, length vs = length ts -> 0 < b ->
  (forall fs, epv <> GObj "IntervalSet" fs) ->
  K_rwc_at K ts sup -> K_bin_array_at K ts vs sup b ->
  grun K g__BaseTsd_bin_average [tsd_val ts vs sup; tsc b; epv]
  = of_opt (K "_initialize_tsd_output"
              [tsd_val ts vs sup; bin_means (bin_sum_cnt ts vs sup b); bin_centres (bin_sum_cnt ts vs sup b); iset_val sup])
           (EKernelErr "_initialize_tsd_output").
Proof.
  intros K ts vs sup epv b HL Hb Hep H1 H2. rewrite <- (ref_tsd_bin_average K ts vs sup sup b HL Hb H1 H2).
  unfold tsd_val, series_val. unfold grun. gstart.
  destruct epv as [|c|s|a|l|c fs]; try reflexivity.
  destruct (String.eqb c "IntervalSet") eqn:E; [apply String.eqb_eq in E; subst c; exfalso; exact (Hep fs eq_refl)|].
  reflexivity.
Qed.

(* a bin size that is not positive *)
Theorem tsd_bin_average_value_error : forall K self ep b, b <= 0 ->
  grun K g__BaseTsd_bin_average [self; tsc b; iset_val ep] = GErr (ERaise "ValueError").
Proof.
  intros K self ep b Hb. unfold grun. gstart. rewrite gt_tcell_int0.
  replace (0 <? b) with false by (symmetry; apply Z.ltb_ge; exact Hb). reflexivity.
Qed.
Theorem tsd_bin_average_value_error_default : forall K ts vs sup b, b <= 0 ->
  grun K g__BaseTsd_bin_average [tsd_val ts vs sup; tsc b; GNone] = GErr (ERaise "ValueError").
Proof.
  intros K ts vs sup b Hb. unfold tsd_val, series_val. unfold grun. gstart. rewrite gt_tcell_int0.
  replace (0 <? b) with false by (symmetry; apply Z.ltb_ge; exact Hb). reflexivity.
Qed.

(* ---------- glue text + kernel text, the series constructor left to an arbitrary environment C ---------- *)
Theorem tsd_bin_average_text_to_model : forall C ts vs sup ep b, length vs = length ts ->
  Forall (fun I => fst I <= snd I) ep -> 0 < b ->
  exists fuel, grun (kenv_with fuel C) g__BaseTsd_bin_average [tsd_val ts vs sup; tsc b; iset_val ep]
    = of_opt (C "_initialize_tsd_output"
                [tsd_val ts vs sup; bin_means (bin_sum_cnt ts vs ep b); bin_centres (bin_sum_cnt ts vs ep b); iset_val ep])
             (EKernelErr "_initialize_tsd_output").
Proof.
  intros C ts vs sup ep b HL Hep Hb. apply eventually_ex.
  eapply eventually_imp; [|apply (eventually_and _ _ (text_rwc_at ts ep Hep) (text_bin_array_at ts vs ep b Hb))].
  intros f [H1 H2]. cbv beta. rewrite <- kenv_with_init_tsd with (fuel := f).
  apply ref_tsd_bin_average; try assumption; apply kenv_with_some; assumption.
Qed.

(* ---------- computed examples (kenv_exec: kernel text + the packaging constructor kenv_ctor) ---------- *)
Definition ts9 : list Z := [0; 3; 4; 8; 10; 15; 20; 24; 31].
Definition vs9 : list Z := [1; 2; 3; 4; 5; 6; 7; 8; 9].
Definition R9 : list (Z * (nat * Z)) :=
  [(4, (2%nat, 3)); (12, (1%nat, 3)); (20, (2%nat, 9)); (44, (1%nat, 7)); (52, (1%nat, 8)); (60, (1%nat, 9))].

(* bin size 4 on two epochs: means as values, centres as time index, ep as support *)
Example tsd_bin_average_example :
  grun kenv_exec g__BaseTsd_bin_average [tsd_val ts9 vs9 [(0, 40)]; tsc 4; iset_val [(0, 10); (20, 31)]]
  = of_opt (kenv_ctor "_initialize_tsd_output" [tsd_val ts9 vs9 [(0, 40)]; bin_means R9; bin_centres R9; iset_val [(0, 10); (20, 31)]])
           (EKernelErr "_initialize_tsd_output")
  /\ bin_sum_cnt ts9 vs9 [(0, 10); (20, 31)] 4 = R9
  /\ bin_centres R9 = tarr [2; 6; 10; 22; 26; 30].
Proof. repeat split; vm_compute; reflexivity. Qed.
(* ep = None: the time support of self *)
Example tsd_bin_average_default_example :
  grun kenv_exec g__BaseTsd_bin_average [tsd_val ts9 vs9 [(0, 10); (20, 31)]; tsc 4; GNone]
  = of_opt (kenv_ctor "_initialize_tsd_output"
              [tsd_val ts9 vs9 [(0, 10); (20, 31)]; bin_means R9; bin_centres R9; iset_val [(0, 10); (20, 31)]])
           (EKernelErr "_initialize_tsd_output").
Proof. vm_compute. reflexivity. Qed.
Example tsd_bin_average_value_error_example :
  grun kenv_exec g__BaseTsd_bin_average [tsd_val ts9 vs9 [(0, 40)]; tsc 0; GNone] = GErr (ERaise "ValueError").
Proof. vm_compute. reflexivity. Qed.
(* the hypotheses of the success branch are those of the G2 theorem (Ref__bin_average.v: bin_average_length_needed,
   bin_average_start_le_end_needed); fewer data values than time stamps: *)
Example tsd_bin_average_length_needed :
  grun kenv_exec g__BaseTsd_bin_average [tsd_val [3; 6; 8] [7; 8] [(0, 10)]; tsc 4; GNone] = GErr EIndex.
Proof. vm_compute. reflexivity. Qed.
