(* Glue.Kenv: encodings of model-level data as Glue values, the CONTRACTS a kernel environment must meet, and the
   kernel environment built from the functional models of coq/Model (the models the kernel refinement theorems
   Inv/*_func.v are about).

   A time array of the glue level holds TICKS: [tarr l = GArr (A1 DFlt (tcells l))], with [tcells] exactly the
   embedding of Inv/Jitrestrict_func.v (used by the refinement theorems of jitrestrict, jitrestrict_with_count,
   jitin_interval, jitunion, jitintersect, jitdiff, jitvaluefrom, jitthreshold, jitremove_nan).  The three kernels whose
   text contains a float literal or np.round(., 9) (_jitfix_iset, jitcount, _jitbin_array) have their theorems stated
   with the embedding t |-> t / 10^9 ([qcells]); Glue/Compose.v carries the change of unit explicitly.

   A refinement theorem of Glue/Ref_*.v is stated for EVERY kernel environment that meets the contracts of the
   kernels its routine calls; [kenv_model] (this file) meets them by computation, and Glue/Compose.v shows that the
   environment which RUNS THE TRANSLATED KERNEL TEXT meets them too (by the theorems of Properties/C0xb.v). *)
From Coq Require Import ZArith QArith String List Bool Lia.
From Verif Require Import Base.Prelude Model.Restrict Model.Iset Proofs.FixIsetProofs.
From Verif Require Import Jit.Lang Jit.Interp Glue.Lang Glue.Interp.
From Verif Require Import Inv.Jitrestrict_func Inv.Jitin_interval_func Inv.Jitintersect_func Inv.Jitdiff_func.
Import ListNotations.
Open Scope Z_scope.
Local Open Scope string_scope.
Local Open Scope Z_scope.

(* ---------- encodings ---------- *)
Definition tarr (l : list Z) : gval := GArr (A1 DFlt (tcells l)).
Definition tsc (t : Z) : gval := GSc (tcell t).
Definition icells (l : iset) : list sval := flat_map (fun I => [tcell (fst I); tcell (snd I)]) l.
Definition iset_arr (l : iset) : arr := A2 DFlt (zlen l) 2 (icells l).
Definition iset_val (l : iset) : gval := GObj "IntervalSet" [("values", GArr (iset_arr l))].
(* a time series, reduced to what the G1 routines read: its time index *)
Definition ts_val (t : list Z) : gval := GObj "Tsd" [("t", tarr t)].

Definition of_jit (v : value) : gval :=
  match v with Ar a => GArr a | Sc s => GSc s | Undef => GNone end.
(* a kernel that returns one value returns it bare, otherwise a tuple *)
Definition of_jit_result (rs : list value) : gval :=
  match rs with [v] => of_jit v | _ => GTup (map of_jit rs) end.

(* ---------- contracts: what a routine's proof needs to know about a kernel call ---------- *)
(* pointwise form: what ONE call must answer *)
Definition K_fix_at (K : kenv) (ss es : list Z) : Prop :=
  exists w, K "_jitfix_iset" [tarr ss; tarr es]
            = Some (GTup [GArr (iset_arr (fix_iset (combine ss es))); GArr (A1 DBool w)]).
Definition K_union_at (K : kenv) (A B : iset) : Prop :=
  K "jitunion" [tarr (firsts A); tarr (seconds A); tarr (firsts B); tarr (seconds B)]
  = Some (GTup [tarr (firsts (k_union A B)); tarr (seconds (k_union A B))]).
Definition K_intersect_at (K : kenv) (A B : iset) : Prop :=
  K "jitintersect" [tarr (firsts A); tarr (seconds A); tarr (firsts B); tarr (seconds B)]
  = Some (of_jit_result (inter_result (k_inter_meta A B))).
Definition K_diff_at (K : kenv) (A B : iset) : Prop :=
  K "jitdiff" [tarr (firsts A); tarr (seconds A); tarr (firsts B); tarr (seconds B)]
  = Some (of_jit_result (diff_result (k_diff_meta A B))).
Definition K_in_interval_at (K : kenv) (ts : list Z) (ep : iset) : Prop :=
  K "jitin_interval" [tarr ts; tarr (firsts ep); tarr (seconds ep)]
  = Some (of_jit (in_array (in_interval ts ep))).
Definition K_restrict_at (K : kenv) (ts : list Z) (ep : iset) : Prop :=
  K "jitrestrict" [tarr ts; tarr (firsts ep); tarr (seconds ep)]
  = Some (of_jit (index_array (restrict_idx ts ep))).
(* the constructor applied to (ss, es) calls _jitfix_iset on the sorted arrays *)
Definition K_ctor_at (K : kenv) (ss es : list Z) : Prop := K_fix_at K (sortZ ss) (sortZ es).

(* for every input *)
Definition K_fix_iset (K : kenv) : Prop := forall ss es, length ss = length es -> K_fix_at K ss es.
Definition K_union (K : kenv) : Prop := forall A B, K_union_at K A B.
Definition K_intersect (K : kenv) : Prop := forall A B, K_intersect_at K A B.
Definition K_diff (K : kenv) : Prop := forall A B, K_diff_at K A B.
Definition K_in_interval (K : kenv) : Prop := forall ts ep, K_in_interval_at K ts ep.
Definition K_restrict (K : kenv) : Prop := forall ts ep, K_restrict_at K ts ep.

(* ---------- the model environment ---------- *)
Definition tick_of_cell (c : sval) : option Z :=
  match c with
  | VFlt (Some q) => if Pos.eqb (Qden q) 1 then Some (Qnum q) else None
  | VInt z => Some z
  | _ => None
  end.
Fixpoint ticks_of (d : list sval) : option (list Z) :=
  match d with
  | [] => Some []
  | c :: r => match tick_of_cell c, ticks_of r with Some t, Some l => Some (t :: l) | _, _ => None end
  end.
Definition ticks_arg (v : gval) : option (list Z) :=
  match v with GArr (A1 _ d) => ticks_of d | _ => None end.
Definition iset_args_of (s e : gval) : option iset :=
  match ticks_arg s, ticks_arg e with
  | Some ss, Some es => if Nat.eqb (length ss) (length es) then Some (combine ss es) else None
  | _, _ => None
  end.
Definition no_warn : list sval := [VBool false; VBool false; VBool false; VBool false].

Definition kenv_model_g1 (name : string) (args : list gval) : option gval :=
  if String.eqb name "_jitfix_iset" then
    match args with
    | [s; e] => match iset_args_of s e with
                | Some l => Some (GTup [GArr (iset_arr (fix_iset l)); GArr (A1 DBool no_warn)])
                | None => None end
    | _ => None end
  else if String.eqb name "jitunion" then
    match args with
    | [s1; e1; s2; e2] =>
        match iset_args_of s1 e1, iset_args_of s2 e2 with
        | Some A, Some B => let r := k_union A B in Some (GTup [tarr (firsts r); tarr (seconds r)])
        | _, _ => None end
    | _ => None end
  else if String.eqb name "jitintersect" then
    match args with
    | [s1; e1; s2; e2] =>
        match iset_args_of s1 e1, iset_args_of s2 e2 with
        | Some A, Some B => Some (of_jit_result (inter_result (k_inter_meta A B)))
        | _, _ => None end
    | _ => None end
  else if String.eqb name "jitdiff" then
    match args with
    | [s1; e1; s2; e2] =>
        match iset_args_of s1 e1, iset_args_of s2 e2 with
        | Some A, Some B => Some (of_jit_result (diff_result (k_diff_meta A B)))
        | _, _ => None end
    | _ => None end
  else if String.eqb name "jitin_interval" then
    match args with
    | [t; s; e] =>
        match ticks_arg t, iset_args_of s e with
        | Some ts, Some ep => Some (of_jit (in_array (in_interval ts ep)))
        | _, _ => None end
    | _ => None end
  else if String.eqb name "jitrestrict" then
    match args with
    | [t; s; e] =>
        match ticks_arg t, iset_args_of s e with
        | Some ts, Some ep => Some (of_jit (index_array (restrict_idx ts ep)))
        | _, _ => None end
    | _ => None end
  else None.

(* ---------- the model environment meets the contracts ---------- *)
Lemma ticks_of_tcells : forall l, ticks_of (tcells l) = Some l.
Proof. induction l as [|x l IH]; [reflexivity|]. cbn [tcells map ticks_of tick_of_cell tcell inject_Z Qden Qnum Pos.eqb]. fold (tcells l). rewrite IH. reflexivity. Qed.

Lemma ticks_arg_tarr : forall l, ticks_arg (tarr l) = Some l.
Proof. intros. apply ticks_of_tcells. Qed.

Lemma combine_firsts_seconds : forall A : iset, combine (firsts A) (seconds A) = A.
Proof. induction A as [|[s e] A IH]; [reflexivity|]. cbn. unfold firsts, seconds in IH. rewrite IH. reflexivity. Qed.

Lemma iset_args_of_iset : forall A, iset_args_of (tarr (firsts A)) (tarr (seconds A)) = Some A.
Proof.
  intros A. unfold iset_args_of. rewrite !ticks_arg_tarr. unfold firsts, seconds. rewrite !map_length, Nat.eqb_refl.
  f_equal. apply combine_firsts_seconds.
Qed.

Lemma iset_args_of_lists : forall ss es, length ss = length es -> iset_args_of (tarr ss) (tarr es) = Some (combine ss es).
Proof. intros ss es H. unfold iset_args_of. rewrite !ticks_arg_tarr, H, Nat.eqb_refl. reflexivity. Qed.

Lemma model_fix_iset : K_fix_iset kenv_model_g1.
Proof. intros ss es H. exists no_warn. unfold kenv_model_g1. cbn [String.eqb Ascii.eqb Bool.eqb]. rewrite (iset_args_of_lists _ _ H). reflexivity. Qed.
Lemma model_union : K_union kenv_model_g1.
Proof. intros A B. red. unfold kenv_model_g1. cbn [String.eqb Ascii.eqb Bool.eqb]. rewrite !iset_args_of_iset. reflexivity. Qed.
Lemma model_intersect : K_intersect kenv_model_g1.
Proof. intros A B. red. unfold kenv_model_g1. cbn [String.eqb Ascii.eqb Bool.eqb]. rewrite !iset_args_of_iset. reflexivity. Qed.
Lemma model_diff : K_diff kenv_model_g1.
Proof. intros A B. red. unfold kenv_model_g1. cbn [String.eqb Ascii.eqb Bool.eqb]. rewrite !iset_args_of_iset. reflexivity. Qed.
Lemma model_in_interval : K_in_interval kenv_model_g1.
Proof. intros ts ep. red. unfold kenv_model_g1. cbn [String.eqb Ascii.eqb Bool.eqb]. rewrite ticks_arg_tarr, iset_args_of_iset. reflexivity. Qed.
Lemma model_restrict : K_restrict kenv_model_g1.
Proof. intros ts ep. red. unfold kenv_model_g1. cbn [String.eqb Ascii.eqb Bool.eqb]. rewrite ticks_arg_tarr, iset_args_of_iset. reflexivity. Qed.

Lemma K_ctor_of_all : forall K ss es, K_fix_iset K -> length ss = length es -> K_ctor_at K ss es.
Proof. intros K ss es H L. apply H. rewrite !sortZ_length. exact L. Qed.
