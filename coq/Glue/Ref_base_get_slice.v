(* Refinement of `_Base._get_slice(self, start, end, mode)` and `_Base.get_slice(self, start, end)`
   (pynapple/core/base_class.py; n_points = None and time_unit = "s" are dropped, declared) as translated in Gen/Glue.v
   (g__Base__get_slice, g__Base_get_slice) against the hand model of Model/Slice.v (ss_left / ss_right / get_range /
   get_closest), the model of Properties/C08.v.  No kernel is called: the theorems hold for EVERY kernel environment and
   for every time array (sorted or not) - np.searchsorted is the primitive PSearch = the number of cells < v (left) /
   <= v (right), i.e. exactly ss_left / ss_right.
   - mode "restrict" (get_slice(start, end)): slice(ss_left a ts, ss_right b ts) = get_range a b ts for a <= b (both
     outcomes of the `idx_end == len(self.t)` adjustment are overwritten by searchsorted(right)); ValueError if b < a;
   - mode "closest_t" with end = None (get_slice(start)) on a non-empty series: slice(i, i + 1) with i = get_closest a ts,
     EXCEPT when no sample is < a and |t[-1] - a| < t[0] - a (Python's wrap-around t[idx - 1] = t[-1] at idx = 0 wins):
     then idx_start becomes -1 and the text returns slice(0, 0), while get_closest clamps to 0 ([closest_underflow]).
     Impossible for a sorted series ([closest_underflow_sorted]); computed witness ts = [5; 3], a = 0
     ([closest_unsorted_differs]);
   - start not a number: ValueError; the empty series in mode closest_t: IndexError. *)
From Coq Require Import ZArith QArith String List Bool Lia.
From Verif Require Import Base.Prelude Model.Restrict Model.Iset Model.Slice.
From Verif Require Import Jit.Lang Jit.Interp Jit.ArrayFacts.
From Verif Require Import Glue.Lang Glue.Interp Glue.Kenv Glue.KenvText Glue.Facts Gen.Glue.
From Verif Require Import Inv.Jitrestrict_func Proofs.FixIsetProofs.
Import ListNotations.
Open Scope Z_scope.
Local Open Scope string_scope.
Local Open Scope Z_scope.

Lemma le_tcell : forall a b, eval_cmp Le (tcell a) (tcell b) = (a <=? b).
Proof. intros. unfold eval_cmp, tcell. cbn [is_flt orb to_flt cmp_flt cmp_q]. apply Qle_bool_inj. Qed.

Lemma search_left_tcells : forall ts v, search_cells SLeft (tcells ts) (tcell v) = Z.of_nat (ss_left v ts).
Proof.
  intros ts v. unfold search_cells, ss_left. induction ts as [|t ts IH]; [reflexivity|].
  rewrite tcells_cons. cbn [filter count_if]. rewrite lt_tcell. destruct (t <? v); [rewrite zlen_cons, IH; lia|exact IH].
Qed.
Lemma search_right_tcells : forall ts v, search_cells SRight (tcells ts) (tcell v) = Z.of_nat (ss_right v ts).
Proof.
  intros ts v. unfold search_cells, ss_right. induction ts as [|t ts IH]; [reflexivity|].
  rewrite tcells_cons. cbn [filter count_if]. rewrite le_tcell. destruct (t <=? v); [rewrite zlen_cons, IH; lia|exact IH].
Qed.

(* the object slice(i0, i1) *)
Definition slice_val (i0 i1 : Z) : gval :=
  GObj "slice" [("start", GSc (VInt i0)); ("stop", GSc (VInt i1)); ("step", GNone)].


Lemma abs_tcell : forall x, eval_unop Abs (tcell x) = tcell (Z.abs x).
Proof.
  intros x. unfold eval_unop, tcell. change 0%Q with (inject_Z 0). rewrite Qle_bool_inj.
  destruct (Z.leb_spec 0 x).
  - rewrite Z.abs_eq by lia. reflexivity.
  - rewrite Z.abs_neq by lia. change (- inject_Z x)%Q with (inject_Z (- x)). rewrite Qred_inject_Z. reflexivity.
Qed.

Lemma nthZ_tcells : forall ts i, 0 <= i < zlen ts -> nthZ (tcells ts) i = tcell (nth (Z.to_nat i) ts 0).
Proof.
  intros ts i H. unfold nthZ, tcells. rewrite (nth_indep _ dflt (tcell 0)) by (rewrite map_length; unfold zlen in H; lia).
  apply (map_nth tcell).
Qed.
Lemma prim_index_tarr : forall ts i, 0 <= i < zlen ts ->
  prim_index (tarr ts) (GSc (VInt i)) = GOk (tsc (nth (Z.to_nat i) ts 0)).
Proof.
  intros ts i H. unfold prim_index, tarr, index_cell. rewrite zlen_tcells, wrap_nonneg by lia.
  rewrite in_range_true by lia. rewrite nthZ_tcells by lia. reflexivity.
Qed.
Lemma last_nth : forall (ts : list Z), ts <> [] -> nth (length ts - 1) ts 0 = last ts 0.
Proof.
  induction ts as [|x ts IH]; intros H; [contradiction|]. destruct ts as [|y ts]; [reflexivity|].
  specialize (IH ltac:(discriminate)). change (last (x :: y :: ts) 0) with (last (y :: ts) 0). rewrite <- IH.
  replace (length (x :: y :: ts) - 1)%nat with (S (length (y :: ts) - 1)) by (cbn [length]; lia). reflexivity.
Qed.
Lemma prim_index_tarr_m1 : forall ts, ts <> [] ->
  prim_index (tarr ts) (GSc (VInt (-1))) = GOk (tsc (last ts 0)).
Proof.
  intros ts H. assert (0 < zlen ts) by (destruct ts; [contradiction|rewrite zlen_cons; unfold zlen; lia]).
  unfold prim_index, tarr, index_cell. rewrite zlen_tcells, wrap_neg by lia.
  rewrite in_range_true by lia. rewrite nthZ_tcells by lia. rewrite <- last_nth by exact H.
  replace (Z.to_nat (-1 + zlen ts)) with (length ts - 1)%nat by (unfold zlen; lia). reflexivity.
Qed.


Lemma count_if_le : forall {A} (p : A -> bool) l, (count_if p l <= length l)%nat.
Proof. induction l as [|x l IH]; [apply le_n|]. cbn [count_if length]. destruct (p x); lia. Qed.

Ltac gstep Ht :=
  repeat (progress (rewrite ?Bool.andb_false_r, ?Ht, ?prim_index_single, ?search_left_tcells, ?search_right_tcells,
                            ?zlen_tcells, ?to_flt_tcell, ?sub_tcell, ?abs_tcell, ?gt_tcell, ?alen_A1); gsimp).
Ltac ztests :=
  repeat match goal with
         | |- context [?x <? ?y] =>
             first [replace (x <? y) with true by (symmetry; apply Z.ltb_lt; lia)
                   |replace (x <? y) with false by (symmetry; apply Z.ltb_ge; lia)]
         end.
Ltac and_false :=
  match goal with |- context [if ?T then GOk (GSc (VBool false)) else _] => destruct T end.

(* ---------- mode "restrict" ---------- *)
Lemma get_slice_restrict_body : forall K call cls fs ts a b, assoc fs "t" = Some (tarr ts) -> a <= b ->
  run_body K call g__Base__get_slice [GObj cls fs; tsc a; tsc b; GStr "restrict"]
  = GOk (slice_val (Z.of_nat (ss_left a ts)) (Z.of_nat (ss_right b ts))).
Proof.
  intros K call cls fs ts a b Ht Hab. unfold run_body. change (tsc a) with (GSc (VFlt (Some (inject_Z a)))).
  change (tsc b) with (GSc (VFlt (Some (inject_Z b)))). gsimp. rewrite prim_index_single. gsimp.
  change (VFlt (Some (inject_Z a))) with (tcell a). change (VFlt (Some (inject_Z b))) with (tcell b).
  gstep Ht. destruct (Z.of_nat (ss_left a ts) =? zlen ts) eqn:E1; gsimp; gstep Ht;
  (replace (b <? a) with false by (symmetry; apply Z.ltb_ge; exact Hab)); gsimp; gstep Ht;
  (destruct (Z.of_nat (ss_left b ts) =? zlen ts) eqn:E2; gsimp; gstep Ht);
  rewrite Z.max_r by lia; reflexivity.
Qed.

Lemma get_slice_restrict_order_body : forall K call cls fs ts a b, assoc fs "t" = Some (tarr ts) -> b < a ->
  run_body K call g__Base__get_slice [GObj cls fs; tsc a; tsc b; GStr "restrict"] = GErr (ERaise "ValueError").
Proof.
  intros K call cls fs ts a b Ht Hab. unfold run_body. change (tsc a) with (GSc (VFlt (Some (inject_Z a)))).
  change (tsc b) with (GSc (VFlt (Some (inject_Z b)))). gsimp. rewrite prim_index_single. gsimp.
  change (VFlt (Some (inject_Z a))) with (tcell a). change (VFlt (Some (inject_Z b))) with (tcell b).
  gstep Ht. destruct (Z.of_nat (ss_left a ts) =? zlen ts) eqn:E1; gsimp; gstep Ht;
  (replace (b <? a) with true by (symmetry; apply Z.ltb_lt; exact Hab)); reflexivity.
Qed.

(* ---------- mode "closest_t", end = None ---------- *)
(* the index computed by the text, in Z (it can be -1) *)
Definition closest_Z (a : Z) (ts : list Z) : Z :=
  let s := Z.of_nat (ss_left a ts) in
  let i := if s =? zlen ts then s - 1 else s in
  let cur := nth (Z.to_nat i) ts 0 in
  let prev := if i =? 0 then last ts 0 else nth (Z.to_nat (i - 1)) ts 0 in
  i - (if Z.abs (prev - a) <? cur - a then 1 else 0).

Lemma get_slice_closest_Z_body : forall K call cls fs ts a, assoc fs "t" = Some (tarr ts) -> ts <> [] ->
  run_body K call g__Base__get_slice [GObj cls fs; tsc a; GNone; GStr "closest_t"]
  = GOk (if closest_Z a ts <? 0 then slice_val 0 0 else slice_val (closest_Z a ts) (closest_Z a ts + 1)).
Proof.
  intros K call cls fs ts a Ht Hne. remember (GOk (if closest_Z a ts <? 0 then _ else _)) as R eqn:HR.
  unfold run_body. change (tsc a) with (GSc (VFlt (Some (inject_Z a)))).
  gsimp. rewrite prim_index_single. gsimp. change (VFlt (Some (inject_Z a))) with (tcell a).
  gstep Ht.
  assert (Hn : 0 < zlen ts) by (destruct ts; [contradiction|rewrite zlen_cons; unfold zlen; lia]).
  assert (Hs : 0 <= Z.of_nat (ss_left a ts) <= zlen ts)
    by (unfold ss_left, zlen; pose proof (count_if_le (fun t => t <? a) ts); lia).
  unfold closest_Z in HR. cbv zeta in HR.
  destruct (Z.of_nat (ss_left a ts) =? zlen ts) eqn:E1; gsimp; gstep Ht;
    [apply Z.eqb_eq in E1; set (i := Z.of_nat (ss_left a ts) - 1) in *
    |apply Z.eqb_neq in E1; set (i := Z.of_nat (ss_left a ts)) in *];
    (assert (Hi : 0 <= i < zlen ts) by lia);
    rewrite (prim_index_tarr ts i Hi); gsimp;
    (destruct (i =? 0) eqn:E0;
     [apply Z.eqb_eq in E0; rewrite E0 in *; change (0 - 1) with (-1); rewrite (prim_index_tarr_m1 ts Hne)
     |apply Z.eqb_neq in E0; rewrite (prim_index_tarr ts (i - 1)) by lia]);
    gsimp; gstep Ht;
    match type of HR with context [if ?D then 1 else 0] => destruct D eqn:HD end; cbn [to_int];
    ztests; gsimp; try and_false; gsimp; subst R; ztests; reflexivity.
Qed.

(* ---------- the text's index against Slice.v's get_closest ---------- *)
Definition closest_underflow (a : Z) (ts : list Z) : bool :=
  (ss_left a ts =? 0)%nat && (Z.abs (last ts 0 - a) <? nth 0 ts 0 - a).

Lemma closest_Z_model : forall a ts, ts <> [] ->
  closest_Z a ts = if closest_underflow a ts then -1 else Z.of_nat (get_closest a ts).
Proof.
  intros a ts Hne. unfold closest_Z, get_closest, closest_underflow. cbv zeta.
  pose proof (count_if_le (fun t => t <? a) ts) as Hle. fold (ss_left a ts) in Hle.
  assert (Hn : (0 < length ts)%nat) by (destruct ts; [contradiction|cbn; lia]).
  set (s := ss_left a ts) in *. unfold zlen.
  destruct (Nat.eqb_spec s (length ts)) as [E|E].
  - replace (Z.of_nat s =? Z.of_nat (length ts)) with true by (symmetry; apply Z.eqb_eq; lia).
    replace (Z.of_nat s - 1) with (Z.of_nat (s - 1)) by lia. rewrite Nat2Z.id.
    replace (Z.to_nat (Z.of_nat (s - 1) - 1)) with (s - 1 - 1)%nat by lia.
    replace (Z.of_nat (s - 1) =? 0) with ((s - 1 =? 0)%nat) by (destruct (Nat.eqb_spec (s - 1) 0), (Z.eqb_spec (Z.of_nat (s - 1)) 0); try reflexivity; lia).
    replace ((s =? 0)%nat) with false by (symmetry; apply Nat.eqb_neq; lia). cbn [andb].
    destruct (Nat.eqb_spec (s - 1) 0) as [E0|E0].
    + (* one sample, before a *)
      destruct ts as [|x [|y ts]]; [contradiction| |cbn [length] in E; lia].
      unfold s, ss_left in E. cbn in E. destruct (Z.ltb_spec x a); [|discriminate].
      rewrite E0. cbn [nth last]. replace (Z.abs (x - a) <? x - a) with false by (symmetry; apply Z.ltb_ge; lia). lia.
    + destruct (Z.abs _ <? _); lia.
  - replace (Z.of_nat s =? Z.of_nat (length ts)) with false by (symmetry; apply Z.eqb_neq; lia).
    rewrite Nat2Z.id. replace (Z.to_nat (Z.of_nat s - 1)) with (s - 1)%nat by lia.
    replace (Z.of_nat s =? 0) with ((s =? 0)%nat) by (destruct (Nat.eqb_spec s 0), (Z.eqb_spec (Z.of_nat s) 0); try reflexivity; lia).
    destruct (Nat.eqb_spec s 0) as [E0|E0]; cbn [andb].
    + rewrite E0. destruct (Z.abs _ <? _); reflexivity.
    + destruct (Z.abs _ <? _); lia.
Qed.

(* a sorted series never underflows *)
Lemma last_in : forall (l : list Z) x, In (last (x :: l) 0) (x :: l).
Proof.
  induction l as [|y l IH]; intros x; [left; reflexivity|]. right. change (last (x :: y :: l) 0) with (last (y :: l) 0). apply IH.
Qed.
Lemma closest_underflow_sorted : forall a ts, sortedZ ts -> closest_underflow a ts = false.
Proof.
  intros a ts Hs. unfold closest_underflow. apply andb_false_iff. right. apply Z.ltb_ge.
  destruct ts as [|x l]; [cbn; lia|]. cbn [nth].
  assert (x <= last (x :: l) 0).
  { destruct (last_in l x) as [<-|Hin]; [lia|]. cbn in Hs. apply (sorted_from_all_ge l x Hs). exact Hin. }
  lia.
Qed.

Lemma get_slice_closest_body : forall K call cls fs ts a, assoc fs "t" = Some (tarr ts) -> ts <> [] ->
  run_body K call g__Base__get_slice [GObj cls fs; tsc a; GNone; GStr "closest_t"]
  = GOk (if closest_underflow a ts then slice_val 0 0
         else slice_val (Z.of_nat (get_closest a ts)) (Z.of_nat (get_closest a ts) + 1)).
Proof.
  intros K call cls fs ts a Ht Hne. rewrite (get_slice_closest_Z_body K call cls fs ts a Ht Hne).
  rewrite (closest_Z_model a ts Hne). destruct (closest_underflow a ts); [reflexivity|].
  replace (Z.of_nat (get_closest a ts) <? 0) with false by (symmetry; apply Z.ltb_ge; lia). reflexivity.
Qed.

(* the empty series: self.t[idx_start] with idx_start = -1 is an IndexError *)
Lemma get_slice_closest_empty_body : forall K call cls fs a, assoc fs "t" = Some (tarr []) ->
  run_body K call g__Base__get_slice [GObj cls fs; tsc a; GNone; GStr "closest_t"] = GErr EIndex.
Proof.
  intros K call cls fs a Ht. unfold run_body. change (tsc a) with (GSc (VFlt (Some (inject_Z a)))).
  gsimp. rewrite prim_index_single. gsimp. change (VFlt (Some (inject_Z a))) with (tcell a).
  gstep Ht. change (Z.of_nat 0 =? zlen []) with true. gsimp. gstep Ht. reflexivity.
Qed.

(* start is not a number *)
Lemma get_slice_start_error_body : forall K call self s e m,
  run_body K call g__Base__get_slice [self; GStr s; e; m] = GErr (ERaise "ValueError").
Proof. reflexivity. Qed.

(* ---------- the public forms of _Base._get_slice ---------- *)
Theorem ref__get_slice_restrict : forall K cls fs ts a b, assoc fs "t" = Some (tarr ts) -> a <= b ->
  grun K g__Base__get_slice [GObj cls fs; tsc a; tsc b; GStr "restrict"]
  = GOk (slice_val (Z.of_nat (fst (get_range a b ts))) (Z.of_nat (snd (get_range a b ts)))).
Proof. intros. apply get_slice_restrict_body; assumption. Qed.
Theorem ref__get_slice_restrict_order : forall K cls fs ts a b, assoc fs "t" = Some (tarr ts) -> b < a ->
  grun K g__Base__get_slice [GObj cls fs; tsc a; tsc b; GStr "restrict"] = GErr (ERaise "ValueError").
Proof. intros. eapply get_slice_restrict_order_body; eassumption. Qed.
Theorem ref__get_slice_closest : forall K cls fs ts a, assoc fs "t" = Some (tarr ts) -> ts <> [] ->
  grun K g__Base__get_slice [GObj cls fs; tsc a; GNone; GStr "closest_t"]
  = GOk (if closest_underflow a ts then slice_val 0 0
         else slice_val (Z.of_nat (get_closest a ts)) (Z.of_nat (get_closest a ts) + 1)).
Proof. intros. apply get_slice_closest_body; assumption. Qed.

(* _Base._get_slice called by another glue routine, at any remaining call depth *)
Lemma call__get_slice : forall K d args,
  gcall K all_glue (S d) "_Base._get_slice" args = run_body K (gcall K all_glue d) g__Base__get_slice args.
Proof. intros. cbn [gcall]. change (find_gfunc all_glue "_Base._get_slice") with (Some g__Base__get_slice). reflexivity. Qed.

(* ---------- _Base.get_slice ---------- *)
(* get_slice(start, end): Slice.v's get_range *)
Theorem ref_get_slice_range : forall K cls fs ts a b, assoc fs "t" = Some (tarr ts) -> a <= b ->
  grun K g__Base_get_slice [GObj cls fs; tsc a; tsc b]
  = GOk (slice_val (Z.of_nat (ss_left a ts)) (Z.of_nat (ss_right b ts))).
Proof.
  intros K cls fs ts a b Ht Hab. unfold grun. gstart. rewrite call__get_slice.
  rewrite (get_slice_restrict_body _ _ cls fs ts a b Ht Hab). reflexivity.
Qed.
Theorem ref_get_slice_range_order : forall K cls fs ts a b, assoc fs "t" = Some (tarr ts) -> b < a ->
  grun K g__Base_get_slice [GObj cls fs; tsc a; tsc b] = GErr (ERaise "ValueError").
Proof.
  intros K cls fs ts a b Ht Hab. unfold grun. gstart. rewrite call__get_slice.
  rewrite (get_slice_restrict_order_body _ _ cls fs ts a b Ht Hab). reflexivity.
Qed.
(* get_slice(start): Slice.v's get_closest, up to the underflow *)
Theorem ref_get_slice_closest : forall K cls fs ts a, assoc fs "t" = Some (tarr ts) -> ts <> [] ->
  grun K g__Base_get_slice [GObj cls fs; tsc a; GNone]
  = GOk (if closest_underflow a ts then slice_val 0 0
         else slice_val (Z.of_nat (get_closest a ts)) (Z.of_nat (get_closest a ts) + 1)).
Proof.
  intros K cls fs ts a Ht Hne. unfold grun. gstart. rewrite call__get_slice.
  rewrite (get_slice_closest_body _ _ cls fs ts a Ht Hne). reflexivity.
Qed.
Corollary ref_get_slice_closest_sorted : forall K cls fs ts a, assoc fs "t" = Some (tarr ts) -> ts <> [] -> sortedZ ts ->
  grun K g__Base_get_slice [GObj cls fs; tsc a; GNone]
  = GOk (slice_val (Z.of_nat (get_closest a ts)) (Z.of_nat (get_closest a ts) + 1)).
Proof.
  intros K cls fs ts a Ht Hne Hs. rewrite (ref_get_slice_closest K cls fs ts a Ht Hne).
  rewrite (closest_underflow_sorted a ts Hs). reflexivity.
Qed.
Theorem ref_get_slice_closest_empty : forall K cls fs a, assoc fs "t" = Some (tarr []) ->
  grun K g__Base_get_slice [GObj cls fs; tsc a; GNone] = GErr EIndex.
Proof.
  intros K cls fs a Ht. unfold grun. gstart. rewrite call__get_slice.
  rewrite (get_slice_closest_empty_body _ _ cls fs a Ht). reflexivity.
Qed.
Theorem ref_get_slice_start_error : forall K self s e,
  grun K g__Base_get_slice [self; GStr s; e] = GErr (ERaise "ValueError").
Proof. intros K self s e. destruct e; reflexivity. Qed.

(* ---------- computed instances (any environment: no kernel is called) ---------- *)
Definition ts_obj (ts : list Z) : gval := GObj "Ts" [("t", tarr ts); ("time_support", iset_val [(0, 100)])].
(* duplicates equal to `end` are included (side right); a start between two samples *)
Example get_slice_example_range :
  grun kenv_exec g__Base_get_slice [ts_obj [0; 10; 20; 20; 20; 30]; tsc 5; tsc 20] = GOk (slice_val 1 5)
  /\ get_range 5 20 [0; 10; 20; 20; 20; 30] = (1%nat, 5%nat).
Proof. split; vm_compute; reflexivity. Qed.
(* start before the first / after the last sample *)
Example get_slice_example_range_outside :
  grun kenv_exec g__Base_get_slice [ts_obj [0; 10; 20]; tsc (-5); tsc 100] = GOk (slice_val 0 3)
  /\ grun kenv_exec g__Base_get_slice [ts_obj [0; 10; 20]; tsc 25; tsc 100] = GOk (slice_val 3 3)
  /\ grun kenv_exec g__Base_get_slice [ts_obj [0; 10; 20]; tsc 25; tsc 5] = GErr (ERaise "ValueError").
Proof. repeat split; vm_compute; reflexivity. Qed.
(* closest: between two samples, equidistant neighbours (the LATER one wins: the test is strict), before the first,
   after the last *)
Example get_slice_example_closest :
  grun kenv_exec g__Base_get_slice [ts_obj [0; 10; 20]; tsc 13; GNone] = GOk (slice_val 1 2)
  /\ grun kenv_exec g__Base_get_slice [ts_obj [0; 10; 20]; tsc 15; GNone] = GOk (slice_val 2 3)
  /\ grun kenv_exec g__Base_get_slice [ts_obj [0; 10; 20]; tsc (-7); GNone] = GOk (slice_val 0 1)
  /\ grun kenv_exec g__Base_get_slice [ts_obj [0; 10; 20]; tsc 99; GNone] = GOk (slice_val 2 3)
  /\ map (fun a => get_closest a [0; 10; 20]) [13; 15; -7; 99] = [1; 2; 0; 2]%nat.
Proof. repeat split; vm_compute; reflexivity. Qed.
(* FINDING about Model/Slice.v: on an unsorted series the text and get_closest part ways *)
Example closest_unsorted_differs :
  grun kenv_exec g__Base_get_slice [ts_obj [5; 3]; tsc 0; GNone] = GOk (slice_val 0 0)
  /\ get_closest 0 [5; 3] = 0%nat /\ closest_underflow 0 [5; 3] = true.
Proof. repeat split; vm_compute; reflexivity. Qed.
Example get_slice_example_errors :
  grun kenv_exec g__Base_get_slice [ts_obj [0; 10]; GStr "a"; GNone] = GErr (ERaise "ValueError")
  /\ grun kenv_exec g__Base_get_slice [ts_obj []; tsc 3; GNone] = GErr EIndex.
Proof. split; vm_compute; reflexivity. Qed.
