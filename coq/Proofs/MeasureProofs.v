(* Durations and list-level algebra of the jitintersect / jitdiff / jitunion models
   (Model/Iset.v: inter_go, diff_go, union_go).

   The two measure identities are proved by direct sweeps that carry, next to the kernel under
   study, the intersection sweep of the SAME pair of suffixes: at every state of jitdiff
   (resp. jitunion) the length emitted so far plus the length jitintersect emits on the same
   suffixes accounts exactly for the consumed part of the inputs.  No overlap sum is needed. *)
From Verif Require Import Base.Prelude Model.Iset Proofs.BaseLemmas Proofs.InterDiffProofs Proofs.UnionProofs.
From Coq Require Import ZifyBool.

(* ------------------------------------------------------------------ *)
(* jitintersect without the parent indices                              *)

Lemma inter_go_idx : forall A B i j i' j',
  map fst (inter_go A B i j) = map fst (inter_go A B i' j').
Proof.
  induction A as [|[s1 e1] A' IHA]; [reflexivity|].
  induction B as [|[s2 e2] B' IHB]; intros i j i' j'.
  - rewrite !inter_go_nil_r. reflexivity.
  - rewrite !inter_go_cons.
    destruct (e2 <=? s1); [apply IHB|].
    destruct (s2 <? e1); [|apply IHA].
    cbn [map fst]. f_equal. destruct (e2 <? e1); [apply IHB|apply IHA].
Qed.

Definition ki (A B : iset) : iset := map fst (inter_go A B 0%nat 0%nat).

Lemma k_inter_ki A B : k_inter A B = ki A B.
Proof. reflexivity. Qed.

Lemma ki_idx A B i j : map fst (inter_go A B i j) = ki A B.
Proof. apply inter_go_idx. Qed.

Lemma ki_nil_l B : ki [] B = [].
Proof. reflexivity. Qed.

Lemma ki_nil_r A : ki A [] = [].
Proof. unfold ki. rewrite inter_go_nil_r. reflexivity. Qed.

Lemma ki_cons s1 e1 A' s2 e2 B' :
  ki ((s1, e1) :: A') ((s2, e2) :: B') =
  if e2 <=? s1 then ki ((s1, e1) :: A') B'
  else if s2 <? e1 then
         (Z.max s1 s2, Z.min e1 e2)
         :: (if e2 <? e1 then ki ((s1, e1) :: A') B' else ki A' ((s2, e2) :: B'))
       else ki A' ((s2, e2) :: B').
Proof.
  unfold ki at 1. rewrite inter_go_cons.
  destruct (e2 <=? s1); [apply ki_idx|].
  destruct (s2 <? e1); [|apply ki_idx].
  cbn [map fst]. f_equal. destruct (e2 <? e1); apply ki_idx.
Qed.

(* an interval of B that ends no later than A begins contributes nothing *)
Lemma ki_skip_r A lo s2 e2 B' : canon lo A -> e2 <= lo -> ki A ((s2, e2) :: B') = ki A B'.
Proof.
  destruct A as [|[s1 e1] A']; [reflexivity|].
  intros (H1 & H2 & H3) Hle. rewrite ki_cons.
  destruct (e2 <=? s1) eqn:E; [reflexivity|lia].
Qed.

(* an interval of A that ends no later than B begins contributes nothing *)
Lemma ki_skip_l B lo s1 e1 A' : canon lo B -> s1 < e1 -> e1 <= lo + 1 -> ki ((s1, e1) :: A') B = ki A' B.
Proof.
  destruct B as [|[s2 e2] B']; [intros; rewrite !ki_nil_r; reflexivity|].
  intros (H1 & H2 & H3) Hp Hle. rewrite ki_cons.
  destruct (e2 <=? s1) eqn:E; [lia|].
  destruct (s2 <? e1) eqn:E'; [lia|reflexivity].
Qed.

Lemma tot_length_app A B : tot_length (A ++ B) = tot_length A + tot_length B.
Proof.
  induction A as [|[s e] A IH]; [reflexivity|]. cbn [app tot_length]. rewrite IH. lia.
Qed.

(* ------------------------------------------------------------------ *)
(* list-level algebra                                                   *)

(* diff_empty_r *)
Lemma drest_fst A : forall i, map fst (drest A i) = A.
Proof.
  induction A as [|[s e] A IH]; intros i; [reflexivity|].
  cbn [drest map fst]. fold drest. rewrite IH. reflexivity.
Qed.

Theorem diff_empty_r : forall A, k_diff A [] = A.
Proof. intros A. unfold k_diff, k_diff_meta. rewrite drest_eq. apply drest_fst. Qed.

(* union_empty *)
Theorem union_empty : forall A, k_union A [] = A /\ k_union [] A = A.
Proof.
  intros A. unfold k_union. split.
  - replace (2 * (length A + length (@nil (Z * Z))) + 2)%nat
      with (S (2 * (length A + length (@nil (Z * Z))) + 1)) by lia.
    cbn [union_go]. destruct A as [|[s e] A']; reflexivity.
  - replace (2 * (length (@nil (Z * Z)) + length A) + 2)%nat
      with (S (2 * (length (@nil (Z * Z)) + length A) + 1)) by lia.
    reflexivity.
Qed.

(* inter_idem *)
Lemma ki_idem : forall A lo, canon lo A -> ki A A = A.
Proof.
  induction A as [|[s e] A' IH]; intros lo H; [reflexivity|].
  destruct H as (H1 & H2 & H3).
  rewrite ki_cons.
  destruct (e <=? s) eqn:E1; [lia|].
  destruct (s <? e) eqn:E2; [|lia].
  destruct (e <? e) eqn:E3; [lia|].
  rewrite (ki_skip_r A' e s e A' H3) by lia.
  rewrite (IH e H3). f_equal. f_equal; lia.
Qed.

Theorem inter_idem : forall A, canonical A -> k_inter A A = A.
Proof.
  intros A HA. destruct (canonical_canon _ HA) as [lo H]. rewrite k_inter_ki.
  eapply ki_idem; eassumption.
Qed.

(* inter_comm *)
Lemma ki_comm : forall A la, canon la A -> forall B lb, canon lb B -> ki A B = ki B A.
Proof.
  induction A as [|[s1 e1] A' IHA]; intros la HA.
  - intros. rewrite ki_nil_r. reflexivity.
  - pose proof HA as (Hla & Hse1 & HA').
    induction B as [|[s2 e2] B' IHB]; intros lb HB.
    + rewrite ki_nil_r. reflexivity.
    + pose proof HB as (Hlb & Hse2 & HB').
      rewrite (ki_cons s1 e1 A' s2 e2 B'), (ki_cons s2 e2 B' s1 e1 A').
      destruct (e2 <=? s1) eqn:E1.
      * destruct (e1 <=? s2) eqn:F1; [lia|]. destruct (s1 <? e2) eqn:F2; [lia|].
        apply (IHB e2 HB').
      * destruct (s2 <? e1) eqn:E2.
        -- destruct (e1 <=? s2) eqn:F1; [lia|]. destruct (s1 <? e2) eqn:F2; [|lia].
           f_equal; [f_equal; lia|].
           destruct (e2 <? e1) eqn:E3; destruct (e1 <? e2) eqn:F3; try lia.
           ++ apply (IHB e2 HB').
           ++ apply (IHA e1 HA' _ lb HB).
           ++ rewrite (ki_skip_r A' e1 s2 e2 B' HA') by lia.
              rewrite (ki_skip_r B' e2 s1 e1 A' HB') by lia.
              apply (IHA e1 HA' _ e2 HB').
        -- destruct (e1 <=? s2) eqn:F1; [|lia].
           apply (IHA e1 HA' _ lb HB).
Qed.

Theorem inter_comm : forall A B, canonical A -> canonical B -> k_inter A B = k_inter B A.
Proof.
  intros A B HA HB.
  destruct (canonical_canon _ HA) as [la Hla]. destruct (canonical_canon _ HB) as [lb Hlb].
  rewrite !k_inter_ki. eapply ki_comm; eassumption.
Qed.

(* diff_self *)
Lemma diff_go_self : forall A lo, canon lo A -> forall i, map fst (diff_go A A i) = [].
Proof.
  induction A as [|[s e] A' IH]; intros lo H i; [reflexivity|].
  destruct H as (H1 & H2 & H3).
  rewrite diff_go_cons_cons.
  destruct (e <=? s) eqn:E1; [lia|].
  destruct (s <? e) eqn:E2; [|lia].
  destruct ((s <? s) && (e <? e)) eqn:E3; [lia|].
  destruct (s <? s) eqn:E4; [lia|]. cbn [app].
  destruct A' as [|[s' e'] A''].
  - rewrite dinner_nil. destruct (e <? e) eqn:E5; [lia|]. reflexivity.
  - pose proof H3 as (H4 & H5 & H6).
    rewrite dinner_cons.
    destruct (s' <? e) eqn:E5; [lia|]. destruct (e <? e) eqn:E6; [lia|].
    rewrite diff_go_cons_cons. destruct (e <=? s') eqn:E7; [|lia].
    apply (IH e H3).
Qed.

Theorem diff_self : forall A, canonical A -> k_diff A A = [].
Proof.
  intros A HA. destruct (canonical_canon _ HA) as [lo H].
  unfold k_diff, k_diff_meta. eapply diff_go_self; eassumption.
Qed.

(* union_idem *)
Lemma union_go_self : forall A lo, canon lo A -> forall fuel,
  (2 * length A <= fuel)%nat -> union_go fuel None A A = A.
Proof.
  induction A as [|[s e] A' IH]; intros lo H fuel Hf.
  - destruct fuel; reflexivity.
  - destruct H as (H1 & H2 & H3). cbn [length] in Hf.
    destruct fuel as [|[|fuel]]; [lia|lia|].
    cbn [union_go].
    destruct (e <=? s) eqn:E1; [lia|]. destruct (s <? e) eqn:E2; [|lia].
    destruct (e <? e) eqn:E3; [lia|].
    replace (Z.min s s) with s by lia. replace (Z.max e e) with e by lia.
    destruct A' as [|[s' e'] A''].
    + cbn [tl]. destruct fuel; reflexivity.
    + pose proof H3 as (H4 & H5 & H6).
      destruct (e' <? s) eqn:E4; [lia|]. destruct (e <? s') eqn:E5; [|lia].
      cbn [tl]. f_equal. apply (IH e H3). cbn [length] in *. lia.
Qed.

Theorem union_idem : forall A, canonical A -> k_union A A = A.
Proof.
  intros A HA. destruct (canonical_canon _ HA) as [lo H].
  unfold k_union. eapply union_go_self; [eassumption|lia].
Qed.

(* ------------------------------------------------------------------ *)
(* diff_measure                                                         *)

Lemma dinner_meas A' s1 e1 i :
  (forall B lb k, canon lb B ->
     tot_length (map fst (diff_go A' B k)) + tot_length (ki A' B) = tot_length A') ->
  s1 < e1 ->
  forall B pe ps, ps < pe -> canon pe B -> ps < e1 -> s1 < pe ->
  tot_length (map fst (dinner A' e1 i pe (ps, pe) B)) + tot_length (ki ((s1, e1) :: A') ((ps, pe) :: B))
  = e1 - Z.max s1 ps + tot_length A'.
Proof.
  intros IHA Hse1.
  induction B as [|[s2 e2] B IHB]; intros pe ps Hp HB Hps Hpe.
  - rewrite dinner_nil, ki_cons.
    destruct (pe <=? s1) eqn:E1; [lia|]. destruct (ps <? e1) eqn:E2; [|lia].
    destruct (pe <? e1) eqn:E3.
    + pose proof (IHA [] 0 (S i) I) as Q. rewrite ki_nil_r in *.
      cbn [map fst tot_length] in *. lia.
    + pose proof (IHA [(ps, pe)] (ps - 1) (S i)) as Q.
      cbn [map fst tot_length] in *. rewrite <- Q; [lia|]. cbn [canon]. repeat split; lia.
  - pose proof HB as (H1 & H2 & H3).
    rewrite dinner_cons, ki_cons.
    destruct (pe <=? s1) eqn:E1; [lia|]. destruct (ps <? e1) eqn:E2; [|lia].
    destruct (s2 <? e1) eqn:E4.
    + destruct (pe <? e1) eqn:E3; [|lia].
      pose proof (IHB e2 s2 H2 H3 ltac:(lia) ltac:(lia)) as Q.
      cbn [map fst tot_length] in *. lia.
    + destruct (pe <? e1) eqn:E3.
      * assert (HB2 : canon (s2 - 1) ((s2, e2) :: B)) by (cbn [canon]; repeat split; lia || assumption).
        rewrite (ki_skip_l ((s2, e2) :: B) (s2 - 1) s1 e1 A' HB2 Hse1) by lia.
        pose proof (IHA _ pe (S i) HB) as Q.
        cbn [map fst tot_length] in *. lia.
      * pose proof (IHA ((ps, pe) :: (s2, e2) :: B) (ps - 1) (S i)) as Q.
        cbn [map fst tot_length] in *. rewrite <- Q; [lia|].
        cbn [canon]. repeat split; lia || assumption.
Qed.

Lemma diff_go_meas : forall A la, canon la A -> forall B lb i, canon lb B ->
  tot_length (map fst (diff_go A B i)) + tot_length (ki A B) = tot_length A.
Proof.
  induction A as [|[s1 e1] A' IHA]; intros la HA.
  - intros. reflexivity.
  - destruct HA as (Hla & Hse1 & HA'). specialize (IHA e1 HA').
    induction B as [|[s2 e2] B' IHB]; intros lb i HB.
    + rewrite diff_go_cons_nil, ki_nil_r. pose proof (IHA [] 0 (S i) I) as Q.
      rewrite ki_nil_r in Q. cbn [map fst tot_length] in *. lia.
    + pose proof HB as (Hlb & Hse2 & HB').
      rewrite diff_go_cons_cons.
      destruct (e2 <=? s1) eqn:E1;
        [|destruct (s2 <? e1) eqn:E2; [destruct ((s2 <? s1) && (e1 <? e2)) eqn:E3|]].
      * rewrite ki_cons, E1. apply (IHB e2 i HB').
      * rewrite ki_cons, E1, E2. destruct (e2 <? e1) eqn:E4; [lia|].
        pose proof (IHA _ lb (S i) HB) as Q. cbn [map fst tot_length] in *. lia.
      * rewrite map_app, tot_length_app.
        pose proof (dinner_meas A' s1 e1 i IHA Hse1 B' e2 s2 Hse2 HB' ltac:(lia) ltac:(lia)) as Q.
        destruct (s1 <? s2) eqn:E4; cbn [map fst tot_length] in *; lia.
      * rewrite ki_cons, E1, E2.
        pose proof (IHA _ lb (S i) HB) as Q. cbn [map fst tot_length] in *. lia.
Qed.

Theorem diff_measure : forall A B, canonical A -> canonical B ->
  tot_length (k_diff A B) = tot_length A - tot_length (k_inter A B).
Proof.
  intros A B HA HB.
  destruct (canonical_canon _ HA) as [la Hla]. destruct (canonical_canon _ HB) as [lb Hlb].
  rewrite k_inter_ki. unfold k_diff, k_diff_meta.
  pose proof (diff_go_meas A la Hla B lb 0%nat Hlb). lia.
Qed.

(* ------------------------------------------------------------------ *)
(* union_measure                                                        *)

Ltac side :=
  try assumption; try exact I;
  try (cbn [length canon]; lia);
  try (cbn [canon]; repeat split; try assumption; lia).

Lemma union_go_meas : forall fuel,
  (forall A B la lb,
      canon la A -> canon lb B ->
      (2 * (length A + length B) + 1 <= fuel)%nat ->
      tot_length (union_go fuel None A B) + tot_length (ki A B) = tot_length A + tot_length B)
  /\
  (forall ns s1 e1 A' s2 e2 B' la lb,
      canon la ((s1, e1) :: A') -> canon lb ((s2, e2) :: B') ->
      (2 * (length ((s1, e1) :: A') + length ((s2, e2) :: B')) <= fuel)%nat ->
      s1 <= e2 -> s2 <= e1 ->
      tot_length (union_go fuel (Some ns) ((s1, e1) :: A') ((s2, e2) :: B'))
      + tot_length (ki ((s1, e1) :: A') ((s2, e2) :: B'))
      = (Z.min s1 s2 - ns) + tot_length ((s1, e1) :: A') + tot_length ((s2, e2) :: B')).
Proof.
  induction fuel as [|fuel [IHo IHc]].
  { split; intros; cbn [length] in *; lia. }
  split.
  - (* outer loop *)
    intros A B la lb HcA HcB Hfuel.
    destruct A as [|[s1 e1] A'].
    { cbn [union_go]. rewrite ki_nil_l. cbn [tot_length]. lia. }
    destruct B as [|[s2 e2] B'].
    { cbn [union_go]. rewrite ki_nil_r. cbn [tot_length]. lia. }
    cbn [union_go].
    pose proof HcA as (HA1 & HA2 & HA3). pose proof HcB as (HB1 & HB2 & HB3).
    cbn [length] in Hfuel.
    rewrite ki_cons.
    destruct (e2 <=? s1) eqn:E1.
    + pose proof (IHo ((s1, e1) :: A') B' la e2 HcA HB3 ltac:(cbn [length]; lia)) as Q.
      cbn [tot_length] in *. lia.
    + destruct (s2 <? e1) eqn:E2.
      * pose proof (IHc (Z.min s1 s2) s1 e1 A' s2 e2 B' la lb HcA HcB
                      ltac:(cbn [length]; lia) ltac:(lia) ltac:(lia)) as Q.
        rewrite ki_cons, E1, E2 in Q. cbn [tot_length] in *. lia.
      * pose proof (IHo A' ((s2, e2) :: B') e1 lb HA3 HcB ltac:(cbn [length]; lia)) as Q.
        cbn [tot_length] in *. lia.
  - (* inner (chain) loop *)
    intros ns s1 e1 A' s2 e2 B' la lb HcA HcB Hfuel H12 H21.
    cbn [union_go].
    pose proof HcA as (HA1 & HA2 & HA3). pose proof HcB as (HB1 & HB2 & HB3).
    cbn [length] in Hfuel.
    rewrite ki_cons.
    destruct (e1 <? e2) eqn:E.
    + (* set 1 advances *)
      replace (Z.max e1 e2) with e2 by lia.
      destruct (e2 <=? s1) eqn:K1; [lia|].
      destruct (e2 <? e1) eqn:K3; [lia|].
      destruct A' as [|[s1' e1'] A''].
      * cbn [tl]. rewrite !ki_nil_l.
        pose proof (IHo [] B' e2 e2 I HB3 ltac:(cbn [length]; lia)) as Q.
        rewrite ki_nil_l in Q.
        destruct (s2 <? e1) eqn:K2; cbn [tot_length] in *; lia.
      * pose proof HA3 as (HA4 & HA5 & HA6).
        cbn [length] in Hfuel.
        destruct (e2 <? s1') eqn:E3.
        -- cbn [tl].
           rewrite (ki_skip_r ((s1', e1') :: A'') (s1' - 1) s2 e2 B') by side.
           pose proof (IHo ((s1', e1') :: A'') B' e1 e2 HA3 HB3 ltac:(cbn [length]; lia)) as Q.
           destruct (s2 <? e1) eqn:K2; cbn [tot_length] in *; lia.
        -- destruct (e1' <? s2) eqn:E4; [exfalso; lia|].
           pose proof (IHc ns s1' e1' A'' s2 e2 B' e1 lb HA3 HcB
                         ltac:(cbn [length]; lia) ltac:(lia) ltac:(lia)) as Q.
           destruct (s2 <? e1) eqn:K2; cbn [tot_length] in *; lia.
    + (* set 2 advances *)
      replace (Z.max e1 e2) with e1 by lia.
      destruct B' as [|[s2' e2'] B''].
      * cbn [tl]. rewrite !ki_nil_r.
        assert (K : ki A' [(s2, e2)] = ki A' []).
        { apply (ki_skip_r A' e1); [assumption|lia]. }
        destruct (e2 <? e1) eqn:K3; [clear K|rewrite K]; rewrite ?ki_nil_r.
        all: pose proof (IHo A' [] e1 e1 HA3 I ltac:(cbn [length]; lia)) as Q;
          rewrite ki_nil_r in Q.
        all: destruct (e2 <=? s1) eqn:K1; [cbn [tot_length] in *; lia|].
        all: destruct (s2 <? e1) eqn:K2; cbn [tot_length] in *; lia.
      * pose proof HB3 as (HB4 & HB5 & HB6).
        cbn [length] in Hfuel.
        destruct (e2' <? s1) eqn:E3; [exfalso; lia|].
        destruct (e1 <? s2') eqn:E4.
        -- cbn [tl].
           pose proof (IHo A' ((s2', e2') :: B'') e1 e2 HA3 HB3 ltac:(cbn [length]; lia)) as Q.
           assert (K : ki ((s1, e1) :: A') ((s2', e2') :: B'') = ki A' ((s2', e2') :: B'')).
           { apply (ki_skip_l _ (s2' - 1)); side. }
           assert (K' : e2 = e1 -> ki A' ((s2, e2) :: (s2', e2') :: B'') = ki A' ((s2', e2') :: B'')).
           { intros ->. apply (ki_skip_r A' e1); [assumption|lia]. }
           rewrite K.
           destruct (e2 <? e1) eqn:K3; [|rewrite K' by lia].
           all: destruct (e2 <=? s1) eqn:K1; [cbn [tot_length] in *; lia|].
           all: destruct (s2 <? e1) eqn:K2; cbn [tot_length] in *; lia.
        -- pose proof (IHc ns s1 e1 A' s2' e2' B'' la e2 HcA HB3
                         ltac:(cbn [length]; lia) ltac:(lia) ltac:(lia)) as Q.
           destruct (e2 <? e1) eqn:K3; [|exfalso; lia].
           destruct (e2 <=? s1) eqn:K1; [cbn [tot_length] in *; lia|].
           destruct (s2 <? e1) eqn:K2; cbn [tot_length] in *; lia.
Qed.

Theorem union_measure : forall A B, canonical A -> canonical B ->
  tot_length (k_union A B) + tot_length (k_inter A B) = tot_length A + tot_length B.
Proof.
  intros A B HA HB.
  destruct (canonical_canon _ HA) as [la Hla]. destruct (canonical_canon _ HB) as [lb Hlb].
  rewrite k_inter_ki. unfold k_union.
  apply (proj1 (union_go_meas _) A B la lb Hla Hlb). lia.
Qed.

(* ------------------------------------------------------------------ *)
Print Assumptions diff_measure.
Print Assumptions union_measure.
Print Assumptions inter_idem.
Print Assumptions diff_self.
Print Assumptions union_idem.
Print Assumptions inter_comm.
Print Assumptions diff_empty_r.
Print Assumptions union_empty.
