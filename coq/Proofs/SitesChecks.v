(* Checks over the tables regenerated from /repo's source by tools/gen_sites.py (coq/Gen/Sites.v).
   Each check is a boolean over a FINITE generated table, proved by vm_compute: a proof, because the
   domain is the table; the table is re-derived from the source on every run. *)
From Coq Require Import String List Bool Arith.
From Verif Require Import Gen.Sites.
Import ListNotations.
Open Scope string_scope.

Fixpoint lookup {A} (k : string) (l : list (string * A)) : option A :=
  match l with [] => None | (k', v) :: r => if String.eqb k k' then Some v else lookup k r end.

(* ---------------- C09: unit call sites ---------------- *)
(* reviewed by hand from the signatures: for every function taking a unit, its TIME-VALUED parameters;
   "<return>" marks functions that return times converted to the unit *)
Definition time_params : list (string * list string) := [
  ("pynapple/core/base_class.py:_Base.__init__", ["t"]);
  ("pynapple/core/base_class.py:_Base._get_slice", ["start"; "end"]);
  ("pynapple/core/base_class.py:_Base.count", ["bin_size"]);
  ("pynapple/core/base_class.py:_Base.end_time", ["<return>"]);
  ("pynapple/core/base_class.py:_Base.find_support", ["min_gap"]);
  ("pynapple/core/base_class.py:_Base.get", ["start"; "end"]);
  ("pynapple/core/base_class.py:_Base.get_slice", ["start"; "end"]);
  ("pynapple/core/base_class.py:_Base.start_time", ["<return>"]);
  ("pynapple/core/base_class.py:_Base.times", ["<return>"]);
  ("pynapple/core/interval_set.py:IntervalSet.__init__", ["start"; "end"]);
  ("pynapple/core/interval_set.py:IntervalSet.as_units", ["<return>"]);
  ("pynapple/core/interval_set.py:IntervalSet.drop_long_intervals", ["threshold"]);
  ("pynapple/core/interval_set.py:IntervalSet.drop_short_intervals", ["threshold"]);
  ("pynapple/core/interval_set.py:IntervalSet.merge_close_intervals", ["threshold"]);
  ("pynapple/core/interval_set.py:IntervalSet.split", ["interval_size"]);
  ("pynapple/core/interval_set.py:IntervalSet.tot_length", ["<return>"]);
  ("pynapple/core/time_index.py:TsIndex.__new__", ["t"]);
  ("pynapple/core/time_index.py:TsIndex.in_units", ["<return>"]);
  ("pynapple/core/time_series.py:Ts.__init__", ["t"]);
  ("pynapple/core/time_series.py:Ts.as_units", ["<return>"]);
  ("pynapple/core/time_series.py:Ts.trial_count", ["bin_size"]);
  ("pynapple/core/time_series.py:Tsd.__init__", ["t"]);
  ("pynapple/core/time_series.py:Tsd.as_units", ["<return>"]);
  ("pynapple/core/time_series.py:TsdFrame.__init__", ["t"]);
  ("pynapple/core/time_series.py:TsdFrame.as_units", ["<return>"]);
  ("pynapple/core/time_series.py:TsdTensor.__init__", ["t"]);
  ("pynapple/core/time_series.py:_BaseTsd.__init__", ["t"]);
  ("pynapple/core/time_series.py:_BaseTsd.bin_average", ["bin_size"]);
  ("pynapple/core/time_series.py:_BaseTsd.smooth", ["std"; "windowsize"]);
  ("pynapple/core/ts_group.py:TsGroup.__init__", ["data"]);
  ("pynapple/core/ts_group.py:TsGroup.count", ["bin_size"]);
  ("pynapple/core/ts_group.py:TsGroup.get", ["start"; "end"]);
  ("pynapple/core/ts_group.py:TsGroup.trial_count", ["bin_size"]);
  ("pynapple/process/correlograms.py:compute_autocorrelogram", ["binsize"; "windowsize"]);
  ("pynapple/process/correlograms.py:compute_crosscorrelogram", ["binsize"; "windowsize"]);
  ("pynapple/process/correlograms.py:compute_eventcorrelogram", ["binsize"; "windowsize"]);
  ("pynapple/process/decoding.py:decode_1d", ["bin_size"]);
  ("pynapple/process/decoding.py:decode_2d", ["bin_size"]);
  ("pynapple/process/perievent.py:compute_event_trigger_average", ["binsize"; "windowsize"]);
  ("pynapple/process/perievent.py:compute_perievent", ["minmax"]);
  ("pynapple/process/perievent.py:compute_perievent_continuous", ["minmax"]);
  ("pynapple/process/spectrum.py:compute_mean_power_spectral_density", ["interval_size"]);
  ("pynapple/process/warping.py:build_tensor", ["bin_size"])
].

(* a time parameter meets the unit: converted (1), passed on with the unit (2), or returned converted (3) *)
Definition param_ok (row : list (string * nat)) (p : string) : bool :=
  match lookup p row with Some (S _) => true | _ => false end.

(* every generated function is reviewed, has no unrecognised use of the unit variable, and each of its
   time-valued parameters meets the unit *)
Definition unit_row_ok (r : string * (list (string * nat) * nat)) : bool :=
  let '(f, (row, other)) := r in
  Nat.eqb other 0 &&
  match lookup f time_params with
  | Some ps => forallb (param_ok row) ps
  | None => false
  end.
Definition unit_sites_ok : bool :=
  forallb unit_row_ok unit_table
  && forallb (fun '(f, _) => match lookup f unit_table with Some _ => true | None => false end) time_params.

Lemma unit_sites_checked : unit_sites_ok = true.
Proof. vm_compute. reflexivity. Qed.

Lemma unit_sites_forall : forall r, In r unit_table -> unit_row_ok r = true.
Proof. apply forallb_forall. pose proof unit_sites_checked as H. unfold unit_sites_ok in H. apply andb_prop in H. tauto. Qed.

(* ---------------- C09: configuration flags only guard warnings ---------------- *)
Definition config_ok : bool := forallb (fun '(_, k) => Nat.eqb k 1 || Nat.eqb k 2) config_table.
Lemma config_checked : config_ok = true.
Proof. vm_compute. reflexivity. Qed.

(* ---------------- C10: guards ---------------- *)
(* 1 raises always; 2 raises once initialised; 3 raises for reserved names once initialised (else metadata);
   4 item assignment on the data values / metadata for str keys; 5 raises for reserved keys else metadata *)
Definition expected_guards : list (string * nat) := [
  ("pynapple/core/base_class.py:_Base.__setattr__", 2);
  ("pynapple/core/interval_set.py:IntervalSet.__setattr__", 3);
  ("pynapple/core/interval_set.py:IntervalSet.__setitem__", 5);
  ("pynapple/core/time_index.py:TsIndex.__setitem__", 1);
  ("pynapple/core/time_series.py:TsdFrame.__setattr__", 3);
  ("pynapple/core/ts_group.py:TsGroup.__setattr__", 3)
].
Definition guards_ok : bool :=
  forallb (fun '(k, v) => match lookup k guard_table with Some v' => Nat.eqb v v' | None => false end) expected_guards.
Lemma guards_checked : guards_ok = true.
Proof. vm_compute. reflexivity. Qed.

(* ---------------- C10: in-place updates act on fresh arrays ---------------- *)
(* provenance: 1 fresh local, 2 parameter (or view of one), 3 self.values item assignment, 4 self._metadata (set_info).
   A function that updates a parameter in place is admissible only if EVERY call site hands it a fresh array. *)
Definition inplace_ok : bool :=
  forallb (fun '(_, p) => Nat.eqb p 1 || Nat.eqb p 3 || Nat.eqb p 4 || Nat.eqb p 2) inplace_table
  && (* the only parameter writers: *)
  forallb (fun '(k, p) => negb (Nat.eqb p 2) ||
             (String.eqb k "pynapple/process/filtering.py:_compute_spectral_inversion:aug:kernel"
              || String.eqb k "pynapple/process/filtering.py:_compute_spectral_inversion:store:kernel")) inplace_table
  && forallb (fun '(_, p) => Nat.eqb p 1) inplace_callers
  && negb (Nat.eqb (length inplace_callers) 0).
Lemma inplace_checked : inplace_ok = true.
Proof. vm_compute. reflexivity. Qed.

(* inplace_ok accepts provenance 3 / 4 (a write into self.values / self._metadata) in ANY function.  The statement allows
   such writes only in the sanctioned mutators (item assignment, set_info): pin the sites by name, so that a
   `self.values *= 2` inside a query method fails the check instead of being classified "item assignment". *)
Definition sanctioned_mutators : list (string * nat) := [
  ("pynapple/core/time_series.py:__setitem__:setitem:self", 3);
  ("pynapple/core/metadata_class.py:set_info:store:self", 4);
  ("pynapple/core/ts_group.py:__setitem__:store:self", 4)
].
Definition inplace_pinned_ok : bool :=
  forallb (fun '(k, p) => Nat.eqb p 1 || Nat.eqb p 2
             || existsb (fun '(k', p') => String.eqb k k' && Nat.eqb p p') sanctioned_mutators) inplace_table
  && forallb (fun '(k, _) => match lookup k inplace_table with Some _ => true | None => false end) sanctioned_mutators.
Lemma inplace_pinned_checked : inplace_pinned_ok = true.
Proof. vm_compute. reflexivity. Qed.
