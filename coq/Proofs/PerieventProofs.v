(* Proofs about compute_perievent's model (Model/Perievent.v: align_one, align_tsd). *)
From Verif Require Import Base.Prelude Model.Restrict Model.Count Model.Slice Model.Perievent Proofs.BaseLemmas Proofs.RestrictProofs Proofs.CountProofs Proofs.SliceProofs.
From Coq Require Import ZifyBool.

(* ------------------------------------------------------------------ *)
(* the positional slice [searchsorted_left a, searchsorted_left b) is  *)
(* the half-open value window [a, b)                                   *)
(* ------------------------------------------------------------------ *)
Section WindowLeft.
  Context {A : Type} (key : A -> Z).

  Lemma count_window_lt a b l : a <= b ->
    count_if (fun x => key x <? b) l
    = Nat.add (count_if (fun x => key x <? a) l)
              (count_if (fun x => key x <? b) (filter (fun x => negb (key x <? a)) l)).
  Proof.
    intros Hab. induction l as [|x r IH]; [reflexivity|]. cbn [count_if filter].
    destruct (key x <? a) eqn:E1; destruct (key x <? b) eqn:E2; cbn [negb count_if]; rewrite ?E2; lia.
  Qed.

  Lemma slice_keyed_left a b l : a <= b -> sortedZ (map key l) ->
    slice (count_if (fun x => key x <? a) l) (count_if (fun x => key x <? b) l) l
    = filter (fun x => (a <=? key x) && (key x <? b)) l.
  Proof.
    intros Hab Hs. unfold slice.
    destruct (split_at_count key (fun t => t <? a) ltac:(intros; lia) l Hs) as [_ H2].
    rewrite H2.
    replace (Nat.sub (count_if (fun x => key x <? b) l) (count_if (fun x => key x <? a) l))
      with (count_if (fun x => key x <? b) (filter (fun x => negb (key x <? a)) l))
      by (rewrite (count_window_lt a b l Hab); lia).
    destruct (split_at_count key (fun t => t <? b) ltac:(intros; lia)
                (filter (fun x => negb (key x <? a)) l)) as [H1 _].
    { apply filter_sortedZ_k. exact Hs. }
    rewrite H1, filter_filter. apply filter_ext. intros x. lia.
  Qed.
End WindowLeft.

Lemma slice_rows_window_left {A} a b ts (rows : list A) : a <= b -> sortedZ ts -> length rows = length ts ->
  slice (ss_left a ts) (ss_left b ts) (combine ts rows)
  = filter (fun tr => (a <=? fst tr) && (fst tr <? b)) (combine ts rows).
Proof.
  intros Hab Hs Hl. unfold ss_left.
  rewrite <- (count_if_combine_fst (fun t => t <? a) ts rows Hl).
  rewrite <- (count_if_combine_fst (fun t => t <? b) ts rows Hl).
  apply (slice_keyed_left (@fst Z A) a b (combine ts rows) Hab).
  rewrite map_fst_combine_gen by exact Hl. exact Hs.
Qed.

Lemma combine_map_l {A B C} (f : A -> C) : forall (l : list A) (l' : list B),
  combine (map f l) l' = map (fun p => (f (fst p), snd p)) (combine l l').
Proof.
  induction l as [|x l IH]; intros l'; [reflexivity|].
  destruct l' as [|y l']; [reflexivity|]. cbn [map combine fst snd]. rewrite IH. reflexivity.
Qed.

Lemma sorted_from_shift r l : forall lo, sorted_from lo l -> sorted_from (lo - r) (map (fun t => t - r) l).
Proof.
  induction l as [|x l IH]; intros lo H; [exact I|].
  cbn [map sorted_from] in *. destruct H as [H1 H2]. split; [lia|]. apply IH. exact H2.
Qed.

Lemma sortedZ_shift r l : sortedZ l -> sortedZ (map (fun t => t - r) l).
Proof.
  destruct l as [|x l]; [auto|]. cbn [map sortedZ]. apply sorted_from_shift.
Qed.

(* ------------------------------------------------------------------ *)
(* one member                                                          *)
(* ------------------------------------------------------------------ *)
Lemma align_one_spec {A} w0 w1 ts (rows : list A) r :
  0 <= w0 -> 0 <= w1 -> sortedZ ts -> length rows = length ts ->
  align_one w0 w1 ts rows r
  = map (fun tv => (fst tv - r, snd tv))
        (filter (fun tv => (r - w0 <=? fst tv) && (fst tv <? r + w1)) (combine ts rows)).
Proof.
  intros H0 H1 Hs Hl. unfold align_one. cbv zeta.
  rewrite combine_map_l, combine_slice.
  rewrite (slice_rows_window_left (r - w0) (r + w1) ts rows ltac:(lia) Hs Hl).
  apply filter_all. apply Forall_map. apply Forall_forall. intros [t v] Hin.
  apply filter_In in Hin. destruct Hin as [_ Hin]. unfold inb. cbn [fst snd] in *. lia.
Qed.

Theorem align_tsd_spec : forall (A : Type) w0 w1 ts (rows : list A) tref,
  0 <= w0 -> 0 <= w1 -> sortedZ ts -> length rows = length ts ->
  align_tsd w0 w1 ts rows tref = perievent_spec w0 w1 ts rows tref.
Proof.
  intros A w0 w1 ts rows tref H0 H1 Hs Hl. unfold align_tsd, perievent_spec.
  apply map_ext. intros r. rewrite align_one_spec by assumption. reflexivity.
Qed.

Theorem align_tsd_tags : forall (A : Type) w0 w1 ts (rows : list A) tref,
  map fst (align_tsd w0 w1 ts rows tref) = tref.
Proof.
  intros A w0 w1 ts rows tref. unfold align_tsd. rewrite map_map. cbn [fst]. apply map_id.
Qed.

Theorem align_lags_in_support : forall (A : Type) w0 w1 ts (rows : list A) r l v,
  0 <= w0 -> 0 <= w1 -> sortedZ ts -> length rows = length ts ->
  In (l, v) (align_one w0 w1 ts rows r) -> - w0 <= l < w1.
Proof.
  intros A w0 w1 ts rows r l v H0 H1 Hs Hl Hin.
  rewrite align_one_spec in Hin by assumption.
  apply in_map_iff in Hin. destruct Hin as ([t x] & Heq & Hin).
  apply filter_In in Hin. destruct Hin as [_ Hin]. cbn [fst snd] in *.
  inversion Heq; subst. lia.
Qed.

Theorem align_lags_sorted : forall (A : Type) w0 w1 ts (rows : list A) r,
  0 <= w0 -> 0 <= w1 -> sortedZ ts -> length rows = length ts ->
  sortedZ (map fst (align_one w0 w1 ts rows r)).
Proof.
  intros A w0 w1 ts rows r H0 H1 Hs Hl.
  rewrite align_one_spec by assumption. rewrite map_map. cbn [fst].
  rewrite <- (map_map fst (fun t => t - r)). apply sortedZ_shift.
  apply filter_sortedZ_k. rewrite map_fst_combine_gen by exact Hl. exact Hs.
Qed.

Print Assumptions align_tsd_spec.
Print Assumptions align_tsd_tags.
Print Assumptions align_lags_in_support.
Print Assumptions align_lags_sorted.
