(* A concrete instance of the hypotheses of the C19 theorems: the field Qc (canonical rationals, Leibniz
   equality, QArith.Qcanon) and the exact 4-point DFT (the 4th roots of unity are Gaussian integers). *)
From Coq Require Import QArith Qcanon Field_theory Lia.
From Verif Require Import Base.Prelude Model.Restrict Model.Count Model.Slice Model.Spectrum.
Open Scope Z_scope.

Definition QcF : Field := mkField Qc (Q2Qc 0) (Q2Qc 1) Qcplus Qcmult Qcminus Qcopp Qcdiv Qcinv.

Definition dft4 (x : list Qc) : list (Qc * Qc) :=
  match x with
  | [a; b; c; d] => [((a + b + c + d)%Qc, Q2Qc 0); ((a - c)%Qc, (d - b)%Qc); ((a - b + c - d)%Qc, Q2Qc 0); ((a - c)%Qc, (b - d)%Qc)]
  | _ => map (fun v => (v, Q2Qc 0)) x
  end.

Definition ex_ts : list Z := [0; 1; 2; 3; 4; 5].
Definition ex_vs : list Qc := map (fun z => Q2Qc (inject_Z z)) [7; 3; 1; 4; 1; 5].

(* closed equations between (lists of pairs of) Qc values: structure by f_equal, values through Qc_is_canon *)
Ltac qc_eq := apply Qc_is_canon; vm_compute; reflexivity.
Ltac qc_list :=
  repeat match goal with
  | |- @eq (list _) (_ :: _) (_ :: _) => apply f_equal2
  | |- @eq (list _) [] [] => reflexivity
  | |- @eq (_ * _) (_, _) (_, _) => apply f_equal2
  | |- @eq Z _ _ => reflexivity
  | |- @eq Qc _ _ => qc_eq
  end.

Lemma QcF_field : field_theory (f0 QcF) (f1 QcF) (fadd QcF) (fmul QcF) (fsub QcF) (fopp QcF) (fdiv QcF) (finv QcF) eq.
Proof. simpl. exact Qcft. Qed.

Lemma ofnat_this : forall n, (this (ofnat QcF n) == inject_Z (Z.of_nat n))%Q.
Proof.
  induction n as [|n IH].
  - vm_compute. reflexivity.
  - change (ofnat QcF (S n)) with (Qcplus (Q2Qc 1) (ofnat QcF n)).
    unfold Qcplus, Q2Qc. cbn [this]. rewrite !Qred_correct, IH.
    rewrite Nat2Z.inj_succ. unfold Z.succ. rewrite inject_Z_plus. ring.
Qed.

Lemma QcF_char0 : forall n, ofnat QcF (S n) <> f0 QcF.
Proof.
  intros n H. pose proof (ofnat_this (S n)) as E. rewrite H in E.
  simpl f0 in E. unfold Q2Qc in E. cbn [this] in E. rewrite Qred_correct in E.
  unfold Qeq, inject_Z in E. cbn [Qnum Qden] in E. lia.
Qed.

Lemma dft4_length : length_law QcF dft4.
Proof.
  intros x; destruct x as [|a [|b [|c [|d [|e r]]]]]; simpl; rewrite ?map_length; reflexivity.
Qed.

Lemma ex_inside : inside ex_ts ex_vs 1 4 = map (fun z => Q2Qc (inject_Z z)) [3; 1; 4; 1].
Proof. vm_compute. qc_list. Qed.

Lemma ex_parseval : parseval_at QcF dft4 (crop_pad (f0 QcF) 4 (inside ex_ts ex_vs 1 4)).
Proof. unfold parseval_at. qc_eq. Qed.

Lemma ex_crop_length : length (crop_pad (f0 QcF) 4 (inside ex_ts ex_vs 1 4)) = 4%nat.
Proof. vm_compute. reflexivity. Qed.

Lemma ex_hermitian : hermitian_at QcF dft4 (crop_pad (f0 QcF) 4 (inside ex_ts ex_vs 1 4)).
Proof.
  intros k Hk. rewrite ex_crop_length in *.
  assert (k = 1 \/ k = 2 \/ k = 3)%nat as [-> | [-> | ->]] by lia; qc_eq.
Qed.

(* the one-sided PSD of the 4 samples inside [1,4] at fs = 512: rows k = 0, 1 with values 81/2048 and 2*1/2048 *)
Lemma ex_psd : psd QcF dft4 ex_ts ex_vs 1 4 (512 # 1) false None
             = [(0, Q2Qc (81 # 2048)); (1, Q2Qc (2 # 2048))].
Proof. vm_compute. qc_list. Qed.

Theorem spectrum_nonvacuous :
  field_theory (f0 QcF) (f1 QcF) (fadd QcF) (fmul QcF) (fsub QcF) (fopp QcF) (fdiv QcF) (finv QcF) eq
  /\ (forall n, ofnat QcF (S n) <> f0 QcF)
  /\ length_law QcF dft4
  /\ sortedZ ex_ts /\ 1 < 4 /\ length ex_vs = length ex_ts
  /\ inside ex_ts ex_vs 1 4 = map (fun z => Q2Qc (inject_Z z)) [3; 1; 4; 1]
  /\ parseval_at QcF dft4 (crop_pad (f0 QcF) 4 (inside ex_ts ex_vs 1 4))
  /\ hermitian_at QcF dft4 (crop_pad (f0 QcF) 4 (inside ex_ts ex_vs 1 4))
  /\ (0 < 512 # 1)%Q /\ map doubled (krange false 4) = [false; true]
  /\ psd QcF dft4 ex_ts ex_vs 1 4 (512 # 1) false None = [(0, Q2Qc (81 # 2048)); (1, Q2Qc (2 # 2048))]
  /\ overlap_split [(0, 8); (10, 30)] 4 2
     = [(0, 4); (2, 6); (10, 14); (12, 16); (14, 18); (16, 20); (18, 22); (20, 24); (22, 26); (24, 28)]
  /\ mean_plan [0; 1; 2; 3; 4; 5; 6; 7; 8; 9] [(0, 9)] 4 2 = Some (5%nat, [(0%nat, 5%nat); (2%nat, 7%nat); (4%nat, 9%nat)]).
Proof.
  split; [exact QcF_field|]. split; [exact QcF_char0|]. split; [exact dft4_length|].
  split; [unfold ex_ts, sortedZ; cbn [sorted_from]; repeat split; lia|]. split; [lia|]. split; [reflexivity|].
  split; [exact ex_inside|]. split; [exact ex_parseval|]. split; [exact ex_hermitian|].
  split; [reflexivity|]. split; [vm_compute; reflexivity|].
  split; [exact ex_psd|]. split; vm_compute; reflexivity.
Qed.

Print Assumptions spectrum_nonvacuous.
