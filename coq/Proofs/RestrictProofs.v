From Verif Require Import Base.Prelude Model.Restrict Proofs.BaseLemmas.
From Coq Require Import ZifyBool.
Ltac blia := cbv beta in *; unfold inb in *; cbn [fst snd] in *; lia.

(* ---- the two phases ---- *)
Lemma drop_lt_spec s ts : forall i i1 ts1,
  drop_lt s i ts = (i1, ts1) ->
  exists pre, ts = pre ++ ts1 /\ i1 = (i + length pre)%nat /\ Forall (fun x => x < s) pre
              /\ match ts1 with [] => True | y :: _ => s <= y end.
Proof.
  induction ts as [|t r IH]; intros i i1 ts1 H; simpl in H.
  - inversion H; subst. exists []. simpl. repeat split; auto.
  - destruct (t <? s) eqn:E.
    + destruct (IH _ _ _ H) as (pre & -> & -> & HF & Hh).
      exists (t :: pre). simpl. repeat split; auto; try lia. constructor; [lia|assumption].
    + inversion H; subst. exists []. simpl. repeat split; auto. lia.
Qed.

Lemma take_le_spec e ts : forall i ix i2 ts2,
  take_le e i ts = (ix, (i2, ts2)) ->
  exists mid, ts = mid ++ ts2 /\ i2 = (i + length mid)%nat /\ ix = seq i (length mid)
              /\ Forall (fun x => x <= e) mid
              /\ match ts2 with [] => True | y :: _ => e < y end.
Proof.
  induction ts as [|t r IH]; intros i ix i2 ts2 H; simpl in H.
  - inversion H; subst. exists []. simpl. repeat split; auto.
  - destruct (t <=? e) eqn:E.
    + destruct (take_le e (S i) r) as [ix' [i2' ts2']] eqn:E2.
      inversion H; subst.
      destruct (IH _ _ _ _ E2) as (mid & -> & -> & -> & HF & Hh).
      exists (t :: mid). simpl. repeat split; auto; try lia. constructor; [lia|assumption].
    + inversion H; subst. exists []. simpl. repeat split; auto. lia.
Qed.

(* head bound + sortedness gives a bound on every element *)
Lemma sorted_head_bound (P : Z -> Prop) (lo : Z) l :
  sortedZ l -> match l with [] => True | y :: _ => lo <= y end -> Forall (fun x => lo <= x) l.
Proof.
  destruct l as [|y r]; intros Hs Hh; [constructor|].
  constructor; [assumption|].
  eapply Forall_impl'; [|apply sortedZ_cons_Forall; exact Hs]. simpl; intros; lia.
Qed.

Lemma sorted_head_bound_lt (lo : Z) l :
  sortedZ l -> match l with [] => True | y :: _ => lo < y end -> Forall (fun x => lo < x) l.
Proof.
  destruct l as [|y r]; intros Hs Hh; [constructor|].
  constructor; [assumption|].
  eapply Forall_impl'; [|apply sortedZ_cons_Forall; exact Hs]. simpl; intros; lia.
Qed.

(* ---- per-interval scan = per-interval filter ---- *)
Lemma scan_spec ep : forall lo i ts,
  canon lo ep -> sortedZ ts -> Forall (fun x => lo < x \/ True) ts ->
  restrict_scan ep i ts = map (fun iv => filter_idx (fun x => inb x iv) i ts) ep
  /\ concat (restrict_scan ep i ts) = filter_idx (fun x => mem x ep) i ts.
Proof.
  induction ep as [|[s e] r IH]; intros lo i ts Hc Hs _.
  - simpl. split; [reflexivity|]. symmetry. apply filter_idx_none.
    apply Forall_forall. intros; reflexivity.
  - destruct Hc as (Hlo & Hse & Hr).
    cbn [restrict_scan].
    destruct (drop_lt s i ts) as [i1 ts1] eqn:E1.
    destruct (take_le e i1 ts1) as [ix [i2 ts2]] eqn:E2.
    destruct (drop_lt_spec _ _ _ _ _ E1) as (pre & -> & -> & Hpre & Hh1).
    destruct (take_le_spec _ _ _ _ _ _ E2) as (mid & -> & -> & -> & Hmid & Hh2).
    assert (Hs1 : sortedZ (mid ++ ts2)) by (eapply sortedZ_app_r; exact Hs).
    assert (Hs2 : sortedZ ts2) by (eapply sortedZ_app_r; exact Hs1).
    assert (Hge : Forall (fun x => s <= x) (mid ++ ts2)).
    { apply sorted_head_bound; [exact (fun _ => True)|assumption|].
      destruct mid; simpl; assumption. }
    assert (Hge_mid : Forall (fun x => s <= x) mid).
    { apply Forall_app in Hge. tauto. }
    assert (Hgt2 : Forall (fun x => e < x) ts2) by (apply sorted_head_bound_lt; assumption).
    destruct (IH e (i + length pre + length mid)%nat ts2 Hr Hs2) as [IH1 IH2].
    { apply Forall_forall; intros; right; exact I. }
    (* facts about membership on each segment *)
    assert (Fpre : forall iv, In iv ((s, e) :: r) ->
              Forall (fun x => inb x iv = false) pre).
    { intros iv Hin. eapply Forall_impl'; [|exact Hpre]. intros x Hx.
      destruct Hin as [<-|Hin]; [blia|].
      assert (Hm : mem x r = false) by (eapply mem_below; [exact Hr|blia]).
      unfold mem in Hm. destruct (inb x iv) eqn:Ei; [|reflexivity].
      exfalso. assert (existsb (inb x) r = true) by (apply existsb_exists; eauto). congruence. }
    assert (Fmid_r : forall iv, In iv r -> Forall (fun x => inb x iv = false) mid).
    { intros iv Hin. eapply Forall_impl'; [|exact Hmid]. intros x Hx.
      assert (Hm : mem x r = false) by (eapply mem_below; [exact Hr|blia]).
      unfold mem in Hm. destruct (inb x iv) eqn:Ei; [|reflexivity].
      exfalso. assert (existsb (inb x) r = true) by (apply existsb_exists; eauto). congruence. }
    split.
    + cbn [map]. f_equal.
      * rewrite !filter_idx_app. rewrite (filter_idx_none _ pre) by (apply Fpre; left; reflexivity).
        rewrite (filter_idx_none _ ts2).
        2:{ eapply Forall_impl'; [|exact Hgt2]. intros x Hx. blia. }
        rewrite app_nil_r. simpl. symmetry. apply filter_idx_all.
        apply Forall_forall. intros x Hx.
        rewrite Forall_forall in Hmid, Hge_mid. specialize (Hmid x Hx). specialize (Hge_mid x Hx).
        blia.
      * rewrite IH1. apply map_ext_in. intros iv Hin.
        rewrite !filter_idx_app.
        rewrite (filter_idx_none _ pre) by (apply Fpre; right; exact Hin).
        rewrite (filter_idx_none _ mid) by (apply Fmid_r; exact Hin).
        reflexivity.
    + cbn [concat]. rewrite IH2.
      rewrite !filter_idx_app.
      rewrite (filter_idx_none _ pre).
      2:{ apply Forall_forall. intros x Hx. rewrite mem_cons.
          assert (Hx' : x < s) by (rewrite Forall_forall in Hpre; auto).
          rewrite (mem_below r e x Hr) by lia. blia. }
      cbn [app]. f_equal.
      * symmetry. apply filter_idx_all. apply Forall_forall. intros x Hx.
        rewrite Forall_forall in Hmid, Hge_mid. specialize (Hmid x Hx). specialize (Hge_mid x Hx).
        rewrite mem_cons. blia.
      * apply filter_idx_ext. eapply Forall_impl'; [|exact Hgt2]. intros x Hx.
        rewrite mem_cons. blia.
Qed.

Theorem restrict_idx_spec ts ep :
  sortedZ ts -> canonical ep ->
  restrict_idx ts ep = filter_idx (fun x => mem x ep) 0%nat ts.
Proof.
  intros Hs Hc. destruct (canonical_canon _ Hc) as [lo Hlo].
  unfold restrict_idx. eapply scan_spec; try eassumption.
  apply Forall_forall; intros; right; exact I.
Qed.

Theorem restrict_cnt_spec ts ep :
  sortedZ ts -> canonical ep ->
  restrict_cnt ts ep = map (fun iv => count_if (fun x => inb x iv) ts) ep.
Proof.
  intros Hs Hc. destruct (canonical_canon _ Hc) as [lo Hlo].
  unfold restrict_cnt.
  destruct (scan_spec ep lo 0%nat ts Hlo Hs) as [H _].
  { apply Forall_forall; intros; right; exact I. }
  rewrite H, map_map. apply map_ext. intros iv. apply filter_idx_length.
Qed.

(* counts sum to the number of kept samples *)
Lemma length_concat {A} (ll : list (list A)) : length (concat ll) = fold_right Nat.add 0%nat (map (@length A) ll).
Proof. induction ll as [|l r IH]; simpl; [reflexivity|]. rewrite app_length, IH. reflexivity. Qed.

Theorem restrict_cnt_sum ts ep :
  fold_right Nat.add 0%nat (restrict_cnt ts ep) = length (restrict_idx ts ep).
Proof. unfold restrict_cnt, restrict_idx. symmetry. apply length_concat. Qed.

(* ---- rows: each sample keeps its own row ---- *)
Lemma select_filter_idx {A} (d : A) (p : Z -> bool) (ts : list Z) :
  forall (pre rows : list A),
  length rows = length ts ->
  select d (pre ++ rows) (filter_idx p (length pre) ts)
  = map snd (filter (fun tr => p (fst tr)) (combine ts rows)).
Proof.
  induction ts as [|t r IH]; intros pre rows Hl; destruct rows as [|x rows]; simpl in Hl; try lia.
  - reflexivity.
  - simpl. assert (E : pre ++ x :: rows = (pre ++ [x]) ++ rows) by (rewrite <- app_assoc; reflexivity).
    assert (L : S (length pre) = length (pre ++ [x])) by (rewrite app_length; simpl; lia).
    destruct (p t); simpl.
    + f_equal.
      * rewrite app_nth2 by lia. rewrite Nat.sub_diag. reflexivity.
      * rewrite E, L. apply IH. lia.
    + rewrite E, L. apply IH. lia.
Qed.

Theorem restrict_rows_spec {A} (d : A) ts rows ep :
  sortedZ ts -> canonical ep -> length rows = length ts ->
  combine (select 0 ts (restrict_idx ts ep)) (select d rows (restrict_idx ts ep))
  = filter (fun tr => mem (fst tr) ep) (combine ts rows).
Proof.
  intros Hs Hc Hl. rewrite restrict_idx_spec by assumption.
  pose proof (select_filter_idx d (fun x => mem x ep) ts [] rows Hl) as H1.
  pose proof (select_filter_idx 0 (fun x => mem x ep) ts [] ts eq_refl) as H2.
  simpl in H1, H2. rewrite H1, H2.
  clear H1 H2. revert rows Hl.
  induction ts as [|t r IH]; intros rows Hl; destruct rows as [|x rows]; simpl in Hl; try lia; [reflexivity|].
  simpl. assert (Hs' : sortedZ r) by (eapply sortedZ_tail; exact Hs).
  destruct (mem t ep); simpl; [f_equal|]; apply IH; auto; lia.
Qed.

(* idempotence and composition at the level of the selected timestamps *)
Lemma filter_combine_self (p : Z -> bool) ts :
  map fst (filter (fun tr : Z * Z => p (fst tr)) (combine ts ts)) = filter p ts.
Proof. induction ts as [|t r IH]; simpl; [reflexivity|]. destruct (p t); simpl; rewrite IH; reflexivity. Qed.

Theorem restrict_ts_spec ts ep :
  sortedZ ts -> canonical ep -> restrict_ts ts ep = filter (fun x => mem x ep) ts.
Proof.
  intros Hs Hc. unfold restrict_ts. rewrite restrict_idx_spec by assumption.
  pose proof (select_filter_idx 0 (fun x => mem x ep) ts [] ts eq_refl) as H. simpl in H.
  rewrite H. clear. induction ts as [|t r IH]; simpl; [reflexivity|].
  destruct (mem t ep); simpl; rewrite IH; reflexivity.
Qed.

Lemma filter_sorted (p : Z -> bool) l : forall lo, sorted_from lo l -> sorted_from lo (filter p l).
Proof.
  induction l as [|x r IH]; intros lo H; simpl; [exact I|].
  destruct H as [H1 H2]. destruct (p x); simpl.
  - split; [assumption|]. apply IH; assumption.
  - apply IH. eapply sorted_from_weaken; eassumption.
Qed.

Lemma filter_sortedZ (p : Z -> bool) l : sortedZ l -> sortedZ (filter p l).
Proof.
  destruct l as [|x r]; simpl; [auto|]. intros H.
  destruct (p x).
  - simpl. apply filter_sorted. exact H.
  - eapply sortedZ_from. apply filter_sorted. exact H.
Qed.

Lemma filter_filter {A} (p q : A -> bool) l : filter p (filter q l) = filter (fun x => q x && p x) l.
Proof. induction l as [|x r IH]; simpl; [reflexivity|]. destruct (q x); simpl; [destruct (p x)|]; rewrite IH; reflexivity. Qed.

Theorem restrict_idem ts ep :
  sortedZ ts -> canonical ep -> restrict_ts (restrict_ts ts ep) ep = restrict_ts ts ep.
Proof.
  intros Hs Hc. rewrite (restrict_ts_spec ts ep) by assumption.
  rewrite restrict_ts_spec by (try apply filter_sortedZ; assumption).
  rewrite filter_filter. apply filter_ext. intros x. destruct (mem x ep); reflexivity.
Qed.

Theorem restrict_restrict ts a b :
  sortedZ ts -> canonical a -> canonical b ->
  restrict_ts (restrict_ts ts a) b = filter (fun x => mem x a && mem x b) ts.
Proof.
  intros Hs Ha Hb. rewrite (restrict_ts_spec ts a) by assumption.
  rewrite restrict_ts_spec by (try apply filter_sortedZ; assumption).
  apply filter_filter.
Qed.

(* every kept sample lies in the support; the result is sorted *)
Theorem restrict_in_support ts ep :
  sortedZ ts -> canonical ep -> Forall (fun x => mem x ep = true) (restrict_ts ts ep) /\ sortedZ (restrict_ts ts ep).
Proof.
  intros Hs Hc. rewrite restrict_ts_spec by assumption. split.
  - apply Forall_forall. intros x Hx. apply filter_In in Hx. tauto.
  - apply filter_sortedZ; assumption.
Qed.

(* in_interval agrees with membership *)
Lemma find_interval_mem x ep : forall k, (exists j, find_interval x k ep = Some j) <-> mem x ep = true.
Proof.
  induction ep as [|iv r IH]; intros k; simpl.
  - split; [intros [j H]; discriminate|discriminate].
  - destruct (inb x iv); simpl; [split; eauto|apply IH].
Qed.
