(* C13: metadata and labels stay attached to the element they describe.  Lemmas about Model/Meta.v. *)
From Verif Require Import Base.Prelude Model.Iset Model.Meta Proofs.BaseLemmas Proofs.FixIsetProofs Proofs.C01Top
  Proofs.InterDiffProofs Proofs.C02Top.
From Coq Require Import ZifyBool Permutation.

(* ================================================================== *)
(* 1. frames: loc / iloc                                               *)

Lemma sel_map {A B} (f : A -> B) (l : list A) ps : sel (map f l) ps = option_map (map f) (sel l ps).
Proof.
  induction ps as [|p r IH]; simpl; [reflexivity|].
  rewrite nth_error_map, IH. destruct (nth_error l p); simpl; [|reflexivity].
  destruct (sel l r); reflexivity.
Qed.

Lemma sel_length {A} (l : list A) ps o : sel l ps = Some o -> length o = length ps.
Proof.
  revert o. induction ps as [|p r IH]; simpl; intros o H.
  - inversion H. reflexivity.
  - destruct (nth_error l p); [|discriminate]. destruct (sel l r); [|discriminate].
    inversion H. simpl. f_equal. apply IH. reflexivity.
Qed.

Lemma sel_nth {A} (l : list A) ps o : sel l ps = Some o ->
  forall i x, nth_error o i = Some x -> exists p, nth_error ps i = Some p /\ nth_error l p = Some x.
Proof.
  revert o. induction ps as [|p r IH]; simpl; intros o H i x Hi.
  - inversion H. subst. destruct i; discriminate.
  - destruct (nth_error l p) eqn:E; [|discriminate]. destruct (sel l r) eqn:E2; [|discriminate].
    inversion H. subst. destruct i; simpl in *.
    + inversion Hi. subst. exists p. auto.
    + eapply IH; [reflexivity|exact Hi].
Qed.

Lemma sel_some {A} (l : list A) ps : Forall (fun p => (p < length l)%nat) ps -> exists o, sel l ps = Some o.
Proof.
  induction 1 as [|p r Hp _ IH]; simpl; [eauto|].
  destruct IH as [o ->]. destruct (nth_error l p) eqn:E; [eauto|].
  apply nth_error_None in E. lia.
Qed.

Lemma rangeZ_length n : length (rangeZ n) = n.
Proof. unfold rangeZ. rewrite map_length, seq_length. reflexivity. Qed.

Lemma labels_range_frame {T} (ts : list T) : labels (range_frame ts) = rangeZ (length ts).
Proof. unfold labels, range_frame. rewrite map_fst_combine; [reflexivity|apply rangeZ_length]. Qed.

Lemma rows_range_frame {T} (ts : list T) : rows (range_frame ts) = ts.
Proof. unfold rows, range_frame. rewrite map_snd_combine; [reflexivity|apply rangeZ_length]. Qed.

Lemma list_eqb_eq a : forall b, list_eqb a b = true <-> a = b.
Proof.
  induction a as [|x a IH]; destruct b as [|y b]; simpl; split; intros H; try reflexivity; try discriminate.
  - apply andb_true_iff in H. destruct H as [H1 H2]. apply Z.eqb_eq in H1. apply IH in H2. congruence.
  - inversion H. subst. rewrite Z.eqb_refl. simpl. apply IH. reflexivity.
Qed.

(* loc on a general frame *)
Lemma loc1_In {T} (m : frame T) k t : loc1 m k = Some t -> In (k, t) m.
Proof.
  induction m as [|[l t'] r IH]; simpl; [discriminate|].
  destruct (l =? k) eqn:E; intros H.
  - apply Z.eqb_eq in E. inversion H. subst. left. reflexivity.
  - right. apply IH. exact H.
Qed.

Lemma loc1_nodup_In {T} (m : frame T) k t : NoDup (labels m) -> In (k, t) m -> loc1 m k = Some t.
Proof.
  induction m as [|[l t'] r IH]; simpl; [tauto|]. intros Hn [H|H].
  - inversion H. subst. rewrite Z.eqb_refl. reflexivity.
  - inversion Hn as [|? ? Hnot Hn']. subst.
    destruct (l =? k) eqn:E.
    + apply Z.eqb_eq in E. subst. exfalso. apply Hnot. unfold labels. apply in_map_iff. exists (k, t). auto.
    + apply IH; assumption.
Qed.

Lemma loc_labels {T} (m : frame T) ks o : loc m ks = Some o -> labels o = ks.
Proof.
  revert o. induction ks as [|k r IH]; simpl; intros o H.
  - inversion H. reflexivity.
  - destruct (loc1 m k); [|discriminate]. destruct (loc m r); [|discriminate].
    inversion H. simpl. f_equal. apply IH. reflexivity.
Qed.

(* the row .loc returns for a label is the row the frame holds under that label *)
Lemma loc1_loc {T} (m : frame T) ks o k : loc m ks = Some o -> In k ks -> loc1 o k = loc1 m k.
Proof.
  revert o. induction ks as [|k0 r IH]; simpl; intros o H Hin; [tauto|].
  destruct (loc1 m k0) eqn:E1; [|discriminate]. destruct (loc m r) eqn:E2; [|discriminate].
  inversion H. subst. simpl. destruct (k0 =? k) eqn:E.
  - apply Z.eqb_eq in E. subst. symmetry. exact E1.
  - destruct Hin as [->|Hin]; [rewrite Z.eqb_refl in E; discriminate|]. apply IH; auto.
Qed.

Lemma loc_rows {T} (m : frame T) ks o : loc m ks = Some o ->
  Forall2 (fun k t => loc1 m k = Some t) ks (rows o).
Proof.
  revert o. induction ks as [|k r IH]; simpl; intros o H.
  - inversion H. constructor.
  - destruct (loc1 m k) eqn:E1; [|discriminate]. destruct (loc m r) eqn:E2; [|discriminate].
    inversion H. subst. simpl. constructor; [exact E1|]. apply IH. reflexivity.
Qed.

(* on a RangeIndex frame, loc by label IS iloc by position *)
Lemma loc1_combine_seq {T} (ts : list T) : forall a k,
  loc1 (combine (map Z.of_nat (seq a (length ts))) ts) k
  = if (Z.of_nat a <=? k) then nth_error ts (Z.to_nat k - a) else None.
Proof.
  induction ts as [|t r IH]; intros a k; simpl.
  - destruct (Z.of_nat a <=? k); [|reflexivity]. destruct (Z.to_nat k - a)%nat; reflexivity.
  - destruct (Z.of_nat a =? k) eqn:E.
    + apply Z.eqb_eq in E. subst. rewrite Z.leb_refl, Nat2Z.id, Nat.sub_diag. reflexivity.
    + rewrite IH. destruct (Z.of_nat (S a) <=? k) eqn:E1; destruct (Z.of_nat a <=? k) eqn:E2; try lia; [|reflexivity].
      replace (Z.to_nat k - a)%nat with (S (Z.to_nat k - S a)) by lia. reflexivity.
Qed.

Lemma loc1_range_frame {T} (ts : list T) k :
  loc1 (range_frame ts) k = if 0 <=? k then nth_error ts (Z.to_nat k) else None.
Proof. unfold range_frame, rangeZ. rewrite loc1_combine_seq. simpl. rewrite Nat.sub_0_r. reflexivity. Qed.

Lemma loc_range_frame {T} (ts : list T) ks : Forall (fun k => 0 <= k) ks ->
  option_map rows (loc (range_frame ts) ks) = sel ts (map Z.to_nat ks).
Proof.
  induction 1 as [|k r Hk _ IH]; simpl; [reflexivity|].
  rewrite loc1_range_frame. destruct (0 <=? k) eqn:E; [|lia].
  destruct (nth_error ts (Z.to_nat k)); simpl.
  - destruct (loc (range_frame ts) r), (sel ts (map Z.to_nat r)); simpl in *; try discriminate; [|reflexivity].
    inversion IH. reflexivity.
  - destruct (loc (range_frame ts) r); reflexivity.
Qed.

Lemma frame_is_range {T} (m : frame T) : labels m = rangeZ (length m) -> m = range_frame (rows m).
Proof.
  intros H. unfold range_frame, rows. rewrite map_length, <- H. unfold labels.
  clear H. induction m as [|[l t] r IH]; simpl; [reflexivity|]. f_equal. exact IH.
Qed.

Lemma iloc_rows {T} (m : frame T) ps : option_map rows (iloc m ps) = sel (rows m) ps.
Proof. unfold iloc, rows. rewrite sel_map. reflexivity. Qed.

(* ================================================================== *)
(* 2. the constructor keeps metadata only when output interval i is input interval i *)

Lemma nowarn_fix_pending l : forall s e,
  warn_go (Some (s, e, e)) l = false -> fix_go (Some (s, e, e)) l = trim_touch ((s, e) :: l).
Proof.
  induction l as [|[s' e'] r IH]; intros s e H.
  - simpl in *. unfold close_pending. destruct (s <? e); [reflexivity|discriminate].
  - cbn [warn_go] in H. cbn [fix_go].
    destruct (s' <? e) eqn:E1; [discriminate|].
    apply orb_false_iff in H. destruct H as [H1 H2].
    destruct (e' <=? s') eqn:E2; [discriminate|].
    rewrite (IH _ _ H2). unfold close_pending.
    cbn [trim_touch]. destruct (e =? s') eqn:E3.
    + destruct (s <? e - us) eqn:E4; [reflexivity|discriminate].
    + destruct (s <? e) eqn:E4; [reflexivity|discriminate].
Qed.

Lemma nowarn_fix l : fix_warn l = false -> fix_iset l = trim_touch l.
Proof.
  unfold fix_warn, fix_iset. destruct l as [|[s e] r]; [reflexivity|].
  cbn [warn_go fix_go]. destruct (e <=? s); [discriminate|]. apply nowarn_fix_pending.
Qed.

Lemma trim_touch_length l : length (trim_touch l) = length l.
Proof. induction l as [|[s e] r IH]; simpl; [reflexivity|]. f_equal. exact IH. Qed.

Lemma trim_touch_spec l :
  Forall2 (fun o i => fst o = fst i /\ (snd o = snd i \/ snd o = snd i - us)) (trim_touch l) l.
Proof.
  induction l as [|[s e] r IH]; simpl; constructor; [|exact IH].
  simpl. split; [reflexivity|]. destruct r as [|[s' e'] r']; [left; reflexivity|].
  destruct (e =? s'); [right|left]; reflexivity.
Qed.

Lemma strict_from_sorted l : forall lo, strict_from lo l = true -> sorted_from lo l.
Proof.
  induction l as [|x r IH]; simpl; intros lo H; [exact I|].
  apply andb_true_iff in H. destruct H as [H1 H2]. split; [lia|]. apply IH. exact H2.
Qed.

Lemma strict_incb_sorted l : strict_incb l = true -> sortedZ l.
Proof. destruct l as [|x r]; simpl; [auto|]. apply strict_from_sorted. Qed.

Lemma combine_fst_snd {A B} (l : list (A * B)) : combine (map fst l) (map snd l) = l.
Proof. induction l as [|[a b] r IH]; simpl; [reflexivity|]. f_equal. exact IH. Qed.

(* whenever the constructor attaches the metadata it was given, its output is the input list,
   interval by interval (ends possibly 1 us shorter), so row i still describes interval i *)
Theorem mk_miset_kept {T} (l : list (Z * Z)) (m : frame T) out m' :
  mk_miset l m = Kept out m' ->
  m' = m /\ out = trim_touch l /\ labels m = rangeZ (length l).
Proof.
  unfold mk_miset. intros H.
  destruct (strict_incb (map fst l)) eqn:E1; [|discriminate].
  destruct (strict_incb (map snd l)) eqn:E2; [|discriminate].
  rewrite (sortedZ_sortZ_id _ (strict_incb_sorted _ E1)), (sortedZ_sortZ_id _ (strict_incb_sorted _ E2)), combine_fst_snd in H.
  simpl in H. destruct (fix_warn l) eqn:E3; [discriminate|]. simpl in H.
  rewrite (nowarn_fix _ E3) in H.
  destruct (list_eqb (labels m) (rangeZ (length (trim_touch l)))) eqn:E4; [|discriminate].
  inversion H. subst. apply list_eqb_eq in E4. rewrite trim_touch_length in E4. auto.
Qed.

(* ... and it never attaches them to unsorted or repaired input *)
Theorem mk_miset_drops {T} (l : list (Z * Z)) (m : frame T) :
  strict_incb (map fst l) = false \/ strict_incb (map snd l) = false
  \/ fix_warn (combine (sortZ (map fst l)) (sortZ (map snd l))) = true ->
  exists out, mk_miset l m = Dropped out.
Proof.
  unfold mk_miset. intros [H|[H|H]]; rewrite H; simpl; rewrite ?andb_false_r; simpl; eauto.
Qed.

Lemma strict_from_weaken l lo lo' : lo' <= lo -> strict_from lo l = true -> strict_from lo' l = true.
Proof.
  destruct l as [|x r]; simpl; [auto|]. intros H H1. apply andb_true_iff in H1. destruct H1 as [H1 H2].
  apply andb_true_iff. split; [lia|exact H2].
Qed.

Lemma canon_strict A : forall lo, canon lo A -> strict_from lo (starts A) = true /\ strict_from lo (ends A) = true.
Proof.
  induction A as [|[s e] r IH]; intros lo H; simpl; [auto|].
  destruct H as (H1 & H2 & H3). destruct (IH e H3) as [I1 I2].
  split; apply andb_true_iff; split; try lia; auto.
  apply (strict_from_weaken _ e); [lia|exact I1].
Qed.

Lemma canonical_strict A : canonical A -> strict_incb (starts A) = true /\ strict_incb (ends A) = true.
Proof.
  destruct A as [|[s e] r]; simpl; [auto|]. intros H.
  pose proof (canonical_canon_tail _ _ _ H) as Hc. destruct H as (H1 & _ & _).
  destruct (canon_strict r e Hc) as [I1 I2]. split; [|exact I2].
  apply (strict_from_weaken _ e); [lia|exact I1].
Qed.

Lemma warn_go_canon A : forall lo, canon lo A ->
  warn_go None A = false /\ (forall ns, ns < lo -> warn_go (Some (ns, lo, lo)) A = false).
Proof.
  induction A as [|[s e] r IH]; intros lo H.
  - simpl. split; [reflexivity|]. intros ns Hns. destruct (ns <? lo) eqn:E; [reflexivity|lia].
  - destruct H as (H1 & H2 & H3). destruct (IH e H3) as [I1 I2].
    split.
    + cbn [warn_go]. destruct (e <=? s) eqn:E; [lia|]. apply I2. exact H2.
    + intros ns Hns. cbn [warn_go]. destruct (s <? lo) eqn:E; [lia|].
      destruct (lo =? s) eqn:E3; [lia|]. destruct (ns <? lo) eqn:E4; [|lia].
      destruct (e <=? s) eqn:E2; [lia|]. simpl. apply I2. exact H2.
Qed.

(* canonical intervals with a matching RangeIndex frame are attached as they are *)
Theorem mk_miset_canonical {T} (A : iset) (m : frame T) :
  canonical A -> labels m = rangeZ (length A) -> mk_miset A m = Kept A m.
Proof.
  intros Hc Hl. unfold mk_miset.
  destruct (canonical_strict A Hc) as [S1 S2]. unfold starts, ends in *. rewrite S1, S2.
  rewrite (sortedZ_sortZ_id _ (strict_incb_sorted _ S1)), (sortedZ_sortZ_id _ (strict_incb_sorted _ S2)), combine_fst_snd.
  destruct (canonical_canon _ Hc) as [lo Hlo].
  unfold fix_warn. rewrite (proj1 (warn_go_canon A lo Hlo)). simpl.
  unfold fix_iset. rewrite (proj1 (fix_go_canon_id A lo Hlo)).
  rewrite Hl. replace (list_eqb (rangeZ (length A)) (rangeZ (length A))) with true; [reflexivity|].
  symmetry. apply list_eqb_eq. reflexivity.
Qed.

(* ================================================================== *)
(* 3. IntervalSet.__getitem__                                          *)

Definition wf_tiset {T} (o : tiset T) : Prop :=
  canonical (fst o) /\ labels (snd o) = rangeZ (length (fst o)).

Lemma wf_tiset_length {T} (o : tiset T) : wf_tiset o -> length (snd o) = length (fst o).
Proof.
  intros [_ H]. apply (f_equal (@length Z)) in H. unfold labels in H.
  rewrite map_length, rangeZ_length in H. exact H.
Qed.

Lemma Forall2_nth_l {A B} (R : A -> B -> Prop) l1 l2 : Forall2 R l1 l2 ->
  forall i x, nth_error l1 i = Some x -> exists y, nth_error l2 i = Some y /\ R x y.
Proof.
  induction 1 as [|a b l1 l2 Hab _ IH]; intros i x Hi; destruct i; simpl in *; try discriminate.
  - inversion Hi. subst. eauto.
  - eapply IH. exact Hi.
Qed.

(* every positional key: the result is the positional selection of intervals AND of rows with the
   same positions *)
Theorem iset_get_pos_kept {T} (o : tiset T) ps out m :
  iset_get_pos o ps = Kept out m ->
  exists iv tags, sel (fst o) ps = Some iv /\ sel (rows (snd o)) ps = Some tags
                  /\ out = trim_touch iv /\ m = range_frame tags.
Proof.
  unfold iset_get_pos. destruct (sel (fst o) ps) as [iv|] eqn:E1; [|discriminate].
  destruct (iloc (snd o) ps) as [m0|] eqn:E2; [|discriminate]. intros H.
  apply mk_miset_kept in H. destruct H as (H1 & H2 & H3).
  exists iv, (rows m0). repeat split; auto.
  rewrite <- iloc_rows, E2. reflexivity.
Qed.

(* pointwise: output interval i IS input interval ps[i] (end possibly trimmed) and carries ITS tag *)
Theorem iset_get_pos_pointwise {T} (o : tiset T) ps out m :
  iset_get_pos o ps = Kept out m ->
  forall i s e', nth_error out i = Some (s, e') ->
    exists p e t, nth_error ps i = Some p /\ nth_error (fst o) p = Some (s, e) /\ (e' = e \/ e' = e - us)
                  /\ nth_error (rows (snd o)) p = Some t /\ loc1 m (Z.of_nat i) = Some t.
Proof.
  intros H i s e' Hi. destruct (iset_get_pos_kept _ _ _ _ H) as (iv & tags & H1 & H2 & H3 & H4). subst.
  destruct (Forall2_nth_l _ _ _ (trim_touch_spec iv) _ _ Hi) as ([s0 e] & Hiv & Hs & He). simpl in *. subst s0.
  destruct (sel_nth _ _ _ H1 _ _ Hiv) as (p & Hp & Hpo).
  assert (Hlen : (i < length tags)%nat).
  { rewrite (sel_length _ _ _ H2), <- (sel_length _ _ _ H1). apply nth_error_Some. congruence. }
  destruct (nth_error tags i) as [t|] eqn:Et; [|apply nth_error_None in Et; lia].
  destruct (sel_nth _ _ _ H2 _ _ Et) as (p' & Hp' & Hpt).
  assert (p' = p) by congruence. subst p'.
  exists p, e, t. repeat split; auto.
  rewrite loc1_range_frame. destruct (0 <=? Z.of_nat i) eqn:E; [|lia]. rewrite Nat2Z.id. exact Et.
Qed.

(* order-preserving keys (int, positive-step slice, mask, sorted list): nothing is trimmed or dropped *)
Fixpoint inc_from (k : nat) (ps : list nat) : Prop :=
  match ps with [] => True | p :: r => (k <= p)%nat /\ inc_from (S p) r end.

Inductive sub {A} : list A -> list A -> Prop :=
| sub_nil l : sub [] l
| sub_skip x l1 l2 : sub l1 l2 -> sub l1 (x :: l2)
| sub_take x l1 l2 : sub l1 l2 -> sub (x :: l1) (x :: l2).

Lemma canon_sub iv A : sub iv A -> forall lo, canon lo A -> canon lo iv.
Proof.
  induction 1 as [l|[s e] l1 l2 _ IH|[s e] l1 l2 _ IH]; intros lo H.
  - exact I.
  - destruct H as (H1 & H2 & H3). apply IH. eapply canon_weaken; [|exact H3]. lia.
  - destruct H as (H1 & H2 & H3). simpl. repeat split; auto.
Qed.

Lemma inc_from_S k ps : inc_from (S k) ps -> exists ps', ps = map S ps' /\ inc_from k ps'.
Proof.
  revert k. induction ps as [|p r IH]; intros k H.
  - exists []. split; [reflexivity|exact I].
  - destruct H as [H1 H2]. destruct p as [|p']; [lia|].
    destruct (IH _ H2) as (r' & -> & Hr'). exists (p' :: r'). split; [reflexivity|].
    simpl. split; [lia|exact Hr'].
Qed.

Lemma sel_cons_S {A} (x : A) l ps : sel (x :: l) (map S ps) = sel l ps.
Proof. induction ps as [|p r IH]; simpl; [reflexivity|]. rewrite IH. reflexivity. Qed.

Lemma sel_inc_sub {A} (l : list A) : forall ps o, inc_from 0 ps -> sel l ps = Some o -> sub o l.
Proof.
  induction l as [|x l' IH]; intros ps o Hinc H.
  - destruct ps as [|p r]; simpl in H.
    + inversion H. constructor.
    + destruct p; discriminate.
  - destruct ps as [|p r].
    + inversion H. constructor.
    + destruct Hinc as [_ Hinc]. destruct p as [|p'].
      * destruct (inc_from_S _ _ Hinc) as (r' & -> & Hr').
        simpl in H. rewrite sel_cons_S in H. destruct (sel l' r') as [o'|] eqn:E; [|discriminate].
        inversion H. subst. apply sub_take. eapply IH; eassumption.
      * destruct (inc_from_S _ _ Hinc) as (r' & -> & Hr').
        change (S p' :: map S r') with (map S (p' :: r')) in H. rewrite sel_cons_S in H.
        apply sub_skip. eapply (IH (p' :: r')); [|exact H]. simpl. split; [lia|exact Hr'].
Qed.

Lemma sel_same_length {A B} (l1 : list A) (l2 : list B) ps o1 :
  length l1 = length l2 -> sel l1 ps = Some o1 -> exists o2, sel l2 ps = Some o2.
Proof.
  intros Hl. revert o1. induction ps as [|p r IH]; simpl; intros o1 H; [eauto|].
  destruct (nth_error l1 p) eqn:E1; [|discriminate]. destruct (sel l1 r) eqn:E2; [|discriminate].
  destruct (IH _ eq_refl) as [o2 ->].
  destruct (nth_error l2 p) eqn:E3; [eauto|].
  apply nth_error_None in E3. assert (p < length l1)%nat by (apply nth_error_Some; congruence). lia.
Qed.

Theorem iset_get_pos_increasing {T} (o : tiset T) ps iv :
  wf_tiset o -> inc_from 0 ps -> sel (fst o) ps = Some iv ->
  exists tags, sel (rows (snd o)) ps = Some tags /\ iset_get_pos o ps = Kept iv (range_frame tags).
Proof.
  intros Hwf Hinc Hsel. pose proof (wf_tiset_length _ Hwf) as Hlen. destruct Hwf as [Hc Hl].
  destruct (sel_same_length (fst o) (snd o) ps iv (eq_sym Hlen) Hsel) as [m0 Hm0].
  exists (rows m0). split; [rewrite <- iloc_rows; unfold iloc; rewrite Hm0; reflexivity|].
  unfold iset_get_pos, iloc. rewrite Hsel, Hm0. unfold reset_index.
  apply mk_miset_canonical.
  - destruct (canonical_canon _ Hc) as [lo Hlo]. eapply canon_canonical.
    eapply canon_sub; [|exact Hlo]. eapply sel_inc_sub; eassumption.
  - rewrite labels_range_frame. unfold rows. rewrite map_length.
    rewrite (sel_length _ _ _ Hm0), (sel_length _ _ _ Hsel). reflexivity.
Qed.

(* pd.Index / integer pd.Series keys use .loc: on the 0..n-1 index that IS the positional selection *)
Theorem iset_get_labels_orig_eq_pos {T} (o : tiset T) ks :
  wf_tiset o -> Forall (fun k => 0 <= k) ks -> iset_get_labels_orig o ks = iset_get_pos o (map Z.to_nat ks).
Proof.
  intros Hwf Hk. pose proof (wf_tiset_length _ Hwf) as Hlen. destruct Hwf as [Hc Hl].
  unfold iset_get_labels_orig, iset_get_pos.
  replace (forallb (fun k => 0 <=? k) ks) with true
    by (symmetry; apply forallb_forall; intros k Hin; rewrite Forall_forall in Hk; specialize (Hk _ Hin); lia).
  destruct (sel (fst o) (map Z.to_nat ks)) as [iv|]; [|reflexivity].
  assert (Hm : snd o = range_frame (rows (snd o))) by (apply frame_is_range; rewrite Hl, Hlen; reflexivity).
  pose proof (loc_range_frame (rows (snd o)) ks Hk) as H1. rewrite <- Hm in H1.
  pose proof (iloc_rows (snd o) (map Z.to_nat ks)) as H2. rewrite <- H1 in H2.
  destruct (loc (snd o) ks) as [m1|], (iloc (snd o) (map Z.to_nat ks)) as [m2|]; simpl in H2; try discriminate; [|reflexivity].
  inversion H2. unfold reset_index. rewrite H0. reflexivity.
Qed.

(* boolean pd.Series: values by position, metadata aligned by label.  With the mask's index equal
   to the object's index the two coincide ... *)
Lemma sel_filter_idx {A} (suf : list A) : forall pre bits,
  length bits = length suf ->
  sel (pre ++ suf) (filter_idx (fun b : bool => b) (length pre) bits) = Some (map snd (filter fst (combine bits suf))).
Proof.
  induction suf as [|t r IH]; intros pre bits Hl; destruct bits as [|b br]; simpl in Hl; try discriminate; [reflexivity|].
  assert (Hr : sel (pre ++ t :: r) (filter_idx (fun b : bool => b) (S (length pre)) br) = Some (map snd (filter fst (combine br r)))).
  { replace (pre ++ t :: r) with ((pre ++ [t]) ++ r) by (rewrite <- app_assoc; reflexivity).
    replace (S (length pre)) with (length (pre ++ [t])) by (rewrite app_length; simpl; lia).
    apply IH. lia. }
  simpl. destruct b; simpl.
  - rewrite nth_error_app2, Nat.sub_diag by lia. simpl. rewrite Hr. reflexivity.
  - exact Hr.
Qed.

Lemma loc_mask_seq {T} (suf : list T) : forall a bits mask,
  length bits = length suf ->
  (forall j, (j < length suf)%nat -> lookup mask (Z.of_nat (a + j)) = nth_error bits j) ->
  option_map rows (loc_mask (combine (map Z.of_nat (seq a (length suf))) suf) mask)
  = Some (map snd (filter fst (combine bits suf))).
Proof.
  induction suf as [|t r IH]; intros a bits mask Hl Hm; destruct bits as [|b br]; simpl in Hl; try discriminate; [reflexivity|].
  simpl. pose proof (Hm 0%nat ltac:(simpl; lia)) as H0. rewrite Nat.add_0_r in H0. simpl in H0. rewrite H0.
  specialize (IH (S a) br mask ltac:(lia)).
  assert (Hm' : forall j, (j < length r)%nat -> lookup mask (Z.of_nat (S a + j)) = nth_error br j).
  { intros j Hj. specialize (Hm (S j) ltac:(simpl; lia)). simpl in Hm. rewrite <- Hm. f_equal. lia. }
  specialize (IH Hm').
  destruct (loc_mask (combine (map Z.of_nat (seq (S a) (length r))) r) mask) as [o'|]; simpl in IH; [|discriminate].
  inversion IH. destruct b; simpl; rewrite H1; reflexivity.
Qed.

Theorem iset_get_bseries_orig_aligned {T} (o : tiset T) mask :
  wf_tiset o -> map fst mask = rangeZ (length (fst o)) ->
  iset_get_bseries_orig o mask = iset_get_pos o (mask_pos (map snd mask)).
Proof.
  intros Hwf Hmask. pose proof (wf_tiset_length _ Hwf) as Hlen. destruct Hwf as [Hc Hl].
  assert (Hml : length mask = length (fst o)).
  { apply (f_equal (@length Z)) in Hmask. rewrite map_length, rangeZ_length in Hmask. exact Hmask. }
  unfold iset_get_bseries_orig, iset_get_pos. rewrite Hml, Nat.eqb_refl.
  destruct (sel (fst o) (mask_pos (map snd mask))) as [iv|]; [|reflexivity].
  assert (Hm : snd o = range_frame (rows (snd o))) by (apply frame_is_range; rewrite Hl, Hlen; reflexivity).
  assert (Hmk : mask = range_frame (map snd mask)).
  { apply (frame_is_range mask). unfold labels. rewrite Hmask, Hml. reflexivity. }
  set (ts := rows (snd o)) in *. set (bits := map snd mask) in *.
  assert (Hbl : length bits = length ts) by (unfold bits, ts, rows; rewrite !map_length; lia).
  assert (H1 : option_map rows (loc_mask (snd o) mask) = Some (map snd (filter fst (combine bits ts)))).
  { rewrite Hm. unfold range_frame at 1. unfold rangeZ. apply loc_mask_seq; [exact Hbl|].
    intros j Hj. simpl. unfold lookup. rewrite Hmk, loc1_range_frame.
    destruct (0 <=? Z.of_nat j) eqn:E; [|lia]. rewrite Nat2Z.id. reflexivity. }
  assert (H2 : option_map rows (iloc (snd o) (mask_pos bits)) = Some (map snd (filter fst (combine bits ts)))).
  { rewrite iloc_rows. fold ts. unfold mask_pos. apply (sel_filter_idx ts [] bits Hbl). }
  destruct (loc_mask (snd o) mask) as [m1|]; simpl in H1; [|discriminate].
  destruct (iloc (snd o) (mask_pos bits)) as [m2|]; simpl in H2; [|discriminate].
  unfold reset_index. congruence.
Qed.

(* ... but a mask whose index is in another order (a condition on sorted metadata) is applied by
   position to the intervals and by label to the metadata: the faithful model attaches a wrong tag *)
Theorem iset_get_bseries_orig_refuted :
  exists (o : tiset Z) mask out m,
    wf_tiset o /\ Permutation (map fst mask) (rangeZ (length (fst o)))
    /\ iset_get_bseries_orig o mask = Kept out m
    /\ exists s e t p, nth_error out 0 = Some (s, e) /\ loc1 m 0 = Some t
                       /\ nth_error (fst o) p = Some (s, e) /\ nth_error (rows (snd o)) p <> Some t.
Proof.
  exists ([(0, 10); (20, 30)], range_frame [100; 200]), [(1, true); (0, false)], [(0, 10)], [(0, 200)].
  split; [split; [simpl; lia|reflexivity]|]. split; [apply perm_swap|]. split; [vm_compute; reflexivity|].
  exists 0, 10, 200, 0%nat. repeat split; try reflexivity. simpl. intros H. discriminate H.
Qed.

(* ---- the two pandas-key forms as repaired: positional for intervals AND rows ---- *)
Theorem iset_get_labels_pointwise {T} (o : tiset T) ks out m :
  iset_get_labels o ks = Kept out m ->
  exists ps, wrap_all (length (fst o)) ks = Some ps /\
  forall i s e', nth_error out i = Some (s, e') ->
    exists p e t, nth_error ps i = Some p /\ nth_error (fst o) p = Some (s, e) /\ (e' = e \/ e' = e - us)
                  /\ nth_error (rows (snd o)) p = Some t /\ loc1 m (Z.of_nat i) = Some t.
Proof.
  unfold iset_get_labels. destruct (wrap_all (length (fst o)) ks) as [ps|]; [|discriminate].
  intros H. exists ps. split; [reflexivity|]. exact (iset_get_pos_pointwise _ _ _ _ H).
Qed.

Lemma inc_from_weaken ps : forall k k', (k' <= k)%nat -> inc_from k ps -> inc_from k' ps.
Proof. destruct ps as [|p r]; simpl; [auto|]. intros k k' H [H1 H2]. split; [lia|exact H2]. Qed.

Lemma filter_idx_inc {A} (f : A -> bool) l : forall i, inc_from i (filter_idx f i l).
Proof.
  induction l as [|x r IH]; intros i; simpl; [exact I|].
  destruct (f x); simpl.
  - split; [lia|apply IH].
  - eapply inc_from_weaken; [|apply IH]. lia.
Qed.

(* boolean pd.Series with ANY index order: exactly the intervals at the True positions, each with
   the row it had; nothing trimmed, nothing dropped *)
Theorem iset_get_bseries_total {T} (o : tiset T) mask :
  wf_tiset o -> length mask = length (fst o) ->
  iset_get_bseries o mask
  = Kept (map snd (filter fst (combine (map snd mask) (fst o))))
         (range_frame (map snd (filter fst (combine (map snd mask) (rows (snd o)))))).
Proof.
  intros Hwf Hl. pose proof (wf_tiset_length _ Hwf) as Hlen.
  unfold iset_get_bseries. rewrite Hl, Nat.eqb_refl.
  set (bits := map snd mask).
  assert (Hb1 : length bits = length (fst o)) by (unfold bits; rewrite map_length; exact Hl).
  assert (Hb2 : length bits = length (rows (snd o))) by (unfold rows; rewrite map_length; lia).
  pose proof (sel_filter_idx (fst o) [] bits Hb1) as S1. simpl in S1. fold (mask_pos bits) in S1.
  pose proof (sel_filter_idx (rows (snd o)) [] bits Hb2) as S2. simpl in S2. fold (mask_pos bits) in S2.
  destruct (iset_get_pos_increasing o (mask_pos bits) _ Hwf (filter_idx_inc _ bits 0%nat) S1) as (tags & Ht & Hres).
  rewrite Hres. rewrite S2 in Ht. inversion Ht. reflexivity.
Qed.

Theorem iset_get_bseries_index_irrelevant {T} (o : tiset T) mask mask' :
  map snd mask = map snd mask' -> iset_get_bseries o mask = iset_get_bseries o mask'.
Proof.
  intros H. unfold iset_get_bseries. rewrite <- H.
  replace (length mask') with (length mask); [reflexivity|].
  rewrite <- (map_length snd mask), H, map_length. reflexivity.
Qed.

(* ================================================================== *)
(* 4. intersect / set_diff: outputs carry the rows of the parents that contain them              *)

Lemma map_to_nat_of_nat l : map Z.to_nat (map Z.of_nat l) = l.
Proof. induction l as [|x r IH]; simpl; [reflexivity|]. rewrite Nat2Z.id, IH. reflexivity. Qed.

Lemma loc_range_some {T} (ts : list T) (ix : list nat) :
  Forall (fun i => (i < length ts)%nat) ix ->
  exists m tags, loc (range_frame ts) (map Z.of_nat ix) = Some m /\ rows m = tags /\ sel ts ix = Some tags.
Proof.
  intros H. destruct (sel_some ts ix H) as [tags Ht].
  assert (Hk : Forall (fun k => 0 <= k) (map Z.of_nat ix)).
  { apply Forall_forall. intros k Hin. apply in_map_iff in Hin. destruct Hin as (i & <- & _). lia. }
  pose proof (loc_range_frame ts _ Hk) as H1. rewrite map_to_nat_of_nat, Ht in H1.
  destruct (loc (range_frame ts) (map Z.of_nat ix)) as [m|]; simpl in H1; [|discriminate].
  inversion H1. eauto.
Qed.

Lemma wf_tiset_range {T} (o : tiset T) : wf_tiset o -> snd o = range_frame (rows (snd o)).
Proof.
  intros Hwf. pose proof (wf_tiset_length _ Hwf) as Hlen. destruct Hwf as [_ Hl].
  apply frame_is_range. rewrite Hl, Hlen. reflexivity.
Qed.

Lemma nth_error_combine {A B} (l1 : list A) (l2 : list B) i x y :
  nth_error l1 i = Some x -> nth_error l2 i = Some y -> nth_error (combine l1 l2) i = Some (x, y).
Proof.
  revert l2 i. induction l1 as [|a r IH]; intros l2 i H1 H2; destruct i, l2; simpl in *; try discriminate.
  - inversion H1. inversion H2. reflexivity.
  - apply IH; assumption.
Qed.

Lemma nth_error_map_inv {A B} (f : A -> B) l i y : nth_error (map f l) i = Some y ->
  exists x, nth_error l i = Some x /\ f x = y.
Proof. rewrite nth_error_map. destruct (nth_error l i); simpl; intros H; inversion H; eauto. Qed.

Lemma sel_nth_fwd {A} (l : list A) ps o : sel l ps = Some o ->
  forall i p, nth_error ps i = Some p -> exists x, nth_error o i = Some x /\ nth_error l p = Some x.
Proof.
  revert o. induction ps as [|p0 r IH]; simpl; intros o H i p Hi; [destruct i; discriminate|].
  destruct (nth_error l p0) eqn:E; [|discriminate]. destruct (sel l r) eqn:E2; [|discriminate].
  inversion H. subst. destruct i; simpl in *.
  - inversion Hi. subst. eauto.
  - eapply IH; [reflexivity|exact Hi].
Qed.

Lemma loc1_range_frame_nat {T} (ts : list T) i : loc1 (range_frame ts) (Z.of_nat i) = nth_error ts i.
Proof. rewrite loc1_range_frame. destruct (0 <=? Z.of_nat i) eqn:E; [|lia]. rewrite Nat2Z.id. reflexivity. Qed.

Theorem iset_intersect_parents {T U} (a : tiset T) (b : tiset U) :
  wf_tiset a -> wf_tiset b ->
  exists m, iset_intersect a b = Kept (k_inter (fst a) (fst b)) m
    /\ forall k s e, nth_error (k_inter (fst a) (fst b)) k = Some (s, e) ->
         exists i j s1 e1 s2 e2 t u,
           nth_error (fst a) i = Some (s1, e1) /\ nth_error (fst b) j = Some (s2, e2)
           /\ s = Z.max s1 s2 /\ e = Z.min e1 e2 /\ s < e
           /\ nth_error (rows (snd a)) i = Some t /\ nth_error (rows (snd b)) j = Some u
           /\ loc1 m (Z.of_nat k) = Some (t, u).
Proof.
  intros Ha Hb. pose proof (wf_tiset_length _ Ha) as La. pose proof (wf_tiset_length _ Hb) as Lb.
  pose proof (inter_parents (fst a) (fst b) (proj1 Ha) (proj1 Hb)) as HP.
  set (r := k_inter_meta (fst a) (fst b)) in *.
  assert (Hia : Forall (fun i => (i < length (rows (snd a)))%nat) (map (fun x => fst (snd x)) r)).
  { apply Forall_forall. intros i Hin. apply in_map_iff in Hin. destruct Hin as ([[s e] [i0 j0]] & <- & Hin).
    rewrite Forall_forall in HP. specialize (HP _ Hin). cbn in HP. destruct HP as (s1 & e1 & s2 & e2 & H1 & _).
    unfold rows. rewrite map_length, La. apply nth_error_Some. simpl. congruence. }
  assert (Hib : Forall (fun i => (i < length (rows (snd b)))%nat) (map (fun x => snd (snd x)) r)).
  { apply Forall_forall. intros i Hin. apply in_map_iff in Hin. destruct Hin as ([[s e] [i0 j0]] & <- & Hin).
    rewrite Forall_forall in HP. specialize (HP _ Hin). cbn in HP. destruct HP as (s1 & e1 & s2 & e2 & _ & H2 & _).
    unfold rows. rewrite map_length, Lb. apply nth_error_Some. simpl. congruence. }
  destruct (loc_range_some _ _ Hia) as (m1 & ta & L1 & R1 & S1).
  destruct (loc_range_some _ _ Hib) as (m2 & tb & L2 & R2 & S2).
  rewrite <- (wf_tiset_range _ Ha) in L1. rewrite <- (wf_tiset_range _ Hb) in L2.
  exists (range_frame (combine ta tb)). split.
  - unfold iset_intersect. fold r. rewrite map_map in L1, L2. rewrite L1, L2, R1, R2.
    apply mk_miset_canonical.
    + apply inter_raw_canonical; [exact (proj1 Ha)|exact (proj1 Hb)].
    + rewrite labels_range_frame, combine_length, (sel_length _ _ _ S1), (sel_length _ _ _ S2), !map_length, Nat.min_id.
      unfold k_inter. fold r. rewrite map_length. reflexivity.
  - intros k s e Hk. unfold k_inter in Hk. fold r in Hk.
    destruct (nth_error_map_inv _ _ _ _ Hk) as ([[s' e'] [i j]] & Hr & Heq). simpl in Heq. inversion Heq. subst s' e'.
    rewrite Forall_forall in HP. pose proof (HP _ (nth_error_In _ _ Hr)) as HPk. cbn in HPk.
    destruct HPk as (s1 & e1 & s2 & e2 & H1 & H2 & H3 & H4 & H5).
    assert (Hi : nth_error (map (fun x => fst (snd x)) r) k = Some i) by (rewrite nth_error_map, Hr; reflexivity).
    assert (Hj : nth_error (map (fun x => snd (snd x)) r) k = Some j) by (rewrite nth_error_map, Hr; reflexivity).
    destruct (sel_nth_fwd _ _ _ S1 _ _ Hi) as (t & Ht1 & Ht2).
    destruct (sel_nth_fwd _ _ _ S2 _ _ Hj) as (u & Hu1 & Hu2).
    exists i, j, s1, e1, s2, e2, t, u. repeat split; auto.
    rewrite loc1_range_frame_nat. apply nth_error_combine; assumption.
Qed.

Theorem iset_set_diff_parents {T} (a : tiset T) (B : iset) :
  wf_tiset a -> canonical B ->
  exists m, iset_set_diff a B = Kept (k_diff (fst a) B) m
    /\ forall k s e, nth_error (k_diff (fst a) B) k = Some (s, e) ->
         exists i s1 e1 t,
           nth_error (fst a) i = Some (s1, e1) /\ s1 <= s /\ e <= e1 /\ s < e
           /\ nth_error (rows (snd a)) i = Some t /\ loc1 m (Z.of_nat k) = Some t.
Proof.
  intros Ha Hb. pose proof (wf_tiset_length _ Ha) as La.
  pose proof (diff_parents (fst a) B (proj1 Ha) Hb) as HP.
  set (r := k_diff_meta (fst a) B) in *.
  assert (Hia : Forall (fun i => (i < length (rows (snd a)))%nat) (map (fun x => snd x) r)).
  { apply Forall_forall. intros i Hin. apply in_map_iff in Hin. destruct Hin as ([[s e] i0] & <- & Hin).
    rewrite Forall_forall in HP. specialize (HP _ Hin). cbn in HP. destruct HP as (I & H1 & _).
    unfold rows. rewrite map_length, La. apply nth_error_Some. simpl. congruence. }
  destruct (loc_range_some _ _ Hia) as (m1 & ta & L1 & R1 & S1).
  rewrite <- (wf_tiset_range _ Ha) in L1.
  exists (range_frame ta). split.
  - unfold iset_set_diff. fold r. rewrite map_map in L1. rewrite L1. unfold reset_index. rewrite R1.
    apply mk_miset_canonical.
    + apply diff_raw_canonical; [exact (proj1 Ha)|exact Hb].
    + rewrite labels_range_frame, (sel_length _ _ _ S1), !map_length.
      unfold k_diff. fold r. rewrite map_length. reflexivity.
  - intros k s e Hk. unfold k_diff in Hk. fold r in Hk.
    destruct (nth_error_map_inv _ _ _ _ Hk) as ([[s' e'] i] & Hr & Heq). simpl in Heq. inversion Heq. subst s' e'.
    rewrite Forall_forall in HP. pose proof (HP _ (nth_error_In _ _ Hr)) as HPk. cbn in HPk.
    destruct HPk as ([s1 e1] & H1 & [H2 H3] & H4). simpl in H2, H3.
    assert (Hi : nth_error (map (fun x => snd x) r) k = Some i) by (rewrite nth_error_map, Hr; reflexivity).
    destruct (sel_nth_fwd _ _ _ S1 _ _ Hi) as (t & Ht1 & Ht2).
    exists i, s1, e1, t. repeat split; auto.
    rewrite loc1_range_frame_nat. exact Ht1.
Qed.

(* operations that build their result without metadata never return any *)
Theorem drops_not_misattaches {T U} (a : tiset T) (b : tiset U) thr :
  (exists iv, iset_union_meta a b = Dropped iv)
  /\ (forall iv m, iset_time_span a <> Kept iv m)
  /\ (exists iv, iset_merge_close a thr = Dropped iv).
Proof.
  split; [unfold iset_union_meta; eauto|]. split.
  - intros iv m. unfold iset_time_span. destruct (fst a) as [|[s e] r]; discriminate.
  - unfold iset_merge_close. destruct (fst a) as [|[s e] r]; eauto.
Qed.

(* ================================================================== *)
(* 5. split: every piece lies inside the parent whose row it repeats                             *)

Lemma canon_app L1 : forall lo hi L2,
  canon lo L1 -> Forall (fun p => snd p <= hi) L1 -> lo <= hi -> canon hi L2 -> canon lo (L1 ++ L2).
Proof.
  induction L1 as [|[s e] r IH]; intros lo hi L2 H1 HF Hle H2; simpl.
  - eapply canon_weaken; [|exact H2]. exact Hle.
  - destruct H1 as (A1 & A2 & A3). inversion HF as [|? ? Hh Ht]. subst. simpl in Hh.
    repeat split; auto. eapply IH; eauto.
Qed.

Definition trim_piece (p : Z * Z) : Z * Z := (fst p, snd p - us).

Lemma pieces_facts fuel : forall s e b lo, us < b -> lo < s ->
  let L := map trim_piece (filter (fun p => b <=? snd p - fst p) (pieces fuel s e b)) in
  canon lo L /\ Forall (fun p => s <= fst p /\ snd p + us <= e /\ fst p < snd p) L.
Proof.
  induction fuel as [|f IH]; intros s e b lo Hb Hlo; simpl; [split; [exact I|constructor]|].
  destruct (s <? e) eqn:E; simpl; [|split; [exact I|constructor]].
  assert (Hus : 0 < us) by (unfold us; lia).
  destruct (b <=? Z.min (s + b) e - s) eqn:K; simpl.
  - destruct (IH (s + b) e b (Z.min (s + b) e - us) Hb ltac:(lia)) as [I1 I2].
    split.
    + repeat split; try lia. exact I1.
    + constructor; [simpl; lia|]. eapply Forall_impl'; [|exact I2]. simpl. intros p. lia.
  - destruct (IH (s + b) e b lo Hb ltac:(lia)) as [I1 I2].
    split; [exact I1|]. eapply Forall_impl'; [|exact I2]. simpl. intros p. lia.
Qed.

Lemma map_fst_pieces (X : list (Z * Z)) (i : nat) :
  map fst (map (fun p => (fst p, snd p - us, i)) X) = map trim_piece X.
Proof. rewrite map_map. apply map_ext. intros p. reflexivity. Qed.

Lemma split_go_canon A : forall lo i b, canon lo A -> us < b -> canon lo (map fst (split_go A i b)).
Proof.
  induction A as [|[s e] r IH]; intros lo i b H Hb; simpl; [exact I|].
  destruct H as (H1 & H2 & H3). rewrite map_app.
  apply (canon_app _ lo e).
  - destruct (b <? e - s); [|exact I]. rewrite map_fst_pieces. unfold split_one.
    apply (proj1 (pieces_facts _ s e b lo Hb H1)).
  - destruct (b <? e - s); [|constructor]. rewrite map_fst_pieces. unfold split_one.
    eapply Forall_impl'; [|exact (proj2 (pieces_facts _ s e b lo Hb H1))]. simpl. intros p.
    assert (0 < us) by (unfold us; lia). lia.
  - lia.
  - apply IH; assumption.
Qed.

Definition split_parent_ok (A : iset) (i : nat) (r : Z * Z * nat) : Prop :=
  let '(s, e, i0) := r in
  (i <= i0)%nat /\ exists s0 e0, nth_error A (i0 - i) = Some (s0, e0) /\ s0 <= s /\ e + us <= e0 /\ s < e.

Lemma split_go_parents A : forall i b, us < b -> Forall (split_parent_ok A i) (split_go A i b).
Proof.
  induction A as [|[s e] r IH]; intros i b Hb; simpl; [constructor|].
  apply Forall_app. split.
  - destruct (b <? e - s); [|constructor]. apply Forall_forall. intros x Hin.
    apply in_map_iff in Hin. destruct Hin as (p & <- & Hp).
    pose proof (proj2 (pieces_facts (Z.to_nat ((e - s) / b + 1)) s e b (s - 1) Hb ltac:(lia))) as HF.
    rewrite Forall_forall in HF. specialize (HF (trim_piece p) (in_map _ _ _ Hp)). simpl in HF.
    split; [lia|]. exists s, e. rewrite Nat.sub_diag. simpl. repeat split; lia.
  - eapply Forall_impl'; [|exact (IH (S i) b Hb)]. intros [[s' e'] i0]. simpl.
    intros (H1 & s0 & e0 & H2 & H3). split; [lia|]. exists s0, e0.
    replace (i0 - i)%nat with (S (i0 - S i)) by lia. simpl. exact (conj H2 H3).
Qed.

Theorem iset_split_parents {T} (a : tiset T) b :
  wf_tiset a -> us < b -> fst a <> [] ->
  exists m, iset_split a b = Kept (map fst (split_meta (fst a) b)) m
    /\ forall k s e, nth_error (map fst (split_meta (fst a) b)) k = Some (s, e) ->
         exists i s1 e1 t,
           nth_error (fst a) i = Some (s1, e1) /\ s1 <= s /\ e + us <= e1 /\ s < e
           /\ nth_error (rows (snd a)) i = Some t /\ loc1 m (Z.of_nat k) = Some t.
Proof.
  intros Ha Hb Hne. pose proof (wf_tiset_length _ Ha) as La.
  pose proof (split_go_parents (fst a) 0 b Hb) as HP. fold (split_meta (fst a) b) in HP.
  set (r := split_meta (fst a) b) in *.
  assert (Hia : Forall (fun i => (i < length (rows (snd a)))%nat) (map (fun x => snd x) r)).
  { apply Forall_forall. intros i Hin. apply in_map_iff in Hin. destruct Hin as ([[s e] i0] & <- & Hin).
    rewrite Forall_forall in HP. specialize (HP _ Hin). cbn in HP. destruct HP as (_ & s0 & e0 & H1 & _).
    rewrite Nat.sub_0_r in H1. unfold rows. rewrite map_length, La. apply nth_error_Some. simpl. congruence. }
  destruct (loc_range_some _ _ Hia) as (m1 & ta & L1 & R1 & S1).
  rewrite <- (wf_tiset_range _ Ha) in L1.
  assert (Hcan : canonical (map fst r)).
  { destruct (canonical_canon _ (proj1 Ha)) as [lo Hlo]. eapply canon_canonical.
    unfold r, split_meta. apply split_go_canon; eassumption. }
  exists (range_frame ta). split.
  - unfold iset_split. destruct (fst a) as [|x A'] eqn:EA; [congruence|]. fold r.
    rewrite map_map in L1. rewrite L1. unfold reset_index. rewrite R1.
    apply mk_miset_canonical.
    + exact Hcan.
    + rewrite labels_range_frame, (sel_length _ _ _ S1), !map_length. reflexivity.
  - intros k s e Hk.
    destruct (nth_error_map_inv _ _ _ _ Hk) as ([[s' e'] i] & Hr & Heq). simpl in Heq. inversion Heq. subst s' e'.
    rewrite Forall_forall in HP. pose proof (HP _ (nth_error_In _ _ Hr)) as HPk. cbn in HPk.
    destruct HPk as (_ & s1 & e1 & H1 & H2 & H3 & H4). rewrite Nat.sub_0_r in H1.
    assert (Hi : nth_error (map (fun x => snd x) r) k = Some i) by (rewrite nth_error_map, Hr; reflexivity).
    destruct (sel_nth_fwd _ _ _ S1 _ _ Hi) as (t & Ht1 & Ht2).
    exists i, s1, e1, t. repeat split; auto.
    rewrite loc1_range_frame_nat. exact Ht1.
Qed.

(* ================================================================== *)
(* 6. TsdFrame columns / TsGroup members: (label, data, metadata row) triples                     *)

Definition triples {D T} (o : list (Z * D) * frame T) : list (Z * D * option T) :=
  map (fun c => (fst c, snd c, loc1 (snd o) (fst c))) (fst o).

Definition wf_tframe {D T} (o : tframe D T) : Prop :=
  NoDup (map fst (fst o)) /\ labels (snd o) = map fst (fst o).

Lemma sel_incl {A} (l : list A) ps o : sel l ps = Some o -> incl o l.
Proof.
  intros H x Hin. destruct (In_nth_error _ _ Hin) as [i Hi].
  destruct (sel_nth _ _ _ H _ _ Hi) as (p & _ & Hp). eapply nth_error_In. exact Hp.
Qed.

(* under wf, "the row found by label" is "the row at the column's position" *)
Lemma triples_positional {D T} (o : tframe D T) : wf_tframe o ->
  forall p l d, nth_error (fst o) p = Some (l, d) ->
    exists t, nth_error (snd o) p = Some (l, t) /\ nth_error (triples o) p = Some (l, d, Some t).
Proof.
  intros [Hn Hl] p l d Hp.
  assert (H1 : nth_error (labels (snd o)) p = Some l) by (rewrite Hl, nth_error_map, Hp; reflexivity).
  unfold labels in H1. destruct (nth_error_map_inv _ _ _ _ H1) as ([l' t] & Hm & Heq). simpl in Heq. subst l'.
  exists t. split; [exact Hm|]. unfold triples. rewrite nth_error_map, Hp. simpl.
  rewrite (loc1_nodup_In (snd o) l t); [reflexivity| |eapply nth_error_In; exact Hm].
  rewrite Hl. exact Hn.
Qed.

Lemma mk_tframe_some {D T} (cs : list (Z * D)) (m : frame T) o : mk_tframe cs m = Some o ->
  o = (cs, m) /\ labels m = map fst cs.
Proof.
  unfold mk_tframe. destruct (list_eqb (labels m) (map fst cs)) eqn:E; [|discriminate].
  intros H. inversion H. split; [reflexivity|]. apply list_eqb_eq. exact E.
Qed.

(* every positional column key (list in any order, slice, mask): output column i is input column
   ps[i] with ITS label, ITS data and ITS metadata row *)
Theorem frame_get_pos_attach {D T} (o o' : tframe D T) ps :
  frame_get_pos o ps = Some o' ->
  sel (triples o) ps = Some (triples o') /\ labels (snd o') = map fst (fst o').
Proof.
  unfold frame_get_pos. destruct (sel (fst o) ps) as [cs|] eqn:E1; [|discriminate].
  destruct (loc (snd o) (map fst cs)) as [m|] eqn:E2; [|discriminate]. intros H.
  destruct (mk_tframe_some _ _ _ H) as [-> Hl]. split; [|exact Hl].
  unfold triples at 1. rewrite sel_map, E1. simpl. f_equal. unfold triples. simpl.
  apply map_ext_in. intros c Hc. f_equal. symmetry. eapply loc1_loc; [exact E2|].
  apply in_map. exact Hc.
Qed.

Lemma first_pos_nth cols k : forall p, first_pos cols k = Some p -> nth_error cols p = Some k.
Proof.
  induction cols as [|c r IH]; simpl; intros p H; [discriminate|].
  destruct (c =? k) eqn:E.
  - inversion H. apply Z.eqb_eq in E. subst. reflexivity.
  - destruct (first_pos r k) as [q|]; simpl in H; [|discriminate]. inversion H. simpl. apply IH. reflexivity.
Qed.

Lemma get_indexer_sel cols ks : forall ps, get_indexer cols ks = Some ps -> sel cols ps = Some ks.
Proof.
  induction ks as [|k r IH]; simpl; intros ps H.
  - inversion H. reflexivity.
  - destruct (first_pos cols k) as [p|] eqn:E1; [|discriminate].
    destruct (get_indexer cols r) as [o|] eqn:E2; [|discriminate]. inversion H. simpl.
    rewrite (first_pos_nth _ _ _ E1), (IH _ eq_refl). reflexivity.
Qed.

Lemma triples_labels {D T} (o : list (Z * D) * frame T) : map (fun t => fst (fst t)) (triples o) = map fst (fst o).
Proof. unfold triples. rewrite map_map. apply map_ext. reflexivity. Qed.

(* label keys in any order (tsdf[[labels]], tsdf.loc[labels]): output column i has label ks[i], and
   is a column of the input with its own data and metadata row *)
Theorem frame_get_labels_attach {D T} (o o' : tframe D T) ks :
  frame_get_labels o ks = Some o' ->
  map fst (fst o') = ks /\ incl (triples o') (triples o) /\ labels (snd o') = ks.
Proof.
  unfold frame_get_labels. destruct (get_indexer (map fst (fst o)) ks) as [ps|] eqn:E; [|discriminate].
  intros H. destruct (frame_get_pos_attach _ _ _ H) as [H1 H2].
  assert (Hk : map fst (fst o') = ks).
  { pose proof (get_indexer_sel _ _ _ E) as Hs.
    assert (H3 : sel (map (fun t => fst (fst t)) (triples o)) ps = Some (map (fun t => fst (fst t)) (triples o')))
      by (rewrite sel_map, H1; reflexivity).
    rewrite !triples_labels, Hs in H3. inversion H3. reflexivity. }
  split; [exact Hk|]. split; [eapply sel_incl; exact H1|]. rewrite H2. exact Hk.
Qed.

Theorem frame_get_mask_attach {D T} (o o' : tframe D T) mask :
  frame_get_mask o mask = Some o' -> sel (triples o) (mask_pos mask) = Some (triples o').
Proof.
  unfold frame_get_mask. destruct (length mask =? length (fst o))%nat; [|discriminate].
  intros H. apply (frame_get_pos_attach _ _ _ H).
Qed.

(* groupby(...).get_group: exactly the columns whose OWN metadata row is in the group *)
Theorem frame_get_group_attach {D T} (o o' : tframe D T) (p : T -> bool) :
  wf_tframe o -> frame_get_group o p = Some o' ->
  map fst (fst o') = map fst (filter (fun r => p (snd r)) (snd o))
  /\ incl (triples o') (triples o)
  /\ Forall (fun t => exists v, snd t = Some v /\ p v = true) (triples o').
Proof.
  intros [Hn Hl] H. unfold frame_get_group in H.
  destruct (frame_get_labels_attach _ _ _ H) as (H1 & H2 & H3).
  split; [exact H1|]. split; [exact H2|].
  apply Forall_forall. intros [[l d] t] Hin.
  assert (Hlk : In l (map fst (filter (fun r => p (snd r)) (snd o)))).
  { rewrite <- H1. unfold triples in Hin. apply in_map_iff in Hin. destruct Hin as (c & Heq & Hc).
    inversion Heq. subst. apply in_map. exact Hc. }
  apply in_map_iff in Hlk. destruct Hlk as ([l' v] & Heq & Hf). simpl in Heq. subst l'.
  apply filter_In in Hf. destruct Hf as [Hm Hp]. simpl in Hp.
  specialize (H2 _ Hin). unfold triples in H2. apply in_map_iff in H2. destruct H2 as (c & Heq & Hc).
  inversion Heq. subst. exists v. split; [|exact Hp]. simpl.
  apply loc1_nodup_In; [rewrite Hl; exact Hn|exact Hm].
Qed.

(* restrict / get / arithmetic: labels and rows untouched *)
Theorem frame_map_attach {D T} (f : D -> D) (o : tframe D T) :
  labels (snd o) = map fst (fst o) ->
  exists o', frame_map f o = Some o'
    /\ triples o' = map (fun t => (fst (fst t), f (snd (fst t)), snd t)) (triples o).
Proof.
  intros Hl. unfold frame_map, mk_tframe. rewrite map_map. simpl.
  replace (list_eqb (labels (snd o)) (map (fun x => fst x) (fst o))) with true
    by (symmetry; apply list_eqb_eq; exact Hl).
  eexists. split; [reflexivity|]. unfold triples. simpl. rewrite !map_map. reflexivity.
Qed.

(* ------------------------------ TsGroup ------------------------------ *)
Definition wf_group {M T} (o : tgroup M T) : Prop :=
  strict_incb (map fst (fst o)) = true /\ labels (snd o) = map fst (fst o).

Lemma memZ_spec k l : memZ k l = true <-> In k l.
Proof.
  induction l as [|x r IH]; simpl; [split; [discriminate|tauto]|].
  rewrite orb_true_iff, IH, Z.eqb_eq. tauto.
Qed.

Lemma nodupb_spec l : nodupb l = true -> NoDup l.
Proof.
  induction l as [|x r IH]; simpl; intros H; [constructor|].
  apply andb_true_iff in H. destruct H as [H1 H2]. constructor; [|apply IH; exact H2].
  intros Hin. apply memZ_spec in Hin. rewrite Hin in H1. discriminate.
Qed.

Lemma sorted_nodup_strict r : forall x, sorted_from x r -> ~ In x r -> NoDup r -> strict_from x r = true.
Proof.
  induction r as [|y r' IH]; simpl; intros x Hs Hn Hd; [reflexivity|].
  destruct Hs as [H1 H2]. inversion Hd. subst. apply andb_true_iff. split; [|apply IH; assumption].
  assert (x <> y) by (intros ->; apply Hn; left; reflexivity). lia.
Qed.

Lemma loc_In {T} (m : frame T) ks o k t : loc m ks = Some o -> In (k, t) o -> In k ks /\ loc1 m k = Some t.
Proof.
  revert o. induction ks as [|k0 r IH]; simpl; intros o H Hin.
  - inversion H. subst. destruct Hin.
  - destruct (loc1 m k0) eqn:E1; [|discriminate]. destruct (loc m r) eqn:E2; [|discriminate].
    inversion H. subst. destruct Hin as [Hin|Hin].
    + inversion Hin. subst. auto.
    + destruct (IH _ eq_refl Hin). auto.
Qed.

Lemma mk_group_some {M T} (data : list (Z * M)) (m : frame T) o : mk_group data m = Some o ->
  exists mem, o = (mem, m) /\ loc data (sortZ (map fst data)) = Some mem
              /\ labels m = sortZ (map fst data) /\ NoDup (sortZ (map fst data)).
Proof.
  unfold mk_group, lookup_all. destruct (nodupb (sortZ (map fst data))) eqn:E0; [|discriminate].
  destruct (loc data (sortZ (map fst data))) as [mem|] eqn:E1; [|discriminate].
  destruct (list_eqb (labels m) (sortZ (map fst data))) eqn:E2; [|discriminate].
  intros H. inversion H. exists mem. repeat split; auto; [apply list_eqb_eq; exact E2|apply nodupb_spec; exact E0].
Qed.

Lemma mk_group_wf {M T} (data : list (Z * M)) (m : frame T) o : mk_group data m = Some o -> wf_group o.
Proof.
  intros H. destruct (mk_group_some _ _ _ H) as (mem & -> & H1 & H2 & H3).
  pose proof (loc_labels _ _ _ H1) as Hk. unfold labels in Hk.
  split; simpl; [|rewrite H2; symmetry; exact Hk]. rewrite Hk.
  pose proof (sortZ_sorted (map fst data)) as Hs.
  destruct (sortZ (map fst data)) as [|x r]; [reflexivity|]. simpl in *.
  inversion H3. subst. apply sorted_nodup_strict; assumption.
Qed.

(* g[[keys in any order]], g[mask], getby_*: the result's keys are the sorted requested keys, and
   every (key, member, metadata row) of the result is one of the input *)
Theorem group_get_keys_attach {M T} (o o' : tgroup M T) ks :
  group_get_keys o ks = Some o' ->
  map fst (fst o') = sortZ ks /\ incl (triples o') (triples o) /\ wf_group o'.
Proof.
  unfold group_get_keys, lookup_all. destruct (nodupb ks); [|discriminate].
  destruct (loc (fst o) ks) as [d|] eqn:E1; [|discriminate].
  destruct (loc (snd o) (sortZ ks)) as [m|] eqn:E2; [|discriminate]. intros H.
  pose proof (mk_group_wf _ _ _ H) as Hwf.
  destruct (mk_group_some _ _ _ H) as (mem & -> & H1 & H2 & H3).
  pose proof (loc_labels _ _ _ E1) as Hd. unfold labels in Hd. rewrite Hd in *.
  split; [exact (loc_labels _ _ _ H1)|]. split; [|exact Hwf].
  intros x Hin. unfold triples in Hin. simpl in Hin. apply in_map_iff in Hin. destruct Hin as ([k v] & <- & Hc). simpl.
  destruct (loc_In _ _ _ _ _ H1 Hc) as [Hk Hv].
  destruct (loc_In _ _ _ _ _ E1 (loc1_In _ _ _ Hv)) as [_ Hv'].
  rewrite (loc1_loc _ _ _ k E2 Hk).
  unfold triples. apply in_map_iff. exists (k, v). split; [reflexivity|]. apply loc1_In. exact Hv'.
Qed.

Theorem group_get_mask_attach {M T} (o o' : tgroup M T) mask :
  group_get_mask o mask = Some o' ->
  exists ks, sel (map fst (fst o)) (mask_pos mask) = Some ks
             /\ map fst (fst o') = sortZ ks /\ incl (triples o') (triples o).
Proof.
  unfold group_get_mask. destruct (length mask =? length (fst o))%nat; [|discriminate].
  destruct (sel (map fst (fst o)) (mask_pos mask)) as [ks|]; [|discriminate]. intros H.
  exists ks. destruct (group_get_keys_attach _ _ _ H) as (H1 & H2 & _). auto.
Qed.

Lemma loc1_app_l {T} (m1 m2 : frame T) k : In k (labels m1) -> loc1 (m1 ++ m2) k = loc1 m1 k.
Proof.
  induction m1 as [|[l t] r IH]; simpl; [tauto|]. intros [H|H].
  - subst. rewrite Z.eqb_refl. reflexivity.
  - destruct (l =? k); [reflexivity|]. apply IH. exact H.
Qed.

Lemma loc1_app_r {T} (m1 m2 : frame T) k : ~ In k (labels m1) -> loc1 (m1 ++ m2) k = loc1 m2 k.
Proof.
  induction m1 as [|[l t] r IH]; simpl; [reflexivity|]. intros H.
  destruct (l =? k) eqn:E; [apply Z.eqb_eq in E; subst; tauto|]. apply IH. tauto.
Qed.

Lemma strict_from_nodup l : forall lo, strict_from lo l = true -> ~ In lo l /\ NoDup l /\ Forall (fun x => lo < x) l.
Proof.
  induction l as [|x r IH]; simpl; intros lo H; [repeat split; auto; constructor|].
  apply andb_true_iff in H. destruct H as [H1 H2]. destruct (IH _ H2) as (I1 & I2 & I3).
  assert (Hlt : lo < x) by lia.
  repeat split.
  - intros [->|Hin]; [lia|]. rewrite Forall_forall in I3. specialize (I3 _ Hin). lia.
  - constructor; assumption.
  - constructor; [exact Hlt|]. eapply Forall_impl'; [|exact I3]. simpl. intros y. lia.
Qed.

Lemma strict_incb_nodup l : strict_incb l = true -> NoDup l.
Proof.
  destruct l as [|x r]; simpl; [constructor|]. intros H.
  destruct (strict_from_nodup _ _ H) as (H1 & H2 & _). constructor; assumption.
Qed.

Lemma nodupb_complete l : NoDup l -> nodupb l = true.
Proof.
  induction 1 as [|x r Hn _ IH]; simpl; [reflexivity|]. rewrite IH, andb_true_r.
  destruct (memZ x r) eqn:E; [apply memZ_spec in E; tauto|reflexivity].
Qed.

(* DataFrame.sort_index (insertion sort by label) is the sorted permutation of the frame *)
Lemma insert_label_perm {T} (x : Z * T) l : Permutation (x :: l) (insert_label x l).
Proof.
  induction l as [|y r IH]; simpl; [apply Permutation_refl|].
  destruct (fst x <? fst y); [apply Permutation_refl|].
  eapply perm_trans; [apply perm_swap|]. apply perm_skip. exact IH.
Qed.

Lemma sort_index_perm {T} (m : frame T) : Permutation m (sort_index m).
Proof.
  unfold sort_index. rewrite <- (app_nil_r m) at 1. generalize (@nil (Z * T)) as acc.
  induction m as [|x r IH]; intros acc; simpl; [apply Permutation_refl|].
  eapply perm_trans; [|apply IH].
  eapply perm_trans; [apply Permutation_middle|]. apply Permutation_app_head. apply insert_label_perm.
Qed.

Lemma insert_label_sorted_from {T} (x : Z * T) l : forall lo,
  sorted_from lo (labels l) -> lo <= fst x -> sorted_from lo (labels (insert_label x l)).
Proof.
  induction l as [|y r IH]; intros lo H Hx; simpl in *; [auto|].
  destruct H as [H1 H2]. destruct (fst x <? fst y) eqn:E; simpl.
  - repeat split; try lia. exact H2.
  - split; [exact H1|]. apply IH; [exact H2|lia].
Qed.

Lemma insert_label_sorted {T} (x : Z * T) l : sortedZ (labels l) -> sortedZ (labels (insert_label x l)).
Proof.
  intros H. destruct (sortedZ_sorted_from _ H) as [lo Hlo].
  eapply sortedZ_from. apply (insert_label_sorted_from x l (Z.min lo (fst x))); [|lia].
  eapply sorted_from_weaken; [|exact Hlo]. lia.
Qed.

Lemma sort_index_sorted {T} (m : frame T) : sortedZ (labels (sort_index m)).
Proof.
  unfold sort_index. assert (H : sortedZ (labels (@nil (Z * T)))) by exact I.
  revert H. generalize (@nil (Z * T)) as acc.
  induction m as [|x r IH]; intros acc H; simpl; [exact H|]. apply IH. apply insert_label_sorted. exact H.
Qed.

Lemma sorted_perm_eq l : forall l', sortedZ l -> sortedZ l' -> Permutation l l' -> l = l'.
Proof.
  induction l as [|x r IH]; intros l' Hl Hs Hp.
  - apply Permutation_nil in Hp. auto.
  - destruct l' as [|y r']; [apply Permutation_sym, Permutation_nil in Hp; discriminate|].
    assert (x = y).
    { assert (In x (y :: r')) by (eapply Permutation_in; [exact Hp|left; reflexivity]).
      assert (In y (x :: r)) by (eapply Permutation_in; [apply Permutation_sym; exact Hp|left; reflexivity]).
      pose proof (sortedZ_cons_Forall _ _ Hl) as F1. pose proof (sortedZ_cons_Forall _ _ Hs) as F2.
      rewrite Forall_forall in F1, F2.
      destruct H as [->|H]; [reflexivity|]. destruct H0 as [->|H0]; [reflexivity|].
      specialize (F1 _ H0). specialize (F2 _ H). lia. }
    subst y. f_equal. apply IH.
    + eapply sortedZ_tail; exact Hl.
    + eapply sortedZ_tail; exact Hs.
    + eapply Permutation_cons_inv; exact Hp.
Qed.

Lemma labels_sort_index {T} (m : frame T) : labels (sort_index m) = sortZ (labels m).
Proof.
  apply sorted_perm_eq; [apply sort_index_sorted|apply sortZ_sorted|].
  eapply perm_trans; [|apply sortZ_perm]. unfold labels. apply Permutation_map.
  apply Permutation_sym, sort_index_perm.
Qed.

Lemma loc1_perm_nodup {T} (m m' : frame T) k : NoDup (labels m) -> Permutation m m' -> loc1 m' k = loc1 m k.
Proof.
  intros Hn Hp.
  assert (Hn' : NoDup (labels m')) by (eapply Permutation_NoDup; [|exact Hn]; unfold labels; apply Permutation_map; exact Hp).
  destruct (loc1 m k) as [t|] eqn:E1.
  - apply loc1_nodup_In; [exact Hn'|]. eapply Permutation_in; [exact Hp|]. apply loc1_In. exact E1.
  - destruct (loc1 m' k) as [t'|] eqn:E2; [|reflexivity].
    apply loc1_In in E2. apply (Permutation_in _ (Permutation_sym Hp)) in E2.
    rewrite (loc1_nodup_In _ _ _ Hn E2) in E1. discriminate.
Qed.

Lemma loc1_some {T} (m : frame T) k : In k (labels m) -> exists t, loc1 m k = Some t.
Proof.
  induction m as [|[l t] r IH]; simpl; [tauto|]. intros [H|H].
  - subst. rewrite Z.eqb_refl. eauto.
  - destruct (l =? k); [eauto|]. apply IH. exact H.
Qed.

Lemma loc_total {T} (m : frame T) ks : (forall k, In k ks -> In k (labels m)) -> exists o, loc m ks = Some o.
Proof.
  induction ks as [|k r IH]; intros H; simpl; [eauto|].
  destruct (loc1_some m k (H k (or_introl eq_refl))) as [t ->].
  destruct IH as [o ->]; [intros k' Hk'; apply H; right; exact Hk'|]. eauto.
Qed.

Lemma NoDup_app_disjoint (l1 l2 : list Z) :
  NoDup l1 -> NoDup l2 -> (forall k, In k l1 -> ~ In k l2) -> NoDup (l1 ++ l2).
Proof.
  induction 1 as [|x r Hx Hr IH]; intros H2 Hd; simpl; [exact H2|].
  constructor.
  - intros Hin. apply in_app_or in Hin. destruct Hin as [Hin|Hin]; [tauto|]. exact (Hd x (or_introl eq_refl) Hin).
  - apply IH; [exact H2|]. intros k Hk. apply Hd. right. exact Hk.
Qed.

(* merge_group (keys kept): every (key, member, row) of the result is one of an operand ... *)
Theorem group_merge_attach {M T} (a b o' : tgroup M T) :
  labels (snd a) = map fst (fst a) -> labels (snd b) = map fst (fst b) ->
  group_merge false a b = Some o' ->
  map fst (fst o') = sortZ (map fst (fst a) ++ map fst (fst b))
  /\ (forall x, In x (triples o') -> In x (triples a) \/ In x (triples b))
  /\ wf_group o'.
Proof.
  intros La Lb. unfold group_merge.
  destruct (existsb (fun k => memZ k (map fst (fst b))) (map fst (fst a))) eqn:E; [discriminate|]. intros H.
  pose proof (mk_group_wf _ _ _ H) as Hwf.
  destruct (mk_group_some _ _ _ H) as (mem & -> & H1 & H2 & H3).
  assert (Hn : NoDup (labels (snd a ++ snd b))).
  { apply (Permutation_NoDup (l := sortZ (labels (snd a ++ snd b)))); [apply Permutation_sym, sortZ_perm|].
    rewrite <- labels_sort_index, H2. exact H3. }
  rewrite map_app in *. split; [exact (loc_labels _ _ _ H1)|]. split; [|exact Hwf].
  intros x Hin. unfold triples in Hin. simpl in Hin. apply in_map_iff in Hin. destruct Hin as ([k v] & <- & Hc). simpl.
  rewrite (loc1_perm_nodup _ _ k Hn (sort_index_perm _)).
  destruct (loc_In _ _ _ _ _ H1 Hc) as [_ Hv]. apply loc1_In in Hv. apply in_app_or in Hv.
  destruct Hv as [Hv|Hv].
  - left. rewrite loc1_app_l by (rewrite La; apply in_map_iff; exists (k, v); auto).
    unfold triples. apply in_map_iff. exists (k, v). auto.
  - right. rewrite loc1_app_r.
    + unfold triples. apply in_map_iff. exists (k, v). auto.
    + rewrite La. intros Hka.
      assert (Hkb : In k (map fst (fst b))) by (apply in_map_iff; exists (k, v); auto).
      assert (existsb (fun k => memZ k (map fst (fst b))) (map fst (fst a)) = true).
      { apply existsb_exists. exists k. split; [exact Hka|]. apply memZ_spec. exact Hkb. }
      congruence.
Qed.

(* ... and it ALWAYS returns for well-formed groups with disjoint keys, interleaved or not *)
Theorem group_merge_total {M T} (a b : tgroup M T) :
  wf_group a -> wf_group b -> (forall k, In k (map fst (fst a)) -> ~ In k (map fst (fst b))) ->
  exists o', group_merge false a b = Some o'.
Proof.
  intros [Sa La] [Sb Lb] Hd. unfold group_merge.
  destruct (existsb (fun k => memZ k (map fst (fst b))) (map fst (fst a))) eqn:E.
  { apply existsb_exists in E. destruct E as (k & Hk & Hm). apply memZ_spec in Hm. exfalso. exact (Hd k Hk Hm). }
  unfold mk_group, lookup_all. rewrite map_app.
  set (ks := map fst (fst a) ++ map fst (fst b)).
  assert (Hn : NoDup ks) by (apply NoDup_app_disjoint; [apply strict_incb_nodup; exact Sa|apply strict_incb_nodup; exact Sb|exact Hd]).
  assert (Hns : NoDup (sortZ ks)) by (eapply Permutation_NoDup; [apply sortZ_perm|exact Hn]).
  rewrite (nodupb_complete _ Hns).
  destruct (loc_total (fst a ++ fst b) (sortZ ks)) as [mem Hmem].
  { intros k Hk. unfold labels. rewrite map_app. fold ks. eapply Permutation_in; [apply Permutation_sym, sortZ_perm|exact Hk]. }
  rewrite Hmem.
  replace (list_eqb (labels (sort_index (snd a ++ snd b))) (sortZ ks)) with true; [eauto|].
  symmetry. apply list_eqb_eq. rewrite labels_sort_index. unfold labels. rewrite map_app.
  fold (labels (snd a)). fold (labels (snd b)). rewrite La, Lb. reflexivity.
Qed.

(* before the repair the concatenated metadata was not sorted: groups with disjoint, interleaved keys
   could not be merged with their metadata (set_info refused the index) *)
Theorem group_merge_orig_interleaved_refuted :
  exists (a b : tgroup Z Z), wf_group a /\ wf_group b
    /\ (forall k, In k (map fst (fst a)) -> ~ In k (map fst (fst b)))
    /\ group_merge_orig a b = None.
Proof.
  exists ([(1, 10); (5, 50)], [(1, 100); (5, 500)]), ([(2, 20); (3, 30)], [(2, 200); (3, 300)]).
  split; [split; reflexivity|]. split; [split; reflexivity|]. split; [|vm_compute; reflexivity].
  simpl. intros k [H|[H|H]] [H'|[H'|H']]; lia.
Qed.

(* restrict / get / value_from on a group: keys and rows untouched *)
Lemma loc_self_suffix {T} (suf : frame T) : forall pre, NoDup (labels (pre ++ suf)) ->
  loc (pre ++ suf) (labels suf) = Some suf.
Proof.
  induction suf as [|[l t] r IH]; intros pre Hn; simpl; [reflexivity|].
  assert (Hnot : ~ In l (labels pre)).
  { unfold labels in *. rewrite map_app in Hn. simpl in Hn. apply NoDup_remove_2 in Hn.
    intros Hin. apply Hn. apply in_or_app. left. exact Hin. }
  rewrite loc1_app_r by exact Hnot. simpl. rewrite Z.eqb_refl.
  specialize (IH (pre ++ [(l, t)])). rewrite <- app_assoc in IH. simpl in IH. rewrite IH by exact Hn. reflexivity.
Qed.

Theorem group_map_attach {M T} (f : M -> M) (o : tgroup M T) :
  wf_group o ->
  exists o', group_map f o = Some o'
    /\ triples o' = map (fun t => (fst (fst t), f (snd (fst t)), snd t)) (triples o).
Proof.
  intros [Hs Hl]. unfold group_map, mk_group, lookup_all.
  set (d := map (fun c => (fst c, f (snd c))) (fst o)).
  assert (Hk : map fst d = map fst (fst o)) by (unfold d; rewrite map_map; reflexivity).
  rewrite Hk, (sortedZ_sortZ_id _ (strict_incb_sorted _ Hs)).
  pose proof (strict_incb_nodup _ Hs) as Hn. rewrite (nodupb_complete _ Hn).
  assert (Hd : loc d (map fst (fst o)) = Some d).
  { rewrite <- Hk. apply (loc_self_suffix d []). simpl. unfold labels. rewrite Hk. exact Hn. }
  rewrite Hd. replace (list_eqb (labels (snd o)) (map fst (fst o))) with true by (symmetry; apply list_eqb_eq; exact Hl).
  eexists. split; [reflexivity|]. unfold triples, d. simpl. rewrite !map_map. reflexivity.
Qed.

(* ================================================================== *)
(* 7. IntervalSet(DataFrame): rows are re-ordered whole, so pairs survive                         *)
Lemma insert_row_perm {T} (x : Z * Z * T) l : Permutation (x :: l) (insert_row x l).
Proof.
  induction l as [|y r IH]; simpl; [apply Permutation_refl|].
  destruct (fst (fst x) <? fst (fst y)); [apply Permutation_refl|].
  eapply perm_trans; [apply perm_swap|]. apply perm_skip. exact IH.
Qed.

Lemma sort_rows_perm {T} (l : list (Z * Z * T)) : Permutation l (sort_rows l).
Proof.
  unfold sort_rows. rewrite <- (app_nil_r l) at 1. generalize (@nil (Z * Z * T)) as acc.
  induction l as [|x r IH]; intros acc; simpl; [apply Permutation_refl|].
  eapply perm_trans; [|apply IH].
  eapply perm_trans; [apply Permutation_middle|]. apply Permutation_app_head. apply insert_row_perm.
Qed.

Theorem mk_miset_df_kept {T} (l : list (Z * Z * T)) out m :
  mk_miset_df l = Kept out m ->
  exists l1, Permutation l l1 /\ out = trim_touch (map fst l1) /\ m = range_frame (map snd l1).
Proof.
  unfold mk_miset_df. intros H. apply mk_miset_kept in H. destruct H as (H1 & H2 & _).
  eexists. split; [|split; [exact H2|exact H1]].
  destruct (decreases _); [apply sort_rows_perm|apply Permutation_refl].
Qed.

(* ================================================================== *)
(* IntervalSet.groupby(get_group) and the tuple form ep[boolean Series, :] *)
(* non-negative labels are their own positions ([wrap] does not check the upper bound) *)
Lemma wrap_all_of_nat n ps : wrap_all n (map Z.of_nat ps) = Some ps.
Proof.
  induction ps as [|q r IH]; simpl; [reflexivity|].
  rewrite IH. unfold wrap. destruct (0 <=? Z.of_nat q) eqn:E; [|lia].
  rewrite Nat2Z.id. reflexivity.
Qed.

(* labels of the rows of a range-indexed frame that satisfy p = their positions *)
Lemma labels_filter_range {T} (p : T -> bool) (ts : list T) : forall a,
  labels (filter (fun r : Z * T => p (snd r)) (combine (map Z.of_nat (seq a (length ts))) ts))
  = map Z.of_nat (filter_idx p a ts).
Proof.
  induction ts as [|t r IH]; intros a; simpl; [reflexivity|].
  destruct (p t); simpl; rewrite IH; reflexivity.
Qed.

Lemma filter_idx_map {A} (p : A -> bool) (l : list A) : forall i,
  filter_idx p i l = filter_idx (fun b : bool => b) i (map p l).
Proof.
  induction l as [|x r IH]; intros i; simpl; [reflexivity|].
  rewrite IH. reflexivity.
Qed.

Lemma filter_idx_mask_pos {A} (p : A -> bool) (l : list A) : filter_idx p 0%nat l = mask_pos (map p l).
Proof. unfold mask_pos. apply filter_idx_map. Qed.

Lemma filter_combine_map_bits {A B} (p : A -> bool) (ts : list A) : forall (xs : list B),
  map snd (filter fst (combine (map p ts) xs))
  = map snd (filter (fun x : A * B => p (fst x)) (combine ts xs)).
Proof.
  induction ts as [|t r IH]; intros xs; simpl; [reflexivity|].
  destruct xs as [|x xr]; simpl; [reflexivity|].
  destruct (p t); simpl; rewrite IH; reflexivity.
Qed.

Lemma filter_combine_self {A} (p : A -> bool) (ts : list A) :
  map snd (filter fst (combine (map p ts) ts)) = filter p ts.
Proof.
  induction ts as [|t r IH]; simpl; [reflexivity|].
  destruct (p t); simpl; rewrite IH; reflexivity.
Qed.

(* on a well-formed object get_group is the positional selection by the mask  p(row) *)
Lemma iset_get_group_eq_pos {T} (o : tiset T) (p : T -> bool) :
  wf_tiset o -> iset_get_group o p = iset_get_pos o (mask_pos (map p (rows (snd o)))).
Proof.
  intros Hwf. unfold iset_get_group.
  assert (Hlab : labels (filter (fun r : Z * T => p (snd r)) (snd o))
                 = map Z.of_nat (filter_idx p 0%nat (rows (snd o)))).
  { pose proof (wf_tiset_range o Hwf) as Hm. set (ts := rows (snd o)) in *. rewrite Hm.
    unfold range_frame, rangeZ. apply labels_filter_range. }
  rewrite Hlab. unfold iset_get_labels. rewrite wrap_all_of_nat, filter_idx_mask_pos. reflexivity.
Qed.

Theorem iset_get_group_total {T} (o : tiset T) (p : T -> bool) :
  wf_tiset o ->
  iset_get_group o p
  = Kept (map snd (filter (fun x => p (fst x)) (combine (rows (snd o)) (fst o))))
         (range_frame (filter p (rows (snd o)))).
Proof.
  intros Hwf. rewrite (iset_get_group_eq_pos o p Hwf).
  pose proof (wf_tiset_length _ Hwf) as Hlen.
  set (bits := map p (rows (snd o))).
  assert (Hb2 : length bits = length (rows (snd o))) by (unfold bits; rewrite map_length; reflexivity).
  assert (Hb1 : length bits = length (fst o)) by (rewrite Hb2; unfold rows; rewrite map_length; exact Hlen).
  pose proof (sel_filter_idx (fst o) [] bits Hb1) as S1. simpl in S1. fold (mask_pos bits) in S1.
  pose proof (sel_filter_idx (rows (snd o)) [] bits Hb2) as S2. simpl in S2. fold (mask_pos bits) in S2.
  destruct (iset_get_pos_increasing o (mask_pos bits) _ Hwf (filter_idx_inc _ bits 0%nat) S1) as (tags & Ht & Hres).
  rewrite Hres. rewrite S2 in Ht. inversion Ht as [Htags]. unfold bits.
  rewrite filter_combine_map_bits, filter_combine_self. reflexivity.
Qed.
Print Assumptions iset_get_group_total.

Corollary iset_get_group_pointwise {T} (o : tiset T) p out m :
  iset_get_group o p = Kept out m ->
  forall i s e', nth_error out i = Some (s, e') ->
    exists q e t, nth_error (fst o) q = Some (s, e) /\ (e' = e \/ e' = e - us)
                  /\ nth_error (rows (snd o)) q = Some t /\ loc1 m (Z.of_nat i) = Some t.
Proof.
  unfold iset_get_group. intros H i s e' Hi.
  destruct (iset_get_labels_pointwise _ _ _ _ H) as (ps & _ & Hpt).
  destruct (Hpt i s e' Hi) as (q & e & t & _ & H1 & H2 & H3 & H4).
  exists q, e, t. repeat split; assumption.
Qed.
Print Assumptions iset_get_group_pointwise.


Theorem iset_get_bseries_tuple_orig_refuted :
  exists (o : tiset Z) mask out m,
    wf_tiset o /\ Permutation (map fst mask) (rangeZ (length (fst o)))
    /\ iset_get_bseries_tuple_orig o mask = Kept out m
    /\ exists s e t p, nth_error out 0 = Some (s, e) /\ loc1 m 0 = Some t
                       /\ nth_error (fst o) p = Some (s, e) /\ nth_error (rows (snd o)) p <> Some t.
Proof. unfold iset_get_bseries_tuple_orig. exact iset_get_bseries_orig_refuted. Qed.
Print Assumptions iset_get_bseries_tuple_orig_refuted.

(* exactly WHICH ends the constructor gives back 1 us earlier: those equal to the next start, no other *)
Theorem trim_touch_exact l : forall i s e, nth_error l i = Some (s, e) ->
  nth_error (trim_touch l) i
  = Some (s, match nth_error l (S i) with
             | Some (s', _) => if e =? s' then e - us else e
             | None => e
             end).
Proof.
  induction l as [|[s0 e0] r IH]; intros i s e H; [destruct i; discriminate|].
  destruct i as [|i].
  - simpl in H. inversion H; subst. simpl. destruct r as [|[s' e'] r']; reflexivity.
  - simpl in H. change (nth_error (trim_touch ((s0, e0) :: r)) (S i)) with (nth_error (trim_touch r) i).
    rewrite (IH i s e H). reflexivity.
Qed.
Print Assumptions trim_touch_exact.

(* ================================================================== *)
(* merge_group(reset_index=True)                                       *)
(* ---- the RangeIndex 0..n-1 is strictly increasing, hence sorted and duplicate-free ---- *)
Lemma strict_from_seq n : forall a lo, lo < Z.of_nat a -> strict_from lo (map Z.of_nat (seq a n)) = true.
Proof.
  induction n as [|n IH]; intros a lo H; simpl; [reflexivity|].
  rewrite IH by lia. destruct (lo <? Z.of_nat a) eqn:E; [reflexivity|lia].
Qed.

Lemma strict_incb_rangeZ n : strict_incb (rangeZ n) = true.
Proof.
  unfold rangeZ. destruct n as [|n]; simpl; [reflexivity|]. apply strict_from_seq. lia.
Qed.

Lemma sortZ_rangeZ n : sortZ (rangeZ n) = rangeZ n.
Proof. apply sortedZ_sortZ_id. apply strict_incb_sorted. apply strict_incb_rangeZ. Qed.

(* ---- .loc[0..n-1] on a RangeIndex frame is the frame ---- *)
Lemma sel_seq_self {A} (xs : list A) : forall pre, sel (pre ++ xs) (seq (length pre) (length xs)) = Some xs.
Proof.
  induction xs as [|x r IH]; intros pre; simpl; [reflexivity|].
  rewrite nth_error_app2, Nat.sub_diag by lia. simpl.
  replace (pre ++ x :: r) with ((pre ++ [x]) ++ r) by (rewrite <- app_assoc; reflexivity).
  replace (S (length pre)) with (length (pre ++ [x])) by (rewrite app_length; simpl; lia).
  rewrite IH. reflexivity.
Qed.

Lemma loc_range_self {T} (xs : list T) : loc (range_frame xs) (rangeZ (length xs)) = Some (range_frame xs).
Proof.
  assert (Hix : Forall (fun i => (i < length xs)%nat) (seq 0 (length xs))).
  { apply Forall_forall. intros i Hi. apply in_seq in Hi. lia. }
  destruct (loc_range_some xs _ Hix) as (m & tags & Hloc & Hrows & Hsel).
  fold (rangeZ (length xs)) in Hloc. rewrite Hloc. f_equal.
  pose proof (sel_seq_self xs []) as Hs. simpl in Hs. rewrite Hs in Hsel. inversion Hsel as [Ht].
  pose proof (loc_labels _ _ _ Hloc) as Hlab.
  assert (Hlen : length m = length xs).
  { apply (f_equal (@length Z)) in Hlab. unfold labels in Hlab. rewrite map_length, rangeZ_length in Hlab. exact Hlab. }
  rewrite (frame_is_range m) by (rewrite Hlab, Hlen; reflexivity).
  rewrite Hrows, <- Ht. reflexivity.
Qed.

(* ---- the TsGroup constructor on RangeIndex data and RangeIndex metadata of the same length ---- *)
Lemma mk_group_range {M T} (xs : list M) (rs : list T) : length rs = length xs ->
  mk_group (range_frame xs) (range_frame rs) = Some (range_frame xs, range_frame rs).
Proof.
  intros Hl. unfold mk_group, lookup_all.
  change (map fst (range_frame xs)) with (labels (range_frame xs)).
  rewrite !labels_range_frame, sortZ_rangeZ, Hl.
  rewrite (nodupb_complete _ (strict_incb_nodup _ (strict_incb_rangeZ (length xs)))).
  rewrite loc_range_self.
  replace (list_eqb (rangeZ (length xs)) (rangeZ (length xs))) with true
    by (symmetry; apply list_eqb_eq; reflexivity).
  reflexivity.
Qed.

(* ---- (member, row found under the member's key) when the metadata index IS the key list ---- *)
Lemma pairs_lookup {M T} (F : frame T) : forall (d : list (Z * M)) (m : frame T),
  labels m = map fst d ->
  (forall k t, In (k, t) m -> loc1 F k = Some t) ->
  map (fun c : Z * M => (snd c, loc1 F (fst c))) d = combine (map snd d) (map Some (rows m)).
Proof.
  induction d as [|[k x] r IH]; intros m Hlab Hin; destruct m as [|[k' t] mr]; simpl in *; try discriminate; [reflexivity|].
  inversion Hlab as [[Hk Hr]]. subst k'.
  rewrite (Hin k t (or_introl eq_refl)). f_equal.
  apply IH; [exact Hr|]. intros k0 t0 H0. apply Hin. right. exact H0.
Qed.

(* the hypotheses used: unique keys, metadata index = key list (both follow from wf_group) *)
Lemma triples_pairs {M T} (o : list (Z * M) * frame T) :
  NoDup (map fst (fst o)) -> labels (snd o) = map fst (fst o) ->
  map (fun t => (snd (fst t), snd t)) (triples o) = combine (map snd (fst o)) (map Some (rows (snd o))).
Proof.
  intros Hnd Hlab. unfold triples. rewrite map_map. simpl.
  apply pairs_lookup; [exact Hlab|].
  intros k t Hin. apply loc1_nodup_In; [rewrite Hlab; exact Hnd|exact Hin].
Qed.

Lemma combine_app_eq {A B} (l1 l2 : list A) : forall (r1 r2 : list B), length l1 = length r1 ->
  combine (l1 ++ l2) (r1 ++ r2) = combine l1 r1 ++ combine l2 r2.
Proof.
  induction l1 as [|x l IH]; intros r1 r2 H; destruct r1 as [|y r]; simpl in *; try discriminate; [reflexivity|].
  f_equal. apply IH. lia.
Qed.

Lemma wf_group_facts {M T} (o : tgroup M T) : wf_group o ->
  NoDup (map fst (fst o)) /\ labels (snd o) = map fst (fst o) /\ length (snd o) = length (fst o).
Proof.
  intros [Hs Hl]. split; [apply strict_incb_nodup; exact Hs|]. split; [exact Hl|].
  apply (f_equal (@length Z)) in Hl. unfold labels in Hl. rewrite !map_length in Hl. exact Hl.
Qed.

(* ---- merge_group(a, b, reset_index=True) ---- *)
(* what the model computes, under the weakest hypothesis: the two metadata frames have as many rows
   as the groups have members *)
Lemma group_merge_reset_value {M T} (a b : tgroup M T) :
  length (snd a) = length (fst a) -> length (snd b) = length (fst b) ->
  group_merge true a b
  = Some (range_frame (map snd (fst a ++ fst b)), range_frame (rows (snd a ++ snd b))).
Proof.
  intros Ha Hb. unfold group_merge.
  replace (combine (rangeZ (length (fst a ++ fst b))) (map snd (fst a ++ fst b)))
    with (range_frame (map snd (fst a ++ fst b)))
    by (unfold range_frame; rewrite map_length; reflexivity).
  apply mk_group_range. unfold rows. rewrite !map_length, !app_length. lia.
Qed.

Theorem group_merge_reset_attach {M T} (a b : tgroup M T) :
  wf_group a -> wf_group b ->
  exists o', group_merge true a b = Some o'
    /\ map fst (fst o') = rangeZ (length (fst a) + length (fst b))
    /\ map (fun t => (snd (fst t), snd t)) (triples o')
       = map (fun t => (snd (fst t), snd t)) (triples a ++ triples b)
    /\ wf_group o'.
Proof.
  intros Hwa Hwb.
  destruct (wf_group_facts a Hwa) as (Hna & Hla & Hlena).
  destruct (wf_group_facts b Hwb) as (Hnb & Hlb & Hlenb).
  pose proof (group_merge_reset_value a b Hlena Hlenb) as Hv.
  eexists. split; [exact Hv|].
  assert (Hwf : wf_group (range_frame (map snd (fst a ++ fst b)), range_frame (rows (snd a ++ snd b)))).
  { unfold group_merge in Hv. eapply mk_group_wf. exact Hv. }
  split; [|split; [|exact Hwf]].
  - simpl. change (map fst (range_frame (map snd (fst a ++ fst b))))
      with (labels (range_frame (map snd (fst a ++ fst b)))).
    rewrite labels_range_frame, map_length, app_length. reflexivity.
  - destruct (wf_group_facts _ Hwf) as (Hno & Hlo & _).
    rewrite (triples_pairs _ Hno Hlo). simpl.
    change (map snd (range_frame (map snd (fst a ++ fst b))))
      with (rows (range_frame (map snd (fst a ++ fst b)))).
    rewrite !rows_range_frame.
    rewrite (map_app _ (triples a) (triples b)), (triples_pairs a Hna Hla), (triples_pairs b Hnb Hlb).
    unfold rows. rewrite !map_app.
    apply combine_app_eq. rewrite !map_length. symmetry. exact Hlena.
Qed.
Print Assumptions group_merge_reset_attach.

(* interleaved keys: a has keys 1, 5, b has keys 2, 3 (members 10 20 / 30 40, rows 100 200 / 300 400).
   The result is keyed 0..3, members and rows in argument order, every member with its own row. *)
Example group_merge_reset_interleaved :
  let a : tgroup Z Z := ([(1, 10); (5, 20)], [(1, 100); (5, 200)]) in
  let b : tgroup Z Z := ([(2, 30); (3, 40)], [(2, 300); (3, 400)]) in
  group_merge true a b
  = Some ([(0, 10); (1, 20); (2, 30); (3, 40)], [(0, 100); (1, 200); (2, 300); (3, 400)])
  /\ option_map triples (group_merge true a b)
     = Some [(0, 10, Some 100); (1, 20, Some 200); (2, 30, Some 300); (3, 40, Some 400)]
  /\ triples a ++ triples b
     = [(1, 10, Some 100); (5, 20, Some 200); (2, 30, Some 300); (3, 40, Some 400)].
Proof. vm_compute. repeat split; reflexivity. Qed.
Print Assumptions group_merge_reset_interleaved.
