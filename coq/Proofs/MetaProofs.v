(* C13: metadata and labels stay attached to the element they describe.  Lemmas about Model/Meta.v. *)
From Verif Require Import Base.Prelude Model.Iset Model.Meta Proofs.BaseLemmas Proofs.FixIsetProofs Proofs.C01Top
  Proofs.InterDiffProofs Proofs.C02Top.
From Coq Require Import ZifyBool Permutation.

(* ================================================================== *)
(* 1. frames: loc / iloc                                               *)

Lemma sel_map {A B} (f : A -> B) (l : list A) ps : sel (map f l) ps = option_map (map f) (sel l ps).
Proof.
  induction ps as [|p r IH]; simpl; [reflexivity|].
  rewrite nth_error_map, IH. destruct (nth_error l p); simpl; [|reflexivity].
  destruct (sel l r); reflexivity.
Qed.

Lemma sel_length {A} (l : list A) ps o : sel l ps = Some o -> length o = length ps.
Proof.
  revert o. induction ps as [|p r IH]; simpl; intros o H.
  - inversion H. reflexivity.
  - destruct (nth_error l p); [|discriminate]. destruct (sel l r); [|discriminate].
    inversion H. simpl. f_equal. apply IH. reflexivity.
Qed.

Lemma sel_nth {A} (l : list A) ps o : sel l ps = Some o ->
  forall i x, nth_error o i = Some x -> exists p, nth_error ps i = Some p /\ nth_error l p = Some x.
Proof.
  revert o. induction ps as [|p r IH]; simpl; intros o H i x Hi.
  - inversion H. subst. destruct i; discriminate.
  - destruct (nth_error l p) eqn:E; [|discriminate]. destruct (sel l r) eqn:E2; [|discriminate].
    inversion H. subst. destruct i; simpl in *.
    + inversion Hi. subst. exists p. auto.
    + eapply IH; [reflexivity|exact Hi].
Qed.

Lemma sel_some {A} (l : list A) ps : Forall (fun p => (p < length l)%nat) ps -> exists o, sel l ps = Some o.
Proof.
  induction 1 as [|p r Hp _ IH]; simpl; [eauto|].
  destruct IH as [o ->]. destruct (nth_error l p) eqn:E; [eauto|].
  apply nth_error_None in E. lia.
Qed.

Lemma rangeZ_length n : length (rangeZ n) = n.
Proof. unfold rangeZ. rewrite map_length, seq_length. reflexivity. Qed.

Lemma labels_range_frame {T} (ts : list T) : labels (range_frame ts) = rangeZ (length ts).
Proof. unfold labels, range_frame. rewrite map_fst_combine; [reflexivity|apply rangeZ_length]. Qed.

Lemma rows_range_frame {T} (ts : list T) : rows (range_frame ts) = ts.
Proof. unfold rows, range_frame. rewrite map_snd_combine; [reflexivity|apply rangeZ_length]. Qed.

Lemma list_eqb_eq a : forall b, list_eqb a b = true <-> a = b.
Proof.
  induction a as [|x a IH]; destruct b as [|y b]; simpl; split; intros H; try reflexivity; try discriminate.
  - apply andb_true_iff in H. destruct H as [H1 H2]. apply Z.eqb_eq in H1. apply IH in H2. congruence.
  - inversion H. subst. rewrite Z.eqb_refl. simpl. apply IH. reflexivity.
Qed.

(* loc on a general frame *)
Lemma loc1_In {T} (m : frame T) k t : loc1 m k = Some t -> In (k, t) m.
Proof.
  induction m as [|[l t'] r IH]; simpl; [discriminate|].
  destruct (l =? k) eqn:E; intros H.
  - apply Z.eqb_eq in E. inversion H. subst. left. reflexivity.
  - right. apply IH. exact H.
Qed.

Lemma loc1_nodup_In {T} (m : frame T) k t : NoDup (labels m) -> In (k, t) m -> loc1 m k = Some t.
Proof.
  induction m as [|[l t'] r IH]; simpl; [tauto|]. intros Hn [H|H].
  - inversion H. subst. rewrite Z.eqb_refl. reflexivity.
  - inversion Hn as [|? ? Hnot Hn']. subst.
    destruct (l =? k) eqn:E.
    + apply Z.eqb_eq in E. subst. exfalso. apply Hnot. unfold labels. apply in_map_iff. exists (k, t). auto.
    + apply IH; assumption.
Qed.

Lemma loc_labels {T} (m : frame T) ks o : loc m ks = Some o -> labels o = ks.
Proof.
  revert o. induction ks as [|k r IH]; simpl; intros o H.
  - inversion H. reflexivity.
  - destruct (loc1 m k); [|discriminate]. destruct (loc m r); [|discriminate].
    inversion H. simpl. f_equal. apply IH. reflexivity.
Qed.

(* the row .loc returns for a label is the row the frame holds under that label *)
Lemma loc1_loc {T} (m : frame T) ks o k : loc m ks = Some o -> In k ks -> loc1 o k = loc1 m k.
Proof.
  revert o. induction ks as [|k0 r IH]; simpl; intros o H Hin; [tauto|].
  destruct (loc1 m k0) eqn:E1; [|discriminate]. destruct (loc m r) eqn:E2; [|discriminate].
  inversion H. subst. simpl. destruct (k0 =? k) eqn:E.
  - apply Z.eqb_eq in E. subst. symmetry. exact E1.
  - destruct Hin as [->|Hin]; [rewrite Z.eqb_refl in E; discriminate|]. apply IH; auto.
Qed.

Lemma loc_rows {T} (m : frame T) ks o : loc m ks = Some o ->
  Forall2 (fun k t => loc1 m k = Some t) ks (rows o).
Proof.
  revert o. induction ks as [|k r IH]; simpl; intros o H.
  - inversion H. constructor.
  - destruct (loc1 m k) eqn:E1; [|discriminate]. destruct (loc m r) eqn:E2; [|discriminate].
    inversion H. subst. simpl. constructor; [exact E1|]. apply IH. reflexivity.
Qed.

(* on a RangeIndex frame, loc by label IS iloc by position *)
Lemma loc1_combine_seq {T} (ts : list T) : forall a k,
  loc1 (combine (map Z.of_nat (seq a (length ts))) ts) k
  = if (Z.of_nat a <=? k) then nth_error ts (Z.to_nat k - a) else None.
Proof.
  induction ts as [|t r IH]; intros a k; simpl.
  - destruct (Z.of_nat a <=? k); [|reflexivity]. destruct (Z.to_nat k - a)%nat; reflexivity.
  - destruct (Z.of_nat a =? k) eqn:E.
    + apply Z.eqb_eq in E. subst. rewrite Z.leb_refl, Nat2Z.id, Nat.sub_diag. reflexivity.
    + rewrite IH. destruct (Z.of_nat (S a) <=? k) eqn:E1; destruct (Z.of_nat a <=? k) eqn:E2; try lia; [|reflexivity].
      replace (Z.to_nat k - a)%nat with (S (Z.to_nat k - S a)) by lia. reflexivity.
Qed.

Lemma loc1_range_frame {T} (ts : list T) k :
  loc1 (range_frame ts) k = if 0 <=? k then nth_error ts (Z.to_nat k) else None.
Proof. unfold range_frame, rangeZ. rewrite loc1_combine_seq. simpl. rewrite Nat.sub_0_r. reflexivity. Qed.

Lemma loc_range_frame {T} (ts : list T) ks : Forall (fun k => 0 <= k) ks ->
  option_map rows (loc (range_frame ts) ks) = sel ts (map Z.to_nat ks).
Proof.
  induction 1 as [|k r Hk _ IH]; simpl; [reflexivity|].
  rewrite loc1_range_frame. destruct (0 <=? k) eqn:E; [|lia].
  destruct (nth_error ts (Z.to_nat k)); simpl.
  - destruct (loc (range_frame ts) r), (sel ts (map Z.to_nat r)); simpl in *; try discriminate; [|reflexivity].
    inversion IH. reflexivity.
  - destruct (loc (range_frame ts) r); reflexivity.
Qed.

Lemma frame_is_range {T} (m : frame T) : labels m = rangeZ (length m) -> m = range_frame (rows m).
Proof.
  intros H. unfold range_frame, rows. rewrite map_length, <- H. unfold labels.
  clear H. induction m as [|[l t] r IH]; simpl; [reflexivity|]. f_equal. exact IH.
Qed.

Lemma iloc_rows {T} (m : frame T) ps : option_map rows (iloc m ps) = sel (rows m) ps.
Proof. unfold iloc, rows. rewrite sel_map. reflexivity. Qed.

(* ================================================================== *)
(* 2. the constructor keeps metadata only when output interval i is input interval i *)

Lemma nowarn_fix_pending l : forall s e,
  warn_go (Some (s, e, e)) l = false -> fix_go (Some (s, e, e)) l = trim_touch ((s, e) :: l).
Proof.
  induction l as [|[s' e'] r IH]; intros s e H.
  - simpl in *. unfold close_pending. destruct (s <? e); [reflexivity|discriminate].
  - cbn [warn_go] in H. cbn [fix_go].
    destruct (s' <? e) eqn:E1; [discriminate|].
    apply orb_false_iff in H. destruct H as [H1 H2].
    destruct (e' <=? s') eqn:E2; [discriminate|].
    rewrite (IH _ _ H2). unfold close_pending.
    cbn [trim_touch]. destruct (e =? s') eqn:E3.
    + destruct (s <? e - us) eqn:E4; [reflexivity|discriminate].
    + destruct (s <? e) eqn:E4; [reflexivity|discriminate].
Qed.

Lemma nowarn_fix l : fix_warn l = false -> fix_iset l = trim_touch l.
Proof.
  unfold fix_warn, fix_iset. destruct l as [|[s e] r]; [reflexivity|].
  cbn [warn_go fix_go]. destruct (e <=? s); [discriminate|]. apply nowarn_fix_pending.
Qed.

Lemma trim_touch_length l : length (trim_touch l) = length l.
Proof. induction l as [|[s e] r IH]; simpl; [reflexivity|]. f_equal. exact IH. Qed.

Lemma trim_touch_spec l :
  Forall2 (fun o i => fst o = fst i /\ (snd o = snd i \/ snd o = snd i - us)) (trim_touch l) l.
Proof.
  induction l as [|[s e] r IH]; simpl; constructor; [|exact IH].
  simpl. split; [reflexivity|]. destruct r as [|[s' e'] r']; [left; reflexivity|].
  destruct (e =? s'); [right|left]; reflexivity.
Qed.

Lemma strict_from_sorted l : forall lo, strict_from lo l = true -> sorted_from lo l.
Proof.
  induction l as [|x r IH]; simpl; intros lo H; [exact I|].
  apply andb_true_iff in H. destruct H as [H1 H2]. split; [lia|]. apply IH. exact H2.
Qed.

Lemma strict_incb_sorted l : strict_incb l = true -> sortedZ l.
Proof. destruct l as [|x r]; simpl; [auto|]. apply strict_from_sorted. Qed.

Lemma combine_fst_snd {A B} (l : list (A * B)) : combine (map fst l) (map snd l) = l.
Proof. induction l as [|[a b] r IH]; simpl; [reflexivity|]. f_equal. exact IH. Qed.

(* whenever the constructor attaches the metadata it was given, its output is the input list,
   interval by interval (ends possibly 1 us shorter), so row i still describes interval i *)
Theorem mk_miset_kept {T} (l : list (Z * Z)) (m : frame T) out m' :
  mk_miset l m = Kept out m' ->
  m' = m /\ out = trim_touch l /\ labels m = rangeZ (length l).
Proof.
  unfold mk_miset. intros H.
  destruct (strict_incb (map fst l)) eqn:E1; [|discriminate].
  destruct (strict_incb (map snd l)) eqn:E2; [|discriminate].
  rewrite (sortedZ_sortZ_id _ (strict_incb_sorted _ E1)), (sortedZ_sortZ_id _ (strict_incb_sorted _ E2)), combine_fst_snd in H.
  simpl in H. destruct (fix_warn l) eqn:E3; [discriminate|]. simpl in H.
  rewrite (nowarn_fix _ E3) in H.
  destruct (list_eqb (labels m) (rangeZ (length (trim_touch l)))) eqn:E4; [|discriminate].
  inversion H. subst. apply list_eqb_eq in E4. rewrite trim_touch_length in E4. auto.
Qed.

(* ... and it never attaches them to unsorted or repaired input *)
Theorem mk_miset_drops {T} (l : list (Z * Z)) (m : frame T) :
  strict_incb (map fst l) = false \/ strict_incb (map snd l) = false
  \/ fix_warn (combine (sortZ (map fst l)) (sortZ (map snd l))) = true ->
  exists out, mk_miset l m = Dropped out.
Proof.
  unfold mk_miset. intros [H|[H|H]]; rewrite H; [|rewrite andb_false_r|rewrite andb_false_r]; eauto.
Qed.

Lemma canon_strict A : forall lo, canon lo A -> strict_from lo (starts A) = true /\ strict_from lo (ends A) = true.
Proof.
  induction A as [|[s e] r IH]; intros lo H; simpl; [auto|].
  destruct H as (H1 & H2 & H3). destruct (IH e H3) as [I1 I2].
  assert (Hs : strict_from s (starts r) = true).
  { clear - H2 H3. destruct r as [|[s' e'] r']; simpl in *; [reflexivity|].
    destruct H3 as (H4 & H5 & H6). destruct (canon_strict_aux := I).
    apply andb_true_iff. split; [lia|].
    clear - I1. exact (proj1 (conj I I)). }
  split; apply andb_true_iff; split; try lia; auto.
Qed.
