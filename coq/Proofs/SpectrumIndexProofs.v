(* Index / frequency / mask / segment bookkeeping of Model/Spectrum.v (no field involved). *)
From Coq Require Import QArith Permutation Lia Lra.
From Verif Require Import Base.Prelude Model.Restrict Model.Count Model.Slice Model.Spectrum
  Proofs.BaseLemmas Proofs.RestrictProofs Proofs.SliceProofs.
From Coq Require Import Lqa ZifyBool ZifyNat.
Open Scope Z_scope.

#[local] Ltac Zify.zify_post_hook ::= Z.div_mod_to_equations.

Lemma zrange_length a len : length (zrange a len) = len.
Proof. unfold zrange. rewrite map_length, seq_length. reflexivity. Qed.
Lemma zrange_nth a len i d : (i < len)%nat -> nth i (zrange a len) d = a + Z.of_nat i.
Proof.
  intros H. unfold zrange.
  rewrite (nth_indep _ d (a + Z.of_nat 0)) by (rewrite map_length, seq_length; lia).
  rewrite (map_nth (fun i => a + Z.of_nat i)). rewrite seq_nth by lia. reflexivity.
Qed.

Lemma zrange_In a len k : In k (zrange a len) <-> a <= k < a + Z.of_nat len.
Proof.
  unfold zrange. rewrite in_map_iff. split.
  - intros [i [E Hi]]. apply in_seq in Hi. lia.
  - intros H. exists (Z.to_nat (k - a)). split; [lia|]. apply in_seq. lia.
Qed.


Lemma seq_as_map s len : seq s len = map (fun i => (s + i)%nat) (seq 0 len).
Proof.
  induction s as [|s IH].
  - simpl. rewrite map_id. reflexivity.
  - rewrite <- seq_shift, IH, map_map. reflexivity.
Qed.

Lemma zrange_app a l1 l2 : zrange a (l1 + l2) = zrange a l1 ++ zrange (a + Z.of_nat l1) l2.
Proof.
  unfold zrange. rewrite seq_app, map_app. f_equal. simpl.
  rewrite (seq_as_map l1 l2), map_map. apply map_ext. intros i. lia.
Qed.

Lemma half_sum n : ((n + 1) / 2 + n / 2 = n)%nat.
Proof. lia. Qed.

(* np.fft.fftfreq *)
Theorem fftfreq_idx_length n : length (fftfreq_idx n) = n.
Proof. unfold fftfreq_idx. rewrite app_length, !zrange_length. apply half_sum. Qed.

Theorem fftfreq_idx_nth n i : (i < n)%nat ->
  nth i (fftfreq_idx n) 0 = if (2 * i <? n)%nat then Z.of_nat i else Z.of_nat i - Z.of_nat n.
Proof.
  intros Hi. unfold fftfreq_idx.
  destruct (2 * i <? n)%nat eqn:E.
  - apply Nat.ltb_lt in E. rewrite app_nth1 by (rewrite zrange_length; lia).
    rewrite zrange_nth by lia. lia.
  - apply Nat.ltb_ge in E. rewrite app_nth2 by (rewrite zrange_length; lia).
    rewrite zrange_length. rewrite zrange_nth by lia. lia.
Qed.

(* ---- sorting by key ---- *)
Section SortK.
  Context {V : Type}.
  Lemma insert_k_perm (kv : Z * V) l : Permutation (insert_k kv l) (kv :: l).
  Proof.
    induction l as [|x r IH]; simpl; [reflexivity|].
    destruct (fst kv <=? fst x); [reflexivity|].
    rewrite IH. apply perm_swap.
  Qed.
  Lemma sort_k_perm (l : list (Z * V)) : Permutation (sort_k l) l.
  Proof.
    induction l as [|x r IH]; simpl; [reflexivity|].
    rewrite insert_k_perm. constructor. exact IH.
  Qed.
  Lemma insert_k_head (kv : Z * V) l : sorted_from (fst kv) (map fst l) -> insert_k kv l = kv :: l.
  Proof.
    destruct l as [|x r]; simpl; [reflexivity|]. intros [H _].
    destruct (fst kv <=? fst x) eqn:E; [reflexivity|lia].
  Qed.
  Lemma insert_k_skip (kv : Z * V) l2 l1 : Forall (fun x => fst x < fst kv) l2 ->
    insert_k kv (l2 ++ l1) = l2 ++ insert_k kv l1.
  Proof.
    induction l2 as [|x r IH]; intros H; simpl; [reflexivity|].
    inversion H; subst. destruct (fst kv <=? fst x) eqn:E; [lia|]. rewrite IH by assumption. reflexivity.
  Qed.
  Lemma fold_insert_k_app (l2 l1 : list (Z * V)) : sortedZ (map fst l1) ->
    Forall (fun x => Forall (fun y => fst y < fst x) l2) l1 ->
    fold_right insert_k l2 l1 = l2 ++ l1.
  Proof.
    induction l1 as [|a r IH]; intros Hs HF; simpl; [rewrite app_nil_r; reflexivity|].
    inversion HF; subst. rewrite IH; [| eapply sortedZ_tail; exact Hs | assumption].
    rewrite insert_k_skip by assumption. rewrite insert_k_head; [reflexivity|]. exact Hs.
  Qed.
  Lemma sort_k_sorted (l : list (Z * V)) : sortedZ (map fst l) -> sort_k l = l.
  Proof.
    intros H. unfold sort_k. rewrite fold_insert_k_app; [reflexivity|exact H|].
    apply Forall_forall. intros; constructor.
  Qed.
  Lemma sort_k_two (l1 l2 : list (Z * V)) : sortedZ (map fst l1) -> sortedZ (map fst l2) ->
    Forall (fun x => Forall (fun y => fst y < fst x) l2) l1 ->
    sort_k (l1 ++ l2) = l2 ++ l1.
  Proof.
    intros H1 H2 HF. unfold sort_k. rewrite fold_right_app. fold (sort_k l2).
    rewrite sort_k_sorted by exact H2. apply fold_insert_k_app; assumption.
  Qed.
End SortK.

Lemma combine_app_l {A B} (l1 l2 : list A) : forall X : list B,
  combine (l1 ++ l2) X = combine l1 (firstn (length l1) X) ++ combine l2 (skipn (length l1) X).
Proof.
  induction l1 as [|a r IH]; intros X; simpl; [reflexivity|].
  destruct X as [|x X]; simpl.
  - destruct l2; reflexivity.
  - rewrite IH. reflexivity.
Qed.

Lemma nth_skipn' {A} (d : A) p : forall (X : list A) i, nth i (skipn p X) d = nth (p + i) X d.
Proof.
  induction p as [|p IH]; intros X i; simpl; [reflexivity|].
  destruct X as [|x X]; [destruct i; reflexivity|]. apply IH.
Qed.
Lemma nth_firstn' {A} (d : A) p : forall (X : list A) i, (i < p)%nat -> nth i (firstn p X) d = nth i X d.
Proof.
  induction p as [|p IH]; intros X i Hi; [lia|].
  destruct X as [|x X]; [reflexivity|]. destruct i; simpl; [reflexivity|]. apply IH. lia.
Qed.


Lemma zrange_S a len : zrange a (S len) = a :: zrange (a + 1) len.
Proof.
  unfold zrange. simpl. f_equal; [lia|].
  rewrite <- seq_shift, map_map. apply map_ext. intros i. lia.
Qed.

Lemma sorted_from_zrange len : forall a lo, lo <= a -> sorted_from lo (zrange a len).
Proof.
  induction len as [|len IH]; intros a lo H; [exact I|].
  rewrite zrange_S. split; [exact H|]. apply IH. lia.
Qed.
Lemma sortedZ_zrange a len : sortedZ (zrange a len).
Proof. apply (sortedZ_from a). apply sorted_from_zrange. lia. Qed.

Lemma combine_zrange {V} (d : V) a len (Y : list V) : length Y = len ->
  combine (zrange a len) Y = map (fun k => (k, nth (Z.to_nat (k - a)) Y d)) (zrange a len).
Proof.
  intros HY.
  apply (nth_ext _ _ (0, d) ((fun k => (k, nth (Z.to_nat (k - a)) Y d)) 0)).
  - rewrite combine_length, map_length, zrange_length. lia.
  - intros i Hi. rewrite combine_length, zrange_length in Hi.
    rewrite combine_nth by (rewrite zrange_length; lia).
    rewrite (map_nth (fun k => (k, nth (Z.to_nat (k - a)) Y d))).
    rewrite zrange_nth by lia. f_equal. f_equal. lia.
Qed.

Theorem fft_table_perm {V} n (X : list V) : Permutation (fft_table n X) (combine (fftfreq_idx n) X).
Proof. apply sort_k_perm. Qed.

Theorem fft_table_spec {V} (d : V) n (X : list V) : length X = n ->
  fft_table n X = map (fun k => (k, nth (Z.to_nat (k mod Z.of_nat n)) X d)) (zrange (- Z.of_nat (n / 2)) n).
Proof.
  intros HX. unfold fft_table, fftfreq_idx.
  set (p := ((n + 1) / 2)%nat). set (q := (n / 2)%nat).
  assert (Hn : (q + p = n)%nat) by (subst p q; lia).
  rewrite combine_app_l, zrange_length.
  assert (L1 : length (firstn p X) = p) by (rewrite firstn_length; lia).
  assert (L2 : length (skipn p X) = q) by (rewrite skipn_length; lia).
  rewrite sort_k_two.
  - replace (zrange (- Z.of_nat q) n) with (zrange (- Z.of_nat q) (q + p)) by (rewrite Hn; reflexivity).
    rewrite zrange_app, map_app. f_equal.
    + rewrite (combine_zrange d) by exact L2. apply map_ext_in. intros k Hk.
      apply zrange_In in Hk. f_equal. rewrite nth_skipn'. f_equal.
      assert (E : k mod Z.of_nat n = k + Z.of_nat n).
      { symmetry. apply (Z.mod_unique _ _ (-1)); lia. }
      rewrite E. lia.
    + replace (- Z.of_nat q + Z.of_nat q) with 0 by lia.
      rewrite (combine_zrange d) by exact L1. apply map_ext_in. intros k Hk.
      apply zrange_In in Hk. f_equal. rewrite nth_firstn' by lia. f_equal.
      rewrite Z.mod_small by lia. lia.
  - rewrite map_fst_combine_gen by (rewrite zrange_length; exact L1). apply sortedZ_zrange.
  - rewrite map_fst_combine_gen by (rewrite zrange_length; exact L2). apply sortedZ_zrange.
  - apply Forall_forall. intros [k1 v1] H1. apply Forall_forall. intros [k2 v2] H2.
    apply in_combine_l in H1, H2. apply zrange_In in H1, H2. simpl. lia.
Qed.

Theorem fft_table_keys {V} n (X : list V) : length X = n ->
  map fst (fft_table n X) = zrange (- Z.of_nat (n / 2)) n.
Proof.
  intros HX. destruct X as [|x X].
  - simpl in HX. subst n. reflexivity.
  - rewrite (fft_table_spec x) by exact HX. rewrite map_map. simpl. apply map_id.
Qed.

Lemma filter_none' {A} (p : A -> bool) l : (forall x, In x l -> p x = false) -> filter p l = [].
Proof.
  induction l as [|x r IH]; intros H; simpl; [reflexivity|].
  rewrite (H x) by (left; reflexivity). apply IH. intros y Hy. apply H. right; exact Hy.
Qed.
Lemma filter_all' {A} (p : A -> bool) l : (forall x, In x l -> p x = true) -> filter p l = l.
Proof.
  induction l as [|x r IH]; intros H; simpl; [reflexivity|].
  rewrite (H x) by (left; reflexivity). f_equal. apply IH. intros y Hy. apply H. right; exact Hy.
Qed.

Theorem nonneg_table_spec {V} (d : V) n (X : list V) : length X = n ->
  nonneg (fft_table n X) = map (fun k => (k, nth (Z.to_nat k) X d)) (zrange 0 ((n + 1) / 2)).
Proof.
  intros HX. rewrite (fft_table_spec d) by exact HX.
  set (p := ((n + 1) / 2)%nat). set (q := (n / 2)%nat).
  assert (Hn : (q + p = n)%nat) by (subst p q; lia).
  replace (zrange (- Z.of_nat q) n) with (zrange (- Z.of_nat q) (q + p)) by (rewrite Hn; reflexivity).
  rewrite zrange_app, map_app. unfold nonneg. rewrite filter_app.
  replace (- Z.of_nat q + Z.of_nat q) with 0 by lia.
  rewrite filter_none', filter_all'.
  - simpl. apply map_ext_in. intros k Hk. apply zrange_In in Hk.
    rewrite Z.mod_small by lia. reflexivity.
  - intros kv H. apply in_map_iff in H. destruct H as [k [E Hk]]. subst kv. apply zrange_In in Hk. simpl. lia.
  - intros kv H. apply in_map_iff in H. destruct H as [k [E Hk]]. subst kv. apply zrange_In in Hk. simpl. lia.
Qed.

(* ---- frequencies ---- *)
Lemma injn_pos n : (0 < n)%nat -> (0 < inject_Z (Z.of_nat n))%Q.
Proof. intros H. change 0%Q with (inject_Z 0). rewrite <- Zlt_Qlt. lia. Qed.

Lemma ustep_pos fs n : (0 < fs)%Q -> (0 < n)%nat -> (0 < fs / inject_Z (Z.of_nat n))%Q.
Proof.
  intros Hfs Hn. apply Qlt_shift_div_l; [apply injn_pos; exact Hn|].
  rewrite Qmult_0_l. exact Hfs.
Qed.

Lemma freq_eq fs n k : (freq fs n k == inject_Z k * (fs / inject_Z (Z.of_nat n)))%Q.
Proof. unfold freq, Qdiv. symmetry. apply Qmult_assoc. Qed.

Theorem freq_mono fs n k k' : (0 < fs)%Q -> (0 < n)%nat -> (k < k' <-> (freq fs n k < freq fs n k')%Q).
Proof.
  intros Hfs Hn. rewrite !freq_eq. rewrite Qmult_lt_r by (apply ustep_pos; assumption).
  rewrite <- Zlt_Qlt. reflexivity.
Qed.
Theorem freq_nonneg fs n k : (0 < fs)%Q -> (0 < n)%nat -> (0 <= k <-> (0 <= freq fs n k)%Q).
Proof.
  intros Hfs Hn. rewrite freq_eq.
  rewrite <- (Qmult_0_l (fs / inject_Z (Z.of_nat n))).
  rewrite Qmult_le_r by (apply ustep_pos; assumption).
  change 0%Q with (inject_Z 0). rewrite <- Zle_Qle. reflexivity.
Qed.

Lemma Qltb_iff a b : Qltb a b = true <-> (a < b)%Q.
Proof.
  unfold Qltb. rewrite negb_true_iff. split.
  - intros H. apply Qnot_le_lt. intros C. apply Qle_bool_iff in C. congruence.
  - intros H. destruct (Qle_bool b a) eqn:E; [|reflexivity].
    apply Qle_bool_iff in E. exfalso. exact (Qlt_not_le _ _ H E).
Qed.

Theorem mask_orig_exact fs n k : (0 < fs)%Q -> (0 < n)%nat ->
  (eps6 < fs / inject_Z (2 * Z.of_nat n))%Q ->
  (mask_orig fs n k = true <-> k <> 0 /\ 2 * k < Z.of_nat n).
Proof.
  intros Hfs Hn Heps. unfold mask_orig. rewrite andb_true_iff, negb_true_iff, Z.eqb_neq, Qltb_iff.
  rewrite freq_eq.
  pose proof (ustep_pos fs n Hfs Hn) as Hu.
  pose proof (injn_pos n Hn) as HN.
  set (u := (fs / inject_Z (Z.of_nat n))%Q) in *.
  assert (Efs : (fs == inject_Z (Z.of_nat n) * u)%Q).
  { subst u. rewrite Qmult_div_r; [reflexivity|]. intros C. rewrite C in HN. exact (Qlt_irrefl _ HN). }
  assert (Eh : (fs / inject_Z (2 * Z.of_nat n) == u / (2 # 1))%Q).
  { subst u. rewrite inject_Z_mult. field. intros C. rewrite C in HN. exact (Qlt_irrefl _ HN). }
  rewrite Eh in Heps. rewrite Efs.
  assert (He : (0 < eps6)%Q) by reflexivity.
  split; intros [Hk H]; (split; [exact Hk|]).
  - assert (H2 : (inject_Z (2 * k) * u < inject_Z (Z.of_nat n) * u)%Q).
    { rewrite inject_Z_mult. change (inject_Z 2) with (2 # 1)%Q. rewrite <- Qmult_assoc.
      set (a := (inject_Z k * u)%Q) in *. set (b := (inject_Z (Z.of_nat n) * u)%Q) in *.
      unfold Qdiv in *. change (/ (2 # 1))%Q with (1 # 2)%Q in *. lra. }
    apply Qmult_lt_r in H2; [|exact Hu]. rewrite <- Zlt_Qlt in H2. exact H2.
  - assert (H2 : (inject_Z (2 * k + 1) * u <= inject_Z (Z.of_nat n) * u)%Q).
    { apply Qmult_le_r; [exact Hu|]. rewrite <- Zle_Qle. lia. }
    rewrite inject_Z_plus, inject_Z_mult in H2. change (inject_Z 2) with (2 # 1)%Q in H2.
    change (inject_Z 1) with 1%Q in H2. rewrite Qmult_plus_distr_l, <- Qmult_assoc in H2.
    set (a := (inject_Z k * u)%Q) in *. set (b := (inject_Z (Z.of_nat n) * u)%Q) in *.
    unfold Qdiv in *. change (/ (2 # 1))%Q with (1 # 2)%Q in *. lra.
Qed.

(* the repaired mask: a row is doubled iff k > 0 *)
Theorem doubled_iff k : doubled k = true <-> 0 < k.
Proof. unfold doubled. apply Z.ltb_lt. Qed.
(* every row of the one-sided output lies strictly below Nyquist (fftfreq puts Nyquist, even n, at the negative end) *)
Theorem onesided_rows_below_nyquist n k : In k (zrange 0 ((n + 1) / 2)) -> 0 <= k /\ 2 * k < Z.of_nat n.
Proof. intros Hk. apply zrange_In in Hk. lia. Qed.
Theorem doubled_onesided n k : In k (zrange 0 ((n + 1) / 2)) -> doubled k = negb (k =? 0).
Proof.
  intros Hk. apply zrange_In in Hk. unfold doubled.
  destruct (Z.eqb_spec k 0) as [E|E]; cbn [negb]; [apply Z.ltb_ge|apply Z.ltb_lt]; lia.
Qed.
Theorem double_rows_onesided {V} (dbl : V -> V) (d : V) n (X : list V) : length X = n ->
  double_rows dbl (nonneg (fft_table n X))
  = map (fun k => (k, if k =? 0 then nth (Z.to_nat k) X d else dbl (nth (Z.to_nat k) X d))) (zrange 0 ((n + 1) / 2)).
Proof.
  intros HX. rewrite (nonneg_table_spec d) by exact HX.
  unfold double_rows. rewrite map_map. apply map_ext_in. intros k Hk. cbn [fst snd].
  rewrite (doubled_onesided n k Hk). destruct (k =? 0); reflexivity.
Qed.
(* history: in its regime the original mask agrees with the repaired one on the one-sided rows *)
Theorem mask_orig_agrees fs n k : (0 < fs)%Q -> (0 < n)%nat ->
  (eps6 < fs / inject_Z (2 * Z.of_nat n))%Q -> In k (zrange 0 ((n + 1) / 2)) ->
  mask_orig fs n k = doubled k.
Proof.
  intros Hfs Hn Heps Hk. pose proof (mask_orig_exact fs n k Hfs Hn Heps) as HD.
  pose proof (doubled_iff k) as HI. apply zrange_In in Hk.
  apply Bool.eq_true_iff_eq. rewrite HD, HI. lia.
Qed.

(* crop / zero-pad *)
Theorem crop_pad_length {A} (z : A) n x : length (crop_pad z n x) = n.
Proof. unfold crop_pad. rewrite app_length, firstn_length, repeat_length. lia. Qed.
Theorem crop_pad_nth {A} (z : A) n x i : (i < n)%nat -> nth i (crop_pad z n x) z = nth i x z.
Proof.
  intros Hi. unfold crop_pad. destruct (Nat.lt_ge_cases i (length x)) as [H|H].
  - rewrite app_nth1 by (rewrite firstn_length; lia). apply nth_firstn'. exact Hi.
  - rewrite app_nth2 by (rewrite firstn_length; lia). rewrite firstn_length.
    rewrite (nth_overflow x) by lia. apply nth_repeat_lt. lia.
Qed.

(* restrict to the single epoch *)
Theorem epoch_rows_spec {A} (d : A) ts (vs : list A) s e : sortedZ ts -> s < e -> length vs = length ts ->
  epoch_rows d ts vs s e = map snd (filter (fun tv => (s <=? fst tv) && (fst tv <=? e)) (combine ts vs)).
Proof.
  intros Hs Hse Hl. unfold epoch_rows.
  rewrite restrict_idx_spec; [|exact Hs|simpl; auto].
  pose proof (select_filter_idx d (fun x => mem x [(s, e)]) ts [] vs Hl) as H. cbn [app length] in H.
  rewrite H. f_equal. apply filter_ext. intros [t v]. unfold inb. simpl. apply orb_false_r.
Qed.

(* _overlap_split *)
Theorem seg_count_iff s e L st j : 0 < st ->
  ((j < seg_count s e L st)%nat <-> s + Z.of_nat j * st + L < e).
Proof.
  intros Hst. unfold seg_count. destruct (e - s - L <=? 0) eqn:E.
  - split; [simpl; lia|]. nia.
  - assert (D : 0 < e - s - L) by lia. clear E.
    pose proof (Z.div_mod (e - s - L + st - 1) st ltac:(lia)) as Hd.
    pose proof (Z.mod_pos_bound (e - s - L + st - 1) st Hst) as Hm.
    set (q := (e - s - L + st - 1) / st) in *. set (r := (e - s - L + st - 1) mod st) in *.
    assert (0 <= q) by nia.
    split; intros H1.
    + assert (Z.of_nat j + 1 <= q) by lia. nia.
    + assert (Z.of_nat j < q) by nia. lia.
Qed.

Lemma seg_count_step t e L st : 0 < st -> t + L < e ->
  seg_count t e L st = S (seg_count (t + st) e L st).
Proof.
  intros Hst Ht.
  assert (K : forall c1 c2 : nat, (0 < c1)%nat -> (forall j, (j < c2)%nat <-> (S j < c1)%nat) -> c1 = S c2).
  { intros c1 c2 H0 H. destruct c1 as [|c1]; [lia|]. f_equal.
    destruct (Nat.lt_trichotomy c1 c2) as [C|[C|C]]; [|exact C|].
    - apply H in C. lia.
    - assert (S c2 < S c1)%nat as C' by lia. apply H in C'. lia. }
  apply K.
  - apply seg_count_iff; [exact Hst|]. simpl. lia.
  - intros j. rewrite !seg_count_iff by exact Hst. lia.
Qed.

Lemma seg_count_zero t e L st : e <= t + L -> seg_count t e L st = 0%nat.
Proof. intros H. unfold seg_count. destruct (e - t - L <=? 0) eqn:E; [reflexivity|lia]. Qed.

Lemma seg_go_gen e L st : 0 < st -> forall fuel t, (seg_count t e L st <= fuel)%nat ->
  seg_go fuel t e L st
  = map (fun j => (t + Z.of_nat j * st, t + Z.of_nat j * st + L)) (seq 0 (seg_count t e L st)).
Proof.
  intros Hst. induction fuel as [|f IH]; intros t Hc.
  - assert (E : seg_count t e L st = 0%nat) by lia. rewrite E. reflexivity.
  - simpl. destruct (t + L <? e) eqn:E.
    + apply Z.ltb_lt in E. rewrite (seg_count_step t e L st Hst E) in *.
      rewrite IH by lia. simpl. f_equal; [f_equal; lia|].
      rewrite <- seq_shift, map_map. apply map_ext. intros j. f_equal; lia.
    + apply Z.ltb_ge in E. rewrite seg_count_zero by lia. reflexivity.
Qed.

Lemma seg_count_fuel s e L st : 0 < st -> 0 < L -> (seg_count s e L st <= seg_fuel s e st)%nat.
Proof.
  intros Hst HL. unfold seg_count, seg_fuel. destruct (e - s - L <=? 0) eqn:E; [simpl; lia|].
  apply Z2Nat.inj_le.
  - apply Z.div_pos; lia.
  - assert (0 <= (e - s) / st) by (apply Z.div_pos; lia). lia.
  - replace ((e - s) / st + 1) with ((e - s + 1 * st) / st) by (rewrite Z.div_add by lia; reflexivity).
    apply Z.div_le_mono; lia.
Qed.

Theorem seg_go_spec s e L st : 0 < st -> 0 < L ->
  seg_go (seg_fuel s e st) s e L st
  = map (fun j => (s + Z.of_nat j * st, s + Z.of_nat j * st + L)) (seq 0 (seg_count s e L st)).
Proof. intros Hst HL. apply seg_go_gen; [exact Hst|]. apply seg_count_fuel; assumption. Qed.

Theorem overlap_split_spec ep L st : 0 < st -> 0 < L ->
  overlap_split ep L st
  = concat (map (fun se => map (fun j => (fst se + Z.of_nat j * st, fst se + Z.of_nat j * st + L))
                               (seq 0 (seg_count (fst se) (snd se) L st))) ep).
Proof.
  intros Hst HL. unfold overlap_split. f_equal. apply map_ext. intros [s e]. apply seg_go_spec; assumption.
Qed.

Theorem overlap_split_inside ep L st a b : 0 < st -> 0 < L -> In (a, b) (overlap_split ep L st) ->
  b = a + L /\ exists s e j, In (s, e) ep /\ a = s + Z.of_nat j * st /\ s <= a /\ b < e.
Proof.
  intros Hst HL H. rewrite overlap_split_spec in H by assumption.
  apply in_concat in H. destruct H as [l [Hl Hab]].
  apply in_map_iff in Hl. destruct Hl as [[s e] [El Hse]]. subst l. cbn [fst snd] in Hab.
  apply in_map_iff in Hab. destruct Hab as [j [Ej Hj]]. apply in_seq in Hj.
  inversion Ej; subst. split; [reflexivity|].
  exists s, e, j. split; [exact Hse|]. split; [reflexivity|].
  assert (Hc : (j < seg_count s e L st)%nat) by lia.
  apply seg_count_iff in Hc; [|exact Hst]. split; [nia|lia].
Qed.

Lemma seg_count_bound s e L st : 0 < st <= L -> s < e -> Z.of_nat (seg_count s e L st) * st <= e - s.
Proof.
  intros Hst Hse. destruct (seg_count s e L st) as [|c] eqn:E; [simpl; lia|].
  assert (Hc : (c < seg_count s e L st)%nat) by lia.
  apply seg_count_iff in Hc; [|lia]. nia.
Qed.

Lemma overlap_split_len ep L st : 0 < st <= L -> canonical ep ->
  Z.of_nat (length (overlap_split ep L st)) * st <= tot_length ep.
Proof.
  intros Hst Hc. rewrite overlap_split_spec by lia.
  induction ep as [|[s e] r IH]; [simpl; lia|].
  assert (Hse : s < e) by (simpl in Hc; tauto).
  specialize (IH (canonical_tail _ _ Hc)).
  cbn [map concat fst snd tot_length]. rewrite app_length, map_length, seq_length.
  pose proof (seg_count_bound s e L st Hst Hse). nia.
Qed.

(* the kernel's preallocated row count is never exceeded (overlap >= 0, i.e. st <= L) *)
Theorem overlap_split_bound ep L st : 0 < st <= L -> canonical ep ->
  Z.of_nat (length (overlap_split ep L st)) < alloc_rows ep st.
Proof.
  intros Hst Hc. pose proof (overlap_split_len ep L st Hst Hc) as H.
  unfold alloc_rows.
  assert (Z.of_nat (length (overlap_split ep L st)) <= (tot_length ep + st - 1) / st); [|lia].
  apply Z.div_le_lower_bound; [lia|]. lia.
Qed.

(* slices *)
Theorem seg_values_spec {A} ts (vs : list A) a b : sortedZ ts -> length vs = length ts ->
  slice (fst (get_range a b ts)) (snd (get_range a b ts)) vs
  = map snd (filter (fun tv => (a <=? fst tv) && (fst tv <=? b)) (combine ts vs)).
Proof.
  intros Hs Hl. unfold get_range. cbn [fst snd].
  rewrite <- (slice_rows_window a b ts vs Hs Hl). rewrite <- map_slice.
  rewrite map_snd_combine_gen by exact Hl. reflexivity.
Qed.

Lemma min_len_aux x r :
  let m := fold_right (fun y m => Nat.min (slice_len y) m) (slice_len x) r in
  (m <= slice_len x)%nat /\ Forall (fun ab => (m <= slice_len ab)%nat) r /\
  (m = slice_len x \/ exists ab, In ab r /\ slice_len ab = m).
Proof.
  induction r as [|y r IH]; simpl.
  - split; [lia|]. split; [constructor|]. left; reflexivity.
  - destruct IH as [H1 [H2 H3]].
    set (m := fold_right (fun y m => Nat.min (slice_len y) m) (slice_len x) r) in *.
    split; [lia|]. split.
    + constructor; [lia|]. eapply Forall_impl; [|exact H2]. simpl. intros; lia.
    + destruct (Nat.le_ge_cases (slice_len y) m) as [C|C].
      * right. exists y. split; [left; reflexivity|lia].
      * rewrite Nat.min_r by exact C. destruct H3 as [H3|[ab [Hi He]]]; [left; exact H3|].
        right. exists ab. split; [right; exact Hi|exact He].
Qed.

Theorem min_len_spec sl : sl <> [] ->
  Forall (fun ab => (min_len sl <= slice_len ab)%nat) sl /\ exists ab, In ab sl /\ slice_len ab = min_len sl.
Proof.
  intros Hne. destruct sl as [|x r]; [congruence|]. unfold min_len.
  destruct (min_len_aux x r) as [H1 [H2 H3]]. split.
  - constructor; assumption.
  - destruct H3 as [H3|[ab [Hi He]]].
    + exists x. split; [left; reflexivity|symmetry; exact H3].
    + exists ab. split; [right; exact Hi|exact He].
Qed.

Theorem mean_plan_spec ts ep L st N sl : mean_plan ts ep L st = Some (N, sl) ->
  sl = seg_slices ts (overlap_split ep L st) /\ sl <> [] /\ N = min_len sl /\ (0 < N)%nat.
Proof.
  unfold mean_plan. destruct (seg_slices ts (overlap_split ep L st)) as [|x r] eqn:E; [discriminate|].
  destruct (min_len (x :: r) =? 0)%nat eqn:E0; [discriminate|].
  intros H. inversion H; subst. apply Nat.eqb_neq in E0.
  split; [reflexivity|]. split; [discriminate|]. split; [reflexivity|]. change (0 < min_len (x :: r))%nat. lia.
Qed.

(* Outside the regime fs/(2n) > 1e-6 the ORIGINAL mask was not exact: at fs = 2^-20 Hz, n = 3, the strictly positive,
   non-Nyquist bin k = 1 is not doubled (the guard fs/2 - 1e-6 is negative).  Witness replayed on /repo:
   compute_power_spectral_density(Tsd(t=[0, 2^20, 2^21], d=[1,2,4]), fs=2**-20) left row 1 undoubled before the repair. *)
Theorem mask_orig_low_rate_refuted :
  exists fs n k, (0 < fs)%Q /\ (0 < n)%nat /\ 0 < k /\ 2 * k < Z.of_nat n /\ mask_orig fs n k = false.
Proof.
  exists (1 # 1048576)%Q, 3%nat, 1. split; [reflexivity|]. split; [lia|]. split; [lia|]. split; [simpl; lia|].
  vm_compute. reflexivity.
Qed.

Print Assumptions fft_table_spec.
Print Assumptions nonneg_table_spec.
Print Assumptions mask_orig_exact.
Print Assumptions mask_orig_agrees.
Print Assumptions doubled_onesided.
Print Assumptions double_rows_onesided.
Print Assumptions epoch_rows_spec.
Print Assumptions overlap_split_spec.
Print Assumptions overlap_split_inside.
Print Assumptions overlap_split_bound.
Print Assumptions seg_values_spec.
Print Assumptions mean_plan_spec.
Print Assumptions mask_orig_low_rate_refuted.
