(* The nearest-sample search of the continuous perievent kernel: the greedy search with its persistent
   cursor (pc_epoch_pos) computes, for every event in turn, the brute-force argmin (argmin_last). *)
From Verif Require Import Base.Prelude Model.Restrict Model.Count Model.Slice Model.Perievent
  Proofs.BaseLemmas Proofs.RestrictProofs Proofs.CountProofs Proofs.SliceProofs.

(* "p is the nearest sample to x, the later one on ties" *)
Definition nearest_last (es : list Z) (x : Z) (p : nat) : Prop :=
  (p < length es)%nat
  /\ (forall q, (q < length es)%nat -> Z.abs (nth p es 0 - x) <= Z.abs (nth q es 0 - x))
  /\ (forall q, (p < q < length es)%nat -> Z.abs (nth p es 0 - x) < Z.abs (nth q es 0 - x)).

(* ------------------------------------------------------------------ *)
(* brute force                                                         *)
(* ------------------------------------------------------------------ *)
Lemma nth_snoc_lt (pre : list Z) y q : (q < length pre)%nat -> nth q (pre ++ [y]) 0 = nth q pre 0.
Proof. intros H. apply app_nth1; exact H. Qed.

Lemma nth_snoc_eq (pre : list Z) y : nth (length pre) (pre ++ [y]) 0 = y.
Proof. rewrite app_nth2 by lia. rewrite Nat.sub_diag. reflexivity. Qed.

Lemma argmin_last_go_spec x : forall r pre i best bd,
  i = length pre ->
  bd = Z.abs (nth best pre 0 - x) ->
  nearest_last pre x best ->
  nearest_last (pre ++ r) x (argmin_last_go x r i best bd).
Proof.
  induction r as [|y r IH]; intros pre i best bd Hi Hbd Hn.
  - simpl. rewrite app_nil_r. exact Hn.
  - cbn [argmin_last_go]. cbv zeta.
    replace (pre ++ y :: r) with ((pre ++ [y]) ++ r) by (rewrite <- app_assoc; reflexivity).
    destruct Hn as (Hb & Hle & Hlt).
    assert (Hlen : length (pre ++ [y]) = S (length pre)) by (rewrite app_length; simpl; lia).
    destruct (Z.leb_spec (Z.abs (y - x)) bd) as [Hc|Hc].
    + apply IH.
      * lia.
      * subst i. rewrite nth_snoc_eq. reflexivity.
      * subst i. unfold nearest_last. rewrite Hlen, nth_snoc_eq. repeat split.
        -- lia.
        -- intros q Hq. destruct (Nat.eq_dec q (length pre)) as [->|Hne].
           ++ rewrite nth_snoc_eq. lia.
           ++ rewrite nth_snoc_lt by lia. specialize (Hle q ltac:(lia)). lia.
        -- intros q Hq. lia.
    + apply IH.
      * lia.
      * rewrite nth_snoc_lt by lia. exact Hbd.
      * unfold nearest_last. rewrite Hlen. rewrite nth_snoc_lt by lia. repeat split.
        -- lia.
        -- intros q Hq. destruct (Nat.eq_dec q (length pre)) as [->|Hne].
           ++ rewrite nth_snoc_eq. lia.
           ++ rewrite nth_snoc_lt by lia. apply Hle. lia.
        -- intros q Hq. destruct (Nat.eq_dec q (length pre)) as [->|Hne].
           ++ rewrite nth_snoc_eq. lia.
           ++ rewrite nth_snoc_lt by lia. apply Hlt. lia.
Qed.

(* the brute-force argmin is characterised (no sortedness needed) *)
Theorem argmin_last_spec : forall x es, es <> [] -> nearest_last es x (argmin_last x es).
Proof.
  intros x [|y r] Hne; [congruence|].
  unfold argmin_last.
  change (y :: r) with ([y] ++ r).
  apply argmin_last_go_spec.
  - reflexivity.
  - reflexivity.
  - unfold nearest_last. simpl. repeat split.
    + lia.
    + intros q Hq. assert (q = 0)%nat by lia. subst q. lia.
    + intros q Hq. lia.
Qed.

(* the characterisation determines the position *)
Theorem nearest_last_unique : forall es x p q, nearest_last es x p -> nearest_last es x q -> p = q.
Proof.
  intros es x p q (Hp & Hple & Hplt) (Hq & Hqle & Hqlt).
  destruct (Nat.lt_trichotomy p q) as [H|[H|H]]; [|exact H|].
  - specialize (Hplt q ltac:(lia)). specialize (Hqle p Hp). lia.
  - specialize (Hqlt p ltac:(lia)). specialize (Hple q Hq). lia.
Qed.

(* ------------------------------------------------------------------ *)
(* the greedy search                                                   *)
(* ------------------------------------------------------------------ *)
Definition cursor_ok (es : list Z) (x : Z) (t : nat) : Prop :=
  (t < length es)%nat
  /\ forall q, (q <= t)%nat -> Z.abs (nth t es 0 - x) <= Z.abs (nth q es 0 - x).

Lemma skipn_cons_inv : forall n (l : list Z) y r,
  skipn n l = y :: r -> nth n l 0 = y /\ skipn (S n) l = r /\ (n < length l)%nat.
Proof.
  induction n as [|n IH]; intros l y r H.
  - simpl in H. subst l. simpl. repeat split. lia.
  - destruct l as [|a l]; [simpl in H; discriminate|].
    simpl in H. destruct (IH l y r H) as (H1 & H2 & H3).
    repeat split.
    + exact H1.
    + exact H2.
    + simpl. lia.
Qed.

Lemma skipn_nil_inv : forall n (l : list Z), skipn n l = [] -> (length l <= n)%nat.
Proof.
  intros n l H. pose proof (skipn_length n l) as HL. rewrite H in HL. simpl in HL. lia.
Qed.

Lemma pc_adv_spec es x : sortedZ es -> forall rest t_pos interval t,
  t = S t_pos ->
  rest = skipn t es ->
  interval = Z.abs (nth t_pos es 0 - x) ->
  cursor_ok es x t_pos ->
  nearest_last es x (pc_adv x rest t_pos interval t) /\ (t_pos <= pc_adv x rest t_pos interval t)%nat.
Proof.
  intros Hs. pose proof (sorted_nth_mono es Hs) as Hmono.
  induction rest as [|y r IH]; intros t_pos interval t Ht Hrest Hint (Hlt & Hpre).
  - simpl. split; [|lia].
    symmetry in Hrest. apply skipn_nil_inv in Hrest.
    unfold nearest_last. repeat split.
    + exact Hlt.
    + intros q Hq. apply Hpre. lia.
    + intros q Hq. lia.
  - cbn [pc_adv]. cbv zeta. subst t.
    symmetry in Hrest. destruct (skipn_cons_inv _ _ _ _ Hrest) as (Hy & Hr & Hlen).
    destruct (Z.ltb_spec interval (Z.abs (y - x))) as [Hc|Hc].
    + split; [|lia].
      unfold nearest_last. repeat split.
      * exact Hlt.
      * intros q Hq. destruct (Nat.le_gt_cases q t_pos) as [Hq1|Hq1]; [apply Hpre; exact Hq1|].
        pose proof (Hmono t_pos (S t_pos) ltac:(lia)) as M1.
        pose proof (Hmono (S t_pos) q ltac:(lia)) as M2.
        rewrite Hy in *. lia.
      * intros q Hq.
        pose proof (Hmono t_pos (S t_pos) ltac:(lia)) as M1.
        pose proof (Hmono (S t_pos) q ltac:(lia)) as M2.
        rewrite Hy in *. lia.
    + specialize (IH (S t_pos) (Z.abs (y - x)) (S (S t_pos)) eq_refl (eq_sym Hr)).
      destruct IH as (IH1 & IH2).
      * rewrite Hy. reflexivity.
      * split; [exact Hlen|].
        intros q Hq. destruct (Nat.eq_dec q (S t_pos)) as [->|Hne]; [lia|].
        specialize (Hpre q ltac:(lia)). rewrite Hy. lia.
      * split; [exact IH1|lia].
Qed.

Lemma pc_nearest_from_spec es x t : sortedZ es -> cursor_ok es x t ->
  nearest_last es x (pc_nearest_from x es t).
Proof.
  intros Hs Hc. unfold pc_nearest_from.
  apply (pc_adv_spec es x Hs (skipn (S t) es) t _ (S t) eq_refl eq_refl eq_refl Hc).
Qed.

Lemma cursor_ok_0 es x : es <> [] -> cursor_ok es x 0.
Proof.
  intros Hne. destruct es as [|y r]; [congruence|].
  split; [simpl; lia|]. intros q Hq. assert (q = 0)%nat by lia. subst q. lia.
Qed.

(* cursor hand-over from one event to the next *)
Lemma cursor_handover es x x' p : sortedZ es -> x <= x' -> nearest_last es x p -> cursor_ok es x' p.
Proof.
  intros Hs Hx (Hp & Hle & _). pose proof (sorted_nth_mono es Hs) as Hmono.
  split; [exact Hp|].
  intros q Hq. specialize (Hle q ltac:(lia)). specialize (Hmono q p ltac:(lia)). lia.
Qed.

Lemma pc_epoch_pos_gen es : es <> [] -> sortedZ es -> forall xs t, sortedZ xs ->
  match xs with [] => True | x :: _ => cursor_ok es x t end ->
  pc_epoch_pos es xs t = map (fun x => argmin_last x es) xs.
Proof.
  intros Hne Hs. induction xs as [|x xs IH]; intros t Hxs Hc; [reflexivity|].
  cbn [pc_epoch_pos map]. cbv zeta.
  pose proof (pc_nearest_from_spec es x t Hs Hc) as Hn.
  assert (Heq : pc_nearest_from x es t = argmin_last x es)
    by (eapply nearest_last_unique; [exact Hn|apply argmin_last_spec; exact Hne]).
  f_equal; [exact Heq|].
  apply IH.
  - eapply sortedZ_tail; exact Hxs.
  - destruct xs as [|x' xs']; [exact I|].
    apply (cursor_handover es x x' _ Hs); [|exact Hn].
    simpl in Hxs. tauto.
Qed.

(* the kernel's greedy search with its persistent cursor finds, for every event of the epoch in turn, that
   position: es = the (sorted) sample times of the epoch, xs = the (sorted) event times inside it *)
Theorem pc_epoch_pos_spec : forall es xs, es <> [] -> sortedZ es -> sortedZ xs ->
  pc_epoch_pos es xs 0%nat = map (fun x => argmin_last x es) xs.
Proof.
  intros es xs Hne Hs Hxs. apply pc_epoch_pos_gen; try assumption.
  destruct xs; [exact I|]. apply cursor_ok_0; exact Hne.
Qed.
