(* Theorems about the models of Tsd.threshold's support computation and of dropna's
   (Model/Threshold.v).  No axioms. *)
From Verif Require Import Base.Prelude Model.Threshold Proofs.BaseLemmas.
From Coq Require Import ZifyBool.

(* ------------------------------------------------------------------ *)
(* Part A: dropna                                                      *)
(* ------------------------------------------------------------------ *)

(* consecutive timestamps are more than 1 us apart *)
Fixpoint spaced (ts : list Z) : Prop :=
  match ts with
  | [] => True
  | x :: r => match r with [] => True | y :: _ => x + us < y end /\ spaced r
  end.

Lemma spaced_tail x r : spaced (x :: r) -> spaced r.
Proof. simpl. tauto. Qed.

Lemma spaced_Forall r : forall x, spaced (x :: r) -> Forall (fun z => x + us < z) r.
Proof.
  induction r as [|y r IH]; intros x H; [constructor|].
  destruct H as [H1 H2]. constructor; [assumption|].
  eapply Forall_impl'; [|apply (IH y H2)]. intros z Hz; simpl in Hz. unfold us in *. lia.
Qed.

Lemma spaced_strictly_increasing ts : spaced ts -> strictly_increasing ts.
Proof.
  induction ts as [|x r IH]; simpl; [auto|]. intros [H1 H2]. split; [|auto].
  destruct r; [auto|]. unfold us in *. lia.
Qed.

(* the open run (a, b) is well formed w.r.t. the remaining timestamps *)
Definition cur_ok (cur : option (Z * Z)) (ts : list Z) : Prop :=
  match cur with
  | None => True
  | Some (a, b) => a <= b /\ match ts with [] => True | x :: _ => b + us < x end
  end.

Definition widen (a b : Z) : Z := if a =? b then b + us else b.

Lemma widen_bounds a b : a <= b -> a < widen a b /\ b <= widen a b <= b + us.
Proof. unfold widen, us. intros H. destruct (a =? b) eqn:E; lia. Qed.

Lemma runs_go_nil cur :
  runs_go cur [] = match cur with Some (a, b) => [(a, widen a b)] | None => [] end.
Proof. reflexivity. Qed.

Lemma runs_go_cons cur x kx r :
  runs_go cur ((x, kx) :: r) =
  if kx then runs_go (Some (match cur with Some (a, _) => a | None => x end, x)) r
  else match cur with
       | Some (a, b) => (a, widen a b) :: runs_go None r
       | None => runs_go None r
       end.
Proof. reflexivity. Qed.

Lemma runs_canon l : forall cur lo,
  spaced (map fst l) -> cur_ok cur (map fst l) ->
  match cur with
  | Some (a, _) => lo < a
  | None => match l with [] => True | (x, _) :: _ => lo < x end
  end ->
  canon lo (runs_go cur l).
Proof.
  induction l as [|[x kx] r IH]; intros cur lo Hsp Hc Hlo.
  - rewrite runs_go_nil. destruct cur as [[a b]|]; simpl; [|auto].
    destruct Hc as [Hab _]. pose proof (widen_bounds a b Hab). lia.
  - rewrite runs_go_cons. cbn [map fst] in Hsp, Hc.
    pose proof (spaced_tail _ _ Hsp) as Hsp'.
    assert (Hnext : match map fst r with [] => True | y :: _ => x + us < y end)
      by (destruct Hsp as [H _]; exact H).
    destruct kx.
    + apply IH; [assumption| |].
      * destruct cur as [[a b]|]; simpl.
        -- destruct Hc as [Hab Hb]. unfold us in *. split; [lia|exact Hnext].
        -- split; [lia|exact Hnext].
      * destruct cur as [[a b]|]; [exact Hlo|exact Hlo].
    + destruct cur as [[a b]|].
      * destruct Hc as [Hab Hb]. pose proof (widen_bounds a b Hab) as Hw.
        simpl. split; [exact Hlo|]. split; [lia|].
        apply IH; [assumption|exact I|].
        destruct r as [|[y ky] r']; [exact I|]. simpl in Hnext. unfold us in *. lia.
      * apply IH; [assumption|exact I|].
        destruct r as [|[y ky] r']; [exact I|]. simpl in Hnext. unfold us in *. lia.
Qed.

(* the open run's points end up in the result *)
Lemma runs_mem_open l : forall a b z,
  strictly_increasing (map fst l) ->
  (match map fst l with [] => True | x :: _ => b < x end) ->
  a <= z <= b -> mem z (runs_go (Some (a, b)) l) = true.
Proof.
  induction l as [|[x kx] r IH]; intros a b z Hs Hb Hz.
  - rewrite runs_go_nil. simpl. unfold inb; simpl.
    pose proof (widen_bounds a b ltac:(lia)). lia.
  - rewrite runs_go_cons. cbn [map fst] in Hs, Hb. destruct Hs as [Hxy Hs].
    destruct kx.
    + apply IH; [assumption|exact Hxy|lia].
    + rewrite mem_cons. unfold inb; simpl.
      pose proof (widen_bounds a b ltac:(lia)). lia.
Qed.

Lemma runs_contains_kept l : forall cur,
  spaced (map fst l) -> cur_ok cur (map fst l) ->
  Forall (fun x => mem x (runs_go cur l) = true) (kept_times l).
Proof.
  unfold kept_times.
  induction l as [|[x kx] r IH]; intros cur Hsp Hc; [constructor|].
  rewrite runs_go_cons. cbn [map fst] in Hsp, Hc.
  pose proof (spaced_tail _ _ Hsp) as Hsp'.
  assert (Hnext : match map fst r with [] => True | y :: _ => x + us < y end)
    by (destruct Hsp as [H _]; exact H).
  cbn [filter snd]. destruct kx; cbn [map fst].
  - set (a' := match cur with Some (a, _) => a | None => x end).
    assert (Ha' : a' <= x).
    { subst a'. destruct cur as [[a b]|]; [|lia]. destruct Hc as [Hab Hb]. unfold us in *. lia. }
    constructor.
    + apply runs_mem_open; [apply spaced_strictly_increasing; assumption| |lia].
      destruct (map fst r); [exact I|]. unfold us in *. lia.
    + apply IH; [assumption|]. simpl. split; [exact Ha'|exact Hnext].
  - destruct cur as [[a b]|].
    + eapply Forall_impl'; [|apply (IH None Hsp' I)].
      intros z Hz. rewrite mem_cons, Hz. apply orb_true_r.
    + apply IH; [assumption|exact I].
Qed.

Lemma runs_excludes_rejected l : forall cur,
  spaced (map fst l) -> cur_ok cur (map fst l) ->
  Forall (fun p => snd p = false -> mem (fst p) (runs_go cur l) = false) l.
Proof.
  induction l as [|[x kx] r IH]; intros cur Hsp Hc; [constructor|].
  rewrite runs_go_cons. cbn [map fst] in Hsp, Hc.
  pose proof (spaced_tail _ _ Hsp) as Hsp'.
  pose proof (spaced_Forall _ _ Hsp) as Hall.
  assert (Hnext : match map fst r with [] => True | y :: _ => x + us < y end)
    by (destruct Hsp as [H _]; exact H).
  assert (Hcanon : canon x (runs_go None r)).
  { apply runs_canon; [assumption|exact I|].
    destruct r as [|[y ky] r']; [exact I|]. simpl in Hnext. unfold us in *. lia. }
  destruct kx.
  - constructor; [simpl; discriminate|].
    apply IH; [assumption|].
    destruct cur as [[a b]|]; simpl.
    + destruct Hc as [Hab Hb]. unfold us in *. split; [lia|exact Hnext].
    + split; [lia|exact Hnext].
  - destruct cur as [[a b]|].
    + destruct Hc as [Hab Hb]. pose proof (widen_bounds a b Hab) as Hw.
      constructor.
      * intros _. cbn [fst]. rewrite mem_cons.
        rewrite (mem_below _ x x Hcanon) by lia. unfold inb; simpl. lia.
      * pose proof (IH None Hsp' I) as HI.
        rewrite Forall_forall in HI |- *. intros [z kz] Hin Hk.
        rewrite mem_cons, (HI _ Hin Hk). cbn [fst].
        rewrite Forall_forall in Hall.
        assert (x + us < z) by (apply Hall; apply in_map_iff; exists (z, kz); auto).
        unfold inb; simpl. unfold us in *. lia.
    + constructor.
      * intros _. cbn [fst]. apply (mem_below _ x x Hcanon). lia.
      * apply IH; [assumption|exact I].
Qed.

Theorem dropna_contains_kept l :
  spaced (map fst l) -> Forall (fun x => mem x (dropna_support l) = true) (kept_times l).
Proof. intros H. apply runs_contains_kept; [assumption|exact I]. Qed.

Theorem dropna_excludes_rejected l :
  spaced (map fst l) ->
  Forall (fun p => snd p = false -> mem (fst p) (dropna_support l) = false) l.
Proof. intros H. apply runs_excludes_rejected; [assumption|exact I]. Qed.

Theorem dropna_canonical l : spaced (map fst l) -> canonical (dropna_support l).
Proof.
  intros H. destruct l as [|[x kx] r].
  - exact I.
  - apply (canon_canonical _ (x - 1)). apply runs_canon; [assumption|exact I|lia].
Qed.

(* without the spacing hypothesis the exclusion fails: a kept singleton is widened by 1 us
   and swallows a rejected sample closer than 1 us *)
Theorem dropna_refuted_when_close :
  exists l, strictly_increasing (map fst l) /\
    ~ Forall (fun p => snd p = false -> mem (fst p) (dropna_support l) = false) l.
Proof.
  exists [(0, true); (500, false)]. split.
  - simpl. lia.
  - intros H. inversion H as [|? ? _ H2]; subst. inversion H2 as [|? ? H3 _]; subst.
    specialize (H3 eq_refl). vm_compute in H3. discriminate.
Qed.
