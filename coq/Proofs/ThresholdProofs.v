(* Theorems about the models of Tsd.threshold's support computation and of dropna's
   (Model/Threshold.v).  No axioms. *)
From Verif Require Import Base.Prelude Model.Threshold Proofs.BaseLemmas.
From Coq Require Import ZifyBool.

(* ------------------------------------------------------------------ *)
(* Part A: dropna                                                      *)
(* ------------------------------------------------------------------ *)

(* consecutive timestamps are more than 1 us apart *)
Fixpoint spaced (ts : list Z) : Prop :=
  match ts with
  | [] => True
  | x :: r => match r with [] => True | y :: _ => x + us < y end /\ spaced r
  end.

Lemma spaced_tail x r : spaced (x :: r) -> spaced r.
Proof. simpl. tauto. Qed.

Lemma spaced_Forall r : forall x, spaced (x :: r) -> Forall (fun z => x + us < z) r.
Proof.
  induction r as [|y r IH]; intros x H; [constructor|].
  destruct H as [H1 H2]. constructor; [assumption|].
  eapply Forall_impl'; [|apply (IH y H2)]. intros z Hz; simpl in Hz. unfold us in *. lia.
Qed.

Lemma spaced_strictly_increasing ts : spaced ts -> strictly_increasing ts.
Proof.
  induction ts as [|x r IH]; simpl; [auto|]. intros [H1 H2]. split; [|auto].
  destruct r; [auto|]. unfold us in *. lia.
Qed.

(* the open run (a, b) is well formed w.r.t. the remaining timestamps *)
Definition cur_ok (cur : option (Z * Z)) (ts : list Z) : Prop :=
  match cur with
  | None => True
  | Some (a, b) => a <= b /\ match ts with [] => True | x :: _ => b + us < x end
  end.

Definition widen (a b : Z) : Z := if a =? b then b + us else b.

Lemma widen_bounds a b : a <= b -> a < widen a b /\ b <= widen a b <= b + us.
Proof. unfold widen, us. intros H. destruct (a =? b) eqn:E; lia. Qed.

Lemma runs_go_nil cur :
  runs_go cur [] = match cur with Some (a, b) => [(a, widen a b)] | None => [] end.
Proof. reflexivity. Qed.

Lemma runs_go_cons cur x kx r :
  runs_go cur ((x, kx) :: r) =
  if kx then runs_go (Some (match cur with Some (a, _) => a | None => x end, x)) r
  else match cur with
       | Some (a, b) => (a, widen a b) :: runs_go None r
       | None => runs_go None r
       end.
Proof. reflexivity. Qed.

Lemma runs_canon l : forall cur lo,
  spaced (map fst l) -> cur_ok cur (map fst l) ->
  match cur with
  | Some (a, _) => lo < a
  | None => match l with [] => True | (x, _) :: _ => lo < x end
  end ->
  canon lo (runs_go cur l).
Proof.
  induction l as [|[x kx] r IH]; intros cur lo Hsp Hc Hlo.
  - rewrite runs_go_nil. destruct cur as [[a b]|]; simpl; [|auto].
    destruct Hc as [Hab _]. pose proof (widen_bounds a b Hab). lia.
  - rewrite runs_go_cons. cbn [map fst] in Hsp, Hc.
    pose proof (spaced_tail _ _ Hsp) as Hsp'.
    assert (Hnext : match map fst r with [] => True | y :: _ => x + us < y end)
      by (destruct Hsp as [H _]; exact H).
    destruct kx.
    + apply IH; [assumption| |].
      * destruct cur as [[a b]|]; simpl.
        -- destruct Hc as [Hab Hb]. unfold us in *. split; [lia|exact Hnext].
        -- split; [lia|exact Hnext].
      * destruct cur as [[a b]|]; [exact Hlo|exact Hlo].
    + destruct cur as [[a b]|].
      * destruct Hc as [Hab Hb]. pose proof (widen_bounds a b Hab) as Hw.
        simpl. split; [exact Hlo|]. split; [lia|].
        apply IH; [assumption|exact I|].
        destruct r as [|[y ky] r']; [exact I|]. simpl in Hnext. unfold us in *. lia.
      * apply IH; [assumption|exact I|].
        destruct r as [|[y ky] r']; [exact I|]. simpl in Hnext. unfold us in *. lia.
Qed.

(* the open run's points end up in the result *)
Lemma runs_mem_open l : forall a b z,
  strictly_increasing (map fst l) ->
  (match map fst l with [] => True | x :: _ => b < x end) ->
  a <= z <= b -> mem z (runs_go (Some (a, b)) l) = true.
Proof.
  induction l as [|[x kx] r IH]; intros a b z Hs Hb Hz.
  - rewrite runs_go_nil. simpl. unfold inb; simpl.
    pose proof (widen_bounds a b ltac:(lia)). lia.
  - rewrite runs_go_cons. cbn [map fst] in Hs, Hb. destruct Hs as [Hxy Hs].
    destruct kx.
    + apply IH; [assumption|exact Hxy|lia].
    + rewrite mem_cons. unfold inb; simpl.
      pose proof (widen_bounds a b ltac:(lia)). lia.
Qed.

Lemma runs_contains_kept l : forall cur,
  spaced (map fst l) -> cur_ok cur (map fst l) ->
  Forall (fun x => mem x (runs_go cur l) = true) (kept_times l).
Proof.
  unfold kept_times.
  induction l as [|[x kx] r IH]; intros cur Hsp Hc; [constructor|].
  rewrite runs_go_cons. cbn [map fst] in Hsp, Hc.
  pose proof (spaced_tail _ _ Hsp) as Hsp'.
  assert (Hnext : match map fst r with [] => True | y :: _ => x + us < y end)
    by (destruct Hsp as [H _]; exact H).
  cbn [filter snd]. destruct kx; cbn [map fst].
  - set (a' := match cur with Some (a, _) => a | None => x end).
    assert (Ha' : a' <= x).
    { subst a'. destruct cur as [[a b]|]; [|lia]. destruct Hc as [Hab Hb]. unfold us in *. lia. }
    constructor.
    + apply runs_mem_open; [apply spaced_strictly_increasing; assumption| |lia].
      destruct (map fst r); [exact I|]. unfold us in *. lia.
    + apply IH; [assumption|]. simpl. split; [exact Ha'|exact Hnext].
  - destruct cur as [[a b]|].
    + eapply Forall_impl'; [|apply (IH None Hsp' I)].
      intros z Hz. rewrite mem_cons, Hz. apply orb_true_r.
    + apply IH; [assumption|exact I].
Qed.

Lemma runs_excludes_rejected l : forall cur,
  spaced (map fst l) -> cur_ok cur (map fst l) ->
  Forall (fun p => snd p = false -> mem (fst p) (runs_go cur l) = false) l.
Proof.
  induction l as [|[x kx] r IH]; intros cur Hsp Hc; [constructor|].
  rewrite runs_go_cons. cbn [map fst] in Hsp, Hc.
  pose proof (spaced_tail _ _ Hsp) as Hsp'.
  pose proof (spaced_Forall _ _ Hsp) as Hall.
  assert (Hnext : match map fst r with [] => True | y :: _ => x + us < y end)
    by (destruct Hsp as [H _]; exact H).
  assert (Hcanon : canon x (runs_go None r)).
  { apply runs_canon; [assumption|exact I|].
    destruct r as [|[y ky] r']; [exact I|]. simpl in Hnext. unfold us in *. lia. }
  destruct kx.
  - constructor; [simpl; discriminate|].
    apply IH; [assumption|].
    destruct cur as [[a b]|]; simpl.
    + destruct Hc as [Hab Hb]. unfold us in *. split; [lia|exact Hnext].
    + split; [lia|exact Hnext].
  - destruct cur as [[a b]|].
    + destruct Hc as [Hab Hb]. pose proof (widen_bounds a b Hab) as Hw.
      constructor.
      * intros _. cbn [fst]. rewrite mem_cons.
        rewrite (mem_below _ x x Hcanon) by lia. unfold inb; simpl. lia.
      * pose proof (IH None Hsp' I) as HI.
        rewrite Forall_forall in HI |- *. intros [z kz] Hin Hk.
        rewrite mem_cons, (HI _ Hin Hk). cbn [fst].
        rewrite Forall_forall in Hall.
        assert (x + us < z) by (apply Hall; apply in_map_iff; exists (z, kz); auto).
        unfold inb; simpl. unfold us in *. lia.
    + constructor.
      * intros _. cbn [fst]. apply (mem_below _ x x Hcanon). lia.
      * apply IH; [assumption|exact I].
Qed.

Theorem dropna_contains_kept l :
  spaced (map fst l) -> Forall (fun x => mem x (dropna_support l) = true) (kept_times l).
Proof. intros H. apply runs_contains_kept; [assumption|exact I]. Qed.

Theorem dropna_excludes_rejected l :
  spaced (map fst l) ->
  Forall (fun p => snd p = false -> mem (fst p) (dropna_support l) = false) l.
Proof. intros H. apply runs_excludes_rejected; [assumption|exact I]. Qed.

Theorem dropna_canonical l : spaced (map fst l) -> canonical (dropna_support l).
Proof.
  intros H. destruct l as [|[x kx] r].
  - exact I.
  - apply (canon_canonical _ (x - 1)). apply runs_canon; [assumption|exact I|lia].
Qed.

(* without the spacing hypothesis the exclusion fails: a kept singleton is widened by 1 us
   and swallows a rejected sample closer than 1 us *)
Theorem dropna_refuted_when_close :
  exists l, strictly_increasing (map fst l) /\
    ~ Forall (fun p => snd p = false -> mem (fst p) (dropna_support l) = false) l.
Proof.
  exists [(0, true); (500, false)]. split.
  - simpl. lia.
  - intros H. inversion H as [|? ? _ H2]; subst. inversion H2 as [|? ? H3 _]; subst.
    specialize (H3 eq_refl). vm_compute in H3. discriminate.
Qed.

(* ------------------------------------------------------------------ *)
(* Part B: threshold                                                   *)
(* ------------------------------------------------------------------ *)

Lemma si_tail x r : strictly_increasing (x :: r) -> strictly_increasing r.
Proof. simpl. tauto. Qed.

Lemma si_Forall r : forall x, strictly_increasing (x :: r) -> Forall (fun z => x < z) r.
Proof.
  induction r as [|y r IH]; intros x H; [constructor|].
  destruct H as [H1 H2]. constructor; [assumption|].
  eapply Forall_impl'; [|apply (IH y H2)]. intros z Hz; simpl in Hz. lia.
Qed.

Lemma canon_In A : forall lo iv, canon lo A -> In iv A -> lo < fst iv.
Proof.
  induction A as [|[s e] r IH]; intros lo iv H Hin; [destruct Hin|].
  destruct H as (H1 & H2 & H3). destruct Hin as [<-|Hin]; [simpl; lia|].
  specialize (IH e iv H3 Hin). lia.
Qed.

(* --- advance --- *)
Lemma advance_cons x s e r :
  advance x ((s, e) :: r) =
  match r with [] => (s, e) :: r | _ :: _ => if e <? x then advance x r else (s, e) :: r end.
Proof. destruct r; reflexivity. Qed.

Lemma advance_id x s e r : x <= e -> advance x ((s, e) :: r) = (s, e) :: r.
Proof.
  intros H. rewrite advance_cons. destruct r; [reflexivity|].
  destruct (e <? x) eqn:E; [lia|reflexivity].
Qed.

Lemma advance_canon x ep : forall lo, canon lo ep -> canon lo (advance x ep).
Proof.
  induction ep as [|[s e] r IH]; intros lo H; [exact H|].
  rewrite advance_cons. destruct r as [|i r']; [exact H|].
  destruct (e <? x); [|exact H]. destruct H as (H1 & H2 & H3).
  apply (canon_weaken _ e lo); [lia|]. apply IH. exact H3.
Qed.

Lemma advance_canonical x ep : canonical ep -> canonical (advance x ep).
Proof.
  intros H. destruct (canonical_canon _ H) as [lo Hlo].
  eapply canon_canonical. apply advance_canon. exact Hlo.
Qed.

Lemma advance_incl x ep : forall iv, In iv (advance x ep) -> In iv ep.
Proof.
  induction ep as [|[s e] r IH]; intros iv H; [exact H|].
  rewrite advance_cons in H. destruct r as [|i r']; [exact H|].
  destruct (e <? x); [right; apply IH; exact H|exact H].
Qed.

Lemma advance_mem x ep : forall z, x <= z -> mem z ep = true -> mem z (advance x ep) = true.
Proof.
  induction ep as [|[s e] r IH]; intros z Hz H; [exact H|].
  rewrite advance_cons. destruct r as [|i r']; [exact H|].
  destruct (e <? x) eqn:E; [|exact H]. apply IH; [lia|].
  rewrite mem_cons in H. unfold inb in H; cbn [fst snd] in H.
  destruct (mem z (i :: r')); [reflexivity|lia].
Qed.

Lemma advance_keep x ep : forall iv, In iv ep -> x <= snd iv -> In iv (advance x ep).
Proof.
  induction ep as [|[s e] r IH]; intros iv H Hx; [exact H|].
  rewrite advance_cons. destruct r as [|i r']; [exact H|].
  destruct (e <? x) eqn:E; [|exact H].
  destruct H as [H|H]; [subst iv; cbn [snd] in Hx; lia|apply IH; assumption].
Qed.

Lemma advance_spec x ep : forall lo, canon lo ep -> mem x ep = true ->
  exists s e rest, advance x ep = (s, e) :: rest /\ s <= x <= e /\ lo < s.
Proof.
  induction ep as [|[s1 e1] r IH]; intros lo Hc Hm; [discriminate|].
  destruct Hc as (H1 & H2 & H3). rewrite advance_cons.
  rewrite mem_cons in Hm. unfold inb in Hm; cbn [fst snd] in Hm.
  destruct r as [|i r'].
  - exists s1, e1, []. cbn [mem existsb] in Hm. split; [reflexivity|]. lia.
  - destruct (e1 <? x) eqn:E.
    + assert (Hm' : mem x (i :: r') = true) by (destruct (mem x (i :: r')); [reflexivity|lia]).
      destruct (IH e1 H3 Hm') as (s & e & rest & Ha & Hb & Hc).
      exists s, e, rest. split; [exact Ha|]. lia.
    + rewrite (mem_below _ e1 x H3) in Hm by lia.
      exists s1, e1, (i :: r'). split; [reflexivity|]. lia.
Qed.

(* --- the state invariant of the kernel's loop --- *)
Definition prev_ok (prev : option (Z * bool)) (ep : iset) (l : list (Z * bool)) : Prop :=
  match prev with
  | None => True
  | Some (p, _) => inb p (hd (0, 0) ep) = true /\
                   match l with [] => True | (x, _) :: _ => p < x end
  end.

Definition Inv (prev : option (Z * bool)) (ep : iset) (l : list (Z * bool)) : Prop :=
  canonical ep /\ strictly_increasing (map fst l) /\
  Forall (fun x => mem x ep = true) (map fst l) /\ prev_ok prev ep l.

Lemma Inv_cons prev ep x kx r : Inv prev ep ((x, kx) :: r) ->
  exists s0 e0 rest0 s e rest,
    ep = (s0, e0) :: rest0 /\ advance x ep = (s, e) :: rest /\
    s <= x <= e /\ s < e /\ s0 <= s /\ (e0 < x -> e0 < s) /\ (x <= e0 -> s = s0 /\ e = e0) /\
    (forall iv, In iv ((s, e) :: rest) -> In iv ep) /\
    Inv (Some (x, kx)) ((s, e) :: rest) r.
Proof.
  intros (Hc & Hsi & Hmem & Hp). cbn [map fst] in Hsi, Hmem.
  inversion Hmem as [|? ? Hx Hmem']; subst.
  destruct ep as [|[s0 e0] rest0]; [discriminate|].
  assert (Hfacts : exists s e rest, advance x ((s0, e0) :: rest0) = (s, e) :: rest /\
            s <= x <= e /\ s0 <= s /\ (e0 < x -> e0 < s) /\ (x <= e0 -> s = s0 /\ e = e0)).
  { pose proof (canonical_canon_tail _ _ _ Hc) as Ht.
    assert (Hse0 : s0 < e0) by (simpl in Hc; tauto).
    destruct (Z_le_gt_dec x e0) as [Hle|Hgt].
    - exists s0, e0, rest0. rewrite advance_id by assumption. split; [reflexivity|].
      rewrite mem_cons in Hx. unfold inb in Hx; cbn [fst snd] in Hx.
      rewrite (mem_below _ e0 x Ht) in Hx by lia. lia.
    - rewrite mem_cons in Hx. unfold inb in Hx; cbn [fst snd] in Hx.
      assert (Hm' : mem x rest0 = true) by (destruct (mem x rest0); [reflexivity|lia]).
      destruct (advance_spec x rest0 e0 Ht Hm') as (s & e & rest & Ha & Hb & Hlo).
      exists s, e, rest. rewrite advance_cons.
      destruct rest0 as [|i r']; [discriminate|].
      destruct (e0 <? x) eqn:E; [|lia]. split; [exact Ha|]. lia. }
  destruct Hfacts as (s & e & rest & Hadv & Hb & F1 & F2 & F3).
  pose proof (advance_canonical x _ Hc) as Hc'. rewrite Hadv in Hc'.
  exists s0, e0, rest0, s, e, rest.
  split; [reflexivity|]. split; [exact Hadv|]. split; [exact Hb|].
  split; [simpl in Hc'; tauto|]. split; [exact F1|]. split; [exact F2|]. split; [exact F3|].
  split; [intros iv Hin; rewrite <- Hadv in Hin; eapply advance_incl; exact Hin|].
  split; [exact Hc'|]. split; [eapply si_tail; exact Hsi|]. split.
  - pose proof (si_Forall _ _ Hsi) as Hlt. rewrite <- Hadv.
    rewrite Forall_forall in *. intros z Hz. apply advance_mem; [|auto].
    specialize (Hlt z Hz). simpl in Hlt. lia.
  - unfold prev_ok. cbn [hd]. unfold inb; cbn [fst snd]. split; [lia|].
    destruct r as [|[y ky] r']; [exact I|]. simpl in Hsi. lia.
Qed.

(* --- a single-list reformulation of thr_go: [cur] is the start of the open run --- *)
Definition firstb (prev : option (Z * bool)) (s : Z) : bool :=
  match prev with None => true | Some (p, _) => p <? s end.
Definition lastb (r : list (Z * bool)) (e : Z) : bool :=
  match r with [] => true | (y, _) :: _ => e <? y end.
Definition prevk (prev : option (Z * bool)) : bool :=
  match prev with Some (_, b) => b | None => false end.
Definition nextk (r : list (Z * bool)) : bool :=
  match r with (_, b) :: _ => b | [] => false end.
Definition startv (prev : option (Z * bool)) (r : list (Z * bool)) (x s e : Z) : Z :=
  if negb (firstb prev s) then x + match prev with Some (p, _) => p | None => x end
  else if lastb r e then 2 * s else 2 * x.
Definition endv (prev : option (Z * bool)) (r : list (Z * bool)) (x s e : Z) : Z :=
  if negb (lastb r e) then x + match r with (y, _) :: _ => y | [] => x end
  else if firstb prev s then 2 * e else 2 * x.

Fixpoint thr_iv (cur : option Z) (prev : option (Z * bool)) (ep : iset) (l : list (Z * bool)) : iset :=
  match l with
  | [] => []
  | (x, kx) :: r =>
      let ep' := advance x ep in
      let s := fst (hd (0, 0) ep') in
      let e := snd (hd (0, 0) ep') in
      if kx then
        let st := match cur with Some c => c | None => startv prev r x s e end in
        if lastb r e || negb (nextk r)
        then (st, endv prev r x s e) :: thr_iv None (Some (x, kx)) ep' r
        else thr_iv (Some st) (Some (x, kx)) ep' r
      else thr_iv None (Some (x, kx)) ep' r
  end.

Lemma thr_iv_step cur prev ep x kx r s e rest : advance x ep = (s, e) :: rest ->
  thr_iv cur prev ep ((x, kx) :: r) =
  if kx then
    if lastb r e || negb (nextk r)
    then (match cur with Some c => c | None => startv prev r x s e end, endv prev r x s e)
           :: thr_iv None (Some (x, kx)) ((s, e) :: rest) r
    else thr_iv (Some (match cur with Some c => c | None => startv prev r x s e end))
           (Some (x, kx)) ((s, e) :: rest) r
  else thr_iv None (Some (x, kx)) ((s, e) :: rest) r.
Proof. intros H. cbn [thr_iv]. rewrite H. reflexivity. Qed.

Lemma thr_go_step prev ep x kx r s e rest : advance x ep = (s, e) :: rest ->
  thr_go prev ep ((x, kx) :: r) =
  let '(SS, EE) := thr_go (Some (x, kx)) ((s, e) :: rest) r in
  if kx then
    ((if firstb prev s || negb (prevk prev) then [startv prev r x s e] else []) ++ SS,
     (if lastb r e || negb (nextk r) then [endv prev r x s e] else []) ++ EE)
  else (SS, EE).
Proof. intros H. cbn [thr_go]. rewrite H. reflexivity. Qed.

Ltac brk :=
  repeat match goal with
  | |- context [?a <? ?b] =>
      let E := fresh "E" in destruct (a <? b) eqn:E; [apply Z.ltb_lt in E|apply Z.ltb_ge in E]
  | H : context [?a <? ?b] |- _ =>
      let E := fresh "E" in destruct (a <? b) eqn:E; [apply Z.ltb_lt in E|apply Z.ltb_ge in E]
  end; cbn [negb orb andb] in *.

(* "a run is open on entry": the previous sample is kept, in the same epoch, and the current one is kept *)
Definition opn (prev : option (Z * bool)) (ep : iset) (l : list (Z * bool)) : bool :=
  match l with
  | (x, true) :: _ => prevk prev && negb (firstb prev (fst (hd (0, 0) (advance x ep))))
  | _ => false
  end.

Lemma opn_next x s e rest r : Inv (Some (x, true)) ((s, e) :: rest) r ->
  opn (Some (x, true)) ((s, e) :: rest) r = negb (lastb r e || negb (nextk r)).
Proof.
  intros HI. destruct r as [|[y [|]] r'];
    [reflexivity| |unfold opn, nextk; cbn [negb]; rewrite orb_true_r; reflexivity].
  destruct (Inv_cons _ _ _ _ _ HI) as (s0 & e0 & rest0 & s' & e' & rest' & Hep & Hadv & Hx & Hse & Hs0 & Hmov & Hstay & _).
  injection Hep as <- <- <-.
  destruct HI as (_ & _ & _ & [Hp _]). unfold inb in Hp; cbn [hd fst snd] in Hp.
  unfold opn. rewrite Hadv. cbn [hd fst prevk firstb lastb nextk andb negb].
  rewrite orb_false_r. f_equal.
  destruct (x <? s') eqn:E1, (e <? y) eqn:E2; try reflexivity; lia.
Qed.

Lemma thr_go_iv l : forall prev ep, Inv prev ep l ->
  (opn prev ep l = false ->
     combine (fst (thr_go prev ep l)) (snd (thr_go prev ep l)) = thr_iv None prev ep l) /\
  (opn prev ep l = true -> forall c,
     combine (c :: fst (thr_go prev ep l)) (snd (thr_go prev ep l)) = thr_iv (Some c) prev ep l).
Proof.
  induction l as [|[x kx] r IH]; intros prev ep HI.
  - split; [reflexivity|discriminate].
  - destruct (Inv_cons _ _ _ _ _ HI) as (s0 & e0 & rest0 & s & e & rest & Hep & Hadv & Hx & Hse & Hs0 & Hmov & Hstay & Hincl & HI').
    rewrite (thr_go_step _ _ _ _ _ _ _ _ Hadv).
    destruct (IH _ _ HI') as [IHc IHo].
    destruct (thr_go (Some (x, kx)) ((s, e) :: rest) r) as [SS EE] eqn:Hrec.
    cbn [fst snd] in IHc, IHo.
    unfold opn. rewrite Hadv. cbn [hd fst].
    destruct kx.
    + pose proof (opn_next _ _ _ _ _ HI') as Hn.
      destruct (lastb r e || negb (nextk r)) eqn:Hclose; cbn [negb] in Hn;
      destruct (prevk prev), (firstb prev s); cbn [andb orb negb app fst snd];
      (split; intros Hd; try discriminate Hd; try intros c);
      rewrite (thr_iv_step _ _ _ _ _ _ _ _ _ Hadv), Hclose;
      first [ cbn [combine]; f_equal; apply IHc; exact Hn | apply IHo; exact Hn ].
    + split; [intros _|discriminate].
      rewrite (thr_iv_step _ _ _ _ _ _ _ _ _ Hadv). apply IHc.
      destruct r as [|[y [|]] r']; reflexivity.
Qed.

Lemma threshold_support_iv ep l :
  canonical ep -> strictly_increasing (map fst l) ->
  Forall (fun x => mem x ep = true) (map fst l) ->
  Inv None ep l /\ threshold_support ep l = thr_iv None None ep l.
Proof.
  intros H1 H2 H3.
  assert (HI : Inv None ep l) by (repeat split; assumption).
  split; [exact HI|].
  destruct (thr_go_iv l None ep HI) as [Hc _].
  unfold threshold_support. destruct (thr_go None ep l) as [SS EE].
  apply Hc. destruct l as [|[x [|]] r]; reflexivity.
Qed.

(* --- canonicity --- *)
Definition lo_ok (lo : Z) (prev : option (Z * bool)) (ep : iset) (x : Z) (kx : bool) : Prop :=
  lo < 2 * fst (hd (0, 0) ep) \/
  (lo <= 2 * snd (hd (0, 0) ep) /\ snd (hd (0, 0) ep) < x) \/
  (kx = false /\ lo <= 2 * x) \/
  match prev with
  | Some (p, _) => lo < x + p /\ x <= snd (hd (0, 0) ep)
  | None => False
  end.

(* the open run started at c, in the epoch at the head of ep, which also contains the current sample *)
Definition cur_inv (c : Z) (ep : iset) (l : list (Z * bool)) : Prop :=
  match l with
  | (x, true) :: _ => 2 * fst (hd (0, 0) ep) <= c /\ c < 2 * x /\ x <= snd (hd (0, 0) ep)
  | _ => False
  end.

Definition entry_ok (lo : Z) (cur : option Z) prev ep (l : list (Z * bool)) : Prop :=
  match cur with
  | Some c => cur_inv c ep l /\ lo < c
  | None => match l with [] => True | (x, kx) :: _ => lo_ok lo prev ep x kx end
  end.

Definition cur_ok' (cur : option Z) (ep : iset) (l : list (Z * bool)) : Prop :=
  match cur with Some c => cur_inv c ep l | None => True end.

Ltac crush :=
  unfold cur_ok', startv, endv, firstb, lastb, nextk, prevk, entry_ok, lo_ok, cur_inv, prev_ok, inb in *;
  cbn [hd fst snd negb orb andb] in *; brk; try exact I; try lia.

Lemma thr_iv_canon l : forall cur prev ep lo,
  Inv prev ep l -> entry_ok lo cur prev ep l -> canon lo (thr_iv cur prev ep l).
Proof.
  induction l as [|[x kx] r IH]; intros cur prev ep lo HI Hlo; [exact I|].
  destruct (Inv_cons _ _ _ _ _ HI) as (s0 & e0 & rest0 & s & e & rest & Hep & Hadv & Hx & Hse & Hs0 & Hmov & Hstay & Hincl & HI').
  rewrite (thr_iv_step _ _ _ _ _ _ _ _ _ Hadv).
  destruct HI as (_ & _ & _ & Hp). pose proof HI' as (_ & _ & _ & Hp').
  subst ep. clear Hincl Hadv.
  destruct kx.
  - destruct (lastb r e || negb (nextk r)) eqn:Hclose.
    + cbn [canon]. split; [|split]; [| |apply IH; [exact HI'|]]; clear IH HI';
      destruct cur as [c|], prev as [[p pb]|], r as [|[y [|]] r']; crush.
    + apply IH; [exact HI'|]. clear IH HI'.
      destruct cur as [c|], prev as [[p pb]|], r as [|[y [|]] r']; crush.
  - apply IH; [exact HI'|]. clear IH HI'.
    destruct cur as [c|], prev as [[p pb]|], r as [|[y [|]] r']; crush.
Qed.


(* --- kept samples are inside --- *)
Lemma thr_iv_open_mem l : forall c prev ep t,
  Inv prev ep l -> cur_inv c ep l ->
  match l with (x, _) :: _ => c <= t <= 2 * x | [] => False end ->
  mem t (thr_iv (Some c) prev ep l) = true.
Proof.
  induction l as [|[x kx] r IH]; intros c prev ep t HI Hc Ht; [destruct Ht|].
  destruct (Inv_cons _ _ _ _ _ HI) as (s0 & e0 & rest0 & s & e & rest & Hep & Hadv & Hx & Hse & Hs0 & Hmov & Hstay & Hincl & HI').
  rewrite (thr_iv_step _ _ _ _ _ _ _ _ _ Hadv).
  destruct HI as (_ & _ & _ & Hp). pose proof HI' as (_ & _ & _ & Hp').
  subst ep. clear Hincl Hadv.
  destruct kx; [|destruct Hc].
  destruct (lastb r e || negb (nextk r)) eqn:Hclose.
  - rewrite mem_cons. apply orb_true_iff. left. clear IH HI'.
    destruct prev as [[p pb]|], r as [|[y [|]] r']; crush.
  - apply IH; [exact HI'| |]; clear IH HI';
    destruct prev as [[p pb]|], r as [|[y [|]] r']; crush.
Qed.

Lemma thr_iv_contains l : forall cur prev ep,
  Inv prev ep l -> cur_ok' cur ep l ->
  Forall (fun z => mem (2 * z) (thr_iv cur prev ep l) = true) (kept_times l).
Proof.
  unfold kept_times.
  induction l as [|[x kx] r IH]; intros cur prev ep HI Hc; [constructor|].
  destruct (Inv_cons _ _ _ _ _ HI) as (s0 & e0 & rest0 & s & e & rest & Hep & Hadv & Hx & Hse & Hs0 & Hmov & Hstay & Hincl & HI').
  rewrite (thr_iv_step _ _ _ _ _ _ _ _ _ Hadv).
  destruct HI as (_ & _ & _ & Hp). pose proof HI' as (_ & _ & _ & Hp').
  subst ep. clear Hincl Hadv. unfold cur_ok' in Hc.
  cbn [filter snd]. destruct kx; cbn [map fst].
  - destruct (lastb r e || negb (nextk r)) eqn:Hclose.
    + constructor.
      * rewrite mem_cons. apply orb_true_iff. left. clear IH HI'.
        destruct cur as [c|], prev as [[p pb]|], r as [|[y [|]] r']; crush.
      * eapply Forall_impl'; [|apply (IH None _ _ HI' I)].
        intros z Hz. cbv beta in Hz. rewrite mem_cons, Hz. apply orb_true_r.
    + assert (Hc' : cur_inv (match cur with Some c => c | None => startv prev r x s e end)
                      ((s, e) :: rest) r).
      { clear IH HI'. destruct cur as [c|], prev as [[p pb]|], r as [|[y [|]] r']; crush. }
      constructor.
      * apply thr_iv_open_mem; [exact HI'|exact Hc'|]. clear IH HI' Hc'.
        destruct cur as [c|], prev as [[p pb]|], r as [|[y [|]] r']; crush.
      * apply IH; [exact HI'|exact Hc'].
  - apply IH; [exact HI'|exact I].
Qed.

(* --- rejected samples are outside --- *)
Lemma si_head_le (y : Z) (ky : bool) (r' : list (Z * bool)) (z : Z) (kz : bool) :
  strictly_increasing (map fst ((y, ky) :: r')) -> In (z, kz) ((y, ky) :: r') -> y <= z.
Proof.
  intros Hs [Hin|Hin]; [inversion Hin; subst; lia|].
  pose proof (si_Forall _ _ Hs) as HF. rewrite Forall_forall in HF.
  assert (y < z); [|lia]. apply HF. apply in_map_iff. exists (z, kz). auto.
Qed.

Lemma thr_iv_excludes l : forall cur prev ep,
  Inv prev ep l -> cur_ok' cur ep l ->
  Forall (fun q => snd q = false -> mem (2 * fst q) (thr_iv cur prev ep l) = false) l.
Proof.
  induction l as [|[x kx] r IH]; intros cur prev ep HI Hc; [constructor|].
  destruct (Inv_cons _ _ _ _ _ HI) as (s0 & e0 & rest0 & s & e & rest & Hep & Hadv & Hx & Hse & Hs0 & Hmov & Hstay & Hincl & HI').
  rewrite (thr_iv_step _ _ _ _ _ _ _ _ _ Hadv).
  destruct HI as (_ & _ & _ & Hp). pose proof HI' as (_ & Hsi' & _ & Hp').
  subst ep. clear Hincl Hadv. unfold cur_ok' in Hc.
  destruct kx.
  - constructor; [cbn [snd]; discriminate|].
    destruct (lastb r e || negb (nextk r)) eqn:Hclose.
    + pose proof (IH None _ _ HI' I) as HI0.
      rewrite Forall_forall in HI0 |- *. intros [z kz] Hin Hk.
      rewrite mem_cons, (HI0 _ Hin Hk), orb_false_r. cbn [fst].
      destruct r as [|[y ky] r']; [destruct Hin|].
      pose proof (si_head_le _ _ _ _ _ Hsi' Hin) as Hyz.
      clear IH HI' HI0 Hin.
      destruct cur as [c|], prev as [[p pb]|], ky; crush.
    + apply IH; [exact HI'|]. clear IH HI'.
      destruct cur as [c|], prev as [[p pb]|], r as [|[y [|]] r']; crush.
  - constructor; [|apply IH; [exact HI'|exact I]].
    intros _. cbn [fst].
    apply (mem_below _ (2 * x)); [|lia].
    apply thr_iv_canon; [exact HI'|]. clear IH HI'.
    destruct r as [|[y ky] r']; crush.
Qed.

(* --- new intervals stay inside single old intervals --- *)
Lemma thr_iv_inside l : forall cur prev ep,
  Inv prev ep l -> cur_ok' cur ep l ->
  Forall (fun iv => exists old, In old ep /\ 2 * fst old <= fst iv /\ snd iv <= 2 * snd old)
         (thr_iv cur prev ep l).
Proof.
  induction l as [|[x kx] r IH]; intros cur prev ep HI Hc; [constructor|].
  destruct (Inv_cons _ _ _ _ _ HI) as (s0 & e0 & rest0 & s & e & rest & Hep & Hadv & Hx & Hse & Hs0 & Hmov & Hstay & Hincl & HI').
  rewrite (thr_iv_step _ _ _ _ _ _ _ _ _ Hadv).
  destruct HI as (_ & _ & _ & Hp). pose proof HI' as (_ & _ & _ & Hp').
  unfold cur_ok' in Hc.
  assert (Hweak : forall c', cur_ok' c' ((s, e) :: rest) r ->
     Forall (fun iv => exists old, In old ep /\ 2 * fst old <= fst iv /\ snd iv <= 2 * snd old)
            (thr_iv c' (Some (x, kx)) ((s, e) :: rest) r)).
  { intros c' Hc'. eapply Forall_impl'; [|apply (IH c' _ _ HI' Hc')].
    intros iv (old & Hin & Hb). exists old. split; [apply Hincl; exact Hin|exact Hb]. }
  destruct kx.
  - destruct (lastb r e || negb (nextk r)) eqn:Hclose.
    + constructor; [|apply Hweak; exact I].
      exists (s, e). split; [apply Hincl; left; reflexivity|].
      subst ep. clear IH HI' Hweak Hincl Hadv. cbn [fst snd].
      destruct cur as [c|], prev as [[p pb]|], r as [|[y [|]] r']; crush.
    + apply Hweak. subst ep. clear IH HI' Hweak Hincl Hadv. unfold cur_ok'.
      destruct cur as [c|], prev as [[p pb]|], r as [|[y [|]] r']; crush.
  - apply Hweak. exact I.
Qed.

(* --- midpoints --- *)
Lemma thr_iv_cons cur prev ep x kx r :
  thr_iv cur prev ep ((x, kx) :: r) =
  let ep' := advance x ep in
  let s := fst (hd (0, 0) ep') in
  let e := snd (hd (0, 0) ep') in
  if kx then
    let st := match cur with Some c => c | None => startv prev r x s e end in
    if lastb r e || negb (nextk r)
    then (st, endv prev r x s e) :: thr_iv None (Some (x, kx)) ep' r
    else thr_iv (Some st) (Some (x, kx)) ep' r
  else thr_iv None (Some (x, kx)) ep' r.
Proof. reflexivity. Qed.

(* an open run's start is eventually emitted *)
Lemma thr_iv_open_start r : forall c prev ep y,
  In c (map fst (thr_iv (Some c) prev ep ((y, true) :: r))).
Proof.
  induction r as [|[y' ky'] r' IH]; intros c prev ep y; rewrite thr_iv_cons; cbv zeta.
  - cbn [lastb orb map fst]. left. reflexivity.
  - destruct (lastb ((y', ky') :: r') (snd (hd (0, 0) (advance y ep))) || negb (nextk ((y', ky') :: r'))) eqn:H.
    + cbn [map fst]. left. reflexivity.
    + destruct ky'.
      * apply IH.
      * cbn [nextk negb] in H. rewrite orb_true_r in H. discriminate.
Qed.

Lemma same_epoch s e rest iv x y :
  canonical ((s, e) :: rest) -> In iv ((s, e) :: rest) -> s <= x <= e ->
  inb x iv = true -> inb y iv = true -> y <= e.
Proof.
  intros Hc [<-|Hin] Hx Hxi Hyi; unfold inb in *; cbn [fst snd] in *; [lia|].
  pose proof (canon_In _ _ _ (canonical_canon_tail _ _ _ Hc) Hin). lia.
Qed.

Lemma thr_iv_mid_end pre : forall cur prev ep x y post,
  Inv prev ep (pre ++ (x, true) :: (y, false) :: post) ->
  (exists iv, In iv ep /\ inb x iv = true /\ inb y iv = true) ->
  In (x + y) (map snd (thr_iv cur prev ep (pre ++ (x, true) :: (y, false) :: post))).
Proof.
  induction pre as [|[z kz] pre IH]; intros cur prev ep x y post HI (iv & Hin & Hxi & Hyi);
    cbn [app] in *.
  - destruct (Inv_cons _ _ _ _ _ HI) as (s0 & e0 & rest0 & s & e & rest & Hep & Hadv & Hx & Hse & Hs0 & Hmov & Hstay & Hincl & HI').
    rewrite (thr_iv_step _ _ _ _ _ _ _ _ _ Hadv).
    assert (Hye : y <= e).
    { destruct HI' as (Hc' & _). apply (same_epoch s e rest iv x y Hc'); try assumption.
      rewrite <- Hadv. apply advance_keep; [exact Hin|]. unfold inb in Hxi. lia. }
    cbn [nextk negb]. rewrite orb_true_r. cbn [map snd]. left.
    unfold endv, lastb. destruct (e <? y) eqn:E; [lia|reflexivity].
  - destruct (Inv_cons _ _ _ _ _ HI) as (s0 & e0 & rest0 & s & e & rest & Hep & Hadv & Hx & Hse & Hs0 & Hmov & Hstay & Hincl & HI').
    rewrite (thr_iv_step _ _ _ _ _ _ _ _ _ Hadv).
    assert (Hzx : z < x).
    { destruct HI as (_ & Hsi & _). cbn [map fst] in Hsi.
      pose proof (si_Forall _ _ Hsi) as HF. rewrite Forall_forall in HF. apply HF.
      rewrite map_app. apply in_or_app. right. left. reflexivity. }
    assert (Hrec : forall c', In (x + y) (map snd (thr_iv c' (Some (z, kz)) ((s, e) :: rest)
                     (pre ++ (x, true) :: (y, false) :: post)))).
    { intros c'. apply IH; [exact HI'|]. exists iv. split; [|split; assumption].
      rewrite <- Hadv. apply advance_keep; [exact Hin|]. unfold inb in Hxi. lia. }
    destruct kz; [|apply Hrec].
    destruct (lastb _ e || negb (nextk _)); [cbn [map snd]; right|]; apply Hrec.
Qed.

Lemma thr_iv_mid_start pre : forall cur prev ep x y post,
  Inv prev ep (pre ++ (x, false) :: (y, true) :: post) ->
  (exists iv, In iv ep /\ inb x iv = true /\ inb y iv = true) ->
  In (x + y) (map fst (thr_iv cur prev ep (pre ++ (x, false) :: (y, true) :: post))).
Proof.
  induction pre as [|[z kz] pre IH]; intros cur prev ep x y post HI (iv & Hin & Hxi & Hyi);
    cbn [app] in *.
  - destruct (Inv_cons _ _ _ _ _ HI) as (s0 & e0 & rest0 & s & e & rest & Hep & Hadv & Hx & Hse & Hs0 & Hmov & Hstay & Hincl & HI').
    rewrite (thr_iv_step _ _ _ _ _ _ _ _ _ Hadv).
    assert (Hye : y <= e).
    { destruct HI' as (Hc' & _). apply (same_epoch s e rest iv x y Hc'); try assumption.
      rewrite <- Hadv. apply advance_keep; [exact Hin|]. unfold inb in Hxi. lia. }
    destruct (Inv_cons _ _ _ _ _ HI') as (s1 & e1 & rest1 & s' & e' & rest' & Hep' & Hadv' & Hy & Hse' & _ & _ & Hstay' & _ & HI'').
    injection Hep' as <- <- <-. destruct (Hstay' Hye) as [-> ->].
    rewrite (thr_iv_step _ _ _ _ _ _ _ _ _ Hadv').
    assert (Hst : startv (Some (x, false)) post y s e = x + y).
    { unfold startv, firstb. destruct (x <? s) eqn:E; [lia|]. cbn [negb]. lia. }
    rewrite Hst.
    destruct (lastb post e || negb (nextk post)) eqn:Hclose.
    + cbn [map fst]. left. reflexivity.
    + destruct post as [|[y' [|]] post'].
      * discriminate Hclose.
      * apply thr_iv_open_start.
      * cbn [nextk negb] in Hclose. rewrite orb_true_r in Hclose. discriminate Hclose.
  - destruct (Inv_cons _ _ _ _ _ HI) as (s0 & e0 & rest0 & s & e & rest & Hep & Hadv & Hx & Hse & Hs0 & Hmov & Hstay & Hincl & HI').
    rewrite (thr_iv_step _ _ _ _ _ _ _ _ _ Hadv).
    assert (Hzx : z < x).
    { destruct HI as (_ & Hsi & _). cbn [map fst] in Hsi.
      pose proof (si_Forall _ _ Hsi) as HF. rewrite Forall_forall in HF. apply HF.
      rewrite map_app. apply in_or_app. right. left. reflexivity. }
    assert (Hrec : forall c', In (x + y) (map fst (thr_iv c' (Some (z, kz)) ((s, e) :: rest)
                     (pre ++ (x, false) :: (y, true) :: post)))).
    { intros c'. apply IH; [exact HI'|]. exists iv. split; [|split; assumption].
      rewrite <- Hadv. apply advance_keep; [exact Hin|]. unfold inb in Hxi. lia. }
    destruct kz; [|apply Hrec].
    destruct (lastb _ e || negb (nextk _)); [cbn [map fst]; right|]; apply Hrec.
Qed.

(* ------------------------------------------------------------------ *)
(* The theorems about threshold_support                                *)
(* ------------------------------------------------------------------ *)

Theorem thr_support_canonical ep l :
  canonical ep -> strictly_increasing (map fst l) ->
  Forall (fun x => mem x ep = true) (map fst l) ->
  canonical (threshold_support ep l).
Proof.
  intros H1 H2 H3. destruct (threshold_support_iv ep l H1 H2 H3) as [HI ->].
  destruct l as [|[x kx] r]; [exact I|].
  apply (canon_canonical _ (2 * fst (hd (0, 0) ep) - 1)).
  apply thr_iv_canon; [exact HI|]. unfold entry_ok, lo_ok. left. lia.
Qed.

Theorem thr_contains_kept ep l :
  canonical ep -> strictly_increasing (map fst l) ->
  Forall (fun x => mem x ep = true) (map fst l) ->
  Forall (fun x => mem (2 * x) (threshold_support ep l) = true) (kept_times l).
Proof.
  intros H1 H2 H3. destruct (threshold_support_iv ep l H1 H2 H3) as [HI ->].
  apply thr_iv_contains; [exact HI|exact I].
Qed.

Theorem thr_excludes_rejected ep l :
  canonical ep -> strictly_increasing (map fst l) ->
  Forall (fun x => mem x ep = true) (map fst l) ->
  Forall (fun p => snd p = false -> mem (2 * fst p) (threshold_support ep l) = false) l.
Proof.
  intros H1 H2 H3. destruct (threshold_support_iv ep l H1 H2 H3) as [HI ->].
  apply thr_iv_excludes; [exact HI|exact I].
Qed.

Theorem thr_inside_old ep l :
  canonical ep -> strictly_increasing (map fst l) ->
  Forall (fun x => mem x ep = true) (map fst l) ->
  Forall (fun iv => exists old, In old ep /\ 2 * fst old <= fst iv /\ snd iv <= 2 * snd old)
         (threshold_support ep l).
Proof.
  intros H1 H2 H3. destruct (threshold_support_iv ep l H1 H2 H3) as [HI ->].
  apply thr_iv_inside; [exact HI|exact I].
Qed.

Lemma filter_mem_kept (D : iset) l :
  Forall (fun p => mem (2 * fst p) D = snd p) l ->
  filter (fun x => mem (2 * x) D) (map fst l) = kept_times l.
Proof.
  unfold kept_times. induction l as [|[x k] r IH]; intros H; [reflexivity|].
  inversion H as [|? ? Hx Hr]; subst. cbn [fst snd] in Hx.
  cbn [map fst filter snd]. rewrite Hx, (IH Hr). destruct k; reflexivity.
Qed.

Theorem thr_restrict_reproduces ep l :
  canonical ep -> strictly_increasing (map fst l) ->
  Forall (fun x => mem x ep = true) (map fst l) ->
  filter (fun x => mem (2 * x) (threshold_support ep l)) (map fst l) = kept_times l.
Proof.
  intros H1 H2 H3. apply filter_mem_kept.
  pose proof (thr_contains_kept ep l H1 H2 H3) as Hk.
  pose proof (thr_excludes_rejected ep l H1 H2 H3) as Hr.
  rewrite Forall_forall in *. intros [z k] Hin. cbn [fst snd]. destruct k.
  - apply Hk. unfold kept_times. apply in_map_iff. exists (z, true). split; [reflexivity|].
    apply filter_In. split; [exact Hin|reflexivity].
  - apply (Hr _ Hin). reflexivity.
Qed.

Theorem thr_midpoint_end ep l :
  canonical ep -> strictly_increasing (map fst l) ->
  Forall (fun x => mem x ep = true) (map fst l) ->
  forall pre x y post, l = pre ++ (x, true) :: (y, false) :: post ->
  (exists iv, In iv ep /\ inb x iv = true /\ inb y iv = true) ->
  In (x + y) (map snd (threshold_support ep l)).
Proof.
  intros H1 H2 H3 pre x y post -> Hiv.
  destruct (threshold_support_iv ep _ H1 H2 H3) as [HI ->].
  apply thr_iv_mid_end; assumption.
Qed.

Theorem thr_midpoint_start ep l :
  canonical ep -> strictly_increasing (map fst l) ->
  Forall (fun x => mem x ep = true) (map fst l) ->
  forall pre x y post, l = pre ++ (x, false) :: (y, true) :: post ->
  (exists iv, In iv ep /\ inb x iv = true /\ inb y iv = true) ->
  In (x + y) (map fst (threshold_support ep l)).
Proof.
  intros H1 H2 H3 pre x y post -> Hiv.
  destruct (threshold_support_iv ep _ H1 H2 H3) as [HI ->].
  apply thr_iv_mid_start; assumption.
Qed.

(* sanity: the hypotheses are satisfiable and the conclusions are not vacuous *)
Example thr_example :
  threshold_support [(0, 100); (200, 300); (400, 500)]
    [(5, true); (210, false); (250, true); (260, true); (270, false); (410, false); (420, true)]
  = [(0, 200); (460, 530); (830, 840)].
Proof. vm_compute. reflexivity. Qed.

Print Assumptions thr_support_canonical.
Print Assumptions thr_contains_kept.
Print Assumptions thr_excludes_rejected.
Print Assumptions thr_inside_old.
Print Assumptions thr_restrict_reproduces.
Print Assumptions thr_midpoint_end.
Print Assumptions thr_midpoint_start.
Print Assumptions dropna_contains_kept.
Print Assumptions dropna_excludes_rejected.
Print Assumptions dropna_canonical.
Print Assumptions dropna_refuted_when_close.
