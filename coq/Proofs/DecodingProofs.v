(* C17: Bayesian decoding (pynapple/process/decoding.py): theorems about the model in Model/Tuning.v. *)
From Coq Require Import QArith Qabs Lia Lqa.
From Verif Require Import Base.Prelude Model.Restrict Model.Count Model.ValueFrom Model.Tuning
                          Proofs.BaseLemmas Proofs.RestrictProofs Proofs.CountProofs.
Local Open Scope Q_scope.

(* ---------------------------------------------------------------------------------------------- *)
(* B1. generic Q list facts                                                                       *)

Lemma Qsum_map_mult c : forall w, Qsum (map (fun x => x * c) w) == Qsum w * c.
Proof.
  induction w as [|x w IH]; simpl.
  - ring.
  - rewrite IH. ring.
Qed.

Lemma Qsum_map_div s : forall w, Qsum (map (fun x => x / s) w) == Qsum w / s.
Proof. intros w. unfold Qdiv. apply Qsum_map_mult. Qed.

Theorem normalise_sum : forall w, ~ Qsum w == 0 -> Qsum (normalise w) == 1.
Proof.
  intros w H. unfold normalise. rewrite Qsum_map_div. field. exact H.
Qed.

Lemma nth_map_div s : forall w i, nth i (map (fun x => x / s) w) 0 == nth i w 0 / s.
Proof.
  induction w as [|x w IH]; intros [|i]; simpl; try (unfold Qdiv; ring).
  apply IH.
Qed.

Theorem normalise_nth : forall w i, nth i (normalise w) 0 == nth i w 0 / Qsum w.
Proof. intros. apply nth_map_div. Qed.

Theorem normalise_length : forall w, length (normalise w) = length w.
Proof. intros. unfold normalise. apply map_length. Qed.

Lemma argmax_go_spec : forall l pre best bi i,
  i = length pre -> (bi < i)%nat -> nth bi pre 0 == best ->
  Forall (fun x => x <= best) pre ->
  (forall k, (k < bi)%nat -> nth k pre 0 < best) ->
  let r := argmax_go best bi i l in
  (r < length (pre ++ l))%nat /\
  Forall (fun x => x <= nth r (pre ++ l) 0) (pre ++ l) /\
  (forall k, (k < r)%nat -> nth k (pre ++ l) 0 < nth r (pre ++ l) 0).
Proof.
  induction l as [|x l IH]; intros pre best bi i Hi Hbi Hb Hall Hlt; cbn zeta.
  - simpl. rewrite app_nil_r. split; [lia|]. split.
    + eapply Forall_impl; [|exact Hall]. cbv beta. intros y Hy. rewrite Hb. exact Hy.
    + intros k Hk. rewrite Hb. apply Hlt. exact Hk.
  - simpl. replace (pre ++ x :: l) with ((pre ++ [x]) ++ l) by (rewrite <- app_assoc; reflexivity).
    destruct (Qle_bool x best) eqn:Hx.
    + apply Qle_bool_iff in Hx. apply IH.
      * rewrite app_length. simpl. lia.
      * lia.
      * rewrite app_nth1 by lia. exact Hb.
      * apply Forall_app. split; [exact Hall|]. constructor; [exact Hx|constructor].
      * intros k Hk. rewrite app_nth1 by lia. apply Hlt. exact Hk.
    + assert (Hx' : best < x).
      { apply Qnot_le_lt. intros H. apply Qle_bool_iff in H. congruence. }
      apply IH.
      * rewrite app_length. simpl. lia.
      * lia.
      * rewrite app_nth2 by lia. replace (i - length pre)%nat with 0%nat by lia. reflexivity.
      * apply Forall_app. split.
        -- eapply Forall_impl; [|exact Hall]. cbv beta. intros y Hy. lra.
        -- constructor; [apply Qle_refl|constructor].
      * intros k Hk. rewrite app_nth1 by lia.
        assert (Hin : In (nth k pre 0) pre) by (apply nth_In; lia).
        rewrite Forall_forall in Hall. specialize (Hall _ Hin). cbv beta in Hall. lra.
Qed.

(* np.argmax: the first index holding the maximum *)
Theorem argmax_spec : forall l, l <> [] ->
  (argmax l < length l)%nat /\
  Forall (fun x => x <= nth (argmax l) l 0) l /\
  (forall k, (k < argmax l)%nat -> nth k l 0 < nth (argmax l) l 0).
Proof.
  intros [|x l] Hne; [congruence|]. unfold argmax.
  apply (argmax_go_spec l [x] x 0%nat 1%nat).
  - reflexivity.
  - lia.
  - reflexivity.
  - constructor; [apply Qle_refl|constructor].
  - intros k Hk. lia.
Qed.

Lemma Qle_bool_ext a b a' b' : (a <= b <-> a' <= b') -> Qle_bool a b = Qle_bool a' b'.
Proof.
  intros H. destruct (Qle_bool a b) eqn:H1, (Qle_bool a' b') eqn:H2; try reflexivity.
  - apply Qle_bool_iff in H1. apply H in H1. apply Qle_bool_iff in H1. congruence.
  - apply Qle_bool_iff in H2. apply H in H2. apply Qle_bool_iff in H2. congruence.
Qed.

Lemma argmax_go_scale c : 0 < c -> forall l l', Forall2 (fun x y => x == c * y) l l' ->
  forall best best' bi i, best == c * best' -> argmax_go best bi i l = argmax_go best' bi i l'.
Proof.
  intros Hc l l' HF. induction HF as [|x y l l' Hxy HF IH]; intros best best' bi i Hb; simpl.
  - reflexivity.
  - assert (He : Qle_bool x best = Qle_bool y best').
    { apply Qle_bool_ext. rewrite Hxy, Hb. apply Qmult_le_l. exact Hc. }
    rewrite He. destruct (Qle_bool y best'); apply IH; assumption.
Qed.

Lemma argmax_scale c l l' : 0 < c -> Forall2 (fun x y => x == c * y) l l' -> argmax l = argmax l'.
Proof.
  intros Hc HF. destruct HF as [|x y l l' Hxy HF]; [reflexivity|].
  unfold argmax. apply (argmax_go_scale c Hc); assumption.
Qed.

Lemma Forall2_map_div s : forall w, Forall2 (fun x y => x == / s * y) (map (fun x => x / s) w) w.
Proof.
  induction w as [|x w IH]; simpl; constructor; [|exact IH]. unfold Qdiv. ring.
Qed.

(* normalising by a positive total does not move the argmax *)
Theorem argmax_normalise : forall w, 0 < Qsum w -> argmax (normalise w) = argmax w.
Proof.
  intros w H. apply (argmax_scale (/ Qsum w)).
  - apply Qinv_lt_0_compat. exact H.
  - apply Forall2_map_div.
Qed.

(* ---------------------------------------------------------------------------------------------- *)
(* helper facts on sums, products, powers                                                         *)
Lemma Qsum_nonneg : forall l, Forall (fun x => 0 <= x) l -> 0 <= Qsum l.
Proof.
  induction 1 as [|x l Hx _ IH]; simpl; [apply Qle_refl|lra].
Qed.

Lemma Qpow_nonneg q n : 0 <= q -> 0 <= Qpow q n.
Proof.
  intros Hq. induction n as [|n IH]; simpl; [lra|]. apply Qmult_le_0_compat; assumption.
Qed.

Lemma Qpow_pos q n : 0 < q -> 0 < Qpow q n.
Proof.
  intros Hq. induction n as [|n IH]; simpl; [lra|]. apply Qmult_lt_0_compat; assumption.
Qed.

Lemma likelihood_nonneg : forall row cnt, Forall (fun r => 0 <= r) row -> 0 <= likelihood row cnt.
Proof.
  unfold likelihood. intros row cnt H. revert cnt.
  induction H as [|r row Hr _ IH]; intros [|c cnt]; simpl; try lra.
  apply Qmult_le_0_compat; [apply Qpow_nonneg; exact Hr|apply IH].
Qed.

Lemma likelihood_pos : forall row cnt, Forall (fun r => 0 < r) row -> 0 < likelihood row cnt.
Proof.
  unfold likelihood. intros row cnt H. revert cnt.
  induction H as [|r row Hr _ IH]; intros [|c cnt]; simpl; try lra.
  apply Qmult_lt_0_compat; [apply Qpow_pos; exact Hr|apply IH].
Qed.

Lemma Forall_pos_nonneg (l : list Q) : Forall (fun r => 0 < r) l -> Forall (fun r => 0 <= r) l.
Proof. apply Forall_impl. intros; lra. Qed.

Lemma prior_nonneg occ : Forall (fun o => 0 <= o) occ -> Forall (fun p => 0 <= p) (prior occ).
Proof.
  intros H. unfold prior. pose proof (Qsum_nonneg occ H) as Hs.
  apply Forall_forall. intros p Hp. apply in_map_iff in Hp. destruct Hp as [o [<- Ho]].
  rewrite Forall_forall in H. specialize (H o Ho). cbv beta in H.
  unfold Qdiv. apply Qmult_le_0_compat; [exact H|]. apply Qinv_le_0_compat. exact Hs.
Qed.

Lemma Qsum_pos_ex : forall l, Forall (fun x => 0 <= x) l -> (exists x, In x l /\ 0 < x) -> 0 < Qsum l.
Proof.
  induction 1 as [|x l Hx Hl IH]; intros [y [Hin Hy]]; [destruct Hin|].
  simpl. destruct Hin as [->|Hin].
  - pose proof (Qsum_nonneg l Hl). lra.
  - assert (0 < Qsum l) by (apply IH; exists y; split; assumption). lra.
Qed.

Lemma prior_pos_ex occ : Forall (fun o => 0 <= o) occ -> (exists o, In o occ /\ 0 < o) ->
  exists p, In p (prior occ) /\ 0 < p.
Proof.
  intros H Hex. pose proof (Qsum_pos_ex occ H Hex) as Hs. destruct Hex as [o [Ho Hpos]].
  exists (o / Qsum occ). split.
  - unfold prior. apply in_map_iff. exists o. split; [reflexivity|exact Ho].
  - unfold Qdiv. apply Qmult_lt_0_compat; [exact Hpos|]. apply Qinv_lt_0_compat. exact Hs.
Qed.

(* ---------------------------------------------------------------------------------------------- *)
(* B2. posterior with E standing for exp                                                          *)
Section Exp.
Variable E : Q -> Q.
Hypothesis E_pos : forall x, 0 < E x.

(* p1*p2*p3 of the code = E(-b * sum_j r_ij) * (occ_i / sum occ) * prod_j r_ij ^ c_j, bin by bin *)
Theorem weights_shape : forall b occ tc cnt,
  weights E b occ tc cnt =
  map (fun pr => E (- (b * Qsum (snd pr))) * fst pr *
                 Qprod (map (fun rc => Qpow (fst rc) (snd rc)) (combine (snd pr) cnt)))
      (combine (prior occ) tc).
Proof. intros. reflexivity. Qed.

Lemma weights_wls_gen b cnt : forall P tc i, (i < length (combine P tc))%nat ->
  nth i (map (fun pr => E (- expo b (snd pr)) * fst pr * likelihood (snd pr) cnt) (combine P tc)) 0 ==
  E (- nth i (map (expo b) tc) 0) * nth i (map (fun pr => wl (fst pr) (snd pr) cnt) (combine P tc)) 0.
Proof.
  induction P as [|p P IH]; intros [|row tc] i Hi; simpl in Hi; try lia.
  destruct i as [|i]; simpl.
  - unfold wl. ring.
  - apply IH. lia.
Qed.

Theorem weights_wls : forall b occ tc cnt i,
  nth i (weights E b occ tc cnt) 0 ==
  E (- nth i (map (expo b) tc) 0) * nth i (wls occ tc cnt) 0 \/ (length (weights E b occ tc cnt) <= i)%nat.
Proof.
  intros b occ tc cnt i.
  destruct (le_lt_dec (length (weights E b occ tc cnt)) i) as [H|H]; [right; exact H|left].
  unfold weights in *. rewrite map_length in H. unfold wls. apply weights_wls_gen. exact H.
Qed.

Theorem weights_length : forall b occ tc cnt,
  length (weights E b occ tc cnt) = Nat.min (length occ) (length tc).
Proof.
  intros. unfold weights, prior. rewrite map_length, combine_length, map_length. reflexivity.
Qed.

Lemma weights_nonneg_gen b cnt : forall P tc,
  Forall (fun p => 0 <= p) P -> Forall (Forall (fun r => 0 <= r)) tc ->
  Forall (fun w => 0 <= w)
         (map (fun pr => E (- expo b (snd pr)) * fst pr * likelihood (snd pr) cnt) (combine P tc)).
Proof.
  intros P tc HP. revert tc. induction HP as [|p P Hp _ IH]; intros tc Htc; [constructor|].
  destruct Htc as [|row tc Hrow Htc]; [constructor|]. simpl. constructor; [|apply IH; exact Htc].
  apply Qmult_le_0_compat; [|apply likelihood_nonneg; exact Hrow].
  apply Qmult_le_0_compat; [|exact Hp]. apply Qlt_le_weak. apply E_pos.
Qed.

Theorem weights_nonneg : forall b occ tc cnt,
  Forall (fun o => 0 <= o) occ -> Forall (Forall (fun r => 0 <= r)) tc ->
  Forall (fun w => 0 <= w) (weights E b occ tc cnt).
Proof.
  intros b occ tc cnt Ho Htc. unfold weights. apply weights_nonneg_gen; [|exact Htc].
  apply prior_nonneg. exact Ho.
Qed.

Lemma weights_total_pos_gen b cnt : forall P tc,
  Forall (fun p => 0 <= p) P -> (exists p, In p P /\ 0 < p) -> length tc = length P ->
  Forall (Forall (fun r => 0 < r)) tc ->
  0 < Qsum (map (fun pr => E (- expo b (snd pr)) * fst pr * likelihood (snd pr) cnt) (combine P tc)).
Proof.
  intros P tc HP. revert tc. induction HP as [|p P Hp HP IH]; intros tc [q [Hin Hq]] Hlen Htc;
    [destruct Hin|].
  destruct Htc as [|row tc Hrow Htc]; [discriminate|]. simpl in Hlen. simpl.
  assert (Hl : 0 < likelihood row cnt) by (apply likelihood_pos; exact Hrow).
  pose proof (E_pos (- expo b row)) as HE.
  destruct Hin as [->|Hin].
  - assert (0 < E (- expo b row) * q * likelihood row cnt).
    { apply Qmult_lt_0_compat; [|exact Hl]. apply Qmult_lt_0_compat; assumption. }
    assert (0 <= Qsum (map (fun pr => E (- expo b (snd pr)) * fst pr * likelihood (snd pr) cnt)
                           (combine P tc))).
    { apply Qsum_nonneg. apply weights_nonneg_gen; [exact HP|].
      eapply Forall_impl; [|exact Htc]. apply Forall_pos_nonneg. }
    lra.
  - assert (0 <= E (- expo b row) * p * likelihood row cnt).
    { apply Qmult_le_0_compat; [|lra]. apply Qmult_le_0_compat; lra. }
    assert (0 < Qsum (map (fun pr => E (- expo b (snd pr)) * fst pr * likelihood (snd pr) cnt)
                          (combine P tc))).
    { apply IH; [exists q; split; assumption|lia|exact Htc]. }
    lra.
Qed.

(* positive tuning curves and a prior that is positive somewhere give a positive total *)
Theorem weights_total_pos : forall b occ tc cnt,
  Forall (fun o => 0 <= o) occ -> (exists o, In o occ /\ 0 < o) -> length tc = length occ ->
  Forall (Forall (fun r => 0 < r)) tc ->
  0 < Qsum (weights E b occ tc cnt).
Proof.
  intros b occ tc cnt Ho Hex Hlen Htc. unfold weights. apply weights_total_pos_gen.
  - apply prior_nonneg. exact Ho.
  - apply prior_pos_ex; assumption.
  - unfold prior. rewrite map_length. exact Hlen.
  - exact Htc.
Qed.

Theorem posterior_normalised : forall b occ tc cnt,
  Forall (fun o => 0 <= o) occ -> (exists o, In o occ /\ 0 < o) -> length tc = length occ ->
  Forall (Forall (fun r => 0 < r)) tc ->
  Qsum (posterior E b occ tc cnt) == 1.
Proof.
  intros b occ tc cnt Ho Hex Hlen Htc. unfold posterior. apply normalise_sum.
  pose proof (weights_total_pos b occ tc cnt Ho Hex Hlen Htc). lra.
Qed.

(* the posterior is the weight divided by the total: p_i proportional to occ_i * E(-b sum r) * prod r^c *)
Theorem posterior_shape : forall b occ tc cnt i,
  nth i (posterior E b occ tc cnt) 0 == nth i (weights E b occ tc cnt) 0 / Qsum (weights E b occ tc cnt).
Proof. intros. unfold posterior. apply normalise_nth. Qed.

Theorem posterior_proportional : forall b occ tc cnt i k,
  ~ Qsum (weights E b occ tc cnt) == 0 ->
  nth i (posterior E b occ tc cnt) 0 * nth k (weights E b occ tc cnt) 0 ==
  nth k (posterior E b occ tc cnt) 0 * nth i (weights E b occ tc cnt) 0.
Proof.
  intros b occ tc cnt i k H. rewrite !posterior_shape. field. exact H.
Qed.

(* the decoded value is the bin centre at the first maximum of the posterior = of the weights *)
Theorem decoded_is_argmax_centre : forall b occ tc cnt centres,
  Forall (fun o => 0 <= o) occ -> (exists o, In o occ /\ 0 < o) -> length tc = length occ ->
  Forall (Forall (fun r => 0 < r)) tc -> length centres = length occ -> occ <> [] ->
  let p := posterior E b occ tc cnt in
  decoded centres p = nth (argmax (weights E b occ tc cnt)) centres 0 /\
  In (decoded centres p) centres /\
  Forall (fun x => x <= nth (argmax p) p 0) p /\
  (forall k, (k < argmax p)%nat -> nth k p 0 < nth (argmax p) p 0).
Proof.
  intros b occ tc cnt centres Ho Hex Hlen Htc Hc Hne p.
  pose proof (weights_total_pos b occ tc cnt Ho Hex Hlen Htc) as Hpos.
  assert (Harg : argmax p = argmax (weights E b occ tc cnt)).
  { unfold p, posterior. apply argmax_normalise. exact Hpos. }
  assert (Hwl : length (weights E b occ tc cnt) = length occ).
  { rewrite weights_length, Hlen. apply Nat.min_id. }
  assert (Hwne : weights E b occ tc cnt <> []).
  { intros H0. rewrite H0 in Hwl. simpl in Hwl. destruct occ; [congruence|discriminate]. }
  assert (Hpne : p <> []).
  { intros H0. assert (Hl : length p = length occ).
    { unfold p, posterior. rewrite normalise_length. exact Hwl. }
    rewrite H0 in Hl. simpl in Hl. destruct occ; [congruence|discriminate]. }
  destruct (argmax_spec _ Hwne) as [Hlt _].
  destruct (argmax_spec _ Hpne) as [_ [Hmax Hfirst]].
  unfold decoded. rewrite Harg. split; [reflexivity|]. split.
  - apply nth_In. lia.
  - rewrite <- Harg. split; assumption.
Qed.

Lemma exp_cancels_gen b cnt s : (forall x y, x == y -> E x == E y) -> forall P tc,
  Forall (fun row => Qsum row == s) tc ->
  Forall2 (fun x y => x == E (- (b * s)) * y)
          (map (fun pr => E (- expo b (snd pr)) * fst pr * likelihood (snd pr) cnt) (combine P tc))
          (map (fun pr => wl (fst pr) (snd pr) cnt) (combine P tc)).
Proof.
  intros HE. induction P as [|p P IH]; intros tc Htc; [constructor|].
  destruct Htc as [|row tc Hrow Htc]; [constructor|]. simpl. constructor; [|apply IH; exact Htc].
  assert (He : E (- expo b row) == E (- (b * s))).
  { apply HE. unfold expo. rewrite Hrow. reflexivity. }
  rewrite He. unfold wl. ring.
Qed.

(* when every bin has the same summed rate the exponential cancels: the argmax is that of occ_i * prod r^c *)
Theorem argmax_exp_cancels : forall b occ tc cnt s,
  Forall (fun row => Qsum row == s) tc -> (forall x y, x == y -> E x == E y) ->
  argmax (weights E b occ tc cnt) = argmax (wls occ tc cnt).
Proof.
  intros b occ tc cnt s Htc HE. apply (argmax_scale (E (- (b * s)))); [apply E_pos|].
  unfold weights, wls. apply exp_cancels_gen; assumption.
Qed.

(* ---------------------------------------------------------------------------------------------- *)
(* B3. time bins = C05's grid                                                                     *)
Theorem count_rows_spec : forall units ep b, (0 < b)%Z -> Forall sortedZ units -> canonical ep ->
  count_rows units ep b =
  map (fun t => (nth t (map fst (count_spec [] ep b)) 0%Z,
                 map (fun sp => nth t (map snd (count_spec sp ep b)) 0%nat) units))
      (seq 0 (length (count_spec [] ep b))).
Proof.
  intros units ep b Hb Hu Hc. unfold count_rows, grid2, unit_counts, column.
  rewrite (count_binned_spec [] ep b Hb I Hc). rewrite map_length.
  apply map_ext. intros t. f_equal. rewrite map_map.
  apply map_ext_in. intros sp Hsp. rewrite Forall_forall in Hu.
  rewrite (count_binned_spec sp ep b Hb (Hu sp Hsp) Hc). reflexivity.
Qed.

Theorem count_spec_grid : forall sp ep b, map fst (count_spec sp ep b) = map fst (count_spec [] ep b).
Proof.
  intros sp ep b. unfold count_spec. induction ep as [|[s e] ep IH]; [reflexivity|].
  simpl. rewrite !map_app, IH. f_equal.
  unfold count_spec_interval. rewrite !map_map. reflexivity.
Qed.

Theorem decode_length : forall occ tc centres units ep b, (0 < b)%Z -> canonical ep ->
  length (decode E occ tc centres units ep b) = length (count_spec [] ep b).
Proof.
  intros occ tc centres units ep b Hb Hc. unfold decode, count_rows, grid2.
  rewrite !map_length, seq_length, ?map_length.
  rewrite (count_binned_spec [] ep b Hb I Hc). reflexivity.
Qed.

Theorem decode_binned_times : forall occ tc centres rows ep b,
  map fst (decode_binned E occ tc centres rows ep b) = filter (fun t => mem t ep) (map fst rows).
Proof.
  intros occ tc centres rows ep b. unfold decode_binned. rewrite map_map. cbn [fst].
  induction rows as [|[t c] rows IH]; [reflexivity|]. simpl.
  destruct (mem t ep); simpl; rewrite IH; reflexivity.
Qed.
End Exp.

(* ---------------------------------------------------------------------------------------------- *)
(* B4. occupancy prior of decode_1d: edges rebuilt from the centres                               *)
Local Open Scope Z_scope.

Lemma centres2_cons2 x y r : centres2 (x :: y :: r) = (x + y) :: centres2 (y :: r).
Proof. reflexivity. Qed.
Lemma edges4_go_cons2 x y r : edges4_go (x :: y :: r) = (3 * x - y) :: edges4_go (y :: r).
Proof. reflexivity. Qed.

Lemma centres2_ap a w : forall n s,
  centres2 (map (fun k => a + Z.of_nat k * w) (seq s (S n))) =
  map (fun k => 2 * a + (2 * Z.of_nat k + 1) * w) (seq s n).
Proof.
  induction n as [|n IH]; intros s; [reflexivity|].
  specialize (IH (S s)). cbn [seq map] in IH. cbn [seq map]. rewrite centres2_cons2, IH.
  f_equal. lia.
Qed.

Lemma edges4_go_ap a w : forall n s,
  edges4_go (map (fun k => 2 * a + (2 * Z.of_nat k + 1) * w) (seq s (S n))) =
  map (fun k => 4 * a + 4 * Z.of_nat k * w) (seq s n).
Proof.
  induction n as [|n IH]; intros s; [reflexivity|].
  specialize (IH (S s)). cbn [seq map] in IH. cbn [seq map]. rewrite edges4_go_cons2, IH.
  f_equal. lia.
Qed.

Lemma seq_S1 n : seq 0 (S n) = seq 0 n ++ [n].
Proof. rewrite seq_S. reflexivity. Qed.
Lemma seq_S2 n : seq 0 (S (S n)) = seq 0 n ++ [n; S n].
Proof. rewrite (seq_S1 (S n)), (seq_S1 n), <- app_assoc. reflexivity. Qed.

Lemma rev_map_seq_S {A} (f : nat -> A) n : rev (map f (seq 0 (S n))) = f n :: rev (map f (seq 0 n)).
Proof. rewrite seq_S1, map_app, rev_app_distr. reflexivity. Qed.

Theorem edges4_uniform : forall a w n,
  let edges := map (fun k => a + Z.of_nat k * w)%Z (seq 0 (S (S (S n)))) in
  edges4 (centres2 edges) = Some (scale 4 edges).
Proof.
  intros a w n edges. unfold edges. rewrite centres2_ap. unfold edges4.
  rewrite edges4_go_ap.
  rewrite !rev_map_seq_S. rewrite (seq_S2 (S n)).
  f_equal. unfold scale. rewrite map_map, map_app. f_equal.
  - apply map_ext. intros k. lia.
  - cbn [map]. f_equal; [lia|]. f_equal. lia.
Qed.

Theorem edges4_lin : forall lo hi nb, (2 <= nb)%nat ->
  edges4 (centres2 (lin_edges lo hi nb)) = Some (scale 4 (lin_edges lo hi nb)).
Proof.
  intros lo hi nb Hnb. destruct nb as [|[|n]]; try lia.
  unfold lin_edges. apply (edges4_uniform (lo * Z.of_nat (S (S n))) (hi - lo) n).
Qed.

Lemma nth_scale c : forall l k, nth k (scale c l) 0 = c * nth k l 0.
Proof.
  induction l as [|x l IH]; intros [|k]; simpl; try lia. apply IH.
Qed.

Lemma scale_length c l : length (scale c l) = length l.
Proof. apply map_length. Qed.

Lemma hbin_scale c edges k x : 0 < c -> hbin (scale c edges) k (c * x) = hbin edges k x.
Proof.
  intros Hc. unfold hbin. rewrite !nth_scale, scale_length.
  assert (Hle : forall p q, (c * p <=? c * q) = (p <=? q)).
  { intros p q. destruct (Z.leb_spec p q), (Z.leb_spec (c * p) (c * q)); try reflexivity; nia. }
  assert (Hlt : forall p q, (c * p <? c * q) = (p <? q)).
  { intros p q. destruct (Z.ltb_spec p q), (Z.ltb_spec (c * p) (c * q)); try reflexivity; nia. }
  assert (Heq : forall p q, (c * p =? c * q) = (p =? q)).
  { intros p q. destruct (Z.eqb_spec p q), (Z.eqb_spec (c * p) (c * q)); try reflexivity; nia. }
  rewrite Hle, Hlt, Heq. reflexivity.
Qed.

Lemma hist_scale_B : forall c edges xs, 0 < c -> hist (scale c edges) (scale c xs) = hist edges xs.
Proof.
  intros c edges xs Hc. unfold hist, nbins. rewrite scale_length.
  apply map_ext. intros k. induction xs as [|x xs IH]; [reflexivity|].
  simpl. rewrite hbin_scale by exact Hc. rewrite IH. reflexivity.
Qed.

Section NumPyH.
Variable H : list Z -> list Z -> list nat.
Hypothesis H_law : forall edges xs, H edges xs = hist edges xs.

Theorem decode_occ_spec : forall lo hi nb fv, (2 <= nb)%nat ->
  decode_occ H (centres2 (lin_edges lo hi nb)) fv = Some (hist (lin_edges lo hi nb) fv).
Proof.
  intros lo hi nb fv Hnb. unfold decode_occ. rewrite edges4_lin by exact Hnb. cbn [option_map].
  rewrite H_law, hist_scale_B by lia. reflexivity.
Qed.

(* with a single feature bin the code indexes an empty array (IndexError): no occupancy prior *)
Theorem decode_occ_one_bin_refuted : forall lo hi fv,
  decode_occ H (centres2 (lin_edges lo hi 1)) fv = None.
Proof. intros. reflexivity. Qed.
End NumPyH.

Print Assumptions normalise_sum.
Print Assumptions argmax_spec.
Print Assumptions argmax_normalise.
Print Assumptions weights_total_pos.
Print Assumptions posterior_normalised.
Print Assumptions posterior_proportional.
Print Assumptions decoded_is_argmax_centre.
Print Assumptions argmax_exp_cancels.
Print Assumptions count_rows_spec.
Print Assumptions edges4_lin.
Print Assumptions decode_occ_spec.

(* ---- B5. decode_2d on a pre-binned frame (repaired tree: count = newgroup) ---- *)
Theorem decode2d_rows_aligned : forall (E : Q -> Q) occ tc cx cy rows ep b,
  length (decode2d_post E occ tc rows ep b) = length (decode2d_decoded E occ tc cx cy rows ep b) /\
  map fst (decode2d_decoded E occ tc cx cy rows ep b) = filter (fun t => mem t ep) (map fst rows).
Proof.
  intros. unfold decode2d_post, decode2d_decoded, inside_rows. split.
  - rewrite !map_length. reflexivity.
  - rewrite map_map. simpl. induction rows as [|r rs IH]; simpl; [reflexivity|].
    destruct (mem (fst r) ep); simpl; rewrite IH; reflexivity.
Qed.

Theorem decode2d_row_spec : forall (E : Q -> Q) occ tc cx cy rows ep b,
  Forall2 (fun p d => snd d = (nth (argmax p / length cy) cx 0%Q, nth (argmax p mod length cy) cy 0%Q))
          (decode2d_post E occ tc rows ep b) (decode2d_decoded E occ tc cx cy rows ep b).
Proof.
  intros. unfold decode2d_post, decode2d_decoded. induction (inside_rows rows ep) as [|r rs IH]; simpl; constructor; auto.
Qed.

Theorem unravel_spec : forall ny i j, (j < ny)%nat -> unravel ny (i * ny + j) = (i, j).
Proof.
  intros ny i j Hj. unfold unravel. f_equal.
  - rewrite Nat.div_add_l by lia. rewrite Nat.div_small by exact Hj. lia.
  - rewrite Nat.add_comm, Nat.mod_add by lia. apply Nat.mod_small. exact Hj.
Qed.
Print Assumptions decode2d_rows_aligned.
Print Assumptions decode2d_row_spec.
Print Assumptions unravel_spec.
