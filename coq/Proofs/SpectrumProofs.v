(* Top-level theorems about compute_fft / psd / mean_psd of Model/Spectrum.v, assembled from
   SpectrumIndexProofs (bookkeeping) and SpectrumFieldProofs (sums over the abstract field). *)
From Coq Require Import QArith Permutation Lia Field_theory Field.
From Verif Require Import Base.Prelude Model.Restrict Model.Count Model.Slice Model.Spectrum
  Proofs.BaseLemmas Proofs.RestrictProofs Proofs.SliceProofs.
From Verif Require Import Proofs.SpectrumIndexProofs Proofs.SpectrumFieldProofs.
Open Scope Z_scope.


(* ---- helpers (no field) ---- *)
Lemma zrange_in a len k : In k (zrange a len) <-> a <= k < a + Z.of_nat len.
Proof.
  unfold zrange. rewrite in_map_iff. split.
  - intros (i & Hi & Hin). apply in_seq in Hin. lia.
  - intros H. exists (Z.to_nat (k - a)). split; [lia|]. apply in_seq. lia.
Qed.

Lemma half_le n : (0 < n)%nat -> ((n + 1) / 2 <= n)%nat.
Proof. intros. apply Nat.div_le_upper_bound; lia. Qed.

Lemma half_pos n : (0 < n)%nat -> (1 <= (n + 1) / 2)%nat.
Proof. intros. apply Nat.div_le_lower_bound; lia. Qed.

Lemma nth_map_lt {A B} (g : A -> B) l i d d' : (i < length l)%nat -> nth i (map g l) d' = g (nth i l d).
Proof. intros H. rewrite (nth_indep _ d' (g d)) by (rewrite map_length; exact H). apply map_nth. Qed.

Lemma spectrum_rows_spec {V} (d : V) (full : bool) n X : length X = n ->
  spectrum_rows full n X = map (fun k => (k, nth (Z.to_nat (k mod Z.of_nat n)) X d))
     (if full then zrange (- Z.of_nat (n / 2)) n else zrange 0 ((n + 1) / 2)).
Proof.
  intros H. unfold spectrum_rows. destruct full.
  - apply fft_table_spec; auto.
  - rewrite (nonneg_table_spec d) by auto. apply map_ext_in. intros k Hk. apply zrange_in in Hk.
    destruct n as [|n]. { simpl in Hk. lia. }
    pose proof (half_le (S n) ltac:(lia)). rewrite Z.mod_small by lia. reflexivity.
Qed.

Lemma slice_length_range {A} ts (vs : list A) a b : length vs = length ts ->
  length (slice (fst (get_range a b ts)) (snd (get_range a b ts)) vs) = slice_len (get_range a b ts).
Proof.
  intros H. unfold slice, slice_len, get_range. cbn [fst snd]. rewrite firstn_length, skipn_length.
  pose proof (count_if_le_length (fun t => t <=? b) ts). unfold ss_right. lia.
Qed.

Lemma mean_plan_none ts ep L st :
  mean_plan ts ep L st = None <->
  (seg_slices ts (overlap_split ep L st) = [] \/
   exists ab, In ab (seg_slices ts (overlap_split ep L st)) /\ slice_len ab = 0%nat).
Proof.
  unfold mean_plan. cbv zeta. set (sl := seg_slices ts (overlap_split ep L st)).
  destruct sl as [|x r] eqn:E.
  - split; auto.
  - assert (Hne : x :: r <> []) by discriminate.
    destruct (min_len_spec (x :: r) Hne) as [HF (ab & Hin & Hab)].
    destruct (Nat.eqb_spec (min_len (x :: r)) 0) as [H0|H0].
    + split; auto. intros _. right. exists ab. split; auto. lia.
    + split; [discriminate|]. intros [H|(ab' & Hin' & H')]; [discriminate|].
      rewrite Forall_forall in HF. specialize (HF ab' Hin'). lia.
Qed.

Section Top.
  Variable K : Field.
  Hypothesis Fth : field_theory (f0 K) (f1 K) (fadd K) (fmul K) (fsub K) (fopp K) (fdiv K) (finv K) eq.
  Hypothesis char0 : forall n, ofnat K (S n) <> f0 K.
  Add Field Kfield2 : Fth.
  Variable dft : list K -> list (cplx K).

  Local Notation "x + y" := (fadd K x y).
  Local Notation "x * y" := (fmul K x y).
  Local Notation "x - y" := (fsub K x y).
  Local Notation "x / y" := (fdiv K x y).

  (* the samples inside the closed epoch, as the property states them *)
  (* rows reported: all frequencies, or the non-negative ones *)

  (* compute_fft: row k (frequency k*fs/n) holds DFT coefficient k mod n of the n-point (cropped/padded)
     signal made of exactly the samples inside the epoch, divided by n when norm *)
  Theorem compute_fft_spec ts vs s e full norm n :
    length_law K dft -> sortedZ ts -> s < e -> length vs = length ts ->
    let x := inside ts vs s e in
    let n' := resolve_n K n x in
    let X := dft (crop_pad (f0 K) n' x) in
    compute_fft K dft ts vs s e full norm n
    = map (fun k => (k, if norm then cdivn K n' (coef K n' X k) else coef K n' X k)) (krange full n').
  Proof.
    intros HL Hs Hse Hlen x n' X.
    unfold compute_fft. cbv zeta.
    assert (Ex : epoch_rows (f0 K) ts vs s e = x) by (apply epoch_rows_spec; auto).
    rewrite Ex. fold n'. unfold fft_values. cbv zeta. fold X.
    assert (HX : length X = n') by (unfold X; rewrite HL; apply crop_pad_length).
    unfold krange, coef. destruct norm.
    - rewrite (spectrum_rows_spec (cdivn K n' (c0 K))) by (rewrite map_length; exact HX).
      apply map_ext. intros k. f_equal. apply map_nth.
    - apply spectrum_rows_spec. exact HX.
  Qed.

  (* PSD rows: scale 1/(fs n); the one-sided form doubles exactly the rows k > 0 (all of which are below Nyquist) *)
  Theorem psd_spec ts vs s e fs full n :
    length_law K dft -> sortedZ ts -> s < e -> length vs = length ts ->
    let x := inside ts vs s e in
    let n' := resolve_n K n x in
    let X := dft (crop_pad (f0 K) n' x) in
    psd K dft ts vs s e fs full n
    = map (fun k => (k, let p := psd_scale K fs n' * norm2 K (coef K n' X k) in
                        if full then p else if k =? 0 then p else two K * p)) (krange full n').
  Proof.
    intros HL Hs Hse Hlen x n' X.
    pose proof (compute_fft_spec ts vs s e full false (Some n') HL Hs Hse Hlen) as E.
    cbv zeta in E. cbn [resolve_n] in E. fold x in E. fold X in E.
    unfold psd. cbv zeta.
    assert (Ex : epoch_rows (f0 K) ts vs s e = x) by (apply epoch_rows_spec; auto).
    rewrite Ex. fold n'. rewrite E. rewrite map_map. cbn [fst snd].
    destruct full.
    - reflexivity.
    - unfold double_rows. rewrite map_map. cbn [fst snd]. apply map_ext_in. intros k Hk. unfold krange in Hk.
      rewrite (doubled_onesided n' k Hk). destruct (k =? 0); reflexivity.
  Qed.

  Lemma psd_full_table ts vs s e fs n :
    length_law K dft -> sortedZ ts -> s < e -> length vs = length ts ->
    let x := inside ts vs s e in
    let n' := resolve_n K n x in
    let X := dft (crop_pad (f0 K) n' x) in
    psd K dft ts vs s e fs true n
    = map (fun kv : Z * cplx K => (fst kv, psd_scale K fs n' * norm2 K (snd kv))) (fft_table n' X).
  Proof.
    intros HL Hs Hse Hlen x n' X. unfold psd, compute_fft. cbv zeta.
    assert (Ex : epoch_rows (f0 K) ts vs s e = x) by (apply epoch_rows_spec; auto).
    rewrite Ex. reflexivity.
  Qed.

  (* Parseval: full-range PSD summed times the frequency step fs/n = mean square of the n-point signal *)
  Theorem psd_parseval ts vs s e fs n :
    length_law K dft -> sortedZ ts -> s < e -> length vs = length ts ->
    let x := inside ts vs s e in
    let n' := resolve_n K n x in
    parseval_at K dft (crop_pad (f0 K) n' x) -> (0 < fs)%Q -> (0 < n')%nat ->
    fsum K (map (fun kv => snd kv * (ofQ K fs / ofnat K n')) (psd K dft ts vs s e fs true n))
    = fsum K (map (sq K) (crop_pad (f0 K) n' x)) / ofnat K n'.
  Proof.
    intros HL Hs Hse Hlen x n' HP Hfs Hn.
    pose proof (psd_full_table ts vs s e fs n HL Hs Hse Hlen) as E. cbv zeta in E. fold x in E. fold n' in E.
    rewrite E. apply (psd_parseval_core K Fth char0); auto.
    - rewrite HL. apply crop_pad_length.
    - unfold parseval_at in HP. rewrite crop_pad_length in HP. exact HP.
  Qed.

  (* sum of the one-sided rows, on a vector of powers indexed by position *)
  Lemma onesided_fsum (p : nat -> K) q :
    fsum K (map (fun k => if k =? 0 then p (Z.to_nat k) else two K * p (Z.to_nat k)) (zrange 0 (S q)))
    = p 0%nat + two K * fsum K (map p (seq 1 q)).
  Proof.
    unfold zrange. cbn [seq map]. rewrite map_map.
    assert (E : map (fun i => if 0 + Z.of_nat i =? 0 then p (Z.to_nat (0 + Z.of_nat i))
                              else two K * p (Z.to_nat (0 + Z.of_nat i))) (seq 1 q)
              = map (fun y => two K * y) (map p (seq 1 q))).
    { rewrite map_map. apply map_ext_in. intros i Hi. apply in_seq in Hi.
      destruct (Z.eqb_spec (0 + Z.of_nat i) 0) as [H0|H0]; [lia|].
      replace (Z.to_nat (0 + Z.of_nat i)) with i by lia. reflexivity. }
    rewrite E. change (fsum K (?a :: ?l)) with (a + fsum K l).
    rewrite (fsum_scale K Fth). reflexivity.
  Qed.

  Lemma psd_sums ts vs s e fs n :
    length_law K dft -> sortedZ ts -> s < e -> length vs = length ts ->
    let x := inside ts vs s e in
    let n' := resolve_n K n x in
    let X := dft (crop_pad (f0 K) n' x) in
    let P := map (fun z => psd_scale K fs n' * norm2 K z) X in
    (0 < n')%nat ->
    length P = n' /\
    (forall i, (i < n')%nat -> nth i P (f0 K) = psd_scale K fs n' * norm2 K (nth i X (c0 K))) /\
    fsum K (map snd (psd K dft ts vs s e fs true n)) = fsum K P /\
    fsum K (map snd (psd K dft ts vs s e fs false n)) = onesided_total K P.
  Proof.
    intros HL Hs Hse Hlen x n' X P Hn.
    assert (HX : length X = n') by (unfold X; rewrite HL; apply crop_pad_length).
    assert (HPl : length P = n') by (unfold P; rewrite map_length; exact HX).
    assert (HPn : forall i, (i < n')%nat -> nth i P (f0 K) = psd_scale K fs n' * norm2 K (nth i X (c0 K))).
    { intros i Hi. unfold P.
      apply (nth_map_lt (fun z : cplx K => psd_scale K fs n' * norm2 K z) X i (c0 K) (f0 K)). lia. }
    split; [exact HPl|]. split; [exact HPn|]. split.
    - pose proof (psd_full_table ts vs s e fs n HL Hs Hse Hlen) as E. cbv zeta in E.
      fold x in E. fold n' in E. fold X in E. rewrite E. rewrite map_map. cbn [fst snd].
      rewrite (fsum_perm K Fth _ _ (Permutation_map _ (fft_table_perm n' X))).
      f_equal. unfold P. rewrite <- (map_snd_combine (fftfreq_idx n') X) at 2
        by (rewrite SpectrumIndexProofs.fftfreq_idx_length; congruence).
      rewrite map_map. reflexivity.
    - pose proof (psd_spec ts vs s e fs false n HL Hs Hse Hlen) as E. cbv zeta in E.
      fold x in E. fold n' in E. fold X in E. rewrite E. clear E.
      rewrite map_map. cbn [fst snd]. unfold krange.
      pose proof (half_pos n' Hn) as Hq. pose proof (half_le n' Hn) as Hq'.
      unfold onesided_total. rewrite HPl.
      destruct ((n' + 1) / 2)%nat as [|q] eqn:Eq; [lia|].
      replace (S q - 1)%nat with q by lia.
      rewrite <- (onesided_fsum (fun i => nth i P (f0 K)) q).
      f_equal. apply map_ext_in. intros k Hk. apply zrange_in in Hk.
      unfold coef. rewrite Z.mod_small by lia. rewrite HPn by lia. reflexivity.
  Qed.

  (* one-sided totals under Hermitian symmetry *)
  Theorem onesided_sum_odd ts vs s e fs n m :
    length_law K dft -> sortedZ ts -> s < e -> length vs = length ts ->
    let x := inside ts vs s e in
    let n' := resolve_n K n x in
    hermitian_at K dft (crop_pad (f0 K) n' x) -> n' = (2 * m + 1)%nat ->
    fsum K (map snd (psd K dft ts vs s e fs false n)) = fsum K (map snd (psd K dft ts vs s e fs true n)).
  Proof.
    intros HL Hs Hse Hlen x n' Hh Hm.
    assert (Hn : (0 < n')%nat) by lia.
    destruct (psd_sums ts vs s e fs n HL Hs Hse Hlen Hn) as (HPl & HPn & E1 & E2).
    fold x in HPl, HPn, E1, E2. fold n' in HPl, HPn, E1, E2.
    rewrite E1, E2. apply (onesided_total_odd K Fth _ m).
    - rewrite HPl. exact Hm.
    - rewrite HPl. intros k Hk. rewrite !HPn by lia. f_equal.
      unfold hermitian_at in Hh. rewrite crop_pad_length in Hh. apply Hh. exact Hk.
  Qed.
  Theorem onesided_sum_even ts vs s e fs n m :
    length_law K dft -> sortedZ ts -> s < e -> length vs = length ts ->
    let x := inside ts vs s e in
    let n' := resolve_n K n x in
    let X := dft (crop_pad (f0 K) n' x) in
    hermitian_at K dft (crop_pad (f0 K) n' x) -> n' = (2 * m)%nat -> (0 < m)%nat ->
    fsum K (map snd (psd K dft ts vs s e fs false n))
    = fsum K (map snd (psd K dft ts vs s e fs true n)) - psd_scale K fs n' * norm2 K (nth m X (c0 K)).
  Proof.
    intros HL Hs Hse Hlen x n' X Hh Hm Hmpos.
    assert (Hn : (0 < n')%nat) by lia.
    destruct (psd_sums ts vs s e fs n HL Hs Hse Hlen Hn) as (HPl & HPn & E1 & E2).
    fold x in HPl, HPn, E1, E2. fold n' in HPl, HPn, E1, E2. fold X in HPl, HPn, E1, E2.
    rewrite E1, E2. rewrite <- (HPn m) by lia. apply (onesided_total_even K Fth _ m).
    - rewrite HPl. exact Hm.
    - exact Hmpos.
    - rewrite HPl. intros k Hk. rewrite !HPn by lia. f_equal.
      unfold hermitian_at in Hh. rewrite crop_pad_length in Hh. apply Hh. exact Hk.
  Qed.

  Variable window : nat -> list K.

  (* mean PSD: the value at row k is the average over the segments of their windowed periodograms at bin k mod N *)
  Lemma segs_chunks ts vs ep L st : sortedZ ts -> length vs = length ts ->
    map (fun ab => slice (fst ab) (snd ab) vs) (seg_slices ts (overlap_split ep L st)) = chunks K ts vs ep L st.
  Proof.
    intros Hs Hlen. unfold seg_slices, chunks. rewrite map_map. apply map_ext. intros [a b]. cbn [fst snd].
    apply seg_values_spec; auto.
  Qed.
  Lemma chunk_len ts (vs : list K) a b : sortedZ ts -> length vs = length ts ->
    length (inside ts vs a b) = slice_len (get_range a b ts).
  Proof.
    intros Hs Hlen. unfold inside. rewrite <- (seg_values_spec ts vs a b Hs Hlen).
    apply slice_length_range. exact Hlen.
  Qed.
  Theorem mean_psd_spec ts vs ep L st fs full rows :
    length_law K dft -> (forall N, length (window N) = N) -> sortedZ ts -> length vs = length ts ->
    mean_psd K dft window ts vs ep L st fs full = Some rows ->
    let ch := chunks K ts vs ep L st in
    exists N, ch <> [] /\ (0 < N)%nat /\ Forall (fun c => (N <= length c)%nat) ch /\ (exists c, In c ch /\ length c = N) /\
      (rows = map (fun k => (k, let avg := fsum K (map (fun c => nth (Z.to_nat (k mod Z.of_nat N)) (periodogram K dft window fs N c) (f0 K)) ch)
                                           / ofnat K (length ch) in
                                if full then avg else if k =? 0 then avg else two K * avg)) (krange full N)).
  Proof.
    intros HL HW Hs Hlen Hm ch.
    unfold mean_psd in Hm. destruct (mean_plan ts ep L st) as [[N sl]|] eqn:Ep; [|discriminate].
    destruct (mean_plan_spec _ _ _ _ _ _ Ep) as (Hsl & Hne & HN & Hpos).
    cbv zeta in Hm. injection Hm as Hrows.
    assert (Hsegs : map (fun ab => slice (fst ab) (snd ab) vs) sl = ch) by (rewrite Hsl; apply segs_chunks; auto).
    rewrite Hsegs in Hrows.
    assert (Hlench : length sl = length ch) by (rewrite <- Hsegs, map_length; reflexivity).
    rewrite Hlench in Hrows.
    destruct (min_len_spec sl Hne) as [HF (ab & Hin & Hab)]. rewrite <- HN in HF, Hab.
    assert (HFch : Forall (fun c => (N <= length c)%nat) ch).
    { unfold ch, chunks. apply Forall_forall. intros c Hc. apply in_map_iff in Hc. destruct Hc as ([a b] & Hc & Hin').
      subst c. cbn [fst snd]. rewrite chunk_len by auto. rewrite Forall_forall in HF. apply HF.
      rewrite Hsl. unfold seg_slices. apply in_map_iff. exists (a, b). auto. }
    exists N. split; [|split; [exact Hpos|split; [exact HFch|split]]].
    - intros Hc. apply Hne. rewrite Hsl. unfold ch, chunks in Hc. unfold seg_slices.
      destruct (overlap_split ep L st); [reflexivity|discriminate].
    - rewrite Hsl in Hin. unfold seg_slices in Hin. apply in_map_iff in Hin. destruct Hin as ([a b] & Hab' & Hin).
      exists (inside ts vs a b). split.
      + unfold ch, chunks. apply in_map_iff. exists (a, b); auto.
      + rewrite chunk_len by auto. rewrite Hab'. exact Hab.
    - set (pers := map (periodogram K dft window fs N) ch) in *.
      assert (HFp : Forall (fun l => length l = N) pers).
      { unfold pers. apply Forall_forall. intros l Hl. apply in_map_iff in Hl. destruct Hl as (c & Hl & Hc). subst l.
        unfold periodogram. rewrite map_length, HL, map2_length, firstn_length, HW.
        rewrite Forall_forall in HFch. specialize (HFch c Hc). lia. }
      set (acc := fold_left (vadd K) pers (repeat (f0 K) N)) in *.
      assert (Hacc : length acc = N) by (apply fold_vadd_length; exact HFp).
      set (M := ofnat K (length ch)) in *.
      set (avg := map (fun p => p / M) acc) in *.
      assert (Havg : length avg = N) by (unfold avg; rewrite map_length; exact Hacc).
      assert (Hnth : forall i, (i < N)%nat -> nth i avg (f0 K)
                = fsum K (map (fun c => nth i (periodogram K dft window fs N c) (f0 K)) ch) / M).
      { intros i Hi. unfold avg. rewrite (nth_map_lt (fun p => p / M) acc i (f0 K) (f0 K)) by lia.
        unfold acc. rewrite (fold_vadd_nth K Fth pers N i HFp Hi). unfold pers. rewrite map_map. reflexivity. }
      rewrite <- Hrows. unfold krange. destruct full.
      + rewrite (fft_table_spec (f0 K) N avg Havg). apply map_ext_in. intros k Hk. f_equal. apply Hnth.
        pose proof (Z.mod_pos_bound k (Z.of_nat N) ltac:(lia)). lia.
      + rewrite (double_rows_onesided (fun p => two K * p) (f0 K) N avg Havg).
        apply map_ext_in. intros k Hk. apply zrange_in in Hk. pose proof (half_le N Hpos).
        rewrite Z.mod_small by lia. rewrite Hnth by lia. reflexivity.
  Qed.
  (* ... and it raises exactly when no segment fits strictly inside an epoch or some segment holds no sample *)
  Theorem mean_psd_none ts vs ep L st fs full : sortedZ ts -> length vs = length ts ->
    (mean_psd K dft window ts vs ep L st fs full = None
     <-> (chunks K ts vs ep L st = [] \/ exists c, In c (chunks K ts vs ep L st) /\ c = [])).
  Proof.
    intros Hs Hlen.
    assert (E : mean_psd K dft window ts vs ep L st fs full = None <-> mean_plan ts ep L st = None).
    { unfold mean_psd. destruct (mean_plan ts ep L st) as [[N sl]|]; split; intros; try discriminate; auto. }
    rewrite E, mean_plan_none. unfold chunks, seg_slices.
    split; (intros [H|H]; [left|right]).
    - destruct (overlap_split ep L st); [reflexivity|discriminate].
    - destruct H as (ab & Hin & H0). apply in_map_iff in Hin. destruct Hin as ([a b] & Hab & Hin).
      exists (inside ts vs a b). split.
      + apply in_map_iff. exists (a, b). auto.
      + apply length_zero_iff_nil. rewrite chunk_len by auto. rewrite Hab. exact H0.
    - destruct (overlap_split ep L st); [reflexivity|discriminate].
    - destruct H as (c & Hin & Hc). apply in_map_iff in Hin. destruct Hin as ([a b] & Hab & Hin).
      exists (get_range a b ts). split.
      + apply in_map_iff. exists (a, b). auto.
      + rewrite <- (chunk_len ts vs a b Hs Hlen). cbn [fst snd] in Hab. rewrite Hab, Hc. reflexivity.
  Qed.
End Top.

Print Assumptions compute_fft_spec.
Print Assumptions psd_spec.
Print Assumptions psd_parseval.
Print Assumptions onesided_sum_odd.
Print Assumptions onesided_sum_even.
Print Assumptions mean_psd_spec.
Print Assumptions mean_psd_none.
