(* Round trip: a stored lattice instant exported with times(units) (ret u) and re-imported
   with the same unit (fmt u) is the same double.  Bit-level binary64, |k| <= 1e11 us. *)
From Coq Require Import PrimFloat Uint63 ZArith Reals Lra Lia Floats.
From Flocq Require Import Core BinarySingleNaN PrimFloat Relative.
From Interval Require Import Tactic.
From Verif Require Import Model.FloatTime Proofs.FloatTimeProofs Proofs.FloatTimeNeg.
Open Scope float_scope.
Local Notation float := Coq.Floats.PrimFloat.float (only parsing).

Local Instance valid_flt : Valid_exp (FLT_exp (-1074) 53).
Proof. apply FLT_exp_valid. reflexivity. Qed.

(* ------------------------------------------------------------------ *)
(* operations with a larger no-overflow bound (x * 1e6 * 1e9 reaches 1e20 > 2^60) *)
(* ------------------------------------------------------------------ *)

Definition big2 : R := 1267650600228229401496703205376%R.   (* 2^100 *)

Lemma big2_bpow : big2 = bpow radix2 100.
Proof. unfold big2. change (bpow radix2 100) with (IZR (Z.pow_pos 2 100)). reflexivity. Qed.

Lemma rnd_no_overflow2 : forall r, (Rabs r <= big2)%R ->
  Rlt_bool (Rabs (round radix2 (fexp prec emax) (round_mode mode_NE) r)) (bpow radix2 emax) = true.
Proof.
  intros r Hr. apply Rlt_bool_true.
  change (fexp prec emax) with (FLT_exp (-1074) 53).
  apply Rle_lt_trans with (bpow radix2 100).
  - apply abs_round_le_generic; try typeclasses eauto.
    + apply generic_format_FLT_bpow. reflexivity. lia.
    + rewrite <- big2_bpow. exact Hr.
  - apply bpow_lt. reflexivity.
Qed.

Lemma mul_ok2 : forall x y, fin x -> fin y -> (Rabs (FR x * FR y) <= big2)%R ->
  fin (x * y) /\ FR (x * y) = rnd (FR x * FR y).
Proof.
  unfold fin, FR. intros x y Fx Fy Hb. rewrite mul_equiv.
  generalize (Bmult_correct prec emax Hprec Hmax mode_NE (Prim2B x) (Prim2B y)).
  rewrite (rnd_no_overflow2 _ Hb). intros (H1 & H2 & _).
  rewrite H2, Fx, Fy. split. reflexivity. exact H1.
Qed.

Lemma div_ok2 : forall x y, fin x -> (FR y <> 0)%R -> (Rabs (FR x / FR y) <= big2)%R ->
  fin (x / y) /\ FR (x / y) = rnd (FR x / FR y).
Proof.
  unfold fin, FR. intros x y Fx Hy Hb. rewrite div_equiv.
  generalize (Bdiv_correct prec emax Hprec Hmax mode_NE (Prim2B x) (Prim2B y) Hy).
  rewrite (rnd_no_overflow2 _ Hb). intros (H1 & H2 & _).
  rewrite H2, Fx. split. reflexivity. exact H1.
Qed.

Lemma step_mul2 : forall x c rx rc, fin x -> FR x = rx -> fin c -> FR c = rc ->
  (tiny <= Rabs (rx * rc) <= big2)%R ->
  exists e, (- u <= e <= u)%R /\ fin (x * c) /\ FR (x * c) = (rx * rc * (1 + e))%R.
Proof.
  intros x c rx rc Fx Rx Fc Rc (H1, H2).
  destruct (mul_ok2 x c Fx Fc) as (F & E). { rewrite Rx, Rc. exact H2. }
  rewrite Rx, Rc in E.
  destruct (rnd_rel _ H1) as (e & He & Ee).
  exists e. split. apply Rabs_le_inv. exact He. split. exact F. congruence.
Qed.

Lemma step_div2 : forall x c rx rc, fin x -> FR x = rx -> FR c = rc -> (rc <> 0)%R ->
  (tiny <= Rabs (rx / rc) <= big2)%R ->
  exists e, (- u <= e <= u)%R /\ fin (x / c) /\ FR (x / c) = (rx / rc * (1 + e))%R.
Proof.
  intros x c rx rc Fx Rx Rc Hc (H1, H2).
  destruct (div_ok2 x c Fx) as (F & E). { rewrite Rc. exact Hc. } { rewrite Rx, Rc. exact H2. }
  rewrite Rx, Rc in E.
  destruct (rnd_rel _ H1) as (e & He & Ee).
  exists e. split. apply Rabs_le_inv. exact He. split. exact F. congruence.
Qed.

(* ------------------------------------------------------------------ *)
(* signed integers, signed rint                                          *)
(* ------------------------------------------------------------------ *)

Lemma fzs_ok : forall n : Z, (Z.abs n < 9007199254740992)%Z ->
  fin (fzs n) /\ FR (fzs n) = IZR n.
Proof.
  intros n Hn. unfold fzs. destruct (Z.ltb_spec n 0) as [Hneg | Hpos].
  - destruct (fz_ok (- n) ltac:(lia)) as (F & R & _).
    destruct (opp_ok _ F) as (F' & R'). split. exact F'.
    rewrite R', R, opp_IZR. lra.
  - destruct (fz_ok n ltac:(lia)) as (F & R & _). split; assumption.
Qed.

Lemma rint_near_s : forall (y : float) (n : Z),
  fin y -> (Rabs (FR y - IZR n) < / 2)%R ->
  (1 <= Z.abs n < 4503599627370496)%Z ->
  rint y = fzs n.
Proof.
  intros y n Fy Hd Hn. unfold fzs. apply Rabs_def2 in Hd.
  destruct (Z.ltb_spec n 0) as [Hneg | Hpos].
  - assert (IZR n <= -1)%R by (apply IZR_le; lia).
    apply rint_near_neg.
    + exact Fy.
    + lra.
    + rewrite opp_IZR. apply Rabs_def1; lra.
    + lia.
  - assert (1 <= IZR n)%R by (apply IZR_le; lia).
    apply rint_near.
    + exact Fy.
    + lra.
    + apply Rabs_def1; lra.
    + lia.
Qed.

Lemma ltb0_false : forall y, fin y -> (0 <= FR y)%R -> (y <? 0) = false.
Proof.
  intros y Fy Hy. rewrite ltb_equiv. rewrite Bltb_correct; [| exact Fy | exact fin_0].
  fold (FR y). fold (FR 0). rewrite FR_0. apply Rlt_bool_false. exact Hy.
Qed.

(* in [2^52, 2^53) rounding is rounding to the nearest integer *)
Lemma rnd_53 : forall v, (4503599627370496 <= v < 9007199254740992)%R ->
  rnd v = IZR (ZnearestE v).
Proof.
  intros v Hv. unfold rnd, round, scaled_mantissa, cexp.
  assert (M : mag radix2 v = 53%Z :> Z).
  { apply mag_unique_pos.
    change (bpow radix2 (53 - 1)) with (IZR (Z.pow_pos 2 52)).
    change (bpow radix2 53) with (IZR (Z.pow_pos 2 53)).
    change (Z.pow_pos 2 52) with 4503599627370496%Z.
    change (Z.pow_pos 2 53) with 9007199254740992%Z. lra. }
  rewrite M. change (FLT_exp (-1074) 53 53) with 0%Z.
  unfold F2R; simpl. rewrite Rmult_1_r, Rmult_1_r. reflexivity.
Qed.

Lemma rint_pos_half : forall y, fin y -> (0 <= FR y < 4503599627370496)%R ->
  fin (y + two52 - two52) /\ (Rabs (FR (y + two52 - two52) - FR y) <= / 2)%R.
Proof.
  intros y Fy Hy.
  destruct (add_ok y two52 Fy fin_two52) as (F1 & R1 & _).
  { rewrite FR_two52. unfold big. apply Rabs_le. lra. }
  rewrite FR_two52 in R1. rewrite rnd_53 in R1 by lra.
  pose proof (Znearest_half (fun x => negb (Z.even x)) (FR y + 4503599627370496)) as Hh.
  set (n := ZnearestE (FR y + 4503599627370496)) in *.
  apply Rabs_le_inv in Hh.
  assert (N1 : (4503599627370495 < n)%Z) by (apply lt_IZR; lra).
  assert (N2 : (n < 9007199254740993)%Z) by (apply lt_IZR; lra).
  destruct (sub_ok (y + two52) two52 F1 fin_two52) as (F2 & R2 & _).
  { rewrite R1, FR_two52. unfold big. apply Rabs_le.
    assert (IZR n <= 9007199254740992)%R by (apply IZR_le; lia).
    assert (4503599627370496 <= IZR n)%R by (apply IZR_le; lia). lra. }
  rewrite R1, FR_two52 in R2.
  replace (IZR n - 4503599627370496)%R with (IZR (n - 4503599627370496)) in R2
    by (rewrite minus_IZR; reflexivity).
  rewrite rnd_int in R2 by lia. rewrite minus_IZR in R2.
  split. exact F2. rewrite R2. apply Rabs_le. lra.
Qed.

Lemma rint_any_half : forall y, fin y ->
  fin (rint_any y) /\ (Rabs (FR (rint_any y) - FR y) <= / 2)%R.
Proof.
  intros y Fy. unfold rint_any.
  assert (Fa : fin (abs y)).
  { unfold fin. rewrite abs_equiv, is_finite_Babs. exact Fy. }
  rewrite leb_equiv, Bleb_correct; [| exact fin_two52 | exact Fa].
  rewrite abs_equiv, B2R_Babs. fold (FR two52). fold (FR y). rewrite FR_two52.
  destruct (Rle_bool_spec 4503599627370496 (Rabs (FR y))) as [Hbig | Hsmall].
  - split. exact Fy. replace (FR y - FR y)%R with 0%R by ring. rewrite Rabs_R0. lra.
  - unfold rint. destruct (Rlt_or_le (FR y) 0) as [Hneg | Hpos].
    + rewrite (ltb0_true y Fy Hneg).
      destruct (opp_ok y Fy) as (Fo & Ro).
      rewrite Rabs_left in Hsmall by exact Hneg.
      destruct (rint_pos_half (- y) Fo) as (F1 & H1). { rewrite Ro. lra. }
      destruct (opp_ok _ F1) as (F2 & R2). split. exact F2.
      rewrite R2. rewrite Ro in H1.
      replace (- FR (- y + two52 - two52) - FR y)%R
        with (- (FR (- y + two52 - two52) - - FR y))%R by ring.
      rewrite Rabs_Ropp. exact H1.
    + rewrite (ltb0_false y Fy Hpos).
      rewrite Rabs_pos_eq in Hsmall by exact Hpos.
      apply rint_pos_half. exact Fy. lra.
Qed.

Lemma rint_any_small : forall y, fin y -> (Rabs (FR y) < 4503599627370496)%R ->
  rint_any y = rint y.
Proof.
  intros y Fy Hy. unfold rint_any.
  assert (Fa : fin (abs y)).
  { unfold fin. rewrite abs_equiv, is_finite_Babs. exact Fy. }
  rewrite leb_equiv, Bleb_correct; [| exact fin_two52 | exact Fa].
  rewrite abs_equiv, B2R_Babs. fold (FR two52). fold (FR y). rewrite FR_two52.
  rewrite Rle_bool_false by exact Hy. reflexivity.
Qed.

(* ------------------------------------------------------------------ *)
(* robustness of fmt: every double close enough to a lattice instant is mapped
   to the canonical double                                               *)
(* ------------------------------------------------------------------ *)

Definition nrange (n : Z) : Prop :=
  (1 <= IZR n <= 100000000000000)%R \/ (-100000000000000 <= IZR n <= -1)%R.

Lemma nrange_of : forall n, (1 <= Z.abs n <= 100000000000000)%Z -> nrange n.
Proof.
  intros n Hn. unfold nrange. destruct (Z_lt_le_dec n 0).
  - right. split; apply IZR_le; lia.
  - left. split; apply IZR_le; lia.
Qed.

Definition nrange3 (n : Z) : Prop :=
  (1000 <= IZR n <= 100000000000000)%R \/ (-100000000000000 <= IZR n <= -1000)%R.

Lemma nrange3_of : forall n, (1000 <= Z.abs n <= 100000000000000)%Z -> nrange3 n.
Proof.
  intros n Hn. unfold nrange3. destruct (Z_lt_le_dec n 0).
  - right. split; apply IZR_le; lia.
  - left. split; apply IZR_le; lia.
Qed.

Lemma around9_near_s : forall (x : float) (n : Z),
  fin x -> (Rabs (FR x * 1000000000 - IZR n) <= 4 / 10)%R ->
  (1 <= Z.abs n <= 100000000000000)%Z ->
  around9 x = fzs n / 1e9.
Proof.
  intros x n Fx Hd Hn. pose proof (nrange_of n Hn) as HN.
  apply Rabs_le_inv in Hd.
  set (s := (FR x * 1000000000 - IZR n)%R) in *.
  assert (Ht : (FR x * 1000000000 = IZR n + s)%R) by (unfold s; ring).
  clearbody s.
  destruct (step_mul x 1e9 _ _ Fx eq_refl fin_1e9 FR_1e9) as (e & He & F & R).
  { rewrite Ht. unfold tiny, big. destruct HN as [HN | HN]; split; interval. }
  rewrite Ht in R.
  unfold around9. f_equal. apply rint_near_s.
  - exact F.
  - rewrite R. replace ((IZR n + s) * (1 + e) - IZR n)%R with (s + (IZR n + s) * e)%R by ring.
    unfold u in *. destruct HN as [HN | HN]; interval.
  - lia.
Qed.

Lemma fmt1_near_s : forall (w : float) (n : Z),
  fin w -> (Rabs (FR w * 1000000 - IZR n) <= 3 / 10)%R ->
  (1000 <= Z.abs n <= 100000000000000)%Z ->
  fmt 1 w = fzs n / 1e9.
Proof.
  intros w n Fw Hd Hn. pose proof (nrange3_of n Hn) as HN.
  apply Rabs_le_inv in Hd.
  set (s := (FR w * 1000000 - IZR n)%R) in *.
  assert (Ht : (FR w = (IZR n + s) / 1000000)%R) by (unfold s; field).
  clearbody s.
  destruct (step_div w 1e3 _ _ Fw Ht FR_1e3) as (e & He & F & R).
  { lra. }
  { unfold tiny, big. destruct HN as [HN | HN]; split; interval. }
  unfold fmt. apply around9_near_s.
  - exact F.
  - rewrite R.
    replace ((IZR n + s) / 1000000 / 1000 * (1 + e) * 1000000000 - IZR n)%R
      with (s + (IZR n + s) * e)%R by field.
    unfold u in *. apply Rabs_le. destruct HN as [HN | HN]; split; interval.
  - lia.
Qed.

Lemma fmt2_near_s : forall (w : float) (n : Z),
  fin w -> (Rabs (FR w * 1000 - IZR n) <= 3 / 10)%R ->
  (1000 <= Z.abs n <= 100000000000000)%Z ->
  fmt 2 w = fzs n / 1e9.
Proof.
  intros w n Fw Hd Hn. pose proof (nrange3_of n Hn) as HN.
  apply Rabs_le_inv in Hd.
  set (s := (FR w * 1000 - IZR n)%R) in *.
  assert (Ht : (FR w = (IZR n + s) / 1000)%R) by (unfold s; field).
  clearbody s.
  destruct (step_div w 1e6 _ _ Fw Ht FR_1e6) as (e & He & F & R).
  { lra. }
  { unfold tiny, big. destruct HN as [HN | HN]; split; interval. }
  unfold fmt. apply around9_near_s.
  - exact F.
  - rewrite R.
    replace ((IZR n + s) / 1000 / 1000000 * (1 + e) * 1000000000 - IZR n)%R
      with (s + (IZR n + s) * e)%R by field.
    unfold u in *. apply Rabs_le. destruct HN as [HN | HN]; split; interval.
  - lia.
Qed.

(* ------------------------------------------------------------------ *)
(* the stored canonical double and its export                            *)
(* ------------------------------------------------------------------ *)

Definition krange (k : Z) : Prop :=
  (1 <= IZR k <= 100000000000)%R \/ (-100000000000 <= IZR k <= -1)%R.

Lemma krange_of : forall k, (1 <= Z.abs k <= 100000000000)%Z -> krange k.
Proof.
  intros k Hk. unfold krange. destruct (Z_lt_le_dec k 0).
  - right. split; apply IZR_le; lia.
  - left. split; apply IZR_le; lia.
Qed.

Lemma canon_s_ok : forall k : Z, (1 <= Z.abs k <= 100000000000)%Z ->
  exists e0, (- u <= e0 <= u)%R /\ fin (canon_s k) /\
             FR (canon_s k) = (1000 * IZR k / 1000000000 * (1 + e0))%R.
Proof.
  intros k Hk. pose proof (krange_of k Hk) as HK.
  destruct (fzs_ok (1000 * k) ltac:(lia)) as (F & R). rewrite mult_IZR in R.
  unfold canon_s.
  apply (step_div (fzs (1000 * k)) 1e9 _ _ F R FR_1e9).
  - lra.
  - unfold tiny, big. destruct HK as [HK | HK]; split; interval.
Qed.

(* seconds: exporting the stored double is the identity, and so is re-importing *)
Lemma around9_canon : forall k : Z, (1 <= Z.abs k <= 100000000000)%Z ->
  around9 (canon_s k) = canon_s k.
Proof.
  intros k Hk. pose proof (krange_of k Hk) as HK.
  destruct (canon_s_ok k Hk) as (e0 & He0 & F & R).
  unfold canon_s at 2. apply around9_near_s.
  - exact F.
  - rewrite R, mult_IZR.
    replace (1000 * IZR k / 1000000000 * (1 + e0) * 1000000000 - 1000 * IZR k)%R
      with (1000 * IZR k * e0)%R by field.
    unfold u in *. apply Rabs_le. destruct HK as [HK | HK]; split; interval.
  - lia.
Qed.

Lemma ret0_canon : forall k : Z, (1 <= Z.abs k <= 100000000000)%Z ->
  ret 0 (canon_s k) = canon_s k.
Proof.
  intros k Hk. pose proof (krange_of k Hk) as HK.
  destruct (canon_s_ok k Hk) as (e0 & He0 & F & R).
  rewrite <- (around9_canon k Hk) at 2.
  unfold ret, around9_any, around9. f_equal.
  destruct (step_mul (canon_s k) 1e9 _ _ F R fin_1e9 FR_1e9) as (e1 & He1 & F1 & R1).
  { unfold tiny, big, u in *. destruct HK as [HK | HK]; split; interval. }
  apply rint_any_small. exact F1.
  rewrite R1. unfold u in *. destruct HK as [HK | HK]; interval.
Qed.

Lemma ret1_near : forall k : Z, (1 <= Z.abs k <= 100000000000)%Z ->
  fin (ret 1 (canon_s k)) /\
  (Rabs (FR (ret 1 (canon_s k)) * 1000000 - IZR (1000 * k)) <= 3 / 10)%R.
Proof.
  intros k Hk. pose proof (krange_of k Hk) as HK.
  destruct (canon_s_ok k Hk) as (e0 & He0 & F & R).
  unfold ret, around9_any.
  destruct (step_mul (canon_s k) 1e3 _ _ F R fin_1e3 FR_1e3) as (e1 & He1 & F1 & R1).
  { unfold tiny, big, u in *. destruct HK as [HK | HK]; split; interval. }
  destruct (step_mul2 (canon_s k * 1e3) 1e9 _ _ F1 R1 fin_1e9 FR_1e9) as (e2 & He2 & F2 & R2).
  { unfold tiny, big2, u in *. destruct HK as [HK | HK]; split; interval. }
  destruct (rint_any_half _ F2) as (F3 & H3). apply Rabs_le_inv in H3.
  set (z := rint_any (canon_s k * 1e3 * 1e9)) in *.
  set (d := (FR z - FR (canon_s k * 1e3 * 1e9))%R) in *.
  assert (R3 : FR z = (1000 * IZR k / 1000000000 * (1 + e0) * 1000 * (1 + e1) * 1000000000 * (1 + e2) + d)%R).
  { rewrite <- R2. unfold d. ring. }
  clearbody d.
  destruct (step_div2 z 1e9 _ _ F3 R3 FR_1e9) as (e3 & He3 & F4 & R4).
  { lra. }
  { unfold tiny, big2, u in *. destruct HK as [HK | HK]; split; interval. }
  split. exact F4.
  rewrite R4, mult_IZR.
  replace ((1000 * IZR k / 1000000000 * (1 + e0) * 1000 * (1 + e1) * 1000000000 * (1 + e2) + d)
             / 1000000000 * (1 + e3) * 1000000 - 1000 * IZR k)%R
    with (1000 * IZR k * ((1 + e0) * (1 + e1) * (1 + e2) * (1 + e3) - 1)
          + d / 1000 * (1 + e3))%R by field.
  unfold u in *. apply Rabs_le.
  destruct HK as [HK | HK]; split; interval with (i_prec 100).
Qed.

Lemma ret2_near : forall k : Z, (1 <= Z.abs k <= 100000000000)%Z ->
  fin (ret 2 (canon_s k)) /\
  (Rabs (FR (ret 2 (canon_s k)) * 1000 - IZR (1000 * k)) <= 3 / 10)%R.
Proof.
  intros k Hk. pose proof (krange_of k Hk) as HK.
  destruct (canon_s_ok k Hk) as (e0 & He0 & F & R).
  unfold ret, around9_any.
  destruct (step_mul (canon_s k) 1e6 _ _ F R fin_1e6 FR_1e6) as (e1 & He1 & F1 & R1).
  { unfold tiny, big, u in *. destruct HK as [HK | HK]; split; interval. }
  destruct (step_mul2 (canon_s k * 1e6) 1e9 _ _ F1 R1 fin_1e9 FR_1e9) as (e2 & He2 & F2 & R2).
  { unfold tiny, big2, u in *. destruct HK as [HK | HK]; split; interval. }
  destruct (rint_any_half _ F2) as (F3 & H3). apply Rabs_le_inv in H3.
  set (z := rint_any (canon_s k * 1e6 * 1e9)) in *.
  set (d := (FR z - FR (canon_s k * 1e6 * 1e9))%R) in *.
  assert (R3 : FR z = (1000 * IZR k / 1000000000 * (1 + e0) * 1000000 * (1 + e1) * 1000000000 * (1 + e2) + d)%R).
  { rewrite <- R2. unfold d. ring. }
  clearbody d.
  destruct (step_div2 z 1e9 _ _ F3 R3 FR_1e9) as (e3 & He3 & F4 & R4).
  { lra. }
  { unfold tiny, big2, u in *. destruct HK as [HK | HK]; split; interval. }
  split. exact F4.
  rewrite R4, mult_IZR.
  replace ((1000 * IZR k / 1000000000 * (1 + e0) * 1000000 * (1 + e1) * 1000000000 * (1 + e2) + d)
             / 1000000000 * (1 + e3) * 1000 - 1000 * IZR k)%R
    with (1000 * IZR k * ((1 + e0) * (1 + e1) * (1 + e2) * (1 + e3) - 1)
          + d / 1000000 * (1 + e3))%R by field.
  unfold u in *. apply Rabs_le.
  destruct HK as [HK | HK]; split; interval with (i_prec 100).
Qed.

(* ------------------------------------------------------------------ *)
(* round trip                                                            *)
(* ------------------------------------------------------------------ *)

Theorem unit_roundtrip_signed : forall k : Z, (-100000000000 <= k <= 100000000000)%Z ->
  fmt 2 (ret 2 (canon_s k)) = canon_s k /\
  fmt 1 (ret 1 (canon_s k)) = canon_s k /\
  fmt 0 (ret 0 (canon_s k)) = canon_s k.
Proof.
  intros k Hk.
  destruct (Z.eq_dec k 0) as [-> | Hnz].
  - repeat split; vm_compute; reflexivity.
  - assert (Hk1 : (1 <= Z.abs k <= 100000000000)%Z) by lia.
    repeat split.
    + destruct (ret2_near k Hk1) as (F & H).
      unfold canon_s at 2. apply fmt2_near_s. exact F. exact H. lia.
    + destruct (ret1_near k Hk1) as (F & H).
      unfold canon_s at 2. apply fmt1_near_s. exact F. exact H. lia.
    + rewrite (ret0_canon k Hk1). unfold fmt. apply around9_canon. exact Hk1.
Qed.

Lemma canon_s_nonneg : forall k : Z, (0 <= k)%Z -> canon_s k = canon_of k.
Proof.
  intros k Hk. unfold canon_s, canon_of, fzs.
  assert (L : (1000 * k <? 0)%Z = false) by (apply Z.ltb_ge; lia).
  rewrite L. reflexivity.
Qed.

Theorem unit_roundtrip : forall k : Z, (0 <= k <= 100000000000)%Z ->
  fmt 2 (ret 2 (canon_of k)) = canon_of k /\
  fmt 1 (ret 1 (canon_of k)) = canon_of k /\
  fmt 0 (ret 0 (canon_of k)) = canon_of k.
Proof.
  intros k Hk. rewrite <- (canon_s_nonneg k) by lia.
  apply unit_roundtrip_signed. lia.
Qed.

Print Assumptions unit_roundtrip_signed.
Print Assumptions unit_roundtrip.
