(* C02: the public wrappers (kernel + constructor) are the Boolean operations for every instant
   farther than 1 us from every endpoint of the operands. *)
From Verif Require Import Base.Prelude Model.Iset Proofs.BaseLemmas Proofs.FixIsetProofs Proofs.FixIsetCover Proofs.C01Top
  Proofs.InterDiffProofs Proofs.UnionProofs.
From Coq Require Import ZifyBool.

Definition is_endpoint (p : Z) (A : iset) : Prop := In p (starts A) \/ In p (ends A).
(* x is farther than 1 us from every endpoint of A and B *)
Definition far (x : Z) (A B : iset) : Prop :=
  forall p, is_endpoint p A \/ is_endpoint p B -> p + us < x \/ x < p - us.

Lemma far_not_endpoint x A B : far x A B -> ~ is_endpoint x A /\ ~ is_endpoint x B.
Proof. intros H. split; intros Hp; [destruct (H x (or_introl Hp))|destruct (H x (or_intror Hp))]; unfold us in *; lia. Qed.

Theorem wrapper_inter_mem A B x : canonical A -> canonical B -> far x A B ->
  mem x (iset_inter A B) = mem x A && mem x B.
Proof.
  intros Ha Hb Hf. unfold iset_inter.
  rewrite mk_iset_canonical_id by (apply inter_raw_canonical; assumption).
  apply inter_mem; try assumption.
  destruct (far_not_endpoint _ _ _ Hf) as [Na Nb].
  unfold touch_point, is_endpoint in *. tauto.
Qed.

Theorem wrapper_diff_mem A B x : canonical A -> canonical B -> far x A B ->
  mem x (iset_diff A B) = mem x A && negb (mem x B).
Proof.
  intros Ha Hb Hf. unfold iset_diff.
  rewrite mk_iset_canonical_id by (apply diff_raw_canonical; assumption).
  apply diff_mem; try assumption.
  destruct (far_not_endpoint _ _ _ Hf) as [Na Nb]. exact Nb.
Qed.

Lemma weakly_canonical_sorted W : weakly_canonical W ->
  sortedZ (map fst W) /\ sortedZ (map snd W) /\ Forall (fun p => fst p <= snd p) W.
Proof.
  induction W as [|[s e] r IH]; simpl; [intros; repeat split; constructor|].
  intros (H1 & H2 & H3). destruct (IH H3) as (I1 & I2 & I3).
  destruct r as [|[s' e'] r']; simpl in *.
  - repeat split; auto. constructor; [simpl; lia|constructor].
  - destruct H3 as (H4 & H5 & H6). repeat split; try lia; auto.
    constructor; [simpl; lia|exact I3].
Qed.

Lemma combine_map_fst_snd (W : iset) : combine (map fst W) (map snd W) = W.
Proof. induction W as [|[s e] r IH]; simpl; [reflexivity|]. f_equal; exact IH. Qed.

Lemma sortedZ_sortZ_id l : sortedZ l -> sortZ l = l.
Proof. intros H. destruct (sortedZ_sorted_from _ H) as [b Hb]. eapply sorted_from_sortZ_id; exact Hb. Qed.

Theorem wrapper_union_mem A B x : canonical A -> canonical B -> far x A B ->
  mem x (iset_union A B) = mem x A || mem x B.
Proof.
  intros Ha Hb Hf. rewrite <- (union_mem A B x Ha Hb).
  pose proof (union_raw_wf A B Ha Hb) as Hw.
  destruct (weakly_canonical_sorted _ Hw) as (S1 & S2 & S3).
  unfold iset_union, mk_iset_pairs, mk_iset.
  rewrite (sortedZ_sortZ_id _ S1), (sortedZ_sortZ_id _ S2), combine_map_fst_snd.
  destruct (mem x (k_union A B)) eqn:E.
  - destruct (fix_iset_cover_complete _ x S1 S2 S3 E) as [H|(p & Hp & Hx)]; [exact H|exfalso].
    pose proof (union_starts_ends A B Ha Hb) as HS.
    rewrite Forall_forall in HS.
    destruct (proj1 (in_map_iff _ _ _) Hp) as (iv & Heq & Hiv). subst p.
    destruct (HS iv Hiv) as [HS' _]. clear HS. rename HS' into HS.
    assert (Hep : is_endpoint (fst iv) A \/ is_endpoint (fst iv) B).
    { unfold is_endpoint. destruct HS as [HS|HS]; [left; left|right; left]; exact HS. }
    destruct (Hf _ Hep); unfold us in *; lia.
  - destruct (mem x (fix_iset (k_union A B))) eqn:E2; [|reflexivity].
    rewrite (fix_iset_cover_sound _ x S1 S2 E2) in E. discriminate.
Qed.

(* algebra, stated on membership *)
Theorem union_idem_mem A x : canonical A -> mem x (k_union A A) = mem x A.
Proof. intros Ha. rewrite union_mem by assumption. apply orb_diag. Qed.

Theorem union_empty_mem A x : canonical A -> mem x (k_union A []) = mem x A /\ mem x (k_union [] A) = mem x A.
Proof. intros Ha. rewrite !union_mem by (simpl; auto). simpl. rewrite orb_false_r. auto. Qed.

Theorem inter_empty A : k_inter A [] = [] /\ k_inter [] A = [].
Proof. split; [|reflexivity]. unfold k_inter, k_inter_meta. destruct A as [|[s e] r]; reflexivity. Qed.

Theorem diff_empty A : k_diff [] A = [].
Proof. reflexivity. Qed.
