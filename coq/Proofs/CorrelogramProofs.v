(* Proofs about the cross-correlogram model (Model/Correlogram.v). *)
From Verif Require Import Base.Prelude Model.Correlogram Proofs.BaseLemmas.
From Coq Require Import ZifyBool QArith.
Open Scope Z_scope.
Local Arguments Z.mul : simpl never.
Local Arguments Z.add : simpl never.
Local Arguments Z.sub : simpl never.
Local Arguments Z.opp : simpl never.
Local Arguments Z.of_nat : simpl never.

(* ---------- generic count_if lemmas ---------- *)
Lemma cnt_app {A} (p : A -> bool) l1 l2 : count_if p (l1 ++ l2) = (count_if p l1 + count_if p l2)%nat.
Proof. induction l1 as [|x r IH]; simpl; [reflexivity|]. destruct (p x); rewrite IH; reflexivity. Qed.

Lemma cnt_map {A B} (f : A -> B) (p : B -> bool) l : count_if p (map f l) = count_if (fun x => p (f x)) l.
Proof. induction l as [|x r IH]; simpl; [reflexivity|]. rewrite IH; reflexivity. Qed.

Lemma cnt_ext {A} (p q : A -> bool) l : Forall (fun x => p x = q x) l -> count_if p l = count_if q l.
Proof. induction 1 as [|x r H _ IH]; simpl; [reflexivity|]. rewrite H, IH; reflexivity. Qed.

Lemma cnt_none {A} (p : A -> bool) l : Forall (fun x => p x = false) l -> count_if p l = 0%nat.
Proof. induction 1 as [|x r H _ IH]; simpl; [reflexivity|]. rewrite H, IH; reflexivity. Qed.

Lemma cnt_all {A} (p : A -> bool) l : Forall (fun x => p x = true) l -> count_if p l = length l.
Proof. induction 1 as [|x r H _ IH]; simpl; [reflexivity|]. rewrite H, IH; reflexivity. Qed.

Lemma Forall_rev' {A} (P : A -> Prop) l : Forall P l -> Forall P (rev l).
Proof. rewrite !Forall_forall. intros H x Hx. apply H. apply in_rev. exact Hx. Qed.

(* ---------- number of bins ---------- *)
Theorem xc_nbins_odd : forall b w, 0 < b -> 0 <= w -> xc_nbins b w = 2 * (w / b) + 1.
Proof.
  intros b w Hb Hw. unfold xc_nbins.
  assert (E : (2 * w) / b / 2 = w / b).
  { rewrite Z.div_div by lia. rewrite (Z.mul_comm b 2). apply Z.div_mul_cancel_l; lia. }
  pose proof (Zmod_even (2 * w / b)) as Hm.
  pose proof (Z.div_mod (2 * w / b) 2 ltac:(lia)) as Hd.
  cbv zeta. destruct (Z.even (2 * w / b)); lia.
Qed.

Lemma xc_nbins_pos b w : 0 < b -> 0 <= w -> 0 < xc_nbins b w.
Proof.
  intros Hb Hw. rewrite xc_nbins_odd by assumption.
  pose proof (Z.div_pos w b Hw Hb). lia.
Qed.

(* ---------- the cursor moves ---------- *)
Lemma xc_span_spec rb ts : sortedZ ts ->
  exists taken, ts = taken ++ snd (xc_span rb ts) /\ length taken = fst (xc_span rb ts)
    /\ Forall (fun t => 2 * t < rb) taken /\ Forall (fun t => rb <= 2 * t) (snd (xc_span rb ts))
    /\ sortedZ (snd (xc_span rb ts)).
Proof.
  induction ts as [|t r IH]; intros Hs.
  - exists []. simpl. repeat split; constructor.
  - simpl xc_span. destruct (Z.ltb_spec (2 * t) rb) as [Hlt|Hge].
    + destruct (IH (sortedZ_tail _ _ Hs)) as (tk & E & L & F1 & F2 & S2).
      destruct (xc_span rb r) as [k rest]; simpl in *.
      exists (t :: tk). simpl. repeat split; try assumption.
      * congruence.
      * congruence.
      * constructor; assumption.
    + exists []. simpl. repeat split; try assumption; try constructor; try lia.
      pose proof (sortedZ_cons_Forall _ _ Hs) as F.
      eapply Forall_impl; [|exact F]. simpl. intros; lia.
Qed.

Lemma xc_fwd_spec lb2 suf : forall pre, sortedZ suf ->
  exists taken, suf = taken ++ snd (xc_fwd lb2 pre suf) /\ fst (xc_fwd lb2 pre suf) = rev taken ++ pre
    /\ Forall (fun t => 2 * t < lb2) taken /\ Forall (fun t => lb2 <= 2 * t) (snd (xc_fwd lb2 pre suf))
    /\ sortedZ (snd (xc_fwd lb2 pre suf)).
Proof.
  induction suf as [|t r IH]; intros pre Hs.
  - exists []. simpl. repeat split; constructor.
  - simpl xc_fwd. destruct (Z.ltb_spec (2 * t) lb2) as [Hlt|Hge].
    + destruct (IH (t :: pre) (sortedZ_tail _ _ Hs)) as (tk & E & L & F1 & F2 & S2).
      exists (t :: tk). simpl. repeat split; try assumption.
      * congruence.
      * rewrite L. rewrite <- app_assoc. reflexivity.
      * constructor; assumption.
    + exists []. simpl. repeat split; try assumption; try constructor; try lia.
      pose proof (sortedZ_cons_Forall _ _ Hs) as F.
      eapply Forall_impl; [|exact F]. simpl. intros; lia.
Qed.

Lemma xc_bwd_id lb2 pre suf : Forall (fun p => 2 * p < lb2) pre -> xc_bwd lb2 pre suf = (pre, suf).
Proof.
  destruct pre as [|t r]; intros F; simpl; [reflexivity|].
  inversion F; subst. destruct (Z.ltb_spec lb2 (2 * t)); [lia|reflexivity].
Qed.

(* ---------- bins ---------- *)
Definition binq (b rb2 : Z) (j : nat) (t : Z) : bool :=
  (rb2 + 2 * Z.of_nat j * b <=? 2 * t) && (2 * t <? rb2 + 2 * (Z.of_nat j + 1) * b).

Lemma xc_bins_spec b : 0 <= b -> forall fuel rb2 ts, sortedZ ts -> Forall (fun t => rb2 <= 2 * t) ts ->
  xc_bins fuel rb2 b ts = map (fun j => count_if (binq b rb2 j) ts) (seq 0 fuel).
Proof.
  intros Hb. induction fuel as [|f IH]; intros rb2 ts Hs HF; [reflexivity|].
  simpl xc_bins.
  destruct (xc_span_spec (rb2 + 2 * b) ts Hs) as (tk & E & L & F1 & F2 & S2).
  destruct (xc_span (rb2 + 2 * b) ts) as [k rest]; simpl in E, L, F2, S2.
  rewrite (IH _ _ S2 F2). simpl seq. simpl map. f_equal.
  - rewrite E, cnt_app. subst k.
    rewrite (cnt_all _ tk), (cnt_none _ rest); [lia| |].
    + eapply Forall_impl; [|exact F2]. unfold binq. simpl. intros; lia.
    + assert (HF' : Forall (fun t => rb2 <= 2 * t) tk).
      { rewrite E in HF. apply Forall_app in HF. tauto. }
      rewrite Forall_forall in *. intros x Hx. specialize (F1 x Hx). specialize (HF' x Hx).
      unfold binq. simpl. lia.
  - rewrite <- seq_shift, map_map. apply map_ext. intros j.
    rewrite E. rewrite cnt_app. rewrite (cnt_none _ tk).
    + simpl. apply cnt_ext. apply Forall_forall. intros x _. unfold binq.
      replace (Z.of_nat (S j)) with (Z.of_nat j + 1) by lia. lia.
    + eapply Forall_impl; [|exact F1]. unfold binq. simpl. intros a Ha.
      assert (0 <= Z.of_nat j * b) by (apply Z.mul_nonneg_nonneg; lia).
      replace (Z.of_nat (S j)) with (Z.of_nat j + 1) by lia. lia.
Qed.

(* ---------- the loop over the references ---------- *)
Definition xrow (nb : nat) (b wd : Z) (t2 : list Z) (r : Z) : list nat :=
  map (fun j => count_if (binq b (2 * r - wd) j) t2) (seq 0 nb).

Lemma xc_go_fold nb b wd t2 : 0 <= b -> forall t1 pre suf C lo,
  sorted_from lo t1 -> Forall (fun p => 2 * p < 2 * lo - wd) pre -> sortedZ suf -> rev pre ++ suf = t2 ->
  xc_go nb b wd t1 pre suf C = fold_left (fun C r => xc_add C (xrow nb b wd t2 r)) t1 C.
Proof.
  intros Hb. induction t1 as [|r t1 IH]; intros pre suf C lo Hs HP Hsuf E; [reflexivity|].
  destruct Hs as [Hlo Hs]. simpl xc_go. simpl fold_left.
  destruct (xc_fwd_spec (2 * r - wd) suf pre Hsuf) as (tk & E1 & E2 & F1 & F2 & S1).
  destruct (xc_fwd (2 * r - wd) pre suf) as [p1 s1]; simpl in E1, E2, F2, S1.
  assert (FP : Forall (fun p => 2 * p < 2 * r - wd) p1).
  { subst p1. apply Forall_app. split; [apply Forall_rev'; assumption|].
    eapply Forall_impl; [|exact HP]. simpl. intros; lia. }
  rewrite (xc_bwd_id _ _ _ FP).
  assert (E' : rev p1 ++ s1 = t2).
  { subst p1 suf. rewrite rev_app_distr, rev_involutive, <- app_assoc in *. exact E. }
  rewrite (xc_bins_spec b Hb nb _ _ S1 F2).
  replace (map (fun j => count_if (binq b (2 * r - wd) j) s1) (seq 0 nb)) with (xrow nb b wd t2 r).
  - apply (IH p1 s1 _ r Hs FP S1 E').
  - unfold xrow. apply map_ext. intros j. rewrite <- E', cnt_app.
    rewrite (cnt_none _ (rev p1)); [reflexivity|].
    apply Forall_rev'. eapply Forall_impl; [|exact FP]. unfold binq. simpl. intros a Ha.
    assert (0 <= Z.of_nat j * b) by (apply Z.mul_nonneg_nonneg; lia). lia.
Qed.

Lemma xc_add_map {A} (f g : A -> nat) l : xc_add (map f l) (map g l) = map (fun x => (f x + g x)%nat) l.
Proof. induction l as [|x r IH]; simpl; [reflexivity|]. rewrite IH; reflexivity. Qed.

Lemma repeat_map_seq {A} (z : A) n : forall s, repeat z n = map (fun _ => z) (seq s n).
Proof. induction n as [|n IH]; intros s; simpl; [reflexivity|]. rewrite <- IH; reflexivity. Qed.

Lemma binq_lag_in b wd r j t :
  binq b (2 * r - wd) j t = lag_in (- wd + 2 * Z.of_nat j * b) (- wd + 2 * (Z.of_nat j + 1) * b) (r, t).
Proof. unfold binq, lag_in. simpl. lia. Qed.

Lemma fold_rows nb b wd t2 : forall t1 c,
  fold_left (fun C r => xc_add C (xrow nb b wd t2 r)) t1 (map c (seq 0 nb))
  = map (fun j => (c j + lag_count t1 t2 (- wd + 2 * Z.of_nat j * b) (- wd + 2 * (Z.of_nat j + 1) * b))%nat)
        (seq 0 nb).
Proof.
  induction t1 as [|r t1 IH]; intros c.
  - simpl. apply map_ext. intros j. unfold lag_count. simpl. lia.
  - simpl fold_left. unfold xrow at 2. rewrite xc_add_map. rewrite IH.
    apply map_ext. intros j. unfold lag_count. simpl list_prod. rewrite cnt_app, cnt_map.
    rewrite (cnt_ext (binq b (2 * r - wd) j) (fun x => lag_in (- wd + 2 * Z.of_nat j * b) (- wd + 2 * (Z.of_nat j + 1) * b) (r, x))); [lia|].
    apply Forall_forall. intros x _. apply binq_lag_in.
Qed.

Theorem xcorr_counts_spec : forall t1 t2 b w, 0 < b -> 0 <= w -> sortedZ t1 -> sortedZ t2 ->
  xcorr_counts t1 t2 b w = xcorr_spec t1 t2 b w.
Proof.
  intros t1 t2 b w Hb Hw H1 H2. unfold xcorr_counts, xcorr_spec. cbv zeta.
  set (nbz := xc_nbins b w). set (nb := Z.to_nat nbz).
  assert (G : xc_go nb b (nbz * b) t1 [] t2 (repeat 0%nat nb)
              = fold_left (fun C r => xc_add C (xrow nb b (nbz * b) t2 r)) t1 (repeat 0%nat nb)).
  { destruct t1 as [|r t1]; [reflexivity|].
    apply (xc_go_fold nb b (nbz * b) t2 ltac:(lia) (r :: t1) [] t2 _ r).
    - simpl. split; [lia|exact H1].
    - constructor.
    - exact H2.
    - reflexivity. }
  rewrite G. rewrite (repeat_map_seq 0%nat nb 0%nat). rewrite fold_rows.
  apply map_ext. intros j. reflexivity.
Qed.

(* ---------- centred form ---------- *)
Theorem xcorr_hist_spec : forall t1 t2 b w, 0 < b -> 0 <= w -> sortedZ t1 -> sortedZ t2 ->
  map (fun cb => 2 * fst cb) (xcorr_hist t1 t2 b w) = xcorr_centres2 b w
  /\ map snd (xcorr_hist t1 t2 b w) = xcorr_counts t1 t2 b w.
Proof.
  intros t1 t2 b w Hb Hw H1 H2. split.
  - unfold xcorr_hist, xcorr_centres2. cbv zeta. rewrite xc_nbins_odd by assumption.
    rewrite map_map. apply map_ext. intros j. simpl. ring.
  - rewrite xcorr_counts_spec by assumption.
    unfold xcorr_hist, xcorr_spec. cbv zeta. rewrite xc_nbins_odd by assumption.
    rewrite map_map. apply map_ext. intros j. simpl. f_equal; ring.
Qed.

Theorem centres_in_window : forall b w k, 0 < b -> 0 <= w -> (- w <= k * b <= w <-> - (w / b) <= k <= w / b).
Proof.
  intros b w k Hb Hw.
  pose proof (Z.div_mod w b ltac:(lia)) as Hd.
  pose proof (Z.mod_pos_bound w b Hb) as Hm.
  set (q := w / b) in *. set (m := w mod b) in *.
  split; intros [Ha Hc]; split; nia.
Qed.

(* ---------- tiling ---------- *)
Lemma lag_split a m c l : a <= m -> m <= c ->
  (count_if (lag_in a m) l + count_if (lag_in m c) l)%nat = count_if (lag_in a c) l.
Proof.
  intros H1 H2. induction l as [|p r IH]; simpl; [reflexivity|].
  assert (E : (lag_in a m p = true /\ lag_in m c p = false /\ lag_in a c p = true)
           \/ (lag_in a m p = false /\ lag_in m c p = true /\ lag_in a c p = true)
           \/ (lag_in a m p = false /\ lag_in m c p = false /\ lag_in a c p = false)).
  { unfold lag_in. lia. }
  destruct E as [(E1 & E2 & E3)|[(E1 & E2 & E3)|(E1 & E2 & E3)]]; rewrite E1, E2, E3; lia.
Qed.

Lemma lag_sum B b l : 0 <= b -> forall n s,
  fold_right Nat.add 0%nat
    (map (fun j => count_if (lag_in (B + 2 * Z.of_nat j * b) (B + 2 * (Z.of_nat j + 1) * b)) l) (seq s n))
  = count_if (lag_in (B + 2 * Z.of_nat s * b) (B + 2 * Z.of_nat (s + n) * b)) l.
Proof.
  intros Hb. induction n as [|n IH]; intros s.
  - simpl. symmetry. apply cnt_none. apply Forall_forall. intros x _.
    replace (s + 0)%nat with s by lia. unfold lag_in. lia.
  - simpl seq. simpl map. simpl fold_right. rewrite IH.
    replace (Z.of_nat (S s)) with (Z.of_nat s + 1) by lia.
    replace (S s + n)%nat with (s + S n)%nat by lia.
    apply lag_split.
    + nia.
    + assert (0 <= Z.of_nat n * b) by (apply Z.mul_nonneg_nonneg; lia).
      replace (Z.of_nat (s + S n)) with (Z.of_nat s + 1 + Z.of_nat n) by lia. nia.
Qed.

Theorem xcorr_total : forall t1 t2 b w, 0 < b -> 0 <= w ->
  fold_right Nat.add 0%nat (xcorr_spec t1 t2 b w) = lag_count t1 t2 (- (xc_nbins b w * b)) (xc_nbins b w * b).
Proof.
  intros t1 t2 b w Hb Hw. unfold xcorr_spec, lag_count. cbv zeta.
  pose proof (xc_nbins_pos b w Hb Hw) as Hp.
  set (nbz := xc_nbins b w) in *.
  rewrite (lag_sum (- (nbz * b)) b (list_prod t1 t2) ltac:(lia) (Z.to_nat nbz) 0%nat).
  f_equal. f_equal.
  - simpl. ring.
  - simpl Nat.add. rewrite Z2Nat.id by lia. ring.
Qed.

(* ---------- autocorrelogram ---------- *)
Lemma first_zero_idx (g : nat -> Z) (m : nat) : (forall j, g j = 0 <-> j = m) ->
  forall n s i, (s <= m < s + n)%nat ->
  exists rest, filter_idx (fun c => c =? 0) i (map g (seq s n)) = (i + (m - s))%nat :: rest.
Proof.
  intros Hg. induction n as [|n IH]; intros s i Hm; [lia|].
  simpl. destruct (Z.eqb_spec (g s) 0) as [E|E].
  - apply Hg in E. subst s. eexists. f_equal. lia.
  - assert (s <> m) by (intros ->; apply E, Hg; reflexivity).
    destruct (IH (S s) (S i) ltac:(lia)) as [rest Hr]. exists rest. rewrite Hr. f_equal. lia.
Qed.

Lemma nth_zero_at m (l : list nat) : nth m (zero_at 0%nat m l) 0%nat = 0%nat.
Proof.
  unfold zero_at. destruct (Nat.ltb_spec m (length l)) as [H|H].
  - rewrite app_nth2; rewrite firstn_length; [|lia].
    replace (m - Nat.min m (length l))%nat with 0%nat by lia. reflexivity.
  - apply nth_overflow. exact H.
Qed.

Theorem autocorr_counts_spec : forall t b w, 0 < b -> 0 <= w -> sortedZ t ->
  autocorr_counts t b w = zero_at 0%nat (Z.to_nat (w / b)) (xcorr_spec t t b w)
  /\ nth (Z.to_nat (w / b)) (autocorr_counts t b w) 0%nat = 0%nat
  /\ nth (Z.to_nat (w / b)) (xcorr_centres2 b w) 1 = 0.
Proof.
  intros t b w Hb Hw Hs.
  pose proof (Z.div_pos w b Hw Hb) as Hq.
  assert (E : autocorr_counts t b w = zero_at 0%nat (Z.to_nat (w / b)) (xcorr_spec t t b w)).
  { unfold autocorr_counts. cbv zeta. rewrite xcorr_counts_spec by assumption.
    unfold index_of_zero, xcorr_centres2. cbv zeta. rewrite xc_nbins_odd by assumption.
    destruct (first_zero_idx (fun j => - ((2 * (w / b) + 1) * b) + b + 2 * Z.of_nat j * b) (Z.to_nat (w / b)))
      with (n := Z.to_nat (2 * (w / b) + 1)) (s := 0%nat) (i := 0%nat) as [rest Hr].
    - intros j. split.
      + intros H. assert ((Z.of_nat j - w / b) * b = 0) as H0 by lia.
        apply Z.mul_eq_0 in H0. lia.
      + intros ->. rewrite Z2Nat.id by lia. ring.
    - lia.
    - rewrite Hr. simpl. rewrite Nat.sub_0_r. reflexivity. }
  split; [exact E|]. split.
  - rewrite E. apply nth_zero_at.
  - unfold xcorr_centres2. cbv zeta. rewrite xc_nbins_odd by assumption.
    set (g := fun j : nat => - ((2 * (w / b) + 1) * b) + b + 2 * Z.of_nat j * b).
    rewrite (nth_indep _ 1 (g 0%nat)).
    + rewrite map_nth. rewrite seq_nth by lia. unfold g. simpl Nat.add.
      rewrite Z2Nat.id by lia. ring.
    + rewrite map_length, seq_length. lia.
Qed.

(* ---------- normalisation ---------- *)
Lemma inject_Z_nz z : z <> 0 -> ~ (inject_Z z == 0)%Q.
Proof. intros H E. unfold Qeq in E. simpl in E. lia. Qed.

Theorem xc_rate_spec : forall c n1 b, (0 < n1)%nat -> 0 < b ->
  (xc_rate c n1 b * ((inject_Z (Z.of_nat n1) * inject_Z b) / inject_Z ticks_per_s) == inject_Z (Z.of_nat c))%Q.
Proof.
  intros c n1 b Hn Hb. unfold xc_rate.
  assert (~ (inject_Z (Z.of_nat n1) == 0)%Q) by (apply inject_Z_nz; lia).
  assert (~ (inject_Z b == 0)%Q) by (apply inject_Z_nz; lia).
  assert (~ (inject_Z ticks_per_s == 0)%Q) by (apply inject_Z_nz; unfold ticks_per_s; lia).
  field. repeat split; assumption.
Qed.

Theorem xc_norm_spec : forall c n1 b n2 tot, (0 < n2)%nat -> 0 < tot ->
  (xc_norm c n1 b n2 tot * ts_rate n2 tot == xc_rate c n1 b)%Q.
Proof.
  intros c n1 b n2 tot Hn Ht. unfold xc_norm.
  assert (~ (ts_rate n2 tot == 0)%Q).
  { unfold ts_rate.
    assert (~ (inject_Z (Z.of_nat n2) == 0)%Q) by (apply inject_Z_nz; lia).
    assert (~ (inject_Z tot == 0)%Q) by (apply inject_Z_nz; lia).
    assert (~ (inject_Z ticks_per_s == 0)%Q) by (apply inject_Z_nz; unfold ticks_per_s; lia).
    intros E. apply (Qmult_inj_r _ _ (inject_Z tot)) in E; [|assumption].
    assert (E2 : (inject_Z (Z.of_nat n2) * inject_Z ticks_per_s == 0)%Q).
    { rewrite <- E. field. assumption. }
    apply Qmult_integral in E2. tauto. }
  field. assumption.
Qed.
