(* C01, exact cover: when no input interval is zero-length (or inverted), the ONLY points of the
   union of the inputs that the constructor drops are the trimmed microsecond [p - us, p) before a
   GENUINE touching point p: p ends one input, starts another, and no input straddles p.
   With a zero-length input the statement is false (the independent sort of the two arrays
   manufactures a false touching pair): mk_iset_zero_length_refuted. *)
From Verif Require Import Base.Prelude Model.Iset Proofs.BaseLemmas Proofs.FixIsetProofs
  Proofs.FixIsetCover Proofs.SortInvariance Proofs.C01Top.
From Coq Require Import ZifyBool Permutation.

(* ------------------------------------------------------------------ *)
(* definitions                                                          *)
Definition proper_pairs (ss es : list Z) : Prop :=
  Forall (fun p => fst p < snd p) (combine ss es).

Definition straddled (p : Z) (l : list (Z * Z)) : Prop :=
  exists s e, In (s, e) l /\ s < p < e.

Definition touching_point (p : Z) (l : list (Z * Z)) : Prop :=
  (exists s, In (s, p) l) /\ (exists e, In (p, e) l) /\ ~ straddled p l.

Lemma proper_pairs_ordered ss es : proper_pairs ss es -> pairs_ordered ss es.
Proof. unfold proper_pairs, pairs_ordered. apply Forall_impl. intros; lia. Qed.

(* ------------------------------------------------------------------ *)
(* strict dominance: #ends <= v is at most #starts < v; survives the independent sort *)
Definition sdom (ss es : list Z) : Prop := forall v, (cle v es <= clt v ss)%nat.

(* on proper pairs: strict dominance, and when the two counts agree at p nobody straddles p *)
Lemma proper_counts p ss : forall es,
  length ss = length es -> proper_pairs ss es ->
  (cle p es <= clt p ss)%nat /\
  ((clt p ss <= cle p es)%nat -> forall s e, In (s, e) (combine ss es) -> s < p -> e <= p).
Proof.
  unfold proper_pairs.
  induction ss as [|s ss IH]; intros [|e es] Hl HF; simpl in Hl; try (exfalso; lia).
  - unfold cle, clt; simpl. split; [lia|]. intros _ ? ? [].
  - simpl in HF. inversion HF as [|? ? Hse HF']; subst. simpl in Hse.
    destruct (IH es ltac:(lia) HF') as [I1 I2].
    rewrite cle_cons, clt_cons.
    split.
    + destruct (s <? p) eqn:E1; destruct (e <=? p) eqn:E2; lia.
    + intros Hc s0 e0 Hin Hs0. cbn [combine] in Hin. destruct Hin as [Heq|Hin].
      * inversion Heq; subst s0 e0.
        destruct (s <? p) eqn:E1; destruct (e <=? p) eqn:E2; lia.
      * apply (I2 ltac:(destruct (s <? p) eqn:E1; destruct (e <=? p) eqn:E2; lia) s0 e0 Hin Hs0).
Qed.

Lemma pairwise_sdom ss es : length ss = length es -> proper_pairs ss es -> sdom ss es.
Proof. intros Hl HF v. apply (proper_counts v ss es Hl HF). Qed.

Lemma sdom_perm ss ss' es es' :
  Permutation ss ss' -> Permutation es es' -> sdom ss es -> sdom ss' es'.
Proof.
  intros Hs He H v. rewrite <- (clt_perm v _ _ Hs), <- (cle_perm v _ _ He). apply H.
Qed.

Lemma clt_zero v lo l : Forall (fun y => lo <= y) l -> v <= lo -> clt v l = 0%nat.
Proof.
  induction 1 as [|y l Hy _ IH]; intros Hv; [reflexivity|].
  rewrite clt_cons, (IH Hv). destruct (y <? v) eqn:E; lia.
Qed.

Lemma sorted_sdom_pairwise ss : forall es,
  length ss = length es -> sortedZ ss -> sortedZ es -> sdom ss es -> proper_pairs ss es.
Proof.
  unfold proper_pairs.
  induction ss as [|s ss IH]; intros [|e es] Hl Hs He Hd; simpl in Hl; try (exfalso; lia).
  - constructor.
  - pose proof (sortedZ_cons_Forall _ _ Hs) as Fs.
    pose proof (sortedZ_cons_Forall _ _ He) as Fe.
    assert (Hse : s < e).
    { pose proof (Hd e) as H. rewrite cle_cons, clt_cons in H.
      destruct (e <=? e) eqn:E1; [|lia].
      destruct (s <? e) eqn:E2; [lia|].
      rewrite (clt_zero e s ss Fs) in H by lia. lia. }
    cbn [combine]. constructor; [exact Hse|].
    apply IH.
    + lia.
    + eapply sortedZ_tail; exact Hs.
    + eapply sortedZ_tail; exact He.
    + intros v. pose proof (Hd v) as H. rewrite cle_cons, clt_cons in H.
      destruct (s <? v) eqn:E1; destruct (e <=? v) eqn:E2; try lia.
      rewrite (cle_zero v e es Fe) by lia. lia.
Qed.

(* the re-paired arrays are still proper *)
Theorem sorted_pairs_proper ss es :
  length ss = length es -> proper_pairs ss es -> proper_pairs (sortZ ss) (sortZ es).
Proof.
  intros Hl HF. apply sorted_sdom_pairwise.
  - rewrite !sortZ_length. exact Hl.
  - apply sortZ_sorted.
  - apply sortZ_sorted.
  - apply (sdom_perm ss _ es _ (sortZ_perm ss) (sortZ_perm es)).
    apply pairwise_sdom; assumption.
Qed.

(* ------------------------------------------------------------------ *)
(* adjacent touch in the list handed to fix_go: some end equals the NEXT start.  [prev] is the
   end of the element before the head (the pending interval's current end).                  *)
Fixpoint adjp (prev : option Z) (l : list (Z * Z)) (p : Z) : Prop :=
  match l with
  | [] => False
  | (s, e) :: r => (prev = Some p /\ s = p) \/ adjp (Some e) r p
  end.

Definition prev_of (pend : option (Z * Z * Z)) : option Z :=
  match pend with None => None | Some (_, _, ce) => Some ce end.

Definition trimmed (x : Z) (prev : option Z) (l : list (Z * Z)) : Prop :=
  exists p, adjp prev l p /\ p - us <= x < p.

Lemma trimmed_cons x prev s e r : trimmed x (Some e) r -> trimmed x prev ((s, e) :: r).
Proof. intros (p & Hp & Hx). exists p. split; [right; exact Hp|exact Hx]. Qed.

(* on proper sorted pairs, fix_go loses exactly the microsecond before an adjacent touch *)
Lemma fix_go_exact l : forall pend sb eb x,
  sorted_from sb (map fst l) -> sorted_from eb (map snd l) ->
  Forall (fun p => fst p < snd p) l ->
  pend_inv sb eb pend ->
  pend_cov x pend = true \/ mem x l = true ->
  mem x (fix_go pend l) = true \/ trimmed x (prev_of pend) l.
Proof.
  induction l as [|[s e] r IH]; intros pend sb eb x Hs He Hlt Hp Hx.
  - destruct Hx as [Hx|Hx]; [|discriminate]. left.
    destruct pend as [[[ns ne] ce]|]; [|discriminate]. simpl in Hx. destruct Hp as (-> & H1 & H2 & H4).
    simpl. unfold close_pending. destruct (ns <? ce) eqn:E; [|lia]. simpl. unfold inb; simpl. lia.
  - simpl in Hs, He. destruct Hs as [Hs1 Hs2]. destruct He as [He1 He2].
    inversion Hlt as [|? ? Hse Hlt']; subst. cbn [fst snd] in Hse.
    cbn [fix_go].
    assert (E2 : (e <=? s) = false) by lia. rewrite E2.
    assert (HX : forall prev, ((s <=? x) && (x <=? e) || mem x r) = true ->
                 mem x (fix_go (Some (s, e, e)) r) = true \/ trimmed x prev ((s, e) :: r)).
    { intros prev H.
      destruct (IH (Some (s, e, e)) s e x Hs2 He2 Hlt') as [H'|H'].
      - simpl. repeat split; lia.
      - simpl. destruct ((s <=? x) && (x <=? e)) eqn:E3; [left; reflexivity|right; exact H].
      - left; exact H'.
      - right. apply trimmed_cons. exact H'. }
    rewrite mem_cons in Hx. unfold inb in Hx; cbn [fst snd] in Hx.
    destruct pend as [[[ns ne] ce]|].
    + destruct Hp as (-> & H1 & H2 & H4). simpl in Hx. cbn [prev_of].
      destruct (s <? ce) eqn:E.
      * destruct (IH (Some (ns, Z.max ce e, e)) s e x Hs2 He2 Hlt') as [H'|H'].
        -- simpl. repeat split; lia.
        -- simpl. destruct Hx as [Hx|Hx].
           ++ left. lia.
           ++ destruct ((s <=? x) && (x <=? e)) eqn:E3; [left; lia|right; exact Hx].
        -- left; exact H'.
        -- right. apply trimmed_cons. exact H'.
      * rewrite mem_app.
        assert (HY : ((s <=? x) && (x <=? e) || mem x r) = true ->
                     (mem x (close_pending ns ce (Some s)) || mem x (fix_go (Some (s, e, e)) r)) = true
                     \/ trimmed x (Some ce) ((s, e) :: r)).
        { intros H. destruct (HX (Some ce) H) as [H'|H']; [left|right; exact H'].
          apply orb_true_iff. right. exact H'. }
        destruct Hx as [Hx|Hx]; [|apply HY; exact Hx].
        (* x in the pending interval, which is closed here *)
        (* x = ce = s: x is the first point of the next (proper) interval *)
        destruct ((ce =? s) && (x =? ce)) eqn:E6; [apply HY; lia|].
        unfold close_pending.
        destruct (ce =? s) eqn:E3.
        -- destruct (x <=? ce - us) eqn:E4.
           ++ destruct (ns <? ce - us) eqn:E5.
              ** left. simpl. unfold inb; simpl. lia.
              ** right. exists ce. split; [left; split; [reflexivity|lia]|unfold us in *; lia].
           ++ right. exists ce. split; [left; split; [reflexivity|lia]|unfold us in *; lia].
        -- destruct (ns <? ce) eqn:E5; [|lia]. left. simpl. unfold inb; simpl. lia.
    + destruct Hx as [Hx|Hx]; [discriminate|]. apply HX. exact Hx.
Qed.

(* an adjacent touch at p in sorted arrays: p is a start, p is an end, and at most as many
   starts lie strictly below p as ends lie at or below p *)
Lemma adjp_in l : forall prev p, adjp prev l p ->
  In p (map fst l) /\ (prev = Some p \/ In p (map snd l)).
Proof.
  induction l as [|[s e] r IH]; intros prev p H; simpl in H; [contradiction|].
  destruct H as [[H1 H2]|H].
  - subst s. split; [left; reflexivity|left; exact H1].
  - destruct (IH _ _ H) as [I1 I2]. split; [right; exact I1|].
    right. destruct I2 as [I2|I2]; [left; inversion I2; reflexivity|right; exact I2].
Qed.

Lemma adjp_counts_some l : forall c sb eb p,
  sorted_from sb (map fst l) -> sorted_from eb (map snd l) -> c <= eb ->
  adjp (Some c) l p ->
  c <= p /\ (clt p (map fst l) <= cle p (map snd l))%nat.
Proof.
  induction l as [|[s e] r IH]; intros c sb eb p Hs He Hc H; simpl in H; [contradiction|].
  simpl in Hs, He. destruct Hs as [Hs1 Hs2]. destruct He as [He1 He2].
  cbn [map fst snd]. rewrite clt_cons, cle_cons.
  destruct H as [[H1 H2]|H].
  - inversion H1; subst c. subst s. split; [lia|].
    rewrite (clt_zero p p (map fst r)) by (try apply sorted_from_Forall; try lia; exact Hs2).
    destruct (p <? p) eqn:E; lia.
  - destruct (IH e s e p Hs2 He2 ltac:(lia) H) as [I1 I2]. split; [lia|].
    destruct (s <? p) eqn:E1; destruct (e <=? p) eqn:E2; lia.
Qed.

Lemma adjp_counts l : forall sb eb p,
  sorted_from sb (map fst l) -> sorted_from eb (map snd l) ->
  adjp None l p -> (clt p (map fst l) <= cle p (map snd l))%nat.
Proof.
  intros sb eb p Hs He H. destruct l as [|[s e] r]; simpl in H; [contradiction|].
  simpl in Hs, He. destruct Hs as [Hs1 Hs2]. destruct He as [He1 He2].
  destruct H as [[H1 _]|H]; [discriminate|].
  destruct (adjp_counts_some r e s e p Hs2 He2 ltac:(lia) H) as [I1 I2].
  cbn [map fst snd]. rewrite clt_cons, cle_cons.
  destruct (s <? p) eqn:E1; destruct (e <=? p) eqn:E2; lia.
Qed.

Lemma in_combine_snd {A B} (b : B) (l2 : list B) : forall (l1 : list A),
  length l1 = length l2 -> In b l2 -> exists a, In (a, b) (combine l1 l2).
Proof.
  induction l2 as [|y l2 IH]; intros [|x l1] Hl Hin; simpl in *; try contradiction; try lia.
  destruct Hin as [->|Hin].
  - exists x. left; reflexivity.
  - destruct (IH l1 ltac:(lia) Hin) as [a Ha]. exists a. right; exact Ha.
Qed.

Lemma in_combine_fst {A B} (a : A) (l1 : list A) : forall (l2 : list B),
  length l1 = length l2 -> In a l1 -> exists b, In (a, b) (combine l1 l2).
Proof.
  induction l1 as [|x l1 IH]; intros [|y l2] Hl Hin; simpl in *; try contradiction; try lia.
  destruct Hin as [->|Hin].
  - exists y. left; reflexivity.
  - destruct (IH l2 ltac:(lia) Hin) as [b Hb]. exists b. right; exact Hb.
Qed.

(* an adjacent touch after the independent sort is a genuine touching point of the inputs *)
Lemma adjp_touching ss es p :
  length ss = length es -> proper_pairs ss es ->
  adjp None (combine (sortZ ss) (sortZ es)) p -> touching_point p (combine ss es).
Proof.
  intros Hl HF H.
  assert (Hl' : length (sortZ ss) = length (sortZ es)) by (rewrite !sortZ_length; exact Hl).
  destruct (sorted_combine_facts ss es Hl) as [S1 S2].
  destruct (sortedZ_sorted_from _ S1) as [sb Hsb]. destruct (sortedZ_sorted_from _ S2) as [eb Heb].
  pose proof (adjp_counts _ sb eb p Hsb Heb H) as Hc.
  destruct (adjp_in _ _ _ H) as [I1 [I2|I2]]; [discriminate|].
  rewrite map_fst_combine in Hc, I1 by exact Hl'.
  rewrite map_snd_combine in Hc, I2 by exact Hl'.
  rewrite <- (clt_perm p _ _ (sortZ_perm ss)), <- (cle_perm p _ _ (sortZ_perm es)) in Hc.
  apply (Permutation_in _ (Permutation_sym (sortZ_perm ss))) in I1.
  apply (Permutation_in _ (Permutation_sym (sortZ_perm es))) in I2.
  split; [apply in_combine_snd; assumption|].
  split; [apply in_combine_fst; assumption|].
  intros (s & e & Hin & Hsp).
  destruct (proper_counts p ss es Hl HF) as [_ Hns].
  specialize (Hns Hc s e Hin). lia.
Qed.

(* ------------------------------------------------------------------ *)
(* 2. the exact completeness theorem                                    *)
Theorem mk_iset_cover_exact : forall ss es x,
  length ss = length es -> proper_pairs ss es ->
  mem x (combine ss es) = true ->
  mem x (mk_iset ss es) = true \/
  exists p, touching_point p (combine ss es) /\ p - us <= x < p.
Proof.
  intros ss es x Hl HF Hm.
  pose proof (proper_pairs_ordered ss es HF) as Hp.
  destruct (sorted_combine_facts ss es Hl) as [S1 S2].
  destruct (sortedZ_sorted_from _ S1) as [sb Hsb]. destruct (sortedZ_sorted_from _ S2) as [eb Heb].
  rewrite <- (union_sort_invariant ss es x Hl Hp) in Hm.
  destruct (fix_go_exact _ None sb eb x Hsb Heb (sorted_pairs_proper ss es Hl HF) I (or_intror Hm))
    as [H|(p & Hadj & Hx)].
  - left. exact H.
  - right. exists p. split; [|exact Hx]. apply adjp_touching; assumption.
Qed.

(* ------------------------------------------------------------------ *)
(* 3. without proper_pairs (zero-length inputs allowed) the conclusion of 2 fails *)
Theorem mk_iset_zero_length_refuted :
  let ss := [0; 5000] in let es := [10000; 5000] in let x := 4500 in
  length ss = length es /\ pairs_ordered ss es /\
  mem x (combine ss es) = true /\
  mem x (mk_iset ss es) = false /\
  straddled 5000 (combine ss es) /\
  ~ (exists p, touching_point p (combine ss es) /\ p - us <= x < p).
Proof.
  cbv zeta. split; [reflexivity|]. split; [repeat constructor; simpl; lia|].
  split; [vm_compute; reflexivity|]. split; [vm_compute; reflexivity|].
  assert (Hst : straddled 5000 (combine [0; 5000] [10000; 5000])).
  { exists 0, 10000. split; [left; reflexivity|lia]. }
  split; [exact Hst|].
  intros (p & ((s & Hin) & _ & Hns) & Hx). unfold us in Hx.
  simpl in Hin. destruct Hin as [Hin|[Hin|[]]]; inversion Hin; subst p; [lia|].
  apply Hns. exact Hst.
Qed.

Corollary mk_iset_cover_exact_needs_proper :
  ~ (forall ss es x, length ss = length es -> pairs_ordered ss es ->
       mem x (combine ss es) = true ->
       mem x (mk_iset ss es) = true \/
       exists p, touching_point p (combine ss es) /\ p - us <= x < p).
Proof.
  intros H. destruct mk_iset_zero_length_refuted as (Hl & Hp & Hm & Hn & _ & Hno).
  destruct (H _ _ _ Hl Hp Hm) as [H'|H']; [rewrite Hn in H'; discriminate|exact (Hno H')].
Qed.

(* ------------------------------------------------------------------ *)
(* 4. non-vacuity: inputs (7000,12000), (0,5000), (5000,9000) — a genuine touching point at 5000
   and a merged overlap (5000,9000) u (7000,12000); both disjuncts of theorem 2 occur *)
Example mk_iset_cover_exact_nonvacuous :
  let ss := [7000; 0; 5000] in let es := [12000; 5000; 9000] in
  length ss = length es /\ proper_pairs ss es /\
  mk_iset ss es = [(0, 4000); (5000, 12000)] /\
  (* x = 8000, inside the merged overlap: first disjunct *)
  (mem 8000 (combine ss es) = true /\ mem 8000 (mk_iset ss es) = true) /\
  (* x = 4500, in the trimmed microsecond: only the second disjunct, with p = 5000 *)
  (mem 4500 (combine ss es) = true /\ mem 4500 (mk_iset ss es) = false /\
   touching_point 5000 (combine ss es) /\ 5000 - us <= 4500 < 5000) /\
  (* x = 5000 itself is kept (hence the strict x < p) *)
  mem 5000 (mk_iset ss es) = true.
Proof.
  cbv zeta. split; [reflexivity|].
  split; [unfold proper_pairs; simpl; repeat constructor; simpl; lia|].
  split; [vm_compute; reflexivity|].
  split; [split; vm_compute; reflexivity|].
  split; [|vm_compute; reflexivity].
  split; [vm_compute; reflexivity|]. split; [vm_compute; reflexivity|].
  split; [|unfold us; lia].
  split; [exists 0; simpl; auto|]. split; [exists 9000; simpl; auto|].
  intros (s & e & Hin & Hs). simpl in Hin.
  destruct Hin as [Hin|[Hin|[Hin|[]]]]; inversion Hin; subst; lia.
Qed.

(* the theorem instantiated on that input: the second disjunct is forced at x = 4500 *)
Example mk_iset_cover_exact_second_disjunct_used :
  exists p, touching_point p (combine [7000; 0; 5000] [12000; 5000; 9000]) /\ p - us <= 4500 < p.
Proof.
  destruct (mk_iset_cover_exact [7000; 0; 5000] [12000; 5000; 9000] 4500) as [H|H].
  - reflexivity.
  - unfold proper_pairs; simpl; repeat constructor; simpl; lia.
  - vm_compute; reflexivity.
  - vm_compute in H. discriminate.
  - exact H.
Qed.

(* ------------------------------------------------------------------ *)
Print Assumptions sorted_pairs_proper.
Print Assumptions mk_iset_cover_exact.
Print Assumptions mk_iset_zero_length_refuted.
Print Assumptions mk_iset_cover_exact_needs_proper.
Print Assumptions mk_iset_cover_exact_nonvacuous.
Print Assumptions mk_iset_cover_exact_second_disjunct_used.
