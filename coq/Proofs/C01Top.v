From Verif Require Import Base.Prelude Model.Iset Proofs.BaseLemmas Proofs.FixIsetProofs Proofs.FixIsetCover Proofs.SortInvariance.
From Coq Require Import ZifyBool Permutation.

Definition pairs_ordered (ss es : list Z) : Prop := Forall (fun p => fst p <= snd p) (combine ss es).

Lemma sorted_combine_facts ss es : length ss = length es ->
  sortedZ (map fst (combine (sortZ ss) (sortZ es))) /\ sortedZ (map snd (combine (sortZ ss) (sortZ es))).
Proof.
  intros Hl. rewrite map_fst_combine, map_snd_combine by (rewrite !sortZ_length; exact Hl).
  split; apply sortZ_sorted.
Qed.

Theorem mk_iset_cover_sound ss es x :
  length ss = length es -> pairs_ordered ss es ->
  mem x (mk_iset ss es) = true -> mem x (combine ss es) = true.
Proof.
  intros Hl Hp Hm. destruct (sorted_combine_facts ss es Hl) as [H1 H2].
  rewrite <- (union_sort_invariant ss es x Hl Hp).
  apply fix_iset_cover_sound; assumption.
Qed.

Theorem mk_iset_cover_complete ss es x :
  length ss = length es -> pairs_ordered ss es ->
  mem x (combine ss es) = true ->
  mem x (mk_iset ss es) = true \/ exists p, In p ss /\ p - us <= x <= p.
Proof.
  intros Hl Hp Hm. destruct (sorted_combine_facts ss es Hl) as [H1 H2].
  rewrite <- (union_sort_invariant ss es x Hl Hp) in Hm.
  destruct (fix_iset_cover_complete _ x H1 H2 (sorted_pairs_ordered ss es Hl Hp) Hm) as [H|(p & Hin & Hx)].
  - left; exact H.
  - right. exists p. split; [|exact Hx].
    rewrite map_fst_combine in Hin by (rewrite !sortZ_length; exact Hl).
    eapply Permutation_in; [apply Permutation_sym, sortZ_perm|exact Hin].
Qed.

(* every set operation re-enters the constructor, hence is canonical whatever its kernel returned *)
Lemma mk_iset_pairs_canonical l : canonical (mk_iset_pairs l).
Proof. unfold mk_iset_pairs. apply mk_iset_canonical. rewrite !map_length. reflexivity. Qed.

Theorem ops_canonical A B :
  canonical (iset_inter A B) /\ canonical (iset_union A B) /\ canonical (iset_diff A B).
Proof. repeat split; apply mk_iset_pairs_canonical. Qed.
