(* Proofs about the time-window slicing model (Model/Slice.v): get / get_slice, the trial tensors
   built on them, trial_count and warp_tensor's use of count. *)
From Verif Require Import Base.Prelude Model.Restrict Model.Count Model.Slice Proofs.BaseLemmas Proofs.RestrictProofs Proofs.CountProofs.
From Coq Require Import ZifyBool.

(* ------------------------------------------------------------------ *)
(* generic list facts                                                  *)
(* ------------------------------------------------------------------ *)
Lemma count_if_none {A} (p : A -> bool) l : Forall (fun x => p x = false) l -> count_if p l = 0%nat.
Proof. intros H. rewrite <- filter_length_count, filter_none by exact H. reflexivity. Qed.

Lemma count_if_le_length {A} (p : A -> bool) l : (count_if p l <= length l)%nat.
Proof. induction l as [|x r IH]; simpl; [lia|]. destruct (p x); lia. Qed.

Lemma map_fst_combine_gen {A} (ts : list Z) : forall rows : list A,
  length rows = length ts -> map fst (combine ts rows) = ts.
Proof.
  induction ts as [|t r IH]; intros rows Hl; destruct rows as [|v vs]; simpl in *; try lia; [reflexivity|].
  f_equal. apply IH. lia.
Qed.

Lemma map_snd_combine_gen {A} (ts : list Z) : forall rows : list A,
  length rows = length ts -> map snd (combine ts rows) = rows.
Proof.
  induction ts as [|t r IH]; intros rows Hl; destruct rows as [|v vs]; simpl in *; try lia; [reflexivity|].
  f_equal. apply IH. lia.
Qed.

Lemma count_if_combine_fst {A} (p : Z -> bool) ts : forall rows : list A,
  length rows = length ts -> count_if (fun x => p (fst x)) (combine ts rows) = count_if p ts.
Proof.
  induction ts as [|t r IH]; intros rows Hl; destruct rows as [|v vs]; simpl in *; try lia.
  rewrite IH by lia. reflexivity.
Qed.

Lemma combine_skipn {A B} n : forall (l : list A) (l' : list B),
  skipn n (combine l l') = combine (skipn n l) (skipn n l').
Proof.
  induction n as [|n IH]; intros l l'; [reflexivity|].
  destruct l as [|x l]; [reflexivity|]. destruct l' as [|y l']; simpl.
  - destruct (skipn n l); reflexivity.
  - apply IH.
Qed.

Lemma combine_slice {A B} i0 i1 (l : list A) (l' : list B) :
  combine (slice i0 i1 l) (slice i0 i1 l') = slice i0 i1 (combine l l').
Proof. unfold slice. rewrite combine_skipn, combine_firstn. reflexivity. Qed.

Lemma map_slice {A B} (f : A -> B) i0 i1 l : slice i0 i1 (map f l) = map f (slice i0 i1 l).
Proof. unfold slice. rewrite skipn_map, firstn_map. reflexivity. Qed.

Lemma last_nth_Z (ts : list Z) d : ts <> [] -> last ts d = nth (length ts - 1) ts d.
Proof.
  induction ts as [|x r IH]; [congruence|]. intros _.
  destruct r as [|y r']; [reflexivity|].
  change (last (x :: y :: r') d) with (last (y :: r') d). rewrite IH by discriminate.
  cbn [length]. replace (S (S (length r')) - 1)%nat with (S (S (length r') - 1))%nat by lia.
  reflexivity.
Qed.

Lemma sorted_nth_mono ts : sortedZ ts -> forall i j, (i <= j < length ts)%nat -> nth i ts 0 <= nth j ts 0.
Proof.
  induction ts as [|x r IH]; intros Hs i j Hij; [simpl in Hij; lia|].
  destruct i as [|i]; destruct j as [|j]; try lia; cbn [nth].
  - pose proof (sortedZ_cons_Forall _ _ Hs) as HF. rewrite Forall_forall in HF.
    apply HF. apply nth_In. simpl in Hij. lia.
  - apply IH; [eapply sortedZ_tail; exact Hs|]. simpl in Hij. lia.
Qed.

Lemma concat_map_nil {A B} (f : A -> list B) l : Forall (fun x => f x = []) l -> concat (map f l) = [].
Proof.
  induction l as [|x r IH]; intros H; [reflexivity|].
  inversion H as [|? ? Hx Hr]; subst. cbn [map concat]. rewrite Hx, IH by assumption. reflexivity.
Qed.

Lemma nth_repeat_lt {A} (a d : A) m : forall j, (j < m)%nat -> nth j (repeat a m) d = a.
Proof.
  induction m as [|m IH]; intros j Hj; [lia|]. destruct j as [|j]; [reflexivity|].
  cbn [repeat nth]. apply IH. lia.
Qed.

(* ------------------------------------------------------------------ *)
(* searchsorted on a sorted (keyed) list: a downward-closed predicate  *)
(* splits the list at its count                                        *)
(* ------------------------------------------------------------------ *)
Section Split.
  Context {A : Type} (key : A -> Z) (p : Z -> bool).
  Hypothesis p_mono : forall x y, x <= y -> p y = true -> p x = true.

  Lemma mono_tail_false x r : sortedZ (map key (x :: r)) -> p (key x) = false ->
    Forall (fun y => p (key y) = false) (x :: r).
  Proof.
    intros Hs Hx. constructor; [exact Hx|].
    cbn [map] in Hs. apply sortedZ_cons_Forall in Hs. rewrite Forall_forall in Hs.
    apply Forall_forall. intros y Hy. specialize (Hs (key y) (in_map key _ _ Hy)).
    destruct (p (key y)) eqn:E; [|reflexivity].
    rewrite (p_mono _ _ Hs E) in Hx. discriminate.
  Qed.

  Lemma split_at_count l : sortedZ (map key l) ->
    firstn (count_if (fun x => p (key x)) l) l = filter (fun x => p (key x)) l
    /\ skipn (count_if (fun x => p (key x)) l) l = filter (fun x => negb (p (key x))) l.
  Proof.
    induction l as [|x r IH]; intros Hs; [split; reflexivity|].
    destruct (p (key x)) eqn:E.
    - cbn [count_if filter]. rewrite E. cbn [negb firstn skipn].
      destruct IH as [IH1 IH2]; [cbn [map] in Hs; eapply sortedZ_tail; exact Hs|].
      rewrite IH1, IH2. split; reflexivity.
    - pose proof (mono_tail_false x r Hs E) as HF.
      rewrite count_if_none by exact HF. rewrite filter_none by exact HF.
      rewrite filter_all; [split; reflexivity|].
      eapply Forall_impl'; [|exact HF]. intros y Hy. cbv beta in *. rewrite Hy. reflexivity.
  Qed.

  Lemma count_nth l : sortedZ (map key l) -> forall i d, (i < length l)%nat ->
    ((i < count_if (fun x => p (key x)) l)%nat <-> p (key (nth i l d)) = true).
  Proof.
    induction l as [|x r IH]; intros Hs i d Hi; [simpl in Hi; lia|].
    destruct (p (key x)) eqn:E.
    - cbn [count_if]. rewrite E. destruct i as [|i]; cbn [nth].
      + split; [intros _; exact E|lia].
      + rewrite <- (IH (sortedZ_tail _ _ Hs) i d) by (simpl in Hi; lia). lia.
    - pose proof (mono_tail_false x r Hs E) as HF.
      rewrite count_if_none by exact HF. rewrite Forall_forall in HF.
      rewrite (HF (nth i (x :: r) d)) by (apply nth_In; exact Hi).
      split; [lia|discriminate].
  Qed.
End Split.

Section Window.
  Context {A : Type} (key : A -> Z).

  Lemma count_window_le a b l : a <= b ->
    count_if (fun x => key x <=? b) l
    = Nat.add (count_if (fun x => key x <? a) l)
              (count_if (fun x => key x <=? b) (filter (fun x => negb (key x <? a)) l)).
  Proof.
    intros Hab. induction l as [|x r IH]; [reflexivity|]. cbn [count_if filter].
    destruct (key x <? a) eqn:E1; destruct (key x <=? b) eqn:E2; cbn [negb count_if]; rewrite ?E2; lia.
  Qed.

  Lemma count_window_gt a b l : b < a ->
    le (count_if (fun x => key x <=? b) l) (count_if (fun x => key x <? a) l)
    /\ count_if (fun x => key x <=? b) (filter (fun x => negb (key x <? a)) l) = 0%nat.
  Proof.
    intros Hab. induction l as [|x r IH]; [split; reflexivity|]. cbn [count_if filter].
    destruct (key x <? a) eqn:E1; destruct (key x <=? b) eqn:E2; cbn [negb count_if]; rewrite ?E2; lia.
  Qed.

  Lemma count_window a b l :
    Nat.sub (count_if (fun x => key x <=? b) l) (count_if (fun x => key x <? a) l)
    = count_if (fun x => key x <=? b) (filter (fun x => negb (key x <? a)) l).
  Proof.
    destruct (Z_le_gt_dec a b) as [H|H].
    - rewrite (count_window_le a b l H). lia.
    - destruct (count_window_gt a b l ltac:(lia)) as [H1 H2]. lia.
  Qed.

  (* the positional slice [searchsorted_left a, searchsorted_right b) is the value window [a, b] *)
  Lemma slice_keyed a b l : sortedZ (map key l) ->
    slice (count_if (fun x => key x <? a) l) (count_if (fun x => key x <=? b) l) l
    = filter (fun x => (a <=? key x) && (key x <=? b)) l.
  Proof.
    intros Hs. unfold slice.
    destruct (split_at_count key (fun t => t <? a) ltac:(intros; lia) l Hs) as [_ H2].
    rewrite H2, count_window.
    destruct (split_at_count key (fun t => t <=? b) ltac:(intros; lia)
                (filter (fun x => negb (key x <? a)) l)) as [H1 _].
    { apply filter_sortedZ_k. exact Hs. }
    rewrite H1, filter_filter. apply filter_ext. intros x. lia.
  Qed.
End Window.

(* Z-list instances *)
Lemma ss_left_nth a ts : sortedZ ts -> forall i, (i < length ts)%nat ->
  ((i < ss_left a ts)%nat <-> nth i ts 0 < a).
Proof.
  intros Hs i Hi. unfold ss_left.
  rewrite (count_nth (fun t => t) (fun t => t <? a) ltac:(intros; lia) ts) with (d := 0);
    [lia|rewrite map_id; exact Hs|exact Hi].
Qed.

Lemma ss_right_nth b ts : sortedZ ts -> forall i, (i < length ts)%nat ->
  ((i < ss_right b ts)%nat <-> nth i ts 0 <= b).
Proof.
  intros Hs i Hi. unfold ss_right.
  rewrite (count_nth (fun t => t) (fun t => t <=? b) ltac:(intros; lia) ts) with (d := 0);
    [lia|rewrite map_id; exact Hs|exact Hi].
Qed.

(* the advised split lemmas *)
Lemma firstn_ss_left v ts : sortedZ ts -> firstn (ss_left v ts) ts = filter (fun t => t <? v) ts.
Proof.
  intros Hs. apply (split_at_count (fun t => t) (fun t => t <? v) ltac:(intros; lia) ts).
  rewrite map_id. exact Hs.
Qed.

Lemma skipn_ss_left v ts : sortedZ ts -> skipn (ss_left v ts) ts = filter (fun t => v <=? t) ts.
Proof.
  intros Hs. destruct (split_at_count (fun t => t) (fun t => t <? v) ltac:(intros; lia) ts) as [_ H].
  { rewrite map_id. exact Hs. }
  unfold ss_left. rewrite H. apply filter_ext. intros t. lia.
Qed.

Lemma firstn_ss_right v ts : sortedZ ts -> firstn (ss_right v ts) ts = filter (fun t => t <=? v) ts.
Proof.
  intros Hs. apply (split_at_count (fun t => t) (fun t => t <=? v) ltac:(intros; lia) ts).
  rewrite map_id. exact Hs.
Qed.

Lemma skipn_ss_right v ts : sortedZ ts -> skipn (ss_right v ts) ts = filter (fun t => v <? t) ts.
Proof.
  intros Hs. destruct (split_at_count (fun t => t) (fun t => t <=? v) ltac:(intros; lia) ts) as [_ H].
  { rewrite map_id. exact Hs. }
  unfold ss_right. rewrite H. apply filter_ext. intros t. lia.
Qed.

(* ------------------------------------------------------------------ *)
(* 1-3. get(start, end) / get_slice(start, end)                        *)
(* ------------------------------------------------------------------ *)
Theorem get_range_positions : forall a b ts i, sortedZ ts ->
  let '(i0, i1) := get_range a b ts in
  ((i0 <= i < i1)%nat <-> ((i < length ts)%nat /\ a <= nth i ts 0 <= b)).
Proof.
  intros a b ts i Hs. unfold get_range.
  pose proof (count_if_le_length (fun t => t <=? b) ts) as Hle. fold (ss_right b ts) in Hle.
  split.
  - intros [H0 H1]. assert (Hi : (i < length ts)%nat) by lia. split; [exact Hi|].
    pose proof (ss_left_nth a ts Hs i Hi). pose proof (ss_right_nth b ts Hs i Hi). lia.
  - intros [Hi Hv].
    pose proof (ss_left_nth a ts Hs i Hi). pose proof (ss_right_nth b ts Hs i Hi). lia.
Qed.

Theorem get_times_spec : forall a b ts, sortedZ ts ->
  get_times a b ts = filter (fun t => (a <=? t) && (t <=? b)) ts.
Proof.
  intros a b ts Hs. unfold get_times, get_range, ss_left, ss_right.
  apply (slice_keyed (fun t => t) a b ts). rewrite map_id. exact Hs.
Qed.

Lemma slice_rows_window {A} a b ts (rows : list A) : sortedZ ts -> length rows = length ts ->
  slice (ss_left a ts) (ss_right b ts) (combine ts rows)
  = filter (fun tr => (a <=? fst tr) && (fst tr <=? b)) (combine ts rows).
Proof.
  intros Hs Hl. unfold ss_left, ss_right.
  rewrite <- (count_if_combine_fst (fun t => t <? a) ts rows Hl).
  rewrite <- (count_if_combine_fst (fun t => t <=? b) ts rows Hl).
  apply (slice_keyed (@fst Z A) a b (combine ts rows)).
  rewrite map_fst_combine_gen by exact Hl. exact Hs.
Qed.

Theorem get_rows_spec : forall (A : Type) a b ts (rows : list A), sortedZ ts -> length rows = length ts ->
  let '(i0, i1) := get_range a b ts in
  combine (slice i0 i1 ts) (slice i0 i1 rows)
  = filter (fun tr => (a <=? fst tr) && (fst tr <=? b)) (combine ts rows).
Proof.
  intros A a b ts rows Hs Hl. unfold get_range.
  rewrite combine_slice. apply slice_rows_window; assumption.
Qed.

(* ------------------------------------------------------------------ *)
(* 4-5. get(start): closest_t, before_t                                *)
(* ------------------------------------------------------------------ *)
Theorem get_closest_spec : forall a ts, ts <> [] -> sortedZ ts ->
  (get_closest a ts < length ts)%nat
  /\ Forall (fun y => Z.abs (nth (get_closest a ts) ts 0 - a) <= Z.abs (y - a)) ts.
Proof.
  intros a ts Hne Hs.
  assert (Hn : (0 < length ts)%nat) by (destruct ts; [congruence|simpl; lia]).
  pose proof (count_if_le_length (fun t => t <? a) ts) as Hle. fold (ss_left a ts) in Hle.
  pose proof (ss_left_nth a ts Hs) as Hlt.
  pose proof (sorted_nth_mono ts Hs) as Hmono.
  pose proof (last_nth_Z ts 0 Hne) as Hlast.
  unfold get_closest. cbv zeta.
  set (n := length ts) in *. set (i0 := ss_left a ts) in *.
  assert (Hall : forall j, (j < n)%nat ->
            (forall k, (k < n)%nat -> Z.abs (nth j ts 0 - a) <= Z.abs (nth k ts 0 - a)) ->
            (j < n)%nat /\ Forall (fun y => Z.abs (nth j ts 0 - a) <= Z.abs (y - a)) ts).
  { intros j Hj H. split; [exact Hj|]. apply Forall_forall. intros y Hy.
    destruct (In_nth _ _ 0 Hy) as (k & Hk & <-). apply H. exact Hk. }
  destruct (i0 =? n)%nat eqn:E0.
  - (* every sample is before a: the last one is returned *)
    assert (Hi0 : i0 = n) by lia.
    assert (Hcur : nth (i0 - 1) ts 0 < a) by (apply Hlt; lia).
    set (prev := if (i0 - 1 =? 0)%nat then last ts 0 else nth (i0 - 1 - 1) ts 0).
    destruct (Z.abs (prev - a) <? nth (i0 - 1) ts 0 - a) eqn:E1; [lia|].
    apply Hall; [lia|]. intros k Hk.
    pose proof (Hmono k (i0 - 1)%nat ltac:(lia)). lia.
  - assert (Hi0 : (i0 < n)%nat) by lia.
    assert (Hcur : a <= nth i0 ts 0) by (specialize (Hlt i0 Hi0); lia).
    destruct (i0 =? 0)%nat eqn:E2.
    + (* wrap-around read: harmless, the last sample is never strictly closer than the first *)
      assert (Hz : i0 = 0%nat) by lia. rewrite Hlast.
      pose proof (Hmono i0 (n - 1)%nat ltac:(lia)).
      destruct (Z.abs (nth (n - 1) ts 0 - a) <? nth i0 ts 0 - a) eqn:E1; [lia|].
      apply Hall; [lia|]. intros k Hk.
      pose proof (Hmono i0 k ltac:(lia)). lia.
    + assert (Hprev : nth (i0 - 1) ts 0 < a) by (apply Hlt; lia).
      destruct (Z.abs (nth (i0 - 1) ts 0 - a) <? nth i0 ts 0 - a) eqn:E1.
      * apply Hall; [lia|]. intros k Hk.
        destruct (Nat.lt_ge_cases k i0) as [Hki|Hki].
        -- pose proof (Hmono k (i0 - 1)%nat ltac:(lia)). lia.
        -- pose proof (Hmono i0 k ltac:(lia)). lia.
      * apply Hall; [lia|]. intros k Hk.
        destruct (Nat.lt_ge_cases k i0) as [Hki|Hki].
        -- pose proof (Hmono k (i0 - 1)%nat ltac:(lia)). lia.
        -- pose proof (Hmono i0 k ltac:(lia)). lia.
Qed.

(* checked on examples first: with duplicates equal to [a] the FIRST of them is returned
   (get_before 2 [1;2;2;3] = Some 1), so the value-level statement below holds, whereas the
   index-level "j is the last position with ts[j] <= a" would be false (position 2 also qualifies). *)
Example get_before_dups :
  (get_before 2 [1;2;2;3], get_before 2 [2;2;2], get_before 2 [3;3], get_before 5 [1], get_before 0 [1],
   get_before 2 [1;1;3;3])
  = (Some 1%nat, Some 0%nat, None, Some 0%nat, None, Some 1%nat).
Proof. vm_compute. reflexivity. Qed.

Theorem get_before_spec : forall a ts, ts <> [] -> sortedZ ts ->
  match get_before a ts with
  | Some j => (j < length ts)%nat /\ nth j ts 0 <= a /\ Forall (fun y => y <= a -> y <= nth j ts 0) ts
  | None => Forall (fun y => a < y) ts
  end.
Proof.
  intros a ts Hne Hs.
  assert (Hn : (0 < length ts)%nat) by (destruct ts; [congruence|simpl; lia]).
  pose proof (count_if_le_length (fun t => t <? a) ts) as Hle. fold (ss_left a ts) in Hle.
  pose proof (ss_left_nth a ts Hs) as Hlt.
  pose proof (sorted_nth_mono ts Hs) as Hmono.
  unfold get_before. cbv zeta.
  set (n := length ts) in *. set (i0 := ss_left a ts) in *.
  assert (Hall : forall P : Z -> Prop, (forall k, (k < n)%nat -> P (nth k ts 0)) -> Forall P ts).
  { intros P H. apply Forall_forall. intros y Hy.
    destruct (In_nth _ _ 0 Hy) as (k & Hk & <-). apply H. exact Hk. }
  destruct (i0 =? n)%nat eqn:E0.
  - assert (Hi0 : i0 = n) by lia.
    assert (Hcur : nth (i0 - 1) ts 0 < a) by (apply Hlt; lia).
    destruct (a <? nth (i0 - 1) ts 0) eqn:E1; [lia|].
    split; [lia|]. split; [lia|]. apply Hall. intros k Hk _.
    apply Hmono. lia.
  - assert (Hi0 : (i0 < n)%nat) by lia.
    assert (Hcur : a <= nth i0 ts 0) by (specialize (Hlt i0 Hi0); lia).
    destruct (a <? nth i0 ts 0) eqn:E1.
    + destruct (i0 =? 0)%nat eqn:E2.
      * apply Hall. intros k Hk. pose proof (Hmono i0 k ltac:(lia)). lia.
      * assert (Hprev : nth (i0 - 1) ts 0 < a) by (apply Hlt; lia).
        split; [lia|]. split; [lia|]. apply Hall. intros k Hk Hka.
        destruct (Nat.lt_ge_cases k i0) as [Hki|Hki].
        -- apply Hmono. lia.
        -- pose proof (Hmono i0 k ltac:(lia)). lia.
    + split; [lia|]. split; [lia|]. apply Hall. intros k Hk Hka. lia.
Qed.

(* ------------------------------------------------------------------ *)
(* 6-7. trial tensors                                                  *)
(* ------------------------------------------------------------------ *)
Theorem trial_rows_spec : forall (A : Type) ts (rows : list A) ep, sortedZ ts -> length rows = length ts ->
  trial_rows ts rows ep
  = map (fun '(s, e) => map snd (filter (fun tr => (s <=? fst tr) && (fst tr <=? e)) (combine ts rows))) ep.
Proof.
  intros A ts rows ep Hs Hl. unfold trial_rows. apply map_ext. intros [s e]. unfold get_range.
  rewrite <- (slice_rows_window s e ts rows Hs Hl), <- map_slice, map_snd_combine_gen by exact Hl.
  reflexivity.
Qed.

Theorem pad_start_spec : forall (A : Type) n (pad : A) row, (length row <= n)%nat ->
  length (pad_start n pad row) = n
  /\ (forall j d, (j < length row)%nat -> nth j (pad_start n pad row) d = nth j row d)
  /\ (forall j d, (length row <= j < n)%nat -> nth j (pad_start n pad row) d = pad).
Proof.
  intros A n pad row Hl. unfold pad_start. split; [|split].
  - rewrite app_length, repeat_length. lia.
  - intros j d Hj. apply app_nth1. exact Hj.
  - intros j d Hj. rewrite app_nth2 by lia. apply nth_repeat_lt. lia.
Qed.

Theorem pad_end_spec : forall (A : Type) n (pad : A) row, (length row <= n)%nat ->
  length (pad_end n pad row) = n
  /\ (forall j d, (j < length row)%nat -> nth (n - length row + j) (pad_end n pad row) d = nth j row d)
  /\ (forall j d, (j < n - length row)%nat -> nth j (pad_end n pad row) d = pad).
Proof.
  intros A n pad row Hl. unfold pad_end. split; [|split].
  - rewrite app_length, repeat_length. lia.
  - intros j d Hj. rewrite app_nth2 by (rewrite repeat_length; lia).
    rewrite repeat_length. f_equal. lia.
  - intros j d Hj. rewrite app_nth1 by (rewrite repeat_length; lia). apply nth_repeat_lt. lia.
Qed.

Lemma max_len_ge {A} (rows : list (list A)) r : In r rows -> (length r <= max_len rows)%nat.
Proof.
  induction rows as [|x rs IH]; intros Hin; [destruct Hin|].
  cbn [max_len fold_right]. fold (max_len rs). destruct Hin as [<-|Hin]; [lia|].
  specialize (IH Hin). lia.
Qed.

Theorem to_trial_tensor_lengths : forall (A : Type) align_end (pad : A) ts rows ep,
  Forall (fun r => length r = max_len (trial_rows ts rows ep)) (to_trial_tensor align_end pad ts rows ep).
Proof.
  intros A align_end pad ts rows ep. unfold to_trial_tensor. cbv zeta.
  apply Forall_map. apply Forall_forall. intros r Hr.
  pose proof (max_len_ge _ _ Hr) as Hle.
  destruct align_end.
  - apply pad_end_spec. exact Hle.
  - apply pad_start_spec. exact Hle.
Qed.

(* ------------------------------------------------------------------ *)
(* 8. trial_count                                                      *)
(* ------------------------------------------------------------------ *)
Lemma canon_split pre : forall lo s e post, canon lo (pre ++ (s, e) :: post) ->
  lo < s /\ Forall (fun I => snd I < s) pre /\ s < e /\ canon e post.
Proof.
  induction pre as [|[s' e'] pre IH]; intros lo s e post H.
  - simpl in H. destruct H as (H1 & H2 & H3). repeat split; auto.
  - cbn [app canon] in H. destruct H as (H1 & H2 & H3).
    destruct (IH _ _ _ _ H3) as (H4 & H5 & H6 & H7).
    split; [lia|]. split; [|split; assumption].
    constructor; [exact H4|exact H5].
Qed.

Lemma canon_Forall_gt A : forall lo, canon lo A -> Forall (fun I => lo < fst I) A.
Proof.
  induction A as [|[s e] r IH]; intros lo H; [constructor|].
  simpl in H. destruct H as (H1 & H2 & H3). constructor; [exact H1|].
  eapply Forall_impl'; [|apply (IH e H3)]. intros I HI. cbv beta in *. lia.
Qed.

Lemma csi_centres ts s e b cb : 0 < b -> In cb (count_spec_interval ts s e b) -> 2 * s <= fst cb <= 2 * e.
Proof.
  intros Hb Hin. unfold count_spec_interval in Hin. apply in_map_iff in Hin.
  destruct Hin as (j & <- & Hj). apply in_seq in Hj. cbn [fst].
  pose proof (centres_in_interval s e b j Hb ltac:(lia)). lia.
Qed.

Lemma csi_filter_out ts b s e (l : iset) : 0 < b ->
  Forall (fun I => snd I < s \/ e < fst I) l ->
  filter (fun cb : Z * nat => (2 * s <=? fst cb) && (fst cb <=? 2 * e))
         (concat (map (fun '(s', e') => count_spec_interval ts s' e' b) l)) = [].
Proof.
  intros Hb HF. rewrite <- concat_filter_map, map_map. apply concat_map_nil.
  eapply Forall_impl'; [|exact HF]. intros [s' e'] HI. cbn [fst snd] in HI.
  apply filter_none. apply Forall_forall. intros cb Hcb.
  pose proof (csi_centres ts s' e' b cb Hb Hcb). lia.
Qed.

Theorem trial_count_rows_spec : forall ts ep b, 0 < b -> sortedZ ts -> canonical ep ->
  trial_count_rows ts ep b = map (fun '(s, e) => map snd (count_spec_interval ts s e b)) ep.
Proof.
  intros ts ep b Hb Hs Hc. unfold trial_count_rows. cbv zeta.
  rewrite count_binned_spec by assumption. unfold count_spec.
  apply map_ext_in. intros [s e] Hin. f_equal.
  destruct (in_split _ _ Hin) as (pre & post & Heq).
  destruct (canonical_canon _ Hc) as [lo Hlo]. rewrite Heq in Hlo.
  destruct (canon_split _ _ _ _ _ Hlo) as (_ & Hpre & Hse & Hpost).
  apply canon_Forall_gt in Hpost.
  rewrite Heq, map_app, concat_app. cbn [map concat]. rewrite !filter_app.
  rewrite (csi_filter_out ts b s e pre Hb), (csi_filter_out ts b s e post Hb).
  - rewrite app_nil_r. cbn [app]. apply filter_all. apply Forall_forall. intros cb Hcb.
    pose proof (csi_centres ts s e b cb Hb Hcb). lia.
  - eapply Forall_impl'; [|exact Hpost]. intros I HI. right. exact HI.
  - eapply Forall_impl'; [|exact Hpre]. intros I HI. left. exact HI.
Qed.

(* ------------------------------------------------------------------ *)
(* 9. warp_tensor: equal bins                                          *)
(* ------------------------------------------------------------------ *)
Theorem warp_equal_bins : forall s e b k, 0 < b -> (0 < k)%nat -> e - s = Z.of_nat k * b ->
  n_reported s e b = k.
Proof.
  intros s e b k Hb Hk Hd.
  assert (Hkb : b <= Z.of_nat k * b) by nia.
  destruct (n_reported_cases s e b Hb) as [[Hlt _]|(q & Hq & Hn & Hlo & Hhi)]; [lia|].
  rewrite Hd in Hlo, Hhi.
  assert (q < Z.of_nat k) by nia.
  assert (Z.of_nat k < q + 2) by nia.
  lia.
Qed.

Print Assumptions get_range_positions.
Print Assumptions get_times_spec.
Print Assumptions get_rows_spec.
Print Assumptions get_closest_spec.
Print Assumptions get_before_spec.
Print Assumptions trial_rows_spec.
Print Assumptions pad_start_spec.
Print Assumptions pad_end_spec.
Print Assumptions to_trial_tensor_lengths.
Print Assumptions trial_count_rows_spec.
Print Assumptions warp_equal_bins.
