(* C01, cover part: on sorted pairs with start <= end, the fixed set covers exactly the union,
   except within 1 us before a start (touch trimming, vanishing zero-length inputs). *)
From Verif Require Import Base.Prelude Model.Iset Proofs.BaseLemmas Proofs.FixIsetProofs.
From Coq Require Import ZifyBool.

Definition pend_cov (x : Z) (pend : option (Z * Z * Z)) : bool :=
  match pend with None => false | Some (ns, ne, _) => (ns <=? x) && (x <=? ne) end.

Definition near_start (x : Z) (l : list (Z * Z)) : Prop := exists p, In p (map fst l) /\ p - us <= x <= p.

Definition pend_inv (sb eb : Z) (pend : option (Z * Z * Z)) : Prop :=
  match pend with
  | None => True
  | Some (ns, ne, ce) => ne = ce /\ ns < ne /\ ce <= eb /\ ns <= sb
  end.

Lemma mem_close_pending x ns ne nxt :
  mem x (close_pending ns ne nxt) = true -> ns <= x <= ne.
Proof.
  destruct (close_pending_cases ns ne nxt) as [->|(ne' & -> & Ha & Hb & Hc)]; simpl; [discriminate|].
  unfold inb; simpl. lia.
Qed.

Lemma fix_go_sound l : forall pend sb eb x,
  sorted_from sb (map fst l) -> sorted_from eb (map snd l) ->
  pend_inv sb eb pend ->
  mem x (fix_go pend l) = true -> pend_cov x pend = true \/ mem x l = true.
Proof.
  induction l as [|[s e] r IH]; intros pend sb eb x Hs He Hp Hm.
  - simpl in Hm. destruct pend as [[[ns ne] ce]|]; [|discriminate].
    apply mem_close_pending in Hm. left. simpl. lia.
  - simpl in Hs, He. destruct Hs as [Hs1 Hs2]. destruct He as [He1 He2].
    cbn [fix_go] in Hm. rewrite mem_cons. unfold inb; cbn [fst snd].
    assert (HX : mem x (if e <=? s then fix_go None r else fix_go (Some (s, e, e)) r) = true ->
                 ((s <=? x) && (x <=? e) || mem x r) = true).
    { destruct (e <=? s) eqn:E2; intros H.
      - destruct (IH None s e x Hs2 He2 I H) as [H'|H']; [discriminate|]. rewrite H'. lia.
      - destruct (IH (Some (s, e, e)) s e x Hs2 He2) as [H'|H']; auto.
        + simpl. repeat split; lia.
        + simpl in H'. rewrite H'. reflexivity.
        + rewrite H'. lia. }
    destruct pend as [[[ns ne] ce]|].
    + destruct Hp as (-> & H1 & H2 & H4).
      destruct (s <? ce) eqn:E.
      * assert (Hpi : pend_inv s e (Some (ns, Z.max ce e, e))) by (simpl; repeat split; lia).
        destruct (IH _ s e x Hs2 He2 Hpi Hm) as [H'|H'].
        -- simpl in H'. simpl. destruct (x <=? ce) eqn:E3; [left; lia|right; lia].
        -- right. rewrite H'. lia.
      * rewrite mem_app in Hm. apply orb_true_iff in Hm. destruct Hm as [Hm|Hm].
        -- apply mem_close_pending in Hm. left. simpl. lia.
        -- right. apply HX. exact Hm.
    + right. apply HX. exact Hm.
Qed.

Lemma near_start_cons x p l : near_start x l -> near_start x (p :: l).
Proof. intros (q & Hq & Hx). exists q. split; [right; exact Hq|exact Hx]. Qed.

Lemma fix_go_complete l : forall pend sb eb x,
  sorted_from sb (map fst l) -> sorted_from eb (map snd l) ->
  Forall (fun p => fst p <= snd p) l ->
  pend_inv sb eb pend ->
  pend_cov x pend = true \/ mem x l = true ->
  mem x (fix_go pend l) = true \/ near_start x l.
Proof.
  induction l as [|[s e] r IH]; intros pend sb eb x Hs He Hle Hp Hx.
  - destruct Hx as [Hx|Hx]; [|discriminate]. left.
    destruct pend as [[[ns ne] ce]|]; [|discriminate]. simpl in Hx. destruct Hp as (-> & H1 & H2 & H4).
    simpl. unfold close_pending. destruct (ns <? ce) eqn:E; [|lia]. simpl. unfold inb; simpl. lia.
  - simpl in Hs, He. destruct Hs as [Hs1 Hs2]. destruct He as [He1 He2].
    inversion Hle as [|? ? Hse Hle']; subst. cbn [fst snd] in Hse.
    cbn [fix_go].
    assert (HX : ((s <=? x) && (x <=? e) || mem x r) = true ->
                 mem x (if e <=? s then fix_go None r else fix_go (Some (s, e, e)) r) = true
                 \/ near_start x ((s, e) :: r)).
    { intros H. destruct (e <=? s) eqn:E2.
      - destruct ((s <=? x) && (x <=? e)) eqn:E3.
        + right. exists s. split; [left; reflexivity|unfold us; lia].
        + destruct (IH None s e x Hs2 He2 Hle' I) as [H'|H']; [right; exact H|left; exact H'|].
          right. apply near_start_cons. exact H'.
      - destruct (IH (Some (s, e, e)) s e x Hs2 He2 Hle') as [H'|H'].
        + simpl. repeat split; lia.
        + simpl. destruct ((s <=? x) && (x <=? e)) eqn:E3; [left; reflexivity|right; exact H].
        + left; exact H'.
        + right. apply near_start_cons. exact H'. }
    rewrite mem_cons in Hx. unfold inb in Hx; cbn [fst snd] in Hx.
    destruct pend as [[[ns ne] ce]|].
    + destruct Hp as (-> & H1 & H2 & H4). simpl in Hx.
      destruct (s <? ce) eqn:E.
      * destruct (IH (Some (ns, Z.max ce e, e)) s e x Hs2 He2 Hle') as [H'|H'].
        -- simpl. repeat split; lia.
        -- simpl. destruct Hx as [Hx|Hx].
           ++ left. lia.
           ++ destruct ((s <=? x) && (x <=? e)) eqn:E3; [left; lia|right; exact Hx].
        -- left; exact H'.
        -- right. apply near_start_cons. exact H'.
      * rewrite mem_app.
        destruct Hx as [Hx|Hx].
        -- (* x in the pending interval, which is closed here *)
           unfold close_pending.
           destruct (ce =? s) eqn:E3.
           ++ destruct (x <=? ce - us) eqn:E4.
              ** destruct (ns <? ce - us) eqn:E5.
                 --- left. simpl. unfold inb; simpl. lia.
                 --- right. exists s. split; [left; reflexivity|unfold us in *; lia].
              ** right. exists s. split; [left; reflexivity|unfold us in *; lia].
           ++ destruct (ns <? ce) eqn:E5; [|lia]. left. simpl. unfold inb; simpl. lia.
        -- destruct (HX Hx) as [H'|H']; [left|right; exact H']. apply orb_true_iff. right. exact H'.
    + destruct Hx as [Hx|Hx]; [discriminate|]. apply HX. exact Hx.
Qed.

Theorem fix_iset_cover_sound l x :
  sortedZ (map fst l) -> sortedZ (map snd l) ->
  mem x (fix_iset l) = true -> mem x l = true.
Proof.
  intros Hs He Hm.
  destruct (sortedZ_sorted_from _ Hs) as [sb Hsb]. destruct (sortedZ_sorted_from _ He) as [eb Heb].
  destruct (fix_go_sound l None sb eb x Hsb Heb I Hm) as [H|H]; [discriminate|exact H].
Qed.

Theorem fix_iset_cover_complete l x :
  sortedZ (map fst l) -> sortedZ (map snd l) -> Forall (fun p => fst p <= snd p) l ->
  mem x l = true -> mem x (fix_iset l) = true \/ near_start x l.
Proof.
  intros Hs He Hle Hm.
  destruct (sortedZ_sorted_from _ Hs) as [sb Hsb]. destruct (sortedZ_sorted_from _ He) as [eb Heb].
  apply (fix_go_complete l None sb eb x Hsb Heb Hle I). right; exact Hm.
Qed.
