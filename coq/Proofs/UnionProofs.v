(* Proofs about the jitunion model (union_go / k_union) and the jitunion_isets model
   (sort_by_start / union_n_go / k_union_n) of Model/Iset.v. *)
From Verif Require Import Base.Prelude Model.Iset Proofs.BaseLemmas.
From Coq Require Import ZifyBool.

Ltac blia := cbv beta in *; unfold inb in *; cbn [fst snd] in *; lia.

Definition endpoint (x : Z) (A : iset) : Prop := In x (starts A) \/ In x (ends A).

(* raw union output: every interval proper, consecutive ones ordered and possibly touching *)
Fixpoint weakly_canonical (A : iset) : Prop :=
  match A with
  | [] => True
  | (s, e) :: r => s < e /\ match r with [] => True | (s', _) :: _ => e <= s' end /\ weakly_canonical r
  end.

(* ================================================================== *)
(* Part I: jitunion_isets (k_union_n)                                   *)

(* sorted by start from [lo], every interval proper *)
Fixpoint sbs (lo : Z) (l : iset) : Prop :=
  match l with
  | [] => True
  | (s, e) :: r => lo <= s /\ s < e /\ sbs s r
  end.

Lemma sbs_weaken l : forall lo lo', lo' <= lo -> sbs lo l -> sbs lo' l.
Proof. destruct l as [|[s e] r]; simpl; intros; [auto|]. intuition lia. Qed.

Lemma insert_mem x a l : mem x (insert_by_start a l) = inb x a || mem x l.
Proof.
  induction l as [|y r IH]; cbn [insert_by_start].
  - reflexivity.
  - destruct (fst a <? fst y); rewrite !mem_cons; [reflexivity|].
    rewrite IH. destruct (inb x a), (inb x y); reflexivity.
Qed.

Lemma insert_sbs a l : forall lo,
  sbs lo l -> lo <= fst a -> fst a < snd a -> sbs lo (insert_by_start a l).
Proof.
  destruct a as [sa ea]. cbn [fst snd].
  induction l as [|[s e] r IH]; intros lo H Hlo Ha; cbn [insert_by_start fst].
  - simpl. auto.
  - destruct H as (H1 & H2 & H3).
    destruct (sa <? s) eqn:E.
    + simpl. repeat split; try lia. eapply sbs_weaken; [|exact H3]. lia.
    + cbn [sbs]. repeat split; try lia. apply IH; [assumption|lia|assumption].
Qed.

Lemma fold_insert_mem x l : forall acc,
  mem x (fold_left (fun acc a => insert_by_start a acc) l acc) = mem x l || mem x acc.
Proof.
  induction l as [|a r IH]; intros acc; cbn [fold_left].
  - reflexivity.
  - rewrite IH, insert_mem, mem_cons.
    destruct (inb x a), (mem x r), (mem x acc); reflexivity.
Qed.

Lemma fold_insert_sbs l : forall acc lo,
  Forall (fun I => fst I < snd I) l -> sbs lo acc ->
  exists lo', sbs lo' (fold_left (fun acc a => insert_by_start a acc) l acc).
Proof.
  induction l as [|a r IH]; intros acc lo HF H; cbn [fold_left].
  - exists lo. exact H.
  - inversion HF as [|? ? Ha Hr]; subst.
    apply (IH _ (Z.min lo (fst a))); [assumption|].
    apply insert_sbs; [|lia|assumption].
    eapply sbs_weaken; [|exact H]. lia.
Qed.

Lemma sort_by_start_mem x l : mem x (sort_by_start l) = mem x l.
Proof. unfold sort_by_start. rewrite fold_insert_mem. simpl. apply orb_false_r. Qed.

Lemma sort_by_start_sbs l :
  Forall (fun I => fst I < snd I) l -> exists lo, sbs lo (sort_by_start l).
Proof. intros H. unfold sort_by_start. apply (fold_insert_sbs l [] 0 H). exact I. Qed.

Lemma union_n_go_spec l : forall cs ce lo,
  sbs cs l -> cs < ce -> lo < cs ->
  (forall x, mem x (union_n_go cs ce l) = inb x (cs, ce) || mem x l)
  /\ canon lo (union_n_go cs ce l).
Proof.
  induction l as [|[s e] r IH]; intros cs ce lo H Hc Hlo; cbn [union_n_go].
  - split.
    + intros x. reflexivity.
    + simpl. auto.
  - destruct H as (H1 & H2 & H3).
    destruct (ce <? s) eqn:E.
    + destruct (IH s e ce H3 H2 ltac:(lia)) as [IHm IHc].
      split.
      * intros x. rewrite mem_cons, IHm, mem_cons. reflexivity.
      * cbn [canon]. auto.
    + assert (H3' : sbs cs r) by (eapply sbs_weaken; [|exact H3]; lia).
      destruct (IH cs (Z.max ce e) lo H3' ltac:(lia) Hlo) as [IHm IHc].
      split; [|exact IHc].
      intros x. rewrite IHm, mem_cons. blia.
Qed.

Theorem union_n_mem (l : iset) (x : Z) :
  Forall (fun I => fst I < snd I) l -> mem x (k_union_n l) = mem x l.
Proof.
  intros HF. rewrite <- (sort_by_start_mem x l).
  destruct (sort_by_start_sbs l HF) as [lo Hs].
  unfold k_union_n. destruct (sort_by_start l) as [|[s e] r]; [reflexivity|].
  destruct Hs as (H1 & H2 & H3).
  destruct (union_n_go_spec r s e (s - 1) H3 H2 ltac:(lia)) as [Hm _].
  rewrite Hm, mem_cons. reflexivity.
Qed.

Theorem union_n_canonical (l : iset) :
  Forall (fun I => fst I < snd I) l -> canonical (k_union_n l).
Proof.
  intros HF.
  destruct (sort_by_start_sbs l HF) as [lo Hs].
  unfold k_union_n. destruct (sort_by_start l) as [|[s e] r]; [exact I|].
  destruct Hs as (H1 & H2 & H3).
  destruct (union_n_go_spec r s e (s - 1) H3 H2 ltac:(lia)) as [_ Hc].
  eapply canon_canonical. exact Hc.
Qed.

(* ================================================================== *)
(* Part II: jitunion (k_union)                                          *)

(* lower bound on the first start *)
Definition lo_le (lo : Z) (A : iset) : Prop :=
  match A with [] => True | (s, _) :: _ => lo <= s end.

(* weakly canonical from [lo]: inductive-friendly form of weakly_canonical *)
Fixpoint wcan (lo : Z) (A : iset) : Prop :=
  match A with
  | [] => True
  | (s, e) :: r => lo <= s /\ s < e /\ wcan e r
  end.

Lemma wcan_weakly_canonical A : forall lo, wcan lo A -> weakly_canonical A.
Proof.
  induction A as [|[s e] r IH]; intros lo H; simpl; [auto|].
  destruct H as (H1 & H2 & H3). split; [assumption|]. split.
  - destruct r as [|[s' e'] r']; [auto|]. simpl in H3. lia.
  - eapply IH; eassumption.
Qed.

Lemma canon_lo_le A la : canon la A -> lo_le la A.
Proof. destruct A as [|[s e] r]; simpl; [auto|]. lia. Qed.

Lemma canon_wcan A : forall la lo, canon la A -> lo_le lo A -> wcan lo A.
Proof.
  induction A as [|[s e] r IH]; intros la lo H Hlo; simpl; [auto|].
  destruct H as (H1 & H2 & H3). simpl in Hlo.
  repeat split; try assumption.
  apply (IH e e H3). apply canon_lo_le. exact H3.
Qed.

(* side conditions of the sweep lemma: bounds, fuel, canon of a suffix *)
Ltac side :=
  try assumption; try exact I;
  try (cbn [length lo_le canon]; lia);
  try (apply canon_lo_le; assumption);
  try (cbn [canon]; repeat split; try assumption; lia).

Section Go.
  (* PS holds of every start of the inputs, PE of every end *)
  Variables PS PE : Z -> Prop.
  Definition okI (I : Z * Z) : Prop := PS (fst I) /\ PE (snd I).

  (* the three facts carried through the sweep: exact membership, order, provenance *)
  Definition good (lo : Z) (out : iset) (m : Z -> bool) : Prop :=
    (forall x, mem x out = m x) /\ wcan lo out /\ Forall okI out.

  Lemma good_ext lo out m m' : good lo out m -> (forall x, m x = m' x) -> good lo out m'.
  Proof. intros (H1 & H2 & H3) H. split; [|split]; try assumption. intros x. rewrite H1. apply H. Qed.

  Lemma good_cons lo s e out m m' :
    lo <= s -> s < e -> PS s -> PE e -> good e out m' ->
    (forall x, inb x (s, e) || m' x = m x) -> good lo ((s, e) :: out) m.
  Proof.
    intros Hlo Hse Hs He (H1 & H2 & H3) H. split; [|split].
    - intros x. rewrite mem_cons, H1. apply H.
    - cbn [wcan]. auto.
    - constructor; [split; assumption|assumption].
  Qed.

  Lemma good_self lo la A m :
    canon la A -> lo_le lo A -> Forall okI A -> (forall x, mem x A = m x) -> good lo A m.
  Proof.
    intros Hc Hlo HF H. split; [|split]; try assumption. eapply canon_wcan; eassumption.
  Qed.

  Lemma union_go_spec : forall fuel,
    (forall A B la lb lo,
        canon la A -> canon lb B -> Forall okI A -> Forall okI B ->
        lo_le lo A -> lo_le lo B ->
        (2 * (length A + length B) + 1 <= fuel)%nat ->
        good lo (union_go fuel None A B) (fun x => mem x A || mem x B))
    /\
    (forall ns s1 e1 A' s2 e2 B' la lb lo,
        canon la ((s1, e1) :: A') -> canon lb ((s2, e2) :: B') ->
        Forall okI ((s1, e1) :: A') -> Forall okI ((s2, e2) :: B') ->
        (2 * (length ((s1, e1) :: A') + length ((s2, e2) :: B')) <= fuel)%nat ->
        ns <= Z.min s1 s2 -> s1 <= e2 -> s2 <= e1 -> lo <= ns -> PS ns ->
        good lo (union_go fuel (Some ns) ((s1, e1) :: A') ((s2, e2) :: B'))
             (fun x => inb x (ns, Z.min s1 s2) || mem x ((s1, e1) :: A') || mem x ((s2, e2) :: B'))).
  Proof.
    induction fuel as [|fuel [IHo IHc]].
    { split; intros; cbn [length] in *; lia. }
    split.
    - (* outer loop *)
      intros A B la lb lo HcA HcB HFA HFB HlA HlB Hfuel.
      destruct A as [|[s1 e1] A'].
      { cbn [union_go]. eapply good_self; try eassumption. reflexivity. }
      destruct B as [|[s2 e2] B'].
      { cbn [union_go]. eapply good_self; try eassumption.
        intros x. cbn beta. rewrite orb_false_r. reflexivity. }
      cbn [union_go].
      pose proof HcA as HcA0. pose proof HcB as HcB0. pose proof HFA as HFA0. pose proof HFB as HFB0.
      destruct HcA as (HA1 & HA2 & HA3). destruct HcB as (HB1 & HB2 & HB3).
      apply Forall_cons_iff in HFA. destruct HFA as [[HPA1 HPA2] HFA].
      apply Forall_cons_iff in HFB. destruct HFB as [[HPB1 HPB2] HFB].
      cbn [fst snd lo_le length] in *.
      destruct (e2 <=? s1) eqn:E1.
      + eapply good_cons with (m' := fun x => mem x ((s1, e1) :: A') || mem x B'); try assumption.
        * apply (IHo _ _ la e2 e2); side.
        * intros x. rewrite !mem_cons. blia.
      + destruct (s2 <? e1) eqn:E2.
        * eapply good_ext.
          -- apply (IHc (Z.min s1 s2) s1 e1 A' s2 e2 B' la lb lo); side.
             destruct (Z.min_spec s1 s2) as [[_ ->]|[_ ->]]; assumption.
          -- intros x. cbn beta. rewrite !mem_cons. blia.
        * eapply good_cons with (m' := fun x => mem x A' || mem x ((s2, e2) :: B')); try assumption.
          -- apply (IHo _ _ e1 lb e1); side.
          -- intros x. rewrite !mem_cons. blia.
    - (* inner (chain) loop *)
      intros ns s1 e1 A' s2 e2 B' la lb lo HcA HcB HFA HFB Hfuel Hns H12 H21 Hlo HPns.
      cbn [union_go].
      pose proof HcA as HcA0. pose proof HcB as HcB0. pose proof HFA as HFA0. pose proof HFB as HFB0.
      destruct HcA as (HA1 & HA2 & HA3). destruct HcB as (HB1 & HB2 & HB3).
      apply Forall_cons_iff in HFA. destruct HFA as [[HPA1 HPA2] HFA].
      apply Forall_cons_iff in HFB. destruct HFB as [[HPB1 HPB2] HFB].
      cbn [fst snd length] in *.
      destruct (e1 <? e2) eqn:E.
      + (* set 1 advances *)
        replace (Z.max e1 e2) with e2 by lia.
        destruct A' as [|[s1' e1'] A''].
        * cbn [tl].
          eapply good_cons with (m' := fun x => mem x [] || mem x B'); try assumption; try lia.
          -- apply (IHo _ _ e2 e2 e2); side.
          -- intros x. rewrite !mem_cons. cbn [mem existsb]. blia.
        * pose proof HA3 as HA30. pose proof HFA as HFA1.
          destruct HA3 as (HA4 & HA5 & HA6).
          apply Forall_cons_iff in HFA. destruct HFA as [[HPA3 HPA4] HFA].
          cbn [fst snd length] in *.
          destruct (e2 <? s1') eqn:E3.
          -- cbn [tl].
             eapply good_cons with (m' := fun x => mem x ((s1', e1') :: A'') || mem x B');
               try assumption; try lia.
             ++ apply (IHo _ _ e2 e2 e2); side.
             ++ intros x. rewrite !mem_cons. blia.
          -- destruct (e1' <? s2) eqn:E4; [exfalso; lia|].
             eapply good_ext.
             ++ apply (IHc ns s1' e1' A'' s2 e2 B' e1 lb lo); side.
             ++ intros x. cbn beta. rewrite !mem_cons. blia.
      + (* set 2 advances *)
        replace (Z.max e1 e2) with e1 by lia.
        destruct B' as [|[s2' e2'] B''].
        * cbn [tl].
          eapply good_cons with (m' := fun x => mem x A' || mem x []); try assumption; try lia.
          -- apply (IHo _ _ e1 e1 e1); side.
          -- intros x. rewrite !mem_cons. cbn [mem existsb]. blia.
        * pose proof HB3 as HB30. pose proof HFB as HFB1.
          destruct HB3 as (HB4 & HB5 & HB6).
          apply Forall_cons_iff in HFB. destruct HFB as [[HPB3 HPB4] HFB].
          cbn [fst snd length] in *.
          destruct (e2' <? s1) eqn:E3; [exfalso; lia|].
          destruct (e1 <? s2') eqn:E4.
          -- cbn [tl].
             eapply good_cons with (m' := fun x => mem x A' || mem x ((s2', e2') :: B''));
               try assumption; try lia.
             ++ apply (IHo _ _ e1 e1 e1); side.
             ++ intros x. rewrite !mem_cons. blia.
          -- eapply good_ext.
             ++ apply (IHc ns s1 e1 A' s2' e2' B'' la e2 lo); side.
             ++ intros x. cbn beta. rewrite !mem_cons. blia.
  Qed.
End Go.

Lemma lo_le_weaken A lo lo' : lo' <= lo -> lo_le lo A -> lo_le lo' A.
Proof. destruct A as [|[s e] r]; simpl; [auto|]. lia. Qed.

(* the sweep started by k_union, with any sufficient fuel *)
Lemma union_go_outer PS PE fuel A B :
  canonical A -> canonical B ->
  Forall (okI PS PE) A -> Forall (okI PS PE) B ->
  (2 * (length A + length B) + 1 <= fuel)%nat ->
  exists lo, good PS PE lo (union_go fuel None A B) (fun x => mem x A || mem x B).
Proof.
  intros HA HB HFA HFB Hfuel.
  destruct (canonical_canon A HA) as [la HcA].
  destruct (canonical_canon B HB) as [lb HcB].
  exists (Z.min la lb).
  apply (proj1 (union_go_spec PS PE fuel) A B la lb); try assumption.
  - eapply lo_le_weaken; [|apply canon_lo_le; exact HcA]. lia.
  - eapply lo_le_weaken; [|apply canon_lo_le; exact HcB]. lia.
Qed.

Lemma Forall_okI_True A : Forall (okI (fun _ => True) (fun _ => True)) A.
Proof. apply Forall_forall. intros; split; exact I. Qed.

(* fuel independence: any fuel >= 2(|A|+|B|)+1 gives the same membership *)
Lemma union_go_mem fuel A B x :
  canonical A -> canonical B -> (2 * (length A + length B) + 1 <= fuel)%nat ->
  mem x (union_go fuel None A B) = mem x A || mem x B.
Proof.
  intros HA HB Hf.
  destruct (union_go_outer (fun _ => True) (fun _ => True) fuel A B HA HB
              (Forall_okI_True A) (Forall_okI_True B) Hf) as [lo (H & _ & _)].
  apply H.
Qed.

(* 1 *)
Theorem union_mem (A B : iset) (x : Z) :
  canonical A -> canonical B -> mem x (k_union A B) = mem x A || mem x B.
Proof. intros HA HB. unfold k_union. apply union_go_mem; [assumption|assumption|lia]. Qed.

(* 2 *)
Theorem union_raw_wf (A B : iset) :
  canonical A -> canonical B -> weakly_canonical (k_union A B).
Proof.
  intros HA HB. unfold k_union.
  destruct (union_go_outer (fun _ => True) (fun _ => True)
              (2 * (length A + length B) + 2) A B HA HB
              (Forall_okI_True A) (Forall_okI_True B) ltac:(lia)) as [lo (_ & H & _)].
  eapply wcan_weakly_canonical. exact H.
Qed.

(* 3, in the sharper form: every output start is a start of A or B, every output end an end *)
Lemma Forall_okI_self A B :
  Forall (okI (fun z => In z (starts A) \/ In z (starts B))
              (fun z => In z (ends A) \/ In z (ends B))) A
  /\ Forall (okI (fun z => In z (starts A) \/ In z (starts B))
                 (fun z => In z (ends A) \/ In z (ends B))) B.
Proof.
  split; apply Forall_forall; intros I HI; split.
  - left. apply in_map. exact HI.
  - left. apply in_map. exact HI.
  - right. apply in_map. exact HI.
  - right. apply in_map. exact HI.
Qed.

Theorem union_starts_ends (A B : iset) :
  canonical A -> canonical B ->
  Forall (fun I => (In (fst I) (starts A) \/ In (fst I) (starts B))
                   /\ (In (snd I) (ends A) \/ In (snd I) (ends B))) (k_union A B).
Proof.
  intros HA HB. unfold k_union.
  destruct (Forall_okI_self A B) as [HFA HFB].
  destruct (union_go_outer _ _ (2 * (length A + length B) + 2) A B HA HB HFA HFB ltac:(lia))
    as [lo (_ & _ & H)].
  exact H.
Qed.

Theorem union_endpoints (A B : iset) :
  canonical A -> canonical B ->
  Forall (fun I => endpoint (fst I) A \/ endpoint (fst I) B) (k_union A B)
  /\ Forall (fun I => endpoint (snd I) A \/ endpoint (snd I) B) (k_union A B).
Proof.
  intros HA HB. pose proof (union_starts_ends A B HA HB) as H.
  unfold endpoint.
  split; (eapply Forall_impl'; [|exact H]); cbv beta; intros I HI; tauto.
Qed.

(* 6 *)
Theorem union_comm_mem (A B : iset) (x : Z) :
  canonical A -> canonical B -> mem x (k_union A B) = mem x (k_union B A).
Proof.
  intros HA HB. rewrite (union_mem A B x HA HB), (union_mem B A x HB HA). apply orb_comm.
Qed.

Print Assumptions union_mem.
Print Assumptions union_raw_wf.
Print Assumptions union_endpoints.
Print Assumptions union_n_mem.
Print Assumptions union_n_canonical.
Print Assumptions union_comm_mem.
