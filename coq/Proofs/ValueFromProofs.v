(* Proofs about the jitvaluefrom model (Model/ValueFrom.v).
   (a) vf_interval_spec : the two-cursor kernel answers every query of one interval correctly
   (b) value_from_structure, (c) value_from_length, (d) sources_concat, (e) vf_all_in_range.
   Cursor invariants (entry cursor c of query x, Inv below):
     mode 0 : c < |src| /\ (src[c] <= x \/ c = 0)
     mode 1 : c < |src| /\ forall j <= c, |src[c]-x| <= |src[j]-x|
     mode 2 : c < |src| /\ forall j <  c, src[j] < x
   Each is monotone in x (for sorted src), holds at c = 0, and is re-established by vf_query. *)
From Verif Require Import Base.Prelude Model.Restrict Model.ValueFrom Proofs.BaseLemmas Proofs.RestrictProofs.
From Coq Require Import ZifyBool.

(* ---------- sorted lists and nth ---------- *)
Lemma sorted_nth l : forall i j, sortedZ l -> (i <= j < length l)%nat -> nth i l 0 <= nth j l 0.
Proof.
  induction l as [|a r IH]; intros i j Hs Hij; simpl in Hij; [lia|].
  destruct i as [|i], j as [|j]; try lia.
  - pose proof (sortedZ_cons_Forall _ _ Hs) as F. rewrite Forall_nth in F.
    change (a <= nth j r 0). apply F. lia.
  - change (nth i r 0 <= nth j r 0). apply IH; [eapply sortedZ_tail; exact Hs|lia].
Qed.

Ltac by_nth k Hk := apply Forall_nth; intros k ?d Hk; rewrite (nth_indep _ _ 0 Hk).

(* ---------- unfolding lemmas ---------- *)
Definition vf_fin (mode x : Z) (src : list Z) (t : option nat * nat * bool * bool) : option nat * nat :=
  let '(r, i', nc, broke) := t in
  ((if (i' =? length src)%nat then
      if (if mode =? 2 then (nth (i' - 1) src 0 - x <? 0) else nc) then None else r
    else r), (i' - 1)%nat).

Lemma vf_query_fin mode x src i :
  vf_query mode x src i =
  vf_fin mode x src (vf_inner (S (length src)) mode x src (S i) i (ivl mode (nth i src 0) x)
                              ((mode =? 0) && (0 <? ivl mode (nth i src 0) x))).
Proof.
  unfold vf_query, vf_fin.
  destruct (vf_inner (S (length src)) mode x src (S i) i (ivl mode (nth i src 0) x)
                     ((mode =? 0) && (0 <? ivl mode (nth i src 0) x))) as [[[r i'] nc] b].
  reflexivity.
Qed.

Lemma vf_inner_S f mode x src i cur interval nc :
  vf_inner (S f) mode x src i cur interval nc =
  if (i <? length src)%nat then
    let nw := ivl mode (nth i src 0) x in
    let break_cond :=
      if mode =? 1 then interval <? nw
      else if mode =? 0 then ((0 <? nw) && (interval <=? 0)) || (0 <=? interval)
           else ((nw <? 0) && (0 <=? interval)) || (0 <=? interval) in
    let nc' := if mode =? 1 then false else if mode =? 0 then 0 <? interval else nw <? 0 in
    if break_cond then ((if nc' then None else Some cur), i, nc', true)
    else vf_inner f mode x src (S i) i nw nc'
  else (Some cur, i, nc, false).
Proof. reflexivity. Qed.

Lemma vf_inner_S0 f x src i cur interval nc :
  vf_inner (S f) 0 x src i cur interval nc =
  if (i <? length src)%nat then
    if ((0 <? nth i src 0 - x) && (interval <=? 0)) || (0 <=? interval)
    then ((if 0 <? interval then None else Some cur), i, (0 <? interval), true)
    else vf_inner f 0 x src (S i) i (nth i src 0 - x) (0 <? interval)
  else (Some cur, i, nc, false).
Proof. reflexivity. Qed.

Lemma vf_inner_S1 f x src i cur interval nc :
  vf_inner (S f) 1 x src i cur interval nc =
  if (i <? length src)%nat then
    if interval <? Z.abs (nth i src 0 - x)
    then (Some cur, i, false, true)
    else vf_inner f 1 x src (S i) i (Z.abs (nth i src 0 - x)) false
  else (Some cur, i, nc, false).
Proof. reflexivity. Qed.

Lemma vf_inner_S2 f x src i cur interval nc :
  vf_inner (S f) 2 x src i cur interval nc =
  if (i <? length src)%nat then
    if ((nth i src 0 - x <? 0) && (0 <=? interval)) || (0 <=? interval)
    then ((if nth i src 0 - x <? 0 then None else Some cur), i, (nth i src 0 - x <? 0), true)
    else vf_inner f 2 x src (S i) i (nth i src 0 - x) (nth i src 0 - x <? 0)
  else (Some cur, i, nc, false).
Proof. reflexivity. Qed.

(* ---------- mode 0 : latest source at or before x ---------- *)
Lemma inner0 x src : sortedZ src -> forall f cur nc,
  (cur < length src)%nat -> (length src <= f + cur)%nat ->
  nc = (0 <? nth cur src 0 - x) ->
  (nth cur src 0 <= x \/ cur = 0%nat) ->
  forall r c', vf_fin 0 x src (vf_inner f 0 x src (S cur) cur (nth cur src 0 - x) nc) = (r, c') ->
  best_before x src r /\ (c' < length src)%nat /\ (nth c' src 0 <= x \/ c' = 0%nat).
Proof.
  intros Hs. induction f as [|f IH]; intros cur nc Hc Hf Hnc Hinv r c' H; [lia|].
  rewrite vf_inner_S0 in H.
  destruct (S cur <? length src)%nat eqn:E1.
  - destruct (((0 <? nth (S cur) src 0 - x) && (nth cur src 0 - x <=? 0)) || (0 <=? nth cur src 0 - x)) eqn:E2.
    + unfold vf_fin in H.
      assert (E3 : (S cur =? length src)%nat = false) by lia. rewrite E3 in H.
      replace (S cur - 1)%nat with cur in H by lia.
      destruct (0 <? nth cur src 0 - x) eqn:E4; inversion H; subst r c'; clear H.
      * split; [|split; [assumption|right; lia]].
        simpl. by_nth k Hk.
        assert (cur = 0%nat) by lia. subst cur.
        pose proof (sorted_nth src 0 k Hs). lia.
      * split; [|split; [assumption|left; lia]].
        simpl. split; [assumption|]. split; [lia|].
        by_nth k Hk. intros Hle.
        destruct (le_lt_dec k cur) as [L|L].
        -- apply sorted_nth; [assumption|lia].
        -- pose proof (sorted_nth src (S cur) k Hs).
           pose proof (sorted_nth src cur (S cur) Hs). lia.
    + apply (IH (S cur) (0 <? nth cur src 0 - x)); try lia. exact H.
  - assert (Hl : S cur = length src) by lia.
    unfold vf_fin in H.
    assert (E3 : (S cur =? length src)%nat = true) by lia. rewrite E3 in H.
    change (0 =? 2) with false in H. cbv iota in H.
    replace (S cur - 1)%nat with cur in H by lia.
    subst nc.
    destruct (0 <? nth cur src 0 - x) eqn:E4; inversion H; subst r c'; clear H.
    * split; [|split; [assumption|right; lia]].
      simpl. by_nth k Hk.
      assert (cur = 0%nat) by lia. subst cur.
      pose proof (sorted_nth src 0 k Hs). lia.
    * split; [|split; [assumption|left; lia]].
      simpl. split; [assumption|]. split; [lia|].
      by_nth k Hk. intros Hle. apply sorted_nth; [assumption|lia].
Qed.

(* ---------- mode 1 : nearest source ---------- *)
Lemma inner1 x src : sortedZ src -> forall f cur nc,
  (cur < length src)%nat -> (length src <= f + cur)%nat ->
  nc = false ->
  (forall j, (j <= cur)%nat -> Z.abs (nth cur src 0 - x) <= Z.abs (nth j src 0 - x)) ->
  forall r c', vf_fin 1 x src (vf_inner f 1 x src (S cur) cur (Z.abs (nth cur src 0 - x)) nc) = (r, c') ->
  best_closest x src r /\ (c' < length src)%nat /\
  (forall j, (j <= c')%nat -> Z.abs (nth c' src 0 - x) <= Z.abs (nth j src 0 - x)).
Proof.
  intros Hs. induction f as [|f IH]; intros cur nc Hc Hf Hnc Hinv r c' H; [lia|].
  rewrite vf_inner_S1 in H.
  destruct (S cur <? length src)%nat eqn:E1.
  - destruct (Z.abs (nth cur src 0 - x) <? Z.abs (nth (S cur) src 0 - x)) eqn:E2.
    + unfold vf_fin in H.
      assert (E3 : (S cur =? length src)%nat = false) by lia. rewrite E3 in H.
      replace (S cur - 1)%nat with cur in H by lia.
      inversion H; subst r c'; clear H.
      split; [|split; assumption].
      simpl. split; [assumption|].
      by_nth k Hk.
      destruct (le_lt_dec k cur) as [L|L].
      * apply Hinv; assumption.
      * pose proof (sorted_nth src (S cur) k Hs).
        pose proof (sorted_nth src cur (S cur) Hs). lia.
    + apply (IH (S cur) false); try lia; [|exact H].
      intros j Hj. destruct (Nat.eq_dec j (S cur)) as [->|Hne]; [lia|].
      specialize (Hinv j). lia.
  - assert (Hl : S cur = length src) by lia.
    unfold vf_fin in H.
    assert (E3 : (S cur =? length src)%nat = true) by lia. rewrite E3 in H.
    change (1 =? 2) with false in H. cbv iota in H.
    replace (S cur - 1)%nat with cur in H by lia.
    subst nc. inversion H; subst r c'; clear H.
    split; [|split; assumption].
    simpl. split; [assumption|].
    by_nth k Hk. apply Hinv. lia.
Qed.

(* ---------- mode 2 : earliest source at or after x ---------- *)
Lemma inner2 x src : sortedZ src -> forall f cur nc,
  (cur < length src)%nat -> (length src <= f + cur)%nat ->
  (forall j, (j < cur)%nat -> nth j src 0 < x) ->
  forall r c', vf_fin 2 x src (vf_inner f 2 x src (S cur) cur (nth cur src 0 - x) nc) = (r, c') ->
  best_after x src r /\ (c' < length src)%nat /\ (forall j, (j < c')%nat -> nth j src 0 < x).
Proof.
  intros Hs. induction f as [|f IH]; intros cur nc Hc Hf Hinv r c' H; [lia|].
  rewrite vf_inner_S2 in H.
  assert (Hsome : x <= nth cur src 0 -> best_after x src (Some cur)).
  { intros Hx. simpl. split; [assumption|]. split; [assumption|].
    by_nth k Hk. intros Hle.
    destruct (le_lt_dec cur k) as [L|L].
    - apply sorted_nth; [assumption|lia].
    - specialize (Hinv k L). lia. }
  destruct (S cur <? length src)%nat eqn:E1.
  - destruct (((nth (S cur) src 0 - x <? 0) && (0 <=? nth cur src 0 - x)) || (0 <=? nth cur src 0 - x)) eqn:E2.
    + unfold vf_fin in H.
      assert (E3 : (S cur =? length src)%nat = false) by lia. rewrite E3 in H.
      replace (S cur - 1)%nat with cur in H by lia.
      pose proof (sorted_nth src cur (S cur) Hs).
      destruct (nth (S cur) src 0 - x <? 0) eqn:E4; [lia|].
      inversion H; subst r c'; clear H.
      split; [apply Hsome; lia|split; assumption].
    + apply (IH (S cur) (nth (S cur) src 0 - x <? 0)); try lia; [|exact H].
      intros j Hj. destruct (Nat.eq_dec j cur) as [->|Hne]; [lia|]. apply Hinv. lia.
  - assert (Hl : S cur = length src) by lia.
    unfold vf_fin in H.
    assert (E3 : (S cur =? length src)%nat = true) by lia. rewrite E3 in H.
    change (2 =? 2) with true in H. cbv iota in H.
    replace (S cur - 1)%nat with cur in H by lia.
    destruct (nth cur src 0 - x <? 0) eqn:E4; inversion H; subst r c'; clear H.
    * split; [|split; assumption].
      simpl. by_nth k Hk. pose proof (sorted_nth src k cur Hs). lia.
    * split; [apply Hsome; lia|split; assumption].
Qed.

(* ---------- the cursor invariant, all modes ---------- *)
Definition Inv (mode x : Z) (src : list Z) (c : nat) : Prop :=
  (c < length src)%nat /\
  if mode =? 0 then nth c src 0 <= x \/ c = 0%nat
  else if mode =? 1 then forall j, (j <= c)%nat -> Z.abs (nth c src 0 - x) <= Z.abs (nth j src 0 - x)
  else forall j, (j < c)%nat -> nth j src 0 < x.

Lemma Inv_init mode x src : src <> [] -> Inv mode x src 0%nat.
Proof.
  intros Hne. split.
  - destruct src; [congruence|simpl; lia].
  - destruct (mode =? 0); [right; reflexivity|]. destruct (mode =? 1).
    + intros j Hj. assert (j = 0%nat) by lia. subst. lia.
    + intros j Hj. lia.
Qed.

Lemma Inv_mono mode x x' src c : sortedZ src -> x <= x' -> Inv mode x src c -> Inv mode x' src c.
Proof.
  intros Hs Hx [Hc H]. split; [assumption|].
  destruct (mode =? 0); [lia|]. destruct (mode =? 1).
  - intros j Hj. specialize (H j Hj). pose proof (sorted_nth src j c Hs). lia.
  - intros j Hj. specialize (H j Hj). lia.
Qed.

Lemma vf_query_spec mode x src c :
  (mode = 0 \/ mode = 1 \/ mode = 2) -> sortedZ src -> Inv mode x src c ->
  forall r c', vf_query mode x src c = (r, c') -> vf_spec mode x src r /\ Inv mode x src c'.
Proof.
  intros Hm Hs [Hc Hi] r c' H. rewrite vf_query_fin in H. unfold vf_spec, Inv.
  destruct Hm as [-> | [-> | ->]].
  - change (0 =? 0) with true in *. cbv iota in *.
    change (ivl 0 (nth c src 0) x) with (nth c src 0 - x) in H. cbn [andb] in H.
    eapply inner0 in H; try eassumption; try lia; try reflexivity.
  - change (1 =? 0) with false in *. change (1 =? 1) with true in *. cbv iota in *.
    change (ivl 1 (nth c src 0) x) with (Z.abs (nth c src 0 - x)) in H. cbn [andb] in H.
    eapply inner1 in H; try eassumption; try lia; try reflexivity.
  - change (2 =? 0) with false in *. change (2 =? 1) with false in *. cbv iota in *.
    change (ivl 2 (nth c src 0) x) with (nth c src 0 - x) in H. cbn [andb] in H.
    eapply inner2 in H; try eassumption; try lia.
Qed.

Lemma vf_interval_gen mode src :
  (mode = 0 \/ mode = 1 \/ mode = 2) -> sortedZ src ->
  forall qs c, sortedZ qs ->
  match qs with [] => True | x :: _ => Inv mode x src c end ->
  Forall2 (fun x r => vf_spec mode x src r) qs (vf_interval mode qs src c).
Proof.
  intros Hm Hs. induction qs as [|x q IH]; intros c Hq Hinv; [constructor|].
  cbn [vf_interval]. destruct (vf_query mode x src c) as [res c'] eqn:E.
  destruct (vf_query_spec mode x src c Hm Hs Hinv res c' E) as [Hspec Hinv'].
  constructor; [exact Hspec|].
  apply IH; [eapply sortedZ_tail; exact Hq|].
  destruct q as [|x' q']; [exact I|].
  eapply Inv_mono; [exact Hs| |exact Hinv']. simpl in Hq. tauto.
Qed.

(* (a) *)
Theorem vf_interval_spec : forall mode qs src,
  (mode = 0 \/ mode = 1 \/ mode = 2) -> src <> [] -> sortedZ src -> sortedZ qs ->
  Forall2 (fun x r => vf_spec mode x src r) qs (vf_interval mode qs src 0%nat).
Proof.
  intros mode qs src Hm Hne Hs Hq. apply vf_interval_gen; try assumption.
  destruct qs; [exact I|]. apply Inv_init; assumption.
Qed.

(* ---------- (b) structure ---------- *)
Lemma select_filter_idx0 (p : Z -> bool) ts : select 0 ts (filter_idx p 0%nat ts) = filter p ts.
Proof.
  pose proof (select_filter_idx 0 p ts [] ts eq_refl) as H. simpl in H. rewrite H.
  clear. induction ts as [|t r IH]; simpl; [reflexivity|].
  destruct (p t); simpl; rewrite IH; reflexivity.
Qed.

Lemma per_interval_spec ts ep : sortedZ ts -> canonical ep ->
  per_interval ts ep = map (fun iv => filter (fun x => inb x iv) ts) ep.
Proof.
  intros Hs Hc. destruct (canonical_canon _ Hc) as [lo Hlo]. unfold per_interval.
  destruct (scan_spec ep lo 0%nat ts Hlo Hs) as [H _].
  { apply Forall_forall; intros; right; exact I. }
  rewrite H, map_map. apply map_ext. intros iv. apply select_filter_idx0.
Qed.

Theorem value_from_structure : forall mode qs src ep,
  sortedZ qs -> sortedZ src -> canonical ep ->
  value_from mode qs src ep =
  vf_all mode (map (fun iv => filter (fun x => inb x iv) qs) ep)
              (map (fun iv => filter (fun y => inb y iv) src) ep) 0%nat.
Proof.
  intros mode qs src ep Hq Hs Hc. unfold value_from.
  rewrite !per_interval_spec by assumption. reflexivity.
Qed.

(* ---------- (c) length ---------- *)
Lemma restrict_scan_length ep : forall i ts, length (restrict_scan ep i ts) = length ep.
Proof.
  induction ep as [|[s e] r IH]; intros i ts; [reflexivity|].
  cbn [restrict_scan]. destruct (drop_lt s i ts) as [i1 ts1].
  destruct (take_le e i1 ts1) as [ix [i2 ts2]]. simpl. rewrite IH. reflexivity.
Qed.

Lemma vf_interval_length mode src : forall qs c, length (vf_interval mode qs src c) = length qs.
Proof.
  induction qs as [|x q IH]; intros c; [reflexivity|].
  cbn [vf_interval]. destruct (vf_query mode x src c) as [res c']. simpl. rewrite IH. reflexivity.
Qed.

Lemma vf_all_length mode : forall qss sss off,
  length qss = length sss -> length (vf_all mode qss sss off) = length (concat qss).
Proof.
  induction qss as [|qs qr IH]; intros sss off Hl; destruct sss as [|src sr]; simpl in Hl; try lia; [reflexivity|].
  cbn [vf_all concat]. rewrite !app_length, IH by lia. f_equal.
  destruct src; [apply map_length|]. rewrite map_length. apply vf_interval_length.
Qed.

Lemma concat_per_interval ts ep : concat (per_interval ts ep) = restrict_ts ts ep.
Proof.
  unfold per_interval, restrict_ts, restrict_idx, select. rewrite concat_map. reflexivity.
Qed.

Lemma value_from_length_gen mode qs src ep :
  length (value_from mode qs src ep) = length (restrict_idx qs ep).
Proof.
  unfold value_from. rewrite vf_all_length.
  - rewrite concat_per_interval. unfold restrict_ts, select. apply map_length.
  - unfold per_interval. rewrite !map_length, !restrict_scan_length. reflexivity.
Qed.

Theorem value_from_length : forall mode qs src ep,
  sortedZ qs -> sortedZ src -> canonical ep ->
  length (value_from mode qs src ep) = length (restrict_idx qs ep).
Proof. intros. apply value_from_length_gen. Qed.

(* ---------- (d) offsets are positions in the restricted source array ---------- *)
Theorem sources_concat : forall src ep, sortedZ src -> canonical ep ->
  concat (map (fun iv => filter (fun y => inb y iv) src) ep) = restrict_ts src ep.
Proof.
  intros src ep Hs Hc. rewrite <- per_interval_spec by assumption. apply concat_per_interval.
Qed.

(* ---------- (e) index ranges (no sortedness needed) ---------- *)
Lemma vf_inner_range mode x src : forall f cur iv nc r i' nc' b,
  (cur < length src)%nat -> vf_inner f mode x src (S cur) cur iv nc = (r, i', nc', b) ->
  exists c', (c' < length src)%nat /\ i' = S c' /\ (r = None \/ r = Some c').
Proof.
  induction f as [|f IH]; intros cur iv nc r i' nc' b Hc H.
  - simpl in H. inversion H; subst. exists cur. auto.
  - rewrite vf_inner_S in H. cbv zeta in H.
    destruct (S cur <? length src)%nat eqn:E1.
    + match type of H with (if ?bb then _ else _) = _ => destruct bb end.
      * inversion H; subst. exists cur. split; [assumption|]. split; [reflexivity|].
        match goal with |- (if ?bb then _ else _) = _ \/ _ => destruct bb end; auto.
      * eapply IH; [|exact H]. lia.
    + inversion H; subst. exists cur. auto.
Qed.

Definition in_range (lo hi : nat) (r : option nat) : Prop :=
  match r with Some j => (lo <= j < hi)%nat | None => True end.

Lemma vf_query_range mode x src c r c' :
  (c < length src)%nat -> vf_query mode x src c = (r, c') ->
  (c' < length src)%nat /\ in_range 0 (length src) r.
Proof.
  intros Hc H. rewrite vf_query_fin in H.
  destruct (vf_inner (S (length src)) mode x src (S c) c (ivl mode (nth c src 0) x)
                     ((mode =? 0) && (0 <? ivl mode (nth c src 0) x))) as [[[r0 i0] nc0] b0] eqn:E.
  destruct (vf_inner_range _ _ _ _ _ _ _ _ _ _ _ Hc E) as (c0 & Hc0 & -> & Hr).
  unfold vf_fin in H. inversion H; subst; clear H.
  split; [lia|].
  assert (in_range 0 (length src) r0) by (destruct Hr as [-> | ->]; simpl; [exact I|lia]).
  match goal with |- in_range _ _ (if ?bb then _ else _) => destruct bb end; [|assumption].
  match goal with |- in_range _ _ (if ?bb then _ else _) => destruct bb end; [exact I|assumption].
Qed.

(* every answer of one interval is a position inside that interval's source list *)
Theorem vf_interval_in_range : forall mode src qs c, (c < length src)%nat ->
  Forall (in_range 0 (length src)) (vf_interval mode qs src c).
Proof.
  intros mode src. induction qs as [|x q IH]; intros c Hc; [constructor|].
  cbn [vf_interval]. destruct (vf_query mode x src c) as [res c'] eqn:E.
  destruct (vf_query_range _ _ _ _ _ _ Hc E) as [Hc' Hr].
  constructor; [exact Hr|apply IH; exact Hc'].
Qed.

(* the block contributed by one (queries, sources) pair *)
Definition vf_block (mode : Z) (qs src : list Z) (off : nat) : list (option nat) :=
  match src with
  | [] => map (fun _ => None) qs
  | _ => map (option_map (fun j => (off + j)%nat)) (vf_interval mode qs src 0%nat)
  end.

Lemma vf_all_cons mode qs qr src sr off :
  vf_all mode (qs :: qr) (src :: sr) off = vf_block mode qs src off ++ vf_all mode qr sr (off + length src)%nat.
Proof. reflexivity. Qed.

(* k-th block: one answer per query of the block, each inside the block's own index range *)
Theorem vf_block_in_range : forall mode qs src off,
  length (vf_block mode qs src off) = length qs /\
  Forall (in_range off (off + length src)) (vf_block mode qs src off).
Proof.
  intros mode qs src off. unfold vf_block. destruct src as [|a s].
  - split; [apply map_length|]. apply Forall_forall. intros r Hr.
    apply in_map_iff in Hr. destruct Hr as (? & <- & _). exact I.
  - split; [rewrite map_length; apply vf_interval_length|].
    assert (H : (0 < length (a :: s))%nat) by (simpl; lia).
    pose proof (vf_interval_in_range mode (a :: s) qs 0%nat H) as F.
    apply Forall_forall. intros r Hr. apply in_map_iff in Hr. destruct Hr as (r0 & <- & Hin).
    rewrite Forall_forall in F. specialize (F r0 Hin).
    destruct r0 as [j|]; simpl in *; [lia|exact I].
Qed.

Lemma in_range_weaken lo hi lo' hi' r : (lo' <= lo)%nat -> (hi <= hi')%nat -> in_range lo hi r -> in_range lo' hi' r.
Proof. destruct r; simpl; [lia|auto]. Qed.

Theorem vf_all_in_range : forall mode qss sss off,
  Forall (fun r => match r with Some j => (off <= j < off + length (concat sss))%nat | None => True end)
         (vf_all mode qss sss off).
Proof.
  intros mode. induction qss as [|qs qr IH]; intros sss off; destruct sss as [|src sr];
    try (destruct qs; constructor); try constructor.
  rewrite vf_all_cons. apply Forall_app. cbn [concat]. rewrite app_length. split.
  - eapply Forall_impl'; [|apply (proj2 (vf_block_in_range mode qs src off))].
    intros r Hr. change (in_range off (off + (length src + length (concat sr))) r).
    eapply in_range_weaken; [| |exact Hr]; lia.
  - eapply Forall_impl'; [|apply (IH sr (off + length src)%nat)].
    intros r Hr. destruct r as [j|]; [lia|exact I].
Qed.

(* corollary of (d)+(e): every answer of the whole call is a position in the restricted source array *)
Theorem value_from_in_range : forall mode qs src ep,
  Forall (in_range 0 (length (restrict_ts src ep))) (value_from mode qs src ep).
Proof.
  intros mode qs src ep. unfold value_from. rewrite <- concat_per_interval.
  eapply Forall_impl'; [|apply vf_all_in_range]. intros r Hr. destruct r; simpl in *; [lia|exact I].
Qed.

Print Assumptions vf_interval_spec.
Print Assumptions value_from_structure.
Print Assumptions value_from_length.
Print Assumptions sources_concat.
Print Assumptions vf_all_in_range.
Print Assumptions vf_interval_in_range.
Print Assumptions vf_block_in_range.
Print Assumptions value_from_in_range.
