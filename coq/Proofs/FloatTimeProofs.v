(* Seconds, milliseconds and microseconds denote the same instants:
   bit-level (binary64) proof that format_timestamps maps every instant of the
   microsecond lattice within 1e5 s, given in any of the three units as the nearest
   double, to the same canonical double fl((1000*k) / 1e9). *)
From Coq Require Import PrimFloat Uint63 ZArith Reals Lra Lia Floats.
From Flocq Require Import Core BinarySingleNaN PrimFloat Relative.
From Interval Require Import Tactic.
From Verif Require Import Model.FloatTime.
Open Scope float_scope.
Local Notation float := Coq.Floats.PrimFloat.float (only parsing).

Definition fz (k : Z) : float := of_uint63 (Uint63.of_Z k).     (* exact for 0 <= k < 2^53 *)
Definition canon_of (k : Z) : float := fz (1000 * k) / 1e9.        (* k microseconds, as stored *)

(* ------------------------------------------------------------------ *)
(* Real-number view of primitive floats                                 *)
(* ------------------------------------------------------------------ *)

Definition rnd (r : R) : R := round radix2 (FLT_exp (-1074) 53) ZnearestE r.
Definition fin (x : float) : Prop := is_finite (Prim2B x) = true.
Definition FR (x : float) : R := B2R (Prim2B x).
Definition sgn (x : float) : bool := Bsign (Prim2B x).

Definition u : R := (/ 9007199254740992)%R.          (* 2^-53 *)
Definition big : R := 1152921504606846976%R.         (* 2^60 *)
Definition tiny : R := (/ 1073741824)%R.             (* 2^-30 *)

Local Instance valid_flt : Valid_exp (FLT_exp (-1074) 53).
Proof. apply FLT_exp_valid. reflexivity. Qed.

Lemma big_bpow : big = bpow radix2 60.
Proof. unfold big. change (bpow radix2 60) with (IZR (Z.pow_pos 2 60)). reflexivity. Qed.

Lemma tiny_bpow : tiny = bpow radix2 (-30).
Proof. unfold tiny. change (bpow radix2 (-30)) with (/ IZR (Z.pow_pos 2 30))%R. reflexivity. Qed.

Lemma u_bpow : u = (/ 2 * bpow radix2 (- 53 + 1))%R.
Proof.
  unfold u. change (bpow radix2 (-53 + 1)) with (/ IZR (Z.pow_pos 2 52))%R.
  change (Z.pow_pos 2 52) with 4503599627370496%Z. lra.
Qed.

Lemma rnd_no_overflow : forall r, (Rabs r <= big)%R ->
  Rlt_bool (Rabs (round radix2 (fexp prec emax) (round_mode mode_NE) r)) (bpow radix2 emax) = true.
Proof.
  intros r Hr. apply Rlt_bool_true.
  change (fexp prec emax) with (FLT_exp (-1074) 53).
  apply Rle_lt_trans with (bpow radix2 60).
  - apply abs_round_le_generic; try typeclasses eauto.
    + apply generic_format_FLT_bpow. reflexivity. lia.
    + rewrite <- big_bpow. exact Hr.
  - apply bpow_lt. reflexivity.
Qed.

Lemma mul_ok : forall x y, fin x -> fin y -> (Rabs (FR x * FR y) <= big)%R ->
  fin (x * y) /\ FR (x * y) = rnd (FR x * FR y).
Proof.
  unfold fin, FR. intros x y Fx Fy Hb. rewrite mul_equiv.
  generalize (Bmult_correct prec emax Hprec Hmax mode_NE (Prim2B x) (Prim2B y)).
  rewrite (rnd_no_overflow _ Hb). intros (H1 & H2 & _).
  rewrite H2, Fx, Fy. split. reflexivity. exact H1.
Qed.

Lemma div_ok : forall x y, fin x -> (FR y <> 0)%R -> (Rabs (FR x / FR y) <= big)%R ->
  fin (x / y) /\ FR (x / y) = rnd (FR x / FR y).
Proof.
  unfold fin, FR. intros x y Fx Hy Hb. rewrite div_equiv.
  generalize (Bdiv_correct prec emax Hprec Hmax mode_NE (Prim2B x) (Prim2B y) Hy).
  rewrite (rnd_no_overflow _ Hb). intros (H1 & H2 & _).
  rewrite H2, Fx. split. reflexivity. exact H1.
Qed.

Lemma add_ok : forall x y, fin x -> fin y -> (Rabs (FR x + FR y) <= big)%R ->
  fin (x + y) /\ FR (x + y) = rnd (FR x + FR y) /\
  ((0 < FR x + FR y)%R -> sgn (x + y) = false).
Proof.
  unfold fin, FR, sgn. intros x y Fx Fy Hb. rewrite add_equiv.
  generalize (Bplus_correct prec emax Hprec Hmax mode_NE (Prim2B x) (Prim2B y) Fx Fy).
  rewrite (rnd_no_overflow _ Hb). intros (H1 & H2 & H3).
  split. exact H2. split. exact H1.
  intros Hpos. rewrite H3. rewrite Rcompare_Gt by exact Hpos. reflexivity.
Qed.

Lemma sub_ok : forall x y, fin x -> fin y -> (Rabs (FR x - FR y) <= big)%R ->
  fin (x - y) /\ FR (x - y) = rnd (FR x - FR y) /\
  ((0 <= FR x - FR y)%R -> sgn x = false -> sgn (x - y) = false).
Proof.
  unfold fin, FR, sgn. intros x y Fx Fy Hb. rewrite sub_equiv.
  generalize (Bminus_correct prec emax Hprec Hmax mode_NE (Prim2B x) (Prim2B y) Fx Fy).
  rewrite (rnd_no_overflow _ Hb). intros (H1 & H2 & H3).
  split. exact H2. split. exact H1.
  intros Hpos Sx. rewrite H3, Sx.
  destruct (Rcompare_spec (B2R (Prim2B x) - B2R (Prim2B y)) 0); try reflexivity. lra.
Qed.

(* integers below 2^53 are representable *)
Lemma rnd_int : forall n : Z, (Z.abs n < 9007199254740992)%Z -> rnd (IZR n) = IZR n.
Proof.
  intros n Hn. unfold rnd. apply round_generic. typeclasses eauto.
  apply generic_format_FLT. apply FLT_spec with (Float radix2 n 0).
  - unfold F2R; simpl. lra.
  - exact Hn.
  - simpl. lia.
Qed.

Lemma fz_ok : forall n : Z, (0 <= n < 9007199254740992)%Z ->
  fin (fz n) /\ FR (fz n) = IZR n /\ sgn (fz n) = false.
Proof.
  intros n Hn. unfold fin, FR, sgn, fz. rewrite of_int63_equiv.
  rewrite Uint63.of_Z_spec. rewrite Z.mod_small.
  2:{ split. lia. apply Z.lt_trans with (1 := proj2 Hn). reflexivity. }
  generalize (binary_normalize_correct prec emax Hprec Hmax mode_NE n 0 false).
  cbv zeta.
  assert (E : F2R (Float radix2 n 0) = IZR n) by (unfold F2R; simpl; lra).
  rewrite E.
  change (round radix2 (fexp prec emax) (round_mode mode_NE) (IZR n)) with (rnd (IZR n)).
  rewrite rnd_int by lia.
  rewrite Rlt_bool_true.
  2:{ apply Rle_lt_trans with (bpow radix2 60). 2: apply bpow_lt; reflexivity.
      rewrite <- big_bpow. unfold big. rewrite Rabs_pos_eq by (apply IZR_le; lia).
      apply IZR_le. lia. }
  intros (H1 & H2 & H3). split. exact H2. split. exact H1.
  rewrite H3. destruct (Rcompare_spec (IZR n) 0); try reflexivity.
  apply lt_IZR in H. lia.
Qed.

(* constants *)
Lemma FR_SF : forall x, FR x = SF2R radix2 (Prim2SF x).
Proof. intros x. unfold FR, Prim2B. apply B2R_SF2B. Qed.

Lemma fin_prim : forall x, Coq.Floats.PrimFloat.is_finite x = true -> fin x.
Proof. intros x H. unfold fin. rewrite <- is_finite_equiv. exact H. Qed.

Lemma FR_1e9 : FR 1e9 = 1000000000%R.
Proof.
  rewrite FR_SF.
  replace (Prim2SF 1e9) with (S754_finite false 8388608000000000 (-23)) by (vm_compute; reflexivity).
  unfold SF2R, F2R, Fnum, Fexp, cond_Zopp.
  change (bpow radix2 (-23)) with (/ IZR (Z.pow_pos 2 23))%R.
  change (Z.pow_pos 2 23) with 8388608%Z. lra.
Qed.

Lemma FR_1e6 : FR 1e6 = 1000000%R.
Proof.
  rewrite FR_SF.
  replace (Prim2SF 1e6) with (S754_finite false 8589934592000000 (-33)) by (vm_compute; reflexivity).
  unfold SF2R, F2R, Fnum, Fexp, cond_Zopp.
  change (bpow radix2 (-33)) with (/ IZR (Z.pow_pos 2 33))%R.
  change (Z.pow_pos 2 33) with 8589934592%Z. lra.
Qed.

Lemma FR_1e3 : FR 1e3 = 1000%R.
Proof.
  rewrite FR_SF.
  replace (Prim2SF 1e3) with (S754_finite false 8796093022208000 (-43)) by (vm_compute; reflexivity).
  unfold SF2R, F2R, Fnum, Fexp, cond_Zopp.
  change (bpow radix2 (-43)) with (/ IZR (Z.pow_pos 2 43))%R.
  change (Z.pow_pos 2 43) with 8796093022208%Z. lra.
Qed.

Lemma FR_two52 : FR two52 = 4503599627370496%R.
Proof.
  rewrite FR_SF.
  replace (Prim2SF two52) with (S754_finite false 4503599627370496 0) by (vm_compute; reflexivity).
  unfold SF2R, F2R, Fnum, Fexp, cond_Zopp. simpl. lra.
Qed.

Lemma FR_0 : FR 0 = 0%R.
Proof.
  rewrite FR_SF.
  replace (Prim2SF 0) with (S754_zero false) by (vm_compute; reflexivity).
  reflexivity.
Qed.

Lemma fin_1e9 : fin 1e9. Proof. apply fin_prim. reflexivity. Qed.
Lemma fin_1e6 : fin 1e6. Proof. apply fin_prim. reflexivity. Qed.
Lemma fin_1e3 : fin 1e3. Proof. apply fin_prim. reflexivity. Qed.
Lemma fin_two52 : fin two52. Proof. apply fin_prim. reflexivity. Qed.
Lemma fin_0 : fin 0. Proof. apply fin_prim. reflexivity. Qed.

(* ------------------------------------------------------------------ *)
(* rint: the 2^52 trick                                                 *)
(* ------------------------------------------------------------------ *)

Lemma rnd_near_two52 : forall (r : R) (n : Z),
  (0 <= n < 4503599627370496)%Z -> (0 <= r)%R -> (Rabs (r - IZR n) < / 2)%R ->
  rnd (r + 4503599627370496) = IZR (n + 4503599627370496).
Proof.
  intros r n Hn Hr Hd.
  assert (Hn1 : (0 <= IZR n)%R) by (apply IZR_le; lia).
  assert (Hn2 : (IZR n <= 4503599627370495)%R) by (apply IZR_le; lia).
  apply Rabs_def2 in Hd.
  unfold rnd, round, scaled_mantissa, cexp.
  assert (M : mag radix2 (r + 4503599627370496) = 53%Z :> Z).
  { apply mag_unique_pos.
    change (bpow radix2 (53 - 1)) with (IZR (Z.pow_pos 2 52)).
    change (bpow radix2 53) with (IZR (Z.pow_pos 2 53)).
    change (Z.pow_pos 2 52) with 4503599627370496%Z.
    change (Z.pow_pos 2 53) with 9007199254740992%Z. lra. }
  rewrite M. change (FLT_exp (-1074) 53 53) with 0%Z.
  unfold F2R; simpl. rewrite Rmult_1_r, Rmult_1_r.
  f_equal. apply Znearest_imp.
  rewrite plus_IZR. apply Rabs_def1; lra.
Qed.

Lemma rint_near : forall (y : float) (n : Z),
  fin y -> (0 <= FR y)%R -> (Rabs (FR y - IZR n) < / 2)%R ->
  (0 <= n < 4503599627370496)%Z ->
  rint y = fz n.
Proof.
  intros y n Fy Hy Hd Hn.
  assert (Hn1 : (0 <= IZR n)%R) by (apply IZR_le; lia).
  assert (Hn2 : (IZR n <= 4503599627370495)%R) by (apply IZR_le; lia).
  unfold rint.
  assert (L : (y <? 0) = false).
  { rewrite ltb_equiv. rewrite Bltb_correct; [| exact Fy | exact fin_0].
    fold (FR y). fold (FR 0). rewrite FR_0. apply Rlt_bool_false. exact Hy. }
  rewrite L.
  destruct (add_ok y two52 Fy fin_two52) as (F1 & R1 & S1).
  { rewrite FR_two52. unfold big. apply Rabs_def2 in Hd. apply Rabs_le. lra. }
  rewrite FR_two52 in R1, S1.
  rewrite (rnd_near_two52 _ n Hn Hy Hd) in R1.
  specialize (S1 ltac:(lra)).
  destruct (sub_ok (y + two52) two52 F1 fin_two52) as (F2 & R2 & S2).
  { rewrite R1, FR_two52, plus_IZR. unfold big. apply Rabs_le. lra. }
  rewrite R1, FR_two52 in R2, S2.
  replace (IZR (n + 4503599627370496) - 4503599627370496)%R with (IZR n) in R2, S2
    by (rewrite plus_IZR; lra).
  rewrite rnd_int in R2 by lia.
  specialize (S2 Hn1 S1).
  destruct (fz_ok n ltac:(lia)) as (F3 & R3 & S3).
  apply Prim2B_inj. apply B2R_Bsign_inj.
  - exact F2.
  - exact F3.
  - fold (FR (y + two52 - two52)). fold (FR (fz n)). congruence.
  - fold (sgn (y + two52 - two52)). fold (sgn (fz n)). congruence.
Qed.

(* ------------------------------------------------------------------ *)
(* relative error steps                                                  *)
(* ------------------------------------------------------------------ *)

Lemma rnd_rel : forall r, (tiny <= Rabs r)%R ->
  exists e, (Rabs e <= u)%R /\ rnd r = (r * (1 + e))%R.
Proof.
  intros r Hr. rewrite u_bpow. unfold rnd.
  apply (relative_error_N_FLT_ex radix2 (-1074) 53 ltac:(reflexivity) (fun x => negb (Z.even x)) r).
  apply Rle_trans with (2 := Hr). rewrite tiny_bpow. apply bpow_le. lia.
Qed.

Lemma step_mul : forall x c rx rc, fin x -> FR x = rx -> fin c -> FR c = rc ->
  (tiny <= Rabs (rx * rc) <= big)%R ->
  exists e, (- u <= e <= u)%R /\ fin (x * c) /\ FR (x * c) = (rx * rc * (1 + e))%R.
Proof.
  intros x c rx rc Fx Rx Fc Rc (H1, H2).
  destruct (mul_ok x c Fx Fc) as (F & E). { rewrite Rx, Rc. exact H2. }
  rewrite Rx, Rc in E.
  destruct (rnd_rel _ H1) as (e & He & Ee).
  exists e. split. apply Rabs_le_inv. exact He. split. exact F. congruence.
Qed.

Lemma step_div : forall x c rx rc, fin x -> FR x = rx -> FR c = rc -> (rc <> 0)%R ->
  (tiny <= Rabs (rx / rc) <= big)%R ->
  exists e, (- u <= e <= u)%R /\ fin (x / c) /\ FR (x / c) = (rx / rc * (1 + e))%R.
Proof.
  intros x c rx rc Fx Rx Rc Hc (H1, H2).
  destruct (div_ok x c Fx) as (F & E). { rewrite Rc. exact Hc. } { rewrite Rx, Rc. exact H2. }
  rewrite Rx, Rc in E.
  destruct (rnd_rel _ H1) as (e & He & Ee).
  exists e. split. apply Rabs_le_inv. exact He. split. exact F. congruence.
Qed.

(* ------------------------------------------------------------------ *)
(* the three units                                                       *)
(* ------------------------------------------------------------------ *)

Lemma kbounds : forall k : Z, (1 <= k <= 100000000000)%Z ->
  (1 <= IZR k <= 100000000000)%R.
Proof. intros k (H1, H2). split; apply IZR_le; assumption. Qed.

(* seconds: the input is fl(k / 1e6); microseconds: fmt 2 divides k by 1e6 itself *)
Lemma s_case : forall k : Z, (1 <= k <= 100000000000)%Z ->
  around9 (fz k / 1e6) = canon_of k.
Proof.
  intros k Hk. pose proof (kbounds k Hk) as HK.
  destruct (fz_ok k ltac:(lia)) as (F0 & R0 & _).
  destruct (step_div (fz k) 1e6 _ _ F0 R0 FR_1e6) as (e1 & He1 & F1 & R1).
  { lra. }
  { unfold tiny, big. rewrite Rabs_pos_eq.
    split; interval. apply Rmult_le_pos. lra. lra. }
  destruct (step_mul (fz k / 1e6) 1e9 _ _ F1 R1 fin_1e9 FR_1e9) as (e2 & He2 & F2 & R2).
  { unfold tiny, big, u in *. rewrite Rabs_pos_eq.
    split; interval. interval. }
  unfold around9, canon_of. f_equal.
  apply rint_near.
  - exact F2.
  - rewrite R2. unfold u in *. interval.
  - rewrite R2. rewrite mult_IZR.
    replace (IZR k / 1000000 * (1 + e1) * 1000000000 * (1 + e2) - 1000 * IZR k)%R
      with (1000 * IZR k * (e1 + e2 + e1 * e2))%R by field.
    unfold u in *. interval.
  - lia.
Qed.

(* milliseconds: the input is fl(k / 1e3) and fmt 1 divides by 1e3 once more *)
Lemma ms_case : forall k : Z, (1 <= k <= 100000000000)%Z ->
  around9 (fz k / 1e3 / 1e3) = canon_of k.
Proof.
  intros k Hk. pose proof (kbounds k Hk) as HK.
  destruct (fz_ok k ltac:(lia)) as (F0 & R0 & _).
  destruct (step_div (fz k) 1e3 _ _ F0 R0 FR_1e3) as (e1 & He1 & F1 & R1).
  { lra. }
  { unfold tiny, big. rewrite Rabs_pos_eq.
    split; interval. apply Rmult_le_pos. lra. lra. }
  destruct (step_div (fz k / 1e3) 1e3 _ _ F1 R1 FR_1e3) as (e2 & He2 & F2 & R2).
  { lra. }
  { unfold tiny, big, u in *. rewrite Rabs_pos_eq.
    split; interval. interval. }
  destruct (step_mul (fz k / 1e3 / 1e3) 1e9 _ _ F2 R2 fin_1e9 FR_1e9) as (e3 & He3 & F3 & R3).
  { unfold tiny, big, u in *. rewrite Rabs_pos_eq.
    split; interval. interval. }
  unfold around9, canon_of. f_equal.
  apply rint_near.
  - exact F3.
  - rewrite R3. unfold u in *. interval.
  - rewrite R3. rewrite mult_IZR.
    replace (IZR k / 1000 * (1 + e1) / 1000 * (1 + e2) * 1000000000 * (1 + e3) - 1000 * IZR k)%R
      with (1000 * IZR k * ((1 + e1) * (1 + e2) * (1 + e3) - 1))%R by field.
    replace ((1 + e1) * (1 + e2) * (1 + e3) - 1)%R
      with (e1 + e2 + e3 + e1 * e2 + e1 * e3 + e2 * e3 + e1 * e2 * e3)%R by ring.
    unfold u in *. interval.
  - lia.
Qed.

Theorem fmt_lattice : forall k : Z, (0 <= k <= 100000000000)%Z ->
  fmt 2 (fz k) = canon_of k /\            (* given in us: k exactly *)
  fmt 1 (fz k / 1e3) = canon_of k /\      (* given in ms: nearest double to k/1000 *)
  fmt 0 (fz k / 1e6) = canon_of k.        (* given in s : nearest double to k/1e6 *)
Proof.
  intros k Hk.
  destruct (Z.eq_dec k 0) as [-> | Hnz].
  - repeat split; vm_compute; reflexivity.
  - assert (Hk1 : (1 <= k <= 100000000000)%Z) by lia.
    unfold fmt. repeat split.
    + apply s_case; exact Hk1.
    + apply ms_case; exact Hk1.
    + apply s_case; exact Hk1.
Qed.

Print Assumptions rint_near.
Print Assumptions s_case.
Print Assumptions ms_case.
Print Assumptions fmt_lattice.
